// node (V8) "instantiate and call" batch runner for the /verif checks (client: engine/v8x).
// Separate from runner.js (validate/inspect only) and exec.js (C31/C03 server), both untouched.
//
// Protocol: one JSON request per line on stdin, one JSON response per line on stdout.
//   request : {"id": <any>, "jobs": [job, ...]}
//   job     : {"wasm": "<base64>",
//              "imports": [imp, ...],          // what to supply for the module's imports
//              "calls": [{"name": "<export>", "args": ["5", "7n", "f:3ff8000000000000"]}, ...],
//              "maxTrace": 4096}               // cap on recorded host calls (default 4096)
//   imp     : {"module","name","kind":"func",  "results": ["i32"|"i64"|"f32"|"f64", ...]}
//             {"module","name","kind":"memory","min": n, "max": n|null}
//             {"module","name","kind":"table", "min": n, "max": n|null}
//             {"module","name","kind":"global","type": "i32"|..., "mut": bool, "value": "<arg>"}
//     A func import is a recording stub: every call appends "<module>.<name>(<args>)" to the
//     current trace and returns zeros of the declared result types. Function imports of the module
//     that are not listed get a recording stub without results; other unlisted imports are left
//     out (instantiation then reports the link error).
//   args    : decimal string = Number (i32 / f32 / f64 parameter), decimal + "n" = BigInt (i64),
//             "f:<16 hex digits>" = the double with these bits.
//   response: {"id": <same>, "res": [res, ...]}
//   res     : {"valid": bool, "error": "<compile error>",
//              "imports": [{"module","name","kind"}], "exports": [{"name","kind"}],
//              "instantiated": bool, "instError": "<link error or start trap>",
//              "startTrace": ["env.imp(1,2)", ...],   // host calls made during instantiation (start function)
//              "calls": [{"r": "<v1>,<v2>" | "trap:<message>" | "missing", "t": [host calls...]}, ...]}
//     Result values: integers (and integral floats up to 2^32) as signed decimal, other floats as
//     "f:<bits of the double>", no result = "". A missing export gives "missing", a non-function
//     export "notfunc:<kind>".
'use strict';
const readline = require('readline');

function parseArg(s) {
  if (typeof s !== 'string') return s;
  if (s.startsWith('f:')) {
    const b = Buffer.alloc(8);
    b.writeBigUInt64BE(BigInt('0x' + s.slice(2)));
    return b.readDoubleBE(0);
  }
  if (s.endsWith('n')) return BigInt(s.slice(0, -1));
  return Number(s);
}

function showVal(v) {
  if (typeof v === 'bigint') return v.toString();
  if (typeof v === 'number') {
    if (Number.isInteger(v) && !Object.is(v, -0) && Math.abs(v) <= 0xffffffff) return String(v);
    const b = Buffer.alloc(8);
    b.writeDoubleBE(v);
    return 'f:' + b.toString('hex');
  }
  if (v === undefined) return '';
  if (v === null) return 'null';
  return typeof v;
}

function showResult(v) {
  if (Array.isArray(v)) return v.map(showVal).join(',');
  return showVal(v);
}

function zeroOf(t) {
  return t === 'i64' ? 0n : 0;
}

function runJob(job) {
  const out = { valid: false, instantiated: false };
  let buf;
  try {
    buf = Buffer.from(job.wasm, 'base64');
    out.valid = WebAssembly.validate(buf);
  } catch (e) {
    out.error = 'validate threw: ' + String(e);
    return out;
  }
  let mod;
  try {
    mod = new WebAssembly.Module(buf);
  } catch (e) {
    out.error = String(e && e.message || e);
    out.valid = false;
    return out;
  }
  out.imports = WebAssembly.Module.imports(mod).map(x => ({ module: x.module, name: x.name, kind: x.kind }));
  out.exports = WebAssembly.Module.exports(mod).map(x => ({ name: x.name, kind: x.kind }));

  const maxTrace = job.maxTrace || 4096;
  let trace = [];
  const stub = (label, results) => (...args) => {
    if (trace.length < maxTrace) trace.push(label + '(' + args.map(showVal).join(',') + ')');
    else if (trace.length === maxTrace) trace.push('...');
    if (!results || results.length === 0) return undefined;
    if (results.length === 1) return zeroOf(results[0]);
    return results.map(zeroOf);
  };
  const spec = new Map();
  for (const im of (job.imports || [])) spec.set(im.module + '\u0000' + im.name, im);
  const importObj = {};
  try {
    for (const im of out.imports) {
      const s = spec.get(im.module + '\u0000' + im.name);
      let v;
      if (im.kind === 'function') {
        v = stub(im.module + '.' + im.name, s && s.results);
      } else if (!s) {
        continue; // not supplied: instantiation reports the link error
      } else if (im.kind === 'memory') {
        const d = { initial: s.min };
        if (s.max !== null && s.max !== undefined) d.maximum = s.max;
        v = new WebAssembly.Memory(d);
      } else if (im.kind === 'table') {
        const d = { initial: s.min, element: 'anyfunc' };
        if (s.max !== null && s.max !== undefined) d.maximum = s.max;
        v = new WebAssembly.Table(d);
      } else if (im.kind === 'global') {
        v = new WebAssembly.Global({ value: s.type, mutable: !!s.mut }, parseArg(s.value || (s.type === 'i64' ? '0n' : '0')));
      }
      if (!importObj[im.module]) importObj[im.module] = {};
      importObj[im.module][im.name] = v;
    }
  } catch (e) {
    out.instError = 'import setup: ' + String(e && e.message || e);
    return out;
  }

  let inst;
  try {
    inst = new WebAssembly.Instance(mod, importObj);
    out.instantiated = true;
  } catch (e) {
    out.instError = String(e && e.message || e);
    out.startTrace = trace;
    return out;
  }
  out.startTrace = trace;

  out.calls = [];
  for (const c of (job.calls || [])) {
    trace = [];
    const f = inst.exports[c.name];
    let r;
    if (f === undefined) {
      r = 'missing';
    } else if (typeof f !== 'function') {
      r = 'notfunc:' + Object.prototype.toString.call(f);
    } else {
      try {
        r = showResult(f(...(c.args || []).map(parseArg)));
      } catch (e) {
        r = 'trap:' + String(e && e.message || e);
      }
    }
    out.calls.push({ r, t: trace });
  }
  return out;
}

const rl = readline.createInterface({ input: process.stdin, crlfDelay: Infinity });
rl.on('line', (line) => {
  line = line.trim();
  if (!line) return;
  let req;
  try { req = JSON.parse(line); } catch (e) {
    process.stdout.write(JSON.stringify({ id: null, error: 'bad request: ' + String(e) }) + '\n');
    return;
  }
  let res;
  try {
    res = (req.jobs || []).map(runJob);
  } catch (e) {
    process.stdout.write(JSON.stringify({ id: req.id, error: 'runner failure: ' + String(e && e.stack || e) }) + '\n');
    return;
  }
  process.stdout.write(JSON.stringify({ id: req.id, res }) + '\n');
});
rl.on('close', () => process.exit(0));
