// node (V8) execution server for the /verif checks C31 and C03.
// One JSON request per line on stdin, one JSON response per line on stdout.
//
// request : {"id": n, "wasm": "<base64>", "tramp": "<base64>", "mem": bool,
//            "sigs":    {"<export>": {"p": "iI..", "r": "iI.."}},     (trampoline types: i = i32, I = i64)
//            "imports": [{"module","name","p":"iIfF","r":"iIfF"}],     (recording stubs)
//            "calls":   [{"f": "<export>", "a": ["<decimal bits>", ...], "fresh": bool, "reset": bool}]}
// response: {"id": n, "error": "...", "out": [{"t": "<trap class>", "e": "<message>", "r": ["<decimal bits>"],
//            "m": "<pages>:<hash>", "h": "<host-call trace>"}]}
//
// The module under test is instantiated with recording stubs for its imports. Calls go through
// the trampoline module "tramp", which imports the module's exports (wasm-to-wasm, no JS value
// conversion) and takes / returns every float as the integer with the same bits, so NaN payloads
// survive. After every call the whole linear memory is hashed.
'use strict';
const readline = require('readline');

const dv = new DataView(new ArrayBuffer(8));
function f32bits(x) { dv.setFloat32(0, x, true); return dv.getUint32(0, true); }
function f64bits(x) { dv.setFloat64(0, x, true); return dv.getBigUint64(0, true); }

function hex8(x) { return ('00000000' + (x >>> 0).toString(16)).slice(-8); }

function memHash(buffer) {
  const w = new Uint32Array(buffer);
  let h1 = 0x811c9dc5 | 0, h2 = 0x9e3779b9 | 0;
  for (let i = 0; i < w.length; i++) {
    const x = w[i] | 0;
    h1 = Math.imul(h1 ^ x, 16777619);
    h2 = Math.imul((h2 + x) | 0, 0x85ebca6b | 0);
    h2 ^= h2 >>> 13;
  }
  return (buffer.byteLength / 65536) + ':' + hex8(h1) + hex8(h2);
}

let patBuf = new Uint8Array(0);
function fillPattern(buffer) {
  if (patBuf.length < buffer.byteLength) {
    patBuf = new Uint8Array(buffer.byteLength);
    for (let i = 0; i < patBuf.length; i++) patBuf[i] = (i * 73 + (i >>> 8) * 29 + 0x4f) & 0xff;
  }
  new Uint8Array(buffer).set(patBuf.subarray(0, buffer.byteLength));
}

function classify(e) {
  const msg = String(e && e.message || e);
  if (e instanceof RangeError) return ['stack-exhaustion', msg];
  if (e instanceof WebAssembly.RuntimeError) {
    if (/divide by zero|remainder by zero/.test(msg)) return ['integer-divide-by-zero', msg];
    if (/unrepresentable in integer range/.test(msg)) return ['integer-result-unrepresentable', msg];
    if (/divide result unrepresentable/.test(msg)) return ['integer-result-unrepresentable', msg];
    if (/memory access out of bounds|data segment/.test(msg)) return ['out-of-bounds-memory-access', msg];
    if (/unreachable/.test(msg)) return ['unreachable', msg];
    if (/signature mismatch|null function|table index is out of bounds|table access out of bounds/.test(msg)) return ['indirect-call(null/type-mismatch/out-of-range)', msg];
    return ['other', msg];
  }
  return ['other', 'js: ' + msg];
}

function run(req) {
  const wasm = Buffer.from(req.wasm, 'base64');
  const tramp = Buffer.from(req.tramp, 'base64');
  const module = new WebAssembly.Module(wasm);
  const tmodule = new WebAssembly.Module(tramp);
  const st = { n: 0, trace: [] };
  const importObj = {};
  (req.imports || []).forEach((im, k) => {
    if (!importObj[im.module]) importObj[im.module] = {};
    importObj[im.module][im.name] = (...args) => {
      let e = im.module + '.' + im.name + '(';
      for (let i = 0; i < im.p.length; i++) {
        if (i > 0) e += ',';
        const a = args[i];
        switch (im.p[i]) {
          case 'i': e += (a >>> 0).toString(); break;
          case 'I': e += BigInt.asUintN(64, a).toString(); break;
          case 'f': e += Number.isNaN(a) ? 'nan' : f32bits(a).toString(); break;
          case 'F': e += Number.isNaN(a) ? 'nan' : f64bits(a).toString(); break;
        }
      }
      e += ')';
      const v = 100 * (k + 1) + (st.n % 50);
      let ret;
      if (im.r.length > 0) {
        switch (im.r[0]) {
          case 'i': ret = v; e += '=' + v; break;
          case 'I': ret = BigInt(v); e += '=' + v; break;
          case 'f': ret = v; e += '=' + f32bits(v).toString(); break;
          case 'F': ret = v; e += '=' + f64bits(v).toString(); break;
        }
      }
      st.n++;
      if (st.trace.length < 64) st.trace.push(e);
      return ret;
    };
  });
  let inst = null, tinst = null, instErr = null;
  const out = [];
  for (const c of req.calls) {
    const o = {};
    out.push(o);
    if (c.fresh || inst === null) {
      st.n = 0; st.trace = [];
      inst = null; tinst = null; instErr = null;
      try {
        inst = new WebAssembly.Instance(module, importObj);
        tinst = new WebAssembly.Instance(tmodule, { m: inst.exports });
      } catch (e) {
        inst = null;
        instErr = String(e && e.message || e);
      }
    }
    if (inst === null) { o.t = 'instantiation-failed'; o.e = instErr; continue; }
    const mem = req.mem ? inst.exports.memory : null;
    if (c.reset && mem) fillPattern(mem.buffer);
    const fn = tinst.exports[c.f];
    const sig = req.sigs[c.f];
    if (typeof fn !== 'function' || !sig) { o.t = 'export-missing'; continue; }
    const args = [];
    for (let i = 0; i < sig.p.length; i++) {
      const b = BigInt(c.a[i]);
      if (sig.p[i] === 'i') args.push(Number(BigInt.asIntN(32, b)));
      else args.push(BigInt.asIntN(64, b));
    }
    st.trace = [];
    try {
      let res = fn(...args);
      if (sig.r.length === 0) res = [];
      else if (sig.r.length === 1) res = [res];
      o.r = [];
      for (let i = 0; i < sig.r.length; i++) {
        if (sig.r[i] === 'i') o.r.push((res[i] >>> 0).toString());
        else o.r.push(BigInt.asUintN(64, res[i]).toString());
      }
    } catch (e) {
      const [cls, msg] = classify(e);
      o.t = cls; o.e = msg.slice(0, 160);
    }
    if (mem) o.m = memHash(mem.buffer);
    if (st.trace.length) o.h = st.trace.join(';');
  }
  return out;
}

const rl = readline.createInterface({ input: process.stdin, crlfDelay: Infinity });
rl.on('line', (line) => {
  line = line.trim();
  if (!line) return;
  let req;
  try { req = JSON.parse(line); } catch (e) {
    process.stdout.write(JSON.stringify({ id: null, error: 'bad request: ' + String(e) }) + '\n');
    return;
  }
  let resp;
  try {
    resp = { id: req.id, out: run(req) };
  } catch (e) {
    resp = { id: req.id, error: String(e && e.message || e) };
  }
  process.stdout.write(JSON.stringify(resp) + '\n');
});
rl.on('close', () => process.exit(0));
