// node (V8) batch runner for the /verif checks.
// Protocol: one JSON request per line on stdin, one JSON response per line on stdout.
//   request : {"id": <any>, "mods": ["<base64 wasm>", ...]}
//   response: {"id": <same>, "res": [{"valid": bool, "error": "<compile error if invalid>",
//              "imports": [{"module","name","kind"}], "exports": [{"name","kind"}],
//              "custom": ["<custom section name>", ...]}, ...]}
// `valid` is WebAssembly.validate; imports/exports come from WebAssembly.Module.imports/exports,
// custom section names from a walk over the section headers (only done for valid modules).
'use strict';
const readline = require('readline');

function customNames(buf) {
  const names = [];
  let p = 8;
  const u32 = () => {
    let v = 0, s = 0, b;
    do { b = buf[p++]; v |= (b & 0x7f) << s; s += 7; } while (b & 0x80);
    return v >>> 0;
  };
  while (p < buf.length) {
    const id = buf[p++];
    const size = u32();
    const end = p + size;
    if (id === 0) {
      const n = u32();
      names.push(Buffer.from(buf.subarray(p, p + n)).toString('utf8'));
    }
    p = end;
  }
  return names;
}

function inspect(b64) {
  const buf = Buffer.from(b64, 'base64');
  const out = { valid: false };
  try {
    out.valid = WebAssembly.validate(buf);
  } catch (e) {
    out.error = 'validate threw: ' + String(e);
    return out;
  }
  if (!out.valid) {
    try { new WebAssembly.Module(buf); } catch (e) { out.error = String(e && e.message || e); }
    return out;
  }
  try {
    const m = new WebAssembly.Module(buf);
    out.imports = WebAssembly.Module.imports(m).map(x => ({ module: x.module, name: x.name, kind: x.kind }));
    out.exports = WebAssembly.Module.exports(m).map(x => ({ name: x.name, kind: x.kind }));
    out.custom = customNames(buf);
  } catch (e) {
    out.error = 'module inspection failed: ' + String(e && e.message || e);
  }
  return out;
}

const rl = readline.createInterface({ input: process.stdin, crlfDelay: Infinity });
rl.on('line', (line) => {
  line = line.trim();
  if (!line) return;
  let req;
  try { req = JSON.parse(line); } catch (e) {
    process.stdout.write(JSON.stringify({ id: null, error: 'bad request: ' + String(e) }) + '\n');
    return;
  }
  const res = (req.mods || []).map(inspect);
  process.stdout.write(JSON.stringify({ id: req.id, res }) + '\n');
});
rl.on('close', () => process.exit(0));
