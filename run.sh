#!/bin/bash
# run.sh <ID> [quick|thorough] [extra args...]
# Rebuilds the check binary for property <ID> from /repo's CURRENT working tree (go build
# -overlay, tag verif) and runs it. Exit status and VIOLATION lines come from the binary.
set -u
ID="$1"; TIER="${2:-${VERIF_TIER:-quick}}"; shift; shift 2>/dev/null || true
export VERIF_DIR="${VERIF_DIR:-/verif}" VERIF_REPO="${VERIF_REPO:-/repo}"
export GOFLAGS=-mod=mod GOPROXY=off GOSUMDB=off GOTOOLCHAIN=local
lc=$(echo "$ID" | tr 'A-Z' 'a-z')
mkdir -p "$VERIF_DIR/bin" "$VERIF_DIR/build" "$VERIF_DIR/evidence"
OV="$VERIF_DIR/build/overlay.$lc.$$.json"
EXTRA="${VERIF_EXTRA_OVERLAY:-}"
PRE="$VERIF_DIR/engine/checks/$lc/prebuild.sh"
PREDIR=""
if [ -f "$PRE" ]; then
  # a check may generate additional overlay entries from the current tree (e.g. instrumented copies)
  PREDIR="$VERIF_DIR/build/pre.$lc.$$"
  mkdir -p "$PREDIR"
  if ! bash "$PRE" "$PREDIR" ; then echo "HARNESS-ERROR $ID: prebuild failed" >&2; rm -rf "$PREDIR"; exit 2; fi
  EXTRA="$EXTRA $PREDIR/overlay.json"
fi
python3 "$VERIF_DIR/tools/mkoverlay.py" "$OV" $EXTRA || exit 2
BIN="$VERIF_DIR/bin/$lc.$$"
trap 'rm -rf "$OV" "$BIN" "$PREDIR"' EXIT
if ! (cd "$VERIF_REPO" && go build -overlay "$OV" -tags verif ${VERIF_GOBUILD_FLAGS:-} -o "$BIN" "./internal/zzverif/checks/$lc") ; then
  echo "HARNESS-ERROR $ID: build failed" >&2
  exit 2
fi
"$BIN" --tier="$TIER" "$@"
