#!/bin/bash
# setup: warm the Go build cache for every check binary (offline, from files on disk only).
set -u
export VERIF_DIR="${VERIF_DIR:-/verif}" VERIF_REPO="${VERIF_REPO:-/repo}"
export GOFLAGS=-mod=mod GOPROXY=off GOSUMDB=off GOTOOLCHAIN=local
mkdir -p "$VERIF_DIR/bin" "$VERIF_DIR/build" "$VERIF_DIR/evidence"
OV="$VERIF_DIR/build/overlay.setup.json"
python3 "$VERIF_DIR/tools/mkoverlay.py" "$OV" || exit 1
cd "$VERIF_REPO" || exit 1
go build -overlay "$OV" -tags verif -o /dev/null ./internal/zzverif/... || exit 1
go build -o /dev/null . || exit 1
rm -f "$OV"
echo setup ok
