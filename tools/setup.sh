#!/bin/bash
# setup: warm the Go build cache for every claimed check binary (offline, from files on disk only).
set -u
export VERIF_DIR="${VERIF_DIR:-/verif}" VERIF_REPO="${VERIF_REPO:-/repo}"
export GOFLAGS=-mod=mod GOPROXY=off GOSUMDB=off GOTOOLCHAIN=local
mkdir -p "$VERIF_DIR/bin" "$VERIF_DIR/build" "$VERIF_DIR/evidence"
OV="$VERIF_DIR/build/overlay.setup.json"
python3 "$VERIF_DIR/tools/mkoverlay.py" "$OV" || exit 1
cd "$VERIF_REPO" || exit 1
go build -o /dev/null . || exit 1
rc=0
for f in "$VERIF_DIR"/tools/checks.d/*.json; do
  id=$(basename "$f" .json | tr 'A-Z' 'a-z')
  [ -f "$VERIF_DIR/engine/checks/$id/prebuild.sh" ] && continue   # built with its own overlay at run time
  go build -overlay "$OV" -tags verif -o /dev/null "./internal/zzverif/checks/$id" || rc=1
done
rm -f "$OV"
[ $rc = 0 ] && echo setup ok
exit $rc
