#!/usr/bin/env python3
"""Write an overlay JSON that maps /verif/engine/** into the wa module as
wa-lang.org/wa/internal/zzverif/**, plus any extra 'inject' files:
engine/inject/<repo-relative-dir>/<file> is added to that existing /repo package
(files must carry a //go:build verif line).  Usage: mkoverlay.py OUT [extra.json ...]
Each extra.json is {"Replace": {...}} merged last (used for seeded-change tests)."""
import json, os, sys
verif = os.environ.get("VERIF_DIR", "/verif")
repo = os.environ.get("VERIF_REPO", "/repo")
out = sys.argv[1]
rep = {}
eng = os.path.join(verif, "engine")
for root, dirs, files in os.walk(eng):
    dirs.sort()
    rel = os.path.relpath(root, eng)
    for f in sorted(files):
        src = os.path.join(root, f)
        if rel.startswith("inject"):
            sub = os.path.relpath(root, os.path.join(eng, "inject"))
            dst = os.path.join(repo, sub, f)
        else:
            if not (f.endswith(".go") or f.endswith(".s") or f.endswith(".wat") or f.endswith(".txt") or f.endswith(".json") or f.endswith(".js") or f.endswith(".c") or f.endswith(".wa") or f.endswith(".wz")):
                continue
            dst = os.path.join(repo, "internal", "zzverif", rel, f) if rel != "." else os.path.join(repo, "internal", "zzverif", f)
        rep[dst] = src
for extra in sys.argv[2:]:
    rep.update(json.load(open(extra)).get("Replace", {}))
os.makedirs(os.path.dirname(out), exist_ok=True)
json.dump({"Replace": rep}, open(out, "w"), indent=1)
