#!/bin/bash
# seed_sweep.sh: for every seeded/<ID>: apply the change to /repo itself, run the property's quick
# check, undo the change. Expect exit 1 with VIOLATION lines for every one. Evidence files are
# restored from git afterwards (they must describe the unchanged tree).
cd /verif; LOG=/tmp/seed-sweep.log; : > $LOG
for d in seeded/C*; do
  id=$(basename $d)
  git -C /repo apply /verif/$d/patch.diff || { echo "$id PATCH-FAILED" >> $LOG; continue; }
  VERIF_BUDGET_S=1500 ./run.sh $id quick > /tmp/seed-sweep-$id.log 2>&1; rc=$?
  git -C /repo checkout -- . ; git -C /repo clean -fdq
  echo "$id rc=$rc violations=$(grep -c '^VIOLATION' /tmp/seed-sweep-$id.log) known=$(grep -c '^KNOWN-FINDING' /tmp/seed-sweep-$id.log)" >> $LOG
done
git -C /verif checkout -- evidence
echo ALL-DONE >> $LOG
