#!/bin/bash
# run_all.sh [tier]: run every claimed check in sequence on /repo, one summary line per check.
cd /verif; TIER="${1:-quick}"; LOG=/tmp/runall-$TIER.log; : > $LOG
for f in tools/checks.d/*.json; do
  id=$(basename $f .json)
  s=$(date +%s)
  ./run.sh $id $TIER > /tmp/runall-$id-$TIER.log 2>&1; rc=$?
  e=$(date +%s)
  echo "$id rc=$rc $((e-s))s viol=$(grep -c '^VIOLATION' /tmp/runall-$id-$TIER.log) known=$(grep -c '^KNOWN-FINDING' /tmp/runall-$id-$TIER.log) :: $(tail -1 /tmp/runall-$id-$TIER.log | cut -c1-160)" >> $LOG
done
echo ALL-DONE >> $LOG
