#!/usr/bin/env python3
"""Regenerate /verif/MANIFEST.json from the table below (kept in one place so the manifest is
always schema-valid). Run after adding a check."""
import json, os, sys

V = os.path.dirname(os.path.dirname(os.path.abspath(__file__)))

# id -> (technique, level text, level note, design ref)
CHECKS = {
 "C01": ("complete enumeration of program families (operator x type x boundary-operand alphabet², shifts, conversions, float ops, ...) run through Go and through the real Wa pipeline, compared item by item",
         "Every item of each program family (every binary/unary operator, shift, conversion at every public integer/float type over a boundary alphabet, complete products) is compiled by the real pipeline (go2wa -> loader -> type checker -> SSA -> WAT backend -> wat2wasm -> embedded engine) and by Go; printed results and normal termination must agree. Coverage statement for the enumerated families and alphabets.",
         "Trusted: the host Go toolchain as reference; the repository's own Go->Wa syntax converter (go2wa) renders the shared source. Items whose Go execution panics are outside the domain. int/uint (32-bit in Wa, 64-bit in Go) are used only where values stay in 32 bits.",
         "DESIGN.md §3 C01"),
 "C25": ("complete alphabet product of packet sequences x frame types through the real SLIP/SLIPMUX writers, read back by the real readers under every read-chunking with <=2 split points plus one-byte reads (controlled io.Reader)",
         "Every sequence of 1-2 (thorough 1-3) packets over the 8-byte alphabet {01,END,ESC,ESC_END,ESC_ESC,0A,45,A9}, as all-plain SLIP streams and as SLIPMUX streams with every per-packet mix of diagnostic/CoAP/IPv4/IPv6, within the stated total-size bounds, is written with slip.Writer/SlipMuxWriter and read back with slip.Reader/SlipMuxReader once per chunking of the wire stream; payloads, order and frame types must be equal. A coverage statement for the bound, not a proof beyond it.",
         "Trusted: bytes.Buffer as the wire. An independent RFC1055/RFC1662 decoder only attributes a failed round trip to writer or reader, it never decides. Outside the domain: zero-length reads and (n>0, io.EOF); requesting more packets than were written. Quick bounds pairs by total size (plain <=5, mux <=4); thorough takes all pairs and triples of total size <=4.",
         "DESIGN.md §3 C25"),
 "C26": ("reflection-driven enumeration of every registered DAP message type x <=2 (3 thorough) deviating field slots from per-kind alphabets, written by WriteProtocolMessage and read back by ReadProtocolMessage through bufio size 16 over a controlled io.Reader; every chunking with <=2 split points for single messages and for 2-3 message streams",
         "All 44 request, 44 response and 17 event constructors of the default codec, plus the ErrorResponse of each command, are enumerated with every assignment of <=k deviating slots (content sweep: unsplit and one-byte reads). Every type with <=1 deviation is read under every chunking with <=2 split points (framing sweep). Every 2- and 3-sequence over 8 representative messages is read under every such chunking (stream sweep). Oracle: same dynamic Go type and json.Marshal(out)==json.Marshal(in).",
         "Content x chunking is factored into three sweeps instead of a full product. InitializeRequest PathFormat \"\" is compared as \"path\" (documented constructor default + omitempty). Needs the tag-guarded accessor engine/inject/internal/3rdparty/go-dap/zz_verif_ctors.go. Trusted: encoding/json as the equality notion.",
         "DESIGN.md §3 C26"),
 "C10": ("explicit-state BFS over malloc/free histories on the real allocator module, canonical state keys, invariants on every state",
         "Every malloc/free history up to the stated depth over a size alphabet straddling every size-class edge, in 48 heap configurations x 2 textual copies of the allocator, is executed on the real WAT module; the property's invariants (alignment, in-heap, size, no overlap, payload integrity, exact tiling of [heap start, bump pointer) by live xor free blocks, failure only when unavoidable) are evaluated after every transition. A coverage statement for the bound, not a proof beyond it.",
         "Trusted: the embedded wazero engine executing the module; the harness's heap walk. Payload bytes are left out of the state key (malloc/free never read them) but are verified on every transition.",
         "DESIGN.md §3 C10"),
}

NOT_YET = "machinery planned in DESIGN.md §3 but not built yet; not claimed until its check exists"
ALL = ["C%02d" % i for i in range(1, 32)]

def main():
    checks = []
    for pid in ALL:
        if pid not in CHECKS:
            continue
        tech, text, note, ref = CHECKS[pid]
        checks.append({
            "property_id": pid,
            "quick_cmd": "./run.sh %s quick" % pid,
            "thorough_cmd": "./run.sh %s thorough" % pid,
            "evidence_file": "/verif/evidence/%s.json" % pid,
            "replay_cmd_template": "cat {path}",
            "engine": "mc",
            "level_claimed": {"category": "model_checking", "text": text, "design_ref": ref},
            "level_note": note,
            "technique": tech,
        })
    na = [{"property_id": p, "reason": NA.get(p, NOT_YET)} for p in ALL if p not in CHECKS]
    m = {
        "version": 1,
        "setup_cmd": "./tools/setup.sh",
        "hooks": {
            "guard": "verif",
            "enable": "go build -overlay <generated by tools/mkoverlay.py> -tags verif ./internal/zzverif/checks/<id> (harness packages and tag-guarded accessor files are supplied by overlay; /repo carries no hook commits)",
            "baseline_off_cmd": "cd /repo && GOFLAGS=-mod=mod GOPROXY=off GOSUMDB=off GOTOOLCHAIN=local go test -json -vet=off -count=1 -timeout 25m ./...",
            "source_commits": [],
            "add_only": True,
        },
        "engines": [
            {"name": "mc", "path": "/verif/engine/mc", "serves_properties": sorted(CHECKS),
             "kind_free_text": "hand-written bounded-exhaustive explorer core (explicit-state BFS, complete alphabet products, deviation-bounded DFS, crash/hang-isolating worker pool) compiled into the wa module by go build -overlay; every transition runs the real code"},
        ],
        "checks": checks,
        "notes": "All checks rebuild their binary from /repo's current working tree (run.sh). Known findings: /verif/known_findings.json.",
        "not_applicable": na,
    }
    json.dump(m, open(os.path.join(V, "MANIFEST.json"), "w"), indent=1, ensure_ascii=False)
    print("MANIFEST.json: %d checks, %d not claimed" % (len(checks), len(na)))

NA = {}

if __name__ == "__main__":
    main()
