#!/usr/bin/env python3
"""accept_findings.py <ID> [key-substring ...]: developer step (never run by a check): copy the
violations of the LAST run of check <ID> (replays/<ID>/*.json) into known_findings.json, after the
developer has classified them as genuine defects that are recorded rather than repaired."""
import json, sys, glob
pid = sys.argv[1]; subs = sys.argv[2:]
p = '/verif/known_findings.json'
d = json.load(open(p))
have = {(f['property'], f['key']) for f in d['findings']}
n = 0
for f in sorted(glob.glob('/verif/replays/%s/*.json' % pid)):
    r = json.load(open(f))
    if subs and not any(s in r['key'] for s in subs): continue
    if (pid, r['key']) in have: continue
    d['findings'].append({"property": pid, "key": r['key'], "what": r['what'][:400]})
    n += 1
json.dump(d, open(p, 'w'), indent=1, ensure_ascii=False)
print("added", n, "findings for", pid)
