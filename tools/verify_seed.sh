#!/bin/bash
# verify_seed.sh <ID> <worktree> <pkg-dir-rel> <demo-file> <go-test-run-pattern>
# Confirms a seeded change: builds, demo fails with it and passes without it, pinned suite passes,
# then runs the property's quick check against the changed tree (VERIF_REPO=<worktree>).
ID="$1"; WT="$2"; PKG="$3"; DEMO="$4"; PAT="$5"
export GOFLAGS=-mod=mod GOPROXY=off GOSUMDB=off GOTOOLCHAIN=local
cd "$WT" || exit 2
echo "== build"; go build ./... || { echo BUILD-FAILED; exit 1; }
cp "$DEMO" "$PKG/zz_seed_demo_test.go"
echo "== demo WITH change (expect FAIL)"
go test -vet=off -count=1 -run "$PAT" "./$PKG/" > /tmp/seed-demo-with.$$ 2>&1; rcw=$?
tail -3 /tmp/seed-demo-with.$$
git diff > /tmp/seed-patch.$$ && git checkout -q -- $(git diff --name-only)
echo "== demo WITHOUT change (expect ok)"
go test -vet=off -count=1 -run "$PAT" "./$PKG/" > /tmp/seed-demo-without.$$ 2>&1; rco=$?
tail -3 /tmp/seed-demo-without.$$
git apply /tmp/seed-patch.$$ && rm -f /tmp/seed-patch.$$
rm -f "$PKG/zz_seed_demo_test.go" /tmp/seed-demo-with.$$ /tmp/seed-demo-without.$$
echo "demo_with_rc=$rcw demo_without_rc=$rco"
echo "== pinned suite with change"
/verif/tools/suite.sh "$WT"; rcs=$?
echo "suite_rc=$rcs"
echo "== check $ID against the changed tree"
cd /verif && VERIF_REPO="$WT" VERIF_DIR=/verif ./run.sh "$ID" quick > /tmp/seed-check.$$ 2>&1; rcc=$?
grep -c '^VIOLATION' /tmp/seed-check.$$ | sed 's/^/violations=/'
grep -A1 '^VIOLATION' /tmp/seed-check.$$ | grep 'key=' | cut -c1-260 | head -8
tail -1 /tmp/seed-check.$$ | cut -c1-300
rm -f /tmp/seed-check.$$
echo "check_rc=$rcc"
