#!/bin/bash
# verify_seed_prog.sh <ID> <demo.wa> <expected.txt>: seeds whose demonstration is a Wa program.
ID="$1"; DEMO="$2"; EXP="$3"
export GOFLAGS=-mod=mod GOPROXY=off GOSUMDB=off GOTOOLCHAIN=local
WT=/tmp/seedw-$ID
git -C /repo worktree remove --force $WT 2>/dev/null
git -C /repo worktree add -q --detach $WT HEAD || exit 2
cd $WT || exit 2
echo "== demo WITHOUT change"; go run . run "$DEMO" > /tmp/seedprog-$ID-without.txt 2>&1; diff -q /tmp/seedprog-$ID-without.txt "$EXP" > /dev/null && echo SAME-AS-EXPECTED || echo DIFFERS-FROM-EXPECTED
git apply /tmp/seed-out-$ID/patch.diff || { echo PATCH-DOES-NOT-APPLY; exit 1; }
echo "== build"; go build ./... || { echo BUILD-FAILED; exit 1; }
echo "== demo WITH change"; go run . run "$DEMO" > /tmp/seedprog-$ID-with.txt 2>&1; diff -q /tmp/seedprog-$ID-with.txt "$EXP" > /dev/null && echo SAME-AS-EXPECTED || echo DIFFERS-FROM-EXPECTED
echo "== pinned suite with change"; /verif/tools/suite.sh "$WT"; echo "suite_rc=$?"
echo "== check $ID against the changed tree"
cd /verif && VERIF_BUDGET_S=${SEED_BUDGET_S:-3000} VERIF_REPO="$WT" ./run.sh "$ID" quick > /tmp/seed-check.$ID 2>&1; rcc=$?
grep -c '^VIOLATION' /tmp/seed-check.$ID | sed 's/^/violations=/'
grep -A1 '^VIOLATION' /tmp/seed-check.$ID | grep 'key=' | cut -c1-260 | head -8
tail -1 /tmp/seed-check.$ID | cut -c1-300
echo "check_rc=$rcc"
