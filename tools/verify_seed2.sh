#!/bin/bash
# verify_seed2.sh <ID> <pkg-dir-rel> <demo-file> <go-test-run-pattern>
# Like verify_seed.sh but works on a FRESH worktree of /repo HEAD with /tmp/seed-out-<ID>/patch.diff applied.
ID="$1"; PKG="$2"; DEMO="$3"; PAT="$4"
export GOFLAGS=-mod=mod GOPROXY=off GOSUMDB=off GOTOOLCHAIN=local
WT=/tmp/seedw-$ID
git -C /repo worktree remove --force $WT 2>/dev/null
git -C /repo worktree add -q --detach $WT HEAD || exit 2
cd $WT || exit 2
echo "== demo WITHOUT change (expect ok)"
cp "$DEMO" "$PKG/zz_seed_demo_test.go"
go test -vet=off -count=1 -run "$PAT" "./$PKG/" 2>&1 | tail -2; rco=${PIPESTATUS[0]}
git apply /tmp/seed-out-$ID/patch.diff || { echo PATCH-DOES-NOT-APPLY; exit 1; }
echo "== build"; go build ./... || { echo BUILD-FAILED; exit 1; }
echo "== demo WITH change (expect FAIL)"
go test -vet=off -count=1 -run "$PAT" "./$PKG/" 2>&1 | tail -3; rcw=${PIPESTATUS[0]}
rm -f "$PKG/zz_seed_demo_test.go"
echo "demo_with_rc=$rcw demo_without_rc=$rco"
echo "== pinned suite with change"
/verif/tools/suite.sh "$WT"; echo "suite_rc=$?"
echo "== check $ID against the changed tree"
cd /verif && VERIF_BUDGET_S=${SEED_BUDGET_S:-3000} VERIF_REPO="$WT" VERIF_DIR=/verif ./run.sh "$ID" quick > /tmp/seed-check.$ID 2>&1; rcc=$?
grep -c '^VIOLATION' /tmp/seed-check.$ID | sed 's/^/violations=/'
grep -A1 '^VIOLATION' /tmp/seed-check.$ID | grep 'key=' | cut -c1-260 | head -8
tail -1 /tmp/seed-check.$ID | cut -c1-300
echo "check_rc=$rcc"
