#!/bin/bash
# mkseed.sh ID...: create scratch worktrees /tmp/seed-<ID> at /repo HEAD and /tmp/seed-out-<ID>/PROPERTY.txt
for id in "$@"; do
  git -C /repo worktree add -q --detach /tmp/seed-$id HEAD && mkdir -p /tmp/seed-out-$id
  python3 - "$id" <<'PY'
import json,sys
pid=sys.argv[1]
for l in open('/verif/properties.jsonl'):
    p=json.loads(l)
    if p['id']==pid:
        open('/tmp/seed-out-%s/PROPERTY.txt'%pid,'w').write("Title: %s\n\nStatement: %s\n\nQuantifier (%s): %s\n\nWhy the existing tests cannot settle it: %s\n\nCode anchors: %s\n" % (p['title'],p['statement'],','.join(p['quantifier']['over']),p['quantifier']['text'],p['why_tests_cant'],', '.join(p['anchors']['files'])))
PY
done
