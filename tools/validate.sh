#!/bin/bash
# validate MANIFEST.json and every evidence file against the schemas
python3-vt - <<'PY'
import json,jsonschema,glob,sys
m=json.load(open('/verif/MANIFEST.json'))
jsonschema.validate(m, json.load(open('/root/.vp/MANIFEST.schema.json')))
es=json.load(open('/root/.vp/EVIDENCE.schema.json'))
bad=0
for c in m['checks']:
    f=c['evidence_file']
    try:
        jsonschema.validate(json.load(open(f)), es)
    except Exception as e:
        bad+=1; print('BAD', f, str(e)[:200])
print('manifest ok;', len(m['checks']), 'checks;', bad, 'bad evidence')
sys.exit(1 if bad else 0)
PY
