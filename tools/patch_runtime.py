#!/usr/bin/env python3
"""patch_runtime.py GOROOT OUTDIR  (used by engine/checks/c27/prebuild.sh)

Derives, from the STOCK Go runtime sources (never modified), copies of runtime/map.go,
runtime/alg.go and runtime/rand.go in which the only sources of map nondeterminism are owned by
the C27 explorer, and writes OUTDIR/overlay.json mapping the GOROOT paths to the copies.

Controlled mode is selected per PROCESS by the environment variable VERIF_MAPCTL=<1..3> (read in
alginit, before any map exists; the hash key material cannot change once maps are alive).
Without the variable every patched line falls back to the stock behaviour (real rand()).

In controlled mode:
  * the process hash key material (hashkey / aeskeysched) is a fixed stream chosen by the constant;
  * every per-map seed h.hash0 (makemap, makemap_small, compiler-inlined rand32, reseed on
    empty/clear) is a fixed constant;
  * the iteration start r of mapiterinit is looked up in a fixed-size, allocation-free, map-free
    table indexed by the STATIC call site (getcallerpc()); unknown sites start at 0;
    every site seen is recorded with counters (iterations, iterations over >= 2 elements, max
    element count, max B) while recording is on.
The table is reached from the check's main package through //go:linkname.

Exits 3 with a clear message when an expected source line is not found (Go version drift).
"""
import json, os, re, sys

def die(msg):
    sys.stderr.write("HARNESS-ERROR C27: patch_runtime: %s\n" % msg)
    sys.exit(3)

def sub_exact(text, old, new, count, what):
    n = text.count(old)
    if n != count:
        die("%s: expected %d occurrence(s) of %r, found %d (unsupported Go runtime version?)" % (what, count, old, n))
    return text.replace(old, new)

MAP_APPEND = r'''

// ---------------------------------------------------------------------------------------------
// C27 controlled map nondeterminism (appended by /verif/tools/patch_runtime.py)

// verifMapCtl: 0 = stock behaviour; k>0 = controlled mode with hash constant k (set in alginit).
var verifMapCtl uint32
var verifRecording uint32

const verifNSlots = 1 << 13

type verifSlot struct {
	pc     uintptr // static call site of mapiterinit (return address); 0 = free
	r      uintptr // iteration start to use at this site
	n      uint64  // iterations started here (non-empty maps) while recording
	nmulti uint64  // ... of which over maps with >= 2 elements (order can be observed)
	maxcnt uint64  // largest element count iterated
	maxB   uint64  // largest B iterated
	neff   uint64  // iterations over >= 2 elements whose (start bucket, offset) differed from r=0
}

var verifSlots [verifNSlots]verifSlot
var verifOverflow uint64

var verifHash0Consts = [4]uint32{0, 0x9e3779b9, 0x7f4a7c15, 0x2545f491}

func verifHash0() uint32 {
	if verifMapCtl == 0 {
		return uint32(rand())
	}
	return verifHash0Consts[verifMapCtl&3]
}

func verifRand32() uint32 {
	if verifMapCtl == 0 {
		return uint32(rand())
	}
	return 0
}

// verifFind returns the slot of pc, claiming a free one if needed; nil if the table is full.
func verifFind(pc uintptr) *verifSlot {
	i := (pc * 0x9e3779b97f4a7c15 >> 20) & (verifNSlots - 1)
	for k := 0; k < verifNSlots; k++ {
		s := &verifSlots[i]
		p := atomic.Loaduintptr(&s.pc)
		if p == pc {
			return s
		}
		if p == 0 {
			if atomic.Casuintptr(&s.pc, 0, pc) {
				return s
			}
			if atomic.Loaduintptr(&s.pc) == pc {
				return s
			}
		}
		i = (i + 1) & (verifNSlots - 1)
	}
	atomic.Xadd64(&verifOverflow, 1)
	return nil
}

func verifIterStart(pc uintptr, h *hmap) uintptr {
	if verifMapCtl == 0 {
		return uintptr(rand())
	}
	s := verifFind(pc)
	if s == nil {
		return 0
	}
	if verifRecording != 0 {
		atomic.Xadd64(&s.n, 1)
		c := uint64(h.count)
		if c >= 2 {
			atomic.Xadd64(&s.nmulti, 1)
		}
		if c > s.maxcnt {
			s.maxcnt = c
		}
		if uint64(h.B) > s.maxB {
			s.maxB = uint64(h.B)
		}
		if c >= 2 && (s.r&bucketMask(h.B) != 0 || uint8(s.r>>h.B&(abi.MapBucketCount-1)) != 0) {
			atomic.Xadd64(&s.neff, 1)
		}
	}
	return s.r
}

// verifCtl is the single entry point used by the harness (linknamed from package main).
//   op 0: return mode (verifMapCtl)
//   op 1: set r of site a to b
//   op 2: reset every r to 0
//   op 3: reset counters
//   op 4: recording on/off (a)
//   op 5: number of table overflows
//
//go:linkname verifCtl
func verifCtl(op int, a, b uintptr) uintptr {
	switch op {
	case 0:
		return uintptr(verifMapCtl)
	case 1:
		if s := verifFind(a); s != nil {
			s.r = b
			return 1
		}
		return 0
	case 2:
		for i := range verifSlots {
			verifSlots[i].r = 0
		}
	case 3:
		for i := range verifSlots {
			s := &verifSlots[i]
			s.n, s.nmulti, s.maxcnt, s.maxB, s.neff = 0, 0, 0, 0, 0
		}
	case 4:
		verifRecording = uint32(a)
	case 5:
		return uintptr(verifOverflow)
	}
	return 0
}

// verifTable exposes the slot array (layout mirrored in the harness).
//
//go:linkname verifTable
func verifTable() (unsafe.Pointer, int) {
	return unsafe.Pointer(&verifSlots[0]), verifNSlots
}
'''

ALG_APPEND = r'''

// ---------------------------------------------------------------------------------------------
// C27 controlled hash key material (appended by /verif/tools/patch_runtime.py)

var verifKeyState uint64

// verifEarlyCtl reads VERIF_MAPCTL=<digit> from the process environment before goenvs() ran
// (same technique as getGodebugEarly). Returns 0 when absent.
func verifEarlyCtl() uint32 {
	if GOOS != "linux" {
		return 0
	}
	const prefix = "VERIF_MAPCTL="
	n := int32(0)
	for argv_index(argv, argc+1+n) != nil {
		n++
	}
	for i := int32(0); i < n; i++ {
		p := argv_index(argv, argc+1+i)
		l := findnull(p)
		if l != len(prefix)+1 {
			continue
		}
		s := unsafe.String(p, l)
		if s[:len(prefix)] != prefix {
			continue
		}
		c := s[len(prefix)]
		if c >= '1' && c <= '3' {
			return uint32(c - '0')
		}
	}
	return 0
}

// verifBootstrapRand replaces bootstrapRand() in alginit: a fixed splitmix64 stream in
// controlled mode, the real generator otherwise.
func verifBootstrapRand() uint64 {
	if verifMapCtl == 0 {
		return bootstrapRand()
	}
	verifKeyState += 0x9e3779b97f4a7c15
	z := verifKeyState
	z = (z ^ (z >> 30)) * 0xbf58476d1ce4e5b9
	z = (z ^ (z >> 27)) * 0x94d049bb133111eb
	return z ^ (z >> 31)
}
'''

def main():
    if len(sys.argv) != 3:
        die("usage: patch_runtime.py GOROOT OUTDIR")
    goroot, out = sys.argv[1], sys.argv[2]
    rt = os.path.join(goroot, "src", "runtime")
    paths = {n: os.path.join(rt, n) for n in ("map.go", "alg.go", "rand.go")}
    for n, p in paths.items():
        if not os.path.isfile(p):
            die("stock runtime source %s not found" % p)
    src = {n: open(p, encoding="utf-8").read() for n, p in paths.items()}

    m = src["map.go"]
    if "type hmap struct" not in m or "func mapiterinit(t *maptype, h *hmap, it *hiter)" not in m:
        die("map.go is not the classic (pre-swiss) map implementation; this patch supports go1.21-go1.23 only")
    if '"internal/runtime/atomic"' not in m:
        die("map.go does not import internal/runtime/atomic under the name the patch expects")
    m = sub_exact(m, "h.hash0 = uint32(rand())", "h.hash0 = verifHash0()", 4, "map.go per-map seed")
    m = sub_exact(m, "\tr := uintptr(rand())\n\tit.startBucket = r & bucketMask(h.B)",
                  "\tr := verifIterStart(getcallerpc(), h)\n\tit.startBucket = r & bucketMask(h.B)", 1,
                  "map.go mapiterinit start")
    m = sub_exact(m, "\tr := int(rand())\n", "\tr := int(verifIterStart(getcallerpc(), h))\n", 2, "map.go keys/values start")
    m = sub_exact(m, "if uint32(rand())&mask == 0 {", "if verifRand32()&mask == 0 {", 1, "map.go incrnoverflow")
    rest = re.sub(r"//[^\n]*", "", m.split("// C27 controlled map nondeterminism")[0])
    if re.search(r"\brand\(\)", rest):
        die("map.go still calls rand() outside comments after patching: unexpected extra randomness")
    m += MAP_APPEND

    a = src["alg.go"]
    a = sub_exact(a, "func alginit() {\n", "func alginit() {\n\tverifMapCtl = verifEarlyCtl()\n\tverifKeyState = uint64(verifMapCtl) * 0x51ed270b27b4f3cf\n", 1, "alg.go alginit")
    a = sub_exact(a, "hashkey[i] = uintptr(bootstrapRand())", "hashkey[i] = uintptr(verifBootstrapRand())", 1, "alg.go hashkey")
    a = sub_exact(a, "key[i] = bootstrapRand()", "key[i] = verifBootstrapRand()", 1, "alg.go aeskeysched")
    a += ALG_APPEND

    r = src["rand.go"]
    r = sub_exact(r, "func rand32() uint32 {\n\treturn uint32(rand())\n}",
                  "func rand32() uint32 {\n\tif verifMapCtl != 0 {\n\t\treturn verifHash0Consts[verifMapCtl&3]\n\t}\n\treturn uint32(rand())\n}", 1,
                  "rand.go rand32 (compiler-inlined map seed)")

    os.makedirs(out, exist_ok=True)
    rep = {}
    for n, text in (("map.go", m), ("alg.go", a), ("rand.go", r)):
        dst = os.path.join(out, "runtime_" + n + ".txt")
        open(dst, "w", encoding="utf-8").write(text)
        rep[paths[n]] = dst
    json.dump({"Replace": rep}, open(os.path.join(out, "overlay.json"), "w"), indent=1)

main()
