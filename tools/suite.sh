#!/bin/bash
# suite.sh [repo-dir]: run the pinned test suite (guard off) and print pass/fail counts.
D="${1:-/repo}"
export GOFLAGS=-mod=mod GOPROXY=off GOSUMDB=off GOTOOLCHAIN=local
OUT=$(mktemp)
(cd "$D" && go test -json -vet=off -count=1 -timeout 25m ./... > "$OUT" 2>&1)
python3 - "$OUT" <<'PY'
import json,sys
p=0;fails=[]
for l in open(sys.argv[1]):
    try: e=json.loads(l)
    except Exception: continue
    if e.get('Test') and e.get('Action')=='pass': p+=1
    if e.get('Action')=='fail': fails.append((e.get('Package'),e.get('Test')))
print('pass',p,'fail',len(fails),fails[:10])
sys.exit(1 if fails or p<368 else 0)
PY
rc=$?; rm -f "$OUT"; exit $rc
