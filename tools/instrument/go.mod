module verifinstrument

go 1.21
