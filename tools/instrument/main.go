// instrument: source-to-source rewriter for the C28 controlled scheduler.
//
//	instrument -repo /repo -out /verif/build/c28-inst -overlay /verif/build/c28-inst/overlay.json pkgdir...
//
// For every listed package directory (relative to -repo) it parses the non-test Go files
// selected for linux/amd64, finds the package-level variables that are written outside init
// (assignment / inc-dec / delete / address-of rooted at the variable, syntactically), and inserts
//
//	zzsched.Point("<pkg>/<file>:<line> <var>")
//
// before every statement that mentions one of them. Imports of "sync" are redirected to the
// vsync shim (Mutex/RWMutex/Once/WaitGroup become scheduling points). Identifier resolution is by
// name only: a shadowing local just produces a superfluous scheduling point, never a wrong program.
// The rewritten files are written under -out and an overlay JSON maps originals to them, so /repo
// is never touched and the instrumentation always follows the current working tree.
package main

import (
	"encoding/json"
	"flag"
	"fmt"
	"go/ast"
	"go/build"
	"go/parser"
	"go/printer"
	"go/token"
	"os"
	"path/filepath"
	"sort"
	"strconv"
	"strings"
)

const schedPath = "wa-lang.org/wa/internal/zzverif/sched"
const vsyncPath = "wa-lang.org/wa/internal/zzverif/vsync"

func main() {
	repo := flag.String("repo", "/repo", "")
	out := flag.String("out", "", "")
	overlay := flag.String("overlay", "", "")
	report := flag.String("report", "", "")
	flag.Parse()
	rep := map[string]string{}
	type pkgReport struct {
		Dir     string
		Mutated []string
		Points  int
		SyncRew []string
	}
	var reports []pkgReport
	ctx := build.Default
	ctx.GOOS, ctx.GOARCH, ctx.CgoEnabled = "linux", "amd64", false
	for _, rel := range flag.Args() {
		dir := filepath.Join(*repo, rel)
		bp, err := ctx.ImportDir(dir, 0)
		if err != nil {
			if _, ok := err.(*build.NoGoError); ok {
				continue
			}
			fmt.Fprintf(os.Stderr, "instrument: %s: %v\n", rel, err)
			os.Exit(1)
		}
		fset := token.NewFileSet()
		var files []*ast.File
		var names []string
		for _, fn := range bp.GoFiles {
			f, err := parser.ParseFile(fset, filepath.Join(dir, fn), nil, parser.ParseComments)
			if err != nil {
				fmt.Fprintf(os.Stderr, "instrument: %v\n", err)
				os.Exit(1)
			}
			files = append(files, f)
			names = append(names, fn)
		}
		// package-level variables
		pkgVars := map[string]bool{}
		for _, f := range files {
			for _, d := range f.Decls {
				if gd, ok := d.(*ast.GenDecl); ok && gd.Tok == token.VAR {
					for _, s := range gd.Specs {
						for _, n := range s.(*ast.ValueSpec).Names {
							if n.Name != "_" {
								pkgVars[n.Name] = true
							}
						}
					}
				}
			}
		}
		// which of them are written outside init
		mutated := map[string]bool{}
		root := func(e ast.Expr) string {
			for {
				switch x := e.(type) {
				case *ast.Ident:
					return x.Name
				case *ast.SelectorExpr:
					e = x.X
				case *ast.IndexExpr:
					e = x.X
				case *ast.StarExpr:
					e = x.X
				case *ast.ParenExpr:
					e = x.X
				case *ast.SliceExpr:
					e = x.X
				default:
					return ""
				}
			}
		}
		for _, f := range files {
			for _, d := range f.Decls {
				fd, ok := d.(*ast.FuncDecl)
				if !ok || fd.Body == nil || (fd.Name.Name == "init" && fd.Recv == nil) {
					continue
				}
				ast.Inspect(fd.Body, func(n ast.Node) bool {
					switch x := n.(type) {
					case *ast.AssignStmt:
						if x.Tok != token.DEFINE {
							for _, l := range x.Lhs {
								if r := root(l); pkgVars[r] {
									mutated[r] = true
								}
							}
						}
					case *ast.IncDecStmt:
						if r := root(x.X); pkgVars[r] {
							mutated[r] = true
						}
					case *ast.UnaryExpr:
						if x.Op == token.AND {
							if r := root(x.X); pkgVars[r] {
								mutated[r] = true
							}
						}
					case *ast.CallExpr:
						if id, ok := x.Fun.(*ast.Ident); ok && (id.Name == "delete" || id.Name == "append" || id.Name == "copy") && len(x.Args) > 0 {
							if r := root(x.Args[0]); pkgVars[r] && id.Name != "append" {
								mutated[r] = true
							}
						}
					}
					return true
				})
			}
		}
		pr := pkgReport{Dir: rel}
		for v := range mutated {
			pr.Mutated = append(pr.Mutated, v)
		}
		sort.Strings(pr.Mutated)

		for fi, f := range files {
			changed := false
			usesSched := false
			// sync -> vsync
			for _, im := range f.Imports {
				if p, _ := strconv.Unquote(im.Path.Value); p == "sync" {
					im.Path.Value = strconv.Quote(vsyncPath)
					if im.Name == nil {
						im.Name = ast.NewIdent("sync")
					}
					changed = true
					pr.SyncRew = append(pr.SyncRew, names[fi])
				}
			}
			if len(mutated) > 0 {
				mentions := func(n ast.Node) string {
					found := ""
					if n == nil {
						return ""
					}
					ast.Inspect(n, func(m ast.Node) bool {
						if found != "" {
							return false
						}
						switch x := m.(type) {
						case *ast.FuncLit:
							return false // its body is instrumented on its own
						case *ast.BlockStmt:
							return false
						case *ast.SelectorExpr:
							// x.Sel is a field/method name, only x.X can be a variable
							ast.Inspect(x.X, func(k ast.Node) bool {
								if id, ok := k.(*ast.Ident); ok && mutated[id.Name] && found == "" {
									found = id.Name
								}
								return found == ""
							})
							return false
						case *ast.KeyValueExpr:
							if _, ok := x.Key.(*ast.Ident); ok {
								// struct literal field name: only inspect the value
								ast.Inspect(x.Value, func(k ast.Node) bool {
									if id, ok := k.(*ast.Ident); ok && mutated[id.Name] && found == "" {
										found = id.Name
									}
									return found == ""
								})
								return false
							}
						case *ast.Ident:
							if mutated[x.Name] {
								found = x.Name
							}
						}
						return true
					})
					return found
				}
				// header of a statement = the parts evaluated when the statement starts
				header := func(s ast.Stmt) string {
					switch x := s.(type) {
					case *ast.IfStmt:
						if v := mentions(x.Init); v != "" {
							return v
						}
						return mentions(x.Cond)
					case *ast.ForStmt:
						if v := mentions(x.Init); v != "" {
							return v
						}
						if v := mentions(x.Cond); v != "" {
							return v
						}
						return mentions(x.Post)
					case *ast.RangeStmt:
						return mentions(x.X)
					case *ast.SwitchStmt:
						if v := mentions(x.Init); v != "" {
							return v
						}
						return mentions(x.Tag)
					case *ast.TypeSwitchStmt:
						if v := mentions(x.Init); v != "" {
							return v
						}
						return mentions(x.Assign)
					case *ast.LabeledStmt, *ast.BlockStmt, *ast.SelectStmt, *ast.DeclStmt, *ast.EmptyStmt, *ast.BranchStmt,
						*ast.CaseClause, *ast.CommClause:
						return ""
					default:
						return mentions(s)
					}
				}
				point := func(s ast.Stmt, v string) ast.Stmt {
					pos := fset.Position(s.Pos())
					site := fmt.Sprintf("%s/%s:%d %s", rel, names[fi], pos.Line, v)
					pr.Points++
					usesSched = true
					return &ast.ExprStmt{X: &ast.CallExpr{
						Fun:  &ast.SelectorExpr{X: ast.NewIdent("zzsched"), Sel: ast.NewIdent("Point")},
						Args: []ast.Expr{&ast.BasicLit{Kind: token.STRING, Value: strconv.Quote(site)}},
					}}
				}
				var rewriteList func(list []ast.Stmt) []ast.Stmt
				rewriteList = func(list []ast.Stmt) []ast.Stmt {
					var outl []ast.Stmt
					for _, s := range list {
						if v := header(s); v != "" {
							outl = append(outl, point(s, v))
						}
						outl = append(outl, s)
					}
					return outl
				}
				for _, d := range f.Decls {
					fd, ok := d.(*ast.FuncDecl)
					if !ok || fd.Body == nil || (fd.Name.Name == "init" && fd.Recv == nil) {
						continue
					}
					ast.Inspect(fd.Body, func(n ast.Node) bool {
						switch x := n.(type) {
						case *ast.BlockStmt:
							x.List = rewriteList(x.List)
						case *ast.CaseClause:
							x.Body = rewriteList(x.Body)
						case *ast.CommClause:
							x.Body = rewriteList(x.Body)
						}
						return true
					})
				}
			}
			if usesSched {
				changed = true
				// add the import
				imp := &ast.ImportSpec{Name: ast.NewIdent("zzsched"), Path: &ast.BasicLit{Kind: token.STRING, Value: strconv.Quote(schedPath)}}
				gd := &ast.GenDecl{Tok: token.IMPORT, Specs: []ast.Spec{imp}}
				f.Decls = append([]ast.Decl{gd}, f.Decls...)
				f.Imports = append(f.Imports, imp)
			}
			if !changed {
				continue
			}
			dst := filepath.Join(*out, rel, names[fi])
			os.MkdirAll(filepath.Dir(dst), 0o755)
			w, err := os.Create(dst)
			if err != nil {
				fmt.Fprintln(os.Stderr, err)
				os.Exit(1)
			}
			// Comments are dropped on purpose (free-floating comments confuse the printer once
			// statements are inserted) except build constraints and directives, which matter.
			var hdr strings.Builder
			for _, cg := range f.Comments {
				if cg.End() >= f.Package {
					break
				}
				for _, c := range cg.List {
					if strings.HasPrefix(c.Text, "//go:build") || strings.HasPrefix(c.Text, "// +build") {
						hdr.WriteString(c.Text + "\n")
					}
				}
			}
			if hdr.Len() > 0 {
				hdr.WriteString("\n")
			}
			keepDirectives(f)
			w.WriteString(hdr.String())
			if err := (&printer.Config{Mode: printer.UseSpaces | printer.TabIndent, Tabwidth: 8}).Fprint(w, fset, f); err != nil {
				fmt.Fprintln(os.Stderr, err)
				os.Exit(1)
			}
			w.Close()
			rep[filepath.Join(dir, names[fi])] = dst
		}
		reports = append(reports, pr)
	}
	data, _ := json.MarshalIndent(map[string]interface{}{"Replace": rep}, "", " ")
	if err := os.WriteFile(*overlay, data, 0o644); err != nil {
		fmt.Fprintln(os.Stderr, err)
		os.Exit(1)
	}
	if *report != "" {
		data, _ := json.MarshalIndent(reports, "", " ")
		os.WriteFile(*report, data, 0o644)
	}
}

// keepDirectives drops all comments except //go: directives attached to declarations
// (//go:embed, //go:linkname, //go:noinline ...), which change program meaning.
func keepDirectives(f *ast.File) {
	var keep []*ast.CommentGroup
	for _, cg := range f.Comments {
		var l []*ast.Comment
		for _, c := range cg.List {
			if strings.HasPrefix(c.Text, "//go:") && !strings.HasPrefix(c.Text, "//go:build") {
				l = append(l, c)
			}
		}
		if len(l) > 0 {
			keep = append(keep, &ast.CommentGroup{List: l})
		}
	}
	f.Comments = keep
	// Doc fields still point at old groups; clear those that carry no directive
	fix := func(cg *ast.CommentGroup) *ast.CommentGroup {
		if cg == nil {
			return nil
		}
		for _, k := range keep {
			if len(k.List) > 0 && len(cg.List) > 0 && k.List[0].Pos() >= cg.Pos() && k.List[0].End() <= cg.End() {
				return k
			}
		}
		return nil
	}
	f.Doc = nil
	for _, d := range f.Decls {
		switch x := d.(type) {
		case *ast.GenDecl:
			x.Doc = fix(x.Doc)
			for _, s := range x.Specs {
				switch y := s.(type) {
				case *ast.ValueSpec:
					y.Doc, y.Comment = fix(y.Doc), nil
				case *ast.TypeSpec:
					y.Doc, y.Comment = nil, nil
				case *ast.ImportSpec:
					y.Doc, y.Comment = nil, nil
				}
			}
		case *ast.FuncDecl:
			x.Doc = fix(x.Doc)
		}
	}
}
