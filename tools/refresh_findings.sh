#!/bin/bash
# refresh_findings.sh ID...: developer step. For each ID run quick and thorough on /repo, and REPLACE the
# known findings of that ID by the union of the violation keys of both runs (after manual
# classification of those keys as genuine defects that are recorded rather than repaired).
cd /verif
for id in "$@"; do
  python3 - "$id" <<'PY'
import json,sys
p='/verif/known_findings.json'; d=json.load(open(p)); pid=sys.argv[1]
d['findings']=[f for f in d['findings'] if f['property']!=pid]
json.dump(d,open(p,'w'),indent=1,ensure_ascii=False)
PY
  for tier in quick thorough; do
    ./run.sh $id $tier > /tmp/refresh-$id-$tier.log 2>&1
    echo "$id $tier rc=$? $(tail -1 /tmp/refresh-$id-$tier.log | cut -c1-200)" >> /tmp/refresh-queue.log
    python3 tools/accept_findings.py $id >> /tmp/refresh-queue.log
  done
done
