/* C03 driver: calls exported functions of wat2c-translated modules and prints, per call, the
 * outcome (result bit patterns or the signal that ended the call), a hash of the module's linear
 * memory and the host-call trace.
 *
 *   usage: driver <calls-file>
 *   calls file:  U <unit> <ncalls>                      start of the call list of drv_units[unit]
 *                C <fn> <flags> <nargs> <a0> <a1> ...   flags: 1 = fresh instance, 2 = refill memory
 *   output:      R <unit> <call> <outcome> M <pages>:<hash>|- H <trace>|-
 *                outcome = ok <nres> <r0> ... | sig:<SIGNAME> | hang | skipped:after-hang | init-failed:<SIGNAME> | lost:<status>
 *
 * A "fresh instance" is a forked child: the translated module keeps its state in C statics, so a
 * new process is the only way to get pristine globals, memory and init flag. Inside the child
 * every call runs under sigsetjmp; SIGFPE / SIGSEGV / SIGBUS / SIGILL / SIGABRT / SIGTRAP (on an
 * alternate stack, so stack exhaustion is survivable) end the call with the outcome sig:<name>,
 * a virtual-time timer of 20 CPU seconds ends it with "hang". The module's memory is the middle
 * of an 8 GiB PROT_NONE reservation with only max_pages mapped read/write, so that an access
 * through any 32-bit index (wat2c emits no bounds checks) either lands in the module's own
 * max-size array or faults deterministically.
 *
 * The memory hash, the refill pattern and the host stub return rule are the ones of
 * engine/watexec/outcome.go and js/exec.js. */
#define _GNU_SOURCE
#include "driver.h"
#include <inttypes.h>
#include <setjmp.h>
#include <signal.h>
#include <stdio.h>
#include <stdlib.h>
#include <string.h>
#include <sys/mman.h>
#include <sys/time.h>
#include <sys/wait.h>
#include <unistd.h>

#define PAGE 65536u
#define MAXARGS 8
#define MAXRES 8

struct call {
  int fn, flags, nargs;
  uint64_t args[MAXARGS];
};
struct ulist {
  int unit, ncalls;
  struct call *calls;
};

static sigjmp_buf env;
static volatile sig_atomic_t armed;

static const char *signame(int s) {
  switch (s) {
  case SIGFPE: return "SIGFPE";
  case SIGSEGV: return "SIGSEGV";
  case SIGBUS: return "SIGBUS";
  case SIGILL: return "SIGILL";
  case SIGABRT: return "SIGABRT";
  case SIGTRAP: return "SIGTRAP";
  case SIGVTALRM: return "SIGVTALRM";
  }
  return "SIG?";
}

static void on_signal(int s) {
  if (armed) {
    armed = 0;
    siglongjmp(env, s);
  }
  /* a signal outside a guarded call: the driver itself is broken */
  static const char msg[] = "driver: signal outside a call\n";
  if (write(2, msg, sizeof msg - 1) < 0) {}
  _exit(70);
}

static void install_handlers(void) {
  static char altstack[1 << 16];
  stack_t ss;
  ss.ss_sp = altstack;
  ss.ss_size = sizeof altstack;
  ss.ss_flags = 0;
  sigaltstack(&ss, NULL);
  struct sigaction sa;
  memset(&sa, 0, sizeof sa);
  sa.sa_handler = on_signal;
  sa.sa_flags = SA_ONSTACK | SA_NODEFER;
  sigemptyset(&sa.sa_mask);
  int sigs[] = {SIGFPE, SIGSEGV, SIGBUS, SIGILL, SIGABRT, SIGTRAP, SIGVTALRM};
  for (unsigned i = 0; i < sizeof sigs / sizeof sigs[0]; i++) sigaction(sigs[i], &sa, NULL);
}

static void set_timer(int seconds) {
  struct itimerval it;
  memset(&it, 0, sizeof it);
  it.it_value.tv_sec = seconds;
  setitimer(ITIMER_VIRTUAL, &it, NULL);
}

/* ---- host side ---- */

void drv_memory_init(uint8_t **pp_memory, int32_t *page_size, int32_t min_pages, int32_t max_pages) {
  const size_t half = (size_t)1 << 32;
  size_t total = 2 * half + ((size_t)max_pages + 1) * PAGE;
  uint8_t *region = mmap(NULL, total, PROT_NONE, MAP_PRIVATE | MAP_ANONYMOUS | MAP_NORESERVE, -1, 0);
  if (region == MAP_FAILED) {
    perror("driver: mmap");
    _exit(71);
  }
  uint8_t *base = region + half;
  if (max_pages > 0 && mprotect(base, (size_t)max_pages * PAGE, PROT_READ | PROT_WRITE) != 0) {
    perror("driver: mprotect");
    _exit(71);
  }
  *pp_memory = base;
  *page_size = min_pages;
}

int32_t drv_memory_grow(uint8_t **pp_memory, int32_t *page_size, int32_t new_size) {
  (void)pp_memory; (void)page_size; (void)new_size;
  return -1; /* what the repository's own host templates do; wat2c never calls it */
}

static char trace[8192];
static size_t trace_len;
static int trace_entries;
static int host_calls;

static void tr(const char *s) {
  size_t n = strlen(s);
  if (trace_len + n + 1 < sizeof trace) {
    memcpy(trace + trace_len, s, n);
    trace_len += n;
    trace[trace_len] = 0;
  }
}

uint64_t drv_host(int import_index, const char *name, const char *ptypes, const uint64_t *args, char rtype) {
  char buf[64];
  uint64_t v = (uint64_t)(100 * (import_index + 1) + host_calls % 50);
  uint64_t ret = v;
  int record = trace_entries < 64;
  if (record) {
    if (trace_entries > 0) tr(";");
    tr(name);
    tr("(");
  }
  for (int i = 0; ptypes[i]; i++) {
    uint64_t a = args[i];
    int nan = 0;
    switch (ptypes[i]) {
    case 'i': a &= 0xffffffffu; break;
    case 'f': a &= 0xffffffffu; nan = (a & 0x7f800000u) == 0x7f800000u && (a & 0x007fffffu) != 0; break;
    case 'F': nan = (a & 0x7ff0000000000000ull) == 0x7ff0000000000000ull && (a & 0x000fffffffffffffull) != 0; break;
    }
    if (record) {
      if (i > 0) tr(",");
      if (nan) tr("nan");
      else { snprintf(buf, sizeof buf, "%" PRIu64, a); tr(buf); }
    }
  }
  if (record) tr(")");
  if (rtype == 'f') { float f = (float)v; uint32_t b; memcpy(&b, &f, 4); ret = b; }
  if (rtype == 'F') { double d = (double)v; memcpy(&ret, &d, 8); }
  if (rtype && record) { snprintf(buf, sizeof buf, "=%" PRIu64, ret); tr(buf); }
  host_calls++;
  if (record) trace_entries++;
  return ret;
}

/* ---- memory pattern and hash ---- */

static void fill_pattern(uint8_t *mem, size_t n) {
  for (size_t i = 0; i < n; i++) mem[i] = (uint8_t)(i * 73 + (i >> 8) * 29 + 0x4f);
}

static void mem_hash(const uint8_t *mem, size_t n, uint32_t *o1, uint32_t *o2) {
  uint32_t h1 = 0x811c9dc5u, h2 = 0x9e3779b9u;
  for (size_t i = 0; i + 4 <= n; i += 4) {
    uint32_t w;
    memcpy(&w, mem + i, 4);
    h1 = (h1 ^ w) * 16777619u;
    h2 = (h2 + w) * 0x85ebca6bu;
    h2 ^= h2 >> 13;
  }
  *o1 = h1;
  *o2 = h2;
}

static size_t usable_pages(const struct drv_unit *u) {
  int32_t p = *u->memory_size;
  if (p < 0) p = 0;
  if (p > u->max_pages) p = u->max_pages;
  return (size_t)p;
}

/* ---- running ---- */

static int *progress; /* shared with the parent: number of calls of the group answered so far */

static void emit(const char *line) {
  size_t n = strlen(line), off = 0;
  while (off < n) {
    ssize_t w = write(1, line + off, n - off);
    if (w <= 0) _exit(72);
    off += (size_t)w;
  }
}

static void tail_fields(const struct drv_unit *u, char *out, size_t cap) {
  char m[64] = "-";
  if (u->memory && *u->memory) {
    uint32_t h1, h2;
    mem_hash(*u->memory, usable_pages(u) * PAGE, &h1, &h2);
    snprintf(m, sizeof m, "%d:%08x%08x", (int)*u->memory_size, h1, h2);
  }
  snprintf(out, cap, " M %s H %s\n", m, trace_len ? trace : "-");
}

static int hung; /* set once a call of this instance was cut off by the timer */

static void run_call(const struct ulist *ul, int c) {
  const struct drv_unit *u = drv_units[ul->unit];
  static char line[9000], tail[8400];
  const struct call *k = &ul->calls[c];
  const struct drv_fn *f = &u->fns[k->fn];
  static uint64_t res[MAXRES];
  volatile int n;
  int s;
  memset(res, 0, sizeof res);
  if ((k->flags & 2) && u->memory && *u->memory) {
    fill_pattern(*u->memory, usable_pages(u) * PAGE);
    if (usable_pages(u) < (size_t)u->max_pages)
      memset(*u->memory + usable_pages(u) * PAGE, 0, ((size_t)u->max_pages - usable_pages(u)) * PAGE);
  }
  trace_len = 0; trace_entries = 0; trace[0] = 0;
  n = snprintf(line, sizeof line, "R %d %d ", ul->unit, c);
  armed = 1;
  if ((s = sigsetjmp(env, 1)) == 0) {
    set_timer(20);
    f->thunk(k->args, res);
    armed = 0;
    set_timer(0);
    n += snprintf(line + n, sizeof line - n, "ok %d", f->nres);
    for (int i = 0; i < f->nres; i++) n += snprintf(line + n, sizeof line - n, " %" PRIu64, res[i]);
  } else {
    set_timer(0);
    if (s == SIGVTALRM) { n += snprintf(line + n, sizeof line - n, "hang"); hung = 1; }
    else n += snprintf(line + n, sizeof line - n, "sig:%s", signame(s));
  }
  if (hung) snprintf(tail, sizeof tail, " M - H -\n"); /* the cut-off point is not reproducible: no memory hash, no trace */
  else tail_fields(u, tail, sizeof tail);
  snprintf(line + n, sizeof line - n, "%s", tail);
  emit(line);
  const char *dump = getenv("DRV_DUMP"); /* debugging aid: <prefix>.<unit>.<call> gets the memory image */
  if (dump && u->memory && *u->memory) {
    char path[512];
    snprintf(path, sizeof path, "%s.%d.%d", dump, ul->unit, c);
    FILE *f = fopen(path, "wb");
    if (f) {
      fwrite(*u->memory, 1, usable_pages(u) * PAGE, f);
      fclose(f);
    }
  }
}

static void run_group(const struct ulist *ul, int first, int last) {
  const struct drv_unit *u = drv_units[ul->unit];
  char line[128];
  int s;
  host_calls = 0;
  trace_len = 0; trace_entries = 0; trace[0] = 0;
  armed = 1;
  if ((s = sigsetjmp(env, 1)) == 0) {
    set_timer(60);
    u->init();
    armed = 0;
    set_timer(0);
  } else {
    set_timer(0);
    for (int c = first; c < last; c++) {
      snprintf(line, sizeof line, "R %d %d init-failed:%s M - H -\n", ul->unit, c, signame(s));
      emit(line);
      *progress = c - first + 1;
    }
    return;
  }
  for (int c = first; c < last; c++) {
    if (hung) {
      /* where the timer cut the call off depends on scheduling: the state of this instance is not
       * reproducible any more, the remaining calls of the group are not made */
      snprintf(line, sizeof line, "R %d %d skipped:after-hang M - H -\n", ul->unit, c);
      emit(line);
    } else {
      run_call(ul, c);
    }
    *progress = c - first + 1;
  }
}

int main(int argc, char **argv) {
  if (argc < 2) {
    fprintf(stderr, "usage: driver <calls-file>\n");
    return 64;
  }
  FILE *in = fopen(argv[1], "r");
  if (!in) {
    perror(argv[1]);
    return 66;
  }
  struct ulist *lists = NULL;
  int nlists = 0;
  char tag;
  while (fscanf(in, " %c", &tag) == 1) {
    if (tag == 'U') {
      lists = realloc(lists, (size_t)(nlists + 1) * sizeof *lists);
      struct ulist *ul = &lists[nlists++];
      if (fscanf(in, "%d %d", &ul->unit, &ul->ncalls) != 2 || ul->unit < 0 || ul->unit >= drv_nunits) {
        fprintf(stderr, "driver: bad U line\n");
        return 65;
      }
      ul->calls = calloc((size_t)ul->ncalls + 1, sizeof *ul->calls);
      for (int c = 0; c < ul->ncalls; c++) {
        struct call *k = &ul->calls[c];
        if (fscanf(in, " C %d %d %d", &k->fn, &k->flags, &k->nargs) != 3 || k->nargs > MAXARGS || k->fn < 0 || k->fn >= drv_units[ul->unit]->nfns) {
          fprintf(stderr, "driver: bad C line (unit %d call %d)\n", ul->unit, c);
          return 65;
        }
        for (int i = 0; i < k->nargs; i++)
          if (fscanf(in, "%" SCNu64, &k->args[i]) != 1) return 65;
      }
    } else {
      fprintf(stderr, "driver: bad tag %c\n", tag);
      return 65;
    }
  }
  fclose(in);
  install_handlers();
  progress = mmap(NULL, 4096, PROT_READ | PROT_WRITE, MAP_SHARED | MAP_ANONYMOUS, -1, 0);
  if (progress == MAP_FAILED) return 71;
  for (int l = 0; l < nlists; l++) {
    struct ulist *ul = &lists[l];
    int first = 0;
    while (first < ul->ncalls) {
      int last = first + 1;
      while (last < ul->ncalls && !(ul->calls[last].flags & 1)) last++;
      *progress = 0;
      fflush(stdout);
      pid_t pid = fork();
      if (pid < 0) {
        perror("driver: fork");
        return 71;
      }
      if (pid == 0) {
        run_group(ul, first, last);
        _exit(0);
      }
      int status = 0;
      waitpid(pid, &status, 0);
      int done = *progress;
      for (int c = first + done; c < last; c++) {
        char line[128];
        snprintf(line, sizeof line, "R %d %d lost:%d M - H -\n", ul->unit, c, status);
        emit(line);
      }
      first = last;
    }
  }
  return 0;
}
