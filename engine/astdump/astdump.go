//go:build go1.21

// Package astdump renders a wa-lang AST (internal/ast) without positions: a reflective walk that
// skips every token.Pos field, parentheses (ParenExpr is transparent), the resolution data (*ast.Object, *ast.Scope, File.Unresolved,
// File.Imports, File.EmbedMap) and the comment-group attachments (Doc / Comment fields and
// File.Comments). The comment TEXTS are returned separately as a sorted multiset.
// Shared by C07 (meaning preservation of formatting) and C08 (de-duplication of loader inputs).
package astdump

import (
	"fmt"
	"reflect"
	"sort"
	"strings"

	"wa-lang.org/wa/internal/ast"
	"wa-lang.org/wa/internal/token"
)

var (
	posType     = reflect.TypeOf(token.Pos(0))
	objType     = reflect.TypeOf((*ast.Object)(nil))
	scopeType   = reflect.TypeOf((*ast.Scope)(nil))
	cgroupType  = reflect.TypeOf((*ast.CommentGroup)(nil))
	cgroupsType = reflect.TypeOf([]*ast.CommentGroup(nil))
	tokenType   = reflect.TypeOf(token.Token(0))
)

// Line is one node of the dump: Path is the chain of node kinds / field names from the root,
// Text the line itself.
type Line struct {
	Path string
	Text string
}

type dumper struct {
	lines []Line
	path  []string
}

func (d *dumper) emit(depth int, s string) {
	d.lines = append(d.lines, Line{Path: strings.Join(d.path, "/"), Text: strings.Repeat(" ", depth) + s})
}

func (d *dumper) walk(v reflect.Value, depth int, label string) {
	if !v.IsValid() {
		d.emit(depth, label+"nil")
		return
	}
	switch v.Kind() {
	case reflect.Interface, reflect.Ptr:
		if v.IsNil() {
			d.emit(depth, label+"nil")
			return
		}
		d.walk(v.Elem(), depth, label)
	case reflect.Struct:
		t := v.Type()
		if t.Name() == "ParenExpr" {
			// parentheses are layout: the tree structure already encodes the grouping
			d.walk(v.FieldByName("X"), depth, label)
			return
		}
		d.emit(depth, label+t.Name())
		d.path = append(d.path, t.Name())
		for i := 0; i < t.NumField(); i++ {
			f := t.Field(i)
			if !f.IsExported() {
				continue
			}
			switch f.Type {
			case posType, objType, scopeType, cgroupType, cgroupsType:
				continue
			}
			if t.Name() == "File" && (f.Name == "Unresolved" || f.Name == "Imports" || f.Name == "EmbedMap") {
				continue
			}
			d.walk(v.Field(i), depth+1, f.Name+": ")
		}
		d.path = d.path[:len(d.path)-1]
	case reflect.Slice:
		if v.Len() == 0 {
			d.emit(depth, label+"[]")
			return
		}
		d.emit(depth, fmt.Sprintf("%s[%d]", label, v.Len()))
		for i := 0; i < v.Len(); i++ {
			d.walk(v.Index(i), depth+1, "")
		}
	case reflect.String:
		d.emit(depth, fmt.Sprintf("%s%q", label, v.String()))
	default:
		if v.Type() == tokenType {
			d.emit(depth, label+token.Token(v.Int()).String())
			return
		}
		d.emit(depth, fmt.Sprintf("%s%v", label, v.Interface()))
	}
}

// Dump returns the position-free dump of node.
func Dump(node interface{}) []Line {
	d := &dumper{}
	d.walk(reflect.ValueOf(node), 0, "")
	return d.lines
}

// String renders a dump as text.
func String(lines []Line) string {
	var b strings.Builder
	for _, l := range lines {
		b.WriteString(l.Text)
		b.WriteByte('\n')
	}
	return b.String()
}

// Comments returns the sorted multiset of comment texts of a file. White space at the ends of
// each line of a comment is layout (the printer trims line ends and re-indents block comments)
// and is removed.
func Comments(f *ast.File) []string {
	var out []string
	for _, g := range f.Comments {
		for _, c := range g.List {
			lines := strings.Split(c.Text, "\n")
			for i := range lines {
				lines[i] = strings.TrimSpace(lines[i])
			}
			out = append(out, strings.Join(lines, "\n"))
		}
	}
	sort.Strings(out)
	return out
}

// FirstDiff returns the index of the first differing line of two dumps (-1 if equal) and the node
// path there.
func FirstDiff(a, b []Line) (int, string) {
	for i := 0; i < len(a) && i < len(b); i++ {
		if a[i].Text != b[i].Text {
			return i, a[i].Path
		}
	}
	if len(a) != len(b) {
		i := min(len(a), len(b))
		p := "EOF"
		if i < len(a) {
			p = a[i].Path
		} else if i < len(b) {
			p = b[i].Path
		}
		return i, p
	}
	return -1, ""
}
