//go:build go1.21

package watgen

import (
	"fmt"
	"math"
	"strconv"
	"strings"
)

// Item is one module of a family.
type Item struct {
	Family string  // "mod", "instr", "ctrl"
	Key    string  // canonical identity inside the family (construct, immediates, spelling)
	Module *Module
	// Outside is non-empty when the item uses a standard WAT spelling that the dialect did not
	// have (or did not handle) when the engine was frozen (see frozen.go). Such an item may be
	// rejected with an error; if it is accepted its binary must be right, and it must never panic.
	Outside string
}

// ---------------------------------------------------------------------------------------------
// mod: section-shape combinations

// ModShape is one point of the section-shape product.
type ModShape struct {
	Name    bool // (module $name
	Imports bool // two function imports (one with a named parameter) and an immutable global import
	Table   int  // 0 none, 1 `(table 3 funcref)` + one elem, 2 `(table 3 8 funcref)` + two elems
	Memory  int  // 0 none, 1 defined min + data, 2 defined min max + two data, 3 imported min + data, 4 imported min max + data
	Globals int  // 0 none, 1 i32/i64 mutable and immutable, 2 all four types mutable and immutable
	Start   bool
	Multi   bool // multi-value function results and block results
	Alias   bool // one function exported under two names
}

func (s ModShape) String() string {
	var p []string
	if s.Name {
		p = append(p, "name")
	}
	if s.Imports {
		p = append(p, "imports")
	}
	if s.Table > 0 {
		p = append(p, "table"+strconv.Itoa(s.Table))
	}
	if s.Memory > 0 {
		p = append(p, "memory"+strconv.Itoa(s.Memory))
	}
	if s.Globals > 0 {
		p = append(p, "globals"+strconv.Itoa(s.Globals))
	}
	if s.Start {
		p = append(p, "start")
	}
	if s.Multi {
		p = append(p, "multi")
	}
	if s.Alias {
		p = append(p, "alias")
	}
	if len(p) == 0 {
		return "bare"
	}
	return strings.Join(p, "+")
}

// ModShapes enumerates the complete shape product, simplest first (by number of features).
func ModShapes() []ModShape {
	var out []ModShape
	for _, name := range []bool{false, true} {
		for _, imp := range []bool{false, true} {
			for tab := 0; tab <= 2; tab++ {
				for mem := 0; mem <= 4; mem++ {
					for gl := 0; gl <= 2; gl++ {
						for _, st := range []bool{false, true} {
							for _, mv := range []bool{false, true} {
								for _, al := range []bool{false, true} {
									out = append(out, ModShape{name, imp, tab, mem, gl, st, mv, al})
								}
							}
						}
					}
				}
			}
		}
	}
	weight := func(s ModShape) int {
		w := 0
		for _, b := range []bool{s.Name, s.Imports, s.Start, s.Multi, s.Alias} {
			if b {
				w++
			}
		}
		return w + s.Table + s.Memory + s.Globals
	}
	// stable sort by weight
	for i := 1; i < len(out); i++ {
		for j := i; j > 0 && weight(out[j]) < weight(out[j-1]); j-- {
			out[j], out[j-1] = out[j-1], out[j]
		}
	}
	return out
}

// TrickyData is the data alphabet: NUL, 0xff, quote, backslash, newline, tab, printable text and a
// multi-byte UTF-8 character.
var TrickyData = []byte("hi\x00\xff\"\\\n\t~ \xc3\xa9\xe8")

// BuildMod builds the module of one shape.
func BuildMod(s ModShape) *Module {
	m := &Module{}
	if s.Name {
		m.Name = "shape.mod#1"
	}
	nImpF := uint32(0)
	if s.Imports {
		m.Imports = append(m.Imports,
			Import{Module: "env", Name: "imp0", Kind: KindFunc, Id: "env.imp0", Sig: FuncType{Params: []ValType{I32}, Results: []ValType{I32}}, ParamIds: []string{"x"}},
			Import{Module: "env", Name: "imp1", Kind: KindFunc, Id: "$env.imp1", Sig: FuncType{Params: []ValType{F64, I64}}},
			Import{Module: "env", Name: "gimp", Kind: KindGlobal, Id: "gimp", GlobalType: I32},
		)
		nImpF = 2
	}
	nImpG := uint32(m.NumImported(KindGlobal))
	switch s.Memory {
	case 1:
		m.Memory = &Memory{Id: "memory", Lim: Limits{Min: 1}}
	case 2:
		m.Memory = &Memory{Id: "memory", Lim: Limits{Min: 1, HasMax: true, Max: 4}}
	case 3:
		m.Imports = append(m.Imports, Import{Module: "env", Name: "mem", Kind: KindMemory, Id: "memory", Lim: Limits{Min: 1}})
	case 4:
		m.Imports = append(m.Imports, Import{Module: "env", Name: "mem", Kind: KindMemory, Id: "memory", Lim: Limits{Min: 1, HasMax: true, Max: 4}})
	}
	if s.Memory > 0 {
		off := uint32(8)
		if s.Memory%2 == 0 {
			off = 64 // the first value whose unsigned and signed LEB128 encodings differ
		}
		m.Datas = append(m.Datas, Data{Offset: off, Bytes: TrickyData})
		if s.Memory == 2 {
			m.Datas = append(m.Datas, Data{Offset: 65535, Bytes: []byte{0x2a}})
		}
	}
	switch s.Table {
	case 1:
		m.Table = &Table{Id: "tab", Lim: Limits{Min: 3}}
	case 2:
		m.Table = &Table{Id: "tab", Lim: Limits{Min: 3, HasMax: true, Max: 8}}
	}
	if s.Globals > 0 {
		types := []ValType{I32, I64}
		if s.Globals == 2 {
			types = AllNumTypes
		}
		for _, t := range types {
			for _, mut := range []bool{false, true} {
				id := fmt.Sprintf("pkg.G_%s_%v#1", t, mut)
				m.Globals = append(m.Globals, Global{Id: id, Type: t, Mut: mut, Init: ConstFor(t, int32(len(m.Globals))-3)})
			}
		}
	}

	// explicit types are needed by call_indirect
	if s.Table > 0 {
		m.Types = append(m.Types,
			TypeDef{Id: "$OnFree", FuncType: FuncType{Params: []ValType{I32}}, ParamIds: nil},
			TypeDef{Id: "bin", FuncType: FuncType{Params: []ValType{I32, I64}, Results: []ValType{I32}}},
		)
	}

	fidx := func(k int) uint32 { return nImpF + uint32(k) }

	// f0: params, locals, the basic variable instructions
	f0 := Func{
		Id: "f0", Sig: FuncType{Params: []ValType{I32, I64}, Results: []ValType{I32}},
		ParamIds: []string{"a", "$b.1"},
		Locals:   []Local{{Id: "x", Type: I32}, {Id: "$t0", Type: F64}, {Id: "", Type: I32}},
		Body: []Instr{
			InsIdx(OpLocalGet, 0), InsIdx(OpLocalSet, 2),
			F64Const(f64bits(1.5)), InsIdx(OpLocalSet, 3),
			InsIdx(OpLocalGet, 2), InsIdx(OpLocalTee, 4),
		},
	}
	m.Funcs = append(m.Funcs, f0)

	// f1: uses whatever the shape has
	f1 := Func{Id: "$wa.rt.f1", Sig: FuncType{Params: []ValType{I32}}, ParamIds: []string{"ptr"}}
	b := &f1.Body
	*b = append(*b, I32Const(1), I64Const(2), InsIdx(OpCall, fidx(0)), Ins(OpDrop))
	if s.Imports {
		*b = append(*b, I32Const(7), InsIdx(OpCall, 0), Ins(OpDrop))
		*b = append(*b, F64Const(f64bits(0.5)), I64Const(-1), InsIdx(OpCall, 1))
		*b = append(*b, InsIdx(OpGlobalGet, 0), Ins(OpDrop))
	}
	for i, g := range m.Globals {
		*b = append(*b, InsIdx(OpGlobalGet, nImpG+uint32(i)))
		if g.Mut {
			*b = append(*b, InsIdx(OpGlobalSet, nImpG+uint32(i)))
		} else {
			*b = append(*b, Ins(OpDrop))
		}
	}
	if s.Memory > 0 {
		*b = append(*b, I32Const(0), MemIns(OpI32Load, 4, 2), Ins(OpDrop))
		*b = append(*b, I32Const(0), I32Const(1), MemIns(OpI32Store, 65535, 0))
		*b = append(*b, Ins(OpMemorySize), Ins(OpDrop))
	}
	if s.Table > 0 {
		*b = append(*b, I32Const(5), I32Const(1), Instr{Op: OpCallIndirect, Idx: 0, Idx2: 0})
		*b = append(*b, I32Const(5), I64Const(6), I32Const(2), Instr{Op: OpCallIndirect, Idx: 1, Idx2: 0}, Ins(OpDrop))
	}
	m.Funcs = append(m.Funcs, f1)

	if s.Multi {
		mv := Func{Id: "mv", Sig: FuncType{Params: []ValType{I32}, Results: []ValType{I32, I64}}, ParamIds: []string{"c"}}
		mv.Body = []Instr{
			Block("L0", I32, I64), I32Const(1), I64Const(2), Ins(OpEnd), Ins(OpDrop), Ins(OpDrop),
			InsIdx(OpLocalGet, 0), If("L1", I32, I32), I32Const(3), I32Const(4), Ins(OpElse), I32Const(5), I32Const(6), Ins(OpEnd),
			Ins(OpDrop), Ins(OpDrop),
			Loop("", F32, F64), F32Const(f32bits(1)), F64Const(f64bits(2)), Ins(OpEnd), Ins(OpDrop), Ins(OpDrop),
			I32Const(7), I64Const(8),
		}
		m.Funcs = append(m.Funcs, mv)
		// same signature again: must share the type
		m.Funcs = append(m.Funcs, Func{Id: "mv2", Sig: FuncType{Params: []ValType{I32}, Results: []ValType{I32, I64}}, Body: []Instr{I32Const(1), I64Const(2)}})
	}
	startIdx := -1
	if s.Start {
		startIdx = len(m.Funcs)
		m.Funcs = append(m.Funcs, Func{Id: "_start", Body: []Instr{I32Const(0), InsIdx(OpCall, fidx(1))}})
		m.HasStart, m.Start = true, fidx(startIdx)
	}
	// an anonymous function, last
	anon := len(m.Funcs)
	m.Funcs = append(m.Funcs, Func{Sig: FuncType{Params: []ValType{I32}}, Body: []Instr{InsIdx(OpLocalGet, 0), Ins(OpDrop)}})

	if s.Table > 0 {
		e := Elem{Offset: 1, Funcs: []uint32{fidx(1)}}
		if s.Imports {
			e.Funcs = append(e.Funcs, 0)
		}
		m.Elems = append(m.Elems, e)
		if s.Table == 2 {
			m.Elems = append(m.Elems, Elem{Offset: 0, Funcs: []uint32{fidx(1)}})
		}
	}

	// exports: globals, then functions, then table and memory (the order inline exports give)
	for i, g := range m.Globals {
		m.Exports = append(m.Exports, Export{Name: "g." + g.Type.String() + "." + strconv.FormatBool(g.Mut), Kind: KindGlobal, Idx: nImpG + uint32(i)})
	}
	m.Exports = append(m.Exports, Export{Name: "f0", Kind: KindFunc, Idx: fidx(0)})
	if s.Alias {
		m.Exports = append(m.Exports, Export{Name: "f0.alias", Kind: KindFunc, Idx: fidx(0)})
	}
	m.Exports = append(m.Exports, Export{Name: "wa.rt.f1", Kind: KindFunc, Idx: fidx(1)})
	m.Exports = append(m.Exports, Export{Name: "anon \"q\"", Kind: KindFunc, Idx: fidx(anon)})
	if m.Table != nil {
		m.Exports = append(m.Exports, Export{Name: "tab", Kind: KindTable, Idx: 0})
	}
	if s.Memory > 0 {
		m.Exports = append(m.Exports, Export{Name: "memory", Kind: KindMemory, Idx: 0})
	}
	return m
}

// extraMods are hand-shaped corner modules that the shape product does not reach.
func extraMods() []Item {
	var out []Item
	nullary := func(id string, v int32) Func {
		return Func{Id: id, Body: []Instr{I32Const(v), Ins(OpDrop)}}
	}
	// start names the second / third of several parameterless functions
	for k := 0; k < 3; k++ {
		m := &Module{Funcs: []Func{nullary("a", 1), nullary("b", 2), nullary("c", 3)}, HasStart: true, Start: uint32(k)}
		out = append(out, Item{Family: "mod", Key: fmt.Sprintf("extra|start=function %d of 3", k), Module: m})
	}
	{
		m := &Module{Imports: []Import{{Module: "env", Name: "init", Kind: KindFunc, Id: "env.init"}}, Funcs: []Func{nullary("a", 1), nullary("b", 2)}, HasStart: true, Start: 0}
		out = append(out, Item{Family: "mod", Key: "extra|start=imported function", Module: m})
		m2 := *m
		m2.Start = 2
		out = append(out, Item{Family: "mod", Key: "extra|start=second defined after an import", Module: &m2})
	}
	// anonymous functions, each exported
	{
		m := &Module{Funcs: []Func{nullary("", 1), nullary("", 2), nullary("named", 3)},
			Exports: []Export{{Name: "first", Kind: KindFunc, Idx: 0}, {Name: "second", Kind: KindFunc, Idx: 1}, {Name: "third", Kind: KindFunc, Idx: 2}}}
		out = append(out, Item{Family: "mod", Key: "extra|anonymous functions exported", Module: m})
	}
	// anonymous import next to a named one, anonymous parameters
	{
		m := &Module{Name: "type.02", Imports: []Import{
			{Module: "env", Name: "foo", Kind: KindFunc},
			{Module: "env", Name: "bar", Kind: KindFunc, Id: "bar", Sig: FuncType{Params: []ValType{I32, I32}}, ParamIds: []string{"", "second"}},
		}, Types: []TypeDef{{Id: "bar", FuncType: FuncType{}}}}
		out = append(out, Item{Family: "mod", Key: "extra|anonymous import", Module: m})
	}
	// global initialisers at the boundaries of every type
	{
		m := &Module{}
		for i, v := range []int32{0, -1, math.MinInt32, math.MaxInt32} {
			m.Globals = append(m.Globals, Global{Id: fmt.Sprintf("i%d", i), Type: I32, Mut: i%2 == 1, Init: I32Const(v)})
		}
		for i, v := range []int64{0, -1, math.MinInt64, math.MaxInt64} {
			m.Globals = append(m.Globals, Global{Id: fmt.Sprintf("l%d", i), Type: I64, Mut: i%2 == 1, Init: I64Const(v)})
		}
		out = append(out, Item{Family: "mod", Key: "extra|integer global initialisers", Module: m})
		m2 := &Module{}
		for i, v := range []uint32{0x80000000, 0x3fc00000, 0x7f7fffff, 0x00000001} {
			m2.Globals = append(m2.Globals, Global{Id: fmt.Sprintf("f%d", i), Type: F32, Mut: i%2 == 1, Init: F32Const(v)})
		}
		out = append(out, Item{Family: "mod", Key: "extra|f32 global initialisers", Module: m2})
		m3 := &Module{}
		for i, v := range []uint64{0x8000000000000000, 0x3ff8000000000000, 0x7fefffffffffffff, 0x0000000000000001} {
			m3.Globals = append(m3.Globals, Global{Id: fmt.Sprintf("d%d", i), Type: F64, Mut: i%2 == 1, Init: F64Const(v)})
		}
		out = append(out, Item{Family: "mod", Key: "extra|f64 global initialisers", Module: m3})
	}
	// unnamed table / memory / globals, numeric references only
	{
		m := &Module{Table: &Table{Lim: Limits{Min: 1}}, Memory: &Memory{Lim: Limits{Min: 1}},
			Globals: []Global{{Type: I32, Init: I32Const(1)}},
			Funcs:   []Func{{Id: "f", Body: []Instr{InsIdx(OpGlobalGet, 0), Ins(OpDrop)}}},
			Elems:   []Elem{{Offset: 0, Funcs: []uint32{0}}},
			Exports: []Export{{Name: "t", Kind: KindTable, Idx: 0}, {Name: "m", Kind: KindMemory, Idx: 0}, {Name: "g", Kind: KindGlobal, Idx: 0}}}
		out = append(out, Item{Family: "mod", Key: "extra|anonymous table memory global", Module: m})
	}
	// identifiers made of digits only ($0, $1): legal WAT; must never be taken for indices
	{
		m := &Module{Funcs: []Func{
			{Id: "1", Sig: FuncType{Results: []ValType{I32}}, Body: []Instr{I32Const(1)}},
			{Id: "0", Sig: FuncType{Results: []ValType{I32}}, Body: []Instr{InsIdx(OpCall, 0)}},
			{Id: "f", Sig: FuncType{Params: []ValType{I32, I32}, Results: []ValType{I32}}, ParamIds: []string{"1", "0"},
				Body: []Instr{InsIdx(OpLocalGet, 1)}},
		}}
		out = append(out, Item{Family: "mod", Key: "extra|digit identifiers", Module: m, Outside: "identifier consisting of digits only"})
	}
	// named element and data segments
	{
		m := &Module{Table: &Table{Id: "tab", Lim: Limits{Min: 2}}, Memory: &Memory{Id: "mem", Lim: Limits{Min: 1}},
			Funcs: []Func{nullary("f", 1)},
			Elems: []Elem{{Id: "seg.e#0", Offset: 1, Funcs: []uint32{0}}},
			Datas: []Data{{Id: "seg.d#0", Offset: 3, Bytes: []byte("xyz")}}}
		out = append(out, Item{Family: "mod", Key: "extra|named segments", Module: m})
	}
	// the empty module, with and without a name
	out = append(out, Item{Family: "mod", Key: "extra|empty", Module: &Module{}})
	out = append(out, Item{Family: "mod", Key: "extra|empty named", Module: &Module{Name: "empty_with.name#1"}})
	return out
}

// ModFamily returns the items of the mod family: the hand-shaped corners, then the shape product.
func ModFamily() []Item {
	out := extraMods()
	for _, s := range ModShapes() {
		out = append(out, Item{Family: "mod", Key: s.String(), Module: BuildMod(s)})
	}
	return out
}

// ---------------------------------------------------------------------------------------------
// instr: one module per instruction and immediate

// IntAlphabet32 / IntAlphabet64 are the integer boundary values.
var IntAlphabet32 = []int32{0, 1, 2, 3, 7, -1, -2, -7, math.MinInt32, math.MinInt32 + 1, math.MaxInt32, math.MaxInt32 - 1, 0x55555555, -0x55555556, 65535, 65536, 127, 128, -128, -129, 63, 64, -64, -65}
var IntAlphabet64 = []int64{0, 1, 2, 3, 7, -1, -2, -7, math.MinInt64, math.MinInt64 + 1, math.MaxInt64, math.MaxInt64 - 1, 0x5555555555555555, -0x5555555555555556, 1 << 32, 1<<32 - 1, -1 << 31, 1 << 31, 63, 64, -64, -65}

// F32Alphabet / F64Alphabet are bit patterns.
var F32Alphabet = []uint32{
	0x00000000, 0x80000000, 0x3f000000, 0xbf000000, 0x3f800000, 0xbf800000, 0x3fc00000, 0x3dcccccd, 0x501502f9, 0x4b800001,
	0x7f7fffff, 0xff7fffff, 0x00000001, 0x80000001, 0x00800000, 0x007fffff, 0x4f000000, 0xcf000000, 0x5f000000,
	0x7f800000, 0xff800000, 0x7fc00000, 0xffc00000, 0x7fa00000, 0x7f800001, 0x7fffffff,
}
var F64Alphabet = []uint64{
	0x0000000000000000, 0x8000000000000000, 0x3fe0000000000000, 0xbfe0000000000000, 0x3ff0000000000000, 0xbff0000000000000,
	0x3ff8000000000000, 0x3fb999999999999a, 0x4202a05f20000000, 0x4170000010000000,
	0x7fefffffffffffff, 0xffefffffffffffff, 0x0000000000000001, 0x8000000000000001, 0x0010000000000000, 0x000fffffffffffff,
	0x41e0000000000000, 0xc1e0000000000000, 0x41dfffffffc00000, 0x43e0000000000000, 0xc3e0000000000000, 0x43f0000000000000,
	0x7ff0000000000000, 0xfff0000000000000, 0x7ff8000000000000, 0xfff8000000000000, 0x7ff4000000000000, 0x7ff0000000000001, 0x7fffffffffffffff,
}

// MemOffsets is the offset boundary set of memory instructions.
var MemOffsets = []uint64{0, 1, 65535}

func instrModule(needMem, needTable, needData bool) *Module {
	m := &Module{Name: "instr"}
	if needMem {
		m.Memory = &Memory{Id: "memory", Lim: Limits{Min: 2}}
	}
	if needData {
		m.Datas = []Data{{Offset: 0, Bytes: []byte("abc")}}
	}
	if needTable {
		m.Table = &Table{Id: "tab", Lim: Limits{Min: 2}}
	}
	return m
}

// wrap builds a function around one plain instruction: constants for the operands, the
// instruction, a drop for every result.
func wrap(in Instr) Func {
	info := OpInfo(in.Op)
	f := Func{Id: "t", Body: nil}
	for k, t := range info.Pop {
		f.Body = append(f.Body, ConstFor(t, int32(k+1)))
	}
	f.Body = append(f.Body, in)
	for range info.Push {
		f.Body = append(f.Body, Ins(OpDrop))
	}
	return f
}

func intSpellings(v int64, bits int) (lits []string, outside []string) {
	// returns spellings; outside[i] != "" when that spelling is frozen as outside the dialect
	add := func(l, why string) {
		lits = append(lits, l)
		outside = append(outside, why)
	}
	add(strconv.FormatInt(v, 10), "")
	var u uint64
	if bits == 32 {
		u = uint64(uint32(int32(v)))
	} else {
		u = uint64(v)
	}
	if v < 0 {
		why := ""
		if bits == 64 {
			why = "unsigned decimal i64 literal above MaxInt64"
		}
		add(strconv.FormatUint(u, 10), why)
		add("0x"+strconv.FormatUint(u, 16), "hexadecimal integer literal with the sign bit set")
		add("-0x"+strconv.FormatUint(uint64(-v), 16), "negative hexadecimal integer literal")
	} else {
		add("0x"+strconv.FormatUint(u, 16), "")
		add("0X"+strings.ToUpper(strconv.FormatUint(u, 16)), "")
	}
	return
}

// InstrFamily returns one item per instruction of the subset and per immediate value of its
// boundary set.
func InstrFamily() []Item {
	var out []Item
	add := func(key string, m *Module, outside string) {
		out = append(out, Item{Family: "instr", Key: key, Module: m, Outside: outside})
	}
	single := func(key string, m *Module, f Func) {
		m.Funcs = append(m.Funcs, f)
		add(key, m, "")
	}
	for i := range Ops() {
		info := &Ops()[i]
		name := info.Name
		switch {
		case info.Imm == ImmMem:
			for _, off := range MemOffsets {
				for al := uint32(0); al <= info.Natural; al++ {
					for _, short := range []string{"", "short"} {
						if short == "short" && off != 0 && al != info.Natural {
							continue // identical text
						}
						in := MemIns(info.Op, off, al)
						in.Lit = short
						sp := "explicit"
						if short != "" {
							sp = "defaults-omitted"
						}
						single(fmt.Sprintf("%s|offset=%d|align=%d|%s", name, off, 1<<al, sp), instrModule(true, false, false), wrap(in))
					}
				}
			}
		case info.Imm == ImmI32:
			for _, v := range IntAlphabet32 {
				lits, outs := intSpellings(int64(v), 32)
				for k, l := range lits {
					in := I32Const(v)
					in.Lit = l
					m := instrModule(false, false, false)
					m.Funcs = append(m.Funcs, wrap(in))
					add(fmt.Sprintf("%s|%s", name, l), m, outs[k])
				}
			}
		case info.Imm == ImmI64:
			for _, v := range IntAlphabet64 {
				lits, outs := intSpellings(v, 64)
				for k, l := range lits {
					in := I64Const(v)
					in.Lit = l
					m := instrModule(false, false, false)
					m.Funcs = append(m.Funcs, wrap(in))
					add(fmt.Sprintf("%s|%s", name, l), m, outs[k])
				}
			}
		case info.Imm == ImmF32:
			for _, bits := range F32Alphabet {
				v := float64(math.Float32frombits(bits))
				forms := []byte{'g', 'f', 'x'}
				if math.IsNaN(v) || math.IsInf(v, 0) {
					forms = []byte{'g'}
				}
				for _, form := range forms {
					in := F32Const(bits)
					in.Lit = FloatLit(v, uint64(bits), 32, form)
					m := instrModule(false, false, false)
					m.Funcs = append(m.Funcs, wrap(in))
					why := ""
					if len(forms) == 1 {
						why = "nan / inf float literal"
					}
					add(fmt.Sprintf("%s|bits=0x%08x|%c|%s", name, bits, form, in.Lit), m, why)
				}
			}
		case info.Imm == ImmF64:
			for _, bits := range F64Alphabet {
				v := math.Float64frombits(bits)
				forms := []byte{'g', 'f', 'x'}
				if math.IsNaN(v) || math.IsInf(v, 0) {
					forms = []byte{'g'}
				}
				for _, form := range forms {
					in := F64Const(bits)
					in.Lit = FloatLit(v, bits, 64, form)
					m := instrModule(false, false, false)
					m.Funcs = append(m.Funcs, wrap(in))
					why := ""
					if len(forms) == 1 {
						why = "nan / inf float literal"
					}
					key := in.Lit
					if len(key) > 40 {
						key = key[:40] + "..."
					}
					add(fmt.Sprintf("%s|bits=0x%016x|%c|%s", name, bits, form, key), m, why)
				}
			}
		case info.Plain && info.Imm == ImmNone:
			single(name, instrModule(false, false, false), wrap(Ins(info.Op)))
		case info.Imm == ImmMemIdx || info.Imm == ImmMemIdx2:
			single(name, instrModule(true, false, false), wrap(Ins(info.Op)))
		case info.Imm == ImmData:
			single(name+"|data=0", instrModule(true, false, true), wrap(InsIdx(info.Op, 0)))
		case info.Op == OpTableGet:
			single(name, instrModule(false, true, false), wrap(InsIdx(info.Op, 0)))
		case info.Op == OpTableSet:
			f := Func{Id: "t", Body: []Instr{I32Const(0), I32Const(1), InsIdx(OpTableGet, 0), InsIdx(OpTableSet, 0)}}
			single(name, instrModule(false, true, false), f)
		case info.Op == OpUnreachable || info.Op == OpReturn:
			single(name, instrModule(false, false, false), Func{Id: "t", Body: []Instr{Ins(info.Op)}})
		case info.Op == OpDrop:
			single(name, instrModule(false, false, false), Func{Id: "t", Body: []Instr{I32Const(1), Ins(OpDrop)}})
		case info.Op == OpSelect:
			for _, t := range AllNumTypes {
				f := Func{Id: "t", Body: []Instr{ConstFor(t, 1), ConstFor(t, 2), I32Const(1), Ins(OpSelect), Ins(OpDrop)}}
				single(name+"|"+t.String(), instrModule(false, false, false), f)
			}
		case info.Op == OpSelectT:
			for _, t := range AllNumTypes {
				f := Func{Id: "t", Body: []Instr{ConstFor(t, 1), ConstFor(t, 2), I32Const(1), {Op: OpSelectT, Sel: []ValType{t}}, Ins(OpDrop)}}
				single("select (result)|"+t.String(), instrModule(false, false, false), f)
			}
		case info.Imm == ImmLocal:
			// params 0,1; locals 2,3,4
			base := Func{Id: "t", Sig: FuncType{Params: []ValType{I32, F64}}, ParamIds: []string{"p0", "p1"},
				Locals: []Local{{"l0", I64}, {"$l1", F32}, {"l2", I32}}}
			types := []ValType{I32, F64, I64, F32, I32}
			for idx := uint32(0); idx < 5; idx++ {
				f := base
				switch info.Op {
				case OpLocalGet:
					f.Body = []Instr{InsIdx(OpLocalGet, idx), Ins(OpDrop)}
				case OpLocalSet:
					f.Body = []Instr{ConstFor(types[idx], 1), InsIdx(OpLocalSet, idx)}
				case OpLocalTee:
					f.Body = []Instr{ConstFor(types[idx], 1), InsIdx(OpLocalTee, idx), Ins(OpDrop)}
				}
				single(fmt.Sprintf("%s|index=%d", name, idx), instrModule(false, false, false), f)
			}
		case info.Imm == ImmGlobal:
			for gi, t := range AllNumTypes {
				for _, mut := range []bool{false, true} {
					if info.Op == OpGlobalSet && !mut {
						continue
					}
					m := instrModule(false, false, false)
					m.Globals = []Global{{Id: "g0", Type: I32, Init: I32Const(0)}, {Id: "pkg.g#1", Type: t, Mut: mut, Init: ConstFor(t, int32(gi)-1)}}
					var f Func
					if info.Op == OpGlobalGet {
						f = Func{Id: "t", Body: []Instr{InsIdx(OpGlobalGet, 1), Ins(OpDrop)}}
					} else {
						f = Func{Id: "t", Body: []Instr{ConstFor(t, 3), InsIdx(OpGlobalSet, 1)}}
					}
					single(fmt.Sprintf("%s|%s|mut=%v", name, t, mut), m, f)
				}
			}
		case info.Op == OpCall:
			for _, target := range []string{"import", "defined", "self"} {
				m := instrModule(false, false, false)
				m.Imports = []Import{{Module: "env", Name: "f", Kind: KindFunc, Id: "env.f", Sig: FuncType{Params: []ValType{I32}, Results: []ValType{I64}}}}
				m.Funcs = []Func{{Id: "callee", Sig: FuncType{Params: []ValType{F32}}, Body: nil}}
				var f Func
				switch target {
				case "import":
					f = Func{Id: "t", Body: []Instr{I32Const(1), InsIdx(OpCall, 0), Ins(OpDrop)}}
				case "defined":
					f = Func{Id: "t", Body: []Instr{F32Const(0), InsIdx(OpCall, 1)}}
				case "self":
					f = Func{Id: "t", Body: []Instr{InsIdx(OpCall, 2)}}
				}
				single(name+"|"+target, m, f)
			}
		case info.Op == OpCallIndirect:
			for ti := uint32(0); ti < 2; ti++ {
				m := instrModule(false, true, false)
				m.Types = []TypeDef{{Id: "$OnFree", FuncType: FuncType{Params: []ValType{I32}}}, {Id: "cmp", FuncType: FuncType{Params: []ValType{I32, I32}, Results: []ValType{I32}}}}
				var f Func
				if ti == 0 {
					f = Func{Id: "t", Body: []Instr{I32Const(1), I32Const(0), {Op: OpCallIndirect, Idx: 0}}}
				} else {
					f = Func{Id: "t", Body: []Instr{I32Const(1), I32Const(2), I32Const(0), {Op: OpCallIndirect, Idx: 1}, Ins(OpDrop)}}
				}
				single(fmt.Sprintf("%s|type=%d", name, ti), m, f)
			}
			{
				// two explicit declarations of one signature: the reference keeps both
				m := instrModule(false, true, false)
				m.Types = []TypeDef{{Id: "a", FuncType: FuncType{Params: []ValType{I32}}}, {Id: "b", FuncType: FuncType{Params: []ValType{I32}}}}
				f := Func{Id: "t", Body: []Instr{I32Const(1), I32Const(0), {Op: OpCallIndirect, Idx: 1}}}
				single(name+"|duplicate-type-declarations", m, f)
			}
		case info.Op == OpBlock || info.Op == OpLoop || info.Op == OpIf:
			results := [][]ValType{nil, {I32}, {I64}, {F32}, {F64}, {I32, I64}, {F32, F64, I32}}
			for _, res := range results {
				for _, label := range []string{"", "L"} {
					var body []Instr
					head := Instr{Op: info.Op, Label: label, BT: BlockType{Results: res}}
					if info.Op == OpIf {
						body = append(body, I32Const(1))
					}
					body = append(body, head)
					for k, t := range res {
						body = append(body, ConstFor(t, int32(k)))
					}
					if info.Op == OpIf && len(res) > 0 {
						body = append(body, Ins(OpElse))
						for k, t := range res {
							body = append(body, ConstFor(t, int32(k+5)))
						}
					}
					body = append(body, Ins(OpEnd))
					for range res {
						body = append(body, Ins(OpDrop))
					}
					rs := "void"
					if len(res) > 0 {
						var p []string
						for _, t := range res {
							p = append(p, t.String())
						}
						rs = strings.Join(p, ",")
					}
					lb := "unlabelled"
					if label != "" {
						lb = "labelled"
					}
					single(fmt.Sprintf("%s|result=%s|%s", name, rs, lb), instrModule(false, false, false), Func{Id: "t", Body: body})
				}
			}
		case info.Op == OpElse:
			f := Func{Id: "t", Body: []Instr{I32Const(1), If(""), I32Const(1), Ins(OpDrop), Ins(OpElse), I32Const(2), Ins(OpDrop), Ins(OpEnd)}}
			single(name, instrModule(false, false, false), f)
		case info.Op == OpEnd:
			single(name, instrModule(false, false, false), Func{Id: "t", Body: []Instr{Block(""), Ins(OpEnd)}})
		case info.Op == OpBr || info.Op == OpBrIf:
			for depth := uint32(0); depth <= 2; depth++ {
				body := []Instr{Block("outer"), Block("inner")}
				if info.Op == OpBrIf {
					body = append(body, I32Const(1))
				}
				body = append(body, InsIdx(info.Op, depth), Ins(OpEnd), Ins(OpEnd))
				single(fmt.Sprintf("%s|depth=%d", name, depth), instrModule(false, false, false), Func{Id: "t", Body: body})
			}
		case info.Op == OpBrTable:
			for _, targets := range [][]uint32{{0}, {1}, {0, 1}, {1, 0}, {2, 1, 0}, {0, 1, 2, 0, 1, 2, 2}} {
				body := []Instr{Block("outer"), Block("inner"), I32Const(1), {Op: OpBrTable, Idxs: targets}, Ins(OpEnd), Ins(OpEnd)}
				single(fmt.Sprintf("%s|targets=%v", name, targets), instrModule(false, false, false), Func{Id: "t", Body: body})
			}
		default:
			panic("watgen: instruction " + name + " has no instr-family generator")
		}
	}
	return out
}

// ---------------------------------------------------------------------------------------------
// ctrl: every nest of block / loop / if / if-else with a branch instruction innermost

// Ctrl construct kinds.
const (
	CBlock = iota
	CLoop
	CIf       // if without else (void mode only)
	CIfThen   // if-else, the nest continues in the then arm
	CIfElse   // if-else, the nest continues in the else arm
	numCKinds
)

var ckindNames = [...]string{"block", "loop", "if", "if-else/then", "if-else/else"}

// CtrlLeaf is the innermost branch instruction.
type CtrlLeaf struct {
	Op      Op       // OpBr, OpBrIf, OpBrTable, OpReturn
	Targets []uint32 // br/br_if: one; br_table: two (case 0, default)
}

func (l CtrlLeaf) String() string {
	s := OpInfo(l.Op).Name
	for _, t := range l.Targets {
		s += " " + strconv.FormatUint(uint64(t), 10)
	}
	return s
}

// CtrlCase is one nest.
type CtrlCase struct {
	Kinds  []int // outermost first
	Leaf   CtrlLeaf
	Result bool // every construct and the function produce an i32
	// Share, when set, gives the label of every level: level i is labelled $L<Share[i]>, so levels
	// with equal entries reuse one identifier (label shadowing; a symbolic reference means the
	// innermost construct of that name). nil: every level has its own label $L<i>.
	Share []int
}

func (c CtrlCase) String() string {
	var k []string
	for _, x := range c.Kinds {
		k = append(k, ckindNames[x])
	}
	mode := "void"
	if c.Result {
		mode = "i32"
	}
	if len(k) == 0 {
		k = []string{"-"}
	}
	s := mode + "|" + strings.Join(k, ">") + "|" + c.Leaf.String()
	if c.Share != nil {
		s += "|labels=" + strings.Trim(strings.ReplaceAll(fmt.Sprint(c.Share), " ", ","), "[]")
	}
	return s
}

// CtrlOpts selects instrumentation. Exec adds two mutable globals ($acc, $fuel), a trace update
// at every point of the nest and a fuel guard at every loop head, so that the function terminates
// and its path is observable (for the checks that execute the family).
type CtrlOpts struct {
	Exec bool
	// Trailing adds, in void nests, a `br_if` to the outermost construct after every inner
	// construct has closed: a branch at every depth of the nest, resolved after a label scope ended.
	Trailing bool
}

// arity of a branch to relative depth k from inside all constructs of c.
func (c CtrlCase) arity(k uint32) int {
	if !c.Result {
		return 0
	}
	d := len(c.Kinds)
	if int(k) == d {
		return 1 // function result
	}
	if c.Kinds[d-1-int(k)] == CLoop {
		return 0
	}
	return 1
}

// CtrlCases enumerates every nest of depth 0..maxDepth, simplest first. Ill-typed combinations
// (br_table over targets of different arity, if without else producing a value) do not exist in
// the language and are not cases.
func CtrlCases(maxDepth int) []CtrlCase {
	var out []CtrlCase
	for depth := 0; depth <= maxDepth; depth++ {
		kinds := make([]int, depth)
		var rec func(i int)
		rec = func(i int) {
			if i == depth {
				for _, result := range []bool{false, true} {
					if result {
						bad := false
						for _, k := range kinds {
							if k == CIf {
								bad = true
							}
						}
						if bad {
							continue
						}
					}
					base := CtrlCase{Kinds: append([]int(nil), kinds...), Result: result}
					for k := uint32(0); k <= uint32(depth); k++ {
						c := base
						c.Leaf = CtrlLeaf{Op: OpBr, Targets: []uint32{k}}
						out = append(out, c)
					}
					for k := uint32(0); k <= uint32(depth); k++ {
						c := base
						c.Leaf = CtrlLeaf{Op: OpBrIf, Targets: []uint32{k}}
						out = append(out, c)
					}
					for k1 := uint32(0); k1 <= uint32(depth); k1++ {
						for k2 := uint32(0); k2 <= uint32(depth); k2++ {
							c := base
							if c.arity(k1) != c.arity(k2) {
								continue
							}
							c.Leaf = CtrlLeaf{Op: OpBrTable, Targets: []uint32{k1, k2}}
							out = append(out, c)
						}
					}
					c := base
					c.Leaf = CtrlLeaf{Op: OpReturn}
					out = append(out, c)
				}
				return
			}
			for k := 0; k < numCKinds; k++ {
				kinds[i] = k
				rec(i + 1)
			}
		}
		rec(0)
	}
	return out
}

// BuildCtrl builds the module of one nest: function $ctrl (param $sel i32), exported as "ctrl".
func BuildCtrl(c CtrlCase, o CtrlOpts) *Module {
	m := &Module{Name: "ctrl"}
	f := Func{Id: "ctrl", Sig: FuncType{Params: []ValType{I32}}, ParamIds: []string{"sel"}, Locals: []Local{{Id: "tmp", Type: I32}}}
	if c.Result {
		f.Sig.Results = []ValType{I32}
	}
	if o.Exec {
		m.Globals = []Global{{Id: "acc", Type: I32, Mut: true, Init: I32Const(0)}, {Id: "fuel", Type: I32, Mut: true, Init: I32Const(3)}}
		m.Exports = append(m.Exports, Export{Name: "acc", Kind: KindGlobal, Idx: 0}, Export{Name: "fuel", Kind: KindGlobal, Idx: 1})
	}
	var b []Instr
	point := int32(0)
	trace := func() {
		if o.Exec {
			point++
			b = append(b, InsIdx(OpGlobalGet, 0), I32Const(7), Ins(OpI32Mul), I32Const(point), Ins(OpI32Add), InsIdx(OpGlobalSet, 0))
		}
	}
	filler := func() {
		trace()
		if c.Result {
			b = append(b, I32Const(9))
		} else {
			b = append(b, I32Const(9), InsIdx(OpLocalSet, 1))
		}
	}
	var res []ValType
	if c.Result {
		res = []ValType{I32}
	}
	var emit func(i int)
	emit = func(i int) {
		if i == len(c.Kinds) {
			trace()
			l := c.Leaf
			switch l.Op {
			case OpBr:
				if c.arity(l.Targets[0]) == 1 {
					b = append(b, I32Const(5))
				}
				b = append(b, InsIdx(OpBr, l.Targets[0]))
			case OpBrIf:
				if c.arity(l.Targets[0]) == 1 {
					b = append(b, I32Const(5), InsIdx(OpLocalGet, 0), InsIdx(OpBrIf, l.Targets[0]))
				} else {
					b = append(b, InsIdx(OpLocalGet, 0), InsIdx(OpBrIf, l.Targets[0]))
					if c.Result {
						b = append(b, I32Const(6))
					}
				}
			case OpBrTable:
				if c.arity(l.Targets[0]) == 1 {
					b = append(b, I32Const(5))
				}
				b = append(b, InsIdx(OpLocalGet, 0), Instr{Op: OpBrTable, Idxs: append([]uint32(nil), l.Targets...)})
			case OpReturn:
				if c.Result {
					b = append(b, I32Const(5))
				}
				b = append(b, Ins(OpReturn))
			}
			return
		}
		label := "L" + strconv.Itoa(i)
		if c.Share != nil {
			label = "L" + strconv.Itoa(c.Share[i])
		}
		switch c.Kinds[i] {
		case CBlock:
			b = append(b, Block(label, res...))
			trace()
			emit(i + 1)
			b = append(b, Ins(OpEnd))
		case CLoop:
			b = append(b, Loop(label, res...))
			if o.Exec {
				b = append(b, InsIdx(OpGlobalGet, 1), Ins(OpI32Eqz), If(""))
				if c.Result {
					b = append(b, I32Const(-1))
				}
				b = append(b, Ins(OpReturn), Ins(OpEnd))
				b = append(b, InsIdx(OpGlobalGet, 1), I32Const(1), Ins(OpI32Sub), InsIdx(OpGlobalSet, 1))
			}
			trace()
			emit(i + 1)
			b = append(b, Ins(OpEnd))
		case CIf:
			b = append(b, InsIdx(OpLocalGet, 0), If(label))
			trace()
			emit(i + 1)
			b = append(b, Ins(OpEnd))
		case CIfThen:
			b = append(b, InsIdx(OpLocalGet, 0), If(label, res...))
			trace()
			emit(i + 1)
			b = append(b, Ins(OpElse))
			filler()
			b = append(b, Ins(OpEnd))
		case CIfElse:
			b = append(b, InsIdx(OpLocalGet, 0), If(label, res...))
			filler()
			b = append(b, Ins(OpElse))
			trace()
			emit(i + 1)
			b = append(b, Ins(OpEnd))
		}
		trace()
		if o.Trailing && !c.Result && i >= 1 {
			// here construct i has closed and constructs 0..i-1 are open: depth i-1 is the outermost
			b = append(b, InsIdx(OpLocalGet, 0), InsIdx(OpBrIf, uint32(i-1)))
		}
	}
	emit(0)
	f.Body = b
	m.Funcs = []Func{f}
	m.Exports = append(m.Exports, Export{Name: "ctrl", Kind: KindFunc, Idx: 0})
	return m
}

// labelPartitions returns every way to give n nested levels labels such that at least two levels
// share one (restricted growth strings without the all-distinct one), e.g. n=3:
// 0,0,0  0,0,1  0,1,0  0,1,1.
func labelPartitions(n int) [][]int {
	var out [][]int
	cur := make([]int, n)
	var rec func(i, maxUsed int)
	rec = func(i, maxUsed int) {
		if i == n {
			if maxUsed < n-1 {
				out = append(out, append([]int(nil), cur...))
			}
			return
		}
		for v := 0; v <= maxUsed+1; v++ {
			cur[i] = v
			rec(i+1, max(maxUsed, v))
		}
	}
	if n > 0 {
		cur[0] = 0
		rec(1, 0)
	}
	return out
}

// CtrlShadowCases enumerates the nests of depth 2..maxDepth of CtrlCases once for every label
// assignment in which at least two levels share an identifier.
func CtrlShadowCases(maxDepth int) []CtrlCase {
	var out []CtrlCase
	parts := map[int][][]int{}
	for _, c := range CtrlCases(maxDepth) {
		d := len(c.Kinds)
		if d < 2 {
			continue
		}
		if parts[d] == nil {
			parts[d] = labelPartitions(d)
		}
		for _, p := range parts[d] {
			x := c
			x.Share = p
			out = append(out, x)
		}
	}
	return out
}

// CtrlShadowFamily returns the label-shadowing items (family "ctrl-shadow"): branches by name
// from the innermost position to every depth (br, br_if, br_table) and, in void nests, a trailing
// br_if at every shallower depth.
func CtrlShadowFamily(maxDepth int) []Item {
	var out []Item
	for _, c := range CtrlShadowCases(maxDepth) {
		out = append(out, Item{Family: "ctrl-shadow", Key: c.String(), Module: BuildCtrl(c, CtrlOpts{Trailing: true})})
	}
	return out
}

// CtrlFamily returns the ctrl items for nests up to maxDepth.
func CtrlFamily(maxDepth int, o CtrlOpts) []Item {
	var out []Item
	for _, c := range CtrlCases(maxDepth) {
		out = append(out, Item{Family: "ctrl", Key: c.String(), Module: BuildCtrl(c, o)})
	}
	return out
}
