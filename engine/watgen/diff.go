//go:build go1.21

package watgen

import (
	"bytes"
	"fmt"
	"sort"
	"strings"
)

// Mismatch is one difference between two binary views. Class is a canonical defect class
// (section | aspect | construct), suitable as part of a violation key; Detail is for humans.
type Mismatch struct {
	Class  string
	Detail string
}

// DiffOpts selects what Diff compares.
type DiffOpts struct {
	Names       bool // compare function / local / module names
	ExportOrder bool // report a pure ordering difference of the export section
	TypeOrder   bool // report a pure ordering difference of the type section
}

func limStr(l Limits) string {
	if l.HasMax {
		return fmt.Sprintf("{min %d max %d}", l.Min, l.Max)
	}
	return fmt.Sprintf("{min %d}", l.Min)
}

// InstrString renders one instruction with its immediates (binary view, no identifiers).
func InstrString(in *Instr) string {
	info := OpInfo(in.Op)
	if info == nil {
		return in.Op.String()
	}
	s := info.Name
	switch info.Imm {
	case ImmBlock:
		if len(in.BT.Results) > 0 {
			s += " (result"
			for _, t := range in.BT.Results {
				s += " " + t.String()
			}
			s += ")"
		}
	case ImmLabel, ImmFunc, ImmLocal, ImmGlobal, ImmTable, ImmData:
		s += fmt.Sprintf(" %d", in.Idx)
	case ImmBrTable:
		for _, x := range in.Idxs {
			s += fmt.Sprintf(" %d", x)
		}
	case ImmCallIndirect:
		s += fmt.Sprintf(" table=%d type=%d", in.Idx2, in.Idx)
	case ImmMem:
		s += fmt.Sprintf(" offset=%d align=2^%d", in.Off, in.Align)
	case ImmI32, ImmI64:
		s += fmt.Sprintf(" %d", in.I)
	case ImmF32:
		s += fmt.Sprintf(" bits=0x%08x", uint32(in.F))
	case ImmF64:
		s += fmt.Sprintf(" bits=0x%016x", in.F)
	case ImmSelectT:
		s += " (result"
		for _, t := range in.Sel {
			s += " " + t.String()
		}
		s += ")"
	}
	return s
}

// instrDiff returns "" if equal, else the name of the first differing aspect.
func instrDiff(a, b *Instr, ta, tb []FuncType) string {
	if a.Op != b.Op {
		return "opcode"
	}
	info := OpInfo(a.Op)
	switch info.Imm {
	case ImmBlock:
		if !(FuncType{Results: a.BT.Results}).Equal(FuncType{Results: b.BT.Results}) {
			return "blocktype"
		}
	case ImmLabel:
		if a.Idx != b.Idx {
			return "label"
		}
	case ImmFunc, ImmLocal, ImmGlobal, ImmTable, ImmData:
		if a.Idx != b.Idx {
			return "index"
		}
	case ImmBrTable:
		if len(a.Idxs) != len(b.Idxs) {
			return "targets-count"
		}
		for i := range a.Idxs {
			if a.Idxs[i] != b.Idxs[i] {
				return "targets"
			}
		}
	case ImmCallIndirect:
		if a.Idx2 != b.Idx2 {
			return "table"
		}
		// compare the signature the type index denotes, not the raw index
		if int(a.Idx) >= len(ta) || int(b.Idx) >= len(tb) {
			if a.Idx != b.Idx {
				return "type"
			}
		} else if !ta[a.Idx].Equal(tb[b.Idx]) {
			return "type"
		}
	case ImmMem:
		if a.Align != b.Align {
			return "align"
		}
		if a.Off != b.Off {
			return "offset"
		}
	case ImmI32:
		if int32(a.I) != int32(b.I) {
			return "value"
		}
	case ImmI64:
		if a.I != b.I {
			return "value"
		}
	case ImmF32:
		if uint32(a.F) != uint32(b.F) {
			return "bits"
		}
	case ImmF64:
		if a.F != b.F {
			return "bits"
		}
	case ImmSelectT:
		if !(FuncType{Results: a.Sel}).Equal(FuncType{Results: b.Sel}) {
			return "types"
		}
	}
	return ""
}

func exprDiff(where string, a, b []Instr, ta, tb []FuncType) *Mismatch {
	n := min(len(a), len(b))
	for i := 0; i < n; i++ {
		if d := instrDiff(&a[i], &b[i], ta, tb); d != "" {
			return &Mismatch{
				Class:  fmt.Sprintf("%s|%s|%s", where, OpInfo(a[i].Op).Name, d),
				Detail: fmt.Sprintf("instruction %d: want `%s`, got `%s`", i, InstrString(&a[i]), InstrString(&b[i])),
			}
		}
	}
	if len(a) != len(b) {
		var which string
		if len(a) > n {
			which = "missing `" + InstrString(&a[n]) + "`"
		} else {
			which = "extra `" + InstrString(&b[n]) + "`"
		}
		return &Mismatch{Class: where + "|length", Detail: fmt.Sprintf("want %d instructions, got %d (%s)", len(a), len(b), which)}
	}
	return nil
}

func sigAt(types []FuncType, idx uint32) string {
	if int(idx) >= len(types) {
		return fmt.Sprintf("type %d (out of range)", idx)
	}
	return types[idx].String()
}

// Diff compares two binary views section by section; want is the reference.
func Diff(want, got *Bin, o DiffOpts) []Mismatch {
	var out []Mismatch
	add := func(class, format string, a ...interface{}) {
		out = append(out, Mismatch{Class: class, Detail: fmt.Sprintf(format, a...)})
	}

	// types
	typesEqual := len(want.Types) == len(got.Types)
	if typesEqual {
		for i := range want.Types {
			if !want.Types[i].Equal(got.Types[i]) {
				typesEqual = false
			}
		}
	}
	if !typesEqual {
		ws, gs := typeStrings(want.Types), typeStrings(got.Types)
		sw, sg := append([]string(nil), ws...), append([]string(nil), gs...)
		sort.Strings(sw)
		sort.Strings(sg)
		switch {
		case len(ws) != len(gs):
			add("types|count", "want %d types %v, got %d %v", len(ws), ws, len(gs), gs)
		case strings.Join(sw, ";") == strings.Join(sg, ";"):
			if o.TypeOrder {
				add("types|order", "want %v, got %v", ws, gs)
			}
		default:
			add("types|content", "want %v, got %v", ws, gs)
		}
	}

	// imports
	if len(want.Imports) != len(got.Imports) {
		add("imports|count", "want %d, got %d", len(want.Imports), len(got.Imports))
	} else {
		for i := range want.Imports {
			w, g := &want.Imports[i], &got.Imports[i]
			switch {
			case w.Module != g.Module || w.Name != g.Name:
				add("imports|name", "import %d: want %q.%q, got %q.%q", i, w.Module, w.Name, g.Module, g.Name)
			case w.Kind != g.Kind:
				add("imports|kind", "import %d: want %s, got %s", i, KindName(w.Kind), KindName(g.Kind))
			default:
				switch w.Kind {
				case KindFunc:
					if sigAt(want.Types, w.TypeIdx) != sigAt(got.Types, g.TypeIdx) {
						add("imports|func|signature", "import %d: want %s, got %s", i, sigAt(want.Types, w.TypeIdx), sigAt(got.Types, g.TypeIdx))
					} else if typesEqual && w.TypeIdx != g.TypeIdx {
						add("imports|func|typeidx", "import %d: want type %d, got %d", i, w.TypeIdx, g.TypeIdx)
					}
				case KindTable:
					if w.Table != g.Table {
						add("imports|table|limits", "import %d: want %s, got %s", i, limStr(w.Table.Lim), limStr(g.Table.Lim))
					}
				case KindMemory:
					if w.Mem != g.Mem {
						add("imports|memory|limits", "import %d: want %s, got %s", i, limStr(w.Mem), limStr(g.Mem))
					}
				case KindGlobal:
					if w.GlobalType != g.GlobalType || w.GlobalMut != g.GlobalMut {
						add("imports|global|type", "import %d: want %s mut=%v, got %s mut=%v", i, w.GlobalType, w.GlobalMut, g.GlobalType, g.GlobalMut)
					}
				}
			}
		}
	}

	// functions
	if len(want.Funcs) != len(got.Funcs) {
		add("functions|count", "want %d, got %d", len(want.Funcs), len(got.Funcs))
	} else {
		for i := range want.Funcs {
			if sigAt(want.Types, want.Funcs[i]) != sigAt(got.Types, got.Funcs[i]) {
				add("functions|signature", "function %d: want %s, got %s", i, sigAt(want.Types, want.Funcs[i]), sigAt(got.Types, got.Funcs[i]))
				break
			} else if typesEqual && want.Funcs[i] != got.Funcs[i] {
				add("functions|typeidx", "function %d: want type %d, got %d", i, want.Funcs[i], got.Funcs[i])
				break
			}
		}
	}

	// tables, memories
	if len(want.Tables) != len(got.Tables) {
		add("tables|count", "want %d, got %d", len(want.Tables), len(got.Tables))
	} else {
		for i := range want.Tables {
			if want.Tables[i] != got.Tables[i] {
				add("tables|limits", "table %d: want %s, got %s", i, limStr(want.Tables[i].Lim), limStr(got.Tables[i].Lim))
			}
		}
	}
	if len(want.Mems) != len(got.Mems) {
		add("memories|count", "want %d, got %d", len(want.Mems), len(got.Mems))
	} else {
		for i := range want.Mems {
			if want.Mems[i] != got.Mems[i] {
				add("memories|limits", "memory %d: want %s, got %s", i, limStr(want.Mems[i]), limStr(got.Mems[i]))
			}
		}
	}

	// globals
	if len(want.Globals) != len(got.Globals) {
		add("globals|count", "want %d, got %d", len(want.Globals), len(got.Globals))
	} else {
		for i := range want.Globals {
			w, g := &want.Globals[i], &got.Globals[i]
			if w.Type != g.Type || w.Mut != g.Mut {
				add("globals|type|"+w.Type.String(), "global %d: want %s mut=%v, got %s mut=%v", i, w.Type, w.Mut, g.Type, g.Mut)
			} else if d := exprDiff("globals|init", w.Init, g.Init, want.Types, got.Types); d != nil {
				d.Detail = fmt.Sprintf("global %d: %s", i, d.Detail)
				out = append(out, *d)
			}
		}
	}

	// exports
	{
		key := func(e Export) string { return fmt.Sprintf("%q=%s %d", e.Name, KindName(e.Kind), e.Idx) }
		var ws, gs []string
		for _, e := range want.Exports {
			ws = append(ws, key(e))
		}
		for _, e := range got.Exports {
			gs = append(gs, key(e))
		}
		if strings.Join(ws, ",") != strings.Join(gs, ",") {
			sw, sg := append([]string(nil), ws...), append([]string(nil), gs...)
			sort.Strings(sw)
			sort.Strings(sg)
			if strings.Join(sw, ",") == strings.Join(sg, ",") {
				if o.ExportOrder {
					add("exports|order", "want %v, got %v", ws, gs)
				}
			} else if len(ws) != len(gs) {
				add("exports|count", "want %v, got %v", ws, gs)
			} else {
				kinds := map[string]bool{}
				wm := map[string]Export{}
				for _, e := range want.Exports {
					wm[e.Name] = e
				}
				for _, e := range got.Exports {
					if w, ok := wm[e.Name]; !ok {
						kinds["name"] = true
					} else if w.Kind != e.Kind {
						kinds["kind"] = true
					} else if w.Idx != e.Idx {
						kinds[KindName(e.Kind)+"-index"] = true
					}
				}
				var ks []string
				for k := range kinds {
					ks = append(ks, k)
				}
				sort.Strings(ks)
				add("exports|"+strings.Join(ks, "+"), "want %v, got %v", ws, gs)
			}
		}
	}

	// start
	if want.HasStart != got.HasStart {
		add("start|presence", "want start=%v, got start=%v", want.HasStart, got.HasStart)
	} else if want.HasStart && want.Start != got.Start {
		add("start|index", "want function %d, got function %d", want.Start, got.Start)
	}

	// element segments
	if len(want.Elems) != len(got.Elems) {
		add("elem|count", "want %d, got %d", len(want.Elems), len(got.Elems))
	} else {
		for i := range want.Elems {
			w, g := &want.Elems[i], &got.Elems[i]
			if d := exprDiff("elem|offset", w.Offset, g.Offset, want.Types, got.Types); d != nil {
				d.Detail = fmt.Sprintf("segment %d: %s", i, d.Detail)
				out = append(out, *d)
			} else if fmt.Sprint(w.Funcs) != fmt.Sprint(g.Funcs) {
				add("elem|funcs", "segment %d: want %v, got %v", i, w.Funcs, g.Funcs)
			}
		}
	}

	// data count
	if want.HasDataCount != got.HasDataCount {
		add("datacount|presence", "want %v, got %v", want.HasDataCount, got.HasDataCount)
	}

	// code
	if len(want.Codes) != len(got.Codes) {
		add("code|count", "want %d, got %d", len(want.Codes), len(got.Codes))
	} else {
		for i := range want.Codes {
			w, g := &want.Codes[i], &got.Codes[i]
			if fmt.Sprint(w.Locals) != fmt.Sprint(g.Locals) {
				add("code|locals", "function %d: want locals %v, got %v", i, w.Locals, g.Locals)
			}
			if d := exprDiff("code", w.Body, g.Body, want.Types, got.Types); d != nil {
				d.Detail = fmt.Sprintf("function %d: %s", i, d.Detail)
				out = append(out, *d)
			}
		}
	}

	// data segments
	if len(want.Datas) != len(got.Datas) {
		add("data|count", "want %d, got %d", len(want.Datas), len(got.Datas))
	} else {
		for i := range want.Datas {
			w, g := &want.Datas[i], &got.Datas[i]
			if d := exprDiff("data|offset", w.Offset, g.Offset, want.Types, got.Types); d != nil {
				d.Detail = fmt.Sprintf("segment %d: %s", i, d.Detail)
				out = append(out, *d)
			} else if !bytes.Equal(w.Bytes, g.Bytes) {
				add("data|bytes", "segment %d: want %q, got %q", i, w.Bytes, g.Bytes)
			}
		}
	}

	if o.Names {
		out = append(out, DiffNames(want.Names, got.Names)...)
	}
	return dedupMismatch(out)
}

func dedupMismatch(in []Mismatch) []Mismatch {
	seen := map[string]bool{}
	var out []Mismatch
	for _, m := range in {
		if !seen[m.Class] {
			seen[m.Class] = true
			out = append(out, m)
		}
	}
	return out
}

func typeStrings(ts []FuncType) []string {
	out := make([]string, len(ts))
	for i, t := range ts {
		out[i] = t.String()
	}
	return out
}

// CheckNameOrder verifies that the function name map, the local name map and every inner local
// map are in strictly increasing index order (raw entries, as stored).
func CheckNameOrder(n *Names) []Mismatch {
	var out []Mismatch
	if n == nil {
		return nil
	}
	for i := 1; i < len(n.Funcs); i++ {
		if n.Funcs[i].Idx <= n.Funcs[i-1].Idx {
			out = append(out, Mismatch{"names|order|functions", fmt.Sprintf("function name entries %d,%d have indices %d,%d", i-1, i, n.Funcs[i-1].Idx, n.Funcs[i].Idx)})
			break
		}
	}
	for i := 1; i < len(n.Locals); i++ {
		if n.Locals[i].Func <= n.Locals[i-1].Func {
			out = append(out, Mismatch{"names|order|local-functions", fmt.Sprintf("local name entries %d,%d have function indices %d,%d", i-1, i, n.Locals[i-1].Func, n.Locals[i].Func)})
			break
		}
	}
outer:
	for _, l := range n.Locals {
		for i := 1; i < len(l.Names); i++ {
			if l.Names[i].Idx <= l.Names[i-1].Idx {
				out = append(out, Mismatch{"names|order|locals", fmt.Sprintf("function %d: local name entries %d,%d have indices %d,%d (%q,%q)", l.Func, i-1, i, l.Names[i-1].Idx, l.Names[i].Idx, l.Names[i-1].Name, l.Names[i].Name)})
				break outer
			}
		}
	}
	return out
}

// DiffNames compares module, function and local names as maps (entries with an empty name and
// functions without named locals are ignored: the reference assembler writes neither) and checks
// the stored order of got.
func DiffNames(want, got *Names) []Mismatch {
	var out []Mismatch
	if want == nil {
		return nil
	}
	if got == nil {
		return []Mismatch{{"names|missing", "no name section"}}
	}
	if want.HasModule && (!got.HasModule || got.Module != want.Module) {
		out = append(out, Mismatch{"names|module", fmt.Sprintf("want module name %q, got %q (present=%v)", want.Module, got.Module, got.HasModule)})
	}
	if !want.HasModule && got.HasModule && got.Module != "" {
		out = append(out, Mismatch{"names|module", fmt.Sprintf("want no module name, got %q", got.Module)})
	}
	out = append(out, CheckNameOrder(got)...)
	fm := func(n *Names) map[uint32]string {
		m := map[uint32]string{}
		for _, a := range n.Funcs {
			if a.Name != "" {
				m[a.Idx] = a.Name
			}
		}
		return m
	}
	wf, gf := fm(want), fm(got)
	if fmt.Sprint(wf) != fmt.Sprint(gf) {
		out = append(out, Mismatch{"names|functions", fmt.Sprintf("want %v, got %v", wf, gf)})
	}
	lm := func(n *Names) map[string]string {
		m := map[string]string{}
		for _, l := range n.Locals {
			for _, a := range l.Names {
				if a.Name != "" {
					k := fmt.Sprintf("f%d.l%d", l.Func, a.Idx)
					if old, dup := m[k]; dup {
						m[k] = old + "|" + a.Name
					} else {
						m[k] = a.Name
					}
				}
			}
		}
		return m
	}
	wl, gl := lm(want), lm(got)
	if fmt.Sprint(wl) != fmt.Sprint(gl) {
		out = append(out, Mismatch{"names|locals", fmt.Sprintf("want %v, got %v", wl, gl)})
	}
	return out
}

// EmptyNameEntries counts name-section entries whose name is the empty string (the reference
// assembler writes none).
func EmptyNameEntries(n *Names) (funcs, locals int) {
	if n == nil {
		return
	}
	for _, a := range n.Funcs {
		if a.Name == "" {
			funcs++
		}
	}
	for _, l := range n.Locals {
		for _, a := range l.Names {
			if a.Name == "" {
				locals++
			}
		}
	}
	return
}
