//go:build go1.21

package watgen

import (
	"math"
	"strconv"
	"strings"
)

// Op identifies an instruction: the opcode byte, or 0xFC00|sub for the 0xFC prefixed ones.
type Op uint16

// Immediate kinds.
type Imm byte

const (
	ImmNone Imm = iota
	ImmBlock        // block type (+ optional label in text)
	ImmLabel        // label index
	ImmBrTable      // vec(label) label
	ImmFunc         // function index
	ImmCallIndirect // type index, table index
	ImmLocal
	ImmGlobal
	ImmTable
	ImmMem     // align, offset
	ImmMemIdx  // one 0x00 byte (memory.size/grow/fill)
	ImmMemIdx2 // two 0x00 bytes (memory.copy)
	ImmData    // data index + 0x00 (memory.init)
	ImmI32
	ImmI64
	ImmF32
	ImmF64
	ImmSelectT // vec(valtype)
)

// Info describes one instruction of the subset.
type Info struct {
	Op      Op
	Name    string
	Imm     Imm
	Pop     []ValType // operand types for plain (non control) instructions
	Push    []ValType
	Natural uint32 // ImmMem: natural alignment as log2
	Plain   bool   // stack effect fully described by Pop/Push
}

const (
	OpUnreachable  Op = 0x00
	OpNop          Op = 0x01
	OpBlock        Op = 0x02
	OpLoop         Op = 0x03
	OpIf           Op = 0x04
	OpElse         Op = 0x05
	OpEnd          Op = 0x0b
	OpBr           Op = 0x0c
	OpBrIf         Op = 0x0d
	OpBrTable      Op = 0x0e
	OpReturn       Op = 0x0f
	OpCall         Op = 0x10
	OpCallIndirect Op = 0x11
	OpDrop         Op = 0x1a
	OpSelect       Op = 0x1b
	OpSelectT      Op = 0x1c
	OpLocalGet     Op = 0x20
	OpLocalSet     Op = 0x21
	OpLocalTee     Op = 0x22
	OpGlobalGet    Op = 0x23
	OpGlobalSet    Op = 0x24
	OpTableGet     Op = 0x25
	OpTableSet     Op = 0x26
	OpI32Load      Op = 0x28
	OpI32Store     Op = 0x36
	OpMemorySize   Op = 0x3f
	OpMemoryGrow   Op = 0x40
	OpI32Const     Op = 0x41
	OpI64Const     Op = 0x42
	OpF32Const     Op = 0x43
	OpF64Const     Op = 0x44
	OpI32Eqz       Op = 0x45
	OpI32Add       Op = 0x6a
	OpI32Sub       Op = 0x6b
	OpI32Mul       Op = 0x6c
	OpMemoryInit   Op = 0xfc08
	OpMemoryCopy   Op = 0xfc0a
	OpMemoryFill   Op = 0xfc0b
)

// opSpec lines: "<hex opcode> <name> <imm> <pop>><push> [natural]". Type letters: i=i32 I=i64
// f=f32 F=f64 r=funcref. "-" in the signature column marks control instructions whose stack
// effect is not a fixed signature.
const opSpec = `
00 unreachable none -
01 nop none >
02 block block -
03 loop block -
04 if block -
05 else none -
0b end none -
0c br label -
0d br_if label -
0e br_table brtable -
0f return none -
10 call func -
11 call_indirect callindirect -
1a drop none -
1b select none -
20 local.get local -
21 local.set local -
22 local.tee local -
23 global.get global -
24 global.set global -
25 table.get table i>r
26 table.set table ir>
28 i32.load mem i>i 2
29 i64.load mem i>I 3
2a f32.load mem i>f 2
2b f64.load mem i>F 3
2c i32.load8_s mem i>i 0
2d i32.load8_u mem i>i 0
2e i32.load16_s mem i>i 1
2f i32.load16_u mem i>i 1
30 i64.load8_s mem i>I 0
31 i64.load8_u mem i>I 0
32 i64.load16_s mem i>I 1
33 i64.load16_u mem i>I 1
34 i64.load32_s mem i>I 2
35 i64.load32_u mem i>I 2
36 i32.store mem ii> 2
37 i64.store mem iI> 3
38 f32.store mem if> 2
39 f64.store mem iF> 3
3a i32.store8 mem ii> 0
3b i32.store16 mem ii> 1
3c i64.store8 mem iI> 0
3d i64.store16 mem iI> 1
3e i64.store32 mem iI> 2
3f memory.size memidx >i
40 memory.grow memidx i>i
fc08 memory.init data iii>
fc0a memory.copy memidx2 iii>
fc0b memory.fill memidx iii>
41 i32.const i32 >i
42 i64.const i64 >I
43 f32.const f32 >f
44 f64.const f64 >F
45 i32.eqz none i>i
46 i32.eq none ii>i
47 i32.ne none ii>i
48 i32.lt_s none ii>i
49 i32.lt_u none ii>i
4a i32.gt_s none ii>i
4b i32.gt_u none ii>i
4c i32.le_s none ii>i
4d i32.le_u none ii>i
4e i32.ge_s none ii>i
4f i32.ge_u none ii>i
50 i64.eqz none I>i
51 i64.eq none II>i
52 i64.ne none II>i
53 i64.lt_s none II>i
54 i64.lt_u none II>i
55 i64.gt_s none II>i
56 i64.gt_u none II>i
57 i64.le_s none II>i
58 i64.le_u none II>i
59 i64.ge_s none II>i
5a i64.ge_u none II>i
5b f32.eq none ff>i
5c f32.ne none ff>i
5d f32.lt none ff>i
5e f32.gt none ff>i
5f f32.le none ff>i
60 f32.ge none ff>i
61 f64.eq none FF>i
62 f64.ne none FF>i
63 f64.lt none FF>i
64 f64.gt none FF>i
65 f64.le none FF>i
66 f64.ge none FF>i
67 i32.clz none i>i
68 i32.ctz none i>i
69 i32.popcnt none i>i
6a i32.add none ii>i
6b i32.sub none ii>i
6c i32.mul none ii>i
6d i32.div_s none ii>i
6e i32.div_u none ii>i
6f i32.rem_s none ii>i
70 i32.rem_u none ii>i
71 i32.and none ii>i
72 i32.or none ii>i
73 i32.xor none ii>i
74 i32.shl none ii>i
75 i32.shr_s none ii>i
76 i32.shr_u none ii>i
77 i32.rotl none ii>i
78 i32.rotr none ii>i
79 i64.clz none I>I
7a i64.ctz none I>I
7b i64.popcnt none I>I
7c i64.add none II>I
7d i64.sub none II>I
7e i64.mul none II>I
7f i64.div_s none II>I
80 i64.div_u none II>I
81 i64.rem_s none II>I
82 i64.rem_u none II>I
83 i64.and none II>I
84 i64.or none II>I
85 i64.xor none II>I
86 i64.shl none II>I
87 i64.shr_s none II>I
88 i64.shr_u none II>I
89 i64.rotl none II>I
8a i64.rotr none II>I
8b f32.abs none f>f
8c f32.neg none f>f
8d f32.ceil none f>f
8e f32.floor none f>f
8f f32.trunc none f>f
90 f32.nearest none f>f
91 f32.sqrt none f>f
92 f32.add none ff>f
93 f32.sub none ff>f
94 f32.mul none ff>f
95 f32.div none ff>f
96 f32.min none ff>f
97 f32.max none ff>f
98 f32.copysign none ff>f
99 f64.abs none F>F
9a f64.neg none F>F
9b f64.ceil none F>F
9c f64.floor none F>F
9d f64.trunc none F>F
9e f64.nearest none F>F
9f f64.sqrt none F>F
a0 f64.add none FF>F
a1 f64.sub none FF>F
a2 f64.mul none FF>F
a3 f64.div none FF>F
a4 f64.min none FF>F
a5 f64.max none FF>F
a6 f64.copysign none FF>F
a7 i32.wrap_i64 none I>i
a8 i32.trunc_f32_s none f>i
a9 i32.trunc_f32_u none f>i
aa i32.trunc_f64_s none F>i
ab i32.trunc_f64_u none F>i
ac i64.extend_i32_s none i>I
ad i64.extend_i32_u none i>I
ae i64.trunc_f32_s none f>I
af i64.trunc_f32_u none f>I
b0 i64.trunc_f64_s none F>I
b1 i64.trunc_f64_u none F>I
b2 f32.convert_i32_s none i>f
b3 f32.convert_i32_u none i>f
b4 f32.convert_i64_s none I>f
b5 f32.convert_i64_u none I>f
b6 f32.demote_f64 none F>f
b7 f64.convert_i32_s none i>F
b8 f64.convert_i32_u none i>F
b9 f64.convert_i64_s none I>F
ba f64.convert_i64_u none I>F
bb f64.promote_f32 none f>F
bc i32.reinterpret_f32 none f>i
bd i64.reinterpret_f64 none F>I
be f32.reinterpret_i32 none i>f
bf f64.reinterpret_i64 none I>F
`

var (
	opTable  []Info // in opSpec order (this is the order of token.go)
	opByOp   = map[Op]*Info{}
	opByName = map[string]*Info{}
)

func init() {
	immNames := map[string]Imm{
		"none": ImmNone, "block": ImmBlock, "label": ImmLabel, "brtable": ImmBrTable, "func": ImmFunc,
		"callindirect": ImmCallIndirect, "local": ImmLocal, "global": ImmGlobal, "table": ImmTable,
		"mem": ImmMem, "memidx": ImmMemIdx, "memidx2": ImmMemIdx2, "data": ImmData, "i32": ImmI32,
		"i64": ImmI64, "f32": ImmF32, "f64": ImmF64,
	}
	letters := map[byte]ValType{'i': I32, 'I': I64, 'f': F32, 'F': F64, 'r': FuncRef}
	for _, line := range strings.Split(strings.TrimSpace(opSpec), "\n") {
		f := strings.Fields(line)
		code, err := strconv.ParseUint(f[0], 16, 16)
		if err != nil {
			panic("watgen: bad opSpec line " + line)
		}
		imm, ok := immNames[f[2]]
		if !ok {
			panic("watgen: bad imm in " + line)
		}
		in := Info{Op: Op(code), Name: f[1], Imm: imm}
		if f[3] != "-" {
			in.Plain = true
			parts := strings.SplitN(f[3], ">", 2)
			for i := 0; i < len(parts[0]); i++ {
				in.Pop = append(in.Pop, letters[parts[0][i]])
			}
			for i := 0; i < len(parts[1]); i++ {
				in.Push = append(in.Push, letters[parts[1][i]])
			}
		}
		if len(f) > 4 {
			n, _ := strconv.Atoi(f[4])
			in.Natural = uint32(n)
		}
		opTable = append(opTable, in)
	}
	// select with an explicit type is the same text keyword with another opcode
	opTable = append(opTable, Info{Op: OpSelectT, Name: "select", Imm: ImmSelectT})
	for i := range opTable {
		in := &opTable[i]
		opByOp[in.Op] = in
		if in.Op != OpSelectT {
			opByName[in.Name] = in
		}
	}
}

// Ops returns the instruction table in token.go order (typed select last).
func Ops() []Info { return opTable }

// OpInfo returns the description of op (nil if op is not in the subset).
func OpInfo(op Op) *Info { return opByOp[op] }

// OpByName looks an instruction up by its text keyword.
func OpByName(name string) *Info { return opByName[name] }

func (op Op) String() string {
	if in := opByOp[op]; in != nil {
		return in.Name
	}
	return "op(0x" + strconv.FormatUint(uint64(op), 16) + ")"
}

func f32bits(f float32) uint32 { return math.Float32bits(f) }
func f64bits(f float64) uint64 { return math.Float64bits(f) }
