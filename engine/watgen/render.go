//go:build go1.21

package watgen

import (
	"fmt"
	"math"
	"strconv"
	"strings"
)

// Style is one combination of the surface-syntax switches of the renderer. Every combination
// is in the frozen alphabet (see frozen.go): the unchanged parser accepted all of them when the
// engine was built, so a later rejection is a violation.
type Style struct {
	NumericIdx   bool // references by index wherever the dialect allows it (locals, globals, labels, call_indirect type and table, export descriptors, elem items); call and start are by name always
	InlineExport bool // function and global exports written inline `(export "x")`; else separate fields
	DeclTypes    bool // an explicit `(type $sigN (func ...))` declaration for every signature used by an import or function
	NamedLocals  bool // parameters and locals carry their identifiers; else anonymous (references then numeric)
	Comments     bool // `;;` and `(; ;)` comments at every position the dialect allows
	GroupParams  bool // `(param i32 i64)` / `(result i32 i64)`; else one clause per value
	HexData      bool // data strings as \hh for every byte; else printable ASCII raw, the rest escaped
}

// NumStyleSwitches is the number of boolean switches in Style.
const NumStyleSwitches = 7

var styleNames = [NumStyleSwitches]string{"numeric-idx", "inline-export", "decl-types", "named-locals", "comments", "group-params", "hex-data"}

// StyleFromBits builds the style whose switch i is bit i of bits.
func StyleFromBits(bits int) Style {
	return Style{
		NumericIdx: bits&1 != 0, InlineExport: bits&2 != 0, DeclTypes: bits&4 != 0, NamedLocals: bits&8 != 0,
		Comments: bits&16 != 0, GroupParams: bits&32 != 0, HexData: bits&64 != 0,
	}
}

func (s Style) Bits() int {
	b := 0
	for i, on := range []bool{s.NumericIdx, s.InlineExport, s.DeclTypes, s.NamedLocals, s.Comments, s.GroupParams, s.HexData} {
		if on {
			b |= 1 << i
		}
	}
	return b
}

// String lists the switches that are on ("plain" if none).
func (s Style) String() string {
	var on []string
	b := s.Bits()
	for i := 0; i < NumStyleSwitches; i++ {
		if b&(1<<i) != 0 {
			on = append(on, styleNames[i])
		}
	}
	if len(on) == 0 {
		return "plain"
	}
	return strings.Join(on, "+")
}

// SwitchName returns the name of switch i.
func SwitchName(i int) string { return styleNames[i] }

// AllStyles enumerates all 2^NumStyleSwitches styles, plain first.
func AllStyles() []Style {
	out := make([]Style, 0, 1<<NumStyleSwitches)
	for b := 0; b < 1<<NumStyleSwitches; b++ {
		out = append(out, StyleFromBits(b))
	}
	return out
}

// CoverStyles is the reduced set used where the full product is too large: all off, each switch
// alone, all on, and each switch alone off.
func CoverStyles() []Style {
	seen := map[int]bool{}
	var out []Style
	add := func(b int) {
		if !seen[b] {
			seen[b] = true
			out = append(out, StyleFromBits(b))
		}
	}
	all := 1<<NumStyleSwitches - 1
	add(0)
	for i := 0; i < NumStyleSwitches; i++ {
		add(1 << i)
	}
	add(all)
	for i := 0; i < NumStyleSwitches; i++ {
		add(all &^ (1 << i))
	}
	return out
}

// Rendered is the result of rendering one module in one style.
type Rendered struct {
	Text   string
	Module *Module // the module the text describes (m plus the type declarations DeclTypes added)
	Layout *Layout // export order of the text
}

type renderer struct {
	m  *Module
	st Style
	sb strings.Builder
	nc int // comment counter
}

// Render writes m as WAT in the given style.
func Render(m *Module, st Style) (*Rendered, error) {
	r := &renderer{m: m, st: st}
	eff := *m
	eff.Types = append([]TypeDef(nil), m.Types...)
	if st.DeclTypes {
		have := func(ft FuncType) bool {
			for _, t := range eff.Types {
				if t.FuncType.Equal(ft) {
					return true
				}
			}
			return false
		}
		add := func(ft FuncType) {
			if !have(ft) {
				eff.Types = append(eff.Types, TypeDef{Id: fmt.Sprintf("sig%d", len(eff.Types)), FuncType: cloneFT(ft)})
			}
		}
		for i := range m.Imports {
			if m.Imports[i].Kind == KindFunc {
				add(m.Imports[i].Sig)
			}
		}
		for i := range m.Funcs {
			add(m.Funcs[i].Sig)
		}
	}
	if !st.NamedLocals {
		// the text will not carry parameter / local identifiers: the module it describes has none
		eff.Types = append([]TypeDef(nil), eff.Types...)
		for i := range eff.Types {
			eff.Types[i].ParamIds = nil
		}
		eff.Imports = append([]Import(nil), m.Imports...)
		for i := range eff.Imports {
			eff.Imports[i].ParamIds = nil
		}
		eff.Funcs = append([]Func(nil), m.Funcs...)
		for i := range eff.Funcs {
			eff.Funcs[i].ParamIds = nil
			eff.Funcs[i].Locals = append([]Local(nil), eff.Funcs[i].Locals...)
			for k := range eff.Funcs[i].Locals {
				eff.Funcs[i].Locals[k].Id = ""
			}
		}
	}
	r.m = &eff
	lay := &Layout{}

	r.lineComment("module head")
	r.sb.WriteString("(module")
	if eff.Name != "" {
		r.sb.WriteString(" $" + eff.Name)
	}
	r.sb.WriteString("\n")
	r.blockComment()

	for i := range eff.Types {
		t := &eff.Types[i]
		r.sb.WriteString("  (type")
		if t.Id != "" {
			r.sb.WriteString(" $" + t.Id)
		}
		r.sb.WriteString(" (func")
		r.sig(t.FuncType, t.ParamIds)
		r.sb.WriteString("))")
		r.eol()
	}
	for i := range eff.Imports {
		im := &eff.Imports[i]
		fmt.Fprintf(&r.sb, "  (import %s %s (", quote(im.Module), quote(im.Name))
		switch im.Kind {
		case KindFunc:
			r.sb.WriteString("func")
			if im.Id != "" {
				r.sb.WriteString(" $" + im.Id)
			}
			r.sig(im.Sig, im.ParamIds)
		case KindTable:
			r.sb.WriteString("table")
			if im.Id != "" {
				r.sb.WriteString(" $" + im.Id)
			}
			r.limits(im.Lim)
			r.sb.WriteString(" funcref")
		case KindMemory:
			r.sb.WriteString("memory")
			if im.Id != "" {
				r.sb.WriteString(" $" + im.Id)
			}
			r.limits(im.Lim)
		case KindGlobal:
			r.sb.WriteString("global")
			if im.Id != "" {
				r.sb.WriteString(" $" + im.Id)
			}
			if im.GlobalMut {
				fmt.Fprintf(&r.sb, " (mut %s)", im.GlobalType)
			} else {
				fmt.Fprintf(&r.sb, " %s", im.GlobalType)
			}
		default:
			return nil, fmt.Errorf("render: import kind %d", im.Kind)
		}
		r.sb.WriteString("))")
		r.eol()
	}
	if eff.Table != nil {
		r.sb.WriteString("  (table")
		if eff.Table.Id != "" {
			r.sb.WriteString(" $" + eff.Table.Id)
		}
		r.limits(eff.Table.Lim)
		r.sb.WriteString(" funcref)")
		r.eol()
	}
	if eff.Memory != nil {
		r.sb.WriteString("  (memory")
		if eff.Memory.Id != "" {
			r.sb.WriteString(" $" + eff.Memory.Id)
		}
		r.limits(eff.Memory.Lim)
		r.sb.WriteString(")")
		r.eol()
	}

	// exports by target
	inlineOf := func(kind byte, idx uint32) []int {
		var out []int
		if !st.InlineExport {
			return nil
		}
		for k, e := range eff.Exports {
			if e.Kind == kind && e.Idx == idx {
				out = append(out, k)
			}
		}
		return out
	}
	nGlobImp := uint32(eff.NumImported(KindGlobal))
	nFuncImp := uint32(eff.NumImported(KindFunc))
	done := map[int]bool{}

	for i := range eff.Globals {
		g := &eff.Globals[i]
		r.sb.WriteString("  (global")
		if g.Id != "" {
			r.sb.WriteString(" $" + g.Id)
		}
		for _, k := range inlineOf(KindGlobal, nGlobImp+uint32(i)) {
			fmt.Fprintf(&r.sb, " (export %s)", quote(eff.Exports[k].Name))
			lay.ExportOrder = append(lay.ExportOrder, k)
			done[k] = true
		}
		if g.Mut {
			fmt.Fprintf(&r.sb, " (mut %s)", g.Type)
		} else {
			fmt.Fprintf(&r.sb, " %s", g.Type)
		}
		lit, err := constText(&g.Init)
		if err != nil {
			return nil, err
		}
		fmt.Fprintf(&r.sb, " (%s %s))", OpInfo(g.Init.Op).Name, lit)
		r.eol()
	}

	for i := range eff.Funcs {
		f := &eff.Funcs[i]
		r.blockComment()
		r.sb.WriteString("  (func")
		if f.Id != "" {
			r.sb.WriteString(" $" + f.Id)
		}
		for _, k := range inlineOf(KindFunc, nFuncImp+uint32(i)) {
			fmt.Fprintf(&r.sb, " (export %s)", quote(eff.Exports[k].Name))
			lay.ExportOrder = append(lay.ExportOrder, k)
			done[k] = true
		}
		r.sig(f.Sig, f.ParamIds)
		if len(f.Locals) > 0 || len(f.Body) > 0 {
			r.eol()
		}
		for _, l := range f.Locals {
			if st.NamedLocals && l.Id != "" {
				fmt.Fprintf(&r.sb, "    (local $%s %s)", l.Id, l.Type)
			} else {
				fmt.Fprintf(&r.sb, "    (local %s)", l.Type)
			}
			r.eol()
		}
		if err := r.body(f); err != nil {
			return nil, fmt.Errorf("render: func %d: %v", i, err)
		}
		r.sb.WriteString("  )")
		r.eol()
	}

	for k, e := range eff.Exports {
		if done[k] {
			continue
		}
		var ref string
		switch e.Kind {
		case KindFunc:
			ref = r.ref(eff.FuncId(e.Idx), e.Idx, true)
		case KindGlobal:
			ref = r.ref(eff.GlobalId(e.Idx), e.Idx, true)
		case KindTable:
			ref = r.ref(eff.TableId(), e.Idx, true)
		case KindMemory:
			ref = r.ref(eff.MemoryId(), e.Idx, true)
		}
		fmt.Fprintf(&r.sb, "  (export %s (%s %s))", quote(e.Name), KindName(e.Kind), ref)
		lay.ExportOrder = append(lay.ExportOrder, k)
		r.eol()
	}
	if eff.HasStart {
		id := eff.FuncId(eff.Start)
		if id == "" {
			return nil, fmt.Errorf("render: start function %d has no identifier (the dialect has no numeric form)", eff.Start)
		}
		fmt.Fprintf(&r.sb, "  (start $%s)", id)
		r.eol()
	}
	for i := range eff.Elems {
		e := &eff.Elems[i]
		r.sb.WriteString("  (elem")
		if e.Id != "" {
			r.sb.WriteString(" $" + e.Id)
		}
		fmt.Fprintf(&r.sb, " (i32.const %d)", e.Offset)
		for _, f := range e.Funcs {
			r.sb.WriteString(" " + r.ref(eff.FuncId(f), f, true))
		}
		r.sb.WriteString(")")
		r.eol()
	}
	for i := range eff.Datas {
		d := &eff.Datas[i]
		r.sb.WriteString("  (data")
		if d.Id != "" {
			r.sb.WriteString(" $" + d.Id)
		}
		fmt.Fprintf(&r.sb, " (i32.const %d) %s)", d.Offset, dataString(d.Bytes, st.HexData))
		r.eol()
	}
	r.blockComment()
	r.sb.WriteString(")")
	if st.Comments {
		r.sb.WriteString(" ;; module end")
	}
	r.sb.WriteString("\n")
	return &Rendered{Text: r.sb.String(), Module: &eff, Layout: lay}, nil
}

// ref renders a reference to an entity: by identifier unless the style asks for indices or there
// is no identifier.
func (r *renderer) ref(id string, idx uint32, numericAllowed bool) string {
	if id != "" && !(r.st.NumericIdx && numericAllowed) {
		return "$" + id
	}
	return strconv.FormatUint(uint64(idx), 10)
}

func (r *renderer) eol() {
	if r.st.Comments {
		r.nc++
		if r.nc%3 == 0 {
			r.sb.WriteString(" ;; c" + strconv.Itoa(r.nc) + " (x) \"q\" $id ;; more")
		}
	}
	r.sb.WriteString("\n")
}

func (r *renderer) lineComment(what string) {
	if r.st.Comments {
		r.sb.WriteString(";; " + what + "\n")
	}
}

func (r *renderer) blockComment() {
	if r.st.Comments {
		r.nc++
		if r.nc%2 == 0 {
			r.sb.WriteString("  (; block comment ( $x \"y\" ;)\n")
		} else {
			r.sb.WriteString("  ;; line comment\n")
		}
	}
}

func (r *renderer) limits(l Limits) {
	fmt.Fprintf(&r.sb, " %d", l.Min)
	if l.HasMax {
		fmt.Fprintf(&r.sb, " %d", l.Max)
	}
}

func (r *renderer) sig(ft FuncType, ids []string) {
	named := func(k int) string {
		if r.st.NamedLocals && k < len(ids) {
			return ids[k]
		}
		return ""
	}
	for k := 0; k < len(ft.Params); {
		if id := named(k); id != "" {
			fmt.Fprintf(&r.sb, " (param $%s %s)", id, ft.Params[k])
			k++
			continue
		}
		r.sb.WriteString(" (param " + ft.Params[k].String())
		k++
		for r.st.GroupParams && k < len(ft.Params) && named(k) == "" {
			r.sb.WriteString(" " + ft.Params[k].String())
			k++
		}
		r.sb.WriteString(")")
	}
	if len(ft.Results) > 0 {
		if r.st.GroupParams {
			r.sb.WriteString(" (result")
			for _, t := range ft.Results {
				r.sb.WriteString(" " + t.String())
			}
			r.sb.WriteString(")")
		} else {
			for _, t := range ft.Results {
				r.sb.WriteString(" (result " + t.String() + ")")
			}
		}
	}
}

type scope struct {
	label string
}

func (r *renderer) body(f *Func) error {
	var stack []scope
	indent := func() string { return strings.Repeat("  ", len(stack)+2) }
	localRef := func(idx uint32) string {
		np := uint32(len(f.Sig.Params))
		id := ""
		if idx < np {
			if int(idx) < len(f.ParamIds) {
				id = f.ParamIds[idx]
			}
		} else if int(idx-np) < len(f.Locals) {
			id = f.Locals[idx-np].Id
		}
		if !r.st.NamedLocals {
			id = ""
		}
		return r.ref(id, idx, true)
	}
	labelRef := func(depth uint32) string {
		if int(depth) < len(stack) && !r.st.NumericIdx {
			want := stack[len(stack)-1-int(depth)].label
			if want != "" {
				// innermost-first lookup must find the same construct
				for d := 0; d < len(stack); d++ {
					if stack[len(stack)-1-d].label == want {
						if uint32(d) == depth {
							return "$" + want
						}
						break
					}
				}
			}
		}
		return strconv.FormatUint(uint64(depth), 10)
	}
	for k := range f.Body {
		in := &f.Body[k]
		info := OpInfo(in.Op)
		if info == nil {
			return fmt.Errorf("instr %d: unknown op", k)
		}
		switch in.Op {
		case OpEnd, OpElse:
			if len(stack) == 0 {
				return fmt.Errorf("instr %d: %s without open construct", k, info.Name)
			}
			if in.Op == OpEnd {
				stack = stack[:len(stack)-1]
				r.sb.WriteString(indent() + "end")
			} else {
				top := stack[len(stack)-1]
				stack = stack[:len(stack)-1]
				r.sb.WriteString(indent() + "else")
				stack = append(stack, top)
			}
			r.eol()
			continue
		}
		r.sb.WriteString(indent() + info.Name)
		switch info.Imm {
		case ImmNone, ImmMemIdx, ImmMemIdx2:
		case ImmBlock:
			if in.Label != "" {
				r.sb.WriteString(" $" + in.Label)
			}
			if len(in.BT.Results) > 0 {
				r.sb.WriteString(" (result")
				for _, t := range in.BT.Results {
					r.sb.WriteString(" " + t.String())
				}
				r.sb.WriteString(")")
			}
			stack = append(stack, scope{label: in.Label})
		case ImmLabel:
			r.sb.WriteString(" " + labelRef(in.Idx))
		case ImmBrTable:
			for _, x := range in.Idxs {
				r.sb.WriteString(" " + labelRef(x))
			}
		case ImmFunc:
			id := r.m.FuncId(in.Idx)
			if id == "" {
				return fmt.Errorf("instr %d: call of function %d which has no identifier (the dialect has no numeric form)", k, in.Idx)
			}
			r.sb.WriteString(" $" + id)
		case ImmCallIndirect:
			if r.st.NumericIdx {
				fmt.Fprintf(&r.sb, " %d (type %d)", in.Idx2, in.Idx)
			} else {
				if id := r.m.TableId(); id != "" {
					r.sb.WriteString(" $" + id)
				}
				tid := ""
				if int(in.Idx) < len(r.m.Types) {
					tid = r.m.Types[in.Idx].Id
				}
				r.sb.WriteString(" (type " + r.ref(tid, in.Idx, true) + ")")
			}
		case ImmLocal:
			r.sb.WriteString(" " + localRef(in.Idx))
		case ImmGlobal:
			r.sb.WriteString(" " + r.ref(r.m.GlobalId(in.Idx), in.Idx, true))
		case ImmTable:
			r.sb.WriteString(" " + r.ref(r.m.TableId(), in.Idx, true))
		case ImmData:
			fmt.Fprintf(&r.sb, " %d", in.Idx)
		case ImmMem:
			// Lit selects the spelling: "" explicit both, "short" omits defaults
			if !(in.Lit == "short" && in.Off == 0) {
				fmt.Fprintf(&r.sb, " offset=%d", in.Off)
			}
			if !(in.Lit == "short" && in.Align == info.Natural) {
				fmt.Fprintf(&r.sb, " align=%d", uint64(1)<<in.Align)
			}
		case ImmI32, ImmI64, ImmF32, ImmF64:
			lit, err := constText(in)
			if err != nil {
				return fmt.Errorf("instr %d: %v", k, err)
			}
			r.sb.WriteString(" " + lit)
		case ImmSelectT:
			r.sb.WriteString(" (result")
			for _, t := range in.Sel {
				r.sb.WriteString(" " + t.String())
			}
			r.sb.WriteString(")")
		}
		r.eol()
		if r.st.Comments && k%4 == 1 {
			r.sb.WriteString(indent() + "(; between instructions ;)\n")
		}
	}
	if len(stack) != 0 {
		return fmt.Errorf("%d constructs left open", len(stack))
	}
	return nil
}

// constText returns the literal of a constant instruction: Lit if given, else the canonical
// decimal form (floats: shortest round-trip decimal; non-finite values in standard WAT spelling).
func constText(in *Instr) (string, error) {
	if in.Lit != "" {
		return in.Lit, nil
	}
	switch in.Op {
	case OpI32Const:
		return strconv.FormatInt(int64(int32(in.I)), 10), nil
	case OpI64Const:
		return strconv.FormatInt(in.I, 10), nil
	case OpF32Const:
		return FloatLit(float64(math.Float32frombits(uint32(in.F))), uint64(uint32(in.F)), 32, 'g'), nil
	case OpF64Const:
		return FloatLit(math.Float64frombits(in.F), in.F, 64, 'g'), nil
	}
	return "", fmt.Errorf("constText: %s is not a constant", in.Op)
}

// FloatLit spells a float constant. form: 'g' shortest decimal (exponent when Go chooses one),
// 'f' plain decimal digits without exponent (what the Wa compiler emits), 'x' hexadecimal float.
// NaN and infinities use the standard WAT spelling (nan, nan:0x<payload>, inf).
func FloatLit(v float64, bits uint64, width int, form byte) string {
	neg := false
	var frac uint64
	if width == 32 {
		neg = bits>>31 != 0
		frac = bits & 0x7fffff
	} else {
		neg = bits>>63 != 0
		frac = bits & (1<<52 - 1)
	}
	sign := ""
	if neg {
		sign = "-"
	}
	switch {
	case math.IsNaN(v):
		canon := uint64(1) << 22
		if width == 64 {
			canon = 1 << 51
		}
		if frac == canon {
			return sign + "nan"
		}
		return sign + "nan:0x" + strconv.FormatUint(frac, 16)
	case math.IsInf(v, 0):
		return sign + "inf"
	}
	s := strconv.FormatFloat(v, form, -1, width)
	if form == 'x' {
		// Go writes 0x1p+00; keep as is (the dialect's scanner takes Go syntax)
		return s
	}
	return s
}

func quote(s string) string {
	var sb strings.Builder
	sb.WriteByte('"')
	for i := 0; i < len(s); i++ {
		c := s[i]
		if c >= 0x20 && c < 0x7f && c != '"' && c != '\\' {
			sb.WriteByte(c)
		} else {
			fmt.Fprintf(&sb, "\\%02x", c)
		}
	}
	sb.WriteByte('"')
	return sb.String()
}

func dataString(b []byte, allHex bool) string {
	if !allHex {
		return quote(string(b))
	}
	var sb strings.Builder
	sb.WriteByte('"')
	for _, c := range b {
		fmt.Fprintf(&sb, "\\%02x", c)
	}
	sb.WriteByte('"')
	return sb.String()
}
