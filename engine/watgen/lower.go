//go:build go1.21

package watgen

import "fmt"

// Layout is what one concrete text rendering adds to the abstract module.
type Layout struct {
	// ExportOrder[i] = index into Module.Exports of the i-th export in text order (inline
	// exports sit where their function/global is written). nil = abstract order.
	ExportOrder []int
}

// Lower computes the binary view the reference assembler (WABT 1.0.29, --debug-names) emits for
// the text of m: explicit types in declaration order (not merged), then the inline signatures of
// imports and functions in text order, each function's signature followed by the multi-value
// block types of its body, merged with the first equal type; exports in text order; a name section
// with the module name, every named function, and for every function the named parameters and
// locals at their true index. The rule was read off the 60 stored WABT binaries (Encode(Lower(
// ReadWat(x.wat))) reproduces every x.wat.wasm byte for byte; C04 asserts that on every run).
func Lower(m *Module, lay *Layout) (*Bin, error) {
	b := &Bin{}
	for _, t := range m.Types {
		b.Types = append(b.Types, cloneFT(t.FuncType))
	}
	typeIdx := func(ft FuncType) uint32 {
		for i, t := range b.Types {
			if t.Equal(ft) {
				return uint32(i)
			}
		}
		b.Types = append(b.Types, cloneFT(ft))
		return uint32(len(b.Types) - 1)
	}
	nFuncImp, nGlobImp := 0, 0
	for i := range m.Imports {
		im := &m.Imports[i]
		bi := BinImport{Module: im.Module, Name: im.Name, Kind: im.Kind}
		switch im.Kind {
		case KindFunc:
			bi.TypeIdx = typeIdx(im.Sig)
			nFuncImp++
		case KindTable:
			bi.Table = BinTable{Elem: FuncRef, Lim: im.Lim}
		case KindMemory:
			bi.Mem = im.Lim
		case KindGlobal:
			bi.GlobalType, bi.GlobalMut = im.GlobalType, im.GlobalMut
			nGlobImp++
		default:
			return nil, fmt.Errorf("lower: import %d kind %d", i, im.Kind)
		}
		b.Imports = append(b.Imports, bi)
	}
	for i := range m.Funcs {
		f := &m.Funcs[i]
		b.Funcs = append(b.Funcs, typeIdx(f.Sig))
		for k := range f.Body {
			in := &f.Body[k]
			if OpInfo(in.Op) == nil {
				return nil, fmt.Errorf("lower: func %d instr %d: unknown op", i, k)
			}
			if OpInfo(in.Op).Imm == ImmBlock && len(in.BT.Results) > 1 {
				typeIdx(FuncType{Results: in.BT.Results})
			}
			if in.Op == OpMemoryInit {
				// the data count section is written exactly when an instruction names a data segment
				b.HasDataCount, b.DataCount = true, uint32(len(m.Datas))
			}
		}
	}
	for i := range m.Funcs {
		f := &m.Funcs[i]
		code := BinCode{}
		for _, l := range f.Locals {
			code.Locals = append(code.Locals, l.Type)
		}
		code.Body = make([]Instr, 0, len(f.Body))
		for k := range f.Body {
			in := f.Body[k]
			if in.Op == OpElse && k+1 < len(f.Body) && f.Body[k+1].Op == OpEnd {
				// `else end`: the reference assembler keeps an if as (then, else) lists and writes the
				// else opcode only for a non-empty else list
				continue
			}
			in.Label, in.Lit = "", ""
			code.Body = append(code.Body, in)
		}
		b.Codes = append(b.Codes, code)
	}
	if m.Table != nil {
		b.Tables = append(b.Tables, BinTable{Elem: FuncRef, Lim: m.Table.Lim})
	}
	if m.Memory != nil {
		b.Mems = append(b.Mems, m.Memory.Lim)
	}
	for i := range m.Globals {
		g := &m.Globals[i]
		init := g.Init
		init.Lit = ""
		b.Globals = append(b.Globals, BinGlobal{Type: g.Type, Mut: g.Mut, Init: []Instr{init}})
	}
	order := make([]int, len(m.Exports))
	for i := range order {
		order[i] = i
	}
	if lay != nil && lay.ExportOrder != nil {
		if len(lay.ExportOrder) != len(m.Exports) {
			return nil, fmt.Errorf("lower: layout has %d exports, module %d", len(lay.ExportOrder), len(m.Exports))
		}
		order = lay.ExportOrder
	}
	for _, k := range order {
		b.Exports = append(b.Exports, m.Exports[k])
	}
	b.HasStart, b.Start = m.HasStart, m.Start
	for _, e := range m.Elems {
		b.Elems = append(b.Elems, BinElem{Offset: []Instr{I32Const(int32(e.Offset))}, Funcs: append([]uint32{}, e.Funcs...)})
	}
	for _, d := range m.Datas {
		b.Datas = append(b.Datas, BinData{Offset: []Instr{I32Const(int32(d.Offset))}, Bytes: append([]byte{}, d.Bytes...)})
	}

	// name section
	n := &Names{HasLocals: true}
	if m.Name != "" {
		n.HasModule, n.Module = true, m.Name
	}
	fi := uint32(0)
	addFunc := func(id string, paramIds []string, nparams int, locals []Local) {
		if id != "" {
			n.Funcs = append(n.Funcs, NameAssoc{fi, id})
		}
		ln := LocalNames{Func: fi, Names: []NameAssoc{}}
		for k, p := range paramIds {
			if p != "" {
				ln.Names = append(ln.Names, NameAssoc{uint32(k), p})
			}
		}
		for k, l := range locals {
			if l.Id != "" {
				ln.Names = append(ln.Names, NameAssoc{uint32(nparams + k), l.Id})
			}
		}
		n.Locals = append(n.Locals, ln)
		fi++
	}
	for i := range m.Imports {
		if im := &m.Imports[i]; im.Kind == KindFunc {
			addFunc(im.Id, im.ParamIds, len(im.Sig.Params), nil)
		}
	}
	for i := range m.Funcs {
		f := &m.Funcs[i]
		addFunc(f.Id, f.ParamIds, len(f.Sig.Params), f.Locals)
	}
	n.HasFuncs = len(n.Funcs) > 0
	// extended names as WABT 1.0.29 writes them (types 4, tables 5, memories 6, globals 7,
	// elem segments 8, data segments 9); not part of any property, only of the byte-for-byte
	// binding of this function to the stored WABT output.
	ext := func(id byte, names []NameAssoc) {
		if len(names) == 0 {
			return
		}
		body := appendU32(nil, uint32(len(names)))
		for _, a := range names {
			body = appendU32(body, a.Idx)
			body = appendName(body, a.Name)
		}
		n.Ext = append(n.Ext, RawSub{Id: id, Body: body})
	}
	var tn, tabn, memn, gn, en, dn []NameAssoc
	for i, t := range m.Types {
		if t.Id != "" {
			tn = append(tn, NameAssoc{uint32(i), t.Id})
		}
	}
	if id := m.TableId(); id != "" {
		tabn = append(tabn, NameAssoc{0, id})
	}
	if id := m.MemoryId(); id != "" {
		memn = append(memn, NameAssoc{0, id})
	}
	gi := uint32(0)
	for i := range m.Imports {
		if im := &m.Imports[i]; im.Kind == KindGlobal {
			if im.Id != "" {
				gn = append(gn, NameAssoc{gi, im.Id})
			}
			gi++
		}
	}
	for i := range m.Globals {
		if m.Globals[i].Id != "" {
			gn = append(gn, NameAssoc{gi, m.Globals[i].Id})
		}
		gi++
	}
	for i := range m.Elems {
		if m.Elems[i].Id != "" {
			en = append(en, NameAssoc{uint32(i), m.Elems[i].Id})
		}
	}
	for i := range m.Datas {
		if m.Datas[i].Id != "" {
			dn = append(dn, NameAssoc{uint32(i), m.Datas[i].Id})
		}
	}
	ext(4, tn)
	ext(5, tabn)
	ext(6, memn)
	ext(7, gn)
	ext(8, en)
	ext(9, dn)
	b.Names = n
	b.Customs = []string{"name"}
	_, _ = nFuncImp, nGlobImp
	return b, nil
}

func cloneFT(t FuncType) FuncType {
	return FuncType{Params: append([]ValType(nil), t.Params...), Results: append([]ValType(nil), t.Results...)}
}

// Lift turns a decoded binary back into an abstract module: every type becomes an explicit
// declaration, identifiers come from the name section (function and local names). It fails when
// the binary is not expressible (a function using the second of two equal types).
func Lift(b *Bin) (*Module, error) {
	m := &Module{}
	for _, t := range b.Types {
		m.Types = append(m.Types, TypeDef{FuncType: cloneFT(t)})
	}
	firstEqual := func(idx uint32) error {
		if int(idx) >= len(b.Types) {
			return fmt.Errorf("lift: type index %d out of range", idx)
		}
		for i := uint32(0); i < idx; i++ {
			if b.Types[i].Equal(b.Types[idx]) {
				return fmt.Errorf("lift: type %d duplicates type %d and is used by index", idx, i)
			}
		}
		return nil
	}
	fnames := map[uint32]string{}
	lnames := map[uint32]map[uint32]string{}
	if b.Names != nil {
		if b.Names.HasModule {
			m.Name = b.Names.Module
		}
		for _, a := range b.Names.Funcs {
			fnames[a.Idx] = a.Name
		}
		for _, l := range b.Names.Locals {
			mm := map[uint32]string{}
			for _, a := range l.Names {
				mm[a.Idx] = a.Name
			}
			lnames[l.Func] = mm
		}
	}
	paramIds := func(fi uint32, n int) []string {
		mm := lnames[fi]
		if len(mm) == 0 {
			return nil
		}
		ids := make([]string, n)
		any := false
		for k := 0; k < n; k++ {
			ids[k] = mm[uint32(k)]
			any = any || ids[k] != ""
		}
		if !any {
			return nil
		}
		return ids
	}
	fi := uint32(0)
	for _, im := range b.Imports {
		x := Import{Module: im.Module, Name: im.Name, Kind: im.Kind}
		switch im.Kind {
		case KindFunc:
			if err := firstEqual(im.TypeIdx); err != nil {
				return nil, err
			}
			x.Sig = cloneFT(b.Types[im.TypeIdx])
			x.Id = fnames[fi]
			x.ParamIds = paramIds(fi, len(x.Sig.Params))
			fi++
		case KindTable:
			x.Lim = im.Table.Lim
		case KindMemory:
			x.Lim = im.Mem
		case KindGlobal:
			x.GlobalType, x.GlobalMut = im.GlobalType, im.GlobalMut
		}
		m.Imports = append(m.Imports, x)
	}
	for i, ti := range b.Funcs {
		if err := firstEqual(ti); err != nil {
			return nil, err
		}
		f := Func{Id: fnames[fi], Sig: cloneFT(b.Types[ti])}
		f.ParamIds = paramIds(fi, len(f.Sig.Params))
		for k, t := range b.Codes[i].Locals {
			f.Locals = append(f.Locals, Local{Id: lnames[fi][uint32(len(f.Sig.Params)+k)], Type: t})
		}
		f.Body = append([]Instr(nil), b.Codes[i].Body...)
		for k := range f.Body {
			if in := &f.Body[k]; in.Op == OpCallIndirect {
				if err := firstEqual(in.Idx); err != nil {
					return nil, err
				}
			}
		}
		m.Funcs = append(m.Funcs, f)
		fi++
	}
	if len(b.Tables) > 1 || len(b.Mems) > 1 {
		return nil, fmt.Errorf("lift: %d tables, %d memories", len(b.Tables), len(b.Mems))
	}
	if len(b.Tables) == 1 {
		m.Table = &Table{Lim: b.Tables[0].Lim}
	}
	if len(b.Mems) == 1 {
		m.Memory = &Memory{Lim: b.Mems[0]}
	}
	for i, g := range b.Globals {
		if len(g.Init) != 1 {
			return nil, fmt.Errorf("lift: global %d initialiser has %d instructions", i, len(g.Init))
		}
		m.Globals = append(m.Globals, Global{Type: g.Type, Mut: g.Mut, Init: g.Init[0]})
	}
	m.Exports = append(m.Exports, b.Exports...)
	m.HasStart, m.Start = b.HasStart, b.Start
	constOff := func(e []Instr) (uint32, error) {
		if len(e) != 1 || e[0].Op != OpI32Const {
			return 0, fmt.Errorf("lift: segment offset is not a single i32.const")
		}
		return uint32(int32(e[0].I)), nil
	}
	for _, e := range b.Elems {
		off, err := constOff(e.Offset)
		if err != nil {
			return nil, err
		}
		m.Elems = append(m.Elems, Elem{Offset: off, Funcs: append([]uint32(nil), e.Funcs...)})
	}
	for _, d := range b.Datas {
		off, err := constOff(d.Offset)
		if err != nil {
			return nil, err
		}
		m.Datas = append(m.Datas, Data{Offset: off, Bytes: append([]byte(nil), d.Bytes...)})
	}
	return m, nil
}
