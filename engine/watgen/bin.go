//go:build go1.21

package watgen

import (
	"encoding/binary"
	"errors"
	"fmt"
	"unicode/utf8"
)

// Bin is the section-wise view of a WebAssembly binary: what Decode reads and Encode writes.
type Bin struct {
	Types   []FuncType
	Imports []BinImport
	Funcs   []uint32 // type index per defined function
	Tables  []BinTable
	Mems    []Limits
	Globals []BinGlobal
	Exports []Export
	HasStart bool
	Start    uint32
	Elems   []BinElem
	HasDataCount bool
	DataCount    uint32
	Codes   []BinCode
	Datas   []BinData
	Names   *Names   // nil: no "name" custom section
	Customs []string // names of all custom sections in order
	Order   []byte   // section ids in the order they appear
}

type BinImport struct {
	Module, Name string
	Kind         byte
	TypeIdx      uint32   // func
	Table        BinTable // table
	Mem          Limits   // memory
	GlobalType   ValType  // global
	GlobalMut    bool
}

type BinTable struct {
	Elem ValType
	Lim  Limits
}

type BinGlobal struct {
	Type ValType
	Mut  bool
	Init []Instr // without the final end
}

// BinElem: only flag 0 (active, table 0, vec(funcidx)) is in the subset; other flags are kept
// as Flag with RawRest.
type BinElem struct {
	Flag   uint32
	Offset []Instr
	Funcs  []uint32
}

type BinData struct {
	Flag   uint32
	Offset []Instr
	Bytes  []byte
}

type BinCode struct {
	Locals []ValType // expanded
	Runs   int       // number of (count,type) runs in the encoding (informational)
	Body   []Instr   // without the final end
}

// Names is the decoded "name" custom section, entries in the order they are stored.
type Names struct {
	HasModule bool
	Module    string
	HasFuncs  bool
	Funcs     []NameAssoc
	HasLocals bool
	Locals    []LocalNames
	SubOrder  []byte // subsection ids in stored order
	Ext       []RawSub // extended-name subsections (type/table/memory/global/elem/data names), raw
}

// RawSub is an undecoded name subsection.
type RawSub struct {
	Id   byte
	Body []byte
}

type NameAssoc struct {
	Idx  uint32
	Name string
}

type LocalNames struct {
	Func  uint32
	Names []NameAssoc
}

// ---------------------------------------------------------------------------------------------
// LEB128 (own implementation)

func appendU32(b []byte, v uint32) []byte { return appendU64(b, uint64(v)) }

func appendU64(b []byte, v uint64) []byte {
	for {
		c := byte(v & 0x7f)
		v >>= 7
		if v != 0 {
			b = append(b, c|0x80)
		} else {
			return append(b, c)
		}
	}
}

func appendS64(b []byte, v int64) []byte {
	for {
		c := byte(v & 0x7f)
		s := v >> 6 // all remaining bits incl. the sign bit of c
		v >>= 7
		if s == 0 || s == -1 {
			return append(b, c)
		}
		b = append(b, c|0x80)
	}
}

type reader struct {
	b   []byte
	pos int
}

var errEOF = errors.New("unexpected end of data")

func (r *reader) byte() (byte, error) {
	if r.pos >= len(r.b) {
		return 0, errEOF
	}
	c := r.b[r.pos]
	r.pos++
	return c, nil
}

func (r *reader) bytes(n int) ([]byte, error) {
	if n < 0 || r.pos+n > len(r.b) {
		return nil, errEOF
	}
	s := r.b[r.pos : r.pos+n]
	r.pos += n
	return s, nil
}

// uN reads an unsigned LEB128 of at most bits bits (spec grammar: ceil(bits/7) bytes, unused
// bits of the last byte zero).
func (r *reader) uN(bits uint) (uint64, error) {
	var v uint64
	var shift uint
	for {
		c, err := r.byte()
		if err != nil {
			return 0, err
		}
		if shift >= bits {
			return 0, fmt.Errorf("uleb%d: too long", bits)
		}
		payload := c & 0x7f
		if shift+7 > bits { // last byte the grammar allows
			if payload>>(bits-shift) != 0 {
				return 0, fmt.Errorf("uleb%d: unused bits set", bits)
			}
			if c&0x80 != 0 {
				return 0, fmt.Errorf("uleb%d: too long", bits)
			}
		}
		v |= uint64(payload) << shift
		shift += 7
		if c&0x80 == 0 {
			return v, nil
		}
	}
}

func (r *reader) u32() (uint32, error) {
	v, err := r.uN(32)
	return uint32(v), err
}

// sN reads a signed LEB128 of at most bits bits.
func (r *reader) sN(bits uint) (int64, error) {
	var v int64
	var shift uint
	for {
		c, err := r.byte()
		if err != nil {
			return 0, err
		}
		if shift >= bits {
			return 0, fmt.Errorf("sleb%d: too long", bits)
		}
		if shift+7 > bits {
			// last possible byte: the unused bits must equal the sign bit
			used := bits - shift // number of payload bits in this byte, 1..6
			sign := (c >> (used - 1)) & 1
			mask := byte(0x7f) >> used << used // unused payload bits
			if (sign == 0 && c&mask != 0) || (sign == 1 && c&mask != mask) {
				return 0, fmt.Errorf("sleb%d: unused bits do not match sign", bits)
			}
			if c&0x80 != 0 {
				return 0, fmt.Errorf("sleb%d: too long", bits)
			}
		}
		v |= int64(c&0x7f) << shift
		shift += 7
		if c&0x80 == 0 {
			if shift < 64 && c&0x40 != 0 {
				v |= -1 << shift
			}
			return v, nil
		}
	}
}

func (r *reader) name() (string, error) {
	n, err := r.u32()
	if err != nil {
		return "", err
	}
	b, err := r.bytes(int(n))
	if err != nil {
		return "", err
	}
	if !utf8.Valid(b) {
		return "", fmt.Errorf("name is not valid UTF-8: %q", b)
	}
	return string(b), nil
}

func (r *reader) limits() (Limits, error) {
	f, err := r.byte()
	if err != nil {
		return Limits{}, err
	}
	if f > 1 {
		return Limits{}, fmt.Errorf("limits flag 0x%02x outside the subset", f)
	}
	var l Limits
	if l.Min, err = r.u32(); err != nil {
		return l, err
	}
	if f == 1 {
		l.HasMax = true
		if l.Max, err = r.u32(); err != nil {
			return l, err
		}
	}
	return l, nil
}

func (r *reader) valtype() (ValType, error) {
	c, err := r.byte()
	if err != nil {
		return 0, err
	}
	switch ValType(c) {
	case I32, I64, F32, F64:
		return ValType(c), nil
	}
	return 0, fmt.Errorf("value type 0x%02x outside the subset", c)
}

// ---------------------------------------------------------------------------------------------
// Instructions

func appendInstr(b []byte, in *Instr, types func(res []ValType) (uint32, bool)) ([]byte, error) {
	info := opByOp[in.Op]
	if info == nil {
		return nil, fmt.Errorf("encode: unknown op 0x%x", uint16(in.Op))
	}
	if in.Op >= 0xfc00 {
		b = append(b, 0xfc)
		b = appendU32(b, uint32(in.Op&0xff))
	} else {
		b = append(b, byte(in.Op))
	}
	switch info.Imm {
	case ImmNone:
	case ImmBlock:
		switch len(in.BT.Results) {
		case 0:
			b = append(b, 0x40)
		case 1:
			b = append(b, byte(in.BT.Results[0]))
		default:
			idx, ok := types(in.BT.Results)
			if !ok {
				return nil, fmt.Errorf("encode: no type for block results %v", in.BT.Results)
			}
			b = appendS64(b, int64(idx))
		}
	case ImmLabel, ImmFunc, ImmLocal, ImmGlobal, ImmTable:
		b = appendU32(b, in.Idx)
	case ImmBrTable:
		if len(in.Idxs) == 0 {
			return nil, fmt.Errorf("encode: br_table without default")
		}
		b = appendU32(b, uint32(len(in.Idxs)-1))
		for _, x := range in.Idxs {
			b = appendU32(b, x)
		}
	case ImmCallIndirect:
		b = appendU32(b, in.Idx)
		b = appendU32(b, in.Idx2)
	case ImmMem:
		b = appendU32(b, in.Align)
		b = appendU64(b, in.Off)
	case ImmMemIdx:
		b = append(b, 0)
	case ImmMemIdx2:
		b = append(b, 0, 0)
	case ImmData:
		b = appendU32(b, in.Idx)
		b = append(b, 0)
	case ImmI32:
		b = appendS64(b, int64(int32(in.I)))
	case ImmI64:
		b = appendS64(b, in.I)
	case ImmF32:
		b = binary.LittleEndian.AppendUint32(b, uint32(in.F))
	case ImmF64:
		b = binary.LittleEndian.AppendUint64(b, in.F)
	case ImmSelectT:
		b = appendU32(b, uint32(len(in.Sel)))
		for _, t := range in.Sel {
			b = append(b, byte(t))
		}
	}
	return b, nil
}

// decodeExpr reads instructions up to and including the `end` that closes nesting level 0.
// The closing end is not returned. Multi-value block types are resolved through types.
func (r *reader) decodeExpr(types []FuncType) ([]Instr, error) {
	var out []Instr
	depth := 0
	for {
		c, err := r.byte()
		if err != nil {
			return nil, err
		}
		op := Op(c)
		if c == 0xfc {
			sub, err := r.u32()
			if err != nil {
				return nil, err
			}
			if sub > 0xff {
				return nil, fmt.Errorf("0xfc sub opcode %d outside the subset", sub)
			}
			op = 0xfc00 | Op(sub)
		}
		info := opByOp[op]
		if info == nil {
			return nil, fmt.Errorf("opcode 0x%x outside the subset at byte %d", uint16(op), r.pos-1)
		}
		in := Instr{Op: op}
		switch info.Imm {
		case ImmNone:
		case ImmBlock:
			// s33: 0x40 empty, value type, or type index
			save := r.pos
			c, err := r.byte()
			if err != nil {
				return nil, err
			}
			switch {
			case c == 0x40:
			case ValType(c) == I32 || ValType(c) == I64 || ValType(c) == F32 || ValType(c) == F64:
				in.BT.Results = []ValType{ValType(c)}
			default:
				r.pos = save
				idx, err := r.sN(33)
				if err != nil {
					return nil, err
				}
				if idx < 0 || int(idx) >= len(types) {
					return nil, fmt.Errorf("block type index %d out of range", idx)
				}
				ft := types[idx]
				if len(ft.Params) != 0 {
					return nil, fmt.Errorf("block type with parameters (type %d) outside the subset", idx)
				}
				in.BT.Results = append([]ValType(nil), ft.Results...)
				if len(in.BT.Results) < 2 {
					// representable, but remember it came through a type index
					in.Lit = fmt.Sprintf("typeidx=%d", idx)
				}
			}
		case ImmLabel, ImmFunc, ImmLocal, ImmGlobal, ImmTable:
			if in.Idx, err = r.u32(); err != nil {
				return nil, err
			}
		case ImmBrTable:
			n, err := r.u32()
			if err != nil {
				return nil, err
			}
			if int(n) > len(r.b) {
				return nil, errEOF
			}
			in.Idxs = make([]uint32, 0, n+1)
			for i := uint32(0); i <= n; i++ {
				x, err := r.u32()
				if err != nil {
					return nil, err
				}
				in.Idxs = append(in.Idxs, x)
			}
		case ImmCallIndirect:
			if in.Idx, err = r.u32(); err != nil {
				return nil, err
			}
			if in.Idx2, err = r.u32(); err != nil {
				return nil, err
			}
		case ImmMem:
			if in.Align, err = r.u32(); err != nil {
				return nil, err
			}
			// offset is u32 for 32-bit memories
			off, err := r.u32()
			if err != nil {
				return nil, err
			}
			in.Off = uint64(off)
		case ImmMemIdx, ImmMemIdx2:
			n := 1
			if info.Imm == ImmMemIdx2 {
				n = 2
			}
			for i := 0; i < n; i++ {
				z, err := r.byte()
				if err != nil {
					return nil, err
				}
				if z != 0 {
					return nil, fmt.Errorf("%s: memory index byte 0x%02x, want 0x00", info.Name, z)
				}
			}
		case ImmData:
			if in.Idx, err = r.u32(); err != nil {
				return nil, err
			}
			z, err := r.byte()
			if err != nil {
				return nil, err
			}
			if z != 0 {
				return nil, fmt.Errorf("memory.init: memory index byte 0x%02x, want 0x00", z)
			}
		case ImmI32:
			v, err := r.sN(32)
			if err != nil {
				return nil, err
			}
			in.I = v
		case ImmI64:
			v, err := r.sN(64)
			if err != nil {
				return nil, err
			}
			in.I = v
		case ImmF32:
			bs, err := r.bytes(4)
			if err != nil {
				return nil, err
			}
			in.F = uint64(binary.LittleEndian.Uint32(bs))
		case ImmF64:
			bs, err := r.bytes(8)
			if err != nil {
				return nil, err
			}
			in.F = binary.LittleEndian.Uint64(bs)
		case ImmSelectT:
			n, err := r.u32()
			if err != nil {
				return nil, err
			}
			if n > 16 {
				return nil, fmt.Errorf("select with %d types", n)
			}
			for i := uint32(0); i < n; i++ {
				t, err := r.valtype()
				if err != nil {
					return nil, err
				}
				in.Sel = append(in.Sel, t)
			}
		}
		switch op {
		case OpBlock, OpLoop, OpIf:
			depth++
		case OpEnd:
			if depth == 0 {
				return out, nil
			}
			depth--
		}
		out = append(out, in)
	}
}

// ---------------------------------------------------------------------------------------------
// Encode

func section(out []byte, id byte, body []byte) []byte {
	out = append(out, id)
	out = appendU32(out, uint32(len(body)))
	return append(out, body...)
}

func appendName(b []byte, s string) []byte {
	b = appendU32(b, uint32(len(s)))
	return append(b, s...)
}

func appendLimits(b []byte, l Limits) []byte {
	if l.HasMax {
		b = append(b, 1)
		b = appendU32(b, l.Min)
		return appendU32(b, l.Max)
	}
	b = append(b, 0)
	return appendU32(b, l.Min)
}

func (m *Bin) blockTypeIdx(res []ValType) (uint32, bool) {
	want := FuncType{Results: res}
	for i, t := range m.Types {
		if t.Equal(want) {
			return uint32(i), true
		}
	}
	return 0, false
}

func (m *Bin) appendExpr(b []byte, ins []Instr) ([]byte, error) {
	var err error
	for i := range ins {
		if b, err = appendInstr(b, &ins[i], m.blockTypeIdx); err != nil {
			return nil, err
		}
	}
	return append(b, byte(OpEnd)), nil
}

// Encode writes the module in the canonical layout WABT 1.0.29 uses (minimal LEB128, sections
// in id order, locals run-length compressed, name section last).
func (m *Bin) Encode() ([]byte, error) {
	out := []byte{0, 'a', 's', 'm', 1, 0, 0, 0}
	var err error
	if len(m.Types) > 0 {
		b := appendU32(nil, uint32(len(m.Types)))
		for _, t := range m.Types {
			b = append(b, 0x60)
			b = appendU32(b, uint32(len(t.Params)))
			for _, p := range t.Params {
				b = append(b, byte(p))
			}
			b = appendU32(b, uint32(len(t.Results)))
			for _, p := range t.Results {
				b = append(b, byte(p))
			}
		}
		out = section(out, 1, b)
	}
	if len(m.Imports) > 0 {
		b := appendU32(nil, uint32(len(m.Imports)))
		for _, im := range m.Imports {
			b = appendName(b, im.Module)
			b = appendName(b, im.Name)
			b = append(b, im.Kind)
			switch im.Kind {
			case KindFunc:
				b = appendU32(b, im.TypeIdx)
			case KindTable:
				b = append(b, byte(im.Table.Elem))
				b = appendLimits(b, im.Table.Lim)
			case KindMemory:
				b = appendLimits(b, im.Mem)
			case KindGlobal:
				b = append(b, byte(im.GlobalType))
				if im.GlobalMut {
					b = append(b, 1)
				} else {
					b = append(b, 0)
				}
			}
		}
		out = section(out, 2, b)
	}
	if len(m.Funcs) > 0 {
		b := appendU32(nil, uint32(len(m.Funcs)))
		for _, t := range m.Funcs {
			b = appendU32(b, t)
		}
		out = section(out, 3, b)
	}
	if len(m.Tables) > 0 {
		b := appendU32(nil, uint32(len(m.Tables)))
		for _, t := range m.Tables {
			b = append(b, byte(t.Elem))
			b = appendLimits(b, t.Lim)
		}
		out = section(out, 4, b)
	}
	if len(m.Mems) > 0 {
		b := appendU32(nil, uint32(len(m.Mems)))
		for _, l := range m.Mems {
			b = appendLimits(b, l)
		}
		out = section(out, 5, b)
	}
	if len(m.Globals) > 0 {
		b := appendU32(nil, uint32(len(m.Globals)))
		for _, g := range m.Globals {
			b = append(b, byte(g.Type))
			if g.Mut {
				b = append(b, 1)
			} else {
				b = append(b, 0)
			}
			if b, err = m.appendExpr(b, g.Init); err != nil {
				return nil, err
			}
		}
		out = section(out, 6, b)
	}
	if len(m.Exports) > 0 {
		b := appendU32(nil, uint32(len(m.Exports)))
		for _, e := range m.Exports {
			b = appendName(b, e.Name)
			b = append(b, e.Kind)
			b = appendU32(b, e.Idx)
		}
		out = section(out, 7, b)
	}
	if m.HasStart {
		out = section(out, 8, appendU32(nil, m.Start))
	}
	if len(m.Elems) > 0 {
		b := appendU32(nil, uint32(len(m.Elems)))
		for _, e := range m.Elems {
			if e.Flag != 0 {
				return nil, fmt.Errorf("encode: elem flag %d outside the subset", e.Flag)
			}
			b = appendU32(b, 0)
			if b, err = m.appendExpr(b, e.Offset); err != nil {
				return nil, err
			}
			b = appendU32(b, uint32(len(e.Funcs)))
			for _, f := range e.Funcs {
				b = appendU32(b, f)
			}
		}
		out = section(out, 9, b)
	}
	if m.HasDataCount {
		out = section(out, 12, appendU32(nil, m.DataCount))
	}
	if len(m.Codes) > 0 {
		b := appendU32(nil, uint32(len(m.Codes)))
		for _, c := range m.Codes {
			var body []byte
			// run-length compress
			type run struct {
				n uint32
				t ValType
			}
			var runs []run
			for _, t := range c.Locals {
				if k := len(runs); k > 0 && runs[k-1].t == t {
					runs[k-1].n++
				} else {
					runs = append(runs, run{1, t})
				}
			}
			body = appendU32(body, uint32(len(runs)))
			for _, r := range runs {
				body = appendU32(body, r.n)
				body = append(body, byte(r.t))
			}
			if body, err = m.appendExpr(body, c.Body); err != nil {
				return nil, err
			}
			b = appendU32(b, uint32(len(body)))
			b = append(b, body...)
		}
		out = section(out, 10, b)
	}
	if len(m.Datas) > 0 {
		b := appendU32(nil, uint32(len(m.Datas)))
		for _, d := range m.Datas {
			if d.Flag != 0 {
				return nil, fmt.Errorf("encode: data flag %d outside the subset", d.Flag)
			}
			b = appendU32(b, 0)
			if b, err = m.appendExpr(b, d.Offset); err != nil {
				return nil, err
			}
			b = appendU32(b, uint32(len(d.Bytes)))
			b = append(b, d.Bytes...)
		}
		out = section(out, 11, b)
	}
	if n := m.Names; n != nil {
		b := appendName(nil, "name")
		if n.HasModule {
			b = append(b, 0)
			sub := appendName(nil, n.Module)
			b = appendU32(b, uint32(len(sub)))
			b = append(b, sub...)
		}
		if n.HasFuncs {
			sub := appendU32(nil, uint32(len(n.Funcs)))
			for _, a := range n.Funcs {
				sub = appendU32(sub, a.Idx)
				sub = appendName(sub, a.Name)
			}
			b = append(b, 1)
			b = appendU32(b, uint32(len(sub)))
			b = append(b, sub...)
		}
		if n.HasLocals {
			sub := appendU32(nil, uint32(len(n.Locals)))
			for _, l := range n.Locals {
				sub = appendU32(sub, l.Func)
				sub = appendU32(sub, uint32(len(l.Names)))
				for _, a := range l.Names {
					sub = appendU32(sub, a.Idx)
					sub = appendName(sub, a.Name)
				}
			}
			b = append(b, 2)
			b = appendU32(b, uint32(len(sub)))
			b = append(b, sub...)
		}
		for _, x := range n.Ext {
			b = append(b, x.Id)
			b = appendU32(b, uint32(len(x.Body)))
			b = append(b, x.Body...)
		}
		out = section(out, 0, b)
	}
	return out, nil
}

// ---------------------------------------------------------------------------------------------
// Decode

// Decode reads a binary module of the subset. Anything outside the subset (other section ids,
// segment flags, reference instructions ...) is an error naming the construct.
func Decode(data []byte) (m *Bin, err error) {
	defer func() {
		if e := recover(); e != nil {
			m, err = nil, fmt.Errorf("decoder panic: %v", e)
		}
	}()
	if len(data) < 8 || string(data[:4]) != "\x00asm" {
		return nil, errors.New("bad magic")
	}
	if binary.LittleEndian.Uint32(data[4:8]) != 1 {
		return nil, errors.New("bad version")
	}
	m = &Bin{}
	r := &reader{b: data, pos: 8}
	lastID := byte(0)
	rank := func(id byte) int { // section order: data count (12) sits between element and code
		switch id {
		case 12:
			return 95
		case 10:
			return 100
		case 11:
			return 110
		}
		return int(id) * 10
	}
	for r.pos < len(data) {
		id, _ := r.byte()
		size, err := r.u32()
		if err != nil {
			return nil, fmt.Errorf("section %d size: %v", id, err)
		}
		body, err := r.bytes(int(size))
		if err != nil {
			return nil, fmt.Errorf("section %d: size %d exceeds the file", id, size)
		}
		m.Order = append(m.Order, id)
		s := &reader{b: body}
		if id != 0 {
			if lastID != 0 && rank(id) <= rank(lastID) {
				return nil, fmt.Errorf("section %d after section %d: out of order", id, lastID)
			}
			lastID = id
		}
		if err := m.decodeSection(id, s); err != nil {
			return nil, fmt.Errorf("section %d: %v", id, err)
		}
		if id != 0 && s.pos != len(body) {
			return nil, fmt.Errorf("section %d: %d trailing bytes", id, len(body)-s.pos)
		}
	}
	if len(m.Funcs) != len(m.Codes) {
		return nil, fmt.Errorf("function section has %d entries, code section %d", len(m.Funcs), len(m.Codes))
	}
	if m.HasDataCount && int(m.DataCount) != len(m.Datas) {
		return nil, fmt.Errorf("data count %d, data section %d", m.DataCount, len(m.Datas))
	}
	return m, nil
}

func (m *Bin) decodeSection(id byte, s *reader) error {
	vec := func() (int, error) {
		n, err := s.u32()
		if err != nil {
			return 0, err
		}
		if int(n) > len(s.b) {
			return 0, fmt.Errorf("vector length %d exceeds section", n)
		}
		return int(n), nil
	}
	switch id {
	case 0:
		name, err := s.name()
		if err != nil {
			return fmt.Errorf("custom section name: %v", err)
		}
		m.Customs = append(m.Customs, name)
		if name == "name" {
			if m.Names != nil {
				return errors.New("two name sections")
			}
			n, err := decodeNames(&reader{b: s.b[s.pos:]})
			if err != nil {
				return fmt.Errorf("name section: %v", err)
			}
			m.Names = n
		}
	case 1:
		n, err := vec()
		if err != nil {
			return err
		}
		for i := 0; i < n; i++ {
			c, err := s.byte()
			if err != nil {
				return err
			}
			if c != 0x60 {
				return fmt.Errorf("type %d: form 0x%02x", i, c)
			}
			var ft FuncType
			for k := 0; k < 2; k++ {
				cnt, err := vec()
				if err != nil {
					return err
				}
				for j := 0; j < cnt; j++ {
					t, err := s.valtype()
					if err != nil {
						return err
					}
					if k == 0 {
						ft.Params = append(ft.Params, t)
					} else {
						ft.Results = append(ft.Results, t)
					}
				}
			}
			m.Types = append(m.Types, ft)
		}
	case 2:
		n, err := vec()
		if err != nil {
			return err
		}
		for i := 0; i < n; i++ {
			var im BinImport
			if im.Module, err = s.name(); err != nil {
				return err
			}
			if im.Name, err = s.name(); err != nil {
				return err
			}
			if im.Kind, err = s.byte(); err != nil {
				return err
			}
			switch im.Kind {
			case KindFunc:
				if im.TypeIdx, err = s.u32(); err != nil {
					return err
				}
			case KindTable:
				c, err := s.byte()
				if err != nil {
					return err
				}
				if ValType(c) != FuncRef {
					return fmt.Errorf("import %d: table element type 0x%02x", i, c)
				}
				im.Table.Elem = FuncRef
				if im.Table.Lim, err = s.limits(); err != nil {
					return err
				}
			case KindMemory:
				if im.Mem, err = s.limits(); err != nil {
					return err
				}
			case KindGlobal:
				if im.GlobalType, err = s.valtype(); err != nil {
					return err
				}
				c, err := s.byte()
				if err != nil {
					return err
				}
				if c > 1 {
					return fmt.Errorf("import %d: mutability 0x%02x", i, c)
				}
				im.GlobalMut = c == 1
			default:
				return fmt.Errorf("import %d: kind %d", i, im.Kind)
			}
			m.Imports = append(m.Imports, im)
		}
	case 3:
		n, err := vec()
		if err != nil {
			return err
		}
		for i := 0; i < n; i++ {
			t, err := s.u32()
			if err != nil {
				return err
			}
			m.Funcs = append(m.Funcs, t)
		}
	case 4:
		n, err := vec()
		if err != nil {
			return err
		}
		for i := 0; i < n; i++ {
			c, err := s.byte()
			if err != nil {
				return err
			}
			if ValType(c) != FuncRef {
				return fmt.Errorf("table %d: element type 0x%02x", i, c)
			}
			l, err := s.limits()
			if err != nil {
				return err
			}
			m.Tables = append(m.Tables, BinTable{Elem: FuncRef, Lim: l})
		}
	case 5:
		n, err := vec()
		if err != nil {
			return err
		}
		for i := 0; i < n; i++ {
			l, err := s.limits()
			if err != nil {
				return err
			}
			m.Mems = append(m.Mems, l)
		}
	case 6:
		n, err := vec()
		if err != nil {
			return err
		}
		for i := 0; i < n; i++ {
			var g BinGlobal
			if g.Type, err = s.valtype(); err != nil {
				return err
			}
			c, err := s.byte()
			if err != nil {
				return err
			}
			if c > 1 {
				return fmt.Errorf("global %d: mutability 0x%02x", i, c)
			}
			g.Mut = c == 1
			if g.Init, err = s.decodeExpr(m.Types); err != nil {
				return fmt.Errorf("global %d init: %v", i, err)
			}
			m.Globals = append(m.Globals, g)
		}
	case 7:
		n, err := vec()
		if err != nil {
			return err
		}
		for i := 0; i < n; i++ {
			var e Export
			if e.Name, err = s.name(); err != nil {
				return err
			}
			if e.Kind, err = s.byte(); err != nil {
				return err
			}
			if e.Kind > 3 {
				return fmt.Errorf("export %d: kind %d", i, e.Kind)
			}
			if e.Idx, err = s.u32(); err != nil {
				return err
			}
			m.Exports = append(m.Exports, e)
		}
	case 8:
		v, err := s.u32()
		if err != nil {
			return err
		}
		m.HasStart, m.Start = true, v
	case 9:
		n, err := vec()
		if err != nil {
			return err
		}
		for i := 0; i < n; i++ {
			var e BinElem
			if e.Flag, err = s.u32(); err != nil {
				return err
			}
			if e.Flag != 0 {
				return fmt.Errorf("elem %d: flag %d outside the subset", i, e.Flag)
			}
			if e.Offset, err = s.decodeExpr(m.Types); err != nil {
				return fmt.Errorf("elem %d offset: %v", i, err)
			}
			cnt, err := vec()
			if err != nil {
				return err
			}
			e.Funcs = make([]uint32, 0, cnt)
			for j := 0; j < cnt; j++ {
				f, err := s.u32()
				if err != nil {
					return err
				}
				e.Funcs = append(e.Funcs, f)
			}
			m.Elems = append(m.Elems, e)
		}
	case 12:
		v, err := s.u32()
		if err != nil {
			return err
		}
		m.HasDataCount, m.DataCount = true, v
	case 10:
		n, err := vec()
		if err != nil {
			return err
		}
		for i := 0; i < n; i++ {
			size, err := s.u32()
			if err != nil {
				return err
			}
			body, err := s.bytes(int(size))
			if err != nil {
				return fmt.Errorf("code %d: size %d exceeds section", i, size)
			}
			c := &reader{b: body}
			var code BinCode
			runs, err := c.u32()
			if err != nil {
				return err
			}
			code.Runs = int(runs)
			total := uint64(0)
			for j := uint32(0); j < runs; j++ {
				cnt, err := c.u32()
				if err != nil {
					return err
				}
				t, err := c.valtype()
				if err != nil {
					return err
				}
				total += uint64(cnt)
				if total > 50000 {
					return fmt.Errorf("code %d: %d locals", i, total)
				}
				for k := uint32(0); k < cnt; k++ {
					code.Locals = append(code.Locals, t)
				}
			}
			if code.Body, err = c.decodeExpr(m.Types); err != nil {
				return fmt.Errorf("code %d: %v", i, err)
			}
			if c.pos != len(body) {
				return fmt.Errorf("code %d: %d bytes after the final end", i, len(body)-c.pos)
			}
			m.Codes = append(m.Codes, code)
		}
	case 11:
		n, err := vec()
		if err != nil {
			return err
		}
		for i := 0; i < n; i++ {
			var d BinData
			if d.Flag, err = s.u32(); err != nil {
				return err
			}
			if d.Flag != 0 {
				return fmt.Errorf("data %d: flag %d outside the subset", i, d.Flag)
			}
			if d.Offset, err = s.decodeExpr(m.Types); err != nil {
				return fmt.Errorf("data %d offset: %v", i, err)
			}
			cnt, err := s.u32()
			if err != nil {
				return err
			}
			bs, err := s.bytes(int(cnt))
			if err != nil {
				return err
			}
			d.Bytes = append([]byte(nil), bs...)
			m.Datas = append(m.Datas, d)
		}
	default:
		return fmt.Errorf("section id %d outside the subset", id)
	}
	return nil
}

func decodeNames(r *reader) (*Names, error) {
	n := &Names{}
	for r.pos < len(r.b) {
		id, _ := r.byte()
		size, err := r.u32()
		if err != nil {
			return nil, err
		}
		body, err := r.bytes(int(size))
		if err != nil {
			return nil, fmt.Errorf("subsection %d: size %d exceeds section", id, size)
		}
		n.SubOrder = append(n.SubOrder, id)
		s := &reader{b: body}
		nameMap := func() ([]NameAssoc, error) {
			cnt, err := s.u32()
			if err != nil {
				return nil, err
			}
			if int(cnt) > len(s.b) {
				return nil, fmt.Errorf("name map length %d", cnt)
			}
			out := make([]NameAssoc, 0, cnt)
			for i := uint32(0); i < cnt; i++ {
				idx, err := s.u32()
				if err != nil {
					return nil, err
				}
				nm, err := s.name()
				if err != nil {
					return nil, err
				}
				out = append(out, NameAssoc{idx, nm})
			}
			return out, nil
		}
		switch id {
		case 0:
			if n.HasModule {
				return nil, errors.New("two module name subsections")
			}
			n.HasModule = true
			if n.Module, err = s.name(); err != nil {
				return nil, err
			}
		case 1:
			if n.HasFuncs {
				return nil, errors.New("two function name subsections")
			}
			n.HasFuncs = true
			if n.Funcs, err = nameMap(); err != nil {
				return nil, err
			}
		case 2:
			if n.HasLocals {
				return nil, errors.New("two local name subsections")
			}
			n.HasLocals = true
			cnt, err := s.u32()
			if err != nil {
				return nil, err
			}
			if int(cnt) > len(s.b) {
				return nil, fmt.Errorf("indirect name map length %d", cnt)
			}
			for i := uint32(0); i < cnt; i++ {
				f, err := s.u32()
				if err != nil {
					return nil, err
				}
				nm, err := nameMap()
				if err != nil {
					return nil, err
				}
				n.Locals = append(n.Locals, LocalNames{Func: f, Names: nm})
			}
		default:
			// extended name subsections are kept raw
			n.Ext = append(n.Ext, RawSub{Id: id, Body: append([]byte(nil), body...)})
			s.pos = len(body)
		}
		if s.pos != len(body) {
			return nil, fmt.Errorf("subsection %d: %d trailing bytes", id, len(body)-s.pos)
		}
	}
	return n, nil
}
