//go:build go1.21

package watgen

// The frozen alphabet.
//
// Established once, on 2026-09-22, against the unchanged tree (/repo at fc6db74, parser files
// of the pinned commit): every module of the families mod, instr and ctrl (depth <= 3) was
// rendered in all 2^7 = 128 style combinations and given to watutil.Wat2Wasm.
//
//   - No style switch and no combination of switches was rejected by the parser: every rejection
//     observed was tied to a construct (see below), identically in all 128 styles. All 128
//     combinations are therefore in the alphabet, for every family. FrozenStyles() is that set.
//     From now on a rejection of any (in-dialect item, style) pair is a violation of C04/C05
//     ("accept" oracle); nothing is re-calibrated at run time.
//
//   - Surface forms that standard WAT has but this dialect never had are NOT switches (the
//     renderer cannot produce them) — recorded here so that nobody adds them as a switch later
//     without noticing the parser rejects them: numeric function index in `call 0` and
//     `(start 0)`; `(type $t)` use on a func or import; `(local i32 i64)` with several types;
//     `(data ... "a" "b")` with several strings; `(data (offset (i32.const 0)) ...)`;
//     `(elem (i32.const 0) func $f)`; inline `(memory (export "m") 1)`; `(import "e" "t" (table 1
//     funcref))`; `(import "e" "g" (global $g (mut i32)))`; block types with parameters; nested
//     block comments; folded instructions.
//
//   - Literal spellings that were rejected for every instruction and style are marked on the
//     family items (Item.Outside) with these reasons, and stay in the enumeration: such an item
//     may be rejected with an error; it must never panic, and if a later parser accepts it the
//     binary must be right:
//         "nan / inf float literal"                       nan, nan:0x..., inf, -inf
//         "hexadecimal integer literal with the sign bit set"   i32.const 0xffffffff, i64.const 0x8000000000000000
//         "negative hexadecimal integer literal"          i32.const -0x1
//         "unsigned decimal i64 literal above MaxInt64"   i64.const 18446744073709551615
//         "identifier consisting of digits only"          $0, $1: accepted at freeze time but resolved as
//                                                         indices (the scanner drops the `$`) - wrong code,
//                                                         reported by C04; refusing them is an acceptable repair
//     (decimal i32 literals up to 4294967295 ARE accepted and are in the dialect.)
//
//   - Constructs rejected at freeze time that the parser/assembler has explicit code for are
//     defects, not dialect limits; they stay in-dialect and are reported by C04:
//     `nop`, `(global $g f64 (f64.const ...))`, `select (result t)`, `memory.init`,
//     `(start $f)` naming any function but the first.

//   - Added 2026-09-22 (second freeze, against /repo at 45cb362, findLabelIndex unchanged since the
//     pinned commit): family ctrl-shadow. Nested block/loop/if constructs that REUSE one label
//     identifier ($L0 inside $L0; every set partition of the levels with at least one shared name),
//     branches by name to every depth from the innermost position and a trailing br_if after each
//     inner construct has closed. The renderer writes `$label` only where innermost-wins resolution
//     denotes the intended construct and the relative index elsewhere. The unchanged parser and
//     assembler accepted every ctrl-shadow item (depth <= 3) in all 16 cover styles with the
//     reference result; a rejection or another label index is a violation from now on.
//
// FrozenStyles returns the frozen style alphabet: all 128 combinations.
func FrozenStyles() []Style { return AllStyles() }

// FrozenCommit is the tree the alphabet was established against.
const FrozenCommit = "fc6db74 (2026-09-22)"
