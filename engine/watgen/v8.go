//go:build go1.21

package watgen

import (
	"bufio"
	"encoding/base64"
	"encoding/json"
	"fmt"
	"io"
	"os"
	"os/exec"
	"path/filepath"
	"sync"
)

// V8 is a long-lived `node js/runner.js` process answering batch requests (one JSON line per
// request and per response). Safe for concurrent use (requests are serialised).
type V8 struct {
	mu   sync.Mutex
	cmd  *exec.Cmd
	in   io.WriteCloser
	out  *bufio.Reader
	next int
}

// V8Export / V8Import / V8Result mirror the runner's answer.
type V8Import struct {
	Module string `json:"module"`
	Name   string `json:"name"`
	Kind   string `json:"kind"`
}
type V8Export struct {
	Name string `json:"name"`
	Kind string `json:"kind"`
}
type V8Result struct {
	Valid   bool       `json:"valid"`
	Error   string     `json:"error"`
	Imports []V8Import `json:"imports"`
	Exports []V8Export `json:"exports"`
	Custom  []string   `json:"custom"`
}

// StartV8 launches node on <verifDir>/js/runner.js.
func StartV8(verifDir string) (*V8, error) {
	script := filepath.Join(verifDir, "js", "runner.js")
	if _, err := os.Stat(script); err != nil {
		return nil, fmt.Errorf("v8: %v", err)
	}
	cmd := exec.Command("node", script)
	in, err := cmd.StdinPipe()
	if err != nil {
		return nil, err
	}
	outp, err := cmd.StdoutPipe()
	if err != nil {
		return nil, err
	}
	cmd.Stderr = os.Stderr
	if err := cmd.Start(); err != nil {
		return nil, fmt.Errorf("v8: cannot start node: %v", err)
	}
	return &V8{cmd: cmd, in: in, out: bufio.NewReaderSize(outp, 1<<20)}, nil
}

// Inspect asks V8 about a batch of modules; the answer has one entry per module, in order.
func (v *V8) Inspect(mods [][]byte) ([]V8Result, error) {
	v.mu.Lock()
	defer v.mu.Unlock()
	v.next++
	req := struct {
		ID   int      `json:"id"`
		Mods []string `json:"mods"`
	}{ID: v.next, Mods: make([]string, len(mods))}
	for i, m := range mods {
		req.Mods[i] = base64.StdEncoding.EncodeToString(m)
	}
	data, err := json.Marshal(req)
	if err != nil {
		return nil, err
	}
	if _, err := v.in.Write(append(data, '\n')); err != nil {
		return nil, fmt.Errorf("v8: write: %v", err)
	}
	line, err := v.out.ReadBytes('\n')
	if err != nil {
		return nil, fmt.Errorf("v8: read: %v", err)
	}
	var resp struct {
		ID    int        `json:"id"`
		Error string     `json:"error"`
		Res   []V8Result `json:"res"`
	}
	if err := json.Unmarshal(line, &resp); err != nil {
		return nil, fmt.Errorf("v8: bad response: %v", err)
	}
	if resp.Error != "" {
		return nil, fmt.Errorf("v8: %s", resp.Error)
	}
	if resp.ID != req.ID || len(resp.Res) != len(mods) {
		return nil, fmt.Errorf("v8: response id %d with %d results for request %d with %d modules", resp.ID, len(resp.Res), req.ID, len(mods))
	}
	return resp.Res, nil
}

// Close ends the node process.
func (v *V8) Close() {
	v.mu.Lock()
	defer v.mu.Unlock()
	if v.cmd != nil {
		v.in.Close()
		v.cmd.Wait()
		v.cmd = nil
	}
}

// V8Cache memoises validation results by module bytes, batching the misses.
type V8Cache struct {
	v  *V8
	mu sync.Mutex
	m  map[string]V8Result
}

func NewV8Cache(v *V8) *V8Cache { return &V8Cache{v: v, m: map[string]V8Result{}} }

// Get returns the results for mods, asking V8 only for modules not seen before.
func (c *V8Cache) Get(mods [][]byte) ([]V8Result, error) {
	out := make([]V8Result, len(mods))
	var missIdx []int
	var miss [][]byte
	c.mu.Lock()
	seen := map[string]int{}
	for i, m := range mods {
		k := string(m)
		if r, ok := c.m[k]; ok {
			out[i] = r
		} else if _, dup := seen[k]; dup {
			missIdx = append(missIdx, i) // resolved after the batch
		} else {
			seen[k] = len(miss)
			missIdx = append(missIdx, i)
			miss = append(miss, m)
		}
	}
	c.mu.Unlock()
	if len(miss) > 0 {
		const chunk = 512
		res := make([]V8Result, 0, len(miss))
		for at := 0; at < len(miss); at += chunk {
			end := min(at+chunk, len(miss))
			r, err := c.v.Inspect(miss[at:end])
			if err != nil {
				return nil, err
			}
			res = append(res, r...)
		}
		c.mu.Lock()
		for k, j := range seen {
			c.m[k] = res[j]
		}
		for _, i := range missIdx {
			out[i] = c.m[string(mods[i])]
		}
		c.mu.Unlock()
	}
	return out, nil
}

// Size is the number of distinct modules validated so far.
func (c *V8Cache) Size() int {
	c.mu.Lock()
	defer c.mu.Unlock()
	return len(c.m)
}
