//go:build go1.21

// Package watgen is the WebAssembly module space shared by the wat/wasm checks (C04, C05, C06,
// C31, C03, C02): an abstract module, a WAT renderer with frozen style variants, an independent
// binary encoder/decoder (nothing from wa-lang.org/wa/internal/wasm is imported), an independent
// reader for the non-folded WAT dialect, complete module families and a V8 (node) batch client.
//
// Layers:
//
//	Module  -- index based abstract module with optional identifiers (what a WAT text says)
//	Bin     -- section-wise view of a binary (what Decode sees, what Encode writes)
//	Lower(Module, *Layout) -> Bin      the module the reference assembler (WABT) would emit
//	Render(Module, Style)  -> text     WAT in the dialect Wa's parser accepts
//	ReadWat(text)          -> Module   independent reader of that dialect (compiler output)
package watgen

import "fmt"

// ValType is the binary encoding of a value type.
type ValType byte

const (
	I32 ValType = 0x7f
	I64 ValType = 0x7e
	F32 ValType = 0x7d
	F64 ValType = 0x7c
	// FuncRef only appears as table element type and on the operand stack of table.get/set.
	FuncRef ValType = 0x70
)

var AllNumTypes = []ValType{I32, I64, F32, F64}

func (t ValType) String() string {
	switch t {
	case I32:
		return "i32"
	case I64:
		return "i64"
	case F32:
		return "f32"
	case F64:
		return "f64"
	case FuncRef:
		return "funcref"
	}
	return fmt.Sprintf("valtype(0x%02x)", byte(t))
}

// FuncType is a function signature.
type FuncType struct {
	Params  []ValType
	Results []ValType
}

func (a FuncType) Equal(b FuncType) bool {
	if len(a.Params) != len(b.Params) || len(a.Results) != len(b.Results) {
		return false
	}
	for i := range a.Params {
		if a.Params[i] != b.Params[i] {
			return false
		}
	}
	for i := range a.Results {
		if a.Results[i] != b.Results[i] {
			return false
		}
	}
	return true
}

func (a FuncType) String() string {
	s := "("
	for i, p := range a.Params {
		if i > 0 {
			s += " "
		}
		s += p.String()
	}
	s += ")->("
	for i, p := range a.Results {
		if i > 0 {
			s += " "
		}
		s += p.String()
	}
	return s + ")"
}

// Limits of a table or memory.
type Limits struct {
	Min    uint32
	HasMax bool
	Max    uint32
}

// External kinds (import/export descriptors).
const (
	KindFunc   byte = 0
	KindTable  byte = 1
	KindMemory byte = 2
	KindGlobal byte = 3
)

func KindName(k byte) string {
	switch k {
	case KindFunc:
		return "func"
	case KindTable:
		return "table"
	case KindMemory:
		return "memory"
	case KindGlobal:
		return "global"
	}
	return fmt.Sprintf("kind%d", k)
}

// TypeDef is an explicit `(type $id (func ...))` declaration.
type TypeDef struct {
	Id string
	FuncType
	ParamIds []string // optional names of the parameters inside the declaration
}

// Import of one entity. Exactly the fields of its Kind are meaningful.
type Import struct {
	Module, Name string
	Kind         byte
	Id           string   // $id of the imported entity
	Sig          FuncType // KindFunc: inline signature
	ParamIds     []string // KindFunc: optional parameter names (len 0 or len(Sig.Params))
	Lim          Limits   // KindTable / KindMemory
	GlobalType   ValType  // KindGlobal
	GlobalMut    bool
}

// Local is a declared local (or a parameter name holder).
type Local struct {
	Id   string
	Type ValType
}

// Func is a defined function with a flat instruction list (block/loop/if/else/end are
// instructions of the list; the final `end` of the body is NOT part of Body).
type Func struct {
	Id       string
	Sig      FuncType
	ParamIds []string // len 0 or len(Sig.Params); "" = unnamed
	Locals   []Local
	Body     []Instr
}

type Table struct {
	Id  string
	Lim Limits
}

type Memory struct {
	Id  string
	Lim Limits
}

// Global with a constant initialiser of its own type.
type Global struct {
	Id   string
	Type ValType
	Mut  bool
	Init Instr // i32.const / i64.const / f32.const / f64.const
}

type Export struct {
	Name string
	Kind byte
	Idx  uint32
}

// Elem is an active element segment for table 0 with an i32.const offset.
type Elem struct {
	Id     string
	Offset uint32
	Funcs  []uint32
}

// Data is an active data segment for memory 0 with an i32.const offset.
type Data struct {
	Id     string
	Offset uint32
	Bytes  []byte
}

// Module is the abstract module. All references are indices into the usual index spaces
// (imports first); identifiers are optional decorations the renderer may use.
type Module struct {
	Name     string // module $name ("" = none)
	Types    []TypeDef
	Imports  []Import
	Funcs    []Func
	Table    *Table
	Memory   *Memory
	Globals  []Global
	Exports  []Export
	HasStart bool
	Start    uint32
	Elems    []Elem
	Datas    []Data
}

// NumImported counts imports of one kind.
func (m *Module) NumImported(kind byte) int {
	n := 0
	for i := range m.Imports {
		if m.Imports[i].Kind == kind {
			n++
		}
	}
	return n
}

// FuncId returns the identifier of function index idx ("" if none).
func (m *Module) FuncId(idx uint32) string {
	n := uint32(0)
	for i := range m.Imports {
		if m.Imports[i].Kind == KindFunc {
			if n == idx {
				return m.Imports[i].Id
			}
			n++
		}
	}
	if int(idx-n) < len(m.Funcs) {
		return m.Funcs[idx-n].Id
	}
	return ""
}

// FuncSig returns the signature of function index idx.
func (m *Module) FuncSig(idx uint32) (FuncType, bool) {
	n := uint32(0)
	for i := range m.Imports {
		if m.Imports[i].Kind == KindFunc {
			if n == idx {
				return m.Imports[i].Sig, true
			}
			n++
		}
	}
	if int(idx-n) < len(m.Funcs) {
		return m.Funcs[idx-n].Sig, true
	}
	return FuncType{}, false
}

// GlobalId returns the identifier of global index idx.
func (m *Module) GlobalId(idx uint32) string {
	n := uint32(0)
	for i := range m.Imports {
		if m.Imports[i].Kind == KindGlobal {
			if n == idx {
				return m.Imports[i].Id
			}
			n++
		}
	}
	if int(idx-n) < len(m.Globals) {
		return m.Globals[idx-n].Id
	}
	return ""
}

// TableId / MemoryId return the identifier of table 0 / memory 0.
func (m *Module) TableId() string {
	for i := range m.Imports {
		if m.Imports[i].Kind == KindTable {
			return m.Imports[i].Id
		}
	}
	if m.Table != nil {
		return m.Table.Id
	}
	return ""
}

func (m *Module) MemoryId() string {
	for i := range m.Imports {
		if m.Imports[i].Kind == KindMemory {
			return m.Imports[i].Id
		}
	}
	if m.Memory != nil {
		return m.Memory.Id
	}
	return ""
}

// BlockType of block/loop/if. Params are not part of the subset (Wa's parser has no syntax
// for them); Results of length 0, 1 or more.
type BlockType struct {
	Results []ValType
}

// Instr is one instruction with its immediates. Which fields are meaningful is given by
// OpInfo(Op).Imm.
type Instr struct {
	Op    Op
	Label string     // ImmBlock: identifier of the label this construct declares ("" = none)
	BT    BlockType  // ImmBlock
	Idx   uint32     // ImmLabel depth / ImmLocal / ImmGlobal / ImmFunc / ImmTable / ImmData; ImmCallIndirect: type index (explicit Types)
	Idx2  uint32     // ImmCallIndirect: table index
	Idxs  []uint32   // ImmBrTable: targets, default last
	I     int64      // ImmI32 (sign-extended 32-bit value) / ImmI64
	F     uint64     // ImmF32 (bits in the low 32) / ImmF64 bits
	Off   uint64     // ImmMem offset
	Align uint32     // ImmMem alignment as log2
	Sel   []ValType  // ImmSelectT
	Lit   string     // optional literal spelling for the constant (renderer only; must denote I / F)
}

// Convenience constructors.
func Ins(op Op) Instr                   { return Instr{Op: op} }
func InsIdx(op Op, idx uint32) Instr    { return Instr{Op: op, Idx: idx} }
func I32Const(v int32) Instr            { return Instr{Op: OpI32Const, I: int64(v)} }
func I64Const(v int64) Instr            { return Instr{Op: OpI64Const, I: v} }
func F32Const(bits uint32) Instr        { return Instr{Op: OpF32Const, F: uint64(bits)} }
func F64Const(bits uint64) Instr        { return Instr{Op: OpF64Const, F: bits} }
func Block(label string, res ...ValType) Instr {
	return Instr{Op: OpBlock, Label: label, BT: BlockType{Results: res}}
}
func Loop(label string, res ...ValType) Instr {
	return Instr{Op: OpLoop, Label: label, BT: BlockType{Results: res}}
}
func If(label string, res ...ValType) Instr {
	return Instr{Op: OpIf, Label: label, BT: BlockType{Results: res}}
}
func MemIns(op Op, off uint64, alignLog2 uint32) Instr {
	return Instr{Op: op, Off: off, Align: alignLog2}
}

// ConstFor returns a zero-ish constant instruction of type t carrying the given small value.
func ConstFor(t ValType, small int32) Instr {
	switch t {
	case I32:
		return I32Const(small)
	case I64:
		return I64Const(int64(small))
	case F32:
		return F32Const(f32bits(float32(small)))
	case F64:
		return F64Const(f64bits(float64(small)))
	}
	panic("ConstFor: bad type")
}
