//go:build go1.21

package watgen

import (
	"fmt"
	"math"
	"strconv"
	"strings"
)

// ReadWat is an independent reader for the WAT dialect Wa accepts and emits (non-folded
// instructions, inline exports, `;;` and `(; ;)` comments). It shares no code with
// wa-lang.org/wa/internal/wat. It is bound to the reference assembler by the stored WABT
// binaries: Encode(Lower(ReadWat(x.wat))) must reproduce x.wat.wasm byte for byte.

type tokKind byte

const (
	tLParen tokKind = iota
	tRParen
	tWord
	tString
	tEOF
)

type token struct {
	kind tokKind
	text string // word text; string: decoded bytes
	pos  int
}

func tokenize(src string) ([]token, error) {
	var out []token
	i := 0
	for i < len(src) {
		c := src[i]
		switch {
		case c == ' ' || c == '\t' || c == '\n' || c == '\r':
			i++
		case c == ';' && i+1 < len(src) && src[i+1] == ';':
			for i < len(src) && src[i] != '\n' {
				i++
			}
		case c == '(' && i+1 < len(src) && src[i+1] == ';':
			depth := 1
			j := i + 2
			for j < len(src) && depth > 0 {
				if src[j] == ';' && j+1 < len(src) && src[j+1] == ')' {
					depth--
					j += 2
				} else if src[j] == '(' && j+1 < len(src) && src[j+1] == ';' {
					depth++
					j += 2
				} else {
					j++
				}
			}
			if depth != 0 {
				return nil, fmt.Errorf("offset %d: unterminated block comment", i)
			}
			i = j
		case c == '(':
			out = append(out, token{tLParen, "(", i})
			i++
		case c == ')':
			out = append(out, token{tRParen, ")", i})
			i++
		case c == '"':
			var sb strings.Builder
			j := i + 1
			for {
				if j >= len(src) {
					return nil, fmt.Errorf("offset %d: unterminated string", i)
				}
				ch := src[j]
				if ch == '"' {
					j++
					break
				}
				if ch == '\\' {
					if j+1 >= len(src) {
						return nil, fmt.Errorf("offset %d: unterminated escape", j)
					}
					e := src[j+1]
					switch e {
					case 'n':
						sb.WriteByte('\n')
						j += 2
					case 't':
						sb.WriteByte('\t')
						j += 2
					case 'r':
						sb.WriteByte('\r')
						j += 2
					case '"', '\'', '\\':
						sb.WriteByte(e)
						j += 2
					default:
						if j+2 < len(src) && isHexDigit(e) && isHexDigit(src[j+2]) {
							v, _ := strconv.ParseUint(src[j+1:j+3], 16, 8)
							sb.WriteByte(byte(v))
							j += 3
						} else {
							return nil, fmt.Errorf("offset %d: unknown escape \\%c", j, e)
						}
					}
					continue
				}
				sb.WriteByte(ch)
				j++
			}
			out = append(out, token{tString, sb.String(), i})
			i = j
		default:
			j := i
			for j < len(src) {
				ch := src[j]
				if ch == ' ' || ch == '\t' || ch == '\n' || ch == '\r' || ch == '(' || ch == ')' || ch == '"' || ch == ';' {
					break
				}
				j++
			}
			if j == i {
				return nil, fmt.Errorf("offset %d: unexpected character %q", i, c)
			}
			out = append(out, token{tWord, src[i:j], i})
			i = j
		}
	}
	out = append(out, token{tEOF, "", len(src)})
	return out, nil
}

func isHexDigit(c byte) bool {
	return c >= '0' && c <= '9' || c >= 'a' && c <= 'f' || c >= 'A' && c <= 'F'
}

type symRef struct {
	name string // identifier without $, or "" when numeric
	num  uint32
}

func (s symRef) String() string {
	if s.name != "" {
		return "$" + s.name
	}
	return strconv.FormatUint(uint64(s.num), 10)
}

type pendingRef struct {
	kind  string // "func", "global", "type", "table", "memory"
	ref   symRef
	store func(uint32)
	pos   int
}

type watReader struct {
	toks []token
	i    int
	m    *Module
	// definitions in text order per index space: imports must come first (checked)
	funcIds, globalIds, typeIds []string
	tableIds, memIds            []string
	sawDef                      map[string]bool
	pending                     []pendingRef
	exports                     []struct {
		name string
		kind byte
		ref  symRef
		pos  int
	}
	start    *symRef
	startPos int
}

type watError struct{ msg string }

func (r *watReader) fail(pos int, format string, a ...interface{}) {
	panic(watError{fmt.Sprintf("offset %d: ", pos) + fmt.Sprintf(format, a...)})
}

func (r *watReader) peek() token { return r.toks[r.i] }
func (r *watReader) next() token {
	t := r.toks[r.i]
	if t.kind != tEOF {
		r.i++
	}
	return t
}
func (r *watReader) expect(k tokKind, what string) token {
	t := r.next()
	if t.kind != k {
		r.fail(t.pos, "expected %s, got %q", what, t.text)
	}
	return t
}
func (r *watReader) word(w string) {
	t := r.next()
	if t.kind != tWord || t.text != w {
		r.fail(t.pos, "expected %q, got %q", w, t.text)
	}
}
func (r *watReader) isWord(w string) bool {
	t := r.peek()
	return t.kind == tWord && t.text == w
}
func (r *watReader) isOpen(w string) bool {
	return r.peek().kind == tLParen && r.toks[r.i+1].kind == tWord && r.toks[r.i+1].text == w
}
func (r *watReader) optId() string {
	if t := r.peek(); t.kind == tWord && strings.HasPrefix(t.text, "$") {
		r.i++
		return t.text[1:]
	}
	return ""
}

func parseValType(s string) (ValType, bool) {
	switch s {
	case "i32":
		return I32, true
	case "i64":
		return I64, true
	case "f32":
		return F32, true
	case "f64":
		return F64, true
	}
	return 0, false
}

func (r *watReader) valType() ValType {
	t := r.expect(tWord, "value type")
	v, ok := parseValType(t.text)
	if !ok {
		r.fail(t.pos, "expected value type, got %q", t.text)
	}
	return v
}

func (r *watReader) u32() uint32 {
	t := r.expect(tWord, "number")
	v, err := ParseIntLit(t.text, 32)
	if err != nil || v < 0 {
		if err == nil {
			err = fmt.Errorf("negative")
		}
		r.fail(t.pos, "expected u32, got %q (%v)", t.text, err)
	}
	return uint32(v)
}

func isRefWord(t token) bool {
	return t.kind == tWord && (strings.HasPrefix(t.text, "$") || (t.text[0] >= '0' && t.text[0] <= '9'))
}

func (r *watReader) ref() symRef {
	t := r.expect(tWord, "identifier or index")
	if strings.HasPrefix(t.text, "$") {
		return symRef{name: t.text[1:]}
	}
	v, err := strconv.ParseUint(t.text, 0, 32)
	if err != nil {
		r.fail(t.pos, "expected identifier or index, got %q", t.text)
	}
	return symRef{num: uint32(v)}
}

// ParseIntLit parses a WAT integer literal (sign, decimal or 0x hexadecimal, '_' separators)
// of the given width: the result is in [-2^(bits-1), 2^bits) folded to the signed value.
func ParseIntLit(s string, bits int) (int64, error) {
	neg := false
	t := s
	if strings.HasPrefix(t, "-") {
		neg, t = true, t[1:]
	} else if strings.HasPrefix(t, "+") {
		t = t[1:]
	}
	base := 10
	if strings.HasPrefix(t, "0x") || strings.HasPrefix(t, "0X") {
		base, t = 16, t[2:]
	}
	if t == "" || strings.HasPrefix(t, "_") || strings.HasSuffix(t, "_") || strings.Contains(t, "__") {
		return 0, fmt.Errorf("malformed integer %q", s)
	}
	t = strings.ReplaceAll(t, "_", "")
	u, err := strconv.ParseUint(t, base, 64)
	if err != nil {
		return 0, err
	}
	if bits == 32 {
		if neg {
			if u > 1<<31 {
				return 0, fmt.Errorf("%q out of i32 range", s)
			}
			return -int64(u), nil
		}
		if u > math.MaxUint32 {
			return 0, fmt.Errorf("%q out of i32 range", s)
		}
		return int64(int32(uint32(u))), nil
	}
	if neg {
		if u > 1<<63 {
			return 0, fmt.Errorf("%q out of i64 range", s)
		}
		return int64(-u), nil
	}
	return int64(u), nil
}

// ParseFloatLit parses a WAT float literal and returns the bit pattern for the given width.
func ParseFloatLit(s string, bits int) (uint64, error) {
	neg := false
	t := s
	if strings.HasPrefix(t, "-") {
		neg, t = true, t[1:]
	} else if strings.HasPrefix(t, "+") {
		t = t[1:]
	}
	signBit := uint64(0)
	if neg {
		signBit = 1 << (bits - 1)
	}
	expAll, fracBits := uint64(0xff)<<23, uint(23)
	if bits == 64 {
		expAll, fracBits = uint64(0x7ff)<<52, 52
	}
	switch {
	case t == "inf":
		return signBit | expAll, nil
	case t == "nan":
		return signBit | expAll | 1<<(fracBits-1), nil
	case strings.HasPrefix(t, "nan:0x"):
		p, err := strconv.ParseUint(strings.ReplaceAll(t[6:], "_", ""), 16, 64)
		if err != nil || p == 0 || p >= 1<<fracBits {
			return 0, fmt.Errorf("bad nan payload in %q", s)
		}
		return signBit | expAll | p, nil
	}
	t = strings.ReplaceAll(t, "_", "")
	if (strings.HasPrefix(t, "0x") || strings.HasPrefix(t, "0X")) && !strings.ContainsAny(t, "pP") {
		t += "p0"
	}
	v, err := strconv.ParseFloat(t, bits)
	if err != nil {
		return 0, err
	}
	if bits == 32 {
		return signBit | uint64(math.Float32bits(float32(v))), nil
	}
	return signBit | math.Float64bits(v), nil
}

func (r *watReader) sigClauses() (FuncType, []string) {
	var ft FuncType
	var ids []string
	anyId := false
	for {
		switch {
		case r.isOpen("param"):
			r.i += 2
			if id := r.optId(); id != "" {
				ft.Params = append(ft.Params, r.valType())
				ids = append(ids, id)
				anyId = true
			} else {
				for r.peek().kind == tWord {
					ft.Params = append(ft.Params, r.valType())
					ids = append(ids, "")
				}
			}
			r.expect(tRParen, ")")
		case r.isOpen("result"):
			r.i += 2
			for r.peek().kind == tWord {
				ft.Results = append(ft.Results, r.valType())
			}
			r.expect(tRParen, ")")
		default:
			if !anyId {
				ids = nil
			}
			return ft, ids
		}
	}
}

func (r *watReader) limits() Limits {
	l := Limits{Min: r.u32()}
	if t := r.peek(); t.kind == tWord && t.text[0] >= '0' && t.text[0] <= '9' {
		l.HasMax, l.Max = true, r.u32()
	}
	return l
}

func (r *watReader) constExpr() Instr {
	r.expect(tLParen, "(")
	t := r.expect(tWord, "constant instruction")
	info := OpByName(t.text)
	if info == nil || (info.Imm != ImmI32 && info.Imm != ImmI64 && info.Imm != ImmF32 && info.Imm != ImmF64) {
		r.fail(t.pos, "expected a constant instruction, got %q", t.text)
	}
	in := r.constImm(info)
	r.expect(tRParen, ")")
	return in
}

func (r *watReader) constImm(info *Info) Instr {
	t := r.expect(tWord, "literal")
	in := Instr{Op: info.Op}
	var err error
	switch info.Imm {
	case ImmI32:
		in.I, err = ParseIntLit(t.text, 32)
	case ImmI64:
		in.I, err = ParseIntLit(t.text, 64)
	case ImmF32:
		in.F, err = ParseFloatLit(t.text, 32)
	case ImmF64:
		in.F, err = ParseFloatLit(t.text, 64)
	}
	if err != nil {
		r.fail(t.pos, "%s literal %q: %v", info.Name, t.text, err)
	}
	return in
}

func (r *watReader) defineOrder(kind string, isImport bool, pos int) {
	if isImport && r.sawDef[kind] {
		r.fail(pos, "%s import after a %s definition", kind, kind)
	}
	if !isImport {
		r.sawDef[kind] = true
	}
}

// ReadWat parses one module.
func ReadWat(src string) (m *Module, err error) {
	toks, err := tokenize(src)
	if err != nil {
		return nil, err
	}
	r := &watReader{toks: toks, m: &Module{}, sawDef: map[string]bool{}}
	defer func() {
		if e := recover(); e != nil {
			if we, ok := e.(watError); ok {
				m, err = nil, fmt.Errorf("readwat: %s", we.msg)
				return
			}
			panic(e)
		}
	}()
	r.expect(tLParen, "(")
	r.word("module")
	r.m.Name = r.optId()
	for r.peek().kind == tLParen {
		r.field()
	}
	r.expect(tRParen, ")")
	if t := r.peek(); t.kind != tEOF {
		r.fail(t.pos, "text after the module")
	}
	r.resolve()
	return r.m, nil
}

func (r *watReader) field() {
	open := r.expect(tLParen, "(")
	kw := r.expect(tWord, "field keyword")
	switch kw.text {
	case "type":
		td := TypeDef{Id: r.optId()}
		r.expect(tLParen, "(")
		r.word("func")
		td.FuncType, td.ParamIds = r.sigClauses()
		r.expect(tRParen, ")")
		r.m.Types = append(r.m.Types, td)
		r.typeIds = append(r.typeIds, td.Id)
	case "import":
		im := Import{}
		im.Module = r.expect(tString, "module string").text
		im.Name = r.expect(tString, "name string").text
		r.expect(tLParen, "(")
		k := r.expect(tWord, "import kind")
		switch k.text {
		case "func":
			im.Kind = KindFunc
			im.Id = r.optId()
			im.Sig, im.ParamIds = r.sigClauses()
			r.defineOrder("func", true, k.pos)
			r.funcIds = append(r.funcIds, im.Id)
		case "memory":
			im.Kind = KindMemory
			im.Id = r.optId()
			im.Lim = r.limits()
			r.defineOrder("memory", true, k.pos)
			r.memIds = append(r.memIds, im.Id)
		case "table":
			im.Kind = KindTable
			im.Id = r.optId()
			im.Lim = r.limits()
			r.word("funcref")
			r.defineOrder("table", true, k.pos)
			r.tableIds = append(r.tableIds, im.Id)
		case "global":
			im.Kind = KindGlobal
			im.Id = r.optId()
			if r.isOpen("mut") {
				r.i += 2
				im.GlobalType, im.GlobalMut = r.valType(), true
				r.expect(tRParen, ")")
			} else {
				im.GlobalType = r.valType()
			}
			r.defineOrder("global", true, k.pos)
			r.globalIds = append(r.globalIds, im.Id)
		default:
			r.fail(k.pos, "import kind %q", k.text)
		}
		r.expect(tRParen, ")")
		r.m.Imports = append(r.m.Imports, im)
	case "func":
		r.defineOrder("func", false, kw.pos)
		r.funcField()
	case "table":
		r.defineOrder("table", false, kw.pos)
		if r.m.Table != nil {
			r.fail(kw.pos, "second table")
		}
		t := &Table{Id: r.optId()}
		t.Lim = r.limits()
		r.word("funcref")
		r.m.Table = t
		r.tableIds = append(r.tableIds, t.Id)
	case "memory":
		r.defineOrder("memory", false, kw.pos)
		if r.m.Memory != nil {
			r.fail(kw.pos, "second memory")
		}
		mem := &Memory{Id: r.optId()}
		mem.Lim = r.limits()
		r.m.Memory = mem
		r.memIds = append(r.memIds, mem.Id)
	case "global":
		r.defineOrder("global", false, kw.pos)
		g := Global{Id: r.optId()}
		gidx := uint32(len(r.globalIds))
		for r.isOpen("export") {
			r.i += 2
			name := r.expect(tString, "export name").text
			r.expect(tRParen, ")")
			r.exports = append(r.exports, struct {
				name string
				kind byte
				ref  symRef
				pos  int
			}{name, KindGlobal, symRef{num: gidx}, kw.pos})
		}
		if r.isOpen("mut") {
			r.i += 2
			g.Type, g.Mut = r.valType(), true
			r.expect(tRParen, ")")
		} else {
			g.Type = r.valType()
		}
		g.Init = r.constExpr()
		want := map[ValType]Op{I32: OpI32Const, I64: OpI64Const, F32: OpF32Const, F64: OpF64Const}[g.Type]
		if g.Init.Op != want {
			r.fail(kw.pos, "global of type %s initialised by %s", g.Type, g.Init.Op)
		}
		r.m.Globals = append(r.m.Globals, g)
		r.globalIds = append(r.globalIds, g.Id)
	case "export":
		name := r.expect(tString, "export name").text
		r.expect(tLParen, "(")
		k := r.expect(tWord, "export kind")
		kinds := map[string]byte{"func": KindFunc, "table": KindTable, "memory": KindMemory, "global": KindGlobal}
		kind, ok := kinds[k.text]
		if !ok {
			r.fail(k.pos, "export kind %q", k.text)
		}
		ref := r.ref()
		r.expect(tRParen, ")")
		r.exports = append(r.exports, struct {
			name string
			kind byte
			ref  symRef
			pos  int
		}{name, kind, ref, kw.pos})
	case "start":
		ref := r.ref()
		r.start, r.startPos = &ref, kw.pos
	case "elem":
		e := Elem{Id: r.optId()}
		if r.isOpen("table") {
			r.i += 2
			r.ref()
			r.expect(tRParen, ")")
		}
		if r.isOpen("offset") {
			r.i += 2
			off := r.constExpr()
			r.expect(tRParen, ")")
			e.Offset = uint32(int32(off.I))
		} else {
			off := r.constExpr()
			if off.Op != OpI32Const {
				r.fail(kw.pos, "elem offset must be i32.const")
			}
			e.Offset = uint32(int32(off.I))
		}
		if r.isWord("func") {
			r.i++
		}
		ei := len(r.m.Elems)
		r.m.Elems = append(r.m.Elems, e)
		for isRefWord(r.peek()) {
			pos := r.peek().pos
			ref := r.ref()
			k := len(r.m.Elems[ei].Funcs)
			r.m.Elems[ei].Funcs = append(r.m.Elems[ei].Funcs, 0)
			r.pending = append(r.pending, pendingRef{"func", ref, func(v uint32) { r.m.Elems[ei].Funcs[k] = v }, pos})
		}
	case "data":
		d := Data{Id: r.optId()}
		if r.isOpen("memory") {
			r.i += 2
			r.ref()
			r.expect(tRParen, ")")
		}
		var off Instr
		if r.isOpen("offset") {
			r.i += 2
			off = r.constExpr()
			r.expect(tRParen, ")")
		} else {
			off = r.constExpr()
		}
		if off.Op != OpI32Const {
			r.fail(kw.pos, "data offset must be i32.const")
		}
		d.Offset = uint32(int32(off.I))
		d.Bytes = []byte{}
		for r.peek().kind == tString {
			d.Bytes = append(d.Bytes, r.next().text...)
		}
		r.m.Datas = append(r.m.Datas, d)
	default:
		r.fail(kw.pos, "module field %q", kw.text)
	}
	if t := r.next(); t.kind != tRParen {
		r.fail(t.pos, "expected ) closing the %s field opened at offset %d, got %q", kw.text, open.pos, t.text)
	}
}

func (r *watReader) funcField() {
	f := Func{Id: r.optId()}
	fidx := uint32(len(r.funcIds))
	r.funcIds = append(r.funcIds, f.Id)
	for r.isOpen("export") {
		pos := r.peek().pos
		r.i += 2
		name := r.expect(tString, "export name").text
		r.expect(tRParen, ")")
		r.exports = append(r.exports, struct {
			name string
			kind byte
			ref  symRef
			pos  int
		}{name, KindFunc, symRef{num: fidx}, pos})
	}
	f.Sig, f.ParamIds = r.sigClauses()
	for r.isOpen("local") {
		r.i += 2
		if id := r.optId(); id != "" {
			f.Locals = append(f.Locals, Local{Id: id, Type: r.valType()})
		} else {
			for r.peek().kind == tWord {
				f.Locals = append(f.Locals, Local{Type: r.valType()})
			}
		}
		r.expect(tRParen, ")")
	}
	fi := len(r.m.Funcs)
	r.m.Funcs = append(r.m.Funcs, f)
	fp := &r.m.Funcs[fi]

	localIdx := func(ref symRef, pos int) uint32 {
		if ref.name == "" {
			return ref.num
		}
		// the LAST declaration wins? identifiers must be unique; take the first
		for k, id := range fp.ParamIds {
			if id == ref.name {
				return uint32(k)
			}
		}
		for k, l := range fp.Locals {
			if l.Id == ref.name {
				return uint32(len(fp.Sig.Params) + k)
			}
		}
		r.fail(pos, "unknown local $%s", ref.name)
		return 0
	}
	var labels []string
	labelIdx := func(ref symRef, pos int) uint32 {
		if ref.name == "" {
			return ref.num
		}
		for d := 0; d < len(labels); d++ {
			if labels[len(labels)-1-d] == ref.name {
				return uint32(d)
			}
		}
		r.fail(pos, "unknown label $%s", ref.name)
		return 0
	}
	var body []Instr
	for r.peek().kind == tWord {
		t := r.next()
		info := OpByName(t.text)
		if info == nil {
			r.fail(t.pos, "unknown instruction %q", t.text)
		}
		in := Instr{Op: info.Op}
		switch info.Imm {
		case ImmNone, ImmMemIdx, ImmMemIdx2:
			switch info.Op {
			case OpEnd:
				if len(labels) == 0 {
					r.fail(t.pos, "end without open construct")
				}
				labels = labels[:len(labels)-1]
				r.optId() // optional repeated label
			case OpElse:
				r.optId()
			case OpSelect:
				if r.isOpen("result") {
					r.i += 2
					in.Op = OpSelectT
					for r.peek().kind == tWord {
						in.Sel = append(in.Sel, r.valType())
					}
					r.expect(tRParen, ")")
				}
			}
		case ImmBlock:
			in.Label = r.optId()
			if r.isOpen("result") {
				r.i += 2
				for r.peek().kind == tWord {
					in.BT.Results = append(in.BT.Results, r.valType())
				}
				r.expect(tRParen, ")")
			}
			labels = append(labels, in.Label)
		case ImmLabel:
			pos := r.peek().pos
			in.Idx = labelIdx(r.ref(), pos)
		case ImmBrTable:
			for isRefWord(r.peek()) {
				pos := r.peek().pos
				in.Idxs = append(in.Idxs, labelIdx(r.ref(), pos))
			}
			if len(in.Idxs) == 0 {
				r.fail(t.pos, "br_table without targets")
			}
		case ImmFunc:
			pos := r.peek().pos
			ref := r.ref()
			k := len(body)
			r.pending = append(r.pending, pendingRef{"func", ref, func(v uint32) { r.m.Funcs[fi].Body[k].Idx = v }, pos})
		case ImmCallIndirect:
			k := len(body)
			if isRefWord(r.peek()) {
				pos := r.peek().pos
				ref := r.ref()
				r.pending = append(r.pending, pendingRef{"table", ref, func(v uint32) { r.m.Funcs[fi].Body[k].Idx2 = v }, pos})
			}
			r.expect(tLParen, "(")
			r.word("type")
			pos := r.peek().pos
			ref := r.ref()
			r.expect(tRParen, ")")
			r.pending = append(r.pending, pendingRef{"type", ref, func(v uint32) { r.m.Funcs[fi].Body[k].Idx = v }, pos})
		case ImmLocal:
			pos := r.peek().pos
			in.Idx = localIdx(r.ref(), pos)
		case ImmGlobal:
			pos := r.peek().pos
			ref := r.ref()
			k := len(body)
			r.pending = append(r.pending, pendingRef{"global", ref, func(v uint32) { r.m.Funcs[fi].Body[k].Idx = v }, pos})
		case ImmTable:
			k := len(body)
			if isRefWord(r.peek()) {
				pos := r.peek().pos
				ref := r.ref()
				r.pending = append(r.pending, pendingRef{"table", ref, func(v uint32) { r.m.Funcs[fi].Body[k].Idx = v }, pos})
			}
		case ImmData:
			in.Idx = r.u32()
		case ImmMem:
			in.Align = info.Natural
			for {
				p := r.peek()
				if p.kind != tWord {
					break
				}
				if strings.HasPrefix(p.text, "offset=") {
					v, err := ParseIntLit(p.text[7:], 64)
					if err != nil || v < 0 || v > math.MaxUint32 {
						r.fail(p.pos, "bad offset %q", p.text)
					}
					in.Off = uint64(v)
					r.i++
				} else if strings.HasPrefix(p.text, "align=") {
					v, err := ParseIntLit(p.text[6:], 64)
					if err != nil || v <= 0 || v&(v-1) != 0 {
						r.fail(p.pos, "bad alignment %q", p.text)
					}
					al := uint32(0)
					for v > 1 {
						v >>= 1
						al++
					}
					in.Align = al
					r.i++
				} else {
					break
				}
			}
		case ImmI32, ImmI64, ImmF32, ImmF64:
			in = r.constImm(info)
		}
		body = append(body, in)
		fp.Body = body
	}
	if len(labels) != 0 {
		r.fail(r.peek().pos, "%d constructs left open in function %d", len(labels), fi)
	}
	fp.Body = body
}

func (r *watReader) lookup(kind string, ref symRef, pos int) uint32 {
	if ref.name == "" {
		return ref.num
	}
	var ids []string
	switch kind {
	case "func":
		ids = r.funcIds
	case "global":
		ids = r.globalIds
	case "type":
		ids = r.typeIds
	case "table":
		ids = r.tableIds
	case "memory":
		ids = r.memIds
	}
	for i, id := range ids {
		if id == ref.name {
			return uint32(i)
		}
	}
	r.fail(pos, "unknown %s $%s", kind, ref.name)
	return 0
}

func (r *watReader) resolve() {
	for _, p := range r.pending {
		p.store(r.lookup(p.kind, p.ref, p.pos))
	}
	for _, e := range r.exports {
		r.m.Exports = append(r.m.Exports, Export{Name: e.name, Kind: e.kind, Idx: r.lookup(KindName(e.kind), e.ref, e.pos)})
	}
	if r.start != nil {
		r.m.HasStart, r.m.Start = true, r.lookup("func", *r.start, r.startPos)
	}
}
