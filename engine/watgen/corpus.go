//go:build go1.21

package watgen

// WaProgram is a small Wa source used to obtain real compiler output (the `wa` family).
type WaProgram struct {
	Name string
	Src  string
}

// WaCorpus returns the fixed corpus. Each program pulls in different parts of the runtime
// (strings, float formatting, interfaces, closures, maps, globals, defer) so the emitted WAT
// differs beyond the shared prelude.
func WaCorpus() []WaProgram {
	return []WaProgram{
		{"hello.wa", `func main {
	println("hello, 世界")
}
`},
		{"arith.wa", `import "math"

func fib(n: i32) => i32 {
	if n < 2 {
		return n
	}
	return fib(n-1) + fib(n-2)
}

func main {
	var s: f64 = 0
	for i := 0; i < 10; i++ {
		s += math.Sqrt(f64(i)) * 1.5
	}
	var f: f32 = 3.25
	var u: u64 = 1 << 40
	var k: i64 = -7
	println(fib(10), s, f*f, u/3, k%3, math.MaxFloat64, math.SmallestNonzeroFloat64, math.Inf(-1))
}
`},
		{"iface.wa", `type Shape interface {
	Area() => f64
	Name() => string
}

type Rect struct {
	w, h: f64
}

type Circle struct {
	r: f64
}

func Rect.Area() => f64   { return this.w * this.h }
func Rect.Name() => string { return "rect" }
func Circle.Area() => f64 { return 3.14159 * this.r * this.r }
func Circle.Name() => string { return "circle" }

func main {
	shapes := []Shape{&Rect{2, 3}, &Circle{1}}
	for i, s := range shapes {
		println(i, s.Name(), s.Area())
		if c, ok := s.(*Circle); ok {
			println("r =", c.r)
		}
	}
}
`},
		{"closure.wa", `func adder(base: int) => func(int) => int {
	return func(x: int) => int {
		base += x
		return base
	}
}

func main {
	m := make(map[string]int)
	words := []string{"a", "bb", "a", "ccc", "bb", "a"}
	for _, w := range words {
		m[w]++
	}
	println(m["a"], m["bb"], m["ccc"], len(m))
	add := adder(10)
	println(add(1), add(2))
	s := "héllo"
	for i, r := range s {
		println(i, r)
	}
	b := []byte(s)
	b = append(b, '!')
	println(string(b), len(b), cap(b) >= len(b))
}
`},
		{"globals.wa", `global counter: i32 = 7
global table: [4]i64

func classify(x: i32) => string {
	switch {
	case x < 0:
		return "neg"
	case x == 0:
		return "zero"
	case x < 10:
		return "small"
	}
	return "big"
}

func main {
outer:
	for i := 0; i < 4; i++ {
		for j := 0; j < 4; j++ {
			if j == 3 {
				continue outer
			}
			if i == 3 {
				break outer
			}
			table[i] += i64(i*j)
			counter++
		}
	}
	println(counter, table[0], table[1], table[2], table[3])
	println(classify(-1), classify(0), classify(5), classify(50))
	defer println("deferred")
	var arr: [3]f32 = [3]f32{1, 2, 3}
	arr2 := arr
	arr2[0] = 9
	println(arr[0], arr2[0])
}
`},
	}
}
