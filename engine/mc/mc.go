//go:build go1.21

// Package mc is the shared core of the /verif checks: run bookkeeping (tier, seed, deadline),
// evidence writing, known-findings classification, violation replay artefacts, in-process
// parallel enumeration and a crash/hang isolating worker pool.
//
// It is compiled as a virtual package of the wa module (go build -overlay), so it may be
// imported next to wa-lang.org/wa/internal/... packages. Standard library only.
package mc

import (
	"crypto/sha1"
	"encoding/hex"
	"encoding/json"
	"fmt"
	"os"
	"path/filepath"
	"regexp"
	"sort"
	"strconv"
	"strings"
	"sync"
	"sync/atomic"
	"time"
)

// VerifDir is where MANIFEST.json, known_findings.json, evidence/ and replays/ live.
func VerifDir() string {
	if d := os.Getenv("VERIF_DIR"); d != "" {
		return d
	}
	return "/verif"
}

// RepoDir is the wa-lang/wa working tree under verification.
func RepoDir() string {
	if d := os.Getenv("VERIF_REPO"); d != "" {
		return d
	}
	return "/repo"
}

type finding struct {
	Property string `json:"property"`
	Key      string `json:"key"`
	What     string `json:"what"`
}

type knownFile struct {
	Findings []finding `json:"findings"`
	Fixed    []struct {
		Property string `json:"property"`
		Commit   string `json:"commit"`
		What     string `json:"what"`
	} `json:"fixed"`
}

type violation struct {
	Key    string
	What   string
	Replay interface{}
}

// Run is one execution of one check.
type Run struct {
	ID    string
	Tier  string
	Seed  int64
	Level string

	start    time.Time
	deadline time.Time

	mu          sync.Mutex
	violations  map[string]*violation
	vorder      []string
	known       map[string]string // key -> what
	samples     []interface{}
	maxSamples  int
	distinct    map[[8]byte]struct{}
	caps        []string
	assumptions []string
	bounds      map[string]interface{}
	extra       map[string]interface{}
	rule        string
	harnessErr  []string

	States      atomic.Int64
	Transitions atomic.Int64
	Evals       atomic.Int64
}

// Start begins a run. Tier comes from --tier=<t> / VERIF_TIER (default quick), the seed from
// VERIF_SEED (only ever used to rotate shard assignment, never to choose what is explored).
func Start(id string) *Run {
	r := &Run{
		ID: id, Tier: "quick", Level: "model_checking", start: time.Now(),
		violations: map[string]*violation{}, known: map[string]string{},
		maxSamples: 6, distinct: map[[8]byte]struct{}{}, bounds: map[string]interface{}{},
		extra: map[string]interface{}{},
	}
	if t := os.Getenv("VERIF_TIER"); t == "quick" || t == "thorough" {
		r.Tier = t
	}
	for _, a := range os.Args[1:] {
		if strings.HasPrefix(a, "--tier=") {
			r.Tier = strings.TrimPrefix(a, "--tier=")
		}
	}
	if r.Tier != "quick" && r.Tier != "thorough" {
		fmt.Fprintf(os.Stderr, "bad tier %q\n", r.Tier)
		os.Exit(2)
	}
	if s := os.Getenv("VERIF_SEED"); s != "" {
		if v, err := strconv.ParseInt(s, 10, 64); err == nil {
			r.Seed = v
		}
	}
	// Internal deadline: when reached, exploration stops with exhaustive:false and exit 0.
	budget := 8 * time.Minute
	if r.Tier == "thorough" {
		budget = 40 * time.Minute
	}
	if s := os.Getenv("VERIF_BUDGET_S"); s != "" {
		if v, err := strconv.Atoi(s); err == nil {
			budget = time.Duration(v) * time.Second
		}
	}
	r.deadline = r.start.Add(budget)

	if !IsWorker() {
		os.RemoveAll(filepath.Join(VerifDir(), "replays", id))
	}
	data, err := os.ReadFile(filepath.Join(VerifDir(), "known_findings.json"))
	if err == nil {
		var kf knownFile
		if err := json.Unmarshal(data, &kf); err != nil {
			fmt.Fprintf(os.Stderr, "known_findings.json: %v\n", err)
			os.Exit(2)
		}
		for _, f := range kf.Findings {
			if f.Property == id {
				r.known[f.Key] = f.What
			}
		}
	}
	return r
}

func (r *Run) Thorough() bool { return r.Tier == "thorough" }

// Pick returns q in the quick tier and t in the thorough tier.
func Pick[T any](r *Run, q, t T) T {
	if r.Thorough() {
		return t
	}
	return q
}

// Expired reports whether the internal deadline passed; callers stop exploring and call Cap.
func (r *Run) Expired() bool { return time.Now().After(r.deadline) }

// Remaining is the time left before the internal deadline.
func (r *Run) Remaining() time.Duration { return time.Until(r.deadline) }

// Cap records that some cap (time, count) cut the exploration: the run is not exhaustive.
func (r *Run) Cap(what string) {
	r.mu.Lock()
	defer r.mu.Unlock()
	for _, c := range r.caps {
		if c == what {
			return
		}
	}
	r.caps = append(r.caps, what)
}

func (r *Run) Assume(s string) {
	r.mu.Lock()
	r.assumptions = append(r.assumptions, s)
	r.mu.Unlock()
}

func (r *Run) Bound(k string, v interface{}) {
	r.mu.Lock()
	r.bounds[k] = v
	r.mu.Unlock()
}

// Extra adds a free-form key to the coverage object.
func (r *Run) Extra(k string, v interface{}) {
	r.mu.Lock()
	r.extra[k] = v
	r.mu.Unlock()
}

func (r *Run) Rule(s string) { r.rule = s }

// Sample keeps the first few explored cases verbatim for the evidence file.
func (r *Run) Sample(x interface{}) {
	r.mu.Lock()
	if len(r.samples) < r.maxSamples {
		r.samples = append(r.samples, x)
	}
	r.mu.Unlock()
}

func (r *Run) WantSample() bool {
	r.mu.Lock()
	defer r.mu.Unlock()
	return len(r.samples) < r.maxSamples
}

// Distinct counts distinct observed outcomes (vacuity guard): call it with a canonical
// rendering of what a case produced.
func (r *Run) Distinct(s string) {
	h := sha1.Sum([]byte(s))
	var k [8]byte
	copy(k[:], h[:8])
	r.mu.Lock()
	r.distinct[k] = struct{}{}
	r.mu.Unlock()
}

func (r *Run) DistinctCount() int {
	r.mu.Lock()
	defer r.mu.Unlock()
	return len(r.distinct)
}

// HarnessError records a failure of the machinery itself (not of the property). The run exits 2:
// never a VIOLATION line.
func (r *Run) HarnessError(format string, a ...interface{}) {
	r.mu.Lock()
	r.harnessErr = append(r.harnessErr, fmt.Sprintf(format, a...))
	r.mu.Unlock()
}

// Report records a violation candidate identified by a canonical key. The first report per
// key wins (enumeration is simplest-first, so that is the smallest witness).
func (r *Run) Report(key, what string, replay interface{}) {
	r.mu.Lock()
	defer r.mu.Unlock()
	if _, ok := r.violations[key]; ok {
		return
	}
	r.violations[key] = &violation{Key: key, What: what, Replay: replay}
	r.vorder = append(r.vorder, key)
}

// ViolationCount is the number of distinct keys reported so far.
func (r *Run) ViolationCount() int {
	r.mu.Lock()
	defer r.mu.Unlock()
	return len(r.violations)
}

var unsafeChars = regexp.MustCompile(`[^A-Za-z0-9_.=-]+`)

func replayPath(id, key string) string {
	h := sha1.Sum([]byte(key))
	name := unsafeChars.ReplaceAllString(key, "_")
	if len(name) > 60 {
		name = name[:60]
	}
	return filepath.Join(VerifDir(), "replays", id, name+"-"+hex.EncodeToString(h[:4])+".json")
}

// Finish writes the evidence file, prints KNOWN-FINDING / VIOLATION lines and exits.
func (r *Run) Finish() {
	wall := time.Since(r.start).Seconds()
	keys := append([]string(nil), r.vorder...)
	sort.Strings(keys)
	nviol := 0
	var knownSeen []string
	for _, k := range keys {
		v := r.violations[k]
		if what, ok := r.known[k]; ok {
			fmt.Printf("KNOWN-FINDING: property=%s key=%q %s\n", r.ID, k, what)
			knownSeen = append(knownSeen, k)
			continue
		}
		nviol++
		p := replayPath(r.ID, k)
		os.MkdirAll(filepath.Dir(p), 0o755)
		data, _ := json.MarshalIndent(map[string]interface{}{
			"property": r.ID, "key": k, "what": v.What, "replay": v.Replay, "tier": r.Tier,
		}, "", " ")
		os.WriteFile(p, data, 0o644)
		fmt.Printf("VIOLATION property=%s replay=%s\n", r.ID, p)
		fmt.Printf("  key=%q %s\n", k, v.What)
	}
	states, trans, evals := r.States.Load(), r.Transitions.Load(), r.Evals.Load()
	if evals == 0 {
		evals = trans
	}
	if states == 0 {
		states = evals
	}
	if trans == 0 {
		trans = evals
	}
	cov := map[string]interface{}{
		"states":                        states,
		"transitions":                   trans,
		"traces_validated_against_impl": evals,
		"evaluations":                   evals,
		"distinct_nontrivial":           len(r.distinct),
		"rule":                          r.rule,
		"samples":                       r.samples,
		"exhaustive":                    len(r.caps) == 0,
		"caps_hit":                      r.caps,
		"bounds":                        r.bounds,
		"known_findings_seen":           knownSeen,
	}
	for k, v := range r.extra {
		cov[k] = v
	}
	if len(r.samples) == 0 {
		cov["samples"] = []interface{}{"(no sample recorded)"}
	}
	ev := map[string]interface{}{
		"property_id": r.ID, "tier": r.Tier, "seed": r.Seed, "level": r.Level,
		"coverage": cov, "assumptions": r.assumptions, "wall_s": wall, "violations": nviol,
	}
	data, err := json.MarshalIndent(ev, "", " ")
	if err != nil {
		fmt.Fprintf(os.Stderr, "evidence marshal: %v\n", err)
		os.Exit(2)
	}
	os.MkdirAll(filepath.Join(VerifDir(), "evidence"), 0o755)
	if err := os.WriteFile(filepath.Join(VerifDir(), "evidence", r.ID+".json"), append(data, '\n'), 0o644); err != nil {
		fmt.Fprintf(os.Stderr, "evidence write: %v\n", err)
		os.Exit(2)
	}
	fmt.Printf("%s tier=%s states=%d transitions=%d executions=%d distinct_outcomes=%d exhaustive=%v caps=%v known=%d violations=%d wall=%.1fs\n",
		r.ID, r.Tier, states, trans, evals, len(r.distinct), len(r.caps) == 0, r.caps, len(knownSeen), nviol, wall)
	if len(r.harnessErr) > 0 {
		for _, e := range r.harnessErr {
			fmt.Fprintf(os.Stderr, "HARNESS-ERROR %s: %s\n", r.ID, e)
		}
		os.Exit(2)
	}
	if nviol > 0 {
		os.Exit(1)
	}
	os.Exit(0)
}

// NWorkers is the parallelism to use.
func NWorkers() int {
	if s := os.Getenv("VERIF_WORKERS"); s != "" {
		if v, err := strconv.Atoi(s); err == nil && v > 0 {
			return v
		}
	}
	return 16
}

// ParallelFor runs f(i) for i in [0,n) on NWorkers goroutines, handing out indices in order.
func ParallelFor(n int, f func(i int)) {
	var next atomic.Int64
	var wg sync.WaitGroup
	w := NWorkers()
	if w > n {
		w = n
	}
	for k := 0; k < w; k++ {
		wg.Add(1)
		go func() {
			defer wg.Done()
			for {
				i := int(next.Add(1) - 1)
				if i >= n {
					return
				}
				f(i)
			}
		}()
	}
	wg.Wait()
}

// Recover runs f and returns a description of a panic, "" if none.
func Recover(f func()) (p string) {
	defer func() {
		if e := recover(); e != nil {
			p = fmt.Sprint(e)
		}
	}()
	f()
	return ""
}
