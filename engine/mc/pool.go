//go:build go1.21

package mc

import (
	"bufio"
	"bytes"
	"encoding/json"
	"fmt"
	"io"
	"os"
	"os/exec"
	"sync"
	"time"
)

// A worker subprocess isolates code that may panic in another goroutine, call os.Exit, hang or
// exhaust memory. Protocol: one JSON value per line on stdin (job) and stdout (result).
//
// In main():   if mc.IsWorker() { mc.WorkerMain(handler); return }

func IsWorker() bool { return len(os.Args) > 1 && os.Args[1] == "worker" }

// WorkerMain serves jobs until stdin closes. Anything the handler (or the code under test)
// prints to os.Stdout would corrupt the protocol, so the protocol uses a dup of the original
// stdout and os.Stdout is redirected to stderr.
func WorkerMain(handle func(job json.RawMessage) interface{}) {
	out := os.NewFile(uintptr(dupFd(1)), "proto-out")
	os.Stdout = os.Stderr
	in := bufio.NewReaderSize(os.Stdin, 1<<20)
	w := bufio.NewWriter(out)
	for {
		line, err := in.ReadBytes('\n')
		if len(bytes.TrimSpace(line)) > 0 {
			res := handle(json.RawMessage(line))
			data, merr := json.Marshal(res)
			if merr != nil {
				data, _ = json.Marshal(map[string]string{"marshal_error": merr.Error()})
			}
			w.Write(data)
			w.WriteByte('\n')
			w.Flush()
		}
		if err != nil {
			return
		}
	}
}

// Result of one pooled job.
type Result struct {
	Index  int
	Status string // "ok", "crash", "hang"
	Out    json.RawMessage
	Stderr string // tail of the worker's stderr for crash
}

type worker struct {
	cmd    *exec.Cmd
	in     io.WriteCloser
	out    *bufio.Reader
	stderr *tailBuf
}

type tailBuf struct {
	mu  sync.Mutex
	buf []byte
}

func (t *tailBuf) Write(p []byte) (int, error) {
	t.mu.Lock()
	t.buf = append(t.buf, p...)
	if len(t.buf) > 8192 {
		t.buf = t.buf[len(t.buf)-8192:]
	}
	t.mu.Unlock()
	return len(p), nil
}
func (t *tailBuf) String() string { t.mu.Lock(); defer t.mu.Unlock(); return string(t.buf) }

func startWorker(extraEnv []string) (*worker, error) {
	self, err := os.Executable()
	if err != nil {
		return nil, err
	}
	cmd := exec.Command(self, "worker")
	cmd.Env = append(os.Environ(), extraEnv...)
	in, _ := cmd.StdinPipe()
	outp, _ := cmd.StdoutPipe()
	tb := &tailBuf{}
	cmd.Stderr = tb
	if err := cmd.Start(); err != nil {
		return nil, err
	}
	return &worker{cmd: cmd, in: in, out: bufio.NewReaderSize(outp, 1<<20), stderr: tb}, nil
}

func (w *worker) kill() {
	w.in.Close()
	w.cmd.Process.Kill()
	w.cmd.Wait()
}

// Pool keeps worker subprocesses alive across several Run calls (workers usually cache compiled
// artefacts, so respawning them per call is wasteful).
type Pool struct {
	n        int
	extraEnv []string
	mu       sync.Mutex
	idle     []*worker
	// Retire, when set, is asked after every successful job whether the worker that produced
	// this output must not be reused (its process state may be spoiled); it is then killed.
	Retire func(out json.RawMessage) bool
}

func NewPool(nproc int, extraEnv []string) *Pool { return &Pool{n: nproc, extraEnv: extraEnv} }

func (p *Pool) get() (*worker, error) {
	p.mu.Lock()
	if k := len(p.idle); k > 0 {
		w := p.idle[k-1]
		p.idle = p.idle[:k-1]
		p.mu.Unlock()
		return w, nil
	}
	p.mu.Unlock()
	return startWorker(p.extraEnv)
}

func (p *Pool) put(w *worker) {
	p.mu.Lock()
	p.idle = append(p.idle, w)
	p.mu.Unlock()
}

// Close kills all idle workers.
func (p *Pool) Close() {
	p.mu.Lock()
	for _, w := range p.idle {
		w.kill()
	}
	p.idle = nil
	p.mu.Unlock()
}

// RunPool is a one-shot Pool.
func RunPool(nproc int, njobs int, job func(i int) interface{}, horizon time.Duration, extraEnv []string, handle func(Result)) error {
	p := NewPool(nproc, extraEnv)
	defer p.Close()
	return p.Run(njobs, job, horizon, handle)
}

// Run feeds job(i) (any JSON-marshalable value) for i in [0,njobs) to the pool's worker
// subprocesses and calls handle for every result, from multiple goroutines. A worker that dies or
// exceeds horizon on a job is replaced; the job is reported as "crash" or "hang". horizon
// classifies hangs only and must be orders of magnitude above the normal cost of a job.
func (p *Pool) Run(njobs int, job func(i int) interface{}, horizon time.Duration, handle func(Result)) error {
	var mu sync.Mutex
	next := 0
	var wg sync.WaitGroup
	var firstErr error
	nproc := p.n
	if nproc > njobs {
		nproc = njobs
	}
	for k := 0; k < nproc; k++ {
		wg.Add(1)
		go func() {
			defer wg.Done()
			var w *worker
			defer func() {
				if w != nil {
					p.put(w)
				}
			}()
			for {
				mu.Lock()
				i := next
				next++
				mu.Unlock()
				if i >= njobs {
					return
				}
				if w == nil {
					var err error
					w, err = p.get()
					if err != nil {
						mu.Lock()
						firstErr = err
						mu.Unlock()
						return
					}
				}
				data, err := json.Marshal(job(i))
				if err != nil {
					mu.Lock()
					firstErr = fmt.Errorf("job %d marshal: %v", i, err)
					mu.Unlock()
					return
				}
				type rd struct {
					line []byte
					err  error
				}
				ch := make(chan rd, 1)
				go func(w *worker) {
					if _, err := w.in.Write(append(data, '\n')); err != nil {
						ch <- rd{nil, err}
						return
					}
					line, err := w.out.ReadBytes('\n')
					ch <- rd{line, err}
				}(w)
				select {
				case r := <-ch:
					if r.err != nil || len(bytes.TrimSpace(r.line)) == 0 {
						w.in.Close()
						w.cmd.Wait()
						handle(Result{Index: i, Status: "crash", Stderr: w.stderr.String()})
						w = nil
					} else {
						if p.Retire != nil && p.Retire(json.RawMessage(r.line)) {
							w.kill()
							w = nil
						}
						handle(Result{Index: i, Status: "ok", Out: json.RawMessage(r.line)})
					}
				case <-time.After(horizon):
					se := w.stderr.String()
					w.kill()
					w = nil
					handle(Result{Index: i, Status: "hang", Stderr: se})
				}
			}
		}()
	}
	wg.Wait()
	return firstErr
}
