//go:build go1.21

package mc

import "syscall"

func dupFd(fd int) int {
	n, err := syscall.Dup(fd)
	if err != nil {
		panic(err)
	}
	return n
}
