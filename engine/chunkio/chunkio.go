//go:build go1.21

// Package chunkio is the controlled transport of the stream checks (C25 SLIP, C26 DAP): an
// io.Reader over a fixed byte stream whose Read results are decided by the check, and the
// exhaustive enumeration of "chunkings" by deviation count.
//
// The default behaviour is "everything that is left is available": Read(p) returns
// min(len(p), remaining) bytes. One deviation is one extra split point: a position c
// (0 < c < len) that no single Read result ever crosses. The all-one-byte chunking (every position is
// a split point) is enumerated last.
//
// Outside the domain on purpose: Read never returns (0, nil) and never returns (n>0, io.EOF);
// the end of the stream is reported by a separate (0, io.EOF).
package chunkio

import (
	"fmt"
	"io"
)

// PastEnd is the panic value raised when the consumer keeps calling Read after it has been told
// io.EOF more than MaxEOF times (a consumer that spins on EOF would otherwise never return).
type PastEnd struct{ Reads int }

func (p PastEnd) Error() string {
	return fmt.Sprintf("consumer called Read %d times after the end of the stream", p.Reads)
}

type Reader struct {
	data []byte
	pos  int
	cuts []int // ascending split points, each in (0, len(data))
	ci   int
	ones bool
	eofs int
	// MaxEOF > 0: panic(PastEnd) when io.EOF was already returned MaxEOF times.
	MaxEOF int
	// Reads counts Read calls that delivered data.
	Reads int
}

// Reset rewinds the reader onto data with the given chunking. cuts must be ascending.
func (r *Reader) Reset(data []byte, cuts []int, ones bool) {
	r.data, r.pos, r.cuts, r.ci, r.ones, r.eofs, r.Reads = data, 0, cuts, 0, ones, 0, 0
}

// Remaining is the number of bytes not yet delivered.
func (r *Reader) Remaining() int { return len(r.data) - r.pos }

func (r *Reader) Read(p []byte) (int, error) {
	if len(p) == 0 {
		return 0, nil
	}
	if r.pos >= len(r.data) {
		if r.MaxEOF > 0 && r.eofs >= r.MaxEOF {
			panic(PastEnd{r.eofs + 1})
		}
		r.eofs++
		return 0, io.EOF
	}
	limit := len(r.data)
	if r.ones {
		limit = r.pos + 1
	} else {
		for r.ci < len(r.cuts) && r.cuts[r.ci] <= r.pos {
			r.ci++
		}
		if r.ci < len(r.cuts) {
			limit = r.cuts[r.ci]
		}
	}
	n := limit - r.pos
	if n > len(p) {
		n = len(p)
	}
	copy(p, r.data[r.pos:r.pos+n])
	r.pos += n
	r.Reads++
	return n, nil
}

// Count is the number of chunkings ForEach enumerates for a stream of n bytes.
func Count(n, maxSplits int) int64 {
	if n <= 0 {
		return 1
	}
	m := int64(n - 1)
	c := int64(1)
	if maxSplits >= 1 {
		c += m
	}
	if maxSplits >= 2 {
		c += m * (m - 1) / 2
	}
	if maxSplits >= 3 {
		c += m * (m - 1) * (m - 2) / 6
	}
	return c + 1
}

// ForEach enumerates, simplest first: no split; every single split point; every pair; (every
// triple when maxSplits is 3); finally the all-one-byte chunking (cuts == nil, ones == true).
// The cuts slice is reused between calls. f returns false to stop.
func ForEach(n, maxSplits int, f func(cuts []int, ones bool) bool) {
	var buf [3]int
	if !f(buf[:0], false) {
		return
	}
	if maxSplits >= 1 {
		for a := 1; a < n; a++ {
			buf[0] = a
			if !f(buf[:1], false) {
				return
			}
		}
	}
	if maxSplits >= 2 {
		for a := 1; a < n; a++ {
			for b := a + 1; b < n; b++ {
				buf[0], buf[1] = a, b
				if !f(buf[:2], false) {
					return
				}
			}
		}
	}
	if maxSplits >= 3 {
		for a := 1; a < n; a++ {
			for b := a + 1; b < n; b++ {
				for c := b + 1; c < n; c++ {
					buf[0], buf[1], buf[2] = a, b, c
					if !f(buf[:3], false) {
						return
					}
				}
			}
		}
	}
	f(nil, true)
}

// Class names the chunking class used in violation keys.
func Class(cuts []int, ones bool) string {
	if ones {
		return "one-byte-reads"
	}
	switch len(cuts) {
	case 0:
		return "unsplit"
	case 1:
		return "1-split"
	case 2:
		return "2-splits"
	}
	return fmt.Sprintf("%d-splits", len(cuts))
}

// SelfTest checks the reader against its own contract on a small stream; returns "" when fine.
func SelfTest() string {
	data := []byte("abcdefghij")
	total := 0
	ForEach(len(data), 2, func(cuts []int, ones bool) bool {
		total++
		var r Reader
		r.Reset(data, cuts, ones)
		var got []byte
		pos := 0
		for _, bufLen := range []int{3, 64, 1, 64, 64, 64, 64, 64, 64, 64, 64, 64} {
			p := make([]byte, bufLen)
			n, err := r.Read(p)
			if err == io.EOF {
				break
			}
			if n == 0 || err != nil {
				total = -1000000
				return false
			}
			for _, c := range cuts {
				if pos < c && pos+n > c {
					total = -1000000 // a read crossed a split point
					return false
				}
			}
			if ones && n != 1 {
				total = -1000000
				return false
			}
			got = append(got, p[:n]...)
			pos += n
		}
		if string(got) != string(data) {
			total = -1000000
			return false
		}
		return true
	})
	if int64(total) != Count(len(data), 2) || total != 1+9+36+1 {
		return fmt.Sprintf("chunkio self-test failed (total=%d)", total)
	}
	return ""
}
