//go:build go1.21

// Package wrun runs batches of small test cases through the real Wa pipeline and through Go.
//
// A batch is ONE Go source file (package main, WaGo subset) that defines functions
// Case0 … Case{n-1} taking no arguments and printing with the builtin println/print. The same
// text is
//   - compiled and run by Go (reference): a generated driver calls every case under recover;
//   - translated to .wa syntax by the repository's own go2wa path (parser in WaGo mode +
//     format.DevFormat), given `#wa:export case_<i>` directives, compiled by the real pipeline
//     (api.BuildFile -> watutil.Wat2Wasm -> internal/wazero) and each case called on its own.
package wrun

import (
	"crypto/sha256"
	"encoding/hex"
	"fmt"
	"os"
	"os/exec"
	"path/filepath"
	"regexp"
	"strconv"
	"strings"
	"sync"

	"wa-lang.org/wa/api"
	"wa-lang.org/wa/internal/format"
	"wa-lang.org/wa/internal/parser"
	"wa-lang.org/wa/internal/token"
	"wa-lang.org/wa/internal/wat/watutil"
	"wa-lang.org/wa/internal/wazero"
	"wa-lang.org/wa/internal/zzverif/mc"
)

// CaseResult is the observable outcome of one case on one side.
type CaseResult struct {
	Out    string // everything printed
	Status string // "ok", "panic" (Go) / "trap" (Wa; Err holds the first line), "missing"
	Err    string
}

var caseFuncRe = regexp.MustCompile(`(?m)^func Case(\d+)\(\)`)

// NumCases counts CaseN functions in src.
func NumCases(src string) int {
	return len(caseFuncRe.FindAllString(src, -1))
}

// Go2Wa translates WaGo source to .wa syntax with the repository's own converter and adds the
// export directives.
func Go2Wa(goSrc string) (wa string, err error) {
	if p := mc.Recover(func() {
		fset := token.NewFileSet()
		f, e := parser.ParseFile(nil, fset, "batch.wa.go", []byte(goSrc), parser.ParseComments)
		if e != nil {
			err = fmt.Errorf("go2wa parse: %v", e)
			return
		}
		f.Name.Name = ""
		out, e := format.DevFormat(fset, f, []byte(goSrc))
		if e != nil {
			err = fmt.Errorf("go2wa format: %v", e)
			return
		}
		wa = string(out)
	}); p != "" {
		return "", fmt.Errorf("go2wa panic: %s", p)
	}
	if err != nil {
		return "", err
	}
	wa = caseFuncRe.ReplaceAllStringFunc(wa, func(m string) string {
		n := caseFuncRe.FindStringSubmatch(m)[1]
		return "#wa:export case_" + n + "\n" + m
	})
	return wa, nil
}

// WaProg is a compiled Wa program.
type WaProg struct {
	Name string
	Wat  []byte
	Wasm []byte
	Fset []byte
	mod  *wazero.Module
}

// CompileWa runs the real front end and WAT backend and assembles the result.
func CompileWa(filename, src string) (p *WaProg, err error) {
	if pn := mc.Recover(func() {
		_, wat, fset, e := api.BuildFile(api.DefaultConfig(), filename, src)
		if e != nil {
			err = fmt.Errorf("compile: %v", e)
			return
		}
		wasm, e := watutil.Wat2Wasm(filename, wat)
		if e != nil {
			err = fmt.Errorf("wat2wasm: %v", e)
			return
		}
		p = &WaProg{Name: filename, Wat: wat, Wasm: wasm, Fset: fset}
	}); pn != "" {
		return nil, fmt.Errorf("compiler panic: %s", pn)
	}
	return
}

func (p *WaProg) Close() {
	if p.mod != nil {
		p.mod.Close()
		p.mod = nil
	}
}

// Call runs one exported function on the embedded engine. A fresh module instance is built
// after any trap so one trapping case cannot influence the following ones.
func (p *WaProg) Call(name string) (res CaseResult) {
	if p.mod == nil {
		m, err := wazero.BuildModule(p.Name, p.Wasm, p.Fset)
		if err != nil {
			return CaseResult{Status: "trap", Err: "build module: " + err.Error()}
		}
		p.mod = m
	}
	var so, se []byte
	var err error
	if pn := mc.Recover(func() { _, so, se, err = p.mod.RunFunc(name) }); pn != "" {
		p.Close()
		return CaseResult{Status: "trap", Err: "host panic: " + pn}
	}
	res.Out = string(so) + string(se)
	if err != nil {
		res.Status = "trap"
		res.Err = firstLine(err.Error())
		p.Close()
		return
	}
	res.Status = "ok"
	return
}

func firstLine(s string) string {
	if i := strings.IndexByte(s, '\n'); i >= 0 {
		return s[:i]
	}
	return s
}

// RunWaBatch translates, compiles and runs all n cases of a batch. Not isolated: call it inside
// a worker subprocess when the compiler may os.Exit or hang.
func RunWaBatch(goSrc string, n int) (res []CaseResult, waSrc string, err error) {
	waSrc, err = Go2Wa(goSrc)
	if err != nil {
		return nil, "", err
	}
	p, err := CompileWa("batch.wa", waSrc)
	if err != nil {
		return nil, waSrc, err
	}
	defer p.Close()
	res = make([]CaseResult, n)
	for i := 0; i < n; i++ {
		res[i] = p.Call("case_" + strconv.Itoa(i))
	}
	return res, waSrc, nil
}

// ---------------------------------------------------------------------------------------------
// Go reference

func goDriver(n int) string {
	var b strings.Builder
	b.WriteString("package main\n\nfunc zzRunCase(i int, f func()) {\n\tprint(\"\\x01B \", i, \"\\n\")\n\tdefer func() {\n\t\tif e := recover(); e != nil {\n\t\t\tprint(\"\\n\\x01P \", i, \"\\n\")\n\t\t} else {\n\t\t\tprint(\"\\n\\x01E \", i, \"\\n\")\n\t\t}\n\t}()\n\tf()\n}\n\nfunc main() {\n")
	for i := 0; i < n; i++ {
		fmt.Fprintf(&b, "\tzzRunCase(%d, Case%d)\n", i, i)
	}
	b.WriteString("}\n")
	return b.String()
}

var goSem = make(chan struct{}, 12)
var goCacheMu sync.Mutex

// GoRef builds and runs the batch with the host Go toolchain and returns per-case results.
// Results are cached under <verif>/cache/goref keyed by the source hash: the reference does not
// depend on /repo.
func GoRef(goSrc string, n int) ([]CaseResult, error) {
	drv := goDriver(n)
	h := sha256.Sum256([]byte("v2\x00" + goSrc + "\x00" + drv))
	key := hex.EncodeToString(h[:16])
	cdir := filepath.Join(mc.VerifDir(), "cache", "goref")
	cfile := filepath.Join(cdir, key+".out")
	if data, err := os.ReadFile(cfile); err == nil {
		if res, err := parseGoOut(string(data), n); err == nil {
			return res, nil
		}
	}
	goSem <- struct{}{}
	defer func() { <-goSem }()
	dir, err := os.MkdirTemp("", "vgoref-")
	if err != nil {
		return nil, err
	}
	defer os.RemoveAll(dir)
	os.WriteFile(filepath.Join(dir, "go.mod"), []byte("module batch\n\ngo 1.21\n"), 0o644)
	os.WriteFile(filepath.Join(dir, "batch.go"), []byte(goSrc), 0o644)
	os.WriteFile(filepath.Join(dir, "zz_driver.go"), []byte(drv), 0o644)
	build := exec.Command("go", "build", "-o", "batch.bin", ".")
	build.Dir = dir
	build.Env = append(os.Environ(), "GOFLAGS=-mod=mod", "GOPROXY=off", "GOSUMDB=off", "GOTOOLCHAIN=local", "GOWORK=off")
	if out, err := build.CombinedOutput(); err != nil {
		return nil, fmt.Errorf("go build of reference failed: %v\n%s", err, tail(string(out), 2000))
	}
	run := exec.Command(filepath.Join(dir, "batch.bin"))
	run.Dir = dir
	out, err := run.CombinedOutput()
	if err != nil {
		return nil, fmt.Errorf("reference run failed: %v\n%s", err, tail(string(out), 2000))
	}
	res, err := parseGoOut(string(out), n)
	if err != nil {
		return nil, err
	}
	goCacheMu.Lock()
	os.MkdirAll(cdir, 0o755)
	os.WriteFile(cfile, out, 0o644)
	goCacheMu.Unlock()
	return res, nil
}

func tail(s string, n int) string {
	if len(s) > n {
		return s[len(s)-n:]
	}
	return s
}

func parseGoOut(out string, n int) ([]CaseResult, error) {
	res := make([]CaseResult, n)
	for i := range res {
		res[i].Status = "missing"
	}
	rest := out
	for {
		i := strings.Index(rest, "\x01B ")
		if i < 0 {
			break
		}
		rest = rest[i+3:]
		nl := strings.IndexByte(rest, '\n')
		if nl < 0 {
			return nil, fmt.Errorf("reference output: truncated begin marker")
		}
		idx, err := strconv.Atoi(rest[:nl])
		if err != nil || idx < 0 || idx >= n {
			return nil, fmt.Errorf("reference output: bad case index %q", rest[:nl])
		}
		rest = rest[nl+1:]
		e := strings.Index(rest, "\n\x01")
		if e < 0 {
			return nil, fmt.Errorf("reference output: case %d has no end marker", idx)
		}
		body := rest[:e]
		kind := rest[e+2]
		switch kind {
		case 'E':
			res[idx] = CaseResult{Out: body, Status: "ok"}
		case 'P':
			res[idx] = CaseResult{Out: body, Status: "panic"}
		default:
			return nil, fmt.Errorf("reference output: bad end marker for case %d", idx)
		}
		rest = rest[e+2:]
	}
	return res, nil
}
