//go:build go1.21

package wrun

import (
	"bytes"
	"fmt"
	"os"
	"os/exec"
	"path/filepath"
	"strings"
	"syscall"
	"time"
)

// RunNativeBatch builds the batch as a linux/x64 executable with the real CLI
// (`wa native build --arch=x64`, binary path in $VERIF_WA_BIN, built from the current tree by the
// check) and runs it. main calls every case in order, printing a case separator after each; when
// the process dies in case k the cases after k come back with Status "missing".
func RunNativeBatch(goSrc string, n int) (res []CaseResult, waSrc string, err error) {
	waBin := os.Getenv("VERIF_WA_BIN")
	if waBin == "" {
		return nil, "", fmt.Errorf("VERIF_WA_BIN not set")
	}
	var b strings.Builder
	b.WriteString(goSrc)
	b.WriteString("\nfunc main() {\n")
	for i := 0; i < n; i++ {
		fmt.Fprintf(&b, "\tCase%d()\n\tprint(\"\\x03\\n\")\n", i)
	}
	b.WriteString("}\n")
	waSrc, err = Go2Wa(b.String())
	if err != nil {
		return nil, "", err
	}
	dir, err := os.MkdirTemp("", "vnative-")
	if err != nil {
		return nil, waSrc, err
	}
	defer os.RemoveAll(dir)
	src := filepath.Join(dir, "prog.wa")
	os.WriteFile(src, []byte(waSrc), 0o644)
	exe := filepath.Join(dir, "prog.exe")
	build := exec.Command(waBin, "native", "build", "--arch=x64", "--target=linux", "-o", exe, src)
	build.Dir = dir
	if out, err := runTimed(build, 5*time.Minute); err != nil {
		return nil, waSrc, fmt.Errorf("wa native build: %v: %s", err, tail(out, 800))
	}
	run := exec.Command(exe)
	run.Dir = dir
	out, rerr := runTimed(run, 2*time.Minute)
	res = make([]CaseResult, n)
	parts := strings.Split(out, "\x03\n")
	for i := 0; i < n; i++ {
		switch {
		case i < len(parts)-1:
			res[i] = CaseResult{Out: parts[i], Status: "ok"}
		case i == len(parts)-1 && (rerr != nil || parts[i] != ""):
			res[i] = CaseResult{Out: parts[i], Status: "trap", Err: describeExit(rerr)}
		default:
			res[i] = CaseResult{Status: "missing"}
		}
	}
	if rerr == nil && len(parts)-1 < n {
		// exited normally without running every case
		res[len(parts)-1] = CaseResult{Out: parts[len(parts)-1], Status: "trap", Err: "process exited 0 before all cases ran"}
	}
	return res, waSrc, nil
}

func describeExit(err error) string {
	if err == nil {
		return "exit 0"
	}
	if ee, ok := err.(*exec.ExitError); ok {
		if ws, ok := ee.Sys().(syscall.WaitStatus); ok && ws.Signaled() {
			return "signal: " + ws.Signal().String()
		}
		return fmt.Sprintf("exit status %d", ee.ExitCode())
	}
	return err.Error()
}

func runTimed(c *exec.Cmd, d time.Duration) (string, error) {
	var buf bytes.Buffer
	c.Stdout, c.Stderr = &buf, &buf
	if err := c.Start(); err != nil {
		return "", err
	}
	done := make(chan error, 1)
	go func() { done <- c.Wait() }()
	select {
	case err := <-done:
		return buf.String(), err
	case <-time.After(d):
		c.Process.Kill()
		<-done
		return buf.String(), fmt.Errorf("timeout after %v", d)
	}
}
