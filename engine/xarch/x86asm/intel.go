// Copyright 2014 The Go Authors.  All rights reserved.
// Use of this source code is governed by a BSD-style
// license that can be found in the LICENSE file.

package x86asm

import (
	"fmt"
	"strings"
)

// IntelSyntax returns the Intel assembler syntax for the instruction, as defined by Intel's XED tool.
func IntelSyntax(inst Inst, pc uint64, symname SymLookup) string {
	if symname == nil {
		symname = func(uint64) (string, uint64) { return "", 0 }
	}

	var iargs []Arg
	for _, a := range inst.Args {
		if a == nil {
			break
		}
		iargs = append(iargs, a)
	}

	switch inst.Op {
	case INSB, INSD, INSW, OUTSB, OUTSD, OUTSW, LOOPNE, JCXZ, JECXZ, JRCXZ, LOOP, LOOPE, MOV, XLATB:
		if inst.Op == MOV && (inst.Opcode>>16)&0xFFFC != 0x0F20 {
			break
		}
		for i, p := range inst.Prefix {
			if p&0xFF == PrefixAddrSize {
				inst.Prefix[i] &^= PrefixImplicit
			}
		}
	}

	switch inst.Op {
	case MOV:
		dst, _ := inst.Args[0].(Reg)
		src, _ := inst.Args[1].(Reg)
		if ES <= dst && dst <= GS && EAX <= src && src <= R15L {
			src -= EAX - AX
			iargs[1] = src
		}
		if ES <= dst && dst <= GS && RAX <= src && src <= R15 {
			src -= RAX - AX
			iargs[1] = src
		}

		if inst.Opcode>>24&^3 == 0xA0 {
			for i, p := range inst.Prefix {
				if p&0xFF == PrefixAddrSize {
					inst.Prefix[i] |= PrefixImplicit
				}
			}
		}
	}

	switch inst.Op {
	case AAM, AAD:
		if imm, ok := iargs[0].(Imm); ok {
			if inst.DataSize == 32 {
				iargs[0] = Imm(uint32(int8(imm)))
			} else if inst.DataSize == 16 {
				iargs[0] = Imm(uint16(int8(imm)))
			}
		}

	case PUSH:
		if imm, ok := iargs[0].(Imm); ok {
			iargs[0] = Imm(uint32(imm))
		}
	}

	for _, p := range inst.Prefix {
		if p&PrefixImplicit != 0 {
			for j, pj := range inst.Prefix {
				if pj&0xFF == p&0xFF {
					inst.Prefix[j] |= PrefixImplicit
				}
			}
		}
	}

	if inst.Op != 0 {
		for i, p := range inst.Prefix {
			switch p &^ PrefixIgnored {
			case PrefixData16, PrefixData32, PrefixCS, PrefixDS, PrefixES, PrefixSS:
				inst.Prefix[i] |= PrefixImplicit
			}
			if p.IsREX() {
				inst.Prefix[i] |= PrefixImplicit
			}
			if p.IsVEX() {
				if p == PrefixVEX3Bytes {
					inst.Prefix[i+2] |= PrefixImplicit
				}
				inst.Prefix[i] |= PrefixImplicit
				inst.Prefix[i+1] |= PrefixImplicit
			}
		}
	}

	if isLoop[inst.Op] || inst.Op == JCXZ || inst.Op == JECXZ || inst.Op == JRCXZ {
		for i, p := range inst.Prefix {
			if p == PrefixPT || p == PrefixPN {
				inst.Prefix[i] |= PrefixImplicit
			}
		}
	}

	switch inst.Op {
	case AAA, AAS, CBW, CDQE, CLC, CLD, CLI, CLTS, CMC, CPUID, CQO, CWD, DAA, DAS,
		FDECSTP, FINCSTP, FNCLEX, FNINIT, FNOP, FWAIT, HLT,
		ICEBP, INSB, INSD, INSW, INT, INTO, INVD, IRET, IRETQ,
		LAHF, LEAVE, LRET, MONITOR, MWAIT, NOP, OUTSB, OUTSD, OUTSW,
		PAUSE, POPA, POPF, POPFQ, PUSHA, PUSHF, PUSHFQ,
		RDMSR, RDPMC, RDTSC, RDTSCP, RET, RSM,
		SAHF, STC, STD, STI, SYSENTER, SYSEXIT, SYSRET,
		UD2, WBINVD, WRMSR, XEND, XLATB, XTEST:

		if inst.Op == NOP && inst.Opcode>>24 != 0x90 {
			break
		}
		if inst.Op == RET && inst.Opcode>>24 != 0xC3 {
			break
		}
		if inst.Op == INT && inst.Opcode>>24 != 0xCC {
			break
		}
		if inst.Op == LRET && inst.Opcode>>24 != 0xcb {
			break
		}
		for i, p := range inst.Prefix {
			if p&0xFF == PrefixDataSize {
				inst.Prefix[i] &^= PrefixImplicit | PrefixIgnored
			}
		}

	case 0:
		// ok
	}

	switch inst.Op {
	case INSB, INSD, INSW, OUTSB, OUTSD, OUTSW, MONITOR, MWAIT, XLATB:
		iargs = nil

	case STOSB, STOSW, STOSD, STOSQ:
		iargs = iargs[:1]

	case LODSB, LODSW, LODSD, LODSQ, SCASB, SCASW, SCASD, SCASQ:
		iargs = iargs[1:]
	}

	const (
		haveData16 = 1 << iota
		haveData32
		haveAddr16
		haveAddr32
		haveXacquire
		haveXrelease
		haveLock
		haveHintTaken
		haveHintNotTaken
		haveBnd
	)
	var prefixBits uint32
	prefix := ""
	for _, p := range inst.Prefix {
		if p == 0 {
			break
		}
		if p&0xFF == 0xF3 {
			prefixBits &^= haveBnd
		}
		if p&(PrefixImplicit|PrefixIgnored) != 0 {
			continue
		}
		switch p {
		default:
			prefix += strings.ToLower(p.String()) + " "
		case PrefixCS, PrefixDS, PrefixES, PrefixFS, PrefixGS, PrefixSS:
			if inst.Op == 0 {
				prefix += strings.ToLower(p.String()) + " "
			}
		case PrefixREPN:
			prefix += "repne "
		case PrefixLOCK:
			prefixBits |= haveLock
		case PrefixData16, PrefixDataSize:
			prefixBits |= haveData16
		case PrefixData32:
			prefixBits |= haveData32
		case PrefixAddrSize, PrefixAddr16:
			prefixBits |= haveAddr16
		case PrefixAddr32:
			prefixBits |= haveAddr32
		case PrefixXACQUIRE:
			prefixBits |= haveXacquire
		case PrefixXRELEASE:
			prefixBits |= haveXrelease
		case PrefixPT:
			prefixBits |= haveHintTaken
		case PrefixPN:
			prefixBits |= haveHintNotTaken
		case PrefixBND:
			prefixBits |= haveBnd
		}
	}
	switch inst.Op {
	case JMP:
		if inst.Opcode>>24 == 0xEB {
			prefixBits &^= haveBnd
		}
	case RET, LRET:
		prefixBits &^= haveData16 | haveData32
	}

	if prefixBits&haveXacquire != 0 {
		prefix += "xacquire "
	}
	if prefixBits&haveXrelease != 0 {
		prefix += "xrelease "
	}
	if prefixBits&haveLock != 0 {
		prefix += "lock "
	}
	if prefixBits&haveBnd != 0 {
		prefix += "bnd "
	}
	if prefixBits&haveHintTaken != 0 {
		prefix += "hint-taken "
	}
	if prefixBits&haveHintNotTaken != 0 {
		prefix += "hint-not-taken "
	}
	if prefixBits&haveAddr16 != 0 {
		prefix += "addr16 "
	}
	if prefixBits&haveAddr32 != 0 {
		prefix += "addr32 "
	}
	if prefixBits&haveData16 != 0 {
		prefix += "data16 "
	}
	if prefixBits&haveData32 != 0 {
		prefix += "data32 "
	}

	if inst.Op == 0 {
		if prefix == "" {
			return "<no instruction>"
		}
		return prefix[:len(prefix)-1]
	}

	var args []string
	for _, a := range iargs {
		if a == nil {
			break
		}
		args = append(args, intelArg(&inst, pc, symname, a))
	}

	var op string
	switch inst.Op {
	case NOP:
		if inst.Opcode>>24 == 0x0F {
			if inst.DataSize == 16 {
				args = append(args, "ax")
			} else {
				args = append(args, "eax")
			}
		}

	case BLENDVPD, BLENDVPS, PBLENDVB:
		args = args[:2]

	case INT:
		if inst.Opcode>>24 == 0xCC {
			args = nil
			op = "int3"
		}

	case LCALL, LJMP:
		if len(args) == 2 {
			args[0], args[1] = args[1], args[0]
		}

	case FCHS, FABS, FTST, FLDPI, FLDL2E, FLDLG2, F2XM1, FXAM, FLD1, FLDL2T, FSQRT, FRNDINT, FCOS, FSIN:
		if len(args) == 0 {
			args = append(args, "st0")
		}

	case FPTAN, FSINCOS, FUCOMPP, FCOMPP, FYL2X, FPATAN, FXTRACT, FPREM1, FPREM, FYL2XP1, FSCALE:
		if len(args) == 0 {
			args = []string{"st0", "st1"}
		}

	case FST, FSTP, FISTTP, FIST, FISTP, FBSTP:
		if len(args) == 1 {
			args = append(args, "st0")
		}

	case FLD, FXCH, FCOM, FCOMP, FIADD, FIMUL, FICOM, FICOMP, FISUBR, FIDIV, FUCOM, FUCOMP, FILD, FBLD, FADD, FMUL, FSUB, FSUBR, FISUB, FDIV, FDIVR, FIDIVR:
		if len(args) == 1 {
			args = []string{"st0", args[0]}
		}

	case MASKMOVDQU, MASKMOVQ, XLATB, OUTSB, OUTSW, OUTSD:
	FixSegment:
		for i := len(inst.Prefix) - 1; i >= 0; i-- {
			p := inst.Prefix[i] & 0xFF
			switch p {
			case PrefixCS, PrefixES, PrefixFS, PrefixGS, PrefixSS:
				if inst.Mode != 64 || p == PrefixFS || p == PrefixGS {
					args = append(args, strings.ToLower((inst.Prefix[i] & 0xFF).String()))
					break FixSegment
				}
			case PrefixDS:
				if inst.Mode != 64 {
					break FixSegment
				}
			}
		}
	}

	if op == "" {
		op = intelOp[inst.Op]
	}
	if op == "" {
		op = strings.ToLower(inst.Op.String())
	}
	if args != nil {
		op += " " + strings.Join(args, ", ")
	}
	return prefix + op
}

func intelArg(inst *Inst, pc uint64, symname SymLookup, arg Arg) string {
	switch a := arg.(type) {
	case Imm:
		if (inst.Op == MOV || inst.Op == PUSH) && inst.DataSize == 32 { // See comment in plan9x.go.
			if s, base := symname(uint64(a)); s != "" {
				suffix := ""
				if uint64(a) != base {
					suffix = fmt.Sprintf("%+d", uint64(a)-base)
				}
				return fmt.Sprintf("$%s%s", s, suffix)
			}
		}
		if inst.Mode == 32 {
			return fmt.Sprintf("%#x", uint32(a))
		}
		if Imm(int32(a)) == a {
			return fmt.Sprintf("%#x", int64(a))
		}
		return fmt.Sprintf("%#x", uint64(a))
	case Mem:
		if a.Base == EIP {
			a.Base = RIP
		}
		prefix := ""
		switch inst.MemBytes {
		case 1:
			prefix = "byte "
		case 2:
			prefix = "word "
		case 4:
			prefix = "dword "
		case 8:
			prefix = "qword "
		case 16:
			prefix = "xmmword "
		case 32:
			prefix = "ymmword "
		}
		switch inst.Op {
		case INVLPG:
			prefix = "byte "
		case STOSB, MOVSB, CMPSB, LODSB, SCASB:
			prefix = "byte "
		case STOSW, MOVSW, CMPSW, LODSW, SCASW:
			prefix = "word "
		case STOSD, MOVSD, CMPSD, LODSD, SCASD:
			prefix = "dword "
		case STOSQ, MOVSQ, CMPSQ, LODSQ, SCASQ:
			prefix = "qword "
		case LAR:
			prefix = "word "
		case BOUND:
			if inst.Mode == 32 {
				prefix = "qword "
			} else {
				prefix = "dword "
			}
		case PREFETCHW, PREFETCHNTA, PREFETCHT0, PREFETCHT1, PREFETCHT2, CLFLUSH:
			prefix = "zmmword "
		}
		switch inst.Op {
		case MOVSB, MOVSW, MOVSD, MOVSQ, CMPSB, CMPSW, CMPSD, CMPSQ, STOSB, STOSW, STOSD, STOSQ, SCASB, SCASW, SCASD, SCASQ, LODSB, LODSW, LODSD, LODSQ:
			switch a.Base {
			case DI, EDI, RDI:
				if a.Segment == ES {
					a.Segment = 0
				}
			case SI, ESI, RSI:
				if a.Segment == DS {
					a.Segment = 0
				}
			}
		case LEA:
			a.Segment = 0
		default:
			switch a.Base {
			case SP, ESP, RSP, BP, EBP, RBP:
				if a.Segment == SS {
					a.Segment = 0
				}
			default:
				if a.Segment == DS {
					a.Segment = 0
				}
			}
		}

		if inst.Mode == 64 && a.Segment != FS && a.Segment != GS {
			a.Segment = 0
		}

		prefix += "ptr "
		if s, disp := memArgToSymbol(a, pc, inst.Len, symname); s != "" {
			suffix := ""
			if disp != 0 {
				suffix = fmt.Sprintf("%+d", disp)
			}
			return prefix + fmt.Sprintf("[%s%s]", s, suffix)
		}
		if a.Segment != 0 {
			prefix += strings.ToLower(a.Segment.String()) + ":"
		}
		prefix += "["
		if a.Base != 0 {
			prefix += intelArg(inst, pc, symname, a.Base)
		}
		if a.Scale != 0 && a.Index != 0 {
			if a.Base != 0 {
				prefix += "+"
			}
			prefix += fmt.Sprintf("%s*%d", intelArg(inst, pc, symname, a.Index), a.Scale)
		}
		if a.Disp != 0 {
			if prefix[len(prefix)-1] == '[' && (a.Disp >= 0 || int64(int32(a.Disp)) != a.Disp) {
				prefix += fmt.Sprintf("%#x", uint64(a.Disp))
			} else {
				prefix += fmt.Sprintf("%+#x", a.Disp)
			}
		}
		prefix += "]"
		return prefix
	case Rel:
		if pc == 0 {
			return fmt.Sprintf(".%+#x", int64(a))
		} else {
			addr := pc + uint64(inst.Len) + uint64(a)
			if s, base := symname(addr); s != "" && addr == base {
				return fmt.Sprintf("%s", s)
			} else {
				addr := pc + uint64(inst.Len) + uint64(a)
				return fmt.Sprintf("%#x", addr)
			}
		}
	case Reg:
		if int(a) < len(intelReg) && intelReg[a] != "" {
			switch inst.Op {
			case VMOVDQA, VMOVDQU, VMOVNTDQA, VMOVNTDQ:
				return strings.Replace(intelReg[a], "xmm", "ymm", -1)
			default:
				return intelReg[a]
			}
		}
	}
	return strings.ToLower(arg.String())
}

var intelOp = map[Op]string{
	JAE:       "jnb",
	JA:        "jnbe",
	JGE:       "jnl",
	JNE:       "jnz",
	JG:        "jnle",
	JE:        "jz",
	SETAE:     "setnb",
	SETA:      "setnbe",
	SETGE:     "setnl",
	SETNE:     "setnz",
	SETG:      "setnle",
	SETE:      "setz",
	CMOVAE:    "cmovnb",
	CMOVA:     "cmovnbe",
	CMOVGE:    "cmovnl",
	CMOVNE:    "cmovnz",
	CMOVG:     "cmovnle",
	CMOVE:     "cmovz",
	LCALL:     "call far",
	LJMP:      "jmp far",
	LRET:      "ret far",
	ICEBP:     "int1",
	MOVSD_XMM: "movsd",
	XLATB:     "xlat",
}

var intelReg = [...]string{
	F0:  "st0",
	F1:  "st1",
	F2:  "st2",
	F3:  "st3",
	F4:  "st4",
	F5:  "st5",
	F6:  "st6",
	F7:  "st7",
	M0:  "mmx0",
	M1:  "mmx1",
	M2:  "mmx2",
	M3:  "mmx3",
	M4:  "mmx4",
	M5:  "mmx5",
	M6:  "mmx6",
	M7:  "mmx7",
	X0:  "xmm0",
	X1:  "xmm1",
	X2:  "xmm2",
	X3:  "xmm3",
	X4:  "xmm4",
	X5:  "xmm5",
	X6:  "xmm6",
	X7:  "xmm7",
	X8:  "xmm8",
	X9:  "xmm9",
	X10: "xmm10",
	X11: "xmm11",
	X12: "xmm12",
	X13: "xmm13",
	X14: "xmm14",
	X15: "xmm15",

	// TODO: Maybe the constants are named wrong.
	SPB: "spl",
	BPB: "bpl",
	SIB: "sil",
	DIB: "dil",

	R8L:  "r8d",
	R9L:  "r9d",
	R10L: "r10d",
	R11L: "r11d",
	R12L: "r12d",
	R13L: "r13d",
	R14L: "r14d",
	R15L: "r15d",
}
