// Copyright 2014 The Go Authors.  All rights reserved.
// Use of this source code is governed by a BSD-style
// license that can be found in the LICENSE file.

// Package x86asm implements decoding of x86 machine code.
package x86asm

import (
	"bytes"
	"fmt"
)

// An Inst is a single instruction.
type Inst struct {
	Prefix   Prefixes // Prefixes applied to the instruction.
	Op       Op       // Opcode mnemonic
	Opcode   uint32   // Encoded opcode bits, left aligned (first byte is Opcode>>24, etc)
	Args     Args     // Instruction arguments, in Intel order
	Mode     int      // processor mode in bits: 16, 32, or 64
	AddrSize int      // address size in bits: 16, 32, or 64
	DataSize int      // operand size in bits: 16, 32, or 64
	MemBytes int      // size of memory argument in bytes: 1, 2, 4, 8, 16, and so on.
	Len      int      // length of encoded instruction in bytes
	PCRel    int      // length of PC-relative address in instruction encoding
	PCRelOff int      // index of start of PC-relative address in instruction encoding
}

// Prefixes is an array of prefixes associated with a single instruction.
// The prefixes are listed in the same order as found in the instruction:
// each prefix byte corresponds to one slot in the array. The first zero
// in the array marks the end of the prefixes.
type Prefixes [14]Prefix

// A Prefix represents an Intel instruction prefix.
// The low 8 bits are the actual prefix byte encoding,
// and the top 8 bits contain distinguishing bits and metadata.
type Prefix uint16

const (
	// Metadata about the role of a prefix in an instruction.
	PrefixImplicit Prefix = 0x8000 // prefix is implied by instruction text
	PrefixIgnored  Prefix = 0x4000 // prefix is ignored: either irrelevant or overridden by a later prefix
	PrefixInvalid  Prefix = 0x2000 // prefix makes entire instruction invalid (bad LOCK)

	// Memory segment overrides.
	PrefixES Prefix = 0x26 // ES segment override
	PrefixCS Prefix = 0x2E // CS segment override
	PrefixSS Prefix = 0x36 // SS segment override
	PrefixDS Prefix = 0x3E // DS segment override
	PrefixFS Prefix = 0x64 // FS segment override
	PrefixGS Prefix = 0x65 // GS segment override

	// Branch prediction.
	PrefixPN Prefix = 0x12E // predict not taken (conditional branch only)
	PrefixPT Prefix = 0x13E // predict taken (conditional branch only)

	// Size attributes.
	PrefixDataSize Prefix = 0x66 // operand size override
	PrefixData16   Prefix = 0x166
	PrefixData32   Prefix = 0x266
	PrefixAddrSize Prefix = 0x67 // address size override
	PrefixAddr16   Prefix = 0x167
	PrefixAddr32   Prefix = 0x267

	// One of a kind.
	PrefixLOCK     Prefix = 0xF0 // lock
	PrefixREPN     Prefix = 0xF2 // repeat not zero
	PrefixXACQUIRE Prefix = 0x1F2
	PrefixBND      Prefix = 0x2F2
	PrefixREP      Prefix = 0xF3 // repeat
	PrefixXRELEASE Prefix = 0x1F3

	// The REX prefixes must be in the range [PrefixREX, PrefixREX+0x10).
	// the other bits are set or not according to the intended use.
	PrefixREX       Prefix = 0x40 // REX 64-bit extension prefix
	PrefixREXW      Prefix = 0x08 // extension bit W (64-bit instruction width)
	PrefixREXR      Prefix = 0x04 // extension bit R (r field in modrm)
	PrefixREXX      Prefix = 0x02 // extension bit X (index field in sib)
	PrefixREXB      Prefix = 0x01 // extension bit B (r/m field in modrm or base field in sib)
	PrefixVEX2Bytes Prefix = 0xC5 // Short form of vex prefix
	PrefixVEX3Bytes Prefix = 0xC4 // Long form of vex prefix
)

// IsREX reports whether p is a REX prefix byte.
func (p Prefix) IsREX() bool {
	return p&0xF0 == PrefixREX
}

func (p Prefix) IsVEX() bool {
	return p&0xFF == PrefixVEX2Bytes || p&0xFF == PrefixVEX3Bytes
}

func (p Prefix) String() string {
	p &^= PrefixImplicit | PrefixIgnored | PrefixInvalid
	if s := prefixNames[p]; s != "" {
		return s
	}

	if p.IsREX() {
		s := "REX."
		if p&PrefixREXW != 0 {
			s += "W"
		}
		if p&PrefixREXR != 0 {
			s += "R"
		}
		if p&PrefixREXX != 0 {
			s += "X"
		}
		if p&PrefixREXB != 0 {
			s += "B"
		}
		return s
	}

	return fmt.Sprintf("Prefix(%#x)", int(p))
}

// An Op is an x86 opcode.
type Op uint32

func (op Op) String() string {
	i := int(op)
	if i < 0 || i >= len(opNames) || opNames[i] == "" {
		return fmt.Sprintf("Op(%d)", i)
	}
	return opNames[i]
}

// An Args holds the instruction arguments.
// If an instruction has fewer than 4 arguments,
// the final elements in the array are nil.
type Args [4]Arg

// An Arg is a single instruction argument,
// one of these types: Reg, Mem, Imm, Rel.
type Arg interface {
	String() string
	isArg()
}

// Note that the implements of Arg that follow are all sized
// so that on a 64-bit machine the data can be inlined in
// the interface value instead of requiring an allocation.

// A Reg is a single register.
// The zero Reg value has no name but indicates “no register.”
type Reg uint8

const (
	_ Reg = iota

	// 8-bit
	AL
	CL
	DL
	BL
	AH
	CH
	DH
	BH
	SPB
	BPB
	SIB
	DIB
	R8B
	R9B
	R10B
	R11B
	R12B
	R13B
	R14B
	R15B

	// 16-bit
	AX
	CX
	DX
	BX
	SP
	BP
	SI
	DI
	R8W
	R9W
	R10W
	R11W
	R12W
	R13W
	R14W
	R15W

	// 32-bit
	EAX
	ECX
	EDX
	EBX
	ESP
	EBP
	ESI
	EDI
	R8L
	R9L
	R10L
	R11L
	R12L
	R13L
	R14L
	R15L

	// 64-bit
	RAX
	RCX
	RDX
	RBX
	RSP
	RBP
	RSI
	RDI
	R8
	R9
	R10
	R11
	R12
	R13
	R14
	R15

	// Instruction pointer.
	IP  // 16-bit
	EIP // 32-bit
	RIP // 64-bit

	// 387 floating point registers.
	F0
	F1
	F2
	F3
	F4
	F5
	F6
	F7

	// MMX registers.
	M0
	M1
	M2
	M3
	M4
	M5
	M6
	M7

	// XMM registers.
	X0
	X1
	X2
	X3
	X4
	X5
	X6
	X7
	X8
	X9
	X10
	X11
	X12
	X13
	X14
	X15

	// Segment registers.
	ES
	CS
	SS
	DS
	FS
	GS

	// System registers.
	GDTR
	IDTR
	LDTR
	MSW
	TASK

	// Control registers.
	CR0
	CR1
	CR2
	CR3
	CR4
	CR5
	CR6
	CR7
	CR8
	CR9
	CR10
	CR11
	CR12
	CR13
	CR14
	CR15

	// Debug registers.
	DR0
	DR1
	DR2
	DR3
	DR4
	DR5
	DR6
	DR7
	DR8
	DR9
	DR10
	DR11
	DR12
	DR13
	DR14
	DR15

	// Task registers.
	TR0
	TR1
	TR2
	TR3
	TR4
	TR5
	TR6
	TR7
)

const regMax = TR7

func (Reg) isArg() {}

func (r Reg) String() string {
	i := int(r)
	if i < 0 || i >= len(regNames) || regNames[i] == "" {
		return fmt.Sprintf("Reg(%d)", i)
	}
	return regNames[i]
}

// A Mem is a memory reference.
// The general form is Segment:[Base+Scale*Index+Disp].
type Mem struct {
	Segment Reg
	Base    Reg
	Scale   uint8
	Index   Reg
	Disp    int64
}

func (Mem) isArg() {}

func (m Mem) String() string {
	var base, plus, scale, index, disp string

	if m.Base != 0 {
		base = m.Base.String()
	}
	if m.Scale != 0 {
		if m.Base != 0 {
			plus = "+"
		}
		if m.Scale > 1 {
			scale = fmt.Sprintf("%d*", m.Scale)
		}
		index = m.Index.String()
	}
	if m.Disp != 0 || m.Base == 0 && m.Scale == 0 {
		disp = fmt.Sprintf("%+#x", m.Disp)
	}
	return "[" + base + plus + scale + index + disp + "]"
}

// A Rel is an offset relative to the current instruction pointer.
type Rel int32

func (Rel) isArg() {}

func (r Rel) String() string {
	return fmt.Sprintf(".%+d", r)
}

// An Imm is an integer constant.
type Imm int64

func (Imm) isArg() {}

func (i Imm) String() string {
	return fmt.Sprintf("%#x", int64(i))
}

func (i Inst) String() string {
	var buf bytes.Buffer
	for _, p := range i.Prefix {
		if p == 0 {
			break
		}
		if p&PrefixImplicit != 0 {
			continue
		}
		fmt.Fprintf(&buf, "%v ", p)
	}
	fmt.Fprintf(&buf, "%v", i.Op)
	sep := " "
	for _, v := range i.Args {
		if v == nil {
			break
		}
		fmt.Fprintf(&buf, "%s%v", sep, v)
		sep = ", "
	}
	return buf.String()
}

func isReg(a Arg) bool {
	_, ok := a.(Reg)
	return ok
}

func isSegReg(a Arg) bool {
	r, ok := a.(Reg)
	return ok && ES <= r && r <= GS
}

func isMem(a Arg) bool {
	_, ok := a.(Mem)
	return ok
}

func isImm(a Arg) bool {
	_, ok := a.(Imm)
	return ok
}

func regBytes(a Arg) int {
	r, ok := a.(Reg)
	if !ok {
		return 0
	}
	if AL <= r && r <= R15B {
		return 1
	}
	if AX <= r && r <= R15W {
		return 2
	}
	if EAX <= r && r <= R15L {
		return 4
	}
	if RAX <= r && r <= R15 {
		return 8
	}
	return 0
}

func isSegment(p Prefix) bool {
	switch p {
	case PrefixCS, PrefixDS, PrefixES, PrefixFS, PrefixGS, PrefixSS:
		return true
	}
	return false
}

// The Op definitions and string list are in tables.go.

var prefixNames = map[Prefix]string{
	PrefixCS:       "CS",
	PrefixDS:       "DS",
	PrefixES:       "ES",
	PrefixFS:       "FS",
	PrefixGS:       "GS",
	PrefixSS:       "SS",
	PrefixLOCK:     "LOCK",
	PrefixREP:      "REP",
	PrefixREPN:     "REPN",
	PrefixAddrSize: "ADDRSIZE",
	PrefixDataSize: "DATASIZE",
	PrefixAddr16:   "ADDR16",
	PrefixData16:   "DATA16",
	PrefixAddr32:   "ADDR32",
	PrefixData32:   "DATA32",
	PrefixBND:      "BND",
	PrefixXACQUIRE: "XACQUIRE",
	PrefixXRELEASE: "XRELEASE",
	PrefixREX:      "REX",
	PrefixPT:       "PT",
	PrefixPN:       "PN",
}

var regNames = [...]string{
	AL:   "AL",
	CL:   "CL",
	BL:   "BL",
	DL:   "DL",
	AH:   "AH",
	CH:   "CH",
	BH:   "BH",
	DH:   "DH",
	SPB:  "SPB",
	BPB:  "BPB",
	SIB:  "SIB",
	DIB:  "DIB",
	R8B:  "R8B",
	R9B:  "R9B",
	R10B: "R10B",
	R11B: "R11B",
	R12B: "R12B",
	R13B: "R13B",
	R14B: "R14B",
	R15B: "R15B",
	AX:   "AX",
	CX:   "CX",
	BX:   "BX",
	DX:   "DX",
	SP:   "SP",
	BP:   "BP",
	SI:   "SI",
	DI:   "DI",
	R8W:  "R8W",
	R9W:  "R9W",
	R10W: "R10W",
	R11W: "R11W",
	R12W: "R12W",
	R13W: "R13W",
	R14W: "R14W",
	R15W: "R15W",
	EAX:  "EAX",
	ECX:  "ECX",
	EDX:  "EDX",
	EBX:  "EBX",
	ESP:  "ESP",
	EBP:  "EBP",
	ESI:  "ESI",
	EDI:  "EDI",
	R8L:  "R8L",
	R9L:  "R9L",
	R10L: "R10L",
	R11L: "R11L",
	R12L: "R12L",
	R13L: "R13L",
	R14L: "R14L",
	R15L: "R15L",
	RAX:  "RAX",
	RCX:  "RCX",
	RDX:  "RDX",
	RBX:  "RBX",
	RSP:  "RSP",
	RBP:  "RBP",
	RSI:  "RSI",
	RDI:  "RDI",
	R8:   "R8",
	R9:   "R9",
	R10:  "R10",
	R11:  "R11",
	R12:  "R12",
	R13:  "R13",
	R14:  "R14",
	R15:  "R15",
	IP:   "IP",
	EIP:  "EIP",
	RIP:  "RIP",
	F0:   "F0",
	F1:   "F1",
	F2:   "F2",
	F3:   "F3",
	F4:   "F4",
	F5:   "F5",
	F6:   "F6",
	F7:   "F7",
	M0:   "M0",
	M1:   "M1",
	M2:   "M2",
	M3:   "M3",
	M4:   "M4",
	M5:   "M5",
	M6:   "M6",
	M7:   "M7",
	X0:   "X0",
	X1:   "X1",
	X2:   "X2",
	X3:   "X3",
	X4:   "X4",
	X5:   "X5",
	X6:   "X6",
	X7:   "X7",
	X8:   "X8",
	X9:   "X9",
	X10:  "X10",
	X11:  "X11",
	X12:  "X12",
	X13:  "X13",
	X14:  "X14",
	X15:  "X15",
	CS:   "CS",
	SS:   "SS",
	DS:   "DS",
	ES:   "ES",
	FS:   "FS",
	GS:   "GS",
	GDTR: "GDTR",
	IDTR: "IDTR",
	LDTR: "LDTR",
	MSW:  "MSW",
	TASK: "TASK",
	CR0:  "CR0",
	CR1:  "CR1",
	CR2:  "CR2",
	CR3:  "CR3",
	CR4:  "CR4",
	CR5:  "CR5",
	CR6:  "CR6",
	CR7:  "CR7",
	CR8:  "CR8",
	CR9:  "CR9",
	CR10: "CR10",
	CR11: "CR11",
	CR12: "CR12",
	CR13: "CR13",
	CR14: "CR14",
	CR15: "CR15",
	DR0:  "DR0",
	DR1:  "DR1",
	DR2:  "DR2",
	DR3:  "DR3",
	DR4:  "DR4",
	DR5:  "DR5",
	DR6:  "DR6",
	DR7:  "DR7",
	DR8:  "DR8",
	DR9:  "DR9",
	DR10: "DR10",
	DR11: "DR11",
	DR12: "DR12",
	DR13: "DR13",
	DR14: "DR14",
	DR15: "DR15",
	TR0:  "TR0",
	TR1:  "TR1",
	TR2:  "TR2",
	TR3:  "TR3",
	TR4:  "TR4",
	TR5:  "TR5",
	TR6:  "TR6",
	TR7:  "TR7",
}
