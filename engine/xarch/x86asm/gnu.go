// Copyright 2014 The Go Authors.  All rights reserved.
// Use of this source code is governed by a BSD-style
// license that can be found in the LICENSE file.

package x86asm

import (
	"fmt"
	"strings"
)

// GNUSyntax returns the GNU assembler syntax for the instruction, as defined by GNU binutils.
// This general form is often called “AT&T syntax” as a reference to AT&T System V Unix.
func GNUSyntax(inst Inst, pc uint64, symname SymLookup) string {
	// Rewrite instruction to mimic GNU peculiarities.
	// Note that inst has been passed by value and contains
	// no pointers, so any changes we make here are local
	// and will not propagate back out to the caller.

	if symname == nil {
		symname = func(uint64) (string, uint64) { return "", 0 }
	}

	// Adjust opcode [sic].
	switch inst.Op {
	case FDIV, FDIVR, FSUB, FSUBR, FDIVP, FDIVRP, FSUBP, FSUBRP:
		// DC E0, DC F0: libopcodes swaps FSUBR/FSUB and FDIVR/FDIV, at least
		// if you believe the Intel manual is correct (the encoding is irregular as given;
		// libopcodes uses the more regular expected encoding).
		// TODO(rsc): Test to ensure Intel manuals are correct and report to libopcodes maintainers?
		// NOTE: iant thinks this is deliberate, but we can't find the history.
		_, reg1 := inst.Args[0].(Reg)
		_, reg2 := inst.Args[1].(Reg)
		if reg1 && reg2 && (inst.Opcode>>24 == 0xDC || inst.Opcode>>24 == 0xDE) {
			switch inst.Op {
			case FDIV:
				inst.Op = FDIVR
			case FDIVR:
				inst.Op = FDIV
			case FSUB:
				inst.Op = FSUBR
			case FSUBR:
				inst.Op = FSUB
			case FDIVP:
				inst.Op = FDIVRP
			case FDIVRP:
				inst.Op = FDIVP
			case FSUBP:
				inst.Op = FSUBRP
			case FSUBRP:
				inst.Op = FSUBP
			}
		}

	case MOVNTSD:
		// MOVNTSD is F2 0F 2B /r.
		// MOVNTSS is F3 0F 2B /r (supposedly; not in manuals).
		// Usually inner prefixes win for display,
		// so that F3 F2 0F 2B 11 is REP MOVNTSD
		// and F2 F3 0F 2B 11 is REPN MOVNTSS.
		// Libopcodes always prefers MOVNTSS regardless of prefix order.
		if countPrefix(&inst, 0xF3) > 0 {
			found := false
			for i := len(inst.Prefix) - 1; i >= 0; i-- {
				switch inst.Prefix[i] & 0xFF {
				case 0xF3:
					if !found {
						found = true
						inst.Prefix[i] |= PrefixImplicit
					}
				case 0xF2:
					inst.Prefix[i] &^= PrefixImplicit
				}
			}
			inst.Op = MOVNTSS
		}
	}

	// Add implicit arguments.
	switch inst.Op {
	case MONITOR:
		inst.Args[0] = EDX
		inst.Args[1] = ECX
		inst.Args[2] = EAX
		if inst.AddrSize == 16 {
			inst.Args[2] = AX
		}

	case MWAIT:
		if inst.Mode == 64 {
			inst.Args[0] = RCX
			inst.Args[1] = RAX
		} else {
			inst.Args[0] = ECX
			inst.Args[1] = EAX
		}
	}

	// Adjust which prefixes will be displayed.
	// The rule is to display all the prefixes not implied by
	// the usual instruction display, that is, all the prefixes
	// except the ones with PrefixImplicit set.
	// However, of course, there are exceptions to the rule.
	switch inst.Op {
	case CRC32:
		// CRC32 has a mandatory F2 prefix.
		// If there are multiple F2s and no F3s, the extra F2s do not print.
		// (And Decode has already marked them implicit.)
		// However, if there is an F3 anywhere, then the extra F2s do print.
		// If there are multiple F2 prefixes *and* an (ignored) F3,
		// then libopcodes prints the extra F2s as REPNs.
		if countPrefix(&inst, 0xF2) > 1 {
			unmarkImplicit(&inst, 0xF2)
			markLastImplicit(&inst, 0xF2)
		}

		// An unused data size override should probably be shown,
		// to distinguish DATA16 CRC32B from plain CRC32B,
		// but libopcodes always treats the final override as implicit
		// and the others as explicit.
		unmarkImplicit(&inst, PrefixDataSize)
		markLastImplicit(&inst, PrefixDataSize)

	case CVTSI2SD, CVTSI2SS:
		if !isMem(inst.Args[1]) {
			markLastImplicit(&inst, PrefixDataSize)
		}

	case CVTSD2SI, CVTSS2SI, CVTTSD2SI, CVTTSS2SI,
		ENTER, FLDENV, FNSAVE, FNSTENV, FRSTOR, LGDT, LIDT, LRET,
		POP, PUSH, RET, SGDT, SIDT, SYSRET, XBEGIN:
		markLastImplicit(&inst, PrefixDataSize)

	case LOOP, LOOPE, LOOPNE, MONITOR:
		markLastImplicit(&inst, PrefixAddrSize)

	case MOV:
		// The 16-bit and 32-bit forms of MOV Sreg, dst and MOV src, Sreg
		// cannot be distinguished when src or dst refers to memory, because
		// Sreg is always a 16-bit value, even when we're doing a 32-bit
		// instruction. Because the instruction tables distinguished these two,
		// any operand size prefix has been marked as used (to decide which
		// branch to take). Unmark it, so that it will show up in disassembly,
		// so that the reader can tell the size of memory operand.
		// up with the same arguments
		dst, _ := inst.Args[0].(Reg)
		src, _ := inst.Args[1].(Reg)
		if ES <= src && src <= GS && isMem(inst.Args[0]) || ES <= dst && dst <= GS && isMem(inst.Args[1]) {
			unmarkImplicit(&inst, PrefixDataSize)
		}

	case MOVDQU:
		if countPrefix(&inst, 0xF3) > 1 {
			unmarkImplicit(&inst, 0xF3)
			markLastImplicit(&inst, 0xF3)
		}

	case MOVQ2DQ:
		markLastImplicit(&inst, PrefixDataSize)

	case SLDT, SMSW, STR, FXRSTOR, XRSTOR, XSAVE, XSAVEOPT, CMPXCHG8B:
		if isMem(inst.Args[0]) {
			unmarkImplicit(&inst, PrefixDataSize)
		}

	case SYSEXIT:
		unmarkImplicit(&inst, PrefixDataSize)
	}

	if isCondJmp[inst.Op] || isLoop[inst.Op] || inst.Op == JCXZ || inst.Op == JECXZ || inst.Op == JRCXZ {
		if countPrefix(&inst, PrefixCS) > 0 && countPrefix(&inst, PrefixDS) > 0 {
			for i, p := range inst.Prefix {
				switch p & 0xFFF {
				case PrefixPN, PrefixPT:
					inst.Prefix[i] &= 0xF0FF // cut interpretation bits, producing original segment prefix
				}
			}
		}
	}

	// XACQUIRE/XRELEASE adjustment.
	if inst.Op == MOV {
		// MOV into memory is a candidate for turning REP into XRELEASE.
		// However, if the REP is followed by a REPN, that REPN blocks the
		// conversion.
		haveREPN := false
		for i := len(inst.Prefix) - 1; i >= 0; i-- {
			switch inst.Prefix[i] &^ PrefixIgnored {
			case PrefixREPN:
				haveREPN = true
			case PrefixXRELEASE:
				if haveREPN {
					inst.Prefix[i] = PrefixREP
				}
			}
		}
	}

	// We only format the final F2/F3 as XRELEASE/XACQUIRE.
	haveXA := false
	haveXR := false
	for i := len(inst.Prefix) - 1; i >= 0; i-- {
		switch inst.Prefix[i] &^ PrefixIgnored {
		case PrefixXRELEASE:
			if !haveXR {
				haveXR = true
			} else {
				inst.Prefix[i] = PrefixREP
			}

		case PrefixXACQUIRE:
			if !haveXA {
				haveXA = true
			} else {
				inst.Prefix[i] = PrefixREPN
			}
		}
	}

	// Determine opcode.
	op := strings.ToLower(inst.Op.String())
	if alt := gnuOp[inst.Op]; alt != "" {
		op = alt
	}

	// Determine opcode suffix.
	// Libopcodes omits the suffix if the width of the operation
	// can be inferred from a register arguments. For example,
	// add $1, %ebx has no suffix because you can tell from the
	// 32-bit register destination that it is a 32-bit add,
	// but in addl $1, (%ebx), the destination is memory, so the
	// size is not evident without the l suffix.
	needSuffix := true
SuffixLoop:
	for i, a := range inst.Args {
		if a == nil {
			break
		}
		switch a := a.(type) {
		case Reg:
			switch inst.Op {
			case MOVSX, MOVZX:
				continue

			case SHL, SHR, RCL, RCR, ROL, ROR, SAR:
				if i == 1 {
					// shift count does not tell us operand size
					continue
				}

			case CRC32:
				// The source argument does tell us operand size,
				// but libopcodes still always puts a suffix on crc32.
				continue

			case PUSH, POP:
				// Even though segment registers are 16-bit, push and pop
				// can save/restore them from 32-bit slots, so they
				// do not imply operand size.
				if ES <= a && a <= GS {
					continue
				}

			case CVTSI2SD, CVTSI2SS:
				// The integer register argument takes priority.
				if X0 <= a && a <= X15 {
					continue
				}
			}

			if AL <= a && a <= R15 || ES <= a && a <= GS || X0 <= a && a <= X15 || M0 <= a && a <= M7 {
				needSuffix = false
				break SuffixLoop
			}
		}
	}

	if needSuffix {
		switch inst.Op {
		case CMPXCHG8B, FLDCW, FNSTCW, FNSTSW, LDMXCSR, LLDT, LMSW, LTR, PCLMULQDQ,
			SETA, SETAE, SETB, SETBE, SETE, SETG, SETGE, SETL, SETLE, SETNE, SETNO, SETNP, SETNS, SETO, SETP, SETS,
			SLDT, SMSW, STMXCSR, STR, VERR, VERW:
			// For various reasons, libopcodes emits no suffix for these instructions.

		case CRC32:
			op += byteSizeSuffix(argBytes(&inst, inst.Args[1]))

		case LGDT, LIDT, SGDT, SIDT:
			op += byteSizeSuffix(inst.DataSize / 8)

		case MOVZX, MOVSX:
			// Integer size conversions get two suffixes.
			op = op[:4] + byteSizeSuffix(argBytes(&inst, inst.Args[1])) + byteSizeSuffix(argBytes(&inst, inst.Args[0]))

		case LOOP, LOOPE, LOOPNE:
			// Add w suffix to indicate use of CX register instead of ECX.
			if inst.AddrSize == 16 {
				op += "w"
			}

		case CALL, ENTER, JMP, LCALL, LEAVE, LJMP, LRET, RET, SYSRET, XBEGIN:
			// Add w suffix to indicate use of 16-bit target.
			// Exclude JMP rel8.
			if inst.Opcode>>24 == 0xEB {
				break
			}
			if inst.DataSize == 16 && inst.Mode != 16 {
				markLastImplicit(&inst, PrefixDataSize)
				op += "w"
			} else if inst.Mode == 64 {
				op += "q"
			}

		case FRSTOR, FNSAVE, FNSTENV, FLDENV:
			// Add s suffix to indicate shortened FPU state (I guess).
			if inst.DataSize == 16 {
				op += "s"
			}

		case PUSH, POP:
			if markLastImplicit(&inst, PrefixDataSize) {
				op += byteSizeSuffix(inst.DataSize / 8)
			} else if inst.Mode == 64 {
				op += "q"
			} else {
				op += byteSizeSuffix(inst.MemBytes)
			}

		default:
			if isFloat(inst.Op) {
				// I can't explain any of this, but it's what libopcodes does.
				switch inst.MemBytes {
				default:
					if (inst.Op == FLD || inst.Op == FSTP) && isMem(inst.Args[0]) {
						op += "t"
					}
				case 4:
					if isFloatInt(inst.Op) {
						op += "l"
					} else {
						op += "s"
					}
				case 8:
					if isFloatInt(inst.Op) {
						op += "ll"
					} else {
						op += "l"
					}
				}
				break
			}

			op += byteSizeSuffix(inst.MemBytes)
		}
	}

	// Adjust special case opcodes.
	switch inst.Op {
	case 0:
		if inst.Prefix[0] != 0 {
			return strings.ToLower(inst.Prefix[0].String())
		}

	case INT:
		if inst.Opcode>>24 == 0xCC {
			inst.Args[0] = nil
			op = "int3"
		}

	case CMPPS, CMPPD, CMPSD_XMM, CMPSS:
		imm, ok := inst.Args[2].(Imm)
		if ok && 0 <= imm && imm < 8 {
			inst.Args[2] = nil
			op = cmppsOps[imm] + op[3:]
		}

	case PCLMULQDQ:
		imm, ok := inst.Args[2].(Imm)
		if ok && imm&^0x11 == 0 {
			inst.Args[2] = nil
			op = pclmulqOps[(imm&0x10)>>3|(imm&1)]
		}

	case XLATB:
		if markLastImplicit(&inst, PrefixAddrSize) {
			op = "xlat" // not xlatb
		}
	}

	// Build list of argument strings.
	var (
		usedPrefixes bool     // segment prefixes consumed by Mem formatting
		args         []string // formatted arguments
	)
	for i, a := range inst.Args {
		if a == nil {
			break
		}
		switch inst.Op {
		case MOVSB, MOVSW, MOVSD, MOVSQ, OUTSB, OUTSW, OUTSD:
			if i == 0 {
				usedPrefixes = true // disable use of prefixes for first argument
			} else {
				usedPrefixes = false
			}
		}
		if a == Imm(1) && (inst.Opcode>>24)&^1 == 0xD0 {
			continue
		}
		args = append(args, gnuArg(&inst, pc, symname, a, &usedPrefixes))
	}

	// The default is to print the arguments in reverse Intel order.
	// A few instructions inhibit this behavior.
	switch inst.Op {
	case BOUND, LCALL, ENTER, LJMP:
		// no reverse
	default:
		// reverse args
		for i, j := 0, len(args)-1; i < j; i, j = i+1, j-1 {
			args[i], args[j] = args[j], args[i]
		}
	}

	// Build prefix string.
	// Must be after argument formatting, which can turn off segment prefixes.
	var (
		prefix       = "" // output string
		numAddr      = 0
		numData      = 0
		implicitData = false
	)
	for _, p := range inst.Prefix {
		if p&0xFF == PrefixDataSize && p&PrefixImplicit != 0 {
			implicitData = true
		}
	}
	for _, p := range inst.Prefix {
		if p == 0 || p.IsVEX() {
			break
		}
		if p&PrefixImplicit != 0 {
			continue
		}
		switch p &^ (PrefixIgnored | PrefixInvalid) {
		default:
			if p.IsREX() {
				if p&0xFF == PrefixREX {
					prefix += "rex "
				} else {
					prefix += "rex." + p.String()[4:] + " "
				}
				break
			}
			prefix += strings.ToLower(p.String()) + " "

		case PrefixPN:
			op += ",pn"
			continue

		case PrefixPT:
			op += ",pt"
			continue

		case PrefixAddrSize, PrefixAddr16, PrefixAddr32:
			// For unknown reasons, if the addr16 prefix is repeated,
			// libopcodes displays all but the last as addr32, even though
			// the addressing form used in a memory reference is clearly
			// still 16-bit.
			n := 32
			if inst.Mode == 32 {
				n = 16
			}
			numAddr++
			if countPrefix(&inst, PrefixAddrSize) > numAddr {
				n = inst.Mode
			}
			prefix += fmt.Sprintf("addr%d ", n)
			continue

		case PrefixData16, PrefixData32:
			if implicitData && countPrefix(&inst, PrefixDataSize) > 1 {
				// Similar to the addr32 logic above, but it only kicks in
				// when something used the data size prefix (one is implicit).
				n := 16
				if inst.Mode == 16 {
					n = 32
				}
				numData++
				if countPrefix(&inst, PrefixDataSize) > numData {
					if inst.Mode == 16 {
						n = 16
					} else {
						n = 32
					}
				}
				prefix += fmt.Sprintf("data%d ", n)
				continue
			}
			prefix += strings.ToLower(p.String()) + " "
		}
	}

	// Finally! Put it all together.
	text := prefix + op
	if args != nil {
		text += " "
		// Indirect call/jmp gets a star to distinguish from direct jump address.
		if (inst.Op == CALL || inst.Op == JMP || inst.Op == LJMP || inst.Op == LCALL) && (isMem(inst.Args[0]) || isReg(inst.Args[0])) {
			text += "*"
		}
		text += strings.Join(args, ",")
	}
	return text
}

// gnuArg returns the GNU syntax for the argument x from the instruction inst.
// If *usedPrefixes is false and x is a Mem, then the formatting
// includes any segment prefixes and sets *usedPrefixes to true.
func gnuArg(inst *Inst, pc uint64, symname SymLookup, x Arg, usedPrefixes *bool) string {
	if x == nil {
		return "<nil>"
	}
	switch x := x.(type) {
	case Reg:
		switch inst.Op {
		case CVTSI2SS, CVTSI2SD, CVTSS2SI, CVTSD2SI, CVTTSD2SI, CVTTSS2SI:
			if inst.DataSize == 16 && EAX <= x && x <= R15L {
				x -= EAX - AX
			}

		case IN, INSB, INSW, INSD, OUT, OUTSB, OUTSW, OUTSD:
			// DX is the port, but libopcodes prints it as if it were a memory reference.
			if x == DX {
				return "(%dx)"
			}
		case VMOVDQA, VMOVDQU, VMOVNTDQA, VMOVNTDQ:
			return strings.Replace(gccRegName[x], "xmm", "ymm", -1)
		}
		return gccRegName[x]
	case Mem:
		if s, disp := memArgToSymbol(x, pc, inst.Len, symname); s != "" {
			suffix := ""
			if disp != 0 {
				suffix = fmt.Sprintf("%+d", disp)
			}
			return fmt.Sprintf("%s%s", s, suffix)
		}
		seg := ""
		var haveCS, haveDS, haveES, haveFS, haveGS, haveSS bool
		switch x.Segment {
		case CS:
			haveCS = true
		case DS:
			haveDS = true
		case ES:
			haveES = true
		case FS:
			haveFS = true
		case GS:
			haveGS = true
		case SS:
			haveSS = true
		}
		switch inst.Op {
		case INSB, INSW, INSD, STOSB, STOSW, STOSD, STOSQ, SCASB, SCASW, SCASD, SCASQ:
			// These do not accept segment prefixes, at least in the GNU rendering.
		default:
			if *usedPrefixes {
				break
			}
			for i := len(inst.Prefix) - 1; i >= 0; i-- {
				p := inst.Prefix[i] &^ PrefixIgnored
				if p == 0 {
					continue
				}
				switch p {
				case PrefixCS:
					if !haveCS {
						haveCS = true
						inst.Prefix[i] |= PrefixImplicit
					}
				case PrefixDS:
					if !haveDS {
						haveDS = true
						inst.Prefix[i] |= PrefixImplicit
					}
				case PrefixES:
					if !haveES {
						haveES = true
						inst.Prefix[i] |= PrefixImplicit
					}
				case PrefixFS:
					if !haveFS {
						haveFS = true
						inst.Prefix[i] |= PrefixImplicit
					}
				case PrefixGS:
					if !haveGS {
						haveGS = true
						inst.Prefix[i] |= PrefixImplicit
					}
				case PrefixSS:
					if !haveSS {
						haveSS = true
						inst.Prefix[i] |= PrefixImplicit
					}
				}
			}
			*usedPrefixes = true
		}
		if haveCS {
			seg += "%cs:"
		}
		if haveDS {
			seg += "%ds:"
		}
		if haveSS {
			seg += "%ss:"
		}
		if haveES {
			seg += "%es:"
		}
		if haveFS {
			seg += "%fs:"
		}
		if haveGS {
			seg += "%gs:"
		}
		disp := ""
		if x.Disp != 0 {
			disp = fmt.Sprintf("%#x", x.Disp)
		}
		if x.Scale == 0 || x.Index == 0 && x.Scale == 1 && (x.Base == ESP || x.Base == RSP || x.Base == 0 && inst.Mode == 64) {
			if x.Base == 0 {
				return seg + disp
			}
			return fmt.Sprintf("%s%s(%s)", seg, disp, gccRegName[x.Base])
		}
		base := gccRegName[x.Base]
		if x.Base == 0 {
			base = ""
		}
		index := gccRegName[x.Index]
		if x.Index == 0 {
			if inst.AddrSize == 64 {
				index = "%riz"
			} else {
				index = "%eiz"
			}
		}
		if AX <= x.Base && x.Base <= DI {
			// 16-bit addressing - no scale
			return fmt.Sprintf("%s%s(%s,%s)", seg, disp, base, index)
		}
		return fmt.Sprintf("%s%s(%s,%s,%d)", seg, disp, base, index, x.Scale)
	case Rel:
		if pc == 0 {
			return fmt.Sprintf(".%+#x", int64(x))
		} else {
			addr := pc + uint64(inst.Len) + uint64(x)
			if s, base := symname(addr); s != "" && addr == base {
				return fmt.Sprintf("%s", s)
			} else {
				addr := pc + uint64(inst.Len) + uint64(x)
				return fmt.Sprintf("%#x", addr)
			}
		}
	case Imm:
		if (inst.Op == MOV || inst.Op == PUSH) && inst.DataSize == 32 { // See comment in plan9x.go.
			if s, base := symname(uint64(x)); s != "" {
				suffix := ""
				if uint64(x) != base {
					suffix = fmt.Sprintf("%+d", uint64(x)-base)
				}
				return fmt.Sprintf("$%s%s", s, suffix)
			}
		}
		if inst.Mode == 32 {
			return fmt.Sprintf("$%#x", uint32(x))
		}
		return fmt.Sprintf("$%#x", int64(x))
	}
	return x.String()
}

var gccRegName = [...]string{
	0:    "REG0",
	AL:   "%al",
	CL:   "%cl",
	BL:   "%bl",
	DL:   "%dl",
	AH:   "%ah",
	CH:   "%ch",
	BH:   "%bh",
	DH:   "%dh",
	SPB:  "%spl",
	BPB:  "%bpl",
	SIB:  "%sil",
	DIB:  "%dil",
	R8B:  "%r8b",
	R9B:  "%r9b",
	R10B: "%r10b",
	R11B: "%r11b",
	R12B: "%r12b",
	R13B: "%r13b",
	R14B: "%r14b",
	R15B: "%r15b",
	AX:   "%ax",
	CX:   "%cx",
	BX:   "%bx",
	DX:   "%dx",
	SP:   "%sp",
	BP:   "%bp",
	SI:   "%si",
	DI:   "%di",
	R8W:  "%r8w",
	R9W:  "%r9w",
	R10W: "%r10w",
	R11W: "%r11w",
	R12W: "%r12w",
	R13W: "%r13w",
	R14W: "%r14w",
	R15W: "%r15w",
	EAX:  "%eax",
	ECX:  "%ecx",
	EDX:  "%edx",
	EBX:  "%ebx",
	ESP:  "%esp",
	EBP:  "%ebp",
	ESI:  "%esi",
	EDI:  "%edi",
	R8L:  "%r8d",
	R9L:  "%r9d",
	R10L: "%r10d",
	R11L: "%r11d",
	R12L: "%r12d",
	R13L: "%r13d",
	R14L: "%r14d",
	R15L: "%r15d",
	RAX:  "%rax",
	RCX:  "%rcx",
	RDX:  "%rdx",
	RBX:  "%rbx",
	RSP:  "%rsp",
	RBP:  "%rbp",
	RSI:  "%rsi",
	RDI:  "%rdi",
	R8:   "%r8",
	R9:   "%r9",
	R10:  "%r10",
	R11:  "%r11",
	R12:  "%r12",
	R13:  "%r13",
	R14:  "%r14",
	R15:  "%r15",
	IP:   "%ip",
	EIP:  "%eip",
	RIP:  "%rip",
	F0:   "%st",
	F1:   "%st(1)",
	F2:   "%st(2)",
	F3:   "%st(3)",
	F4:   "%st(4)",
	F5:   "%st(5)",
	F6:   "%st(6)",
	F7:   "%st(7)",
	M0:   "%mm0",
	M1:   "%mm1",
	M2:   "%mm2",
	M3:   "%mm3",
	M4:   "%mm4",
	M5:   "%mm5",
	M6:   "%mm6",
	M7:   "%mm7",
	X0:   "%xmm0",
	X1:   "%xmm1",
	X2:   "%xmm2",
	X3:   "%xmm3",
	X4:   "%xmm4",
	X5:   "%xmm5",
	X6:   "%xmm6",
	X7:   "%xmm7",
	X8:   "%xmm8",
	X9:   "%xmm9",
	X10:  "%xmm10",
	X11:  "%xmm11",
	X12:  "%xmm12",
	X13:  "%xmm13",
	X14:  "%xmm14",
	X15:  "%xmm15",
	CS:   "%cs",
	SS:   "%ss",
	DS:   "%ds",
	ES:   "%es",
	FS:   "%fs",
	GS:   "%gs",
	GDTR: "%gdtr",
	IDTR: "%idtr",
	LDTR: "%ldtr",
	MSW:  "%msw",
	TASK: "%task",
	CR0:  "%cr0",
	CR1:  "%cr1",
	CR2:  "%cr2",
	CR3:  "%cr3",
	CR4:  "%cr4",
	CR5:  "%cr5",
	CR6:  "%cr6",
	CR7:  "%cr7",
	CR8:  "%cr8",
	CR9:  "%cr9",
	CR10: "%cr10",
	CR11: "%cr11",
	CR12: "%cr12",
	CR13: "%cr13",
	CR14: "%cr14",
	CR15: "%cr15",
	DR0:  "%db0",
	DR1:  "%db1",
	DR2:  "%db2",
	DR3:  "%db3",
	DR4:  "%db4",
	DR5:  "%db5",
	DR6:  "%db6",
	DR7:  "%db7",
	TR0:  "%tr0",
	TR1:  "%tr1",
	TR2:  "%tr2",
	TR3:  "%tr3",
	TR4:  "%tr4",
	TR5:  "%tr5",
	TR6:  "%tr6",
	TR7:  "%tr7",
}

var gnuOp = map[Op]string{
	CBW:       "cbtw",
	CDQ:       "cltd",
	CMPSD:     "cmpsl",
	CMPSD_XMM: "cmpsd",
	CWD:       "cwtd",
	CWDE:      "cwtl",
	CQO:       "cqto",
	INSD:      "insl",
	IRET:      "iretw",
	IRETD:     "iret",
	IRETQ:     "iretq",
	LODSB:     "lods",
	LODSD:     "lods",
	LODSQ:     "lods",
	LODSW:     "lods",
	MOVSD:     "movsl",
	MOVSD_XMM: "movsd",
	OUTSD:     "outsl",
	POPA:      "popaw",
	POPAD:     "popa",
	POPF:      "popfw",
	POPFD:     "popf",
	PUSHA:     "pushaw",
	PUSHAD:    "pusha",
	PUSHF:     "pushfw",
	PUSHFD:    "pushf",
	SCASB:     "scas",
	SCASD:     "scas",
	SCASQ:     "scas",
	SCASW:     "scas",
	STOSB:     "stos",
	STOSD:     "stos",
	STOSQ:     "stos",
	STOSW:     "stos",
	XLATB:     "xlat",
}

var cmppsOps = []string{
	"cmpeq",
	"cmplt",
	"cmple",
	"cmpunord",
	"cmpneq",
	"cmpnlt",
	"cmpnle",
	"cmpord",
}

var pclmulqOps = []string{
	"pclmullqlqdq",
	"pclmulhqlqdq",
	"pclmullqhqdq",
	"pclmulhqhqdq",
}

func countPrefix(inst *Inst, target Prefix) int {
	n := 0
	for _, p := range inst.Prefix {
		if p&0xFF == target&0xFF {
			n++
		}
	}
	return n
}

func markLastImplicit(inst *Inst, prefix Prefix) bool {
	for i := len(inst.Prefix) - 1; i >= 0; i-- {
		p := inst.Prefix[i]
		if p&0xFF == prefix {
			inst.Prefix[i] |= PrefixImplicit
			return true
		}
	}
	return false
}

func unmarkImplicit(inst *Inst, prefix Prefix) {
	for i := len(inst.Prefix) - 1; i >= 0; i-- {
		p := inst.Prefix[i]
		if p&0xFF == prefix {
			inst.Prefix[i] &^= PrefixImplicit
		}
	}
}

func byteSizeSuffix(b int) string {
	switch b {
	case 1:
		return "b"
	case 2:
		return "w"
	case 4:
		return "l"
	case 8:
		return "q"
	}
	return ""
}

func argBytes(inst *Inst, arg Arg) int {
	if isMem(arg) {
		return inst.MemBytes
	}
	return regBytes(arg)
}

func isFloat(op Op) bool {
	switch op {
	case FADD, FCOM, FCOMP, FDIV, FDIVR, FIADD, FICOM, FICOMP, FIDIV, FIDIVR, FILD, FIMUL, FIST, FISTP, FISTTP, FISUB, FISUBR, FLD, FMUL, FST, FSTP, FSUB, FSUBR:
		return true
	}
	return false
}

func isFloatInt(op Op) bool {
	switch op {
	case FIADD, FICOM, FICOMP, FIDIV, FIDIVR, FILD, FIMUL, FIST, FISTP, FISTTP, FISUB, FISUBR:
		return true
	}
	return false
}
