// Copyright 2014 The Go Authors.  All rights reserved.
// Use of this source code is governed by a BSD-style
// license that can be found in the LICENSE file.

package x86asm

import (
	"fmt"
	"strings"
)

type SymLookup func(uint64) (string, uint64)

// GoSyntax returns the Go assembler syntax for the instruction.
// The syntax was originally defined by Plan 9.
// The pc is the program counter of the instruction, used for expanding
// PC-relative addresses into absolute ones.
// The symname function queries the symbol table for the program
// being disassembled. Given a target address it returns the name and base
// address of the symbol containing the target, if any; otherwise it returns "", 0.
func GoSyntax(inst Inst, pc uint64, symname SymLookup) string {
	if symname == nil {
		symname = func(uint64) (string, uint64) { return "", 0 }
	}
	var args []string
	for i := len(inst.Args) - 1; i >= 0; i-- {
		a := inst.Args[i]
		if a == nil {
			continue
		}
		args = append(args, plan9Arg(&inst, pc, symname, a))
	}

	var rep string
	var last Prefix
	for _, p := range inst.Prefix {
		if p == 0 || p.IsREX() || p.IsVEX() {
			break
		}

		switch {
		// Don't show prefixes implied by the instruction text.
		case p&0xFF00 == PrefixImplicit:
			continue
		// Only REP and REPN are recognized repeaters. Plan 9 syntax
		// treats them as separate opcodes.
		case p&0xFF == PrefixREP:
			rep = "REP; "
		case p&0xFF == PrefixREPN:
			rep = "REPNE; "
		default:
			last = p
		}
	}

	prefix := ""
	switch last & 0xFF {
	case 0, 0x66, 0x67:
		// ignore
	default:
		prefix += last.String() + " "
	}

	op := inst.Op.String()
	if plan9Suffix[inst.Op] {
		s := inst.DataSize
		if inst.MemBytes != 0 {
			s = inst.MemBytes * 8
		} else if inst.Args[1] == nil { // look for register-only 64-bit instruction, like PUSHQ AX
			if r, ok := inst.Args[0].(Reg); ok && RAX <= r && r <= R15 {
				s = 64
			}
		}
		switch s {
		case 8:
			op += "B"
		case 16:
			op += "W"
		case 32:
			op += "L"
		case 64:
			op += "Q"
		}
	}

	if inst.Op == CMP {
		// Use reads-left-to-right ordering for comparisons.
		// See issue 60920.
		args[0], args[1] = args[1], args[0]
	}

	if args != nil {
		op += " " + strings.Join(args, ", ")
	}

	return rep + prefix + op
}

func plan9Arg(inst *Inst, pc uint64, symname func(uint64) (string, uint64), arg Arg) string {
	switch a := arg.(type) {
	case Reg:
		return plan9Reg[a]
	case Rel:
		if pc == 0 {
			break
		}
		// If the absolute address is the start of a symbol, use the name.
		// Otherwise use the raw address, so that things like relative
		// jumps show up as JMP 0x123 instead of JMP f+10(SB).
		// It is usually easier to search for 0x123 than to do the mental
		// arithmetic to find f+10.
		addr := pc + uint64(inst.Len) + uint64(a)
		if s, base := symname(addr); s != "" && addr == base {
			return fmt.Sprintf("%s(SB)", s)
		}
		return fmt.Sprintf("%#x", addr)

	case Imm:
		if (inst.Op == MOV || inst.Op == PUSH) && inst.DataSize == 32 {
			// Only try to convert an immediate to a symbol in certain
			// special circumstances. See issue 72942.
			//
			// On 64-bit, symbol addresses always hit the Mem case below.
			// Particularly, we use LEAQ to materialize the address of
			// a global or function.
			//
			// On 32-bit, we sometimes use MOVL. Still try to symbolize
			// those immediates.
			if s, base := symname(uint64(a)); s != "" {
				suffix := ""
				if uint64(a) != base {
					suffix = fmt.Sprintf("%+d", uint64(a)-base)
				}
				return fmt.Sprintf("$%s%s(SB)", s, suffix)
			}
		}
		if inst.Mode == 32 {
			return fmt.Sprintf("$%#x", uint32(a))
		}
		if Imm(int32(a)) == a {
			return fmt.Sprintf("$%#x", int64(a))
		}
		return fmt.Sprintf("$%#x", uint64(a))
	case Mem:
		if s, disp := memArgToSymbol(a, pc, inst.Len, symname); s != "" {
			suffix := ""
			if disp != 0 {
				suffix = fmt.Sprintf("%+d", disp)
			}
			return fmt.Sprintf("%s%s(SB)", s, suffix)
		}
		s := ""
		if a.Segment != 0 {
			s += fmt.Sprintf("%s:", plan9Reg[a.Segment])
		}
		if a.Disp != 0 {
			s += fmt.Sprintf("%#x", a.Disp)
		} else {
			s += "0"
		}
		if a.Base != 0 {
			s += fmt.Sprintf("(%s)", plan9Reg[a.Base])
		}
		if a.Index != 0 && a.Scale != 0 {
			s += fmt.Sprintf("(%s*%d)", plan9Reg[a.Index], a.Scale)
		}
		return s
	}
	return arg.String()
}

func memArgToSymbol(a Mem, pc uint64, instrLen int, symname SymLookup) (string, int64) {
	if a.Segment != 0 || a.Disp == 0 || a.Index != 0 || a.Scale != 0 {
		return "", 0
	}

	var disp uint64
	switch a.Base {
	case IP, EIP, RIP:
		disp = uint64(a.Disp + int64(pc) + int64(instrLen))
	case 0:
		disp = uint64(a.Disp)
	default:
		return "", 0
	}

	s, base := symname(disp)
	return s, int64(disp) - int64(base)
}

var plan9Suffix = [maxOp + 1]bool{
	ADC:       true,
	ADD:       true,
	AND:       true,
	BSF:       true,
	BSR:       true,
	BT:        true,
	BTC:       true,
	BTR:       true,
	BTS:       true,
	CMP:       true,
	CMPXCHG:   true,
	CVTSI2SD:  true,
	CVTSI2SS:  true,
	CVTSD2SI:  true,
	CVTSS2SI:  true,
	CVTTSD2SI: true,
	CVTTSS2SI: true,
	DEC:       true,
	DIV:       true,
	FLDENV:    true,
	FRSTOR:    true,
	IDIV:      true,
	IMUL:      true,
	IN:        true,
	INC:       true,
	LEA:       true,
	MOV:       true,
	MOVNTI:    true,
	MUL:       true,
	NEG:       true,
	NOP:       true,
	NOT:       true,
	OR:        true,
	OUT:       true,
	POP:       true,
	POPA:      true,
	POPCNT:    true,
	PUSH:      true,
	PUSHA:     true,
	RCL:       true,
	RCR:       true,
	ROL:       true,
	ROR:       true,
	SAR:       true,
	SBB:       true,
	SHL:       true,
	SHLD:      true,
	SHR:       true,
	SHRD:      true,
	SUB:       true,
	TEST:      true,
	XADD:      true,
	XCHG:      true,
	XOR:       true,
}

var plan9Reg = [...]string{
	AL:   "AL",
	CL:   "CL",
	BL:   "BL",
	DL:   "DL",
	AH:   "AH",
	CH:   "CH",
	BH:   "BH",
	DH:   "DH",
	SPB:  "SP",
	BPB:  "BP",
	SIB:  "SI",
	DIB:  "DI",
	R8B:  "R8",
	R9B:  "R9",
	R10B: "R10",
	R11B: "R11",
	R12B: "R12",
	R13B: "R13",
	R14B: "R14",
	R15B: "R15",
	AX:   "AX",
	CX:   "CX",
	BX:   "BX",
	DX:   "DX",
	SP:   "SP",
	BP:   "BP",
	SI:   "SI",
	DI:   "DI",
	R8W:  "R8",
	R9W:  "R9",
	R10W: "R10",
	R11W: "R11",
	R12W: "R12",
	R13W: "R13",
	R14W: "R14",
	R15W: "R15",
	EAX:  "AX",
	ECX:  "CX",
	EDX:  "DX",
	EBX:  "BX",
	ESP:  "SP",
	EBP:  "BP",
	ESI:  "SI",
	EDI:  "DI",
	R8L:  "R8",
	R9L:  "R9",
	R10L: "R10",
	R11L: "R11",
	R12L: "R12",
	R13L: "R13",
	R14L: "R14",
	R15L: "R15",
	RAX:  "AX",
	RCX:  "CX",
	RDX:  "DX",
	RBX:  "BX",
	RSP:  "SP",
	RBP:  "BP",
	RSI:  "SI",
	RDI:  "DI",
	R8:   "R8",
	R9:   "R9",
	R10:  "R10",
	R11:  "R11",
	R12:  "R12",
	R13:  "R13",
	R14:  "R14",
	R15:  "R15",
	IP:   "IP",
	EIP:  "IP",
	RIP:  "IP",
	F0:   "F0",
	F1:   "F1",
	F2:   "F2",
	F3:   "F3",
	F4:   "F4",
	F5:   "F5",
	F6:   "F6",
	F7:   "F7",
	M0:   "M0",
	M1:   "M1",
	M2:   "M2",
	M3:   "M3",
	M4:   "M4",
	M5:   "M5",
	M6:   "M6",
	M7:   "M7",
	X0:   "X0",
	X1:   "X1",
	X2:   "X2",
	X3:   "X3",
	X4:   "X4",
	X5:   "X5",
	X6:   "X6",
	X7:   "X7",
	X8:   "X8",
	X9:   "X9",
	X10:  "X10",
	X11:  "X11",
	X12:  "X12",
	X13:  "X13",
	X14:  "X14",
	X15:  "X15",
	CS:   "CS",
	SS:   "SS",
	DS:   "DS",
	ES:   "ES",
	FS:   "FS",
	GS:   "GS",
	GDTR: "GDTR",
	IDTR: "IDTR",
	LDTR: "LDTR",
	MSW:  "MSW",
	TASK: "TASK",
	CR0:  "CR0",
	CR1:  "CR1",
	CR2:  "CR2",
	CR3:  "CR3",
	CR4:  "CR4",
	CR5:  "CR5",
	CR6:  "CR6",
	CR7:  "CR7",
	CR8:  "CR8",
	CR9:  "CR9",
	CR10: "CR10",
	CR11: "CR11",
	CR12: "CR12",
	CR13: "CR13",
	CR14: "CR14",
	CR15: "CR15",
	DR0:  "DR0",
	DR1:  "DR1",
	DR2:  "DR2",
	DR3:  "DR3",
	DR4:  "DR4",
	DR5:  "DR5",
	DR6:  "DR6",
	DR7:  "DR7",
	DR8:  "DR8",
	DR9:  "DR9",
	DR10: "DR10",
	DR11: "DR11",
	DR12: "DR12",
	DR13: "DR13",
	DR14: "DR14",
	DR15: "DR15",
	TR0:  "TR0",
	TR1:  "TR1",
	TR2:  "TR2",
	TR3:  "TR3",
	TR4:  "TR4",
	TR5:  "TR5",
	TR6:  "TR6",
	TR7:  "TR7",
}
