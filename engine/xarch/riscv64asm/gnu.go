// Copyright 2024 The Go Authors. All rights reserved.
// Use of this source code is governed by a BSD-style
// license that can be found in the LICENSE file.

package riscv64asm

import (
	"strings"
)

// GNUSyntax returns the GNU assembler syntax for the instruction, as defined by GNU binutils.
// This form typically matches the syntax defined in the RISC-V Instruction Set Manual. See
// https://github.com/riscv/riscv-isa-manual/releases/download/Ratified-IMAFDQC/riscv-spec-20191213.pdf
func GNUSyntax(inst Inst) string {
	hasVectorArg := false
	var args []string
	for _, a := range inst.Args {
		if a == nil {
			break
		}
		args = append(args, strings.ToLower(a.String()))
		if r, ok := a.(Reg); ok {
			hasVectorArg = hasVectorArg || (r >= V0 && r <= V31)
		}
	}

	if hasVectorArg {
		return gnuVectorOp(inst, args)
	}

	op := strings.ToLower(inst.Op.String())
	switch inst.Op {
	case ADDI, ADDIW, ANDI, ORI, SLLI, SLLIW, SRAI, SRAIW, SRLI, SRLIW, XORI:
		if inst.Op == ADDI {
			if inst.Args[1].(Reg) == X0 && inst.Args[0].(Reg) != X0 {
				op = "li"
				args[1] = args[2]
				args = args[:len(args)-1]
				break
			}

			if inst.Args[2].(Simm).Imm == 0 {
				if inst.Args[0].(Reg) == X0 && inst.Args[1].(Reg) == X0 {
					op = "nop"
					args = nil
				} else {
					op = "mv"
					args = args[:len(args)-1]
				}
			}
		}

		if inst.Op == ANDI && inst.Args[2].(Simm).Imm == 255 {
			op = "zext.b"
			args = args[:len(args)-1]
		}

		if inst.Op == ADDIW && inst.Args[2].(Simm).Imm == 0 {
			op = "sext.w"
			args = args[:len(args)-1]
		}

		if inst.Op == XORI && inst.Args[2].(Simm).String() == "-1" {
			op = "not"
			args = args[:len(args)-1]
		}

	case ADD:
		if inst.Args[1].(Reg) == X0 {
			op = "mv"
			args[1] = args[2]
			args = args[:len(args)-1]
		}

	case BEQ:
		if inst.Args[1].(Reg) == X0 {
			op = "beqz"
			args[1] = args[2]
			args = args[:len(args)-1]
		}

	case BGE:
		if inst.Args[1].(Reg) == X0 {
			op = "bgez"
			args[1] = args[2]
			args = args[:len(args)-1]
		} else if inst.Args[0].(Reg) == X0 {
			op = "blez"
			args[0], args[1] = args[1], args[2]
			args = args[:len(args)-1]
		}

	case BLT:
		if inst.Args[1].(Reg) == X0 {
			op = "bltz"
			args[1] = args[2]
			args = args[:len(args)-1]
		} else if inst.Args[0].(Reg) == X0 {
			op = "bgtz"
			args[0], args[1] = args[1], args[2]
			args = args[:len(args)-1]
		}

	case BNE:
		if inst.Args[1].(Reg) == X0 {
			op = "bnez"
			args[1] = args[2]
			args = args[:len(args)-1]
		}

	case CSRRC:
		if inst.Args[0].(Reg) == X0 {
			op = "csrc"
			args[0], args[1] = args[1], args[2]
			args = args[:len(args)-1]
		}

	case CSRRCI:
		if inst.Args[0].(Reg) == X0 {
			op = "csrci"
			args[0], args[1] = args[1], args[2]
			args = args[:len(args)-1]
		}

	case CSRRS:
		if inst.Args[2].(Reg) == X0 {
			switch inst.Args[1].(CSR) {
			case FCSR:
				op = "frcsr"
				args = args[:len(args)-2]

			case FFLAGS:
				op = "frflags"
				args = args[:len(args)-2]

			case FRM:
				op = "frrm"
				args = args[:len(args)-2]

			// rdcycleh, rdinstreth and rdtimeh are RV-32 only instructions.
			// So not included there.
			case CYCLE:
				op = "rdcycle"
				args = args[:len(args)-2]

			case INSTRET:
				op = "rdinstret"
				args = args[:len(args)-2]

			case TIME:
				op = "rdtime"
				args = args[:len(args)-2]

			default:
				op = "csrr"
				args = args[:len(args)-1]
			}
		} else if inst.Args[0].(Reg) == X0 {
			op = "csrs"
			args[0], args[1] = args[1], args[2]
			args = args[:len(args)-1]
		}

	case CSRRSI:
		if inst.Args[0].(Reg) == X0 {
			op = "csrsi"
			args[0], args[1] = args[1], args[2]
			args = args[:len(args)-1]
		}

	case CSRRW:
		switch inst.Args[1].(CSR) {
		case FCSR:
			op = "fscsr"
			if inst.Args[0].(Reg) == X0 {
				args[0] = args[2]
				args = args[:len(args)-2]
			} else {
				args[1] = args[2]
				args = args[:len(args)-1]
			}

		case FFLAGS:
			op = "fsflags"
			if inst.Args[0].(Reg) == X0 {
				args[0] = args[2]
				args = args[:len(args)-2]
			} else {
				args[1] = args[2]
				args = args[:len(args)-1]
			}

		case FRM:
			op = "fsrm"
			if inst.Args[0].(Reg) == X0 {
				args[0] = args[2]
				args = args[:len(args)-2]
			} else {
				args[1] = args[2]
				args = args[:len(args)-1]
			}

		case CYCLE:
			if inst.Args[0].(Reg) == X0 && inst.Args[2].(Reg) == X0 {
				op = "unimp"
				args = nil
			}

		default:
			if inst.Args[0].(Reg) == X0 {
				op = "csrw"
				args[0], args[1] = args[1], args[2]
				args = args[:len(args)-1]
			}
		}

	case CSRRWI:
		if inst.Args[0].(Reg) == X0 {
			op = "csrwi"
			args[0], args[1] = args[1], args[2]
			args = args[:len(args)-1]
		}

	// When both pred and succ equals to iorw, the GNU objdump will omit them.
	case FENCE:
		if inst.Args[0].(MemOrder).String() == "iorw" &&
			inst.Args[1].(MemOrder).String() == "iorw" {
			args = nil
		}

	case FSGNJX_D:
		if inst.Args[1].(Reg) == inst.Args[2].(Reg) {
			op = "fabs.d"
			args = args[:len(args)-1]
		}

	case FSGNJX_S:
		if inst.Args[1].(Reg) == inst.Args[2].(Reg) {
			op = "fabs.s"
			args = args[:len(args)-1]
		}

	case FSGNJ_D:
		if inst.Args[1].(Reg) == inst.Args[2].(Reg) {
			op = "fmv.d"
			args = args[:len(args)-1]
		}

	case FSGNJ_S:
		if inst.Args[1].(Reg) == inst.Args[2].(Reg) {
			op = "fmv.s"
			args = args[:len(args)-1]
		}

	case FSGNJN_D:
		if inst.Args[1].(Reg) == inst.Args[2].(Reg) {
			op = "fneg.d"
			args = args[:len(args)-1]
		}

	case FSGNJN_S:
		if inst.Args[1].(Reg) == inst.Args[2].(Reg) {
			op = "fneg.s"
			args = args[:len(args)-1]
		}

	case JAL:
		if inst.Args[0].(Reg) == X0 {
			op = "j"
			args[0] = args[1]
			args = args[:len(args)-1]
		} else if inst.Args[0].(Reg) == X1 {
			op = "jal"
			args[0] = args[1]
			args = args[:len(args)-1]
		}

	case JALR:
		if inst.Args[0].(Reg) == X1 && inst.Args[1].(RegOffset).Ofs.Imm == 0 {
			args[0] = inst.Args[1].(RegOffset).OfsReg.String()
			args = args[:len(args)-1]
		}

		if inst.Args[0].(Reg) == X0 {
			if inst.Args[1].(RegOffset).OfsReg == X1 && inst.Args[1].(RegOffset).Ofs.Imm == 0 {
				op = "ret"
				args = nil
			} else if inst.Args[1].(RegOffset).Ofs.Imm == 0 {
				op = "jr"
				args[0] = inst.Args[1].(RegOffset).OfsReg.String()
				args = args[:len(args)-1]
			} else {
				op = "jr"
				args[0] = inst.Args[1].(RegOffset).String()
				args = args[:len(args)-1]
			}
		}

	case SLTIU:
		if inst.Args[2].(Simm).String() == "1" {
			op = "seqz"
			args = args[:len(args)-1]
		}

	case SLT:
		if inst.Args[1].(Reg) == X0 {
			op = "sgtz"
			args[1] = args[2]
			args = args[:len(args)-1]
		} else if inst.Args[2].(Reg) == X0 {
			op = "sltz"
			args = args[:len(args)-1]
		}

	case SLTU:
		if inst.Args[1].(Reg) == X0 {
			op = "snez"
			args[1] = args[2]
			args = args[:len(args)-1]
		}

	case SUB:
		if inst.Args[1].(Reg) == X0 {
			op = "neg"
			args[1] = args[2]
			args = args[:len(args)-1]
		}

	case SUBW:
		if inst.Args[1].(Reg) == X0 {
			op = "negw"
			args[1] = args[2]
			args = args[:len(args)-1]
		}

	case VSETVLI, VSETIVLI:
		args[0], args[2] = args[2], strings.ReplaceAll(args[0], " ", "")

	case VSETVL:
		args[0], args[2] = args[2], args[0]
	}

	if args != nil {
		op += " " + strings.Join(args, ",")
	}
	return op
}

func gnuVectorOp(inst Inst, args []string) string {
	// Instruction is either a vector load, store or an arithmetic
	// operation. We can use the inst.Enc to figure out which. Whatever
	// it is, it has at least one argument.

	rawArgs := inst.Args[:]

	var mask string
	var op string
	if inst.Enc&(1<<25) == 0 {
		if implicitMask(inst.Op) {
			mask = "v0"
		} else {
			mask = "v0.t"
			args = args[1:]
			rawArgs = rawArgs[1:]
		}
	}

	if len(args) > 1 {
		if inst.Enc&0x7f == 0x7 || inst.Enc&0x7f == 0x27 {
			// It's a load or a store
			if len(args) >= 2 {
				args[0], args[len(args)-1] = args[len(args)-1], args[0]
			}
			op = pseudoRVVLoad(inst.Op)
		} else {
			// It's an arithmetic instruction

			op, args = pseudoRVVArith(inst.Op, rawArgs, args)

			if len(args) == 3 {
				if imaOrFma(inst.Op) {
					args[0], args[2] = args[2], args[0]
				} else {
					args[0], args[1], args[2] = args[2], args[0], args[1]
				}
			} else if len(args) == 2 {
				args[0], args[1] = args[1], args[0]
			}
		}
	}

	// The mask is always the last argument

	if mask != "" {
		args = append(args, mask)
	}

	if op == "" {
		op = inst.Op.String()
	}
	op = strings.ToLower(op)

	return op + " " + strings.Join(args, ",")
}
