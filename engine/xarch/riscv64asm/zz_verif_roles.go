// Added for /verif (not part of golang.org/x/arch): read-only accessor that exposes, for each
// non-compressed opcode, the field roles of its arguments as recorded in x/arch's own format
// table (instFormats). The decoder itself is untouched.

package riscv64asm

var verifRoleNames = map[argType]string{
	arg_rd: "rd", arg_rs1: "rs1", arg_rs2: "rs2", arg_rs3: "rs3",
	arg_fd: "fd", arg_fs1: "fs1", arg_fs2: "fs2", arg_fs3: "fs3",
	arg_vd: "vd", arg_vm: "vm", arg_vs1: "vs1", arg_vs2: "vs2", arg_vs3: "vs3",
	arg_csr: "csr", arg_rs1_ptr: "rs1_ptr", arg_rs1_mem: "rs1_mem", arg_rs1_store: "rs1_store",
	arg_pred: "pred", arg_succ: "succ", arg_zimm: "zimm", arg_imm12: "imm12", arg_simm12: "simm12",
	arg_simm5: "simm5", arg_zimm5: "zimm5", arg_vtype_zimm10: "vtype10", arg_vtype_zimm11: "vtype11",
	arg_bimm12: "bimm12", arg_imm20: "imm20", arg_jimm20: "jimm20", arg_shamt5: "shamt5", arg_shamt6: "shamt6",
}

// VerifRoles maps an Op to the roles of its arguments (32-bit encodings only). Ops whose
// 32-bit formats disagree on the role list are reported in VerifRoleConflicts.
var VerifRoles = map[Op][]string{}
var VerifRoleConflicts []Op

func init() {
	for _, f := range instFormats {
		if f.value&3 != 3 {
			continue // compressed
		}
		var roles []string
		for _, a := range f.args {
			if a == 0 {
				break
			}
			n, ok := verifRoleNames[a]
			if !ok {
				n = "?"
			}
			roles = append(roles, n)
		}
		if old, ok := VerifRoles[f.op]; ok {
			same := len(old) == len(roles)
			for i := 0; same && i < len(old); i++ {
				same = old[i] == roles[i]
			}
			if !same {
				VerifRoleConflicts = append(VerifRoleConflicts, f.op)
			}
			continue
		}
		VerifRoles[f.op] = roles
	}
}

// VerifReg exposes the (unexported) register of a RegPtr argument.
func (regPtr RegPtr) VerifReg() Reg { return regPtr.reg }
