// Copyright 2024 The Go Authors. All rights reserved.
// Use of this source code is governed by a BSD-style
// license that can be found in the LICENSE file.

package riscv64asm

import (
	"fmt"
	"io"
	"strconv"
	"strings"
)

// GoSyntax returns the Go assembler syntax for the instruction.
// The syntax was originally defined by Plan 9.
// The pc is the program counter of the instruction, used for
// expanding PC-relative addresses into absolute ones.
// The symname function queries the symbol table for the program
// being disassembled. Given a target address it returns the name
// and base address of the symbol containing the target, if any;
// otherwise it returns "", 0.
// The reader text should read from the text segment using text addresses
// as offsets; it is used to display pc-relative loads as constant loads.
func GoSyntax(inst Inst, pc uint64, symname func(uint64) (string, uint64), text io.ReaderAt) string {
	if symname == nil {
		symname = func(uint64) (string, uint64) { return "", 0 }
	}

	hasVectorArg := false
	var args []string
	for _, a := range inst.Args {
		if a == nil {
			break
		}
		args = append(args, plan9Arg(&inst, pc, symname, a))
		if r, ok := a.(Reg); ok {
			hasVectorArg = hasVectorArg || (r >= V0 && r <= V31)
		}
	}

	if hasVectorArg {
		return plan9VectorOp(inst, args)
	}

	op := inst.Op.String()

	switch inst.Op {

	case AMOADD_D, AMOADD_D_AQ, AMOADD_D_RL, AMOADD_D_AQRL, AMOADD_W, AMOADD_W_AQ,
		AMOADD_W_RL, AMOADD_W_AQRL, AMOAND_D, AMOAND_D_AQ, AMOAND_D_RL, AMOAND_D_AQRL,
		AMOAND_W, AMOAND_W_AQ, AMOAND_W_RL, AMOAND_W_AQRL, AMOMAXU_D, AMOMAXU_D_AQ,
		AMOMAXU_D_RL, AMOMAXU_D_AQRL, AMOMAXU_W, AMOMAXU_W_AQ, AMOMAXU_W_RL, AMOMAXU_W_AQRL,
		AMOMAX_D, AMOMAX_D_AQ, AMOMAX_D_RL, AMOMAX_D_AQRL, AMOMAX_W, AMOMAX_W_AQ, AMOMAX_W_RL,
		AMOMAX_W_AQRL, AMOMINU_D, AMOMINU_D_AQ, AMOMINU_D_RL, AMOMINU_D_AQRL, AMOMINU_W,
		AMOMINU_W_AQ, AMOMINU_W_RL, AMOMINU_W_AQRL, AMOMIN_D, AMOMIN_D_AQ, AMOMIN_D_RL,
		AMOMIN_D_AQRL, AMOMIN_W, AMOMIN_W_AQ, AMOMIN_W_RL, AMOMIN_W_AQRL, AMOOR_D, AMOOR_D_AQ,
		AMOOR_D_RL, AMOOR_D_AQRL, AMOOR_W, AMOOR_W_AQ, AMOOR_W_RL, AMOOR_W_AQRL, AMOSWAP_D,
		AMOSWAP_D_AQ, AMOSWAP_D_RL, AMOSWAP_D_AQRL, AMOSWAP_W, AMOSWAP_W_AQ, AMOSWAP_W_RL,
		AMOSWAP_W_AQRL, AMOXOR_D, AMOXOR_D_AQ, AMOXOR_D_RL, AMOXOR_D_AQRL, AMOXOR_W,
		AMOXOR_W_AQ, AMOXOR_W_RL, AMOXOR_W_AQRL, SC_D, SC_D_AQ, SC_D_RL, SC_D_AQRL,
		SC_W, SC_W_AQ, SC_W_RL, SC_W_AQRL:
		// Atomic instructions have special operand order.
		args[2], args[1] = args[1], args[2]

	case ADDI:
		if inst.Args[2].(Simm).Imm == 0 {
			op = "MOV"
			args = args[:len(args)-1]
		}

	case ADDIW:
		if inst.Args[2].(Simm).Imm == 0 {
			op = "MOVW"
			args = args[:len(args)-1]
		}

	case ANDI:
		if inst.Args[2].(Simm).Imm == 255 {
			op = "MOVBU"
			args = args[:len(args)-1]
		}

	case BEQ:
		if inst.Args[1].(Reg) == X0 {
			op = "BEQZ"
			args[1] = args[2]
			args = args[:len(args)-1]
		}
		for i, j := 0, len(args)-1; i < j; i, j = i+1, j-1 {
			args[i], args[j] = args[j], args[i]
		}

	case BGE:
		if inst.Args[1].(Reg) == X0 {
			op = "BGEZ"
			args[1] = args[2]
			args = args[:len(args)-1]
		}
		for i, j := 0, len(args)-1; i < j; i, j = i+1, j-1 {
			args[i], args[j] = args[j], args[i]
		}

	case BLT:
		if inst.Args[1].(Reg) == X0 {
			op = "BLTZ"
			args[1] = args[2]
			args = args[:len(args)-1]
		}
		for i, j := 0, len(args)-1; i < j; i, j = i+1, j-1 {
			args[i], args[j] = args[j], args[i]
		}

	case BNE:
		if inst.Args[1].(Reg) == X0 {
			op = "BNEZ"
			args[1] = args[2]
			args = args[:len(args)-1]
		}
		for i, j := 0, len(args)-1; i < j; i, j = i+1, j-1 {
			args[i], args[j] = args[j], args[i]
		}

	case BLTU, BGEU:
		for i, j := 0, len(args)-1; i < j; i, j = i+1, j-1 {
			args[i], args[j] = args[j], args[i]
		}

	case CSRRW:
		switch inst.Args[1].(CSR) {
		case FCSR:
			op = "FSCSR"
			args[1] = args[2]
			args = args[:len(args)-1]
		case FFLAGS:
			op = "FSFLAGS"
			args[1] = args[2]
			args = args[:len(args)-1]
		case FRM:
			op = "FSRM"
			args[1] = args[2]
			args = args[:len(args)-1]
		case CYCLE:
			if inst.Args[0].(Reg) == X0 && inst.Args[2].(Reg) == X0 {
				op = "UNIMP"
				args = nil
			}
		}

	case CSRRS:
		if inst.Args[2].(Reg) == X0 {
			switch inst.Args[1].(CSR) {
			case FCSR:
				op = "FRCSR"
				args = args[:len(args)-2]
			case FFLAGS:
				op = "FRFLAGS"
				args = args[:len(args)-2]
			case FRM:
				op = "FRRM"
				args = args[:len(args)-2]
			case CYCLE:
				op = "RDCYCLE"
				args = args[:len(args)-2]
			case CYCLEH:
				op = "RDCYCLEH"
				args = args[:len(args)-2]
			case INSTRET:
				op = "RDINSTRET"
				args = args[:len(args)-2]
			case INSTRETH:
				op = "RDINSTRETH"
				args = args[:len(args)-2]
			case TIME:
				op = "RDTIME"
				args = args[:len(args)-2]
			case TIMEH:
				op = "RDTIMEH"
				args = args[:len(args)-2]
			}
		}

	// Fence instruction in plan9 doesn't have any operands.
	case FENCE:
		args = nil

	case FMADD_D, FMADD_H, FMADD_Q, FMADD_S, FMSUB_D, FMSUB_H,
		FMSUB_Q, FMSUB_S, FNMADD_D, FNMADD_H, FNMADD_Q, FNMADD_S,
		FNMSUB_D, FNMSUB_H, FNMSUB_Q, FNMSUB_S:
		args[1], args[3] = args[3], args[1]

	case FMV_W_X:
		if inst.Args[1].(Reg) == X0 {
			args[1] = "$(0.0)"
		}
		fallthrough
	case FMV_X_W:
		op = "MOVF"

	case FMV_D_X:
		if inst.Args[1].(Reg) == X0 {
			args[1] = "$(0.0)"
		}
		fallthrough
	case FMV_X_D:
		op = "MOVD"

	case FSGNJ_S:
		if inst.Args[2] == inst.Args[1] {
			op = "MOVF"
			args = args[:len(args)-1]
		}

	case FSGNJ_D:
		if inst.Args[2] == inst.Args[1] {
			op = "MOVD"
			args = args[:len(args)-1]
		}

	case FSGNJX_S:
		if inst.Args[2] == inst.Args[1] {
			op = "FABSS"
			args = args[:len(args)-1]
		}

	case FSGNJX_D:
		if inst.Args[2] == inst.Args[1] {
			op = "FABSD"
			args = args[:len(args)-1]
		}

	case FSGNJN_S:
		if inst.Args[2] == inst.Args[1] {
			op = "FNEGS"
			args = args[:len(args)-1]
		}

	case FSGNJN_D:
		if inst.Args[2] == inst.Args[1] {
			op = "FNESD"
			args = args[:len(args)-1]
		}

	case LD, SD:
		op = "MOV"
		if inst.Op == SD {
			args[0], args[1] = args[1], args[0]
		}

	case LB, SB:
		op = "MOVB"
		if inst.Op == SB {
			args[0], args[1] = args[1], args[0]
		}

	case LH, SH:
		op = "MOVH"
		if inst.Op == SH {
			args[0], args[1] = args[1], args[0]
		}

	case LW, SW:
		op = "MOVW"
		if inst.Op == SW {
			args[0], args[1] = args[1], args[0]
		}

	case LBU:
		op = "MOVBU"

	case LHU:
		op = "MOVHU"

	case LWU:
		op = "MOVWU"

	case FLW, FSW:
		op = "MOVF"
		if inst.Op == FSW {
			args[0], args[1] = args[1], args[0]
		}

	case FLD, FSD:
		op = "MOVD"
		if inst.Op == FSD {
			args[0], args[1] = args[1], args[0]
		}

	case SUB:
		if inst.Args[1].(Reg) == X0 {
			op = "NEG"
			args[1] = args[2]
			args = args[:len(args)-1]
		}

	case XORI:
		if inst.Args[2].(Simm).String() == "-1" {
			op = "NOT"
			args = args[:len(args)-1]
		}

	case SLTIU:
		if inst.Args[2].(Simm).Imm == 1 {
			op = "SEQZ"
			args = args[:len(args)-1]
		}

	case SLTU:
		if inst.Args[1].(Reg) == X0 {
			op = "SNEZ"
			args[1] = args[2]
			args = args[:len(args)-1]
		}

	case JAL:
		if inst.Args[0].(Reg) == X0 {
			op = "JMP"
			args[0] = args[1]
			args = args[:len(args)-1]
		} else if inst.Args[0].(Reg) == X1 {
			op = "CALL"
			args[0] = args[1]
			args = args[:len(args)-1]
		} else {
			args[0], args[1] = args[1], args[0]
		}

	case JALR:
		if inst.Args[0].(Reg) == X0 {
			if inst.Args[1].(RegOffset).OfsReg == X1 && inst.Args[1].(RegOffset).Ofs.Imm == 0 {
				op = "RET"
				args = nil
				break
			}
			op = "JMP"
			args[0] = args[1]
			args = args[:len(args)-1]
		} else if inst.Args[0].(Reg) == X1 {
			op = "CALL"
			args[0] = args[1]
			args = args[:len(args)-1]
		} else {
			args[0], args[1] = args[1], args[0]
		}

	case VSETVLI, VSETIVLI:
		args[0], args[1], args[2] = args[2], args[0], args[1]

	case VSETVL:
		args[0], args[2] = args[2], args[0]
	}

	// Reverse args, placing dest last.
	for i, j := 0, len(args)-1; i < j; i, j = i+1, j-1 {
		args[i], args[j] = args[j], args[i]
	}

	// Change to plan9 opcode format
	// Atomic instructions do not have reorder suffix, so remove them
	op = strings.Replace(op, ".AQRL", "", -1)
	op = strings.Replace(op, ".AQ", "", -1)
	op = strings.Replace(op, ".RL", "", -1)
	op = strings.Replace(op, ".", "", -1)

	if args != nil {
		op += " " + strings.Join(args, ", ")
	}

	return op
}

func plan9Arg(inst *Inst, pc uint64, symname func(uint64) (string, uint64), arg Arg) string {
	switch a := arg.(type) {
	case Uimm:
		return fmt.Sprintf("$%d", uint32(a.Imm))

	case Simm:
		imm, _ := strconv.Atoi(a.String())
		if a.Width == 13 || a.Width == 21 {
			addr := int64(pc) + int64(imm)
			if s, base := symname(uint64(addr)); s != "" && uint64(addr) == base {
				return fmt.Sprintf("%s(SB)", s)
			}
			return fmt.Sprintf("%d(PC)", imm/4)
		}
		return fmt.Sprintf("$%d", int32(imm))

	case RegOffset:
		if a.Ofs.Imm == 0 {
			return fmt.Sprintf("(X%d)", a.OfsReg)
		} else {
			return fmt.Sprintf("%s(X%d)", a.Ofs.String(), a.OfsReg)
		}

	case RegPtr:
		return fmt.Sprintf("(X%d)", a.reg)

	default:
		return strings.ToUpper(arg.String())
	}
}

func plan9VectorOp(inst Inst, args []string) string {
	// Instruction is either a vector load, store or an arithmetic
	// operation. We can use the inst.Enc to figure out which. Whatever
	// it is, it has at least one argument.

	var op string
	rawArgs := inst.Args[:]

	var mask string
	if inst.Enc&(1<<25) == 0 {
		mask = "V0"
		if !implicitMask(inst.Op) {
			args = args[1:]
			rawArgs = rawArgs[1:]
		}
	}

	if len(args) > 1 {
		if inst.Enc&0x7f == 0x7 {
			// It's a load
			if len(args) == 3 {
				args[0], args[1] = args[1], args[0]
			}
			op = pseudoRVVLoad(inst.Op)
		} else if inst.Enc&0x7f == 0x27 {
			// It's a store
			if len(args) == 3 {
				args[0], args[1], args[2] = args[2], args[0], args[1]
			} else if len(args) == 2 {
				args[0], args[1] = args[1], args[0]
			}
		} else {
			// It's an arithmetic instruction

			op, args = pseudoRVVArith(inst.Op, rawArgs, args)

			if len(args) == 3 && !imaOrFma(inst.Op) {
				args[0], args[1] = args[1], args[0]
			}
		}
	}

	// The mask is always the penultimate argument

	if mask != "" {
		args = append(args[:len(args)-1], mask, args[len(args)-1])
	}

	if op == "" {
		op = inst.Op.String()
	}

	op = strings.Replace(op, ".", "", -1)
	return op + " " + strings.Join(args, ", ")
}
