// Copyright 2024 The Go Authors. All rights reserved.
// Use of this source code is governed by a BSD-style
// license that can be found in the LICENSE file.

package riscv64asm

import (
	"encoding/binary"
	"errors"
)

type argTypeList [6]argType

// An instFormat describes the format of an instruction encoding.
type instFormat struct {
	mask  uint32
	value uint32
	op    Op
	// args describe how to decode the instruction arguments.
	// args is stored as a fixed-size array.
	// if there are fewer than len(args) arguments, args[i] == 0 marks
	// the end of the argument list.
	args argTypeList
}

var (
	errShort   = errors.New("truncated instruction")
	errUnknown = errors.New("unknown instruction")
)

var decoderCover []bool

func init() {
	decoderCover = make([]bool, len(instFormats))
}

// Decode decodes the 4 bytes in src as a single instruction.
func Decode(src []byte) (Inst, error) {
	length := len(src)
	if length < 2 {
		return Inst{}, errShort
	}

	var x uint32
	// Non-RVC instructions always starts with 0x11
	// So check whether src[0] & 3 == 3
	if src[0]&3 == 3 {
		if length < 4 {
			return Inst{}, errShort
		}
		length = 4
		x = binary.LittleEndian.Uint32(src)
	} else {
		length = 2
		x = uint32(binary.LittleEndian.Uint16(src))
	}

Search:
	for i, f := range instFormats {
		if (x & f.mask) != f.value {
			continue
		}

		// Decode args.
		var args Args
		k := 0
		for _, aop := range f.args {
			if aop == 0 {
				break
			}
			arg := decodeArg(aop, x, i)
			if arg == nil {
				if aop == arg_vm {
					continue
				}
				if f.op != C_NOP {
					// Cannot decode argument.
					continue Search
				}
			}
			args[k] = arg
			k++
		}

		if length == 2 {
			args = convertCompressedIns(&f, args)
		}

		decoderCover[i] = true
		inst := Inst{
			Op:   f.op,
			Args: args,
			Enc:  x,
			Len:  length,
		}
		return inst, nil
	}
	return Inst{}, errUnknown
}

// decodeArg decodes the arg described by aop from the instruction bits x.
// It returns nil if x cannot be decoded according to aop.
func decodeArg(aop argType, x uint32, index int) Arg {
	switch aop {
	case arg_rd:
		return X0 + Reg((x>>7)&((1<<5)-1))

	case arg_rs1:
		return X0 + Reg((x>>15)&((1<<5)-1))

	case arg_rs2:
		return X0 + Reg((x>>20)&((1<<5)-1))

	case arg_rs3:
		return X0 + Reg((x>>27)&((1<<5)-1))

	case arg_fd:
		return F0 + Reg((x>>7)&((1<<5)-1))

	case arg_fs1:
		return F0 + Reg((x>>15)&((1<<5)-1))

	case arg_fs2:
		return F0 + Reg((x>>20)&((1<<5)-1))

	case arg_fs3:
		return F0 + Reg((x>>27)&((1<<5)-1))

	case arg_vd:
		return V0 + Reg((x>>7)&((1<<5)-1))

	case arg_vm:
		if x&(1<<25) == 0 {
			return V0
		} else {
			return nil
		}

	case arg_vs1:
		return V0 + Reg((x>>15)&((1<<5)-1))

	case arg_vs2:
		return V0 + Reg((x>>20)&((1<<5)-1))

	case arg_vs3:
		return V0 + Reg((x>>7)&((1<<5)-1))

	case arg_rs1_ptr:
		return RegPtr{X0 + Reg((x>>15)&((1<<5)-1))}

	case arg_rs1_mem:
		imm := x >> 20
		// Sign-extend
		if imm>>uint32(12-1) == 1 {
			imm |= 0xfffff << 12
		}
		return RegOffset{X0 + Reg((x>>15)&((1<<5)-1)), Simm{int32(imm), true, 12}}

	case arg_rs1_store:
		imm := (x<<20)>>27 | (x>>25)<<5
		// Sign-extend
		if imm>>uint32(12-1) == 1 {
			imm |= 0xfffff << 12
		}
		return RegOffset{X0 + Reg((x>>15)&((1<<5)-1)), Simm{int32(imm), true, 12}}

	case arg_pred:
		imm := x << 4 >> 28
		return MemOrder(uint8(imm))

	case arg_succ:
		imm := x << 8 >> 28
		return MemOrder(uint8(imm))

	case arg_csr:
		imm := x >> 20
		return CSR(imm)

	case arg_zimm:
		imm := x << 12 >> 27
		return Uimm{imm, true}

	case arg_shamt5:
		imm := x << 7 >> 27
		return Uimm{imm, false}

	case arg_shamt6:
		imm := x << 6 >> 26
		return Uimm{imm, false}

	case arg_imm12:
		imm := x >> 20
		// Sign-extend
		if imm>>uint32(12-1) == 1 {
			imm |= 0xfffff << 12
		}
		return Simm{int32(imm), true, 12}

	case arg_imm20:
		imm := x >> 12
		return Uimm{imm, false}

	case arg_jimm20:
		imm := (x>>31)<<20 | (x<<1)>>22<<1 | (x<<11)>>31<<11 | (x<<12)>>24<<12
		// Sign-extend
		if imm>>uint32(21-1) == 1 {
			imm |= 0x7ff << 21
		}
		return Simm{int32(imm), true, 21}

	case arg_simm12:
		imm := (x<<20)>>27 | (x>>25)<<5
		// Sign-extend
		if imm>>uint32(12-1) == 1 {
			imm |= 0xfffff << 12
		}
		return Simm{int32(imm), true, 12}

	case arg_bimm12:
		imm := (x<<20)>>28<<1 | (x<<1)>>26<<5 | (x<<24)>>31<<11 | (x>>31)<<12
		// Sign-extend
		if imm>>uint32(13-1) == 1 {
			imm |= 0x7ffff << 13
		}
		return Simm{int32(imm), true, 13}

	case arg_simm5:
		imm := x << 12 >> 27
		// Sign-extend
		if imm>>uint32(5-1) == 1 {
			imm |= 0x7ffffff << 5
		}
		return Simm{int32(imm), true, 5}

	case arg_zimm5:
		imm := x << 12 >> 27
		return Uimm{imm, true}

	case arg_vtype_zimm10:
		imm := x << 2 >> 22
		return VType(imm)

	case arg_vtype_zimm11:
		imm := x << 1 >> 21
		return VType(imm)

	case arg_rd_p, arg_rs2_p:
		return X8 + Reg((x>>2)&((1<<3)-1))

	case arg_fd_p, arg_fs2_p:
		return F8 + Reg((x>>2)&((1<<3)-1))

	case arg_rs1_p, arg_rd_rs1_p:
		return X8 + Reg((x>>7)&((1<<3)-1))

	case arg_rd_n0, arg_rs1_n0, arg_rd_rs1_n0, arg_c_rs1_n0:
		if X0+Reg((x>>7)&((1<<5)-1)) == X0 {
			return nil
		}
		return X0 + Reg((x>>7)&((1<<5)-1))

	case arg_c_rs2_n0:
		if X0+Reg((x>>2)&((1<<5)-1)) == X0 {
			return nil
		}
		return X0 + Reg((x>>2)&((1<<5)-1))

	case arg_c_fs2:
		return F0 + Reg((x>>2)&((1<<5)-1))

	case arg_c_rs2:
		return X0 + Reg((x>>2)&((1<<5)-1))

	case arg_rd_n2:
		if X0+Reg((x>>7)&((1<<5)-1)) == X0 || X0+Reg((x>>7)&((1<<5)-1)) == X2 {
			return nil
		}
		return X0 + Reg((x>>7)&((1<<5)-1))

	case arg_c_imm6:
		imm := (x<<25)>>27 | (x<<19)>>31<<5
		// Sign-extend
		if imm>>uint32(6-1) == 1 {
			imm |= 0x3ffffff << 6
		}
		return Simm{int32(imm), true, 6}

	case arg_c_nzimm6:
		imm := (x<<25)>>27 | (x<<19)>>31<<5
		// Sign-extend
		if imm>>uint32(6-1) == 1 {
			imm |= 0x3ffffff << 6
		}
		if int32(imm) == 0 {
			return nil
		}
		return Simm{int32(imm), true, 6}

	case arg_c_nzuimm6:
		imm := (x<<25)>>27 | (x<<19)>>31<<5
		if int32(imm) == 0 {
			return nil
		}
		return Uimm{imm, false}

	case arg_c_uimm7:
		imm := (x<<26)>>31<<6 | (x<<25)>>31<<2 | (x<<19)>>29<<3
		return Uimm{imm, false}

	case arg_c_uimm8:
		imm := (x<<25)>>30<<6 | (x<<19)>>29<<3
		return Uimm{imm, false}

	case arg_c_uimm8sp_s:
		imm := (x<<23)>>30<<6 | (x<<19)>>28<<2
		return Uimm{imm, false}

	case arg_c_uimm8sp:
		imm := (x<<25)>>29<<2 | (x<<19)>>31<<5 | (x<<28)>>30<<6
		return Uimm{imm, false}

	case arg_c_uimm9sp_s:
		imm := (x<<22)>>29<<6 | (x<<19)>>29<<3
		return Uimm{imm, false}

	case arg_c_uimm9sp:
		imm := (x<<25)>>30<<3 | (x<<19)>>31<<5 | (x<<27)>>29<<6
		return Uimm{imm, false}

	case arg_c_bimm9:
		imm := (x<<29)>>31<<5 | (x<<27)>>30<<1 | (x<<25)>>30<<6 | (x<<19)>>31<<8 | (x<<20)>>30<<3
		// Sign-extend
		if imm>>uint32(9-1) == 1 {
			imm |= 0x7fffff << 9
		}
		return Simm{int32(imm), true, 9}

	case arg_c_nzimm10:
		imm := (x<<29)>>31<<5 | (x<<27)>>30<<7 | (x<<26)>>31<<6 | (x<<25)>>31<<4 | (x<<19)>>31<<9
		// Sign-extend
		if imm>>uint32(10-1) == 1 {
			imm |= 0x3fffff << 10
		}
		if int32(imm) == 0 {
			return nil
		}
		return Simm{int32(imm), true, 10}

	case arg_c_nzuimm10:
		imm := (x<<26)>>31<<3 | (x<<25)>>31<<2 | (x<<21)>>28<<6 | (x<<19)>>30<<4
		if int32(imm) == 0 {
			return nil
		}
		return Uimm{imm, false}

	case arg_c_imm12:
		imm := (x<<29)>>31<<5 | (x<<26)>>28<<1 | (x<<25)>>31<<7 | (x<<24)>>31<<6 | (x<<23)>>31<<10 | (x<<21)>>30<<8 | (x<<20)>>31<<4 | (x<<19)>>31<<11
		// Sign-extend
		if imm>>uint32(12-1) == 1 {
			imm |= 0xfffff << 12
		}
		return Simm{int32(imm), true, 12}

	case arg_c_nzimm18:
		imm := (x<<25)>>27<<12 | (x<<19)>>31<<17
		// Sign-extend
		if imm>>uint32(18-1) == 1 {
			imm |= 0x3fff << 18
		}
		if int32(imm) == 0 {
			return nil
		}
		return Simm{int32(imm), true, 18}

	default:
		return nil
	}
}

// convertCompressedIns rewrites the RVC Instruction to regular Instructions
func convertCompressedIns(f *instFormat, args Args) Args {
	var newargs Args
	switch f.op {
	case C_ADDI4SPN:
		f.op = ADDI
		newargs[0] = args[0]
		newargs[1] = Reg(X2)
		newargs[2] = Simm{int32(args[1].(Uimm).Imm), true, 12}

	case C_LW:
		f.op = LW
		newargs[0] = args[0]
		newargs[1] = RegOffset{args[1].(Reg), Simm{int32(args[2].(Uimm).Imm), true, 12}}

	case C_SW:
		f.op = SW
		newargs[0] = args[1]
		newargs[1] = RegOffset{args[0].(Reg), Simm{int32(args[2].(Uimm).Imm), true, 12}}

	case C_NOP:
		f.op = ADDI
		newargs[0] = X0
		newargs[1] = X0
		newargs[2] = Simm{0, true, 12}

	case C_ADDI:
		f.op = ADDI
		newargs[0] = args[0]
		newargs[1] = args[0]
		newargs[2] = Simm{args[1].(Simm).Imm, true, 12}

	case C_LI:
		f.op = ADDI
		newargs[0] = args[0]
		newargs[1] = Reg(X0)
		newargs[2] = Simm{args[1].(Simm).Imm, true, 12}

	case C_ADDI16SP:
		f.op = ADDI
		newargs[0] = Reg(X2)
		newargs[1] = Reg(X2)
		newargs[2] = Simm{args[0].(Simm).Imm, true, 12}

	case C_LUI:
		f.op = LUI
		newargs[0] = args[0]
		newargs[1] = Uimm{uint32(args[1].(Simm).Imm >> 12), false}

	case C_ANDI:
		f.op = ANDI
		newargs[0] = args[0]
		newargs[1] = args[0]
		newargs[2] = Simm{args[1].(Simm).Imm, true, 12}

	case C_SUB:
		f.op = SUB
		newargs[0] = args[0]
		newargs[1] = args[0]
		newargs[2] = args[1]

	case C_XOR:
		f.op = XOR
		newargs[0] = args[0]
		newargs[1] = args[0]
		newargs[2] = args[1]

	case C_OR:
		f.op = OR
		newargs[0] = args[0]
		newargs[1] = args[0]
		newargs[2] = args[1]

	case C_AND:
		f.op = AND
		newargs[0] = args[0]
		newargs[1] = args[0]
		newargs[2] = args[1]

	case C_J:
		f.op = JAL
		newargs[0] = Reg(X0)
		newargs[1] = Simm{args[0].(Simm).Imm, true, 21}

	case C_BEQZ:
		f.op = BEQ
		newargs[0] = args[0]
		newargs[1] = Reg(X0)
		newargs[2] = Simm{args[1].(Simm).Imm, true, 13}

	case C_BNEZ:
		f.op = BNE
		newargs[0] = args[0]
		newargs[1] = Reg(X0)
		newargs[2] = Simm{args[1].(Simm).Imm, true, 13}

	case C_LWSP:
		f.op = LW
		newargs[0] = args[0]
		newargs[1] = RegOffset{Reg(X2), Simm{int32(args[1].(Uimm).Imm), true, 12}}

	case C_JR:
		f.op = JALR
		newargs[0] = Reg(X0)
		newargs[1] = RegOffset{args[0].(Reg), Simm{0, true, 12}}

	case C_MV:
		f.op = ADD
		newargs[0] = args[0]
		newargs[1] = Reg(X0)
		newargs[2] = args[1]

	case C_EBREAK:
		f.op = EBREAK

	case C_JALR:
		f.op = JALR
		newargs[0] = Reg(X1)
		newargs[1] = RegOffset{args[0].(Reg), Simm{0, true, 12}}

	case C_ADD:
		f.op = ADD
		newargs[0] = args[0]
		newargs[1] = args[0]
		newargs[2] = args[1]

	case C_SWSP:
		f.op = SW
		newargs[0] = args[0]
		newargs[1] = RegOffset{Reg(X2), Simm{int32(args[1].(Uimm).Imm), true, 12}}

	// riscv64 compressed instructions
	case C_LD:
		f.op = LD
		newargs[0] = args[0]
		newargs[1] = RegOffset{args[1].(Reg), Simm{int32(args[2].(Uimm).Imm), true, 12}}

	case C_SD:
		f.op = SD
		newargs[0] = args[1]
		newargs[1] = RegOffset{args[0].(Reg), Simm{int32(args[2].(Uimm).Imm), true, 12}}

	case C_ADDIW:
		f.op = ADDIW
		newargs[0] = args[0]
		newargs[1] = args[0]
		newargs[2] = Simm{args[1].(Simm).Imm, true, 12}

	case C_SRLI:
		f.op = SRLI
		newargs[0] = args[0]
		newargs[1] = args[0]
		newargs[2] = args[1]

	case C_SRAI:
		f.op = SRAI
		newargs[0] = args[0]
		newargs[1] = args[0]
		newargs[2] = args[1]

	case C_SUBW:
		f.op = SUBW
		newargs[0] = args[0]
		newargs[1] = args[0]
		newargs[2] = args[1]

	case C_ADDW:
		f.op = ADDW
		newargs[0] = args[0]
		newargs[1] = args[0]
		newargs[2] = args[1]

	case C_SLLI:
		f.op = SLLI
		newargs[0] = args[0]
		newargs[1] = args[0]
		newargs[2] = args[1]

	case C_LDSP:
		f.op = LD
		newargs[0] = args[0]
		newargs[1] = RegOffset{Reg(X2), Simm{int32(args[1].(Uimm).Imm), true, 12}}

	case C_SDSP:
		f.op = SD
		newargs[0] = args[0]
		newargs[1] = RegOffset{Reg(X2), Simm{int32(args[1].(Uimm).Imm), true, 12}}

	// riscv double precision floating point compressed instructions
	case C_FLD:
		f.op = FLD
		newargs[0] = args[0]
		newargs[1] = RegOffset{args[1].(Reg), Simm{int32(args[2].(Uimm).Imm), true, 12}}

	case C_FSD:
		f.op = FSD
		newargs[0] = args[1]
		newargs[1] = RegOffset{args[0].(Reg), Simm{int32(args[2].(Uimm).Imm), true, 12}}

	case C_FLDSP:
		f.op = FLD
		newargs[0] = args[0]
		newargs[1] = RegOffset{Reg(X2), Simm{int32(args[1].(Uimm).Imm), true, 12}}

	case C_FSDSP:
		f.op = FSD
		newargs[0] = args[0]
		newargs[1] = RegOffset{Reg(X2), Simm{int32(args[1].(Uimm).Imm), true, 12}}

	case C_UNIMP:
		f.op = CSRRW
		newargs[0] = Reg(X0)
		newargs[1] = CSR(CYCLE)
		newargs[2] = Reg(X0)
	}
	return newargs
}
