// Copyright 2025 The Go Authors. All rights reserved.
// Use of this source code is governed by a BSD-style
// license that can be found in the LICENSE file.

package riscv64asm

// This file contains some utility functions that can be used to decode
// vector instructions into both gnu and plan9 assembly.

func implicitMask(instOp Op) bool {
	switch instOp {
	case VADC_VIM, VADC_VVM, VADC_VXM, VFMERGE_VFM, VMADC_VIM, VMADC_VVM,
		VMADC_VXM, VMERGE_VIM, VMERGE_VVM, VMERGE_VXM, VMSBC_VVM, VMSBC_VXM,
		VSBC_VVM, VSBC_VXM:
		return true

	default:
		return false
	}
}

func imaOrFma(instOp Op) bool {
	switch instOp {
	case VFMACC_VF, VFMACC_VV, VFMADD_VF, VFMADD_VV, VFMSAC_VF, VFMSAC_VV,
		VFMSUB_VF, VFMSUB_VV, VFNMACC_VF, VFNMACC_VV, VFNMADD_VF, VFNMADD_VV,
		VFNMSAC_VF, VFNMSAC_VV, VFNMSUB_VF, VFNMSUB_VV, VFWMACC_VF, VFWMACC_VV,
		VFWMSAC_VF, VFWMSAC_VV, VFWNMACC_VF, VFWNMACC_VV, VFWNMSAC_VF,
		VFWNMSAC_VV, VMACC_VV, VMACC_VX, VMADD_VV, VMADD_VX, VNMSAC_VV,
		VNMSAC_VX, VNMSUB_VV, VNMSUB_VX, VWMACCSU_VV, VWMACCSU_VX, VWMACCUS_VX,
		VWMACCU_VV, VWMACCU_VX, VWMACC_VV, VWMACC_VX:
		return true

	default:
		return false
	}
}

func pseudoRVVLoad(instOp Op) string {
	switch instOp {
	case VL1RE8_V:
		return "VL1R.V"

	case VL2RE8_V:
		return "VL2R.V"

	case VL4RE8_V:
		return "VL4R.V"

	case VL8RE8_V:
		return "VL8R.V"
	}

	return ""
}

func pseudoRVVArith(instOp Op, rawArgs []Arg, args []string) (string, []string) {
	var op string

	switch instOp {
	case VRSUB_VX:
		if v, ok := rawArgs[1].(Reg); ok && v == X0 {
			op = "VNEG.V"
			args = append(args[:1], args[2:]...)
		}

	case VWADD_VX:
		if v, ok := rawArgs[1].(Reg); ok && v == X0 {
			op = "VWCVT.X.X.V"
			args = append(args[:1], args[2:]...)
		}

	case VWADDU_VX:
		if v, ok := rawArgs[1].(Reg); ok && v == X0 {
			op = "VWCVTU.X.X.V"
			args = append(args[:1], args[2:]...)
		}

	case VXOR_VI:
		if v, ok := rawArgs[1].(Simm); ok && v.Imm == -1 {
			op = "VNOT.V"
			args = append(args[:1], args[2:]...)
		}

	case VNSRL_WX:
		if v, ok := rawArgs[1].(Reg); ok && v == X0 {
			op = "VNCVT.X.X.W"
			args = append(args[:1], args[2:]...)
		}

	case VFSGNJN_VV:
		vs2, ok1 := rawArgs[0].(Reg)
		vs1, ok2 := rawArgs[1].(Reg)
		if ok1 && ok2 && vs1 == vs2 {
			op = "VFNEG.V"
			args = args[1:]
		}

	case VFSGNJX_VV:
		vs2, ok1 := rawArgs[0].(Reg)
		vs1, ok2 := rawArgs[1].(Reg)
		if ok1 && ok2 && vs1 == vs2 {
			op = "VFABS.V"
			args = args[1:]
		}

	case VMAND_MM:
		vs2, ok1 := rawArgs[0].(Reg)
		vs1, ok2 := rawArgs[1].(Reg)
		if ok1 && ok2 && vs1 == vs2 {
			op = "VMMV.M"
			args = args[1:]
		}

	case VMXOR_MM:
		vs2, ok1 := rawArgs[0].(Reg)
		vs1, ok2 := rawArgs[1].(Reg)
		vd, ok3 := rawArgs[2].(Reg)
		if ok1 && ok2 && ok3 && vs1 == vs2 && vd == vs1 {
			op = "VMCLR.M"
			args = args[2:]
		}

	case VMXNOR_MM:
		vs2, ok1 := rawArgs[0].(Reg)
		vs1, ok2 := rawArgs[1].(Reg)
		vd, ok3 := rawArgs[2].(Reg)
		if ok1 && ok2 && ok3 && vs1 == vs2 && vd == vs1 {
			op = "VMSET.M"
			args = args[2:]
		}

	case VMNAND_MM:
		vs2, ok1 := rawArgs[0].(Reg)
		vs1, ok2 := rawArgs[1].(Reg)
		if ok1 && ok2 && vs1 == vs2 {
			op = "VMNOT.M"
			args = args[1:]
		}
	}

	return op, args
}
