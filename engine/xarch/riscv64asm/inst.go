// Copyright 2024 The Go Authors. All rights reserved.
// Use of this source code is governed by a BSD-style
// license that can be found in the LICENSE file.

package riscv64asm

import (
	"fmt"
	"strings"
)

// An Op is a RISC-V opcode.
type Op uint16

// NOTE: The actual Op values are defined in tables.go.
func (op Op) String() string {
	if op >= Op(len(opstr)) || opstr[op] == "" {
		return fmt.Sprintf("Op(%d)", op)
	}

	return opstr[op]
}

// An Arg is a single instruction argument.
type Arg interface {
	String() string
}

// An Args holds the instruction arguments.
// If an instruction has fewer than 6 arguments,
// the final elements in the array are nil.
type Args [6]Arg

// An Inst is a single instruction.
type Inst struct {
	Op   Op     // Opcode mnemonic.
	Enc  uint32 // Raw encoding bits.
	Args Args   // Instruction arguments, in RISC-V mamual order.
	Len  int    // Length of encoded instruction in bytes
}

func (i Inst) String() string {
	var args []string
	for _, arg := range i.Args {
		if arg == nil {
			break
		}
		args = append(args, arg.String())
	}

	if len(args) == 0 {
		return i.Op.String()
	}
	return i.Op.String() + " " + strings.Join(args, ",")
}

// A Reg is a single register.
// The zero value denotes X0, not the absence of a register.
type Reg uint16

const (
	// General-purpose registers
	X0 Reg = iota
	X1
	X2
	X3
	X4
	X5
	X6
	X7
	X8
	X9
	X10
	X11
	X12
	X13
	X14
	X15
	X16
	X17
	X18
	X19
	X20
	X21
	X22
	X23
	X24
	X25
	X26
	X27
	X28
	X29
	X30
	X31

	// Floating point registers
	F0
	F1
	F2
	F3
	F4
	F5
	F6
	F7
	F8
	F9
	F10
	F11
	F12
	F13
	F14
	F15
	F16
	F17
	F18
	F19
	F20
	F21
	F22
	F23
	F24
	F25
	F26
	F27
	F28
	F29
	F30
	F31

	// Vector registers
	V0
	V1
	V2
	V3
	V4
	V5
	V6
	V7
	V8
	V9
	V10
	V11
	V12
	V13
	V14
	V15
	V16
	V17
	V18
	V19
	V20
	V21
	V22
	V23
	V24
	V25
	V26
	V27
	V28
	V29
	V30
	V31
)

func (r Reg) String() string {
	switch {
	case r >= X0 && r <= X31:
		return fmt.Sprintf("x%d", r)

	case r >= F0 && r <= F31:
		return fmt.Sprintf("f%d", r-F0)

	case r >= V0 && r <= V31:
		return fmt.Sprintf("v%d", r-V0)

	default:
		return fmt.Sprintf("Unknown(%d)", r)
	}
}

// A CSR is a single control and status register.
// Use stringer to generate CSR match table.
//
//go:generate stringer -type=CSR
type CSR uint16

const (
	// Control status register
	USTATUS        CSR = 0x0000
	FFLAGS         CSR = 0x0001
	FRM            CSR = 0x0002
	FCSR           CSR = 0x0003
	UIE            CSR = 0x0004
	UTVEC          CSR = 0x0005
	UTVT           CSR = 0x0007
	VSTART         CSR = 0x0008
	VXSAT          CSR = 0x0009
	VXRM           CSR = 0x000a
	VCSR           CSR = 0x000f
	USCRATCH       CSR = 0x0040
	UEPC           CSR = 0x0041
	UCAUSE         CSR = 0x0042
	UTVAL          CSR = 0x0043
	UIP            CSR = 0x0044
	UNXTI          CSR = 0x0045
	UINTSTATUS     CSR = 0x0046
	USCRATCHCSW    CSR = 0x0048
	USCRATCHCSWL   CSR = 0x0049
	SSTATUS        CSR = 0x0100
	SEDELEG        CSR = 0x0102
	SIDELEG        CSR = 0x0103
	SIE            CSR = 0x0104
	STVEC          CSR = 0x0105
	SCOUNTEREN     CSR = 0x0106
	STVT           CSR = 0x0107
	SSCRATCH       CSR = 0x0140
	SEPC           CSR = 0x0141
	SCAUSE         CSR = 0x0142
	STVAL          CSR = 0x0143
	SIP            CSR = 0x0144
	SNXTI          CSR = 0x0145
	SINTSTATUS     CSR = 0x0146
	SSCRATCHCSW    CSR = 0x0148
	SSCRATCHCSWL   CSR = 0x0149
	SATP           CSR = 0x0180
	VSSTATUS       CSR = 0x0200
	VSIE           CSR = 0x0204
	VSTVEC         CSR = 0x0205
	VSSCRATCH      CSR = 0x0240
	VSEPC          CSR = 0x0241
	VSCAUSE        CSR = 0x0242
	VSTVAL         CSR = 0x0243
	VSIP           CSR = 0x0244
	VSATP          CSR = 0x0280
	MSTATUS        CSR = 0x0300
	MISA           CSR = 0x0301
	MEDELEG        CSR = 0x0302
	MIDELEG        CSR = 0x0303
	MIE            CSR = 0x0304
	MTVEC          CSR = 0x0305
	MCOUNTEREN     CSR = 0x0306
	MTVT           CSR = 0x0307
	MSTATUSH       CSR = 0x0310
	MCOUNTINHIBIT  CSR = 0x0320
	MHPMEVENT3     CSR = 0x0323
	MHPMEVENT4     CSR = 0x0324
	MHPMEVENT5     CSR = 0x0325
	MHPMEVENT6     CSR = 0x0326
	MHPMEVENT7     CSR = 0x0327
	MHPMEVENT8     CSR = 0x0328
	MHPMEVENT9     CSR = 0x0329
	MHPMEVENT10    CSR = 0x032a
	MHPMEVENT11    CSR = 0x032b
	MHPMEVENT12    CSR = 0x032c
	MHPMEVENT13    CSR = 0x032d
	MHPMEVENT14    CSR = 0x032e
	MHPMEVENT15    CSR = 0x032f
	MHPMEVENT16    CSR = 0x0330
	MHPMEVENT17    CSR = 0x0331
	MHPMEVENT18    CSR = 0x0332
	MHPMEVENT19    CSR = 0x0333
	MHPMEVENT20    CSR = 0x0334
	MHPMEVENT21    CSR = 0x0335
	MHPMEVENT22    CSR = 0x0336
	MHPMEVENT23    CSR = 0x0337
	MHPMEVENT24    CSR = 0x0338
	MHPMEVENT25    CSR = 0x0339
	MHPMEVENT26    CSR = 0x033a
	MHPMEVENT27    CSR = 0x033b
	MHPMEVENT28    CSR = 0x033c
	MHPMEVENT29    CSR = 0x033d
	MHPMEVENT30    CSR = 0x033e
	MHPMEVENT31    CSR = 0x033f
	MSCRATCH       CSR = 0x0340
	MEPC           CSR = 0x0341
	MCAUSE         CSR = 0x0342
	MTVAL          CSR = 0x0343
	MIP            CSR = 0x0344
	MNXTI          CSR = 0x0345
	MINTSTATUS     CSR = 0x0346
	MSCRATCHCSW    CSR = 0x0348
	MSCRATCHCSWL   CSR = 0x0349
	MTINST         CSR = 0x034a
	MTVAL2         CSR = 0x034b
	PMPCFG0        CSR = 0x03a0
	PMPCFG1        CSR = 0x03a1
	PMPCFG2        CSR = 0x03a2
	PMPCFG3        CSR = 0x03a3
	PMPADDR0       CSR = 0x03b0
	PMPADDR1       CSR = 0x03b1
	PMPADDR2       CSR = 0x03b2
	PMPADDR3       CSR = 0x03b3
	PMPADDR4       CSR = 0x03b4
	PMPADDR5       CSR = 0x03b5
	PMPADDR6       CSR = 0x03b6
	PMPADDR7       CSR = 0x03b7
	PMPADDR8       CSR = 0x03b8
	PMPADDR9       CSR = 0x03b9
	PMPADDR10      CSR = 0x03ba
	PMPADDR11      CSR = 0x03bb
	PMPADDR12      CSR = 0x03bc
	PMPADDR13      CSR = 0x03bd
	PMPADDR14      CSR = 0x03be
	PMPADDR15      CSR = 0x03bf
	HSTATUS        CSR = 0x0600
	HEDELEG        CSR = 0x0602
	HIDELEG        CSR = 0x0603
	HIE            CSR = 0x0604
	HTIMEDELTA     CSR = 0x0605
	HCOUNTEREN     CSR = 0x0606
	HGEIE          CSR = 0x0607
	HTIMEDELTAH    CSR = 0x0615
	HTVAL          CSR = 0x0643
	HIP            CSR = 0x0644
	HVIP           CSR = 0x0645
	HTINST         CSR = 0x064a
	HGATP          CSR = 0x0680
	TSELECT        CSR = 0x07a0
	TDATA1         CSR = 0x07a1
	TDATA2         CSR = 0x07a2
	TDATA3         CSR = 0x07a3
	TINFO          CSR = 0x07a4
	TCONTROL       CSR = 0x07a5
	MCONTEXT       CSR = 0x07a8
	MNOISE         CSR = 0x07a9
	SCONTEXT       CSR = 0x07aa
	DCSR           CSR = 0x07b0
	DPC            CSR = 0x07b1
	DSCRATCH0      CSR = 0x07b2
	DSCRATCH1      CSR = 0x07b3
	MCYCLE         CSR = 0x0b00
	MINSTRET       CSR = 0x0b02
	MHPMCOUNTER3   CSR = 0x0b03
	MHPMCOUNTER4   CSR = 0x0b04
	MHPMCOUNTER5   CSR = 0x0b05
	MHPMCOUNTER6   CSR = 0x0b06
	MHPMCOUNTER7   CSR = 0x0b07
	MHPMCOUNTER8   CSR = 0x0b08
	MHPMCOUNTER9   CSR = 0x0b09
	MHPMCOUNTER10  CSR = 0x0b0a
	MHPMCOUNTER11  CSR = 0x0b0b
	MHPMCOUNTER12  CSR = 0x0b0c
	MHPMCOUNTER13  CSR = 0x0b0d
	MHPMCOUNTER14  CSR = 0x0b0e
	MHPMCOUNTER15  CSR = 0x0b0f
	MHPMCOUNTER16  CSR = 0x0b10
	MHPMCOUNTER17  CSR = 0x0b11
	MHPMCOUNTER18  CSR = 0x0b12
	MHPMCOUNTER19  CSR = 0x0b13
	MHPMCOUNTER20  CSR = 0x0b14
	MHPMCOUNTER21  CSR = 0x0b15
	MHPMCOUNTER22  CSR = 0x0b16
	MHPMCOUNTER23  CSR = 0x0b17
	MHPMCOUNTER24  CSR = 0x0b18
	MHPMCOUNTER25  CSR = 0x0b19
	MHPMCOUNTER26  CSR = 0x0b1a
	MHPMCOUNTER27  CSR = 0x0b1b
	MHPMCOUNTER28  CSR = 0x0b1c
	MHPMCOUNTER29  CSR = 0x0b1d
	MHPMCOUNTER30  CSR = 0x0b1e
	MHPMCOUNTER31  CSR = 0x0b1f
	MCYCLEH        CSR = 0x0b80
	MINSTRETH      CSR = 0x0b82
	MHPMCOUNTER3H  CSR = 0x0b83
	MHPMCOUNTER4H  CSR = 0x0b84
	MHPMCOUNTER5H  CSR = 0x0b85
	MHPMCOUNTER6H  CSR = 0x0b86
	MHPMCOUNTER7H  CSR = 0x0b87
	MHPMCOUNTER8H  CSR = 0x0b88
	MHPMCOUNTER9H  CSR = 0x0b89
	MHPMCOUNTER10H CSR = 0x0b8a
	MHPMCOUNTER11H CSR = 0x0b8b
	MHPMCOUNTER12H CSR = 0x0b8c
	MHPMCOUNTER13H CSR = 0x0b8d
	MHPMCOUNTER14H CSR = 0x0b8e
	MHPMCOUNTER15H CSR = 0x0b8f
	MHPMCOUNTER16H CSR = 0x0b90
	MHPMCOUNTER17H CSR = 0x0b91
	MHPMCOUNTER18H CSR = 0x0b92
	MHPMCOUNTER19H CSR = 0x0b93
	MHPMCOUNTER20H CSR = 0x0b94
	MHPMCOUNTER21H CSR = 0x0b95
	MHPMCOUNTER22H CSR = 0x0b96
	MHPMCOUNTER23H CSR = 0x0b97
	MHPMCOUNTER24H CSR = 0x0b98
	MHPMCOUNTER25H CSR = 0x0b99
	MHPMCOUNTER26H CSR = 0x0b9a
	MHPMCOUNTER27H CSR = 0x0b9b
	MHPMCOUNTER28H CSR = 0x0b9c
	MHPMCOUNTER29H CSR = 0x0b9d
	MHPMCOUNTER30H CSR = 0x0b9e
	MHPMCOUNTER31H CSR = 0x0b9f
	CYCLE          CSR = 0x0c00
	TIME           CSR = 0x0c01
	INSTRET        CSR = 0x0c02
	HPMCOUNTER3    CSR = 0x0c03
	HPMCOUNTER4    CSR = 0x0c04
	HPMCOUNTER5    CSR = 0x0c05
	HPMCOUNTER6    CSR = 0x0c06
	HPMCOUNTER7    CSR = 0x0c07
	HPMCOUNTER8    CSR = 0x0c08
	HPMCOUNTER9    CSR = 0x0c09
	HPMCOUNTER10   CSR = 0x0c0a
	HPMCOUNTER11   CSR = 0x0c0b
	HPMCOUNTER12   CSR = 0x0c0c
	HPMCOUNTER13   CSR = 0x0c0d
	HPMCOUNTER14   CSR = 0x0c0e
	HPMCOUNTER15   CSR = 0x0c0f
	HPMCOUNTER16   CSR = 0x0c10
	HPMCOUNTER17   CSR = 0x0c11
	HPMCOUNTER18   CSR = 0x0c12
	HPMCOUNTER19   CSR = 0x0c13
	HPMCOUNTER20   CSR = 0x0c14
	HPMCOUNTER21   CSR = 0x0c15
	HPMCOUNTER22   CSR = 0x0c16
	HPMCOUNTER23   CSR = 0x0c17
	HPMCOUNTER24   CSR = 0x0c18
	HPMCOUNTER25   CSR = 0x0c19
	HPMCOUNTER26   CSR = 0x0c1a
	HPMCOUNTER27   CSR = 0x0c1b
	HPMCOUNTER28   CSR = 0x0c1c
	HPMCOUNTER29   CSR = 0x0c1d
	HPMCOUNTER30   CSR = 0x0c1e
	HPMCOUNTER31   CSR = 0x0c1f
	VL             CSR = 0x0c20
	VTYPE          CSR = 0x0c21
	VLENB          CSR = 0x0c22
	CYCLEH         CSR = 0x0c80
	TIMEH          CSR = 0x0c81
	INSTRETH       CSR = 0x0c82
	HPMCOUNTER3H   CSR = 0x0c83
	HPMCOUNTER4H   CSR = 0x0c84
	HPMCOUNTER5H   CSR = 0x0c85
	HPMCOUNTER6H   CSR = 0x0c86
	HPMCOUNTER7H   CSR = 0x0c87
	HPMCOUNTER8H   CSR = 0x0c88
	HPMCOUNTER9H   CSR = 0x0c89
	HPMCOUNTER10H  CSR = 0x0c8a
	HPMCOUNTER11H  CSR = 0x0c8b
	HPMCOUNTER12H  CSR = 0x0c8c
	HPMCOUNTER13H  CSR = 0x0c8d
	HPMCOUNTER14H  CSR = 0x0c8e
	HPMCOUNTER15H  CSR = 0x0c8f
	HPMCOUNTER16H  CSR = 0x0c90
	HPMCOUNTER17H  CSR = 0x0c91
	HPMCOUNTER18H  CSR = 0x0c92
	HPMCOUNTER19H  CSR = 0x0c93
	HPMCOUNTER20H  CSR = 0x0c94
	HPMCOUNTER21H  CSR = 0x0c95
	HPMCOUNTER22H  CSR = 0x0c96
	HPMCOUNTER23H  CSR = 0x0c97
	HPMCOUNTER24H  CSR = 0x0c98
	HPMCOUNTER25H  CSR = 0x0c99
	HPMCOUNTER26H  CSR = 0x0c9a
	HPMCOUNTER27H  CSR = 0x0c9b
	HPMCOUNTER28H  CSR = 0x0c9c
	HPMCOUNTER29H  CSR = 0x0c9d
	HPMCOUNTER30H  CSR = 0x0c9e
	HPMCOUNTER31H  CSR = 0x0c9f
	HGEIP          CSR = 0x0e12
	MVENDORID      CSR = 0x0f11
	MARCHID        CSR = 0x0f12
	MIMPID         CSR = 0x0f13
	MHARTID        CSR = 0x0f14
	MENTROPY       CSR = 0x0f15
)

// An Uimm is an unsigned immediate number
type Uimm struct {
	Imm     uint32 // 32-bit unsigned integer
	Decimal bool   // Print format of the immediate, either decimal or hexadecimal
}

func (ui Uimm) String() string {
	if ui.Decimal {
		return fmt.Sprintf("%d", ui.Imm)
	}
	return fmt.Sprintf("%#x", ui.Imm)
}

// A Simm is a signed immediate number
type Simm struct {
	Imm     int32 // 32-bit signed integer
	Decimal bool  // Print format of the immediate, either decimal or hexadecimal
	Width   uint8 // Actual width of the Simm
}

func (si Simm) String() string {
	if si.Decimal {
		return fmt.Sprintf("%d", si.Imm)
	}
	return fmt.Sprintf("%#x", si.Imm)
}

// A RegPtr is an address register with no offset
type RegPtr struct {
	reg Reg // Avoid promoted String method
}

func (regPtr RegPtr) String() string {
	return fmt.Sprintf("(%s)", regPtr.reg)
}

// A RegOffset is a register with offset value
type RegOffset struct {
	OfsReg Reg
	Ofs    Simm
}

func (regofs RegOffset) String() string {
	return fmt.Sprintf("%s(%s)", regofs.Ofs, regofs.OfsReg)
}

// A MemOrder is a memory order hint in fence instruction
type MemOrder uint8

func (memOrder MemOrder) String() string {
	var str string
	if memOrder<<7>>7 == 1 {
		str += "i"
	}
	if memOrder>>1<<7>>7 == 1 {
		str += "o"
	}
	if memOrder>>2<<7>>7 == 1 {
		str += "r"
	}
	if memOrder>>3<<7>>7 == 1 {
		str += "w"
	}
	return str
}

// A VType represents the vtype field of VSETIVLI and VSETVLI instructions
type VType uint32

var vlmulName = []string{"M1", "M2", "M4", "M8", "", "MF8", "MF4", "MF2"}
var vsewName = []string{"E8", "E16", "E32", "E64", "", "", "", ""}
var vtaName = []string{"TU", "TA"}
var vmaName = []string{"MU", "MA"}

func (vtype VType) String() string {

	vlmul := vtype & 0x7
	vsew := (vtype >> 3) & 0x7
	vta := (vtype >> 6) & 0x1
	vma := (vtype >> 7) & 0x1

	return fmt.Sprintf("%s, %s, %s, %s", vsewName[vsew], vlmulName[vlmul], vtaName[vta], vmaName[vma])
}
