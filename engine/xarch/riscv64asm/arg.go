// Copyright 2024 The Go Authors. All rights reserved.
// Use of this source code is governed by a BSD-style
// license that can be found in the LICENSE file.

package riscv64asm

// Naming for Go decoder arguments:
//
// - arg_rd: a general purpose register rd encoded in rd[11:7] field
//
// - arg_rs1: a general purpose register rs1 encoded in rs1[19:15] field
//
// - arg_rs2: a general purpose register rs2 encoded in rs2[24:20] field
//
// - arg_rs3: a general purpose register rs3 encoded in rs3[31:27] field
//
// - arg_fd: a floating point register rd encoded in rd[11:7] field
//
// - arg_fs1: a floating point register rs1 encoded in rs1[19:15] field
//
// - arg_fs2: a floating point register rs2 encoded in rs2[24:20] field
//
// - arg_fs3: a floating point register rs3 encoded in rs3[31:27] field
//
// - arg_vd: a vector register vd encoded in vd[11:7] field
//
// - arg_vm: indicates the presence of the mask register, encoded in vm[25] field
//
// - arg_vs1: a vector register vs1 encoded in vs1[19:15] field
//
// - arg_vs2: a vector register vs3 encoded in vs2[20:24] field
//
// - arg_vs3: a vector register vs3 encoded in vs3[11:7] field
//
// - arg_csr: a control status register encoded in csr[31:20] field
//
// - arg_rs1_mem: source register with offset in load commands
//
// - arg_rs1_store: source register with offset in store commands
//
// - arg_rs1_ptr: source register used as an address with no offset in atomic and vector commands
//
// - arg_pred: predecessor memory ordering information encoded in pred[27:24] field
//             For details, please refer to chapter 2.7 of ISA manual volume 1
//
// - arg_succ: successor memory ordering information encoded in succ[23:20] field
//             For details, please refer to chapter 2.7 of ISA manual volume 1
//
// - arg_zimm: a unsigned immediate encoded in zimm[19:15] field
//
// - arg_imm12: an I-type immediate encoded in imm12[31:20] field
//
// - arg_simm12: a S-type immediate encoded in simm12[31:25|11:7] field
//
// - arg_bimm12: a B-type immediate encoded in bimm12[31:25|11:7] field
//
// - arg_imm20: an U-type immediate encoded in imm20[31:12] field
//
// - arg_simm5: a 5 bit signed immediate encoded in imm[19:15] field
//
// - arg_zimm5: a 5 bit unsigned immediate encoded in imm[19:15] field
//
// - arg_vtype_zimm10: a 10 bit unsigned immediate encoded in vtypei[29:20] field
//
// - arg_vtype_zimm11: an 11 bit unsigned immediate encoded in vtypei[30:20] field
//
// - arg_jimm20: a J-type immediate encoded in jimm20[31:12] field
//
// - arg_shamt5: a shift amount encoded in shamt5[24:20] field
//
// - arg_shamt6: a shift amount encoded in shamt6[25:20] field
//

type argType uint16

const (
	_ argType = iota
	arg_rd
	arg_rs1
	arg_rs2
	arg_rs3
	arg_fd
	arg_fs1
	arg_fs2
	arg_fs3
	arg_vd
	arg_vm
	arg_vs1
	arg_vs2
	arg_vs3
	arg_csr

	arg_rs1_ptr
	arg_rs1_mem
	arg_rs1_store

	arg_pred
	arg_succ

	arg_zimm
	arg_imm12
	arg_simm12
	arg_simm5
	arg_zimm5
	arg_vtype_zimm10
	arg_vtype_zimm11
	arg_bimm12
	arg_imm20
	arg_jimm20
	arg_shamt5
	arg_shamt6

	// RISC-V Compressed Extension Args
	arg_rd_p
	arg_fd_p
	arg_rs1_p
	arg_rd_rs1_p
	arg_fs2_p
	arg_rs2_p
	arg_rd_n0
	arg_rs1_n0
	arg_rd_rs1_n0
	arg_c_rs1_n0
	arg_c_rs2_n0
	arg_c_fs2
	arg_c_rs2
	arg_rd_n2

	arg_c_imm6
	arg_c_nzimm6
	arg_c_nzuimm6
	arg_c_uimm7
	arg_c_uimm8
	arg_c_uimm8sp_s
	arg_c_uimm8sp
	arg_c_uimm9sp_s
	arg_c_uimm9sp
	arg_c_bimm9
	arg_c_nzimm10
	arg_c_nzuimm10
	arg_c_imm12
	arg_c_nzimm18
)
