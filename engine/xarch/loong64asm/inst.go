// Copyright 2024 The Go Authors. All rights reserved.
// Use of this source code is governed by a BSD-style
// license that can be found in the LICENSE file.

package loong64asm

import (
	"fmt"
	"strings"
)

// An Inst is a single instruction.
type Inst struct {
	Op   Op     // Opcode mnemonic
	Enc  uint32 // Raw encoding bits.
	Args Args   // Instruction arguments, in Loong64 manual order.
}

func (i Inst) String() string {
	var op string = i.Op.String()
	var args []string

	for _, arg := range i.Args {
		if arg == nil {
			break
		}
		args = append(args, arg.String())
	}

	switch i.Op {
	case OR:
		if i.Args[2].(Reg) == R0 {
			op = "move"
			args = args[0:2]
		}

	case ANDI:
		if i.Args[0].(Reg) == R0 && i.Args[1].(Reg) == R0 {
			return "nop"
		}

	case JIRL:
		if i.Args[0].(Reg) == R0 && i.Args[1].(Reg) == R1 && i.Args[2].(OffsetSimm).Imm == 0 {
			return "ret"
		} else if i.Args[0].(Reg) == R0 && i.Args[2].(OffsetSimm).Imm == 0 {
			return "jr " + args[1]
		}

	case BLT:
		if i.Args[0].(Reg) == R0 {
			op = "bgtz"
			args = args[1:]
		} else if i.Args[1].(Reg) == R0 {
			op = "bltz"
			args = append(args[:1], args[2:]...)
		}

	case BGE:
		if i.Args[0].(Reg) == R0 {
			op = "blez"
			args = args[1:]
		} else if i.Args[1].(Reg) == R0 {
			op = "bgez"
			args = append(args[:1], args[2:]...)
		}
	}

	if len(args) == 0 {
		return op
	} else {
		return op + " " + strings.Join(args, ", ")
	}
}

// An Op is an Loong64 opcode.
type Op uint16

// NOTE: The actual Op values are defined in tables.go.
// They are chosen to simplify instruction decoding and
// are not a dense packing from 0 to N, although the
// density is high, probably at least 90%.
func (op Op) String() string {
	if (op >= Op(len(opstr))) || (opstr[op] == "") {
		return fmt.Sprintf("Op(%d)", int(op))
	}

	return opstr[op]
}

// An Args holds the instruction arguments.
// If an instruction has fewer than 5 arguments,
// the final elements in the array are nil.
type Args [5]Arg

// An Arg is a single instruction argument
type Arg interface {
	String() string
}

// A Reg is a single register.
// The zero value denotes R0, not the absence of a register.
type Reg uint16

const (
	// General-purpose register
	R0 Reg = iota
	R1
	R2
	R3
	R4
	R5
	R6
	R7
	R8
	R9
	R10
	R11
	R12
	R13
	R14
	R15
	R16
	R17
	R18
	R19
	R20
	R21
	R22
	R23
	R24
	R25
	R26
	R27
	R28
	R29
	R30
	R31

	// Float point register
	F0
	F1
	F2
	F3
	F4
	F5
	F6
	F7
	F8
	F9
	F10
	F11
	F12
	F13
	F14
	F15
	F16
	F17
	F18
	F19
	F20
	F21
	F22
	F23
	F24
	F25
	F26
	F27
	F28
	F29
	F30
	F31
)

func (r Reg) String() string {
	switch {
	case r == R0:
		return "$zero"

	case r == R1:
		return "$ra"

	case r == R2:
		return "$tp"

	case r == R3:
		return "$sp"

	case (r >= R4) && (r <= R11):
		return fmt.Sprintf("$a%d", int(r-R4))

	case (r >= R12) && (r <= R20):
		return fmt.Sprintf("$t%d", int(r-R12))

	case r == R21:
		return "$r21"

	case r == R22:
		return "$fp"

	case (r >= R23) && (r <= R31):
		return fmt.Sprintf("$s%d", int(r-R23))

	case (r >= F0) && (r <= F7):
		return fmt.Sprintf("$fa%d", int(r-F0))

	case (r >= F8) && (r <= F23):
		return fmt.Sprintf("$ft%d", int(r-F8))

	case (r >= F24) && (r <= F31):
		return fmt.Sprintf("$fs%d", int(r-F24))

	default:
		return fmt.Sprintf("Unknown(%d)", int(r))
	}
}

// float control status register
type Fcsr uint8

const (
	FCSR0 Fcsr = iota
	FCSR1
	FCSR2
	FCSR3
)

func (f Fcsr) String() string {
	return fmt.Sprintf("$fcsr%d", uint8(f))
}

// float condition flags register
type Fcc uint8

const (
	FCC0 Fcc = iota
	FCC1
	FCC2
	FCC3
	FCC4
	FCC5
	FCC6
	FCC7
)

func (f Fcc) String() string {
	return fmt.Sprintf("$fcc%d", uint8(f))
}

// An Imm is an integer constant.
type Uimm struct {
	Imm     uint32
	Decimal bool
}

func (i Uimm) String() string {
	if i.Decimal == true {
		return fmt.Sprintf("%d", i.Imm)
	} else {
		return fmt.Sprintf("%#x", i.Imm)
	}
}

type Simm16 struct {
	Imm   int16
	Width uint8
}

func (si Simm16) String() string {
	return fmt.Sprintf("%d", int32(si.Imm))
}

type Simm32 struct {
	Imm   int32
	Width uint8
}

func (si Simm32) String() string {
	return fmt.Sprintf("%d", int32(si.Imm))
}

type OffsetSimm struct {
	Imm   int32
	Width uint8
}

func (o OffsetSimm) String() string {
	return fmt.Sprintf("%d", int32(o.Imm))
}

type SaSimm int16

func (s SaSimm) String() string {
	return fmt.Sprintf("%#x", int(s))
}

type CodeSimm int16

func (c CodeSimm) String() string {
	return fmt.Sprintf("%#x", int(c))
}
