// Added for /verif (not part of golang.org/x/arch): read-only accessor that exposes, for each
// opcode, the field roles of its arguments as recorded in x/arch's own format table
// (instFormats). The decoder itself is untouched.

package loong64asm

var verifRoleNames = map[instArg]string{
	arg_fd: "fd", arg_fj: "fj", arg_fk: "fk", arg_fa: "fa", arg_rd: "rd", arg_rj: "rj", arg_rk: "rk",
	arg_op_4_0: "op_4_0", arg_fcsr_4_0: "fcsr_4_0", arg_fcsr_9_5: "fcsr_9_5", arg_csr_23_10: "csr_23_10",
	arg_cd: "cd", arg_cj: "cj", arg_ca: "ca", arg_sa2_16_15: "sa2_16_15", arg_sa3_17_15: "sa3_17_15",
	arg_code_4_0: "code_4_0", arg_code_14_0: "code_14_0", arg_ui5_14_10: "ui5_14_10", arg_ui6_15_10: "ui6_15_10",
	arg_ui12_21_10: "ui12_21_10", arg_lsbw: "lsbw", arg_msbw: "msbw", arg_lsbd: "lsbd", arg_msbd: "msbd",
	arg_hint_4_0: "hint_4_0", arg_hint_14_0: "hint_14_0", arg_level_14_0: "level_14_0", arg_level_17_10: "level_17_10",
	arg_seq_17_10: "seq_17_10", arg_si12_21_10: "si12_21_10", arg_si14_23_10: "si14_23_10", arg_si16_25_10: "si16_25_10",
	arg_si20_24_5: "si20_24_5", arg_offset_20_0: "offset_20_0", arg_offset_25_0: "offset_25_0", arg_offset_15_0: "offset_15_0",
}

// VerifRoles maps an Op to the roles of its arguments.
var VerifRoles = map[Op][]string{}
var VerifRoleConflicts []Op

func init() {
	for _, f := range instFormats {
		var roles []string
		for _, a := range f.args {
			if a == 0 {
				break
			}
			n, ok := verifRoleNames[a]
			if !ok {
				n = "?"
			}
			roles = append(roles, n)
		}
		if _, ok := VerifRoles[f.op]; ok {
			VerifRoleConflicts = append(VerifRoleConflicts, f.op)
			continue
		}
		VerifRoles[f.op] = roles
	}
}
