// Copyright 2024 The Go Authors. All rights reserved.
// Use of this source code is governed by a BSD-style
// license that can be found in the LICENSE file.

package loong64asm

import (
	"encoding/binary"
	"fmt"
)

type instArgs [5]instArg

// An instFormat describes the format of an instruction encoding.
type instFormat struct {
	mask  uint32
	value uint32
	op    Op
	// args describe how to decode the instruction arguments.
	// args is stored as a fixed-size array.
	// if there are fewer than len(args) arguments, args[i] == 0 marks
	// the end of the argument list.
	args instArgs
}

var (
	errShort   = fmt.Errorf("truncated instruction")
	errUnknown = fmt.Errorf("unknown instruction")
)

var decoderCover []bool

func init() {
	decoderCover = make([]bool, len(instFormats))
}

// Decode decodes the 4 bytes in src as a single instruction.
func Decode(src []byte) (inst Inst, err error) {
	if len(src) < 4 {
		return Inst{}, errShort
	}

	x := binary.LittleEndian.Uint32(src)

Search:
	for i := range instFormats {
		f := &instFormats[i]

		if (x & f.mask) != f.value {
			continue
		}

		// Decode args.
		var args Args
		for j, aop := range f.args {
			if aop == 0 {
				break
			}

			arg := decodeArg(aop, x, i)
			if arg == nil {
				// Cannot decode argument
				continue Search
			}

			args[j] = arg
		}

		decoderCover[i] = true
		inst = Inst{
			Op:   f.op,
			Args: args,
			Enc:  x,
		}
		return inst, nil
	}

	return Inst{}, errUnknown
}

// decodeArg decodes the arg described by aop from the instruction bits x.
// It returns nil if x cannot be decoded according to aop.
func decodeArg(aop instArg, x uint32, index int) Arg {
	switch aop {
	case arg_fd:
		return F0 + Reg(x&((1<<5)-1))

	case arg_fj:
		return F0 + Reg((x>>5)&((1<<5)-1))

	case arg_fk:
		return F0 + Reg((x>>10)&((1<<5)-1))

	case arg_fa:
		return F0 + Reg((x>>15)&((1<<5)-1))

	case arg_rd:
		return R0 + Reg(x&((1<<5)-1))

	case arg_rj:
		return R0 + Reg((x>>5)&((1<<5)-1))

	case arg_rk:
		return R0 + Reg((x>>10)&((1<<5)-1))

	case arg_fcsr_4_0:
		return FCSR0 + Fcsr(x&((1<<5)-1))

	case arg_fcsr_9_5:
		return FCSR0 + Fcsr((x>>5)&((1<<5)-1))

	case arg_cd:
		return FCC0 + Fcc(x&((1<<3)-1))

	case arg_cj:
		return FCC0 + Fcc((x>>5)&((1<<3)-1))

	case arg_ca:
		return FCC0 + Fcc((x>>15)&((1<<3)-1))

	case arg_op_4_0:
		tmp := x & ((1 << 5) - 1)
		return Uimm{tmp, false}

	case arg_csr_23_10:
		tmp := (x >> 10) & ((1 << 14) - 1)
		return Uimm{tmp, false}

	case arg_sa2_16_15:
		f := &instFormats[index]
		tmp := SaSimm((x >> 15) & ((1 << 2) - 1))
		if (f.op == ALSL_D) || (f.op == ALSL_W) || (f.op == ALSL_WU) {
			return tmp + 1
		} else {
			return tmp + 0
		}

	case arg_sa3_17_15:
		return SaSimm((x >> 15) & ((1 << 3) - 1))

	case arg_code_4_0:
		return CodeSimm(x & ((1 << 5) - 1))

	case arg_code_14_0:
		return CodeSimm(x & ((1 << 15) - 1))

	case arg_ui5_14_10:
		tmp := (x >> 10) & ((1 << 5) - 1)
		return Uimm{tmp, false}

	case arg_ui6_15_10:
		tmp := (x >> 10) & ((1 << 6) - 1)
		return Uimm{tmp, false}

	case arg_ui12_21_10:
		tmp := ((x >> 10) & ((1 << 12) - 1) & 0xfff)
		return Uimm{tmp, false}

	case arg_lsbw:
		tmp := (x >> 10) & ((1 << 5) - 1)
		return Uimm{tmp, false}

	case arg_msbw:
		tmp := (x >> 16) & ((1 << 5) - 1)
		return Uimm{tmp, false}

	case arg_lsbd:
		tmp := (x >> 10) & ((1 << 6) - 1)
		return Uimm{tmp, false}

	case arg_msbd:
		tmp := (x >> 16) & ((1 << 6) - 1)
		return Uimm{tmp, false}

	case arg_hint_4_0:
		tmp := x & ((1 << 5) - 1)
		return Uimm{tmp, false}

	case arg_hint_14_0:
		tmp := x & ((1 << 15) - 1)
		return Uimm{tmp, false}

	case arg_level_14_0:
		tmp := x & ((1 << 15) - 1)
		return Uimm{tmp, false}

	case arg_level_17_10:
		tmp := (x >> 10) & ((1 << 8) - 1)
		return Uimm{tmp, false}

	case arg_seq_17_10:
		tmp := (x >> 10) & ((1 << 8) - 1)
		return Uimm{tmp, false}

	case arg_si12_21_10:
		var tmp int16

		// no int12, so sign-extend a 12-bit signed to 16-bit signed
		if (x & 0x200000) == 0x200000 {
			tmp = int16(((x >> 10) & ((1 << 12) - 1)) | 0xf000)
		} else {
			tmp = int16(((x >> 10) & ((1 << 12) - 1)) | 0x0000)
		}
		return Simm16{tmp, 12}

	case arg_si14_23_10:
		var tmp int32
		if (x & 0x800000) == 0x800000 {
			tmp = int32((((x >> 10) & ((1 << 14) - 1)) << 2) | 0xffff0000)
		} else {
			tmp = int32((((x >> 10) & ((1 << 14) - 1)) << 2) | 0x00000000)
		}
		return Simm32{tmp, 14}

	case arg_si16_25_10:
		var tmp int32

		if (x & 0x2000000) == 0x2000000 {
			tmp = int32(((x >> 10) & ((1 << 16) - 1)) | 0xffff0000)
		} else {
			tmp = int32(((x >> 10) & ((1 << 16) - 1)) | 0x00000000)
		}

		return Simm32{tmp, 16}

	case arg_si20_24_5:
		var tmp int32
		if (x & 0x1000000) == 0x1000000 {
			tmp = int32(((x >> 5) & ((1 << 20) - 1)) | 0xfff00000)
		} else {
			tmp = int32(((x >> 5) & ((1 << 20) - 1)) | 0x00000000)
		}
		return Simm32{tmp, 20}

	case arg_offset_20_0:
		var tmp int32

		if (x & 0x10) == 0x10 {
			tmp = int32(((((x << 16) | ((x >> 10) & ((1 << 16) - 1))) & ((1 << 21) - 1)) << 2) | 0xff800000)
		} else {
			tmp = int32((((x << 16) | ((x >> 10) & ((1 << 16) - 1))) & ((1 << 21) - 1)) << 2)
		}

		return OffsetSimm{tmp, 21}

	case arg_offset_15_0:
		var tmp int32
		if (x & 0x2000000) == 0x2000000 {
			tmp = int32((((x >> 10) & ((1 << 16) - 1)) << 2) | 0xfffc0000)
		} else {
			tmp = int32((((x >> 10) & ((1 << 16) - 1)) << 2) | 0x00000000)
		}

		return OffsetSimm{tmp, 16}

	case arg_offset_25_0:
		var tmp int32

		if (x & 0x200) == 0x200 {
			tmp = int32(((((x << 16) | ((x >> 10) & ((1 << 16) - 1))) & ((1 << 26) - 1)) << 2) | 0xf0000000)
		} else {
			tmp = int32(((((x << 16) | ((x >> 10) & ((1 << 16) - 1))) & ((1 << 26) - 1)) << 2) | 0x00000000)
		}

		return OffsetSimm{tmp, 26}
	default:
		return nil
	}
}
