// Copyright 2024 The Go Authors. All rights reserved.
// Use of this source code is governed by a BSD-style
// license that can be found in the LICENSE file.

package loong64asm

import (
	"strings"
)

// GNUSyntax returns the GNU assembler syntax for the instruction, as defined by GNU binutils.
// This form typically matches the syntax defined in the Loong64 Reference Manual. See
// https://loongson.github.io/LoongArch-Documentation/LoongArch-Vol1-EN.html
func GNUSyntax(inst Inst) string {
	return strings.ToLower(inst.String())
}
