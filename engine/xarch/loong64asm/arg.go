// Copyright 2024 The Go Authors. All rights reserved.
// Use of this source code is governed by a BSD-style
// license that can be found in the LICENSE file.

package loong64asm

// Naming for Go decoder arguments:
//
// - arg_fd: a Floating Point operand register fd encoded in the fd[4:0] field
//
// - arg_fj: a Floating Point operand register fj encoded in the fj[9:5] field
//
// - arg_fk: a Floating Point operand register fk encoded in the fk[14:10] field
//
// - arg_fa: a Floating Point operand register fa encoded in the fa[19:15] field
//
// - arg_rd: a general-purpose register rd encoded in the rd[4:0] field
//
// - arg_rj: a general-purpose register rj encoded in the rj[9:5] field
//
// - arg_rk: a general-purpose register rk encoded in the rk[14:10] field
//
// - arg_fcsr_4_0: float control status register encoded in [4:0] field
//
// - arg_cd_2_0: condition flag register encoded in [2:0] field
//
// - arg_sa2_16_15: shift bits constant encoded in [16:15] field
//
// - arg_code_14_0: arg for exception process routine encoded in [14:0] field
//
// - arg_ui5_14_10: 5bits unsigned immediate
//
// - arg_lsbw: For details, please refer to chapter 2.2.3.8 of instruction manual
//
// - arg_msbw: For details, please refer to chapter 2.2.3.9 of instruction manual
//
// - arg_hint_4_0: hint field implied the prefetch type and the data should fetch to cache's level
//		0: load to data cache level 1
//		8: store to data cache level 1
//		other: no define
//
// - arg_si12_21_10: 12bits signed immediate

type instArg uint16

const (
	_ instArg = iota
	// 1-5
	arg_fd
	arg_fj
	arg_fk
	arg_fa
	arg_rd
	// 6-10
	arg_rj
	arg_rk
	arg_op_4_0
	arg_fcsr_4_0
	arg_fcsr_9_5
	// 11-15
	arg_csr_23_10
	arg_cd
	arg_cj
	arg_ca
	arg_sa2_16_15
	// 16-20
	arg_sa3_17_15
	arg_code_4_0
	arg_code_14_0
	arg_ui5_14_10
	arg_ui6_15_10
	// 21-25
	arg_ui12_21_10
	arg_lsbw
	arg_msbw
	arg_lsbd
	arg_msbd
	// 26-30
	arg_hint_4_0
	arg_hint_14_0
	arg_level_14_0
	arg_level_17_10
	arg_seq_17_10
	// 31-35
	arg_si12_21_10
	arg_si14_23_10
	arg_si16_25_10
	arg_si20_24_5
	arg_offset_20_0
	// 36~
	arg_offset_25_0
	arg_offset_15_0
)
