// Copyright 2024 The Go Authors. All rights reserved.
// Use of this source code is governed by a BSD-style
// license that can be found in the LICENSE file.

package loong64asm

import (
	"fmt"
	"strings"
)

// GoSyntax returns the Go assembler syntax for the instruction.
// The syntax was originally defined by Plan 9.
// The pc is the program counter of the instruction, used for
// expanding PC-relative addresses into absolute ones.
// The symname function queries the symbol table for the program
// being disassembled. Given a target address it returns the name
// and base address of the symbol containing the target, if any;
// otherwise it returns "", 0.
func GoSyntax(inst Inst, pc uint64, symname func(uint64) (string, uint64)) string {
	if symname == nil {
		symname = func(uint64) (string, uint64) { return "", 0 }
	}
	if inst.Op == 0 && inst.Enc == 0 {
		return "WORD $0"
	} else if inst.Op == 0 {
		return "?"
	}

	var args []string
	for _, a := range inst.Args {
		if a == nil {
			break
		}
		args = append(args, plan9Arg(&inst, pc, symname, a))
	}

	var op string = plan9OpMap[inst.Op]
	if op == "" {
		op = "Unknown " + inst.Op.String()
	}

	switch inst.Op {
	case BSTRPICK_W, BSTRPICK_D, BSTRINS_W, BSTRINS_D:
		msbw, lsbw := inst.Args[2].(Uimm), inst.Args[3].(Uimm)
		if inst.Op == BSTRPICK_D && msbw.Imm == 15 && lsbw.Imm == 0 {
			op = "MOVHU"
			args = append(args[1:2], args[0:1]...)
		} else {
			args[0], args[2], args[3] = args[2], args[3], args[0]
		}

	case BCNEZ, BCEQZ:
		args = args[1:2]

	case BEQ, BNE:
		rj := inst.Args[0].(Reg)
		rd := inst.Args[1].(Reg)
		if rj == rd && inst.Op == BEQ {
			op = "JMP"
			args = args[2:]
		} else if rj == R0 {
			args = args[1:]
		} else if rd == R0 {
			args = append(args[:1], args[2:]...)
		}

	case BEQZ, BNEZ:
		if inst.Args[0].(Reg) == R0 && inst.Op == BEQ {
			op = "JMP"
			args = args[1:]
		}

	case BLT, BLTU, BGE, BGEU:
		rj := inst.Args[0].(Reg)
		rd := inst.Args[1].(Reg)
		if rj == rd && (inst.Op == BGE || inst.Op == BGEU) {
			op = "JMP"
			args = args[2:]
		} else if rj == R0 {
			switch inst.Op {
			case BGE:
				op = "BLEZ"
			case BLT:
				op = "BGTZ"
			}
			args = args[1:]
		} else if rd == R0 {
			if !strings.HasSuffix(op, "U") {
				op += "Z"
			}
			args = append(args[:1], args[2:]...)
		}

	case JIRL:
		rd := inst.Args[0].(Reg)
		rj := inst.Args[1].(Reg)
		regno := uint16(rj) & 31
		off := inst.Args[2].(OffsetSimm).Imm
		if rd == R0 && rj == R1 && off == 0 {
			return fmt.Sprintf("RET")
		} else if rd == R0 && off == 0 {
			return fmt.Sprintf("JMP (R%d)", regno)
		} else if rd == R0 {
			return fmt.Sprintf("JMP %d(R%d)", off, regno)
		}
		return fmt.Sprintf("CALL (R%d)", regno)

	case LD_B, LD_H, LD_W, LD_D, LD_BU, LD_HU, LD_WU, LL_W, LL_D,
		ST_B, ST_H, ST_W, ST_D, SC_W, SC_D, FLD_S, FLD_D, FST_S, FST_D:
		var off int32
		switch a := inst.Args[2].(type) {
		case Simm16:
			off = signumConvInt32(int32(a.Imm), a.Width)
		case Simm32:
			off = signumConvInt32(int32(a.Imm), a.Width) >> 2
		}
		Iop := strings.ToUpper(inst.Op.String())
		if strings.HasPrefix(Iop, "L") || strings.HasPrefix(Iop, "FL") {
			return fmt.Sprintf("%s %d(%s), %s", op, off, args[1], args[0])
		}
		return fmt.Sprintf("%s %s, %d(%s)", op, args[0], off, args[1])

	case LDX_B, LDX_H, LDX_W, LDX_D, LDX_BU, LDX_HU, LDX_WU, FLDX_S, FLDX_D,
		STX_B, STX_H, STX_W, STX_D, FSTX_S, FSTX_D:
		Iop := strings.ToUpper(inst.Op.String())
		if strings.HasPrefix(Iop, "L") || strings.HasPrefix(Iop, "FL") {
			return fmt.Sprintf("%s (%s)(%s), %s", op, args[1], args[2], args[0])
		}
		return fmt.Sprintf("%s %s, (%s)(%s)", op, args[0], args[1], args[2])

	case AMADD_B, AMADD_D, AMADD_DB_B, AMADD_DB_D, AMADD_DB_H, AMADD_DB_W, AMADD_H,
		AMADD_W, AMAND_D, AMAND_DB_D, AMAND_DB_W, AMAND_W, AMCAS_B, AMCAS_D, AMCAS_DB_B,
		AMCAS_DB_D, AMCAS_DB_H, AMCAS_DB_W, AMCAS_H, AMCAS_W, AMMAX_D, AMMAX_DB_D,
		AMMAX_DB_DU, AMMAX_DB_W, AMMAX_DB_WU, AMMAX_DU, AMMAX_W, AMMAX_WU, AMMIN_D,
		AMMIN_DB_D, AMMIN_DB_DU, AMMIN_DB_W, AMMIN_DB_WU, AMMIN_DU, AMMIN_W, AMMIN_WU,
		AMOR_D, AMOR_DB_D, AMOR_DB_W, AMOR_W, AMSWAP_B, AMSWAP_D, AMSWAP_DB_B, AMSWAP_DB_D,
		AMSWAP_DB_H, AMSWAP_DB_W, AMSWAP_H, AMSWAP_W, AMXOR_D, AMXOR_DB_D, AMXOR_DB_W, AMXOR_W:
		return fmt.Sprintf("%s %s, (%s), %s", op, args[1], args[2], args[0])

	default:
		// Reverse args, placing dest last
		for i, j := 0, len(args)-1; i < j; i, j = i+1, j-1 {
			args[i], args[j] = args[j], args[i]
		}
		switch len(args) { // Special use cases
		case 0, 1:
			if inst.Op != B && inst.Op != BL {
				return op
			}

		case 3:
			switch a0 := inst.Args[0].(type) {
			case Reg:
				rj := inst.Args[1].(Reg)
				if a0 == rj && a0 != R0 {
					args = args[0:2]
				}
			}
			switch inst.Op {
			case SUB_W, SUB_D, ADDI_W, ADDI_D, ORI:
				rj := inst.Args[1].(Reg)
				if rj == R0 {
					args = append(args[0:1], args[2:]...)
					if inst.Op == SUB_W {
						op = "NEGW"
					} else if inst.Op == SUB_D {
						op = "NEGV"
					} else {
						op = "MOVW"
					}
				}

			case ANDI:
				ui12 := inst.Args[2].(Uimm)
				if ui12.Imm == uint32(0xff) {
					op = "MOVBU"
					args = args[1:]
				} else if ui12.Imm == 0 && inst.Args[0].(Reg) == R0 && inst.Args[1].(Reg) == R0 {
					return "NOOP"
				}

			case SLL_W, OR:
				rk := inst.Args[2].(Reg)
				if rk == R0 {
					args = args[1:]
					if inst.Op == SLL_W {
						op = "MOVW"
					} else {
						op = "MOVV"
					}
				}
			}
		}
	}

	if args != nil {
		op += " " + strings.Join(args, ", ")
	}
	return op
}

func plan9Arg(inst *Inst, pc uint64, symname func(uint64) (string, uint64), arg Arg) string {
	// Reg:			gpr[0, 31] and fpr[0, 31]
	// Fcsr:		fcsr[0, 3]
	// Fcc:			fcc[0, 7]
	// Uimm:		unsigned integer constant
	// Simm16:		si16
	// Simm32:		si32
	// OffsetSimm:	si32
	switch a := arg.(type) {
	case Reg:
		regenum := uint16(a)
		regno := uint16(a) & 0x1f
		// General-purpose register
		if regenum >= uint16(R0) && regenum <= uint16(R31) {
			return fmt.Sprintf("R%d", regno)
		} else { // Float point register
			return fmt.Sprintf("F%d", regno)
		}

	case Fcsr:
		regno := uint8(a) & 0x1f
		return fmt.Sprintf("FCSR%d", regno)

	case Fcc:
		regno := uint8(a) & 0x1f
		return fmt.Sprintf("FCC%d", regno)

	case Uimm:
		return fmt.Sprintf("$%d", a.Imm)

	case Simm16:
		si16 := signumConvInt32(int32(a.Imm), a.Width)
		return fmt.Sprintf("$%d", si16)

	case Simm32:
		si32 := signumConvInt32(a.Imm, a.Width)
		return fmt.Sprintf("$%d", si32)

	case OffsetSimm:
		offs := offsConvInt32(a.Imm, a.Width)
		if inst.Op == B || inst.Op == BL {
			addr := int64(pc) + int64(a.Imm)
			if s, base := symname(uint64(addr)); s != "" && uint64(addr) == base {
				return fmt.Sprintf("%s(SB)", s)
			}
		}
		return fmt.Sprintf("%d(PC)", offs>>2)

	case SaSimm:
		return fmt.Sprintf("$%d", a)

	case CodeSimm:
		return fmt.Sprintf("$%d", a)

	}
	return strings.ToUpper(arg.String())
}

func signumConvInt32(imm int32, width uint8) int32 {
	active := uint32(1<<width) - 1
	signum := uint32(imm) & active
	if ((signum >> (width - 1)) & 0x1) == 1 {
		signum |= ^active
	}
	return int32(signum)
}

func offsConvInt32(imm int32, width uint8) int32 {
	relWidth := width + 2
	return signumConvInt32(imm, relWidth)
}

var plan9OpMap = map[Op]string{
	ADD_W:       "ADD",
	ADD_D:       "ADDV",
	SUB_W:       "SUB",
	SUB_D:       "SUBV",
	ADDI_W:      "ADD",
	ADDI_D:      "ADDV",
	LU12I_W:     "LU12IW",
	LU32I_D:     "LU32ID",
	LU52I_D:     "LU52ID",
	SLT:         "SGT",
	SLTU:        "SGTU",
	SLTI:        "SGT",
	SLTUI:       "SGTU",
	PCADDU12I:   "PCADDU12I",
	PCALAU12I:   "PCALAU12I",
	AND:         "AND",
	OR:          "OR",
	NOR:         "NOR",
	XOR:         "XOR",
	ANDI:        "AND",
	ORI:         "OR",
	XORI:        "XOR",
	MUL_W:       "MUL",
	MULH_W:      "MULH",
	MULH_WU:     "MULHU",
	MUL_D:       "MULV",
	MULH_D:      "MULHV",
	MULH_DU:     "MULHVU",
	DIV_W:       "DIV",
	DIV_WU:      "DIVU",
	DIV_D:       "DIVV",
	DIV_DU:      "DIVVU",
	MOD_W:       "REM",
	MOD_WU:      "REMU",
	MOD_D:       "REMV",
	MOD_DU:      "REMVU",
	SLL_W:       "SLL",
	SRL_W:       "SRL",
	SRA_W:       "SRA",
	ROTR_W:      "ROTR",
	SLL_D:       "SLLV",
	SRL_D:       "SRLV",
	SRA_D:       "SRAV",
	ROTR_D:      "ROTRV",
	SLLI_W:      "SLL",
	SRLI_W:      "SRL",
	SRAI_W:      "SRA",
	ROTRI_W:     "ROTR",
	SLLI_D:      "SLLV",
	SRLI_D:      "SRLV",
	SRAI_D:      "SRAV",
	ROTRI_D:     "ROTRV",
	EXT_W_B:     "?",
	EXT_W_H:     "?",
	BITREV_W:    "BITREVW",
	BITREV_D:    "BITREVV",
	CLO_W:       "CLOW",
	CLO_D:       "CLOV",
	CLZ_W:       "CLZW",
	CLZ_D:       "CLZV",
	CTO_W:       "CTOW",
	CTO_D:       "CTOV",
	CTZ_W:       "CTZW",
	CTZ_D:       "CTZV",
	REVB_2H:     "REVB2H",
	REVB_2W:     "REVB2W",
	REVB_4H:     "REVB4H",
	REVB_D:      "REVBV",
	BSTRPICK_W:  "BSTRPICKW",
	BSTRPICK_D:  "BSTRPICKV",
	BSTRINS_W:   "BSTRINSW",
	BSTRINS_D:   "BSTRINSV",
	MASKEQZ:     "MASKEQZ",
	MASKNEZ:     "MASKNEZ",
	BCNEZ:       "BFPT",
	BCEQZ:       "BFPF",
	BEQ:         "BEQ",
	BNE:         "BNE",
	BEQZ:        "BEQ",
	BNEZ:        "BNE",
	BLT:         "BLT",
	BLTU:        "BLTU",
	BGE:         "BGE",
	BGEU:        "BGEU",
	B:           "JMP",
	BL:          "CALL",
	LD_B:        "MOVB",
	LD_H:        "MOVH",
	LD_W:        "MOVW",
	LD_D:        "MOVV",
	LD_BU:       "MOVBU",
	LD_HU:       "MOVHU",
	LD_WU:       "MOVWU",
	ST_B:        "MOVB",
	ST_H:        "MOVH",
	ST_W:        "MOVW",
	ST_D:        "MOVV",
	LDX_B:       "MOVB",
	LDX_BU:      "MOVBU",
	LDX_D:       "MOVV",
	LDX_H:       "MOVH",
	LDX_HU:      "MOVHU",
	LDX_W:       "MOVW",
	LDX_WU:      "MOVWU",
	STX_B:       "MOVB",
	STX_D:       "MOVV",
	STX_H:       "MOVH",
	STX_W:       "MOVW",
	AMADD_B:     "AMADDB",
	AMADD_D:     "AMADDV",
	AMADD_DB_B:  "AMADDDBB",
	AMADD_DB_D:  "AMADDDBV",
	AMADD_DB_H:  "AMADDDBH",
	AMADD_DB_W:  "AMADDDBW",
	AMADD_H:     "AMADDH",
	AMADD_W:     "AMADDW",
	AMAND_D:     "AMANDV",
	AMAND_DB_D:  "AMANDDBV",
	AMAND_DB_W:  "AMANDDBW",
	AMAND_W:     "AMANDW",
	AMCAS_B:     "AMCASB",
	AMCAS_D:     "AMCASV",
	AMCAS_DB_B:  "AMCASDBB",
	AMCAS_DB_D:  "AMCASDBV",
	AMCAS_DB_H:  "AMCASDBH",
	AMCAS_DB_W:  "AMCASDBW",
	AMCAS_H:     "AMCASH",
	AMCAS_W:     "AMCASW",
	AMMAX_D:     "AMMAXV",
	AMMAX_DB_D:  "AMMAXDBV",
	AMMAX_DB_DU: "AMMAXDBVU",
	AMMAX_DB_W:  "AMMAXDBW",
	AMMAX_DB_WU: "AMMAXDBWU",
	AMMAX_DU:    "AMMAXVU",
	AMMAX_W:     "AMMAXW",
	AMMAX_WU:    "AMMAXWU",
	AMMIN_D:     "AMMINV",
	AMMIN_DB_D:  "AMMINDBV",
	AMMIN_DB_DU: "AMMINDBVU",
	AMMIN_DB_W:  "AMMINDBW",
	AMMIN_DB_WU: "AMMINDBWU",
	AMMIN_DU:    "AMMINVU",
	AMMIN_W:     "AMMINW",
	AMMIN_WU:    "AMMINWU",
	AMOR_D:      "AMORV",
	AMOR_DB_D:   "AMORDBV",
	AMOR_DB_W:   "AMORDBW",
	AMOR_W:      "AMORW",
	AMSWAP_B:    "AMSWAPB",
	AMSWAP_D:    "AMSWAPV",
	AMSWAP_DB_B: "AMSWAPDBB",
	AMSWAP_DB_D: "AMSWAPDBV",
	AMSWAP_DB_H: "AMSWAPDBH",
	AMSWAP_DB_W: "AMSWAPDBW",
	AMSWAP_H:    "AMSWAPH",
	AMSWAP_W:    "AMSWAPW",
	AMXOR_D:     "AMXORV",
	AMXOR_DB_D:  "AMXORDBV",
	AMXOR_DB_W:  "AMXORDBW",
	AMXOR_W:     "AMXORW",
	LL_W:        "LL",
	LL_D:        "LLV",
	SC_W:        "SC",
	SC_D:        "SCV",
	CRCC_W_B_W:  "CRCCWBW",
	CRCC_W_D_W:  "CRCCWVW",
	CRCC_W_H_W:  "CRCCWHW",
	CRCC_W_W_W:  "CRCCWWW",
	CRC_W_B_W:   "CRCWBW",
	CRC_W_D_W:   "CRCWVW",
	CRC_W_H_W:   "CRCWHW",
	CRC_W_W_W:   "CRCWWW",
	DBAR:        "DBAR",
	SYSCALL:     "SYSCALL",
	BREAK:       "BREAK",
	RDTIMEL_W:   "RDTIMELW",
	RDTIMEH_W:   "RDTIMEHW",
	RDTIME_D:    "RDTIMED",
	CPUCFG:      "CPUCFG",

	// Floating-point instructions
	FADD_S:       "ADDF",
	FADD_D:       "ADDD",
	FSUB_S:       "SUBF",
	FSUB_D:       "SUBD",
	FMUL_S:       "MULF",
	FMUL_D:       "MULD",
	FDIV_S:       "DIVF",
	FDIV_D:       "DIVD",
	FMSUB_S:      "FMSUBF",
	FMSUB_D:      "FMSUBD",
	FMADD_S:      "FMADDF",
	FMADD_D:      "FMADDD",
	FNMADD_S:     "FNMADDF",
	FNMADD_D:     "FNMADDD",
	FNMSUB_S:     "FNMSUBF",
	FNMSUB_D:     "FNMSUBD",
	FABS_S:       "ABSF",
	FABS_D:       "ABSD",
	FNEG_S:       "NEGF",
	FNEG_D:       "NEGD",
	FSQRT_S:      "SQRTF",
	FSQRT_D:      "SQRTD",
	FCOPYSIGN_S:  "FCOPYSGF",
	FCOPYSIGN_D:  "FCOPYSGD",
	FMAX_S:       "FMAXF",
	FMAX_D:       "FMAXD",
	FMIN_S:       "FMINF",
	FMIN_D:       "FMIND",
	FCLASS_S:     "FCLASSF",
	FCLASS_D:     "FCLASSD",
	FCMP_CEQ_S:   "CMPEQF",
	FCMP_CEQ_D:   "CMPEQD",
	FCMP_SLE_S:   "CMPGEF",
	FCMP_SLE_D:   "CMPGED",
	FCMP_SLT_S:   "CMPGTF",
	FCMP_SLT_D:   "CMPGTD",
	FCVT_D_S:     "MOVFD",
	FCVT_S_D:     "MOVDF",
	FFINT_S_W:    "FFINTFW",
	FFINT_S_L:    "FFINTFV",
	FFINT_D_W:    "FFINTDW",
	FFINT_D_L:    "FFINTDV",
	FTINTRM_L_D:  "FTINTRMVD",
	FTINTRM_L_S:  "FTINTRMVF",
	FTINTRM_W_D:  "FTINTRMWD",
	FTINTRM_W_S:  "FTINTRMWF",
	FTINTRNE_L_D: "FTINTRNEVD",
	FTINTRNE_L_S: "FTINTRNEVF",
	FTINTRNE_W_D: "FTINTRNEWD",
	FTINTRNE_W_S: "FTINTRNEWF",
	FTINTRP_L_D:  "FTINTRPVD",
	FTINTRP_L_S:  "FTINTRPVF",
	FTINTRP_W_D:  "FTINTRPWD",
	FTINTRP_W_S:  "FTINTRPWF",
	FTINTRZ_L_D:  "FTINTRZVD",
	FTINTRZ_L_S:  "FTINTRZVF",
	FTINTRZ_W_D:  "FTINTRZWD",
	FTINTRZ_W_S:  "FTINTRZWF",
	FTINT_L_D:    "FTINTVD",
	FTINT_L_S:    "FTINTVF",
	FTINT_W_D:    "FTINTWD",
	FTINT_W_S:    "FTINTWF",
	FRINT_S:      "FRINTS",
	FRINT_D:      "FRINTD",
	FMOV_S:       "MOVF",
	FMOV_D:       "MOVD",
	MOVGR2FR_W:   "MOVW",
	MOVGR2FR_D:   "MOVV",
	MOVFR2GR_S:   "MOVW",
	MOVFR2GR_D:   "MOVV",
	MOVGR2CF:     "MOVV",
	MOVCF2GR:     "MOVV",
	MOVFCSR2GR:   "MOVV",
	MOVGR2FCSR:   "MOVV",
	MOVFR2CF:     "MOVV",
	MOVCF2FR:     "MOVV",
	FLD_S:        "MOVF",
	FLD_D:        "MOVD",
	FST_S:        "MOVF",
	FST_D:        "MOVD",
	FLDX_S:       "MOVF",
	FLDX_D:       "MOVD",
	FSTX_S:       "MOVF",
	FSTX_D:       "MOVD",
}
