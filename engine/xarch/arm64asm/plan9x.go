// Copyright 2017 The Go Authors. All rights reserved.
// Use of this source code is governed by a BSD-style
// license that can be found in the LICENSE file.

package arm64asm

import (
	"fmt"
	"io"
	"sort"
	"strings"
)

// GoSyntax returns the Go assembler syntax for the instruction.
// The syntax was originally defined by Plan 9.
// The pc is the program counter of the instruction, used for
// expanding PC-relative addresses into absolute ones.
// The symname function queries the symbol table for the program
// being disassembled. Given a target address it returns the name
// and base address of the symbol containing the target, if any;
// otherwise it returns "", 0.
// The reader text should read from the text segment using text addresses
// as offsets; it is used to display pc-relative loads as constant loads.
func GoSyntax(inst Inst, pc uint64, symname func(uint64) (string, uint64), text io.ReaderAt) string {
	if symname == nil {
		symname = func(uint64) (string, uint64) { return "", 0 }
	}

	var args []string
	for _, a := range inst.Args {
		if a == nil {
			break
		}
		args = append(args, plan9Arg(&inst, pc, symname, a))
	}

	op := inst.Op.String()

	switch inst.Op {
	case LDR, LDRB, LDRH, LDRSB, LDRSH, LDRSW:
		// Check for PC-relative load.
		if offset, ok := inst.Args[1].(PCRel); ok {
			addr := pc + uint64(offset)
			if _, ok := inst.Args[0].(Reg); !ok {
				break
			}
			if s, base := symname(addr); s != "" && addr == base {
				args[1] = fmt.Sprintf("$%s(SB)", s)
			}
		}
	}

	// Move addressing mode into opcode suffix.
	suffix := ""
	switch inst.Op {
	case LDR, LDRB, LDRH, LDRSB, LDRSH, LDRSW, STR, STRB, STRH, STUR, STURB, STURH, LD1, ST1:
		switch mem := inst.Args[1].(type) {
		case MemImmediate:
			switch mem.Mode {
			case AddrOffset:
				// no suffix
			case AddrPreIndex:
				suffix = ".W"
			case AddrPostIndex, AddrPostReg:
				suffix = ".P"
			}
		}

	case STP, LDP:
		switch mem := inst.Args[2].(type) {
		case MemImmediate:
			switch mem.Mode {
			case AddrOffset:
				// no suffix
			case AddrPreIndex:
				suffix = ".W"
			case AddrPostIndex:
				suffix = ".P"
			}
		}
	}

	switch inst.Op {
	case BL:
		return "CALL " + args[0]

	case BLR:
		r := inst.Args[0].(Reg)
		regno := uint16(r) & 31
		return fmt.Sprintf("CALL (R%d)", regno)

	case RET:
		if r, ok := inst.Args[0].(Reg); ok && r == X30 {
			return "RET"
		}

	case B:
		if cond, ok := inst.Args[0].(Cond); ok {
			return "B" + cond.String() + " " + args[1]
		}
		return "JMP" + " " + args[0]

	case BR:
		r := inst.Args[0].(Reg)
		regno := uint16(r) & 31
		return fmt.Sprintf("JMP (R%d)", regno)

	case MOV:
		rno := -1
		switch a := inst.Args[0].(type) {
		case Reg:
			rno = int(a)
		case RegSP:
			rno = int(a)
		case RegisterWithArrangementAndIndex:
			op = "VMOV"
		case RegisterWithArrangement:
			op = "VMOV"
		}
		if rno >= 0 && rno <= int(WZR) {
			op = "MOVW"
		} else if rno >= int(X0) && rno <= int(XZR) {
			op = "MOVD"
		}
		if _, ok := inst.Args[1].(RegisterWithArrangementAndIndex); ok {
			op = "VMOV"
		}

	case LDR, LDUR:
		var rno uint16
		if r, ok := inst.Args[0].(Reg); ok {
			rno = uint16(r)
		} else {
			rno = uint16(inst.Args[0].(RegSP))
		}
		if rno <= uint16(WZR) {
			op = "MOVWU" + suffix
		} else if rno >= uint16(B0) && rno <= uint16(B31) {
			op = "FMOVB" + suffix
			args[0] = fmt.Sprintf("F%d", rno&31)
		} else if rno >= uint16(H0) && rno <= uint16(H31) {
			op = "FMOVH" + suffix
			args[0] = fmt.Sprintf("F%d", rno&31)
		} else if rno >= uint16(S0) && rno <= uint16(S31) {
			op = "FMOVS" + suffix
			args[0] = fmt.Sprintf("F%d", rno&31)
		} else if rno >= uint16(D0) && rno <= uint16(D31) {
			op = "FMOVD" + suffix
			args[0] = fmt.Sprintf("F%d", rno&31)
		} else if rno >= uint16(Q0) && rno <= uint16(Q31) {
			op = "FMOVQ" + suffix
			args[0] = fmt.Sprintf("F%d", rno&31)
		} else {
			op = "MOVD" + suffix
		}

	case LDRB:
		op = "MOVBU" + suffix

	case LDRH:
		op = "MOVHU" + suffix

	case LDRSW:
		op = "MOVW" + suffix

	case LDRSB:
		if r, ok := inst.Args[0].(Reg); ok {
			rno := uint16(r)
			if rno <= uint16(WZR) {
				op = "MOVBW" + suffix
			} else {
				op = "MOVB" + suffix
			}
		}
	case LDRSH:
		if r, ok := inst.Args[0].(Reg); ok {
			rno := uint16(r)
			if rno <= uint16(WZR) {
				op = "MOVHW" + suffix
			} else {
				op = "MOVH" + suffix
			}
		}
	case STR, STUR:
		var rno uint16
		if r, ok := inst.Args[0].(Reg); ok {
			rno = uint16(r)
		} else {
			rno = uint16(inst.Args[0].(RegSP))
		}
		if rno <= uint16(WZR) {
			op = "MOVW" + suffix
		} else if rno >= uint16(B0) && rno <= uint16(B31) {
			op = "FMOVB" + suffix
			args[0] = fmt.Sprintf("F%d", rno&31)
		} else if rno >= uint16(H0) && rno <= uint16(H31) {
			op = "FMOVH" + suffix
			args[0] = fmt.Sprintf("F%d", rno&31)
		} else if rno >= uint16(S0) && rno <= uint16(S31) {
			op = "FMOVS" + suffix
			args[0] = fmt.Sprintf("F%d", rno&31)
		} else if rno >= uint16(D0) && rno <= uint16(D31) {
			op = "FMOVD" + suffix
			args[0] = fmt.Sprintf("F%d", rno&31)
		} else if rno >= uint16(Q0) && rno <= uint16(Q31) {
			op = "FMOVQ" + suffix
			args[0] = fmt.Sprintf("F%d", rno&31)
		} else {
			op = "MOVD" + suffix
		}
		args[0], args[1] = args[1], args[0]

	case STRB, STURB:
		op = "MOVB" + suffix
		args[0], args[1] = args[1], args[0]

	case STRH, STURH:
		op = "MOVH" + suffix
		args[0], args[1] = args[1], args[0]

	case TBNZ, TBZ:
		args[0], args[1], args[2] = args[2], args[0], args[1]

	case MADD, MSUB, SMADDL, SMSUBL, UMADDL, UMSUBL:
		if r, ok := inst.Args[0].(Reg); ok {
			rno := uint16(r)
			if rno <= uint16(WZR) {
				op += "W"
			}
		}
		args[2], args[3] = args[3], args[2]
	case STLR:
		if r, ok := inst.Args[0].(Reg); ok {
			rno := uint16(r)
			if rno <= uint16(WZR) {
				op += "W"
			}
		}
		args[0], args[1] = args[1], args[0]

	case STLRB, STLRH:
		args[0], args[1] = args[1], args[0]

	case STLXR, STXR:
		if r, ok := inst.Args[1].(Reg); ok {
			rno := uint16(r)
			if rno <= uint16(WZR) {
				op += "W"
			}
		}
		args[1], args[2] = args[2], args[1]

	case STLXRB, STLXRH, STXRB, STXRH:
		args[1], args[2] = args[2], args[1]

	case BFI, BFXIL, SBFIZ, SBFX, UBFIZ, UBFX:
		if r, ok := inst.Args[0].(Reg); ok {
			rno := uint16(r)
			if rno <= uint16(WZR) {
				op += "W"
			}
		}
		args[1], args[2], args[3] = args[3], args[1], args[2]

	case LDAXP, LDXP:
		if r, ok := inst.Args[0].(Reg); ok {
			rno := uint16(r)
			if rno <= uint16(WZR) {
				op += "W"
			}
		}
		args[0] = fmt.Sprintf("(%s, %s)", args[0], args[1])
		args[1] = args[2]
		return op + " " + args[1] + ", " + args[0]

	case STP, LDP:
		args[0] = fmt.Sprintf("(%s, %s)", args[0], args[1])
		args[1] = args[2]

		rno, ok := inst.Args[0].(Reg)
		if !ok {
			rno = Reg(inst.Args[0].(RegSP))
		}
		if rno <= WZR {
			op = op + "W"
		} else if rno >= S0 && rno <= S31 {
			op = "F" + op + "S"
		} else if rno >= D0 && rno <= D31 {
			op = "F" + op + "D"
		} else if rno >= Q0 && rno <= Q31 {
			op = "F" + op + "Q"
		}
		op = op + suffix
		if inst.Op.String() == "STP" {
			return op + " " + args[0] + ", " + args[1]
		} else {
			return op + " " + args[1] + ", " + args[0]
		}

	case STLXP, STXP:
		if r, ok := inst.Args[1].(Reg); ok {
			rno := uint16(r)
			if rno <= uint16(WZR) {
				op += "W"
			}
		}
		args[1] = fmt.Sprintf("(%s, %s)", args[1], args[2])
		args[2] = args[3]
		return op + " " + args[1] + ", " + args[2] + ", " + args[0]

	case FCCMP, FCCMPE:
		args[0], args[1] = args[1], args[0]
		fallthrough

	case FCMP, FCMPE:
		if _, ok := inst.Args[1].(Imm); ok {
			args[1] = "$(0.0)"
		}
		fallthrough

	case FADD, FSUB, FMUL, FNMUL, FDIV, FMAX, FMIN, FMAXNM, FMINNM, FCSEL, FMADD, FMSUB, FNMADD, FNMSUB:
		if strings.HasSuffix(op, "MADD") || strings.HasSuffix(op, "MSUB") {
			args[2], args[3] = args[3], args[2]
		}
		if r, ok := inst.Args[0].(Reg); ok {
			rno := uint16(r)
			if rno >= uint16(S0) && rno <= uint16(S31) {
				op = fmt.Sprintf("%sS", op)
			} else if rno >= uint16(D0) && rno <= uint16(D31) {
				op = fmt.Sprintf("%sD", op)
			}
		}

	case FCVT:
		for i := 1; i >= 0; i-- {
			if r, ok := inst.Args[i].(Reg); ok {
				rno := uint16(r)
				if rno >= uint16(H0) && rno <= uint16(H31) {
					op = fmt.Sprintf("%sH", op)
				} else if rno >= uint16(S0) && rno <= uint16(S31) {
					op = fmt.Sprintf("%sS", op)
				} else if rno >= uint16(D0) && rno <= uint16(D31) {
					op = fmt.Sprintf("%sD", op)
				}
			}
		}

	case FABS, FNEG, FSQRT, FRINTN, FRINTP, FRINTM, FRINTZ, FRINTA, FRINTX, FRINTI:
		if r, ok := inst.Args[1].(Reg); ok {
			rno := uint16(r)
			if rno >= uint16(S0) && rno <= uint16(S31) {
				op = fmt.Sprintf("%sS", op)
			} else if rno >= uint16(D0) && rno <= uint16(D31) {
				op = fmt.Sprintf("%sD", op)
			}
		}

	case FCVTZS, FCVTZU, SCVTF, UCVTF:
		if _, ok := inst.Args[2].(Imm); !ok {
			for i := 1; i >= 0; i-- {
				if r, ok := inst.Args[i].(Reg); ok {
					rno := uint16(r)
					if rno >= uint16(S0) && rno <= uint16(S31) {
						op = fmt.Sprintf("%sS", op)
					} else if rno >= uint16(D0) && rno <= uint16(D31) {
						op = fmt.Sprintf("%sD", op)
					} else if rno <= uint16(WZR) {
						op += "W"
					}
				}
			}
		}

	case FMOV:
		for i := 0; i <= 1; i++ {
			if r, ok := inst.Args[i].(Reg); ok {
				rno := uint16(r)
				if rno >= uint16(S0) && rno <= uint16(S31) {
					op = fmt.Sprintf("%sS", op)
					break
				} else if rno >= uint16(D0) && rno <= uint16(D31) {
					op = fmt.Sprintf("%sD", op)
					break
				}
			}
		}

	case SYSL:
		op1 := int(inst.Args[1].(Imm).Imm)
		cn := int(inst.Args[2].(Imm_c))
		cm := int(inst.Args[3].(Imm_c))
		op2 := int(inst.Args[4].(Imm).Imm)
		sysregno := int32(op1<<16 | cn<<12 | cm<<8 | op2<<5)
		args[1] = fmt.Sprintf("$%d", sysregno)
		return op + " " + args[1] + ", " + args[0]

	case CBNZ, CBZ:
		if r, ok := inst.Args[0].(Reg); ok {
			rno := uint16(r)
			if rno <= uint16(WZR) {
				op += "W"
			}
		}
		args[0], args[1] = args[1], args[0]

	case ADR, ADRP:
		addr := int64(inst.Args[1].(PCRel))
		args[1] = fmt.Sprintf("%d(PC)", addr)

	case MSR:
		args[0] = inst.Args[0].String()

	case ST1:
		op = fmt.Sprintf("V%s", op) + suffix
		args[0], args[1] = args[1], args[0]

	case LD1:
		op = fmt.Sprintf("V%s", op) + suffix

	case UMOV:
		op = "VMOV"
	case NOP:
		op = "NOOP"

	default:
		index := sort.SearchStrings(noSuffixOpSet, op)
		if !(index < len(noSuffixOpSet) && noSuffixOpSet[index] == op) {
			rno := -1
			switch a := inst.Args[0].(type) {
			case Reg:
				rno = int(a)
			case RegSP:
				rno = int(a)
			case RegisterWithArrangement:
				op = fmt.Sprintf("V%s", op)
			}

			if rno >= int(B0) && rno <= int(Q31) && !strings.HasPrefix(op, "F") {
				op = fmt.Sprintf("V%s", op)
			}
			if rno >= 0 && rno <= int(WZR) {
				// Add "w" to opcode suffix.
				op += "W"
			}
		}
		op = op + suffix
	}

	// conditional instructions, replace args.
	if _, ok := inst.Args[3].(Cond); ok {
		if _, ok := inst.Args[2].(Reg); ok {
			args[1], args[2] = args[2], args[1]
		} else {
			args[0], args[2] = args[2], args[0]
		}
	}
	// Reverse args, placing dest last.
	for i, j := 0, len(args)-1; i < j; i, j = i+1, j-1 {
		args[i], args[j] = args[j], args[i]
	}

	if args != nil {
		op += " " + strings.Join(args, ", ")
	}

	return op
}

// No need add "W" to opcode suffix.
// Opcode must be inserted in ascending order.
var noSuffixOpSet = strings.Fields(`
AESD
AESE
AESIMC
AESMC
CRC32B
CRC32CB
CRC32CH
CRC32CW
CRC32CX
CRC32H
CRC32W
CRC32X
LDARB
LDARH
LDAXRB
LDAXRH
LDTRH
LDXRB
LDXRH
SHA1C
SHA1H
SHA1M
SHA1P
SHA1SU0
SHA1SU1
SHA256H
SHA256H2
SHA256SU0
SHA256SU1
`)

// floating point instructions without "F" prefix.
var fOpsWithoutFPrefix = map[Op]bool{
	LDP: true,
	STP: true,
}

func plan9Arg(inst *Inst, pc uint64, symname func(uint64) (string, uint64), arg Arg) string {
	switch a := arg.(type) {
	case Imm:
		return fmt.Sprintf("$%d", uint32(a.Imm))

	case Imm64:
		return fmt.Sprintf("$%d", int64(a.Imm))

	case ImmShift:
		if a.shift == 0 {
			return fmt.Sprintf("$%d", a.imm)
		}
		return fmt.Sprintf("$(%d<<%d)", a.imm, a.shift)

	case PCRel:
		addr := int64(pc) + int64(a)
		if s, base := symname(uint64(addr)); s != "" && uint64(addr) == base {
			return fmt.Sprintf("%s(SB)", s)
		}
		return fmt.Sprintf("%d(PC)", a/4)

	case Reg:
		regenum := uint16(a)
		regno := uint16(a) & 31

		if regenum >= uint16(B0) && regenum <= uint16(Q31) {
			if strings.HasPrefix(inst.Op.String(), "F") || strings.HasSuffix(inst.Op.String(), "CVTF") || fOpsWithoutFPrefix[inst.Op] {
				// FP registers are the same ones as SIMD registers
				// Print Fn for scalar variant to align with assembler (e.g., FCVT, SCVTF, UCVTF, etc.)
				return fmt.Sprintf("F%d", regno)
			} else {
				// Print Vn to align with assembler (e.g., SHA256H)
				return fmt.Sprintf("V%d", regno)
			}

		}
		return plan9gpr(a)

	case RegSP:
		regno := uint16(a) & 31
		if regno == 31 {
			return "RSP"
		}
		return fmt.Sprintf("R%d", regno)

	case RegExtshiftAmount:
		reg := plan9gpr(a.reg)
		extshift := ""
		amount := ""
		if a.extShift != ExtShift(0) {
			switch a.extShift {
			default:
				extshift = "." + a.extShift.String()

			case lsl:
				extshift = "<<"
				amount = fmt.Sprintf("%d", a.amount)
				return reg + extshift + amount

			case lsr:
				extshift = ">>"
				amount = fmt.Sprintf("%d", a.amount)
				return reg + extshift + amount

			case asr:
				extshift = "->"
				amount = fmt.Sprintf("%d", a.amount)
				return reg + extshift + amount
			case ror:
				extshift = "@>"
				amount = fmt.Sprintf("%d", a.amount)
				return reg + extshift + amount
			}
			if a.amount != 0 {
				amount = fmt.Sprintf("<<%d", a.amount)
			}
		}
		return reg + extshift + amount

	case MemImmediate:
		off := ""
		base := ""
		regno := uint16(a.Base) & 31
		if regno == 31 {
			base = "(RSP)"
		} else {
			base = fmt.Sprintf("(R%d)", regno)
		}
		if a.imm != 0 && a.Mode != AddrPostReg {
			off = fmt.Sprintf("%d", a.imm)
		} else if a.Mode == AddrPostReg {
			postR := fmt.Sprintf("(R%d)", a.imm)
			return base + postR
		}
		return off + base

	case MemExtend:
		base := ""
		index := ""
		regno := uint16(a.Base) & 31
		if regno == 31 {
			base = "(RSP)"
		} else {
			base = fmt.Sprintf("(R%d)", regno)
		}
		indexreg := plan9gpr(a.Index)

		if a.Extend == lsl {
			// Refer to ARM reference manual, for byte load/store(register), the index
			// shift amount must be 0, encoded in "S" as 0 if omitted, or as 1 if present.
			// a.Amount indicates the index shift amount, encoded in "S" field.
			// a.ShiftMustBeZero is set true indicates the index shift amount must be 0.
			// When a.ShiftMustBeZero is true, GNU syntax prints "[Xn, Xm lsl #0]" if "S"
			// equals to 1, or prints "[Xn, Xm]" if "S" equals to 0.
			if a.Amount != 0 && !a.ShiftMustBeZero {
				index = fmt.Sprintf("(%s<<%d)", indexreg, a.Amount)
			} else if a.ShiftMustBeZero && a.Amount == 1 {
				// When a.ShiftMustBeZero is ture, Go syntax prints "(Rm<<0)" if "a.Amount"
				// equals to 1.
				index = fmt.Sprintf("(%s<<0)", indexreg)
			} else {
				index = fmt.Sprintf("(%s)", indexreg)
			}
		} else {
			if a.Amount != 0 && !a.ShiftMustBeZero {
				index = fmt.Sprintf("(%s.%s<<%d)", indexreg, a.Extend.String(), a.Amount)
			} else {
				index = fmt.Sprintf("(%s.%s)", indexreg, a.Extend.String())
			}
		}

		return base + index

	case Cond:
		switch arg.String() {
		case "CS":
			return "HS"
		case "CC":
			return "LO"
		}

	case Imm_clrex:
		return fmt.Sprintf("$%d", uint32(a))

	case Imm_dcps:
		return fmt.Sprintf("$%d", uint32(a))

	case Imm_option:
		return fmt.Sprintf("$%d", uint8(a))

	case Imm_hint:
		return fmt.Sprintf("$%d", uint8(a))

	case Imm_fp:
		var s, pre, numerator, denominator int16
		var result float64
		if a.s == 0 {
			s = 1
		} else {
			s = -1
		}
		pre = s * int16(16+a.pre)
		if a.exp > 0 {
			numerator = (pre << uint8(a.exp))
			denominator = 16
		} else {
			numerator = pre
			denominator = (16 << uint8(-1*a.exp))
		}
		result = float64(numerator) / float64(denominator)
		return strings.TrimRight(fmt.Sprintf("$%f", result), "0")

	case RegisterWithArrangement:
		result := a.r.String()
		arrange := a.a.String()
		c := []rune(arrange)
		switch len(c) {
		case 3:
			c[1], c[2] = c[2], c[1] // .8B -> .B8
		case 4:
			c[1], c[2], c[3] = c[3], c[1], c[2] // 16B -> B16
		}
		arrange = string(c)
		result += arrange
		if a.cnt > 0 {
			result = "[" + result
			for i := 1; i < int(a.cnt); i++ {
				cur := V0 + Reg((uint16(a.r)-uint16(V0)+uint16(i))&31)
				result += ", " + cur.String() + arrange
			}
			result += "]"
		}
		return result

	case RegisterWithArrangementAndIndex:
		result := a.r.String()
		arrange := a.a.String()
		result += arrange
		if a.cnt > 1 {
			result = "[" + result
			for i := 1; i < int(a.cnt); i++ {
				cur := V0 + Reg((uint16(a.r)-uint16(V0)+uint16(i))&31)
				result += ", " + cur.String() + arrange
			}
			result += "]"
		}
		return fmt.Sprintf("%s[%d]", result, a.index)

	case Systemreg:
		return fmt.Sprintf("$%d", uint32(a.op0&1)<<14|uint32(a.op1&7)<<11|uint32(a.cn&15)<<7|uint32(a.cm&15)<<3|uint32(a.op2)&7)

	case Imm_prfop:
		if strings.Contains(a.String(), "#") {
			return fmt.Sprintf("$%d", a)
		}
	case sysOp:
		result := a.op.String()
		if a.r != 0 {
			result += ", " + plan9gpr(a.r)
		}
		return result
	}

	return strings.ToUpper(arg.String())
}

// Convert a general-purpose register to plan9 assembly format.
func plan9gpr(r Reg) string {
	regno := uint16(r) & 31
	if regno == 31 {
		return "ZR"
	}
	return fmt.Sprintf("R%d", regno)
}
