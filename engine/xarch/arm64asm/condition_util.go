// Copyright 2017 The Go Authors. All rights reserved.
// Use of this source code is governed by a BSD-style
// license that can be found in the LICENSE file.

package arm64asm

func extract_bit(value, bit uint32) uint32 {
	return (value >> bit) & 1
}

func bfxpreferred_4(sf, opc1, imms, immr uint32) bool {
	if imms < immr {
		return false
	}
	if (imms>>5 == sf) && (imms&0x1f == 0x1f) {
		return false
	}
	if immr == 0 {
		if sf == 0 && (imms == 7 || imms == 15) {
			return false
		}
		if sf == 1 && opc1 == 0 && (imms == 7 ||
			imms == 15 || imms == 31) {
			return false
		}
	}
	return true
}

func move_wide_preferred_4(sf, N, imms, immr uint32) bool {
	if sf == 1 && N != 1 {
		return false
	}
	if sf == 0 && !(N == 0 && ((imms>>5)&1) == 0) {
		return false
	}
	if imms < 16 {
		return (-immr)%16 <= (15 - imms)
	}
	width := uint32(32)
	if sf == 1 {
		width = uint32(64)
	}
	if imms >= (width - 15) {
		return (immr % 16) <= (imms - (width - 15))
	}
	return false
}

type sys uint8

const (
	sys_AT sys = iota
	sys_DC
	sys_IC
	sys_TLBI
	sys_SYS
)

func sys_op_4(op1, crn, crm, op2 uint32) sys {
	sysInst := sysInstFields{uint8(op1), uint8(crn), uint8(crm), uint8(op2)}
	return sysInst.getType()
}

func is_zero(x uint32) bool {
	return x == 0
}

func is_ones_n16(x uint32) bool {
	return x == 0xffff
}

func bit_count(x uint32) uint8 {
	var count uint8
	for count = 0; x > 0; x >>= 1 {
		if (x & 1) == 1 {
			count++
		}
	}
	return count
}
