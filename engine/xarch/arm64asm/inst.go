// Copyright 2017 The Go Authors. All rights reserved.
// Use of this source code is governed by a BSD-style
// license that can be found in the LICENSE file.

package arm64asm

import (
	"fmt"
	"strings"
)

// An Op is an ARM64 opcode.
type Op uint16

// NOTE: The actual Op values are defined in tables.go.
// They are chosen to simplify instruction decoding and
// are not a dense packing from 0 to N, although the
// density is high, probably at least 90%.

func (op Op) String() string {
	if op >= Op(len(opstr)) || opstr[op] == "" {
		return fmt.Sprintf("Op(%d)", int(op))
	}
	return opstr[op]
}

// An Inst is a single instruction.
type Inst struct {
	Op   Op     // Opcode mnemonic
	Enc  uint32 // Raw encoding bits.
	Args Args   // Instruction arguments, in ARM manual order.
}

func (i Inst) String() string {
	var args []string
	for _, arg := range i.Args {
		if arg == nil {
			break
		}
		args = append(args, arg.String())
	}
	return i.Op.String() + " " + strings.Join(args, ", ")
}

// An Args holds the instruction arguments.
// If an instruction has fewer than 5 arguments,
// the final elements in the array are nil.
type Args [5]Arg

// An Arg is a single instruction argument, one of these types:
// Reg, RegSP, ImmShift, RegExtshiftAmount, PCRel, MemImmediate,
// MemExtend, Imm, Imm64, Imm_hint, Imm_clrex, Imm_dcps, Cond,
// Imm_c, Imm_option, Imm_prfop, Pstatefield, Systemreg, Imm_fp
// RegisterWithArrangement, RegisterWithArrangementAndIndex.
type Arg interface {
	isArg()
	String() string
}

// A Reg is a single register.
// The zero value denotes W0, not the absence of a register.
type Reg uint16

const (
	W0 Reg = iota
	W1
	W2
	W3
	W4
	W5
	W6
	W7
	W8
	W9
	W10
	W11
	W12
	W13
	W14
	W15
	W16
	W17
	W18
	W19
	W20
	W21
	W22
	W23
	W24
	W25
	W26
	W27
	W28
	W29
	W30
	WZR

	X0
	X1
	X2
	X3
	X4
	X5
	X6
	X7
	X8
	X9
	X10
	X11
	X12
	X13
	X14
	X15
	X16
	X17
	X18
	X19
	X20
	X21
	X22
	X23
	X24
	X25
	X26
	X27
	X28
	X29
	X30
	XZR

	B0
	B1
	B2
	B3
	B4
	B5
	B6
	B7
	B8
	B9
	B10
	B11
	B12
	B13
	B14
	B15
	B16
	B17
	B18
	B19
	B20
	B21
	B22
	B23
	B24
	B25
	B26
	B27
	B28
	B29
	B30
	B31

	H0
	H1
	H2
	H3
	H4
	H5
	H6
	H7
	H8
	H9
	H10
	H11
	H12
	H13
	H14
	H15
	H16
	H17
	H18
	H19
	H20
	H21
	H22
	H23
	H24
	H25
	H26
	H27
	H28
	H29
	H30
	H31

	S0
	S1
	S2
	S3
	S4
	S5
	S6
	S7
	S8
	S9
	S10
	S11
	S12
	S13
	S14
	S15
	S16
	S17
	S18
	S19
	S20
	S21
	S22
	S23
	S24
	S25
	S26
	S27
	S28
	S29
	S30
	S31

	D0
	D1
	D2
	D3
	D4
	D5
	D6
	D7
	D8
	D9
	D10
	D11
	D12
	D13
	D14
	D15
	D16
	D17
	D18
	D19
	D20
	D21
	D22
	D23
	D24
	D25
	D26
	D27
	D28
	D29
	D30
	D31

	Q0
	Q1
	Q2
	Q3
	Q4
	Q5
	Q6
	Q7
	Q8
	Q9
	Q10
	Q11
	Q12
	Q13
	Q14
	Q15
	Q16
	Q17
	Q18
	Q19
	Q20
	Q21
	Q22
	Q23
	Q24
	Q25
	Q26
	Q27
	Q28
	Q29
	Q30
	Q31

	V0
	V1
	V2
	V3
	V4
	V5
	V6
	V7
	V8
	V9
	V10
	V11
	V12
	V13
	V14
	V15
	V16
	V17
	V18
	V19
	V20
	V21
	V22
	V23
	V24
	V25
	V26
	V27
	V28
	V29
	V30
	V31

	WSP = WZR // These are different registers with the same encoding.
	SP  = XZR // These are different registers with the same encoding.
)

func (Reg) isArg() {}

func (r Reg) String() string {
	switch {
	case r == WZR:
		return "WZR"
	case r == XZR:
		return "XZR"
	case W0 <= r && r <= W30:
		return fmt.Sprintf("W%d", int(r-W0))
	case X0 <= r && r <= X30:
		return fmt.Sprintf("X%d", int(r-X0))

	case B0 <= r && r <= B31:
		return fmt.Sprintf("B%d", int(r-B0))
	case H0 <= r && r <= H31:
		return fmt.Sprintf("H%d", int(r-H0))
	case S0 <= r && r <= S31:
		return fmt.Sprintf("S%d", int(r-S0))
	case D0 <= r && r <= D31:
		return fmt.Sprintf("D%d", int(r-D0))
	case Q0 <= r && r <= Q31:
		return fmt.Sprintf("Q%d", int(r-Q0))

	case V0 <= r && r <= V31:
		return fmt.Sprintf("V%d", int(r-V0))
	default:
		return fmt.Sprintf("Reg(%d)", int(r))
	}
}

// A RegSP represent a register and X31/W31 is regarded as SP/WSP.
type RegSP Reg

func (RegSP) isArg() {}

func (r RegSP) String() string {
	switch Reg(r) {
	case WSP:
		return "WSP"
	case SP:
		return "SP"
	default:
		return Reg(r).String()
	}
}

type ImmShift struct {
	imm   uint16
	shift uint8
}

func (ImmShift) isArg() {}

func (is ImmShift) String() string {
	if is.shift == 0 {
		return fmt.Sprintf("#%#x", is.imm)
	}
	if is.shift < 128 {
		return fmt.Sprintf("#%#x, LSL #%d", is.imm, is.shift)
	}
	return fmt.Sprintf("#%#x, MSL #%d", is.imm, is.shift-128)
}

type ExtShift uint8

const (
	_ ExtShift = iota
	uxtb
	uxth
	uxtw
	uxtx
	sxtb
	sxth
	sxtw
	sxtx
	lsl
	lsr
	asr
	ror
)

func (extShift ExtShift) String() string {
	switch extShift {
	case uxtb:
		return "UXTB"

	case uxth:
		return "UXTH"

	case uxtw:
		return "UXTW"

	case uxtx:
		return "UXTX"

	case sxtb:
		return "SXTB"

	case sxth:
		return "SXTH"

	case sxtw:
		return "SXTW"

	case sxtx:
		return "SXTX"

	case lsl:
		return "LSL"

	case lsr:
		return "LSR"

	case asr:
		return "ASR"

	case ror:
		return "ROR"
	}
	return ""
}

type RegExtshiftAmount struct {
	reg       Reg
	extShift  ExtShift
	amount    uint8
	show_zero bool
}

func (RegExtshiftAmount) isArg() {}

func (rea RegExtshiftAmount) String() string {
	buf := rea.reg.String()
	if rea.extShift != ExtShift(0) {
		buf += ", " + rea.extShift.String()
		if rea.amount != 0 {
			buf += fmt.Sprintf(" #%d", rea.amount)
		} else {
			if rea.show_zero {
				buf += fmt.Sprintf(" #%d", rea.amount)
			}
		}
	}
	return buf
}

// A PCRel describes a memory address (usually a code label)
// as a distance relative to the program counter.
type PCRel int64

func (PCRel) isArg() {}

func (r PCRel) String() string {
	return fmt.Sprintf(".%+#x", uint64(r))
}

// An AddrMode is an ARM addressing mode.
type AddrMode uint8

const (
	_             AddrMode = iota
	AddrPostIndex          // [R], X - use address R, set R = R + X
	AddrPreIndex           // [R, X]! - use address R + X, set R = R + X
	AddrOffset             // [R, X] - use address R + X
	AddrPostReg            // [Rn], Rm - - use address Rn, set Rn = Rn + Rm
)

// A MemImmediate is a memory reference made up of a base R and immediate X.
// The effective memory address is R or R+X depending on AddrMode.
type MemImmediate struct {
	Base RegSP
	Mode AddrMode
	imm  int32
}

func (MemImmediate) isArg() {}

func (m MemImmediate) String() string {
	R := m.Base.String()
	X := fmt.Sprintf("#%d", m.imm)

	switch m.Mode {
	case AddrOffset:
		if X == "#0" {
			return fmt.Sprintf("[%s]", R)
		}
		return fmt.Sprintf("[%s,%s]", R, X)
	case AddrPreIndex:
		return fmt.Sprintf("[%s,%s]!", R, X)
	case AddrPostIndex:
		return fmt.Sprintf("[%s],%s", R, X)
	case AddrPostReg:
		post := Reg(X0) + Reg(m.imm)
		postR := post.String()
		return fmt.Sprintf("[%s], %s", R, postR)
	}
	return "unimplemented!"
}

// A MemExtend is a memory reference made up of a base R and index expression X.
// The effective memory address is R or R+X depending on Index, Extend and Amount.
type MemExtend struct {
	Base   RegSP
	Index  Reg
	Extend ExtShift
	// Amount indicates the index shift amount (but also see ShiftMustBeZero field below).
	Amount uint8
	// Refer to ARM reference manual, for byte load/store(register), the index
	// shift amount must be 0, encoded in "S" as 0 if omitted, or as 1 if present.
	// a.ShiftMustBeZero is set true indicates the index shift amount must be 0.
	// In GNU syntax, a #0 shift amount is printed if Amount is 1 but ShiftMustBeZero
	// is true; #0 is not printed if Amount is 0 and ShiftMustBeZero is true.
	// Both cases represent shift by 0 bit.
	ShiftMustBeZero bool
}

func (MemExtend) isArg() {}

func (m MemExtend) String() string {
	Rbase := m.Base.String()
	RIndex := m.Index.String()
	if m.ShiftMustBeZero {
		if m.Amount != 0 {
			return fmt.Sprintf("[%s,%s,%s #0]", Rbase, RIndex, m.Extend.String())
		} else {
			if m.Extend != lsl {
				return fmt.Sprintf("[%s,%s,%s]", Rbase, RIndex, m.Extend.String())
			} else {
				return fmt.Sprintf("[%s,%s]", Rbase, RIndex)
			}
		}
	} else {
		if m.Amount != 0 {
			return fmt.Sprintf("[%s,%s,%s #%d]", Rbase, RIndex, m.Extend.String(), m.Amount)
		} else {
			if m.Extend != lsl {
				return fmt.Sprintf("[%s,%s,%s]", Rbase, RIndex, m.Extend.String())
			} else {
				return fmt.Sprintf("[%s,%s]", Rbase, RIndex)
			}
		}
	}
}

// An Imm is an integer constant.
type Imm struct {
	Imm     uint32
	Decimal bool
}

func (Imm) isArg() {}

func (i Imm) String() string {
	if !i.Decimal {
		return fmt.Sprintf("#%#x", i.Imm)
	} else {
		return fmt.Sprintf("#%d", i.Imm)
	}
}

type Imm64 struct {
	Imm     uint64
	Decimal bool
}

func (Imm64) isArg() {}

func (i Imm64) String() string {
	if !i.Decimal {
		return fmt.Sprintf("#%#x", i.Imm)
	} else {
		return fmt.Sprintf("#%d", i.Imm)
	}
}

// An Imm_hint is an integer constant for HINT instruction.
type Imm_hint uint8

func (Imm_hint) isArg() {}

func (i Imm_hint) String() string {
	return fmt.Sprintf("#%#x", uint32(i))
}

// An Imm_clrex is an integer constant for CLREX instruction.
type Imm_clrex uint8

func (Imm_clrex) isArg() {}

func (i Imm_clrex) String() string {
	if i == 15 {
		return ""
	}
	return fmt.Sprintf("#%#x", uint32(i))
}

// An Imm_dcps is an integer constant for DCPS[123] instruction.
type Imm_dcps uint16

func (Imm_dcps) isArg() {}

func (i Imm_dcps) String() string {
	if i == 0 {
		return ""
	}
	return fmt.Sprintf("#%#x", uint32(i))
}

// Standard conditions.
type Cond struct {
	Value  uint8
	Invert bool
}

func (Cond) isArg() {}

func (c Cond) String() string {
	cond31 := c.Value >> 1
	invert := bool((c.Value & 1) == 1)
	invert = (invert != c.Invert)
	switch cond31 {
	case 0:
		if invert {
			return "NE"
		} else {
			return "EQ"
		}
	case 1:
		if invert {
			return "CC"
		} else {
			return "CS"
		}
	case 2:
		if invert {
			return "PL"
		} else {
			return "MI"
		}
	case 3:
		if invert {
			return "VC"
		} else {
			return "VS"
		}
	case 4:
		if invert {
			return "LS"
		} else {
			return "HI"
		}
	case 5:
		if invert {
			return "LT"
		} else {
			return "GE"
		}
	case 6:
		if invert {
			return "LE"
		} else {
			return "GT"
		}
	case 7:
		return "AL"
	}
	return ""
}

// An Imm_c is an integer constant for SYS/SYSL/TLBI instruction.
type Imm_c uint8

func (Imm_c) isArg() {}

func (i Imm_c) String() string {
	return fmt.Sprintf("C%d", uint8(i))
}

// An Imm_option is an integer constant for DMB/DSB/ISB instruction.
type Imm_option uint8

func (Imm_option) isArg() {}

func (i Imm_option) String() string {
	switch uint8(i) {
	case 15:
		return "SY"
	case 14:
		return "ST"
	case 13:
		return "LD"
	case 11:
		return "ISH"
	case 10:
		return "ISHST"
	case 9:
		return "ISHLD"
	case 7:
		return "NSH"
	case 6:
		return "NSHST"
	case 5:
		return "NSHLD"
	case 3:
		return "OSH"
	case 2:
		return "OSHST"
	case 1:
		return "OSHLD"
	}
	return fmt.Sprintf("#%#02x", uint8(i))
}

// An Imm_prfop is an integer constant for PRFM instruction.
type Imm_prfop uint8

func (Imm_prfop) isArg() {}

func (i Imm_prfop) String() string {
	prf_type := (i >> 3) & (1<<2 - 1)
	prf_target := (i >> 1) & (1<<2 - 1)
	prf_policy := i & 1
	var result string

	switch prf_type {
	case 0:
		result = "PLD"
	case 1:
		result = "PLI"
	case 2:
		result = "PST"
	case 3:
		return fmt.Sprintf("#%#02x", uint8(i))
	}
	switch prf_target {
	case 0:
		result += "L1"
	case 1:
		result += "L2"
	case 2:
		result += "L3"
	case 3:
		return fmt.Sprintf("#%#02x", uint8(i))
	}
	if prf_policy == 0 {
		result += "KEEP"
	} else {
		result += "STRM"
	}
	return result
}

type Pstatefield uint8

const (
	SPSel Pstatefield = iota
	DAIFSet
	DAIFClr
)

func (Pstatefield) isArg() {}

func (p Pstatefield) String() string {
	switch p {
	case SPSel:
		return "SPSel"
	case DAIFSet:
		return "DAIFSet"
	case DAIFClr:
		return "DAIFClr"
	default:
		return "unimplemented"
	}
}

type Systemreg struct {
	op0 uint8
	op1 uint8
	cn  uint8
	cm  uint8
	op2 uint8
}

func (Systemreg) isArg() {}

func (s Systemreg) String() string {
	return fmt.Sprintf("S%d_%d_C%d_C%d_%d",
		s.op0, s.op1, s.cn, s.cm, s.op2)
}

// An Imm_fp is a signed floating-point constant.
type Imm_fp struct {
	s   uint8
	exp int8
	pre uint8
}

func (Imm_fp) isArg() {}

func (i Imm_fp) String() string {
	var s, pre, numerator, denominator int16
	var result float64
	if i.s == 0 {
		s = 1
	} else {
		s = -1
	}
	pre = s * int16(16+i.pre)
	if i.exp > 0 {
		numerator = (pre << uint8(i.exp))
		denominator = 16
	} else {
		numerator = pre
		denominator = (16 << uint8(-1*i.exp))
	}
	result = float64(numerator) / float64(denominator)
	return fmt.Sprintf("#%.18e", result)
}

type Arrangement uint8

const (
	_ Arrangement = iota
	ArrangementB
	Arrangement8B
	Arrangement16B
	ArrangementH
	Arrangement4H
	Arrangement8H
	ArrangementS
	Arrangement2S
	Arrangement4S
	ArrangementD
	Arrangement1D
	Arrangement2D
	Arrangement1Q
)

func (a Arrangement) String() (result string) {
	switch a {
	case ArrangementB:
		result = ".B"
	case Arrangement8B:
		result = ".8B"
	case Arrangement16B:
		result = ".16B"
	case ArrangementH:
		result = ".H"
	case Arrangement4H:
		result = ".4H"
	case Arrangement8H:
		result = ".8H"
	case ArrangementS:
		result = ".S"
	case Arrangement2S:
		result = ".2S"
	case Arrangement4S:
		result = ".4S"
	case ArrangementD:
		result = ".D"
	case Arrangement1D:
		result = ".1D"
	case Arrangement2D:
		result = ".2D"
	case Arrangement1Q:
		result = ".1Q"
	}
	return
}

// Register with arrangement: <Vd>.<T>, { <Vt>.8B, <Vt2>.8B},
type RegisterWithArrangement struct {
	r   Reg
	a   Arrangement
	cnt uint8
}

func (RegisterWithArrangement) isArg() {}

func (r RegisterWithArrangement) String() string {
	result := r.r.String()
	result += r.a.String()
	if r.cnt > 0 {
		result = "{" + result
		if r.cnt == 2 {
			r1 := V0 + Reg((uint16(r.r)-uint16(V0)+1)&31)
			result += ", " + r1.String() + r.a.String()
		} else if r.cnt > 2 {
			if (uint16(r.cnt) + ((uint16(r.r) - uint16(V0)) & 31)) > 32 {
				for i := 1; i < int(r.cnt); i++ {
					cur := V0 + Reg((uint16(r.r)-uint16(V0)+uint16(i))&31)
					result += ", " + cur.String() + r.a.String()
				}
			} else {
				r1 := V0 + Reg((uint16(r.r)-uint16(V0)+uint16(r.cnt)-1)&31)
				result += "-" + r1.String() + r.a.String()
			}
		}
		result += "}"
	}
	return result
}

// Register with arrangement and index:
//
//	<Vm>.<Ts>[<index>],
//	{ <Vt>.B, <Vt2>.B }[<index>].
type RegisterWithArrangementAndIndex struct {
	r     Reg
	a     Arrangement
	index uint8
	cnt   uint8
}

func (RegisterWithArrangementAndIndex) isArg() {}

func (r RegisterWithArrangementAndIndex) String() string {
	result := r.r.String()
	result += r.a.String()
	if r.cnt > 0 {
		result = "{" + result
		if r.cnt == 2 {
			r1 := V0 + Reg((uint16(r.r)-uint16(V0)+1)&31)
			result += ", " + r1.String() + r.a.String()
		} else if r.cnt > 2 {
			if (uint16(r.cnt) + ((uint16(r.r) - uint16(V0)) & 31)) > 32 {
				for i := 1; i < int(r.cnt); i++ {
					cur := V0 + Reg((uint16(r.r)-uint16(V0)+uint16(i))&31)
					result += ", " + cur.String() + r.a.String()
				}
			} else {
				r1 := V0 + Reg((uint16(r.r)-uint16(V0)+uint16(r.cnt)-1)&31)
				result += "-" + r1.String() + r.a.String()
			}
		}
		result += "}"
	}
	return fmt.Sprintf("%s[%d]", result, r.index)
}

type sysOp struct {
	op          sysInstFields
	r           Reg
	hasOperand2 bool
}

func (s sysOp) isArg() {}

func (s sysOp) String() string {
	result := s.op.String()
	// If s.hasOperand2 is false, the value in the register
	// specified by s.r is ignored.
	if s.hasOperand2 {
		result += ", " + s.r.String()
	}
	return result
}

type sysInstFields struct {
	op1 uint8
	cn  uint8
	cm  uint8
	op2 uint8
}

type sysInstAttrs struct {
	typ         sys
	name        string
	hasOperand2 bool
}

func (s sysInstFields) isArg() {}

func (s sysInstFields) getAttrs() sysInstAttrs {
	attrs, ok := sysInstsAttrs[sysInstFields{s.op1, s.cn, s.cm, s.op2}]
	if !ok {
		return sysInstAttrs{typ: sys_SYS}
	}
	return attrs
}

func (s sysInstFields) String() string {
	return s.getAttrs().name
}

func (s sysInstFields) getType() sys {
	return s.getAttrs().typ
}

var sysInstsAttrs = map[sysInstFields]sysInstAttrs{
	{0, 8, 3, 0}:  {sys_TLBI, "VMALLE1IS", false},
	{0, 8, 3, 1}:  {sys_TLBI, "VAE1IS", true},
	{0, 8, 3, 2}:  {sys_TLBI, "ASIDE1IS", true},
	{0, 8, 3, 3}:  {sys_TLBI, "VAAE1IS", true},
	{0, 8, 3, 5}:  {sys_TLBI, "VALE1IS", true},
	{0, 8, 3, 7}:  {sys_TLBI, "VAALE1IS", true},
	{0, 8, 7, 0}:  {sys_TLBI, "VMALLE1", false},
	{0, 8, 7, 1}:  {sys_TLBI, "VAE1", true},
	{0, 8, 7, 2}:  {sys_TLBI, "ASIDE1", true},
	{0, 8, 7, 3}:  {sys_TLBI, "VAAE1", true},
	{0, 8, 7, 5}:  {sys_TLBI, "VALE1", true},
	{0, 8, 7, 7}:  {sys_TLBI, "VAALE1", true},
	{4, 8, 0, 1}:  {sys_TLBI, "IPAS2E1IS", true},
	{4, 8, 0, 5}:  {sys_TLBI, "IPAS2LE1IS", true},
	{4, 8, 3, 0}:  {sys_TLBI, "ALLE2IS", false},
	{4, 8, 3, 1}:  {sys_TLBI, "VAE2IS", true},
	{4, 8, 3, 4}:  {sys_TLBI, "ALLE1IS", false},
	{4, 8, 3, 5}:  {sys_TLBI, "VALE2IS", true},
	{4, 8, 3, 6}:  {sys_TLBI, "VMALLS12E1IS", false},
	{4, 8, 4, 1}:  {sys_TLBI, "IPAS2E1", true},
	{4, 8, 4, 5}:  {sys_TLBI, "IPAS2LE1", true},
	{4, 8, 7, 0}:  {sys_TLBI, "ALLE2", false},
	{4, 8, 7, 1}:  {sys_TLBI, "VAE2", true},
	{4, 8, 7, 4}:  {sys_TLBI, "ALLE1", false},
	{4, 8, 7, 5}:  {sys_TLBI, "VALE2", true},
	{4, 8, 7, 6}:  {sys_TLBI, "VMALLS12E1", false},
	{6, 8, 3, 0}:  {sys_TLBI, "ALLE3IS", false},
	{6, 8, 3, 1}:  {sys_TLBI, "VAE3IS", true},
	{6, 8, 3, 5}:  {sys_TLBI, "VALE3IS", true},
	{6, 8, 7, 0}:  {sys_TLBI, "ALLE3", false},
	{6, 8, 7, 1}:  {sys_TLBI, "VAE3", true},
	{6, 8, 7, 5}:  {sys_TLBI, "VALE3", true},
	{0, 8, 1, 0}:  {sys_TLBI, "VMALLE1OS", false},
	{0, 8, 1, 1}:  {sys_TLBI, "VAE1OS", true},
	{0, 8, 1, 2}:  {sys_TLBI, "ASIDE1OS", true},
	{0, 8, 1, 3}:  {sys_TLBI, "VAAE1OS", true},
	{0, 8, 1, 5}:  {sys_TLBI, "VALE1OS", true},
	{0, 8, 1, 7}:  {sys_TLBI, "VAALE1OS", true},
	{0, 8, 2, 1}:  {sys_TLBI, "RVAE1IS", true},
	{0, 8, 2, 3}:  {sys_TLBI, "RVAAE1IS", true},
	{0, 8, 2, 5}:  {sys_TLBI, "RVALE1IS", true},
	{0, 8, 2, 7}:  {sys_TLBI, "RVAALE1IS", true},
	{0, 8, 5, 1}:  {sys_TLBI, "RVAE1OS", true},
	{0, 8, 5, 3}:  {sys_TLBI, "RVAAE1OS", true},
	{0, 8, 5, 5}:  {sys_TLBI, "RVALE1OS", true},
	{0, 8, 5, 7}:  {sys_TLBI, "RVAALE1OS", true},
	{0, 8, 6, 1}:  {sys_TLBI, "RVAE1", true},
	{0, 8, 6, 3}:  {sys_TLBI, "RVAAE1", true},
	{0, 8, 6, 5}:  {sys_TLBI, "RVALE1", true},
	{0, 8, 6, 7}:  {sys_TLBI, "RVAALE1", true},
	{4, 8, 0, 2}:  {sys_TLBI, "RIPAS2E1IS", true},
	{4, 8, 0, 6}:  {sys_TLBI, "RIPAS2LE1IS", true},
	{4, 8, 1, 0}:  {sys_TLBI, "ALLE2OS", false},
	{4, 8, 1, 1}:  {sys_TLBI, "VAE2OS", true},
	{4, 8, 1, 4}:  {sys_TLBI, "ALLE1OS", false},
	{4, 8, 1, 5}:  {sys_TLBI, "VALE2OS", true},
	{4, 8, 1, 6}:  {sys_TLBI, "VMALLS12E1OS", false},
	{4, 8, 2, 1}:  {sys_TLBI, "RVAE2IS", true},
	{4, 8, 2, 5}:  {sys_TLBI, "RVALE2IS", true},
	{4, 8, 4, 0}:  {sys_TLBI, "IPAS2E1OS", true},
	{4, 8, 4, 2}:  {sys_TLBI, "RIPAS2E1", true},
	{4, 8, 4, 3}:  {sys_TLBI, "RIPAS2E1OS", true},
	{4, 8, 4, 4}:  {sys_TLBI, "IPAS2LE1OS", true},
	{4, 8, 4, 6}:  {sys_TLBI, "RIPAS2LE1", true},
	{4, 8, 4, 7}:  {sys_TLBI, "RIPAS2LE1OS", true},
	{4, 8, 5, 1}:  {sys_TLBI, "RVAE2OS", true},
	{4, 8, 5, 5}:  {sys_TLBI, "RVALE2OS", true},
	{4, 8, 6, 1}:  {sys_TLBI, "RVAE2", true},
	{4, 8, 6, 5}:  {sys_TLBI, "RVALE2", true},
	{6, 8, 1, 0}:  {sys_TLBI, "ALLE3OS", false},
	{6, 8, 1, 1}:  {sys_TLBI, "VAE3OS", true},
	{6, 8, 1, 5}:  {sys_TLBI, "VALE3OS", true},
	{6, 8, 2, 1}:  {sys_TLBI, "RVAE3IS", true},
	{6, 8, 2, 5}:  {sys_TLBI, "RVALE3IS", true},
	{6, 8, 5, 1}:  {sys_TLBI, "RVAE3OS", true},
	{6, 8, 5, 5}:  {sys_TLBI, "RVALE3OS", true},
	{6, 8, 6, 1}:  {sys_TLBI, "RVAE3", true},
	{6, 8, 6, 5}:  {sys_TLBI, "RVALE3", true},
	{0, 7, 6, 1}:  {sys_DC, "IVAC", true},
	{0, 7, 6, 2}:  {sys_DC, "ISW", true},
	{0, 7, 10, 2}: {sys_DC, "CSW", true},
	{0, 7, 14, 2}: {sys_DC, "CISW", true},
	{3, 7, 4, 1}:  {sys_DC, "ZVA", true},
	{3, 7, 10, 1}: {sys_DC, "CVAC", true},
	{3, 7, 11, 1}: {sys_DC, "CVAU", true},
	{3, 7, 14, 1}: {sys_DC, "CIVAC", true},
	{0, 7, 6, 3}:  {sys_DC, "IGVAC", true},
	{0, 7, 6, 4}:  {sys_DC, "IGSW", true},
	{0, 7, 6, 5}:  {sys_DC, "IGDVAC", true},
	{0, 7, 6, 6}:  {sys_DC, "IGDSW", true},
	{0, 7, 10, 4}: {sys_DC, "CGSW", true},
	{0, 7, 10, 6}: {sys_DC, "CGDSW", true},
	{0, 7, 14, 4}: {sys_DC, "CIGSW", true},
	{0, 7, 14, 6}: {sys_DC, "CIGDSW", true},
	{3, 7, 4, 3}:  {sys_DC, "GVA", true},
	{3, 7, 4, 4}:  {sys_DC, "GZVA", true},
	{3, 7, 10, 3}: {sys_DC, "CGVAC", true},
	{3, 7, 10, 5}: {sys_DC, "CGDVAC", true},
	{3, 7, 12, 3}: {sys_DC, "CGVAP", true},
	{3, 7, 12, 5}: {sys_DC, "CGDVAP", true},
	{3, 7, 13, 3}: {sys_DC, "CGVADP", true},
	{3, 7, 13, 5}: {sys_DC, "CGDVADP", true},
	{3, 7, 14, 3}: {sys_DC, "CIGVAC", true},
	{3, 7, 14, 5}: {sys_DC, "CIGDVAC", true},
	{3, 7, 12, 1}: {sys_DC, "CVAP", true},
	{3, 7, 13, 1}: {sys_DC, "CVADP", true},
}
