// Copyright 2017 The Go Authors. All rights reserved.
// Use of this source code is governed by a BSD-style
// license that can be found in the LICENSE file.

package arm64asm

import (
	"strings"
)

// GNUSyntax returns the GNU assembler syntax for the instruction, as defined by GNU binutils.
// This form typically matches the syntax defined in the ARM Reference Manual.
func GNUSyntax(inst Inst) string {
	switch inst.Op {
	case RET:
		if r, ok := inst.Args[0].(Reg); ok && r == X30 {
			return "ret"
		}
	case B:
		if _, ok := inst.Args[0].(Cond); ok {
			return strings.ToLower("b." + inst.Args[0].String() + " " + inst.Args[1].String())
		}
	case SYSL:
		result := strings.ToLower(inst.String())
		return strings.Replace(result, "c", "C", -1)
	case DCPS1, DCPS2, DCPS3, CLREX:
		return strings.ToLower(strings.TrimSpace(inst.String()))
	case ISB:
		if strings.Contains(inst.String(), "SY") {
			result := strings.TrimSuffix(inst.String(), " SY")
			return strings.ToLower(result)
		}
	}
	return strings.ToLower(inst.String())
}
