// Copyright 2017 The Go Authors. All rights reserved.
// Use of this source code is governed by a BSD-style
// license that can be found in the LICENSE file.

package arm64asm

import (
	"encoding/binary"
	"fmt"
)

type instArgs [5]instArg

// An instFormat describes the format of an instruction encoding.
// An instruction with 32-bit value x matches the format if x&mask == value
// and the predicator: canDecode(x) return true.
type instFormat struct {
	mask  uint32
	value uint32
	op    Op
	// args describe how to decode the instruction arguments.
	// args is stored as a fixed-size array.
	// if there are fewer than len(args) arguments, args[i] == 0 marks
	// the end of the argument list.
	args      instArgs
	canDecode func(instr uint32) bool
}

var (
	errShort   = fmt.Errorf("truncated instruction")
	errUnknown = fmt.Errorf("unknown instruction")
)

var decoderCover []bool

func init() {
	decoderCover = make([]bool, len(instFormats))
}

// Decode decodes the 4 bytes in src as a single instruction.
func Decode(src []byte) (inst Inst, err error) {
	if len(src) < 4 {
		return Inst{}, errShort
	}

	x := binary.LittleEndian.Uint32(src)

Search:
	for i := range instFormats {
		f := &instFormats[i]
		if x&f.mask != f.value {
			continue
		}
		if f.canDecode != nil && !f.canDecode(x) {
			continue
		}
		// Decode args.
		var args Args
		for j, aop := range f.args {
			if aop == 0 {
				break
			}
			arg := decodeArg(aop, x)
			if arg == nil { // Cannot decode argument
				continue Search
			}
			args[j] = arg
		}
		decoderCover[i] = true
		inst = Inst{
			Op:   f.op,
			Args: args,
			Enc:  x,
		}
		return inst, nil
	}
	return Inst{}, errUnknown
}

// decodeArg decodes the arg described by aop from the instruction bits x.
// It returns nil if x cannot be decoded according to aop.
func decodeArg(aop instArg, x uint32) Arg {
	switch aop {
	default:
		return nil

	case arg_Da:
		return D0 + Reg((x>>10)&(1<<5-1))

	case arg_Dd:
		return D0 + Reg(x&(1<<5-1))

	case arg_Dm:
		return D0 + Reg((x>>16)&(1<<5-1))

	case arg_Dn:
		return D0 + Reg((x>>5)&(1<<5-1))

	case arg_Hd:
		return H0 + Reg(x&(1<<5-1))

	case arg_Hn:
		return H0 + Reg((x>>5)&(1<<5-1))

	case arg_IAddSub:
		imm12 := (x >> 10) & (1<<12 - 1)
		shift := (x >> 22) & (1<<2 - 1)
		if shift > 1 {
			return nil
		}
		shift = shift * 12
		return ImmShift{uint16(imm12), uint8(shift)}

	case arg_Sa:
		return S0 + Reg((x>>10)&(1<<5-1))

	case arg_Sd:
		return S0 + Reg(x&(1<<5-1))

	case arg_Sm:
		return S0 + Reg((x>>16)&(1<<5-1))

	case arg_Sn:
		return S0 + Reg((x>>5)&(1<<5-1))

	case arg_Wa:
		return W0 + Reg((x>>10)&(1<<5-1))

	case arg_Wd:
		return W0 + Reg(x&(1<<5-1))

	case arg_Wds:
		return RegSP(W0) + RegSP(x&(1<<5-1))

	case arg_Wm:
		return W0 + Reg((x>>16)&(1<<5-1))

	case arg_Rm_extend__UXTB_0__UXTH_1__UXTW_2__LSL_UXTX_3__SXTB_4__SXTH_5__SXTW_6__SXTX_7__0_4:
		return handle_ExtendedRegister(x, true)

	case arg_Wm_extend__UXTB_0__UXTH_1__LSL_UXTW_2__UXTX_3__SXTB_4__SXTH_5__SXTW_6__SXTX_7__0_4:
		return handle_ExtendedRegister(x, false)

	case arg_Wn:
		return W0 + Reg((x>>5)&(1<<5-1))

	case arg_Wns:
		return RegSP(W0) + RegSP((x>>5)&(1<<5-1))

	case arg_Xa:
		return X0 + Reg((x>>10)&(1<<5-1))

	case arg_Xd:
		return X0 + Reg(x&(1<<5-1))

	case arg_Xds:
		return RegSP(X0) + RegSP(x&(1<<5-1))

	case arg_Xm:
		return X0 + Reg((x>>16)&(1<<5-1))

	case arg_Wm_shift__LSL_0__LSR_1__ASR_2__0_31:
		return handle_ImmediateShiftedRegister(x, 31, true, false)

	case arg_Wm_shift__LSL_0__LSR_1__ASR_2__ROR_3__0_31:
		return handle_ImmediateShiftedRegister(x, 31, true, true)

	case arg_Xm_shift__LSL_0__LSR_1__ASR_2__0_63:
		return handle_ImmediateShiftedRegister(x, 63, false, false)

	case arg_Xm_shift__LSL_0__LSR_1__ASR_2__ROR_3__0_63:
		return handle_ImmediateShiftedRegister(x, 63, false, true)

	case arg_Xn:
		return X0 + Reg((x>>5)&(1<<5-1))

	case arg_Xns:
		return RegSP(X0) + RegSP((x>>5)&(1<<5-1))

	case arg_slabel_imm14_2:
		imm14 := ((x >> 5) & (1<<14 - 1))
		return PCRel(((int64(imm14) << 2) << 48) >> 48)

	case arg_slabel_imm19_2:
		imm19 := ((x >> 5) & (1<<19 - 1))
		return PCRel(((int64(imm19) << 2) << 43) >> 43)

	case arg_slabel_imm26_2:
		imm26 := (x & (1<<26 - 1))
		return PCRel(((int64(imm26) << 2) << 36) >> 36)

	case arg_slabel_immhi_immlo_0:
		immhi := ((x >> 5) & (1<<19 - 1))
		immlo := ((x >> 29) & (1<<2 - 1))
		immhilo := (immhi)<<2 | immlo
		return PCRel((int64(immhilo) << 43) >> 43)

	case arg_slabel_immhi_immlo_12:
		immhi := ((x >> 5) & (1<<19 - 1))
		immlo := ((x >> 29) & (1<<2 - 1))
		immhilo := (immhi)<<2 | immlo
		return PCRel(((int64(immhilo) << 12) << 31) >> 31)

	case arg_Xns_mem:
		Rn := RegSP(X0) + RegSP(x>>5&(1<<5-1))
		return MemImmediate{Rn, AddrOffset, 0}

	case arg_Xns_mem_extend_m__UXTW_2__LSL_3__SXTW_6__SXTX_7__0_0__1_1:
		return handle_MemExtend(x, 1, false)

	case arg_Xns_mem_extend_m__UXTW_2__LSL_3__SXTW_6__SXTX_7__0_0__2_1:
		return handle_MemExtend(x, 2, false)

	case arg_Xns_mem_extend_m__UXTW_2__LSL_3__SXTW_6__SXTX_7__0_0__3_1:
		return handle_MemExtend(x, 3, false)

	case arg_Xns_mem_extend_m__UXTW_2__LSL_3__SXTW_6__SXTX_7__absent_0__0_1:
		return handle_MemExtend(x, 1, true)

	case arg_Xns_mem_optional_imm12_1_unsigned:
		Rn := RegSP(X0) + RegSP(x>>5&(1<<5-1))
		imm12 := (x >> 10) & (1<<12 - 1)
		return MemImmediate{Rn, AddrOffset, int32(imm12)}

	case arg_Xns_mem_optional_imm12_2_unsigned:
		Rn := RegSP(X0) + RegSP(x>>5&(1<<5-1))
		imm12 := (x >> 10) & (1<<12 - 1)
		return MemImmediate{Rn, AddrOffset, int32(imm12 << 1)}

	case arg_Xns_mem_optional_imm12_4_unsigned:
		Rn := RegSP(X0) + RegSP(x>>5&(1<<5-1))
		imm12 := (x >> 10) & (1<<12 - 1)
		return MemImmediate{Rn, AddrOffset, int32(imm12 << 2)}

	case arg_Xns_mem_optional_imm12_8_unsigned:
		Rn := RegSP(X0) + RegSP(x>>5&(1<<5-1))
		imm12 := (x >> 10) & (1<<12 - 1)
		return MemImmediate{Rn, AddrOffset, int32(imm12 << 3)}

	case arg_Xns_mem_optional_imm7_4_signed:
		Rn := RegSP(X0) + RegSP(x>>5&(1<<5-1))
		imm7 := (x >> 15) & (1<<7 - 1)
		return MemImmediate{Rn, AddrOffset, ((int32(imm7 << 2)) << 23) >> 23}

	case arg_Xns_mem_optional_imm7_8_signed:
		Rn := RegSP(X0) + RegSP(x>>5&(1<<5-1))
		imm7 := (x >> 15) & (1<<7 - 1)
		return MemImmediate{Rn, AddrOffset, ((int32(imm7 << 3)) << 22) >> 22}

	case arg_Xns_mem_optional_imm9_1_signed:
		Rn := RegSP(X0) + RegSP(x>>5&(1<<5-1))
		imm9 := (x >> 12) & (1<<9 - 1)
		return MemImmediate{Rn, AddrOffset, (int32(imm9) << 23) >> 23}

	case arg_Xns_mem_post_imm7_4_signed:
		Rn := RegSP(X0) + RegSP(x>>5&(1<<5-1))
		imm7 := (x >> 15) & (1<<7 - 1)
		return MemImmediate{Rn, AddrPostIndex, ((int32(imm7 << 2)) << 23) >> 23}

	case arg_Xns_mem_post_imm7_8_signed:
		Rn := RegSP(X0) + RegSP(x>>5&(1<<5-1))
		imm7 := (x >> 15) & (1<<7 - 1)
		return MemImmediate{Rn, AddrPostIndex, ((int32(imm7 << 3)) << 22) >> 22}

	case arg_Xns_mem_post_imm9_1_signed:
		Rn := RegSP(X0) + RegSP(x>>5&(1<<5-1))
		imm9 := (x >> 12) & (1<<9 - 1)
		return MemImmediate{Rn, AddrPostIndex, ((int32(imm9)) << 23) >> 23}

	case arg_Xns_mem_wb_imm7_4_signed:
		Rn := RegSP(X0) + RegSP(x>>5&(1<<5-1))
		imm7 := (x >> 15) & (1<<7 - 1)
		return MemImmediate{Rn, AddrPreIndex, ((int32(imm7 << 2)) << 23) >> 23}

	case arg_Xns_mem_wb_imm7_8_signed:
		Rn := RegSP(X0) + RegSP(x>>5&(1<<5-1))
		imm7 := (x >> 15) & (1<<7 - 1)
		return MemImmediate{Rn, AddrPreIndex, ((int32(imm7 << 3)) << 22) >> 22}

	case arg_Xns_mem_wb_imm9_1_signed:
		Rn := RegSP(X0) + RegSP(x>>5&(1<<5-1))
		imm9 := (x >> 12) & (1<<9 - 1)
		return MemImmediate{Rn, AddrPreIndex, ((int32(imm9)) << 23) >> 23}

	case arg_Ws:
		return W0 + Reg((x>>16)&(1<<5-1))

	case arg_Wt:
		return W0 + Reg(x&(1<<5-1))

	case arg_Wt2:
		return W0 + Reg((x>>10)&(1<<5-1))

	case arg_Xs:
		return X0 + Reg((x>>16)&(1<<5-1))

	case arg_Xt:
		return X0 + Reg(x&(1<<5-1))

	case arg_Xt2:
		return X0 + Reg((x>>10)&(1<<5-1))

	case arg_immediate_0_127_CRm_op2:
		crm_op2 := (x >> 5) & (1<<7 - 1)
		return Imm_hint(crm_op2)

	case arg_immediate_0_15_CRm:
		crm := (x >> 8) & (1<<4 - 1)
		return Imm{crm, false}

	case arg_immediate_0_15_nzcv:
		nzcv := x & (1<<4 - 1)
		return Imm{nzcv, false}

	case arg_immediate_0_31_imm5:
		imm5 := (x >> 16) & (1<<5 - 1)
		return Imm{imm5, false}

	case arg_immediate_0_31_immr:
		immr := (x >> 16) & (1<<6 - 1)
		if immr > 31 {
			return nil
		}
		return Imm{immr, false}

	case arg_immediate_0_31_imms:
		imms := (x >> 10) & (1<<6 - 1)
		if imms > 31 {
			return nil
		}
		return Imm{imms, true}

	case arg_immediate_0_63_b5_b40:
		b5 := (x >> 31) & 1
		b40 := (x >> 19) & (1<<5 - 1)
		return Imm{(b5 << 5) | b40, true}

	case arg_immediate_0_63_immr:
		immr := (x >> 16) & (1<<6 - 1)
		return Imm{immr, false}

	case arg_immediate_0_63_imms:
		imms := (x >> 10) & (1<<6 - 1)
		return Imm{imms, true}

	case arg_immediate_0_65535_imm16:
		imm16 := (x >> 5) & (1<<16 - 1)
		return Imm{imm16, false}

	case arg_immediate_0_7_op1:
		op1 := (x >> 16) & (1<<3 - 1)
		return Imm{op1, true}

	case arg_immediate_0_7_op2:
		op2 := (x >> 5) & (1<<3 - 1)
		return Imm{op2, true}

	case arg_immediate_ASR_SBFM_32M_bitfield_0_31_immr:
		immr := (x >> 16) & (1<<6 - 1)
		if immr > 31 {
			return nil
		}
		return Imm{immr, true}

	case arg_immediate_ASR_SBFM_64M_bitfield_0_63_immr:
		immr := (x >> 16) & (1<<6 - 1)
		return Imm{immr, true}

	case arg_immediate_BFI_BFM_32M_bitfield_lsb_32_immr:
		immr := (x >> 16) & (1<<6 - 1)
		if immr > 31 {
			return nil
		}
		return Imm{32 - immr, true}

	case arg_immediate_BFI_BFM_32M_bitfield_width_32_imms:
		imms := (x >> 10) & (1<<6 - 1)
		if imms > 31 {
			return nil
		}
		return Imm{imms + 1, true}

	case arg_immediate_BFI_BFM_64M_bitfield_lsb_64_immr:
		immr := (x >> 16) & (1<<6 - 1)
		return Imm{64 - immr, true}

	case arg_immediate_BFI_BFM_64M_bitfield_width_64_imms:
		imms := (x >> 10) & (1<<6 - 1)
		return Imm{imms + 1, true}

	case arg_immediate_BFXIL_BFM_32M_bitfield_lsb_32_immr:
		immr := (x >> 16) & (1<<6 - 1)
		if immr > 31 {
			return nil
		}
		return Imm{immr, true}

	case arg_immediate_BFXIL_BFM_32M_bitfield_width_32_imms:
		immr := (x >> 16) & (1<<6 - 1)
		imms := (x >> 10) & (1<<6 - 1)
		width := imms - immr + 1
		if width < 1 || width > 32-immr {
			return nil
		}
		return Imm{width, true}

	case arg_immediate_BFXIL_BFM_64M_bitfield_lsb_64_immr:
		immr := (x >> 16) & (1<<6 - 1)
		return Imm{immr, true}

	case arg_immediate_BFXIL_BFM_64M_bitfield_width_64_imms:
		immr := (x >> 16) & (1<<6 - 1)
		imms := (x >> 10) & (1<<6 - 1)
		width := imms - immr + 1
		if width < 1 || width > 64-immr {
			return nil
		}
		return Imm{width, true}

	case arg_immediate_bitmask_32_imms_immr:
		return handle_bitmasks(x, 32)

	case arg_immediate_bitmask_64_N_imms_immr:
		return handle_bitmasks(x, 64)

	case arg_immediate_LSL_UBFM_32M_bitfield_0_31_immr:
		imms := (x >> 10) & (1<<6 - 1)
		shift := 31 - imms
		if shift > 31 {
			return nil
		}
		return Imm{shift, true}

	case arg_immediate_LSL_UBFM_64M_bitfield_0_63_immr:
		imms := (x >> 10) & (1<<6 - 1)
		shift := 63 - imms
		if shift > 63 {
			return nil
		}
		return Imm{shift, true}

	case arg_immediate_LSR_UBFM_32M_bitfield_0_31_immr:
		immr := (x >> 16) & (1<<6 - 1)
		if immr > 31 {
			return nil
		}
		return Imm{immr, true}

	case arg_immediate_LSR_UBFM_64M_bitfield_0_63_immr:
		immr := (x >> 16) & (1<<6 - 1)
		return Imm{immr, true}

	case arg_immediate_optional_0_15_CRm:
		crm := (x >> 8) & (1<<4 - 1)
		return Imm_clrex(crm)

	case arg_immediate_optional_0_65535_imm16:
		imm16 := (x >> 5) & (1<<16 - 1)
		return Imm_dcps(imm16)

	case arg_immediate_OptLSL_amount_16_0_16:
		imm16 := (x >> 5) & (1<<16 - 1)
		hw := (x >> 21) & (1<<2 - 1)
		shift := hw * 16
		if shift > 16 {
			return nil
		}
		return ImmShift{uint16(imm16), uint8(shift)}

	case arg_immediate_OptLSL_amount_16_0_48:
		imm16 := (x >> 5) & (1<<16 - 1)
		hw := (x >> 21) & (1<<2 - 1)
		shift := hw * 16
		return ImmShift{uint16(imm16), uint8(shift)}

	case arg_immediate_SBFIZ_SBFM_32M_bitfield_lsb_32_immr:
		immr := (x >> 16) & (1<<6 - 1)
		if immr > 31 {
			return nil
		}
		return Imm{32 - immr, true}

	case arg_immediate_SBFIZ_SBFM_32M_bitfield_width_32_imms:
		imms := (x >> 10) & (1<<6 - 1)
		if imms > 31 {
			return nil
		}
		return Imm{imms + 1, true}

	case arg_immediate_SBFIZ_SBFM_64M_bitfield_lsb_64_immr:
		immr := (x >> 16) & (1<<6 - 1)
		return Imm{64 - immr, true}

	case arg_immediate_SBFIZ_SBFM_64M_bitfield_width_64_imms:
		imms := (x >> 10) & (1<<6 - 1)
		return Imm{imms + 1, true}

	case arg_immediate_SBFX_SBFM_32M_bitfield_lsb_32_immr:
		immr := (x >> 16) & (1<<6 - 1)
		if immr > 31 {
			return nil
		}
		return Imm{immr, true}

	case arg_immediate_SBFX_SBFM_32M_bitfield_width_32_imms:
		immr := (x >> 16) & (1<<6 - 1)
		imms := (x >> 10) & (1<<6 - 1)
		width := imms - immr + 1
		if width < 1 || width > 32-immr {
			return nil
		}
		return Imm{width, true}

	case arg_immediate_SBFX_SBFM_64M_bitfield_lsb_64_immr:
		immr := (x >> 16) & (1<<6 - 1)
		return Imm{immr, true}

	case arg_immediate_SBFX_SBFM_64M_bitfield_width_64_imms:
		immr := (x >> 16) & (1<<6 - 1)
		imms := (x >> 10) & (1<<6 - 1)
		width := imms - immr + 1
		if width < 1 || width > 64-immr {
			return nil
		}
		return Imm{width, true}

	case arg_immediate_shift_32_implicit_imm16_hw:
		imm16 := (x >> 5) & (1<<16 - 1)
		hw := (x >> 21) & (1<<2 - 1)
		shift := hw * 16
		if shift > 16 {
			return nil
		}
		result := uint32(imm16) << shift
		return Imm{result, false}

	case arg_immediate_shift_32_implicit_inverse_imm16_hw:
		imm16 := (x >> 5) & (1<<16 - 1)
		hw := (x >> 21) & (1<<2 - 1)
		shift := hw * 16
		if shift > 16 {
			return nil
		}
		result := uint32(imm16) << shift
		return Imm{^result, false}

	case arg_immediate_shift_64_implicit_imm16_hw:
		imm16 := (x >> 5) & (1<<16 - 1)
		hw := (x >> 21) & (1<<2 - 1)
		shift := hw * 16
		result := uint64(imm16) << shift
		return Imm64{result, false}

	case arg_immediate_shift_64_implicit_inverse_imm16_hw:
		imm16 := (x >> 5) & (1<<16 - 1)
		hw := (x >> 21) & (1<<2 - 1)
		shift := hw * 16
		result := uint64(imm16) << shift
		return Imm64{^result, false}

	case arg_immediate_UBFIZ_UBFM_32M_bitfield_lsb_32_immr:
		immr := (x >> 16) & (1<<6 - 1)
		if immr > 31 {
			return nil
		}
		return Imm{32 - immr, true}

	case arg_immediate_UBFIZ_UBFM_32M_bitfield_width_32_imms:
		imms := (x >> 10) & (1<<6 - 1)
		if imms > 31 {
			return nil
		}
		return Imm{imms + 1, true}

	case arg_immediate_UBFIZ_UBFM_64M_bitfield_lsb_64_immr:
		immr := (x >> 16) & (1<<6 - 1)
		return Imm{64 - immr, true}

	case arg_immediate_UBFIZ_UBFM_64M_bitfield_width_64_imms:
		imms := (x >> 10) & (1<<6 - 1)
		return Imm{imms + 1, true}

	case arg_immediate_UBFX_UBFM_32M_bitfield_lsb_32_immr:
		immr := (x >> 16) & (1<<6 - 1)
		if immr > 31 {
			return nil
		}
		return Imm{immr, true}

	case arg_immediate_UBFX_UBFM_32M_bitfield_width_32_imms:
		immr := (x >> 16) & (1<<6 - 1)
		imms := (x >> 10) & (1<<6 - 1)
		width := imms - immr + 1
		if width < 1 || width > 32-immr {
			return nil
		}
		return Imm{width, true}

	case arg_immediate_UBFX_UBFM_64M_bitfield_lsb_64_immr:
		immr := (x >> 16) & (1<<6 - 1)
		return Imm{immr, true}

	case arg_immediate_UBFX_UBFM_64M_bitfield_width_64_imms:
		immr := (x >> 16) & (1<<6 - 1)
		imms := (x >> 10) & (1<<6 - 1)
		width := imms - immr + 1
		if width < 1 || width > 64-immr {
			return nil
		}
		return Imm{width, true}

	case arg_Rt_31_1__W_0__X_1:
		b5 := (x >> 31) & 1
		Rt := x & (1<<5 - 1)
		if b5 == 0 {
			return W0 + Reg(Rt)
		} else {
			return X0 + Reg(Rt)
		}

	case arg_cond_AllowALNV_Normal:
		cond := (x >> 12) & (1<<4 - 1)
		return Cond{uint8(cond), false}

	case arg_conditional:
		cond := x & (1<<4 - 1)
		return Cond{uint8(cond), false}

	case arg_cond_NotAllowALNV_Invert:
		cond := (x >> 12) & (1<<4 - 1)
		if (cond >> 1) == 7 {
			return nil
		}
		return Cond{uint8(cond), true}

	case arg_Cm:
		CRm := (x >> 8) & (1<<4 - 1)
		return Imm_c(CRm)

	case arg_Cn:
		CRn := (x >> 12) & (1<<4 - 1)
		return Imm_c(CRn)

	case arg_option_DMB_BO_system_CRm:
		CRm := (x >> 8) & (1<<4 - 1)
		return Imm_option(CRm)

	case arg_option_DSB_BO_system_CRm:
		CRm := (x >> 8) & (1<<4 - 1)
		return Imm_option(CRm)

	case arg_option_ISB_BI_system_CRm:
		CRm := (x >> 8) & (1<<4 - 1)
		if CRm == 15 {
			return Imm_option(CRm)
		}
		return Imm{CRm, false}

	case arg_prfop_Rt:
		Rt := x & (1<<5 - 1)
		return Imm_prfop(Rt)

	case arg_pstatefield_op1_op2__SPSel_05__DAIFSet_36__DAIFClr_37:
		op1 := (x >> 16) & (1<<3 - 1)
		op2 := (x >> 5) & (1<<3 - 1)
		if (op1 == 0) && (op2 == 5) {
			return SPSel
		} else if (op1 == 3) && (op2 == 6) {
			return DAIFSet
		} else if (op1 == 3) && (op2 == 7) {
			return DAIFClr
		}
		return nil

	case arg_sysreg_o0_op1_CRn_CRm_op2:
		op0 := (x >> 19) & (1<<2 - 1)
		op1 := (x >> 16) & (1<<3 - 1)
		CRn := (x >> 12) & (1<<4 - 1)
		CRm := (x >> 8) & (1<<4 - 1)
		op2 := (x >> 5) & (1<<3 - 1)
		return Systemreg{uint8(op0), uint8(op1), uint8(CRn), uint8(CRm), uint8(op2)}

	case arg_sysop_AT_SYS_CR_system:
		//TODO: system instruction
		return nil

	case arg_sysop_SYS_CR_system:
		//TODO: system instruction
		return nil

	case arg_sysop_DC_SYS_CR_system, arg_sysop_TLBI_SYS_CR_system:
		op1 := (x >> 16) & 7
		cn := (x >> 12) & 15
		cm := (x >> 8) & 15
		op2 := (x >> 5) & 7
		sysInst := sysInstFields{uint8(op1), uint8(cn), uint8(cm), uint8(op2)}
		attrs := sysInst.getAttrs()
		reg := int(x & 31)
		if !attrs.hasOperand2 {
			if reg == 31 {
				return sysOp{sysInst, 0, false}
			}
			// This instruction is undefined if the Rt field is not set to 31.
			return nil
		}
		return sysOp{sysInst, X0 + Reg(reg), true}

	case arg_Bt:
		return B0 + Reg(x&(1<<5-1))

	case arg_Dt:
		return D0 + Reg(x&(1<<5-1))

	case arg_Dt2:
		return D0 + Reg((x>>10)&(1<<5-1))

	case arg_Ht:
		return H0 + Reg(x&(1<<5-1))

	case arg_immediate_0_63_immh_immb__UIntimmhimmb64_8:
		immh := (x >> 19) & (1<<4 - 1)
		if (immh & 8) == 0 {
			return nil
		}
		immb := (x >> 16) & (1<<3 - 1)
		return Imm{(immh << 3) + immb - 64, true}

	case arg_immediate_0_width_immh_immb__SEEAdvancedSIMDmodifiedimmediate_0__UIntimmhimmb8_1__UIntimmhimmb16_2__UIntimmhimmb32_4:
		immh := (x >> 19) & (1<<4 - 1)
		immb := (x >> 16) & (1<<3 - 1)
		if immh == 1 {
			return Imm{(immh << 3) + immb - 8, true}
		} else if (immh >> 1) == 1 {
			return Imm{(immh << 3) + immb - 16, true}
		} else if (immh >> 2) == 1 {
			return Imm{(immh << 3) + immb - 32, true}
		} else {
			return nil
		}

	case arg_immediate_0_width_immh_immb__SEEAdvancedSIMDmodifiedimmediate_0__UIntimmhimmb8_1__UIntimmhimmb16_2__UIntimmhimmb32_4__UIntimmhimmb64_8:
		fallthrough

	case arg_immediate_0_width_m1_immh_immb__UIntimmhimmb8_1__UIntimmhimmb16_2__UIntimmhimmb32_4__UIntimmhimmb64_8:
		immh := (x >> 19) & (1<<4 - 1)
		immb := (x >> 16) & (1<<3 - 1)
		if immh == 1 {
			return Imm{(immh << 3) + immb - 8, true}
		} else if (immh >> 1) == 1 {
			return Imm{(immh << 3) + immb - 16, true}
		} else if (immh >> 2) == 1 {
			return Imm{(immh << 3) + immb - 32, true}
		} else if (immh >> 3) == 1 {
			return Imm{(immh << 3) + immb - 64, true}
		} else {
			return nil
		}

	case arg_immediate_0_width_size__8_0__16_1__32_2:
		size := (x >> 22) & (1<<2 - 1)
		switch size {
		case 0:
			return Imm{8, true}
		case 1:
			return Imm{16, true}
		case 2:
			return Imm{32, true}
		default:
			return nil
		}

	case arg_immediate_1_64_immh_immb__128UIntimmhimmb_8:
		immh := (x >> 19) & (1<<4 - 1)
		if (immh & 8) == 0 {
			return nil
		}
		immb := (x >> 16) & (1<<3 - 1)
		return Imm{128 - ((immh << 3) + immb), true}

	case arg_immediate_1_width_immh_immb__16UIntimmhimmb_1__32UIntimmhimmb_2__64UIntimmhimmb_4:
		fallthrough

	case arg_immediate_1_width_immh_immb__SEEAdvancedSIMDmodifiedimmediate_0__16UIntimmhimmb_1__32UIntimmhimmb_2__64UIntimmhimmb_4:
		immh := (x >> 19) & (1<<4 - 1)
		immb := (x >> 16) & (1<<3 - 1)
		if immh == 1 {
			return Imm{16 - ((immh << 3) + immb), true}
		} else if (immh >> 1) == 1 {
			return Imm{32 - ((immh << 3) + immb), true}
		} else if (immh >> 2) == 1 {
			return Imm{64 - ((immh << 3) + immb), true}
		} else {
			return nil
		}

	case arg_immediate_1_width_immh_immb__SEEAdvancedSIMDmodifiedimmediate_0__16UIntimmhimmb_1__32UIntimmhimmb_2__64UIntimmhimmb_4__128UIntimmhimmb_8:
		immh := (x >> 19) & (1<<4 - 1)
		immb := (x >> 16) & (1<<3 - 1)
		if immh == 1 {
			return Imm{16 - ((immh << 3) + immb), true}
		} else if (immh >> 1) == 1 {
			return Imm{32 - ((immh << 3) + immb), true}
		} else if (immh >> 2) == 1 {
			return Imm{64 - ((immh << 3) + immb), true}
		} else if (immh >> 3) == 1 {
			return Imm{128 - ((immh << 3) + immb), true}
		} else {
			return nil
		}

	case arg_immediate_8x8_a_b_c_d_e_f_g_h:
		var imm uint64
		if x&(1<<5) != 0 {
			imm = (1 << 8) - 1
		} else {
			imm = 0
		}
		if x&(1<<6) != 0 {
			imm += ((1 << 8) - 1) << 8
		}
		if x&(1<<7) != 0 {
			imm += ((1 << 8) - 1) << 16
		}
		if x&(1<<8) != 0 {
			imm += ((1 << 8) - 1) << 24
		}
		if x&(1<<9) != 0 {
			imm += ((1 << 8) - 1) << 32
		}
		if x&(1<<16) != 0 {
			imm += ((1 << 8) - 1) << 40
		}
		if x&(1<<17) != 0 {
			imm += ((1 << 8) - 1) << 48
		}
		if x&(1<<18) != 0 {
			imm += ((1 << 8) - 1) << 56
		}
		return Imm64{imm, false}

	case arg_immediate_exp_3_pre_4_a_b_c_d_e_f_g_h:
		pre := (x >> 5) & (1<<4 - 1)
		exp := 1 - ((x >> 17) & 1)
		exp = (exp << 2) + (((x >> 16) & 1) << 1) + ((x >> 9) & 1)
		s := ((x >> 18) & 1)
		return Imm_fp{uint8(s), int8(exp) - 3, uint8(pre)}

	case arg_immediate_exp_3_pre_4_imm8:
		pre := (x >> 13) & (1<<4 - 1)
		exp := 1 - ((x >> 19) & 1)
		exp = (exp << 2) + ((x >> 17) & (1<<2 - 1))
		s := ((x >> 20) & 1)
		return Imm_fp{uint8(s), int8(exp) - 3, uint8(pre)}

	case arg_immediate_fbits_min_1_max_0_sub_0_immh_immb__64UIntimmhimmb_4__128UIntimmhimmb_8:
		fallthrough

	case arg_immediate_fbits_min_1_max_0_sub_0_immh_immb__SEEAdvancedSIMDmodifiedimmediate_0__64UIntimmhimmb_4__128UIntimmhimmb_8:
		immh := (x >> 19) & (1<<4 - 1)
		immb := (x >> 16) & (1<<3 - 1)
		if (immh >> 2) == 1 {
			return Imm{64 - ((immh << 3) + immb), true}
		} else if (immh >> 3) == 1 {
			return Imm{128 - ((immh << 3) + immb), true}
		} else {
			return nil
		}

	case arg_immediate_fbits_min_1_max_32_sub_64_scale:
		scale := (x >> 10) & (1<<6 - 1)
		fbits := 64 - scale
		if fbits > 32 {
			return nil
		}
		return Imm{fbits, true}

	case arg_immediate_fbits_min_1_max_64_sub_64_scale:
		scale := (x >> 10) & (1<<6 - 1)
		fbits := 64 - scale
		return Imm{fbits, true}

	case arg_immediate_floatzero:
		return Imm{0, true}

	case arg_immediate_index_Q_imm4__imm4lt20gt_00__imm4_10:
		Q := (x >> 30) & 1
		imm4 := (x >> 11) & (1<<4 - 1)
		if Q == 1 || (imm4>>3) == 0 {
			return Imm{imm4, true}
		} else {
			return nil
		}

	case arg_immediate_MSL__a_b_c_d_e_f_g_h_cmode__8_0__16_1:
		var shift uint8
		imm8 := (x >> 16) & (1<<3 - 1)
		imm8 = (imm8 << 5) | ((x >> 5) & (1<<5 - 1))
		if (x>>12)&1 == 0 {
			shift = 8 + 128
		} else {
			shift = 16 + 128
		}
		return ImmShift{uint16(imm8), shift}

	case arg_immediate_OptLSL__a_b_c_d_e_f_g_h_cmode__0_0__8_1:
		imm8 := (x >> 16) & (1<<3 - 1)
		imm8 = (imm8 << 5) | ((x >> 5) & (1<<5 - 1))
		cmode1 := (x >> 13) & 1
		shift := 8 * cmode1
		return ImmShift{uint16(imm8), uint8(shift)}

	case arg_immediate_OptLSL__a_b_c_d_e_f_g_h_cmode__0_0__8_1__16_2__24_3:
		imm8 := (x >> 16) & (1<<3 - 1)
		imm8 = (imm8 << 5) | ((x >> 5) & (1<<5 - 1))
		cmode1 := (x >> 13) & (1<<2 - 1)
		shift := 8 * cmode1
		return ImmShift{uint16(imm8), uint8(shift)}

	case arg_immediate_OptLSLZero__a_b_c_d_e_f_g_h:
		imm8 := (x >> 16) & (1<<3 - 1)
		imm8 = (imm8 << 5) | ((x >> 5) & (1<<5 - 1))
		return ImmShift{uint16(imm8), 0}

	case arg_immediate_zero:
		return Imm{0, true}

	case arg_Qd:
		return Q0 + Reg(x&(1<<5-1))

	case arg_Qn:
		return Q0 + Reg((x>>5)&(1<<5-1))

	case arg_Qt:
		return Q0 + Reg(x&(1<<5-1))

	case arg_Qt2:
		return Q0 + Reg((x>>10)&(1<<5-1))

	case arg_Rn_16_5__W_1__W_2__W_4__X_8:
		imm5 := (x >> 16) & (1<<5 - 1)
		if ((imm5 & 1) == 1) || ((imm5 & 2) == 2) || ((imm5 & 4) == 4) {
			return W0 + Reg((x>>5)&(1<<5-1))
		} else if (imm5 & 8) == 8 {
			return X0 + Reg((x>>5)&(1<<5-1))
		} else {
			return nil
		}

	case arg_St:
		return S0 + Reg(x&(1<<5-1))

	case arg_St2:
		return S0 + Reg((x>>10)&(1<<5-1))

	case arg_Vd_16_5__B_1__H_2__S_4__D_8:
		imm5 := (x >> 16) & (1<<5 - 1)
		Rd := x & (1<<5 - 1)
		if imm5&1 == 1 {
			return B0 + Reg(Rd)
		} else if imm5&2 == 2 {
			return H0 + Reg(Rd)
		} else if imm5&4 == 4 {
			return S0 + Reg(Rd)
		} else if imm5&8 == 8 {
			return D0 + Reg(Rd)
		} else {
			return nil
		}

	case arg_Vd_19_4__B_1__H_2__S_4:
		immh := (x >> 19) & (1<<4 - 1)
		Rd := x & (1<<5 - 1)
		if immh == 1 {
			return B0 + Reg(Rd)
		} else if immh>>1 == 1 {
			return H0 + Reg(Rd)
		} else if immh>>2 == 1 {
			return S0 + Reg(Rd)
		} else {
			return nil
		}

	case arg_Vd_19_4__B_1__H_2__S_4__D_8:
		immh := (x >> 19) & (1<<4 - 1)
		Rd := x & (1<<5 - 1)
		if immh == 1 {
			return B0 + Reg(Rd)
		} else if immh>>1 == 1 {
			return H0 + Reg(Rd)
		} else if immh>>2 == 1 {
			return S0 + Reg(Rd)
		} else if immh>>3 == 1 {
			return D0 + Reg(Rd)
		} else {
			return nil
		}

	case arg_Vd_19_4__D_8:
		immh := (x >> 19) & (1<<4 - 1)
		Rd := x & (1<<5 - 1)
		if immh>>3 == 1 {
			return D0 + Reg(Rd)
		} else {
			return nil
		}

	case arg_Vd_19_4__S_4__D_8:
		immh := (x >> 19) & (1<<4 - 1)
		Rd := x & (1<<5 - 1)
		if immh>>2 == 1 {
			return S0 + Reg(Rd)
		} else if immh>>3 == 1 {
			return D0 + Reg(Rd)
		} else {
			return nil
		}

	case arg_Vd_22_1__S_0:
		sz := (x >> 22) & 1
		Rd := x & (1<<5 - 1)
		if sz == 0 {
			return S0 + Reg(Rd)
		} else {
			return nil
		}

	case arg_Vd_22_1__S_0__D_1:
		sz := (x >> 22) & 1
		Rd := x & (1<<5 - 1)
		if sz == 0 {
			return S0 + Reg(Rd)
		} else {
			return D0 + Reg(Rd)
		}

	case arg_Vd_22_1__S_1:
		sz := (x >> 22) & 1
		Rd := x & (1<<5 - 1)
		if sz == 1 {
			return S0 + Reg(Rd)
		} else {
			return nil
		}

	case arg_Vd_22_2__B_0__H_1__S_2:
		size := (x >> 22) & (1<<2 - 1)
		Rd := x & (1<<5 - 1)
		if size == 0 {
			return B0 + Reg(Rd)
		} else if size == 1 {
			return H0 + Reg(Rd)
		} else if size == 2 {
			return S0 + Reg(Rd)
		} else {
			return nil
		}

	case arg_Vd_22_2__B_0__H_1__S_2__D_3:
		size := (x >> 22) & (1<<2 - 1)
		Rd := x & (1<<5 - 1)
		if size == 0 {
			return B0 + Reg(Rd)
		} else if size == 1 {
			return H0 + Reg(Rd)
		} else if size == 2 {
			return S0 + Reg(Rd)
		} else {
			return D0 + Reg(Rd)
		}

	case arg_Vd_22_2__D_3:
		size := (x >> 22) & (1<<2 - 1)
		Rd := x & (1<<5 - 1)
		if size == 3 {
			return D0 + Reg(Rd)
		} else {
			return nil
		}

	case arg_Vd_22_2__H_0__S_1__D_2:
		size := (x >> 22) & (1<<2 - 1)
		Rd := x & (1<<5 - 1)
		if size == 0 {
			return H0 + Reg(Rd)
		} else if size == 1 {
			return S0 + Reg(Rd)
		} else if size == 2 {
			return D0 + Reg(Rd)
		} else {
			return nil
		}

	case arg_Vd_22_2__H_1__S_2:
		size := (x >> 22) & (1<<2 - 1)
		Rd := x & (1<<5 - 1)
		if size == 1 {
			return H0 + Reg(Rd)
		} else if size == 2 {
			return S0 + Reg(Rd)
		} else {
			return nil
		}

	case arg_Vd_22_2__S_1__D_2:
		size := (x >> 22) & (1<<2 - 1)
		Rd := x & (1<<5 - 1)
		if size == 1 {
			return S0 + Reg(Rd)
		} else if size == 2 {
			return D0 + Reg(Rd)
		} else {
			return nil
		}

	case arg_Vd_arrangement_16B:
		Rd := x & (1<<5 - 1)
		return RegisterWithArrangement{V0 + Reg(Rd), Arrangement16B, 0}

	case arg_Vd_arrangement_2D:
		Rd := x & (1<<5 - 1)
		return RegisterWithArrangement{V0 + Reg(Rd), Arrangement2D, 0}

	case arg_Vd_arrangement_4S:
		Rd := x & (1<<5 - 1)
		return RegisterWithArrangement{V0 + Reg(Rd), Arrangement4S, 0}

	case arg_Vd_arrangement_D_index__1:
		Rd := x & (1<<5 - 1)
		return RegisterWithArrangementAndIndex{V0 + Reg(Rd), ArrangementD, 1, 0}

	case arg_Vd_arrangement_imm5___B_1__H_2__S_4__D_8_index__imm5__imm5lt41gt_1__imm5lt42gt_2__imm5lt43gt_4__imm5lt4gt_8_1:
		var a Arrangement
		var index uint32
		Rd := x & (1<<5 - 1)
		imm5 := (x >> 16) & (1<<5 - 1)
		if imm5&1 == 1 {
			a = ArrangementB
			index = imm5 >> 1
		} else if imm5&2 == 2 {
			a = ArrangementH
			index = imm5 >> 2
		} else if imm5&4 == 4 {
			a = ArrangementS
			index = imm5 >> 3
		} else if imm5&8 == 8 {
			a = ArrangementD
			index = imm5 >> 4
		} else {
			return nil
		}
		return RegisterWithArrangementAndIndex{V0 + Reg(Rd), a, uint8(index), 0}

	case arg_Vd_arrangement_imm5_Q___8B_10__16B_11__4H_20__8H_21__2S_40__4S_41__2D_81:
		Rd := x & (1<<5 - 1)
		imm5 := (x >> 16) & (1<<5 - 1)
		Q := (x >> 30) & 1
		if imm5&1 == 1 {
			if Q == 0 {
				return RegisterWithArrangement{V0 + Reg(Rd), Arrangement8B, 0}
			} else {
				return RegisterWithArrangement{V0 + Reg(Rd), Arrangement16B, 0}
			}
		} else if imm5&2 == 2 {
			if Q == 0 {
				return RegisterWithArrangement{V0 + Reg(Rd), Arrangement4H, 0}
			} else {
				return RegisterWithArrangement{V0 + Reg(Rd), Arrangement8H, 0}
			}
		} else if imm5&4 == 4 {
			if Q == 0 {
				return RegisterWithArrangement{V0 + Reg(Rd), Arrangement2S, 0}
			} else {
				return RegisterWithArrangement{V0 + Reg(Rd), Arrangement4S, 0}
			}
		} else if (imm5&8 == 8) && (Q == 1) {
			return RegisterWithArrangement{V0 + Reg(Rd), Arrangement2D, 0}
		} else {
			return nil
		}

	case arg_Vd_arrangement_immh_Q___SEEAdvancedSIMDmodifiedimmediate_00__2S_40__4S_41__2D_81:
		Rd := x & (1<<5 - 1)
		immh := (x >> 19) & (1<<4 - 1)
		Q := (x >> 30) & 1
		if immh>>2 == 1 {
			if Q == 0 {
				return RegisterWithArrangement{V0 + Reg(Rd), Arrangement2S, 0}
			} else {
				return RegisterWithArrangement{V0 + Reg(Rd), Arrangement4S, 0}
			}
		} else if immh>>3 == 1 {
			if Q == 1 {
				return RegisterWithArrangement{V0 + Reg(Rd), Arrangement2D, 0}
			}
		}
		return nil

	case arg_Vd_arrangement_immh_Q___SEEAdvancedSIMDmodifiedimmediate_00__8B_10__16B_11__4H_20__8H_21__2S_40__4S_41:
		Rd := x & (1<<5 - 1)
		immh := (x >> 19) & (1<<4 - 1)
		Q := (x >> 30) & 1
		if immh == 1 {
			if Q == 0 {
				return RegisterWithArrangement{V0 + Reg(Rd), Arrangement8B, 0}
			} else {
				return RegisterWithArrangement{V0 + Reg(Rd), Arrangement16B, 0}
			}
		} else if immh>>1 == 1 {
			if Q == 0 {
				return RegisterWithArrangement{V0 + Reg(Rd), Arrangement4H, 0}
			} else {
				return RegisterWithArrangement{V0 + Reg(Rd), Arrangement8H, 0}
			}
		} else if immh>>2 == 1 {
			if Q == 0 {
				return RegisterWithArrangement{V0 + Reg(Rd), Arrangement2S, 0}
			} else {
				return RegisterWithArrangement{V0 + Reg(Rd), Arrangement4S, 0}
			}
		}
		return nil

	case arg_Vd_arrangement_immh_Q___SEEAdvancedSIMDmodifiedimmediate_00__8B_10__16B_11__4H_20__8H_21__2S_40__4S_41__2D_81:
		Rd := x & (1<<5 - 1)
		immh := (x >> 19) & (1<<4 - 1)
		Q := (x >> 30) & 1
		if immh == 1 {
			if Q == 0 {
				return RegisterWithArrangement{V0 + Reg(Rd), Arrangement8B, 0}
			} else {
				return RegisterWithArrangement{V0 + Reg(Rd), Arrangement16B, 0}
			}
		} else if immh>>1 == 1 {
			if Q == 0 {
				return RegisterWithArrangement{V0 + Reg(Rd), Arrangement4H, 0}
			} else {
				return RegisterWithArrangement{V0 + Reg(Rd), Arrangement8H, 0}
			}
		} else if immh>>2 == 1 {
			if Q == 0 {
				return RegisterWithArrangement{V0 + Reg(Rd), Arrangement2S, 0}
			} else {
				return RegisterWithArrangement{V0 + Reg(Rd), Arrangement4S, 0}
			}
		} else if immh>>3 == 1 {
			if Q == 1 {
				return RegisterWithArrangement{V0 + Reg(Rd), Arrangement2D, 0}
			}
		}
		return nil

	case arg_Vd_arrangement_immh___SEEAdvancedSIMDmodifiedimmediate_0__8H_1__4S_2__2D_4:
		Rd := x & (1<<5 - 1)
		immh := (x >> 19) & (1<<4 - 1)
		if immh == 1 {
			return RegisterWithArrangement{V0 + Reg(Rd), Arrangement8H, 0}
		} else if immh>>1 == 1 {
			return RegisterWithArrangement{V0 + Reg(Rd), Arrangement4S, 0}
		} else if immh>>2 == 1 {
			return RegisterWithArrangement{V0 + Reg(Rd), Arrangement2D, 0}
		}
		return nil

	case arg_Vd_arrangement_Q___2S_0__4S_1:
		Rd := x & (1<<5 - 1)
		Q := (x >> 30) & 1
		if Q == 0 {
			return RegisterWithArrangement{V0 + Reg(Rd), Arrangement2S, 0}
		} else {
			return RegisterWithArrangement{V0 + Reg(Rd), Arrangement4S, 0}
		}

	case arg_Vd_arrangement_Q___4H_0__8H_1:
		Rd := x & (1<<5 - 1)
		Q := (x >> 30) & 1
		if Q == 0 {
			return RegisterWithArrangement{V0 + Reg(Rd), Arrangement4H, 0}
		} else {
			return RegisterWithArrangement{V0 + Reg(Rd), Arrangement8H, 0}
		}

	case arg_Vd_arrangement_Q___8B_0__16B_1:
		Rd := x & (1<<5 - 1)
		Q := (x >> 30) & 1
		if Q == 0 {
			return RegisterWithArrangement{V0 + Reg(Rd), Arrangement8B, 0}
		} else {
			return RegisterWithArrangement{V0 + Reg(Rd), Arrangement16B, 0}
		}

	case arg_Vd_arrangement_Q_sz___2S_00__4S_10__2D_11:
		Rd := x & (1<<5 - 1)
		Q := (x >> 30) & 1
		sz := (x >> 22) & 1
		if sz == 0 && Q == 0 {
			return RegisterWithArrangement{V0 + Reg(Rd), Arrangement2S, 0}
		} else if sz == 0 && Q == 1 {
			return RegisterWithArrangement{V0 + Reg(Rd), Arrangement4S, 0}
		} else if sz == 1 && Q == 1 {
			return RegisterWithArrangement{V0 + Reg(Rd), Arrangement2D, 0}
		}
		return nil

	case arg_Vd_arrangement_size___4S_1__2D_2:
		Rd := x & (1<<5 - 1)
		size := (x >> 22) & 3
		if size == 1 {
			return RegisterWithArrangement{V0 + Reg(Rd), Arrangement4S, 0}
		} else if size == 2 {
			return RegisterWithArrangement{V0 + Reg(Rd), Arrangement2D, 0}
		}
		return nil

	case arg_Vd_arrangement_size___8H_0__1Q_3:
		Rd := x & (1<<5 - 1)
		size := (x >> 22) & 3
		if size == 0 {
			return RegisterWithArrangement{V0 + Reg(Rd), Arrangement8H, 0}
		} else if size == 3 {
			return RegisterWithArrangement{V0 + Reg(Rd), Arrangement1Q, 0}
		}
		return nil

	case arg_Vd_arrangement_size___8H_0__4S_1__2D_2:
		Rd := x & (1<<5 - 1)
		size := (x >> 22) & 3
		if size == 0 {
			return RegisterWithArrangement{V0 + Reg(Rd), Arrangement8H, 0}
		} else if size == 1 {
			return RegisterWithArrangement{V0 + Reg(Rd), Arrangement4S, 0}
		} else if size == 2 {
			return RegisterWithArrangement{V0 + Reg(Rd), Arrangement2D, 0}
		}
		return nil

	case arg_Vd_arrangement_size_Q___4H_00__8H_01__2S_10__4S_11__1D_20__2D_21:
		Rd := x & (1<<5 - 1)
		size := (x >> 22) & 3
		Q := (x >> 30) & 1
		if size == 0 && Q == 0 {
			return RegisterWithArrangement{V0 + Reg(Rd), Arrangement4H, 0}
		} else if size == 0 && Q == 1 {
			return RegisterWithArrangement{V0 + Reg(Rd), Arrangement8H, 0}
		} else if size == 1 && Q == 0 {
			return RegisterWithArrangement{V0 + Reg(Rd), Arrangement2S, 0}
		} else if size == 1 && Q == 1 {
			return RegisterWithArrangement{V0 + Reg(Rd), Arrangement4S, 0}
		} else if size == 2 && Q == 0 {
			return RegisterWithArrangement{V0 + Reg(Rd), Arrangement1D, 0}
		} else if size == 2 && Q == 1 {
			return RegisterWithArrangement{V0 + Reg(Rd), Arrangement2D, 0}
		}
		return nil

	case arg_Vd_arrangement_size_Q___4H_10__8H_11__2S_20__4S_21:
		Rd := x & (1<<5 - 1)
		size := (x >> 22) & 3
		Q := (x >> 30) & 1
		if size == 1 && Q == 0 {
			return RegisterWithArrangement{V0 + Reg(Rd), Arrangement4H, 0}
		} else if size == 1 && Q == 1 {
			return RegisterWithArrangement{V0 + Reg(Rd), Arrangement8H, 0}
		} else if size == 2 && Q == 0 {
			return RegisterWithArrangement{V0 + Reg(Rd), Arrangement2S, 0}
		} else if size == 2 && Q == 1 {
			return RegisterWithArrangement{V0 + Reg(Rd), Arrangement4S, 0}
		}
		return nil

	case arg_Vd_arrangement_size_Q___8B_00__16B_01:
		Rd := x & (1<<5 - 1)
		size := (x >> 22) & 3
		Q := (x >> 30) & 1
		if size == 0 && Q == 0 {
			return RegisterWithArrangement{V0 + Reg(Rd), Arrangement8B, 0}
		} else if size == 0 && Q == 1 {
			return RegisterWithArrangement{V0 + Reg(Rd), Arrangement16B, 0}
		}
		return nil

	case arg_Vd_arrangement_size_Q___8B_00__16B_01__4H_10__8H_11:
		Rd := x & (1<<5 - 1)
		size := (x >> 22) & 3
		Q := (x >> 30) & 1
		if size == 0 && Q == 0 {
			return RegisterWithArrangement{V0 + Reg(Rd), Arrangement8B, 0}
		} else if size == 0 && Q == 1 {
			return RegisterWithArrangement{V0 + Reg(Rd), Arrangement16B, 0}
		} else if size == 1 && Q == 0 {
			return RegisterWithArrangement{V0 + Reg(Rd), Arrangement4H, 0}
		} else if size == 1 && Q == 1 {
			return RegisterWithArrangement{V0 + Reg(Rd), Arrangement8H, 0}
		}
		return nil

	case arg_Vd_arrangement_size_Q___8B_00__16B_01__4H_10__8H_11__2S_20__4S_21:
		Rd := x & (1<<5 - 1)
		size := (x >> 22) & 3
		Q := (x >> 30) & 1
		if size == 0 && Q == 0 {
			return RegisterWithArrangement{V0 + Reg(Rd), Arrangement8B, 0}
		} else if size == 0 && Q == 1 {
			return RegisterWithArrangement{V0 + Reg(Rd), Arrangement16B, 0}
		} else if size == 1 && Q == 0 {
			return RegisterWithArrangement{V0 + Reg(Rd), Arrangement4H, 0}
		} else if size == 1 && Q == 1 {
			return RegisterWithArrangement{V0 + Reg(Rd), Arrangement8H, 0}
		} else if size == 2 && Q == 0 {
			return RegisterWithArrangement{V0 + Reg(Rd), Arrangement2S, 0}
		} else if size == 2 && Q == 1 {
			return RegisterWithArrangement{V0 + Reg(Rd), Arrangement4S, 0}
		}
		return nil

	case arg_Vd_arrangement_size_Q___8B_00__16B_01__4H_10__8H_11__2S_20__4S_21__2D_31:
		Rd := x & (1<<5 - 1)
		size := (x >> 22) & 3
		Q := (x >> 30) & 1
		if size == 0 && Q == 0 {
			return RegisterWithArrangement{V0 + Reg(Rd), Arrangement8B, 0}
		} else if size == 0 && Q == 1 {
			return RegisterWithArrangement{V0 + Reg(Rd), Arrangement16B, 0}
		} else if size == 1 && Q == 0 {
			return RegisterWithArrangement{V0 + Reg(Rd), Arrangement4H, 0}
		} else if size == 1 && Q == 1 {
			return RegisterWithArrangement{V0 + Reg(Rd), Arrangement8H, 0}
		} else if size == 2 && Q == 0 {
			return RegisterWithArrangement{V0 + Reg(Rd), Arrangement2S, 0}
		} else if size == 2 && Q == 1 {
			return RegisterWithArrangement{V0 + Reg(Rd), Arrangement4S, 0}
		} else if size == 3 && Q == 1 {
			return RegisterWithArrangement{V0 + Reg(Rd), Arrangement2D, 0}
		}
		return nil

	case arg_Vd_arrangement_sz___4S_0__2D_1:
		Rd := x & (1<<5 - 1)
		sz := (x >> 22) & 1
		if sz == 0 {
			return RegisterWithArrangement{V0 + Reg(Rd), Arrangement4S, 0}
		} else {
			return RegisterWithArrangement{V0 + Reg(Rd), Arrangement2D, 0}
		}

	case arg_Vd_arrangement_sz_Q___2S_00__4S_01:
		Rd := x & (1<<5 - 1)
		sz := (x >> 22) & 1
		Q := (x >> 30) & 1
		if sz == 0 && Q == 0 {
			return RegisterWithArrangement{V0 + Reg(Rd), Arrangement2S, 0}
		} else if sz == 0 && Q == 1 {
			return RegisterWithArrangement{V0 + Reg(Rd), Arrangement4S, 0}
		}
		return nil

	case arg_Vd_arrangement_sz_Q___2S_00__4S_01__2D_11:
		Rd := x & (1<<5 - 1)
		sz := (x >> 22) & 1
		Q := (x >> 30) & 1
		if sz == 0 && Q == 0 {
			return RegisterWithArrangement{V0 + Reg(Rd), Arrangement2S, 0}
		} else if sz == 0 && Q == 1 {
			return RegisterWithArrangement{V0 + Reg(Rd), Arrangement4S, 0}
		} else if sz == 1 && Q == 1 {
			return RegisterWithArrangement{V0 + Reg(Rd), Arrangement2D, 0}
		}
		return nil

	case arg_Vd_arrangement_sz_Q___2S_10__4S_11:
		Rd := x & (1<<5 - 1)
		sz := (x >> 22) & 1
		Q := (x >> 30) & 1
		if sz == 1 && Q == 0 {
			return RegisterWithArrangement{V0 + Reg(Rd), Arrangement2S, 0}
		} else if sz == 1 && Q == 1 {
			return RegisterWithArrangement{V0 + Reg(Rd), Arrangement4S, 0}
		}
		return nil

	case arg_Vd_arrangement_sz_Q___4H_00__8H_01__2S_10__4S_11:
		Rd := x & (1<<5 - 1)
		sz := (x >> 22) & 1
		Q := (x >> 30) & 1
		if sz == 0 && Q == 0 {
			return RegisterWithArrangement{V0 + Reg(Rd), Arrangement4H, 0}
		} else if sz == 0 && Q == 1 {
			return RegisterWithArrangement{V0 + Reg(Rd), Arrangement8H, 0}
		} else if sz == 1 && Q == 0 {
			return RegisterWithArrangement{V0 + Reg(Rd), Arrangement2S, 0}
		} else /* sz == 1 && Q == 1 */ {
			return RegisterWithArrangement{V0 + Reg(Rd), Arrangement4S, 0}
		}

	case arg_Vm_22_1__S_0__D_1:
		sz := (x >> 22) & 1
		Rm := (x >> 16) & (1<<5 - 1)
		if sz == 0 {
			return S0 + Reg(Rm)
		} else {
			return D0 + Reg(Rm)
		}

	case arg_Vm_22_2__B_0__H_1__S_2__D_3:
		size := (x >> 22) & (1<<2 - 1)
		Rm := (x >> 16) & (1<<5 - 1)
		if size == 0 {
			return B0 + Reg(Rm)
		} else if size == 1 {
			return H0 + Reg(Rm)
		} else if size == 2 {
			return S0 + Reg(Rm)
		} else {
			return D0 + Reg(Rm)
		}

	case arg_Vm_22_2__D_3:
		size := (x >> 22) & (1<<2 - 1)
		Rm := (x >> 16) & (1<<5 - 1)
		if size == 3 {
			return D0 + Reg(Rm)
		} else {
			return nil
		}

	case arg_Vm_22_2__H_1__S_2:
		size := (x >> 22) & (1<<2 - 1)
		Rm := (x >> 16) & (1<<5 - 1)
		if size == 1 {
			return H0 + Reg(Rm)
		} else if size == 2 {
			return S0 + Reg(Rm)
		} else {
			return nil
		}

	case arg_Vm_arrangement_4S:
		Rm := (x >> 16) & (1<<5 - 1)
		return RegisterWithArrangement{V0 + Reg(Rm), Arrangement4S, 0}

	case arg_Vm_arrangement_Q___8B_0__16B_1:
		Rm := (x >> 16) & (1<<5 - 1)
		Q := (x >> 30) & 1
		if Q == 0 {
			return RegisterWithArrangement{V0 + Reg(Rm), Arrangement8B, 0}
		} else {
			return RegisterWithArrangement{V0 + Reg(Rm), Arrangement16B, 0}
		}

	case arg_Vm_arrangement_size___8H_0__4S_1__2D_2:
		Rm := (x >> 16) & (1<<5 - 1)
		size := (x >> 22) & 3
		if size == 0 {
			return RegisterWithArrangement{V0 + Reg(Rm), Arrangement8H, 0}
		} else if size == 1 {
			return RegisterWithArrangement{V0 + Reg(Rm), Arrangement4S, 0}
		} else if size == 2 {
			return RegisterWithArrangement{V0 + Reg(Rm), Arrangement2D, 0}
		}
		return nil

	case arg_Vm_arrangement_size___H_1__S_2_index__size_L_H_M__HLM_1__HL_2_1:
		var a Arrangement
		var index uint32
		var vm uint32
		Rm := (x >> 16) & (1<<4 - 1)
		size := (x >> 22) & 3
		H := (x >> 11) & 1
		L := (x >> 21) & 1
		M := (x >> 20) & 1
		if size == 1 {
			a = ArrangementH
			index = (H << 2) | (L << 1) | M
			vm = Rm
		} else if size == 2 {
			a = ArrangementS
			index = (H << 1) | L
			vm = (M << 4) | Rm
		} else {
			return nil
		}
		return RegisterWithArrangementAndIndex{V0 + Reg(vm), a, uint8(index), 0}

	case arg_Vm_arrangement_size_Q___4H_10__8H_11__2S_20__4S_21:
		Rm := (x >> 16) & (1<<5 - 1)
		size := (x >> 22) & 3
		Q := (x >> 30) & 1
		if size == 1 && Q == 0 {
			return RegisterWithArrangement{V0 + Reg(Rm), Arrangement4H, 0}
		} else if size == 1 && Q == 1 {
			return RegisterWithArrangement{V0 + Reg(Rm), Arrangement8H, 0}
		} else if size == 2 && Q == 0 {
			return RegisterWithArrangement{V0 + Reg(Rm), Arrangement2S, 0}
		} else if size == 2 && Q == 1 {
			return RegisterWithArrangement{V0 + Reg(Rm), Arrangement4S, 0}
		}
		return nil

	case arg_Vm_arrangement_size_Q___8B_00__16B_01:
		Rm := (x >> 16) & (1<<5 - 1)
		size := (x >> 22) & 3
		Q := (x >> 30) & 1
		if size == 0 && Q == 0 {
			return RegisterWithArrangement{V0 + Reg(Rm), Arrangement8B, 0}
		} else if size == 0 && Q == 1 {
			return RegisterWithArrangement{V0 + Reg(Rm), Arrangement16B, 0}
		}
		return nil

	case arg_Vm_arrangement_size_Q___8B_00__16B_01__1D_30__2D_31:
		Rm := (x >> 16) & (1<<5 - 1)
		size := (x >> 22) & 3
		Q := (x >> 30) & 1
		if size == 0 && Q == 0 {
			return RegisterWithArrangement{V0 + Reg(Rm), Arrangement8B, 0}
		} else if size == 0 && Q == 1 {
			return RegisterWithArrangement{V0 + Reg(Rm), Arrangement16B, 0}
		} else if size == 3 && Q == 0 {
			return RegisterWithArrangement{V0 + Reg(Rm), Arrangement1D, 0}
		} else if size == 3 && Q == 1 {
			return RegisterWithArrangement{V0 + Reg(Rm), Arrangement2D, 0}
		}
		return nil

	case arg_Vm_arrangement_size_Q___8B_00__16B_01__4H_10__8H_11__2S_20__4S_21:
		Rm := (x >> 16) & (1<<5 - 1)
		size := (x >> 22) & 3
		Q := (x >> 30) & 1
		if size == 0 && Q == 0 {
			return RegisterWithArrangement{V0 + Reg(Rm), Arrangement8B, 0}
		} else if size == 0 && Q == 1 {
			return RegisterWithArrangement{V0 + Reg(Rm), Arrangement16B, 0}
		} else if size == 1 && Q == 0 {
			return RegisterWithArrangement{V0 + Reg(Rm), Arrangement4H, 0}
		} else if size == 1 && Q == 1 {
			return RegisterWithArrangement{V0 + Reg(Rm), Arrangement8H, 0}
		} else if size == 2 && Q == 0 {
			return RegisterWithArrangement{V0 + Reg(Rm), Arrangement2S, 0}
		} else if size == 2 && Q == 1 {
			return RegisterWithArrangement{V0 + Reg(Rm), Arrangement4S, 0}
		}
		return nil

	case arg_Vm_arrangement_size_Q___8B_00__16B_01__4H_10__8H_11__2S_20__4S_21__2D_31:
		Rm := (x >> 16) & (1<<5 - 1)
		size := (x >> 22) & 3
		Q := (x >> 30) & 1
		if size == 0 && Q == 0 {
			return RegisterWithArrangement{V0 + Reg(Rm), Arrangement8B, 0}
		} else if size == 0 && Q == 1 {
			return RegisterWithArrangement{V0 + Reg(Rm), Arrangement16B, 0}
		} else if size == 1 && Q == 0 {
			return RegisterWithArrangement{V0 + Reg(Rm), Arrangement4H, 0}
		} else if size == 1 && Q == 1 {
			return RegisterWithArrangement{V0 + Reg(Rm), Arrangement8H, 0}
		} else if size == 2 && Q == 0 {
			return RegisterWithArrangement{V0 + Reg(Rm), Arrangement2S, 0}
		} else if size == 2 && Q == 1 {
			return RegisterWithArrangement{V0 + Reg(Rm), Arrangement4S, 0}
		} else if size == 3 && Q == 1 {
			return RegisterWithArrangement{V0 + Reg(Rm), Arrangement2D, 0}
		}
		return nil

	case arg_Vm_arrangement_sz_Q___2S_00__4S_01__2D_11:
		Rm := (x >> 16) & (1<<5 - 1)
		sz := (x >> 22) & 1
		Q := (x >> 30) & 1
		if sz == 0 && Q == 0 {
			return RegisterWithArrangement{V0 + Reg(Rm), Arrangement2S, 0}
		} else if sz == 0 && Q == 1 {
			return RegisterWithArrangement{V0 + Reg(Rm), Arrangement4S, 0}
		} else if sz == 1 && Q == 1 {
			return RegisterWithArrangement{V0 + Reg(Rm), Arrangement2D, 0}
		}
		return nil

	case arg_Vm_arrangement_sz___S_0__D_1_index__sz_L_H__HL_00__H_10_1:
		var a Arrangement
		var index uint32
		Rm := (x >> 16) & (1<<5 - 1)
		sz := (x >> 22) & 1
		H := (x >> 11) & 1
		L := (x >> 21) & 1
		if sz == 0 {
			a = ArrangementS
			index = (H << 1) | L
		} else if sz == 1 && L == 0 {
			a = ArrangementD
			index = H
		} else {
			return nil
		}
		return RegisterWithArrangementAndIndex{V0 + Reg(Rm), a, uint8(index), 0}

	case arg_Vn_19_4__B_1__H_2__S_4__D_8:
		immh := (x >> 19) & (1<<4 - 1)
		Rn := (x >> 5) & (1<<5 - 1)
		if immh == 1 {
			return B0 + Reg(Rn)
		} else if immh>>1 == 1 {
			return H0 + Reg(Rn)
		} else if immh>>2 == 1 {
			return S0 + Reg(Rn)
		} else if immh>>3 == 1 {
			return D0 + Reg(Rn)
		} else {
			return nil
		}

	case arg_Vn_19_4__D_8:
		immh := (x >> 19) & (1<<4 - 1)
		Rn := (x >> 5) & (1<<5 - 1)
		if immh>>3 == 1 {
			return D0 + Reg(Rn)
		} else {
			return nil
		}

	case arg_Vn_19_4__H_1__S_2__D_4:
		immh := (x >> 19) & (1<<4 - 1)
		Rn := (x >> 5) & (1<<5 - 1)
		if immh == 1 {
			return H0 + Reg(Rn)
		} else if immh>>1 == 1 {
			return S0 + Reg(Rn)
		} else if immh>>2 == 1 {
			return D0 + Reg(Rn)
		} else {
			return nil
		}

	case arg_Vn_19_4__S_4__D_8:
		immh := (x >> 19) & (1<<4 - 1)
		Rn := (x >> 5) & (1<<5 - 1)
		if immh>>2 == 1 {
			return S0 + Reg(Rn)
		} else if immh>>3 == 1 {
			return D0 + Reg(Rn)
		} else {
			return nil
		}

	case arg_Vn_1_arrangement_16B:
		Rn := (x >> 5) & (1<<5 - 1)
		return RegisterWithArrangement{V0 + Reg(Rn), Arrangement16B, 1}

	case arg_Vn_22_1__D_1:
		sz := (x >> 22) & 1
		Rn := (x >> 5) & (1<<5 - 1)
		if sz == 1 {
			return D0 + Reg(Rn)
		}
		return nil

	case arg_Vn_22_1__S_0__D_1:
		sz := (x >> 22) & 1
		Rn := (x >> 5) & (1<<5 - 1)
		if sz == 0 {
			return S0 + Reg(Rn)
		} else {
			return D0 + Reg(Rn)
		}

	case arg_Vn_22_2__B_0__H_1__S_2__D_3:
		size := (x >> 22) & (1<<2 - 1)
		Rn := (x >> 5) & (1<<5 - 1)
		if size == 0 {
			return B0 + Reg(Rn)
		} else if size == 1 {
			return H0 + Reg(Rn)
		} else if size == 2 {
			return S0 + Reg(Rn)
		} else {
			return D0 + Reg(Rn)
		}

	case arg_Vn_22_2__D_3:
		size := (x >> 22) & (1<<2 - 1)
		Rn := (x >> 5) & (1<<5 - 1)
		if size == 3 {
			return D0 + Reg(Rn)
		} else {
			return nil
		}

	case arg_Vn_22_2__H_0__S_1__D_2:
		size := (x >> 22) & (1<<2 - 1)
		Rn := (x >> 5) & (1<<5 - 1)
		if size == 0 {
			return H0 + Reg(Rn)
		} else if size == 1 {
			return S0 + Reg(Rn)
		} else if size == 2 {
			return D0 + Reg(Rn)
		} else {
			return nil
		}

	case arg_Vn_22_2__H_1__S_2:
		size := (x >> 22) & (1<<2 - 1)
		Rn := (x >> 5) & (1<<5 - 1)
		if size == 1 {
			return H0 + Reg(Rn)
		} else if size == 2 {
			return S0 + Reg(Rn)
		} else {
			return nil
		}

	case arg_Vn_2_arrangement_16B:
		Rn := (x >> 5) & (1<<5 - 1)
		return RegisterWithArrangement{V0 + Reg(Rn), Arrangement16B, 2}

	case arg_Vn_3_arrangement_16B:
		Rn := (x >> 5) & (1<<5 - 1)
		return RegisterWithArrangement{V0 + Reg(Rn), Arrangement16B, 3}

	case arg_Vn_4_arrangement_16B:
		Rn := (x >> 5) & (1<<5 - 1)
		return RegisterWithArrangement{V0 + Reg(Rn), Arrangement16B, 4}

	case arg_Vn_arrangement_16B:
		Rn := (x >> 5) & (1<<5 - 1)
		return RegisterWithArrangement{V0 + Reg(Rn), Arrangement16B, 0}

	case arg_Vn_arrangement_4S:
		Rn := (x >> 5) & (1<<5 - 1)
		return RegisterWithArrangement{V0 + Reg(Rn), Arrangement4S, 0}

	case arg_Vn_arrangement_D_index__1:
		Rn := (x >> 5) & (1<<5 - 1)
		return RegisterWithArrangementAndIndex{V0 + Reg(Rn), ArrangementD, 1, 0}

	case arg_Vn_arrangement_D_index__imm5_1:
		Rn := (x >> 5) & (1<<5 - 1)
		index := (x >> 20) & 1
		return RegisterWithArrangementAndIndex{V0 + Reg(Rn), ArrangementD, uint8(index), 0}

	case arg_Vn_arrangement_imm5___B_1__H_2_index__imm5__imm5lt41gt_1__imm5lt42gt_2_1:
		var a Arrangement
		var index uint32
		Rn := (x >> 5) & (1<<5 - 1)
		imm5 := (x >> 16) & (1<<5 - 1)
		if imm5&1 == 1 {
			a = ArrangementB
			index = imm5 >> 1
		} else if imm5&2 == 2 {
			a = ArrangementH
			index = imm5 >> 2
		} else {
			return nil
		}
		return RegisterWithArrangementAndIndex{V0 + Reg(Rn), a, uint8(index), 0}

	case arg_Vn_arrangement_imm5___B_1__H_2__S_4__D_8_index__imm5_imm4__imm4lt30gt_1__imm4lt31gt_2__imm4lt32gt_4__imm4lt3gt_8_1:
		var a Arrangement
		var index uint32
		Rn := (x >> 5) & (1<<5 - 1)
		imm5 := (x >> 16) & (1<<5 - 1)
		imm4 := (x >> 11) & (1<<4 - 1)
		if imm5&1 == 1 {
			a = ArrangementB
			index = imm4
		} else if imm5&2 == 2 {
			a = ArrangementH
			index = imm4 >> 1
		} else if imm5&4 == 4 {
			a = ArrangementS
			index = imm4 >> 2
		} else if imm5&8 == 8 {
			a = ArrangementD
			index = imm4 >> 3
		} else {
			return nil
		}
		return RegisterWithArrangementAndIndex{V0 + Reg(Rn), a, uint8(index), 0}

	case arg_Vn_arrangement_imm5___B_1__H_2__S_4__D_8_index__imm5__imm5lt41gt_1__imm5lt42gt_2__imm5lt43gt_4__imm5lt4gt_8_1:
		var a Arrangement
		var index uint32
		Rn := (x >> 5) & (1<<5 - 1)
		imm5 := (x >> 16) & (1<<5 - 1)
		if imm5&1 == 1 {
			a = ArrangementB
			index = imm5 >> 1
		} else if imm5&2 == 2 {
			a = ArrangementH
			index = imm5 >> 2
		} else if imm5&4 == 4 {
			a = ArrangementS
			index = imm5 >> 3
		} else if imm5&8 == 8 {
			a = ArrangementD
			index = imm5 >> 4
		} else {
			return nil
		}
		return RegisterWithArrangementAndIndex{V0 + Reg(Rn), a, uint8(index), 0}

	case arg_Vn_arrangement_imm5___B_1__H_2__S_4_index__imm5__imm5lt41gt_1__imm5lt42gt_2__imm5lt43gt_4_1:
		var a Arrangement
		var index uint32
		Rn := (x >> 5) & (1<<5 - 1)
		imm5 := (x >> 16) & (1<<5 - 1)
		if imm5&1 == 1 {
			a = ArrangementB
			index = imm5 >> 1
		} else if imm5&2 == 2 {
			a = ArrangementH
			index = imm5 >> 2
		} else if imm5&4 == 4 {
			a = ArrangementS
			index = imm5 >> 3
		} else {
			return nil
		}
		return RegisterWithArrangementAndIndex{V0 + Reg(Rn), a, uint8(index), 0}

	case arg_Vn_arrangement_imm5___D_8_index__imm5_1:
		var a Arrangement
		var index uint32
		Rn := (x >> 5) & (1<<5 - 1)
		imm5 := (x >> 16) & (1<<5 - 1)
		if imm5&15 == 8 {
			a = ArrangementD
			index = imm5 >> 4
		} else {
			return nil
		}
		return RegisterWithArrangementAndIndex{V0 + Reg(Rn), a, uint8(index), 0}

	case arg_Vn_arrangement_immh_Q___SEEAdvancedSIMDmodifiedimmediate_00__2S_40__4S_41__2D_81:
		Rn := (x >> 5) & (1<<5 - 1)
		immh := (x >> 19) & (1<<4 - 1)
		Q := (x >> 30) & 1
		if immh>>2 == 1 {
			if Q == 0 {
				return RegisterWithArrangement{V0 + Reg(Rn), Arrangement2S, 0}
			} else {
				return RegisterWithArrangement{V0 + Reg(Rn), Arrangement4S, 0}
			}
		} else if immh>>3 == 1 {
			if Q == 1 {
				return RegisterWithArrangement{V0 + Reg(Rn), Arrangement2D, 0}
			}
		}
		return nil

	case arg_Vn_arrangement_immh_Q___SEEAdvancedSIMDmodifiedimmediate_00__8B_10__16B_11__4H_20__8H_21__2S_40__4S_41:
		Rn := (x >> 5) & (1<<5 - 1)
		immh := (x >> 19) & (1<<4 - 1)
		Q := (x >> 30) & 1
		if immh == 1 {
			if Q == 0 {
				return RegisterWithArrangement{V0 + Reg(Rn), Arrangement8B, 0}
			} else {
				return RegisterWithArrangement{V0 + Reg(Rn), Arrangement16B, 0}
			}
		} else if immh>>1 == 1 {
			if Q == 0 {
				return RegisterWithArrangement{V0 + Reg(Rn), Arrangement4H, 0}
			} else {
				return RegisterWithArrangement{V0 + Reg(Rn), Arrangement8H, 0}
			}
		} else if immh>>2 == 1 {
			if Q == 0 {
				return RegisterWithArrangement{V0 + Reg(Rn), Arrangement2S, 0}
			} else {
				return RegisterWithArrangement{V0 + Reg(Rn), Arrangement4S, 0}
			}
		}
		return nil

	case arg_Vn_arrangement_immh_Q___SEEAdvancedSIMDmodifiedimmediate_00__8B_10__16B_11__4H_20__8H_21__2S_40__4S_41__2D_81:
		Rn := (x >> 5) & (1<<5 - 1)
		immh := (x >> 19) & (1<<4 - 1)
		Q := (x >> 30) & 1
		if immh == 1 {
			if Q == 0 {
				return RegisterWithArrangement{V0 + Reg(Rn), Arrangement8B, 0}
			} else {
				return RegisterWithArrangement{V0 + Reg(Rn), Arrangement16B, 0}
			}
		} else if immh>>1 == 1 {
			if Q == 0 {
				return RegisterWithArrangement{V0 + Reg(Rn), Arrangement4H, 0}
			} else {
				return RegisterWithArrangement{V0 + Reg(Rn), Arrangement8H, 0}
			}
		} else if immh>>2 == 1 {
			if Q == 0 {
				return RegisterWithArrangement{V0 + Reg(Rn), Arrangement2S, 0}
			} else {
				return RegisterWithArrangement{V0 + Reg(Rn), Arrangement4S, 0}
			}
		} else if immh>>3 == 1 {
			if Q == 1 {
				return RegisterWithArrangement{V0 + Reg(Rn), Arrangement2D, 0}
			}
		}
		return nil

	case arg_Vn_arrangement_immh___SEEAdvancedSIMDmodifiedimmediate_0__8H_1__4S_2__2D_4:
		Rn := (x >> 5) & (1<<5 - 1)
		immh := (x >> 19) & (1<<4 - 1)
		if immh == 1 {
			return RegisterWithArrangement{V0 + Reg(Rn), Arrangement8H, 0}
		} else if immh>>1 == 1 {
			return RegisterWithArrangement{V0 + Reg(Rn), Arrangement4S, 0}
		} else if immh>>2 == 1 {
			return RegisterWithArrangement{V0 + Reg(Rn), Arrangement2D, 0}
		}
		return nil

	case arg_Vn_arrangement_Q___8B_0__16B_1:
		Rn := (x >> 5) & (1<<5 - 1)
		Q := (x >> 30) & 1
		if Q == 0 {
			return RegisterWithArrangement{V0 + Reg(Rn), Arrangement8B, 0}
		} else {
			return RegisterWithArrangement{V0 + Reg(Rn), Arrangement16B, 0}
		}

	case arg_Vn_arrangement_Q_sz___2S_00__4S_10__2D_11:
		Rn := (x >> 5) & (1<<5 - 1)
		Q := (x >> 30) & 1
		sz := (x >> 22) & 1
		if sz == 0 && Q == 0 {
			return RegisterWithArrangement{V0 + Reg(Rn), Arrangement2S, 0}
		} else if sz == 0 && Q == 1 {
			return RegisterWithArrangement{V0 + Reg(Rn), Arrangement4S, 0}
		} else if sz == 1 && Q == 1 {
			return RegisterWithArrangement{V0 + Reg(Rn), Arrangement2D, 0}
		}
		return nil

	case arg_Vn_arrangement_Q_sz___4S_10:
		Rn := (x >> 5) & (1<<5 - 1)
		Q := (x >> 30) & 1
		sz := (x >> 22) & 1
		if sz == 0 && Q == 1 {
			return RegisterWithArrangement{V0 + Reg(Rn), Arrangement4S, 0}
		}
		return nil

	case arg_Vn_arrangement_S_index__imm5__imm5lt41gt_1__imm5lt42gt_2__imm5lt43gt_4_1:
		var index uint32
		Rn := (x >> 5) & (1<<5 - 1)
		imm5 := (x >> 16) & (1<<5 - 1)
		index = imm5 >> 3
		return RegisterWithArrangementAndIndex{V0 + Reg(Rn), ArrangementS, uint8(index), 0}

	case arg_Vn_arrangement_size___2D_3:
		Rn := (x >> 5) & (1<<5 - 1)
		size := (x >> 22) & 3
		if size == 3 {
			return RegisterWithArrangement{V0 + Reg(Rn), Arrangement2D, 0}
		}
		return nil

	case arg_Vn_arrangement_size___8H_0__4S_1__2D_2:
		Rn := (x >> 5) & (1<<5 - 1)
		size := (x >> 22) & 3
		if size == 0 {
			return RegisterWithArrangement{V0 + Reg(Rn), Arrangement8H, 0}
		} else if size == 1 {
			return RegisterWithArrangement{V0 + Reg(Rn), Arrangement4S, 0}
		} else if size == 2 {
			return RegisterWithArrangement{V0 + Reg(Rn), Arrangement2D, 0}
		}
		return nil

	case arg_Vn_arrangement_size_Q___4H_10__8H_11__2S_20__4S_21:
		Rn := (x >> 5) & (1<<5 - 1)
		size := (x >> 22) & 3
		Q := (x >> 30) & 1
		if size == 1 && Q == 0 {
			return RegisterWithArrangement{V0 + Reg(Rn), Arrangement4H, 0}
		} else if size == 1 && Q == 1 {
			return RegisterWithArrangement{V0 + Reg(Rn), Arrangement8H, 0}
		} else if size == 2 && Q == 0 {
			return RegisterWithArrangement{V0 + Reg(Rn), Arrangement2S, 0}
		} else if size == 2 && Q == 1 {
			return RegisterWithArrangement{V0 + Reg(Rn), Arrangement4S, 0}
		}
		return nil

	case arg_Vn_arrangement_size_Q___8B_00__16B_01:
		Rn := (x >> 5) & (1<<5 - 1)
		size := (x >> 22) & 3
		Q := (x >> 30) & 1
		if size == 0 && Q == 0 {
			return RegisterWithArrangement{V0 + Reg(Rn), Arrangement8B, 0}
		} else if size == 0 && Q == 1 {
			return RegisterWithArrangement{V0 + Reg(Rn), Arrangement16B, 0}
		}
		return nil

	case arg_Vn_arrangement_size_Q___8B_00__16B_01__1D_30__2D_31:
		Rn := (x >> 5) & (1<<5 - 1)
		size := (x >> 22) & 3
		Q := (x >> 30) & 1
		if size == 0 && Q == 0 {
			return RegisterWithArrangement{V0 + Reg(Rn), Arrangement8B, 0}
		} else if size == 0 && Q == 1 {
			return RegisterWithArrangement{V0 + Reg(Rn), Arrangement16B, 0}
		} else if size == 3 && Q == 0 {
			return RegisterWithArrangement{V0 + Reg(Rn), Arrangement1D, 0}
		} else if size == 3 && Q == 1 {
			return RegisterWithArrangement{V0 + Reg(Rn), Arrangement2D, 0}
		}
		return nil

	case arg_Vn_arrangement_size_Q___8B_00__16B_01__4H_10__8H_11:
		Rn := (x >> 5) & (1<<5 - 1)
		size := (x >> 22) & 3
		Q := (x >> 30) & 1
		if size == 0 && Q == 0 {
			return RegisterWithArrangement{V0 + Reg(Rn), Arrangement8B, 0}
		} else if size == 0 && Q == 1 {
			return RegisterWithArrangement{V0 + Reg(Rn), Arrangement16B, 0}
		} else if size == 1 && Q == 0 {
			return RegisterWithArrangement{V0 + Reg(Rn), Arrangement4H, 0}
		} else if size == 1 && Q == 1 {
			return RegisterWithArrangement{V0 + Reg(Rn), Arrangement8H, 0}
		}
		return nil

	case arg_Vn_arrangement_size_Q___8B_00__16B_01__4H_10__8H_11__2S_20__4S_21:
		Rn := (x >> 5) & (1<<5 - 1)
		size := (x >> 22) & 3
		Q := (x >> 30) & 1
		if size == 0 && Q == 0 {
			return RegisterWithArrangement{V0 + Reg(Rn), Arrangement8B, 0}
		} else if size == 0 && Q == 1 {
			return RegisterWithArrangement{V0 + Reg(Rn), Arrangement16B, 0}
		} else if size == 1 && Q == 0 {
			return RegisterWithArrangement{V0 + Reg(Rn), Arrangement4H, 0}
		} else if size == 1 && Q == 1 {
			return RegisterWithArrangement{V0 + Reg(Rn), Arrangement8H, 0}
		} else if size == 2 && Q == 0 {
			return RegisterWithArrangement{V0 + Reg(Rn), Arrangement2S, 0}
		} else if size == 2 && Q == 1 {
			return RegisterWithArrangement{V0 + Reg(Rn), Arrangement4S, 0}
		}
		return nil

	case arg_Vn_arrangement_size_Q___8B_00__16B_01__4H_10__8H_11__2S_20__4S_21__2D_31:
		Rn := (x >> 5) & (1<<5 - 1)
		size := (x >> 22) & 3
		Q := (x >> 30) & 1
		if size == 0 && Q == 0 {
			return RegisterWithArrangement{V0 + Reg(Rn), Arrangement8B, 0}
		} else if size == 0 && Q == 1 {
			return RegisterWithArrangement{V0 + Reg(Rn), Arrangement16B, 0}
		} else if size == 1 && Q == 0 {
			return RegisterWithArrangement{V0 + Reg(Rn), Arrangement4H, 0}
		} else if size == 1 && Q == 1 {
			return RegisterWithArrangement{V0 + Reg(Rn), Arrangement8H, 0}
		} else if size == 2 && Q == 0 {
			return RegisterWithArrangement{V0 + Reg(Rn), Arrangement2S, 0}
		} else if size == 2 && Q == 1 {
			return RegisterWithArrangement{V0 + Reg(Rn), Arrangement4S, 0}
		} else if size == 3 && Q == 1 {
			return RegisterWithArrangement{V0 + Reg(Rn), Arrangement2D, 0}
		}
		return nil

	case arg_Vn_arrangement_size_Q___8B_00__16B_01__4H_10__8H_11__4S_21:
		Rn := (x >> 5) & (1<<5 - 1)
		size := (x >> 22) & 3
		Q := (x >> 30) & 1
		if size == 0 && Q == 0 {
			return RegisterWithArrangement{V0 + Reg(Rn), Arrangement8B, 0}
		} else if size == 0 && Q == 1 {
			return RegisterWithArrangement{V0 + Reg(Rn), Arrangement16B, 0}
		} else if size == 1 && Q == 0 {
			return RegisterWithArrangement{V0 + Reg(Rn), Arrangement4H, 0}
		} else if size == 1 && Q == 1 {
			return RegisterWithArrangement{V0 + Reg(Rn), Arrangement8H, 0}
		} else if size == 2 && Q == 1 {
			return RegisterWithArrangement{V0 + Reg(Rn), Arrangement4S, 0}
		}
		return nil

	case arg_Vn_arrangement_sz___2D_1:
		Rn := (x >> 5) & (1<<5 - 1)
		sz := (x >> 22) & 1
		if sz == 1 {
			return RegisterWithArrangement{V0 + Reg(Rn), Arrangement2D, 0}
		}
		return nil

	case arg_Vn_arrangement_sz___2S_0__2D_1:
		Rn := (x >> 5) & (1<<5 - 1)
		sz := (x >> 22) & 1
		if sz == 0 {
			return RegisterWithArrangement{V0 + Reg(Rn), Arrangement2S, 0}
		} else {
			return RegisterWithArrangement{V0 + Reg(Rn), Arrangement2D, 0}
		}

	case arg_Vn_arrangement_sz___4S_0__2D_1:
		Rn := (x >> 5) & (1<<5 - 1)
		sz := (x >> 22) & 1
		if sz == 0 {
			return RegisterWithArrangement{V0 + Reg(Rn), Arrangement4S, 0}
		} else {
			return RegisterWithArrangement{V0 + Reg(Rn), Arrangement2D, 0}
		}

	case arg_Vn_arrangement_sz_Q___2S_00__4S_01:
		Rn := (x >> 5) & (1<<5 - 1)
		sz := (x >> 22) & 1
		Q := (x >> 30) & 1
		if sz == 0 && Q == 0 {
			return RegisterWithArrangement{V0 + Reg(Rn), Arrangement2S, 0}
		} else if sz == 0 && Q == 1 {
			return RegisterWithArrangement{V0 + Reg(Rn), Arrangement4S, 0}
		}
		return nil

	case arg_Vn_arrangement_sz_Q___2S_00__4S_01__2D_11:
		Rn := (x >> 5) & (1<<5 - 1)
		sz := (x >> 22) & 1
		Q := (x >> 30) & 1
		if sz == 0 && Q == 0 {
			return RegisterWithArrangement{V0 + Reg(Rn), Arrangement2S, 0}
		} else if sz == 0 && Q == 1 {
			return RegisterWithArrangement{V0 + Reg(Rn), Arrangement4S, 0}
		} else if sz == 1 && Q == 1 {
			return RegisterWithArrangement{V0 + Reg(Rn), Arrangement2D, 0}
		}
		return nil

	case arg_Vn_arrangement_sz_Q___4H_00__8H_01__2S_10__4S_11:
		Rn := (x >> 5) & (1<<5 - 1)
		sz := (x >> 22) & 1
		Q := (x >> 30) & 1
		if sz == 0 && Q == 0 {
			return RegisterWithArrangement{V0 + Reg(Rn), Arrangement4H, 0}
		} else if sz == 0 && Q == 1 {
			return RegisterWithArrangement{V0 + Reg(Rn), Arrangement8H, 0}
		} else if sz == 1 && Q == 0 {
			return RegisterWithArrangement{V0 + Reg(Rn), Arrangement2S, 0}
		} else /* sz == 1 && Q == 1 */ {
			return RegisterWithArrangement{V0 + Reg(Rn), Arrangement4S, 0}
		}

	case arg_Vt_1_arrangement_B_index__Q_S_size_1:
		Rt := x & (1<<5 - 1)
		Q := (x >> 30) & 1
		S := (x >> 12) & 1
		size := (x >> 10) & 3
		index := (Q << 3) | (S << 2) | (size)
		return RegisterWithArrangementAndIndex{V0 + Reg(Rt), ArrangementB, uint8(index), 1}

	case arg_Vt_1_arrangement_D_index__Q_1:
		Rt := x & (1<<5 - 1)
		index := (x >> 30) & 1
		return RegisterWithArrangementAndIndex{V0 + Reg(Rt), ArrangementD, uint8(index), 1}

	case arg_Vt_1_arrangement_H_index__Q_S_size_1:
		Rt := x & (1<<5 - 1)
		Q := (x >> 30) & 1
		S := (x >> 12) & 1
		size := (x >> 11) & 1
		index := (Q << 2) | (S << 1) | (size)
		return RegisterWithArrangementAndIndex{V0 + Reg(Rt), ArrangementH, uint8(index), 1}

	case arg_Vt_1_arrangement_S_index__Q_S_1:
		Rt := x & (1<<5 - 1)
		Q := (x >> 30) & 1
		S := (x >> 12) & 1
		index := (Q << 1) | S
		return RegisterWithArrangementAndIndex{V0 + Reg(Rt), ArrangementS, uint8(index), 1}

	case arg_Vt_1_arrangement_size_Q___8B_00__16B_01__4H_10__8H_11__2S_20__4S_21__1D_30__2D_31:
		Rt := x & (1<<5 - 1)
		Q := (x >> 30) & 1
		size := (x >> 10) & 3
		if size == 0 && Q == 0 {
			return RegisterWithArrangement{V0 + Reg(Rt), Arrangement8B, 1}
		} else if size == 0 && Q == 1 {
			return RegisterWithArrangement{V0 + Reg(Rt), Arrangement16B, 1}
		} else if size == 1 && Q == 0 {
			return RegisterWithArrangement{V0 + Reg(Rt), Arrangement4H, 1}
		} else if size == 1 && Q == 1 {
			return RegisterWithArrangement{V0 + Reg(Rt), Arrangement8H, 1}
		} else if size == 2 && Q == 0 {
			return RegisterWithArrangement{V0 + Reg(Rt), Arrangement2S, 1}
		} else if size == 2 && Q == 1 {
			return RegisterWithArrangement{V0 + Reg(Rt), Arrangement4S, 1}
		} else if size == 3 && Q == 0 {
			return RegisterWithArrangement{V0 + Reg(Rt), Arrangement1D, 1}
		} else /* size == 3 && Q == 1 */ {
			return RegisterWithArrangement{V0 + Reg(Rt), Arrangement2D, 1}
		}

	case arg_Vt_2_arrangement_B_index__Q_S_size_1:
		Rt := x & (1<<5 - 1)
		Q := (x >> 30) & 1
		S := (x >> 12) & 1
		size := (x >> 10) & 3
		index := (Q << 3) | (S << 2) | (size)
		return RegisterWithArrangementAndIndex{V0 + Reg(Rt), ArrangementB, uint8(index), 2}

	case arg_Vt_2_arrangement_D_index__Q_1:
		Rt := x & (1<<5 - 1)
		index := (x >> 30) & 1
		return RegisterWithArrangementAndIndex{V0 + Reg(Rt), ArrangementD, uint8(index), 2}

	case arg_Vt_2_arrangement_H_index__Q_S_size_1:
		Rt := x & (1<<5 - 1)
		Q := (x >> 30) & 1
		S := (x >> 12) & 1
		size := (x >> 11) & 1
		index := (Q << 2) | (S << 1) | (size)
		return RegisterWithArrangementAndIndex{V0 + Reg(Rt), ArrangementH, uint8(index), 2}

	case arg_Vt_2_arrangement_S_index__Q_S_1:
		Rt := x & (1<<5 - 1)
		Q := (x >> 30) & 1
		S := (x >> 12) & 1
		index := (Q << 1) | S
		return RegisterWithArrangementAndIndex{V0 + Reg(Rt), ArrangementS, uint8(index), 2}

	case arg_Vt_2_arrangement_size_Q___8B_00__16B_01__4H_10__8H_11__2S_20__4S_21__1D_30__2D_31:
		Rt := x & (1<<5 - 1)
		Q := (x >> 30) & 1
		size := (x >> 10) & 3
		if size == 0 && Q == 0 {
			return RegisterWithArrangement{V0 + Reg(Rt), Arrangement8B, 2}
		} else if size == 0 && Q == 1 {
			return RegisterWithArrangement{V0 + Reg(Rt), Arrangement16B, 2}
		} else if size == 1 && Q == 0 {
			return RegisterWithArrangement{V0 + Reg(Rt), Arrangement4H, 2}
		} else if size == 1 && Q == 1 {
			return RegisterWithArrangement{V0 + Reg(Rt), Arrangement8H, 2}
		} else if size == 2 && Q == 0 {
			return RegisterWithArrangement{V0 + Reg(Rt), Arrangement2S, 2}
		} else if size == 2 && Q == 1 {
			return RegisterWithArrangement{V0 + Reg(Rt), Arrangement4S, 2}
		} else if size == 3 && Q == 0 {
			return RegisterWithArrangement{V0 + Reg(Rt), Arrangement1D, 2}
		} else /* size == 3 && Q == 1 */ {
			return RegisterWithArrangement{V0 + Reg(Rt), Arrangement2D, 2}
		}

	case arg_Vt_2_arrangement_size_Q___8B_00__16B_01__4H_10__8H_11__2S_20__4S_21__2D_31:
		Rt := x & (1<<5 - 1)
		Q := (x >> 30) & 1
		size := (x >> 10) & 3
		if size == 0 && Q == 0 {
			return RegisterWithArrangement{V0 + Reg(Rt), Arrangement8B, 2}
		} else if size == 0 && Q == 1 {
			return RegisterWithArrangement{V0 + Reg(Rt), Arrangement16B, 2}
		} else if size == 1 && Q == 0 {
			return RegisterWithArrangement{V0 + Reg(Rt), Arrangement4H, 2}
		} else if size == 1 && Q == 1 {
			return RegisterWithArrangement{V0 + Reg(Rt), Arrangement8H, 2}
		} else if size == 2 && Q == 0 {
			return RegisterWithArrangement{V0 + Reg(Rt), Arrangement2S, 2}
		} else if size == 2 && Q == 1 {
			return RegisterWithArrangement{V0 + Reg(Rt), Arrangement4S, 2}
		} else if size == 3 && Q == 1 {
			return RegisterWithArrangement{V0 + Reg(Rt), Arrangement2D, 2}
		}
		return nil

	case arg_Vt_3_arrangement_B_index__Q_S_size_1:
		Rt := x & (1<<5 - 1)
		Q := (x >> 30) & 1
		S := (x >> 12) & 1
		size := (x >> 10) & 3
		index := (Q << 3) | (S << 2) | (size)
		return RegisterWithArrangementAndIndex{V0 + Reg(Rt), ArrangementB, uint8(index), 3}

	case arg_Vt_3_arrangement_D_index__Q_1:
		Rt := x & (1<<5 - 1)
		index := (x >> 30) & 1
		return RegisterWithArrangementAndIndex{V0 + Reg(Rt), ArrangementD, uint8(index), 3}

	case arg_Vt_3_arrangement_H_index__Q_S_size_1:
		Rt := x & (1<<5 - 1)
		Q := (x >> 30) & 1
		S := (x >> 12) & 1
		size := (x >> 11) & 1
		index := (Q << 2) | (S << 1) | (size)
		return RegisterWithArrangementAndIndex{V0 + Reg(Rt), ArrangementH, uint8(index), 3}

	case arg_Vt_3_arrangement_S_index__Q_S_1:
		Rt := x & (1<<5 - 1)
		Q := (x >> 30) & 1
		S := (x >> 12) & 1
		index := (Q << 1) | S
		return RegisterWithArrangementAndIndex{V0 + Reg(Rt), ArrangementS, uint8(index), 3}

	case arg_Vt_3_arrangement_size_Q___8B_00__16B_01__4H_10__8H_11__2S_20__4S_21__1D_30__2D_31:
		Rt := x & (1<<5 - 1)
		Q := (x >> 30) & 1
		size := (x >> 10) & 3
		if size == 0 && Q == 0 {
			return RegisterWithArrangement{V0 + Reg(Rt), Arrangement8B, 3}
		} else if size == 0 && Q == 1 {
			return RegisterWithArrangement{V0 + Reg(Rt), Arrangement16B, 3}
		} else if size == 1 && Q == 0 {
			return RegisterWithArrangement{V0 + Reg(Rt), Arrangement4H, 3}
		} else if size == 1 && Q == 1 {
			return RegisterWithArrangement{V0 + Reg(Rt), Arrangement8H, 3}
		} else if size == 2 && Q == 0 {
			return RegisterWithArrangement{V0 + Reg(Rt), Arrangement2S, 3}
		} else if size == 2 && Q == 1 {
			return RegisterWithArrangement{V0 + Reg(Rt), Arrangement4S, 3}
		} else if size == 3 && Q == 0 {
			return RegisterWithArrangement{V0 + Reg(Rt), Arrangement1D, 3}
		} else /* size == 3 && Q == 1 */ {
			return RegisterWithArrangement{V0 + Reg(Rt), Arrangement2D, 3}
		}

	case arg_Vt_3_arrangement_size_Q___8B_00__16B_01__4H_10__8H_11__2S_20__4S_21__2D_31:
		Rt := x & (1<<5 - 1)
		Q := (x >> 30) & 1
		size := (x >> 10) & 3
		if size == 0 && Q == 0 {
			return RegisterWithArrangement{V0 + Reg(Rt), Arrangement8B, 3}
		} else if size == 0 && Q == 1 {
			return RegisterWithArrangement{V0 + Reg(Rt), Arrangement16B, 3}
		} else if size == 1 && Q == 0 {
			return RegisterWithArrangement{V0 + Reg(Rt), Arrangement4H, 3}
		} else if size == 1 && Q == 1 {
			return RegisterWithArrangement{V0 + Reg(Rt), Arrangement8H, 3}
		} else if size == 2 && Q == 0 {
			return RegisterWithArrangement{V0 + Reg(Rt), Arrangement2S, 3}
		} else if size == 2 && Q == 1 {
			return RegisterWithArrangement{V0 + Reg(Rt), Arrangement4S, 3}
		} else if size == 3 && Q == 1 {
			return RegisterWithArrangement{V0 + Reg(Rt), Arrangement2D, 3}
		}
		return nil

	case arg_Vt_4_arrangement_B_index__Q_S_size_1:
		Rt := x & (1<<5 - 1)
		Q := (x >> 30) & 1
		S := (x >> 12) & 1
		size := (x >> 10) & 3
		index := (Q << 3) | (S << 2) | (size)
		return RegisterWithArrangementAndIndex{V0 + Reg(Rt), ArrangementB, uint8(index), 4}

	case arg_Vt_4_arrangement_D_index__Q_1:
		Rt := x & (1<<5 - 1)
		index := (x >> 30) & 1
		return RegisterWithArrangementAndIndex{V0 + Reg(Rt), ArrangementD, uint8(index), 4}

	case arg_Vt_4_arrangement_H_index__Q_S_size_1:
		Rt := x & (1<<5 - 1)
		Q := (x >> 30) & 1
		S := (x >> 12) & 1
		size := (x >> 11) & 1
		index := (Q << 2) | (S << 1) | (size)
		return RegisterWithArrangementAndIndex{V0 + Reg(Rt), ArrangementH, uint8(index), 4}

	case arg_Vt_4_arrangement_S_index__Q_S_1:
		Rt := x & (1<<5 - 1)
		Q := (x >> 30) & 1
		S := (x >> 12) & 1
		index := (Q << 1) | S
		return RegisterWithArrangementAndIndex{V0 + Reg(Rt), ArrangementS, uint8(index), 4}

	case arg_Vt_4_arrangement_size_Q___8B_00__16B_01__4H_10__8H_11__2S_20__4S_21__1D_30__2D_31:
		Rt := x & (1<<5 - 1)
		Q := (x >> 30) & 1
		size := (x >> 10) & 3
		if size == 0 && Q == 0 {
			return RegisterWithArrangement{V0 + Reg(Rt), Arrangement8B, 4}
		} else if size == 0 && Q == 1 {
			return RegisterWithArrangement{V0 + Reg(Rt), Arrangement16B, 4}
		} else if size == 1 && Q == 0 {
			return RegisterWithArrangement{V0 + Reg(Rt), Arrangement4H, 4}
		} else if size == 1 && Q == 1 {
			return RegisterWithArrangement{V0 + Reg(Rt), Arrangement8H, 4}
		} else if size == 2 && Q == 0 {
			return RegisterWithArrangement{V0 + Reg(Rt), Arrangement2S, 4}
		} else if size == 2 && Q == 1 {
			return RegisterWithArrangement{V0 + Reg(Rt), Arrangement4S, 4}
		} else if size == 3 && Q == 0 {
			return RegisterWithArrangement{V0 + Reg(Rt), Arrangement1D, 4}
		} else /* size == 3 && Q == 1 */ {
			return RegisterWithArrangement{V0 + Reg(Rt), Arrangement2D, 4}
		}

	case arg_Vt_4_arrangement_size_Q___8B_00__16B_01__4H_10__8H_11__2S_20__4S_21__2D_31:
		Rt := x & (1<<5 - 1)
		Q := (x >> 30) & 1
		size := (x >> 10) & 3
		if size == 0 && Q == 0 {
			return RegisterWithArrangement{V0 + Reg(Rt), Arrangement8B, 4}
		} else if size == 0 && Q == 1 {
			return RegisterWithArrangement{V0 + Reg(Rt), Arrangement16B, 4}
		} else if size == 1 && Q == 0 {
			return RegisterWithArrangement{V0 + Reg(Rt), Arrangement4H, 4}
		} else if size == 1 && Q == 1 {
			return RegisterWithArrangement{V0 + Reg(Rt), Arrangement8H, 4}
		} else if size == 2 && Q == 0 {
			return RegisterWithArrangement{V0 + Reg(Rt), Arrangement2S, 4}
		} else if size == 2 && Q == 1 {
			return RegisterWithArrangement{V0 + Reg(Rt), Arrangement4S, 4}
		} else if size == 3 && Q == 1 {
			return RegisterWithArrangement{V0 + Reg(Rt), Arrangement2D, 4}
		}
		return nil

	case arg_Xns_mem_extend_m__UXTW_2__LSL_3__SXTW_6__SXTX_7__0_0__4_1:
		return handle_MemExtend(x, 4, false)

	case arg_Xns_mem_offset:
		Rn := RegSP(X0) + RegSP(x>>5&(1<<5-1))
		return MemImmediate{Rn, AddrOffset, 0}

	case arg_Xns_mem_optional_imm12_16_unsigned:
		Rn := RegSP(X0) + RegSP(x>>5&(1<<5-1))
		imm12 := (x >> 10) & (1<<12 - 1)
		return MemImmediate{Rn, AddrOffset, int32(imm12 << 4)}

	case arg_Xns_mem_optional_imm7_16_signed:
		Rn := RegSP(X0) + RegSP(x>>5&(1<<5-1))
		imm7 := (x >> 15) & (1<<7 - 1)
		return MemImmediate{Rn, AddrOffset, ((int32(imm7 << 4)) << 21) >> 21}

	case arg_Xns_mem_post_fixedimm_1:
		Rn := RegSP(X0) + RegSP(x>>5&(1<<5-1))
		return MemImmediate{Rn, AddrPostIndex, 1}

	case arg_Xns_mem_post_fixedimm_12:
		Rn := RegSP(X0) + RegSP(x>>5&(1<<5-1))
		return MemImmediate{Rn, AddrPostIndex, 12}

	case arg_Xns_mem_post_fixedimm_16:
		Rn := RegSP(X0) + RegSP(x>>5&(1<<5-1))
		return MemImmediate{Rn, AddrPostIndex, 16}

	case arg_Xns_mem_post_fixedimm_2:
		Rn := RegSP(X0) + RegSP(x>>5&(1<<5-1))
		return MemImmediate{Rn, AddrPostIndex, 2}

	case arg_Xns_mem_post_fixedimm_24:
		Rn := RegSP(X0) + RegSP(x>>5&(1<<5-1))
		return MemImmediate{Rn, AddrPostIndex, 24}

	case arg_Xns_mem_post_fixedimm_3:
		Rn := RegSP(X0) + RegSP(x>>5&(1<<5-1))
		return MemImmediate{Rn, AddrPostIndex, 3}

	case arg_Xns_mem_post_fixedimm_32:
		Rn := RegSP(X0) + RegSP(x>>5&(1<<5-1))
		return MemImmediate{Rn, AddrPostIndex, 32}

	case arg_Xns_mem_post_fixedimm_4:
		Rn := RegSP(X0) + RegSP(x>>5&(1<<5-1))
		return MemImmediate{Rn, AddrPostIndex, 4}

	case arg_Xns_mem_post_fixedimm_6:
		Rn := RegSP(X0) + RegSP(x>>5&(1<<5-1))
		return MemImmediate{Rn, AddrPostIndex, 6}

	case arg_Xns_mem_post_fixedimm_8:
		Rn := RegSP(X0) + RegSP(x>>5&(1<<5-1))
		return MemImmediate{Rn, AddrPostIndex, 8}

	case arg_Xns_mem_post_imm7_16_signed:
		Rn := RegSP(X0) + RegSP(x>>5&(1<<5-1))
		imm7 := (x >> 15) & (1<<7 - 1)
		return MemImmediate{Rn, AddrPostIndex, ((int32(imm7 << 4)) << 21) >> 21}

	case arg_Xns_mem_post_Q__16_0__32_1:
		Rn := RegSP(X0) + RegSP(x>>5&(1<<5-1))
		Q := (x >> 30) & 1
		return MemImmediate{Rn, AddrPostIndex, int32((Q + 1) * 16)}

	case arg_Xns_mem_post_Q__24_0__48_1:
		Rn := RegSP(X0) + RegSP(x>>5&(1<<5-1))
		Q := (x >> 30) & 1
		return MemImmediate{Rn, AddrPostIndex, int32((Q + 1) * 24)}

	case arg_Xns_mem_post_Q__32_0__64_1:
		Rn := RegSP(X0) + RegSP(x>>5&(1<<5-1))
		Q := (x >> 30) & 1
		return MemImmediate{Rn, AddrPostIndex, int32((Q + 1) * 32)}

	case arg_Xns_mem_post_Q__8_0__16_1:
		Rn := RegSP(X0) + RegSP(x>>5&(1<<5-1))
		Q := (x >> 30) & 1
		return MemImmediate{Rn, AddrPostIndex, int32((Q + 1) * 8)}

	case arg_Xns_mem_post_size__1_0__2_1__4_2__8_3:
		Rn := RegSP(X0) + RegSP(x>>5&(1<<5-1))
		size := (x >> 10) & 3
		return MemImmediate{Rn, AddrPostIndex, int32(1 << size)}

	case arg_Xns_mem_post_size__2_0__4_1__8_2__16_3:
		Rn := RegSP(X0) + RegSP(x>>5&(1<<5-1))
		size := (x >> 10) & 3
		return MemImmediate{Rn, AddrPostIndex, int32(2 << size)}

	case arg_Xns_mem_post_size__3_0__6_1__12_2__24_3:
		Rn := RegSP(X0) + RegSP(x>>5&(1<<5-1))
		size := (x >> 10) & 3
		return MemImmediate{Rn, AddrPostIndex, int32(3 << size)}

	case arg_Xns_mem_post_size__4_0__8_1__16_2__32_3:
		Rn := RegSP(X0) + RegSP(x>>5&(1<<5-1))
		size := (x >> 10) & 3
		return MemImmediate{Rn, AddrPostIndex, int32(4 << size)}

	case arg_Xns_mem_post_Xm:
		Rn := RegSP(X0) + RegSP(x>>5&(1<<5-1))
		Rm := (x >> 16) & (1<<5 - 1)
		return MemImmediate{Rn, AddrPostReg, int32(Rm)}

	case arg_Xns_mem_wb_imm7_16_signed:
		Rn := RegSP(X0) + RegSP(x>>5&(1<<5-1))
		imm7 := (x >> 15) & (1<<7 - 1)
		return MemImmediate{Rn, AddrPreIndex, ((int32(imm7 << 4)) << 21) >> 21}
	}
}

func handle_ExtendedRegister(x uint32, has_width bool) Arg {
	s := (x >> 29) & 1
	rm := (x >> 16) & (1<<5 - 1)
	option := (x >> 13) & (1<<3 - 1)
	imm3 := (x >> 10) & (1<<3 - 1)
	rn := (x >> 5) & (1<<5 - 1)
	rd := x & (1<<5 - 1)
	is_32bit := !has_width
	var rea RegExtshiftAmount
	if has_width {
		if option&0x3 != 0x3 {
			rea.reg = W0 + Reg(rm)
		} else {
			rea.reg = X0 + Reg(rm)
		}
	} else {
		rea.reg = W0 + Reg(rm)
	}
	switch option {
	case 0:
		rea.extShift = uxtb
	case 1:
		rea.extShift = uxth
	case 2:
		if is_32bit && (rn == 31 || (s == 0 && rd == 31)) {
			if imm3 != 0 {
				rea.extShift = lsl
			} else {
				rea.extShift = ExtShift(0)
			}
		} else {
			rea.extShift = uxtw
		}
	case 3:
		if !is_32bit && (rn == 31 || (s == 0 && rd == 31)) {
			if imm3 != 0 {
				rea.extShift = lsl
			} else {
				rea.extShift = ExtShift(0)
			}
		} else {
			rea.extShift = uxtx
		}
	case 4:
		rea.extShift = sxtb
	case 5:
		rea.extShift = sxth
	case 6:
		rea.extShift = sxtw
	case 7:
		rea.extShift = sxtx
	}
	rea.show_zero = false
	rea.amount = uint8(imm3)
	return rea
}

func handle_ImmediateShiftedRegister(x uint32, max uint8, is_w, has_ror bool) Arg {
	var rsa RegExtshiftAmount
	if is_w {
		rsa.reg = W0 + Reg((x>>16)&(1<<5-1))
	} else {
		rsa.reg = X0 + Reg((x>>16)&(1<<5-1))
	}
	switch (x >> 22) & 0x3 {
	case 0:
		rsa.extShift = lsl
	case 1:
		rsa.extShift = lsr
	case 2:
		rsa.extShift = asr
	case 3:
		if has_ror {
			rsa.extShift = ror
		} else {
			return nil
		}
	}
	rsa.show_zero = true
	rsa.amount = uint8((x >> 10) & (1<<6 - 1))
	if rsa.amount == 0 && rsa.extShift == lsl {
		rsa.extShift = ExtShift(0)
	} else if rsa.amount > max {
		return nil
	}
	return rsa
}

func handle_MemExtend(x uint32, mult uint8, absent bool) Arg {
	var extend ExtShift
	var Rm Reg
	option := (x >> 13) & (1<<3 - 1)
	Rn := RegSP(X0) + RegSP(x>>5&(1<<5-1))
	if (option & 1) != 0 {
		Rm = Reg(X0) + Reg(x>>16&(1<<5-1))
	} else {
		Rm = Reg(W0) + Reg(x>>16&(1<<5-1))
	}
	switch option {
	default:
		return nil
	case 2:
		extend = uxtw
	case 3:
		extend = lsl
	case 6:
		extend = sxtw
	case 7:
		extend = sxtx
	}
	amount := (uint8((x >> 12) & 1)) * mult
	return MemExtend{Rn, Rm, extend, amount, absent}
}

func handle_bitmasks(x uint32, datasize uint8) Arg {
	var length, levels, esize, i uint8
	var welem, wmask uint64
	n := (x >> 22) & 1
	imms := uint8((x >> 10) & (1<<6 - 1))
	immr := uint8((x >> 16) & (1<<6 - 1))
	if n != 0 {
		length = 6
	} else if (imms & 32) == 0 {
		length = 5
	} else if (imms & 16) == 0 {
		length = 4
	} else if (imms & 8) == 0 {
		length = 3
	} else if (imms & 4) == 0 {
		length = 2
	} else if (imms & 2) == 0 {
		length = 1
	} else {
		return nil
	}
	levels = 1<<length - 1
	s := imms & levels
	r := immr & levels
	esize = 1 << length
	if esize > datasize {
		return nil
	}
	welem = 1<<(s+1) - 1
	ror := (welem >> r) | (welem << (esize - r))
	ror &= ((1 << esize) - 1)
	wmask = 0
	for i = 0; i < datasize; i += esize {
		wmask = (wmask << esize) | ror
	}
	return Imm64{wmask, false}
}
