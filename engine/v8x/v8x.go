//go:build go1.21

// Package v8x is the "instantiate and call" client for node (V8): a long-lived `node js/v8x.js`
// process that compiles a module, instantiates it with recording host stubs, calls exports and
// returns results and host-call traces as strings. It complements watgen.StartV8 (validate and
// inspect only), whose protocol and script are untouched.
package v8x

import (
	"bufio"
	"encoding/base64"
	"encoding/json"
	"fmt"
	"io"
	"os"
	"os/exec"
	"path/filepath"
	"sync"
	"time"
)

// Import tells the runner what to supply for one import of the module. Function imports that are
// not listed get a recording stub without results.
type Import struct {
	Module  string   `json:"module"`
	Name    string   `json:"name"`
	Kind    string   `json:"kind"`              // "func", "memory", "table", "global"
	Results []string `json:"results,omitempty"` // func: result types ("i32", "i64", "f32", "f64")
	Min     uint32   `json:"min,omitempty"`     // memory / table
	Max     *uint32  `json:"max,omitempty"`
	Type    string   `json:"type,omitempty"` // global
	Mut     bool     `json:"mut,omitempty"`
	Value   string   `json:"value,omitempty"`
}

// Call of one export. Args: decimal = Number, decimal+"n" = BigInt (i64), "f:<hex bits>" = double.
type Call struct {
	Name string   `json:"name"`
	Args []string `json:"args,omitempty"`
}

// Job is one module with the calls to make on ONE instance of it, in order.
type Job struct {
	Wasm     []byte
	Imports  []Import
	Calls    []Call
	MaxTrace int
}

type wireJob struct {
	Wasm     string   `json:"wasm"`
	Imports  []Import `json:"imports,omitempty"`
	Calls    []Call   `json:"calls,omitempty"`
	MaxTrace int      `json:"maxTrace,omitempty"`
}

type Extern struct {
	Module string `json:"module,omitempty"`
	Name   string `json:"name"`
	Kind   string `json:"kind"`
}

// CallResult: R is the comma-joined result values, "trap:<message>", "missing" or "notfunc:…";
// T the host calls made during the call.
type CallResult struct {
	R string   `json:"r"`
	T []string `json:"t"`
}

type Result struct {
	Valid        bool         `json:"valid"`
	Error        string       `json:"error"`
	Imports      []Extern     `json:"imports"`
	Exports      []Extern     `json:"exports"`
	Instantiated bool         `json:"instantiated"`
	InstError    string       `json:"instError"`
	StartTrace   []string     `json:"startTrace"`
	Calls        []CallResult `json:"calls"`
}

// V8 is one node process. Safe for concurrent use (requests are serialised); for parallelism
// start several.
type V8 struct {
	mu      sync.Mutex
	cmd     *exec.Cmd
	in      io.WriteCloser
	out     *bufio.Reader
	next    int
	Timeout time.Duration // per request; a request that exceeds it kills node and returns an error
}

// Start launches node on <verifDir>/js/v8x.js.
func Start(verifDir string) (*V8, error) {
	script := filepath.Join(verifDir, "js", "v8x.js")
	if _, err := os.Stat(script); err != nil {
		return nil, fmt.Errorf("v8x: %v", err)
	}
	cmd := exec.Command("node", script)
	in, err := cmd.StdinPipe()
	if err != nil {
		return nil, err
	}
	outp, err := cmd.StdoutPipe()
	if err != nil {
		return nil, err
	}
	cmd.Stderr = os.Stderr
	if err := cmd.Start(); err != nil {
		return nil, fmt.Errorf("v8x: cannot start node: %v", err)
	}
	return &V8{cmd: cmd, in: in, out: bufio.NewReaderSize(outp, 1<<20), Timeout: 10 * time.Minute}, nil
}

// Exec runs a batch; the answer has one entry per job, in order.
func (v *V8) Exec(jobs []Job) ([]Result, error) {
	v.mu.Lock()
	defer v.mu.Unlock()
	if v.cmd == nil {
		return nil, fmt.Errorf("v8x: node is not running")
	}
	v.next++
	req := struct {
		ID   int       `json:"id"`
		Jobs []wireJob `json:"jobs"`
	}{ID: v.next, Jobs: make([]wireJob, len(jobs))}
	for i, j := range jobs {
		req.Jobs[i] = wireJob{Wasm: base64.StdEncoding.EncodeToString(j.Wasm), Imports: j.Imports, Calls: j.Calls, MaxTrace: j.MaxTrace}
	}
	data, err := json.Marshal(req)
	if err != nil {
		return nil, err
	}
	type rd struct {
		line []byte
		err  error
	}
	ch := make(chan rd, 1)
	go func() {
		if _, err := v.in.Write(append(data, '\n')); err != nil {
			ch <- rd{nil, fmt.Errorf("write: %v", err)}
			return
		}
		line, err := v.out.ReadBytes('\n')
		ch <- rd{line, err}
	}()
	var got rd
	select {
	case got = <-ch:
	case <-time.After(v.Timeout):
		v.cmd.Process.Kill()
		v.cmd.Wait()
		v.cmd = nil
		return nil, fmt.Errorf("v8x: no answer within %v (node killed)", v.Timeout)
	}
	if got.err != nil {
		return nil, fmt.Errorf("v8x: %v", got.err)
	}
	var resp struct {
		ID    int      `json:"id"`
		Error string   `json:"error"`
		Res   []Result `json:"res"`
	}
	if err := json.Unmarshal(got.line, &resp); err != nil {
		return nil, fmt.Errorf("v8x: bad response: %v", err)
	}
	if resp.Error != "" {
		return nil, fmt.Errorf("v8x: %s", resp.Error)
	}
	if resp.ID != req.ID || len(resp.Res) != len(jobs) {
		return nil, fmt.Errorf("v8x: response id %d with %d results for request %d with %d jobs", resp.ID, len(resp.Res), req.ID, len(jobs))
	}
	return resp.Res, nil
}

// Close ends the node process.
func (v *V8) Close() {
	v.mu.Lock()
	defer v.mu.Unlock()
	if v.cmd != nil {
		v.in.Close()
		v.cmd.Wait()
		v.cmd = nil
	}
}
