//go:build go1.21

// Package vsync replaces package sync in instrumented wa packages. Outside an exploration, or
// when called from a goroutine the explorer does not control, every type behaves exactly like
// its sync counterpart (it delegates to one). Inside an exploration lock operations are
// scheduling points and blocking is visible to the scheduler (a blocked thread is not enabled).
//
// Lock operations are named by their static call site and are subject to the same occurrence
// cap as variable-access points; an operation that would block is always a scheduling point.
package vsync

import (
	"runtime"
	"strconv"
	"strings"
	"sync"
	"sync/atomic"

	"wa-lang.org/wa/internal/zzverif/sched"
)

type Locker = sync.Locker
type WaitGroup = sync.WaitGroup
type Pool = sync.Pool
type Map = sync.Map
type Cond = sync.Cond

func NewCond(l Locker) *Cond { return sync.NewCond(l) }

// callerSite names the static call site of a lock operation (two frames up: the user of vsync).
func callerSite(op string) string {
	_, file, line, ok := runtime.Caller(2)
	if !ok {
		return op
	}
	if i := strings.LastIndex(file, "/internal/"); i >= 0 {
		file = file[i+1:]
	}
	return op + "@" + file + ":" + strconv.Itoa(line)
}

// Mutex.
type Mutex struct {
	real sync.Mutex
	held bool // only touched by controlled threads (one runs at a time)
}

func (m *Mutex) Lock() {
	if !sched.Controlled() {
		m.real.Lock()
		return
	}
	site := callerSite("Mutex.Lock")
	if m.held || sched.Candidate(site) {
		sched.Block(site, func() bool { return !m.held })
	}
	m.held = true
}

func (m *Mutex) Unlock() {
	if !sched.Controlled() {
		m.real.Unlock()
		return
	}
	if !m.held {
		panic("vsync: unlock of unlocked mutex")
	}
	m.held = false
	sched.Point(callerSite("Mutex.Unlock"))
}

func (m *Mutex) TryLock() bool {
	if !sched.Controlled() {
		return m.real.TryLock()
	}
	sched.Point(callerSite("Mutex.TryLock"))
	if m.held {
		return false
	}
	m.held = true
	return true
}

// RWMutex.
type RWMutex struct {
	real    sync.RWMutex
	writer  bool
	readers int
}

func (m *RWMutex) Lock() {
	if !sched.Controlled() {
		m.real.Lock()
		return
	}
	site := callerSite("RWMutex.Lock")
	if m.writer || m.readers != 0 || sched.Candidate(site) {
		sched.Block(site, func() bool { return !m.writer && m.readers == 0 })
	}
	m.writer = true
}

func (m *RWMutex) Unlock() {
	if !sched.Controlled() {
		m.real.Unlock()
		return
	}
	m.writer = false
	sched.Point(callerSite("RWMutex.Unlock"))
}

func (m *RWMutex) RLock() {
	if !sched.Controlled() {
		m.real.RLock()
		return
	}
	site := callerSite("RWMutex.RLock")
	if m.writer || sched.Candidate(site) {
		sched.Block(site, func() bool { return !m.writer })
	}
	m.readers++
}

func (m *RWMutex) RUnlock() {
	if !sched.Controlled() {
		m.real.RUnlock()
		return
	}
	m.readers--
	sched.Point(callerSite("RWMutex.RUnlock"))
}

func (m *RWMutex) RLocker() Locker { return (*rlocker)(m) }

type rlocker RWMutex

func (r *rlocker) Lock()   { (*RWMutex)(r).RLock() }
func (r *rlocker) Unlock() { (*RWMutex)(r).RUnlock() }

// Once.
type Once struct {
	real sync.Once
	mu   Mutex
	done atomic.Bool
}

func (o *Once) Do(f func()) {
	if !sched.Controlled() {
		o.real.Do(f)
		o.done.Store(true)
		return
	}
	sched.Point(callerSite("Once.Do"))
	if o.done.Load() {
		return
	}
	o.mu.Lock()
	defer o.mu.Unlock()
	defer o.done.Store(true)
	o.real.Do(f)
}
