//go:build go1.21

// Package vsync replaces package sync in instrumented wa packages. Outside an exploration, or
// when called from a goroutine the explorer does not control, every type behaves exactly like
// its sync counterpart (it delegates to one). Inside an exploration lock operations are
// scheduling points and blocking is visible to the scheduler (a blocked thread is not enabled).
package vsync

import (
	"sync"
	"sync/atomic"

	"wa-lang.org/wa/internal/zzverif/sched"
)

type Locker = sync.Locker
type WaitGroup = sync.WaitGroup
type Pool = sync.Pool
type Map = sync.Map
type Cond = sync.Cond

func NewCond(l Locker) *Cond { return sync.NewCond(l) }

// Mutex.
type Mutex struct {
	real sync.Mutex
	held bool // only touched by controlled threads (one runs at a time)
}

func (m *Mutex) Lock() {
	if !sched.Controlled() {
		m.real.Lock()
		return
	}
	sched.Block("Mutex.Lock", func() bool { return !m.held })
	m.held = true
}

func (m *Mutex) Unlock() {
	if !sched.Controlled() {
		m.real.Unlock()
		return
	}
	if !m.held {
		panic("vsync: unlock of unlocked mutex")
	}
	m.held = false
	sched.Point("Mutex.Unlock")
}

func (m *Mutex) TryLock() bool {
	if !sched.Controlled() {
		return m.real.TryLock()
	}
	sched.Point("Mutex.TryLock")
	if m.held {
		return false
	}
	m.held = true
	return true
}

// RWMutex.
type RWMutex struct {
	real    sync.RWMutex
	writer  bool
	readers int
}

func (m *RWMutex) Lock() {
	if !sched.Controlled() {
		m.real.Lock()
		return
	}
	sched.Block("RWMutex.Lock", func() bool { return !m.writer && m.readers == 0 })
	m.writer = true
}

func (m *RWMutex) Unlock() {
	if !sched.Controlled() {
		m.real.Unlock()
		return
	}
	m.writer = false
	sched.Point("RWMutex.Unlock")
}

func (m *RWMutex) RLock() {
	if !sched.Controlled() {
		m.real.RLock()
		return
	}
	sched.Block("RWMutex.RLock", func() bool { return !m.writer })
	m.readers++
}

func (m *RWMutex) RUnlock() {
	if !sched.Controlled() {
		m.real.RUnlock()
		return
	}
	m.readers--
	sched.Point("RWMutex.RUnlock")
}

func (m *RWMutex) RLocker() Locker { return (*rlocker)(m) }

type rlocker RWMutex

func (r *rlocker) Lock()   { (*RWMutex)(r).RLock() }
func (r *rlocker) Unlock() { (*RWMutex)(r).RUnlock() }

// Once.
type Once struct {
	real sync.Once
	mu   Mutex
	done atomic.Bool
}

func (o *Once) Do(f func()) {
	if !sched.Controlled() {
		o.real.Do(f)
		o.done.Store(true)
		return
	}
	sched.Point("Once.Do")
	if o.done.Load() {
		return
	}
	o.mu.Lock()
	defer o.mu.Unlock()
	defer o.done.Store(true)
	o.real.Do(f)
}
