//go:build go1.21

// Package sched is a cooperative controlled scheduler for exhaustive exploration of thread
// interleavings (CHESS-style iterative preemption bounding) of real Go code.
//
// Instrumented code calls Point(site) before every access to shared state and uses the vsync
// shims for locks. During an exploration exactly one registered thread (goroutine) runs at a
// time; every other one is parked inside Point / a vsync operation. Outside an exploration
// (Active() == false) Point is a no-op and the shims behave like package sync.
package sched

import (
	"bytes"
	"fmt"
	"runtime"
	"strconv"
	"sync"
	"sync/atomic"
	"time"
)

var active atomic.Bool

// Active reports whether an exploration run is in progress.
func Active() bool { return active.Load() }

type threadState int

const (
	stRunnable threadState = iota
	stBlocked              // waiting for a resource (see waitOn)
	stDone
)

// Thread is one controlled goroutine.
type Thread struct {
	ID     int
	state  threadState
	waitOn func() bool // enabled when this returns true (only for stBlocked)
	resume chan struct{}
	site   string // site of the pending operation
	// per-site occurrence counters for the candidate cap
	occ map[string]int

	Panic  interface{} // recovered panic value of the body, if any
	Result interface{}
}

// Decision is one scheduling decision of an execution.
type Decision struct {
	Enabled        []int  // thread ids in canonical order (running thread first if still enabled)
	Chosen         int    // index into Enabled
	RunningEnabled bool   // the previously running thread is still enabled (switching = preemption)
	Site           string // site the previously running thread is parked at
	Thread         int    // previously running thread (-1 at start)
}

// Exec is the record of one execution.
type Exec struct {
	Decisions []Decision
	Threads   []*Thread
	Deadlock  bool
	Stuck     string // non-empty: the running thread did not reach a scheduling point in time (harness error)
	Diverged  string // non-empty: the prefix could not be replayed (harness error)
	Points    int64  // all Point calls by controlled threads (including non-candidates)
}

type runCtl struct {
	mu      sync.Mutex
	byGoid  map[int64]*Thread
	threads []*Thread
	ev      chan *Thread // a thread parked (at a point, blocked, or done)
	capK    int
	points  atomic.Int64
}

var cur *runCtl // valid while active

func goid() int64 {
	var buf [64]byte
	b := buf[:runtime.Stack(buf[:], false)]
	// "goroutine 123 ["
	b = b[len("goroutine "):]
	i := bytes.IndexByte(b, ' ')
	n, _ := strconv.ParseInt(string(b[:i]), 10, 64)
	return n
}

func self() *Thread {
	c := cur
	if c == nil {
		return nil
	}
	id := goid()
	c.mu.Lock()
	t := c.byGoid[id]
	c.mu.Unlock()
	return t
}

// Point is a scheduling point before an access to shared state.
func Point(site string) {
	if !active.Load() {
		return
	}
	t := self()
	if t == nil {
		return // a goroutine the explorer does not control
	}
	cur.points.Add(1)
	if k := cur.capK; k > 0 {
		n := t.occ[site] + 1
		t.occ[site] = n
		if n > k {
			return // not a preemption candidate (occurrence cap, see Options.SiteCap)
		}
	}
	t.site = site
	t.park()
}

// Candidate counts one more occurrence of site for the calling thread and reports whether it is
// still within the occurrence cap (i.e. whether a scheduling point should be taken here).
func Candidate(site string) bool {
	t := self()
	if t == nil {
		return false
	}
	if k := cur.capK; k > 0 {
		n := t.occ[site] + 1
		t.occ[site] = n
		return n <= k
	}
	return true
}

// Block parks the calling thread until ready() holds (evaluated by the scheduler while no thread
// runs). It is also a scheduling point. Used by the vsync shims.
func Block(site string, ready func() bool) {
	t := self()
	if t == nil {
		panic("sched.Block from an uncontrolled goroutine")
	}
	cur.points.Add(1)
	t.site = site
	t.state = stBlocked
	t.waitOn = ready
	t.park()
}

// Controlled reports whether the calling goroutine is a controlled thread of an active run.
func Controlled() bool { return active.Load() && self() != nil }

func (t *Thread) park() {
	cur.ev <- t
	<-t.resume
}

// Options of an exploration run.
type Options struct {
	SiteCap int           // a (thread, static site) pair is a preemption candidate only the first SiteCap times it is reached (0 = always)
	Horizon time.Duration // watchdog: the running thread must reach a scheduling point within this time
}

// Run executes bodies as controlled threads following the choice prefix, then choice 0 (keep
// running the same thread; if it is not enabled, the lowest enabled id) at every later decision.
func Run(bodies []func() interface{}, prefix []int, opt Options) *Exec {
	if opt.Horizon == 0 {
		opt.Horizon = 120 * time.Second
	}
	c := &runCtl{byGoid: map[int64]*Thread{}, ev: make(chan *Thread), capK: opt.SiteCap}
	x := &Exec{}
	cur = c
	active.Store(true)
	defer func() {
		active.Store(false)
		cur = nil
	}()
	// start every thread; each parks immediately at its "start" point
	for i, body := range bodies {
		t := &Thread{ID: i, resume: make(chan struct{}), occ: map[string]int{}}
		c.threads = append(c.threads, t)
		ready := make(chan struct{})
		go func(t *Thread, body func() interface{}) {
			c.mu.Lock()
			c.byGoid[goid()] = t
			c.mu.Unlock()
			close(ready)
			t.site = "start"
			<-t.resume // wait to be scheduled for the first time
			func() {
				defer func() {
					if e := recover(); e != nil {
						t.Panic = e
					}
				}()
				t.Result = body()
			}()
			t.state = stDone
			t.site = "end"
			c.ev <- t
		}(t, body)
		<-ready
	}
	x.Threads = c.threads
	running := -1
	for {
		// enabled set in canonical order
		var enabled []int
		runEn := false
		if running >= 0 {
			rt := c.threads[running]
			if rt.state == stRunnable || (rt.state == stBlocked && rt.waitOn()) {
				enabled = append(enabled, running)
				runEn = true
			}
		}
		alldone := true
		for _, t := range c.threads {
			if t.state != stDone {
				alldone = false
			}
			if t.ID == running {
				continue
			}
			if t.state == stRunnable || (t.state == stBlocked && t.waitOn()) {
				enabled = append(enabled, t.ID)
			}
		}
		if alldone {
			break
		}
		if len(enabled) == 0 {
			x.Deadlock = true
			break
		}
		choice := 0
		di := len(x.Decisions)
		if di < len(prefix) {
			choice = prefix[di]
			if choice < 0 || choice >= len(enabled) {
				x.Diverged = fmt.Sprintf("decision %d: prefix asks for choice %d of %d enabled", di, choice, len(enabled))
				break
			}
		}
		site := ""
		if running >= 0 {
			site = c.threads[running].site
		}
		x.Decisions = append(x.Decisions, Decision{Enabled: enabled, Chosen: choice, RunningEnabled: runEn, Site: site, Thread: running})
		next := c.threads[enabled[choice]]
		next.state = stRunnable
		next.waitOn = nil
		running = next.ID
		next.resume <- struct{}{}
		select {
		case <-c.ev:
			// the running thread parked again (point, block or done)
		case <-time.After(opt.Horizon):
			x.Stuck = fmt.Sprintf("thread %d did not reach a scheduling point within %v after site %q", running, opt.Horizon, site)
			x.Points = c.points.Load()
			return x // goroutines leak; the caller must treat this as fatal for the process
		}
	}
	x.Points = c.points.Load()
	if x.Deadlock || x.Diverged != "" {
		// leave parked goroutines behind; the caller should not reuse the process for long
	}
	return x
}

// Choices returns the chosen indices of an execution (a replayable schedule).
func (x *Exec) Choices() []int {
	out := make([]int, len(x.Decisions))
	for i, d := range x.Decisions {
		out[i] = d.Chosen
	}
	return out
}

// PreemptionsBefore counts preemptive switches among decisions [0,i).
func (x *Exec) PreemptionsBefore(i int) int {
	n := 0
	for _, d := range x.Decisions[:i] {
		if d.RunningEnabled && d.Chosen != 0 {
			n++
		}
	}
	return n
}
