//go:build go1.21

package main

import (
	"fmt"
	"strings"
)

// Functions of the property's package list that have no counterpart under waroot/src (checked
// against the pinned tree); they are not enumerated.
var missingInWa = []string{
	"strings.ToUpperSpecial/ToLowerSpecial/ToTitleSpecial", "bytes.SplitAfter", "bytes.MinRead", "strconv.ParseComplex", "strconv.FormatComplex",
	"encoding/hex.AppendEncode/AppendDecode", "encoding/binary.Read/Write/Size", "encoding/base32.Encoding.WithPadding", "sort.Slice/SliceStable/SliceIsSorted",
	"hash/fnv.New128/New128a", "crypto/md5.Sum", "container/heap.Fix",
}

var notCompared = []string{
	"math/bits functions on platform-sized uint (Len, LeadingZeros, TrailingZeros, OnesCount, Reverse, ReverseBytes, RotateLeft, Add, Sub, Mul, Div, Rem): uint is 32-bit in Wa, 64-bit in Go",
	"strconv.Atoi / Itoa / ParseInt(bitSize 0): compared only where the 32-bit and 64-bit results coincide",
	"streaming encoders/decoders (base64/base32/hex NewEncoder/NewDecoder, hex.Dumper), io-based Reader.WriteTo / Buffer.ReadFrom / binary.ReadUvarint",
	"sort.Sort on inputs with distinguishable equal elements (order unspecified)",
}

// ---------------------------------------------------------------------------------------------
// domain constructors

func goStr(s string) string {
	var b strings.Builder
	b.WriteByte('"')
	for i := 0; i < len(s); i++ {
		c := s[i]
		if c >= 0x20 && c < 0x7f && c != '"' && c != '\\' {
			b.WriteByte(c)
		} else {
			fmt.Fprintf(&b, "\\x%02x", c)
		}
	}
	b.WriteByte('"')
	return b.String()
}

func litStr(name string, vals []string, lit bool) *dom {
	var init strings.Builder
	fmt.Fprintf(&init, "\tD_%s = []string{", name)
	for i, v := range vals {
		if i%8 == 0 {
			init.WriteString("\n\t\t")
		}
		init.WriteString(goStr(v) + ", ")
	}
	init.WriteString("\n\t}\n")
	return &dom{Name: name, Type: "string", Size: int64(len(vals)), Decl: fmt.Sprintf("var D_%s []string\n", name), Init: init.String(), Elem: "D_" + name + "[%s]", Lit: lit}
}

func litExpr(name, typ string, exprs []string, lit bool) *dom {
	var init strings.Builder
	fmt.Fprintf(&init, "\tD_%s = []%s{", name, typ)
	for i, v := range exprs {
		if i%8 == 0 {
			init.WriteString("\n\t\t")
		}
		init.WriteString(v + ", ")
	}
	init.WriteString("\n\t}\n")
	return &dom{Name: name, Type: typ, Size: int64(len(exprs)), Decl: fmt.Sprintf("var D_%s []%s\n", name, typ), Init: init.String(), Elem: "D_" + name + "[%s]", Lit: lit}
}

func litInt(name string, vals []int64, lit bool) *dom {
	var ex []string
	for _, v := range vals {
		if v == -1<<63 {
			ex = append(ex, "-9223372036854775807 - 1")
		} else {
			ex = append(ex, fmt.Sprint(v))
		}
	}
	return litExpr(name, "int64", ex, lit)
}

func litUint(name string, vals []uint64, lit bool) *dom {
	var ex []string
	for _, v := range vals {
		ex = append(ex, fmt.Sprint(v))
	}
	return litExpr(name, "uint64", ex, lit)
}

// small control arguments (bases, precisions, selectors): value goes into the key
func ctl(name string, vals ...int64) *dom { return litInt(name, vals, true) }

// all strings of length <= maxLen over syms, by length then lexicographically by symbol index
func genStrs(name string, syms []string, maxLen int) *dom {
	var size, p int64 = 0, 1
	for l := 0; l <= maxLen; l++ {
		size += p
		p *= int64(len(syms))
	}
	var sl []string
	for _, s := range syms {
		sl = append(sl, goStr(s))
	}
	decl := fmt.Sprintf(`var D_%[1]s []string

func genD_%[1]s() {
	syms := []string{%[2]s}
	D_%[1]s = append(D_%[1]s, "")
	start := 0
	for l := 1; l <= %[3]d; l++ {
		end := len(D_%[1]s)
		for p := start; p < end; p++ {
			for _, s := range syms {
				D_%[1]s = append(D_%[1]s, D_%[1]s[p]+s)
			}
		}
		start = end
	}
}
`, name, strings.Join(sl, ", "), maxLen)
	return &dom{Name: name, Type: "string", Size: size, Decl: decl, Init: fmt.Sprintf("\tgenD_%s()\n", name), Elem: "D_" + name + "[%s]"}
}

// union of two string domains (a then b)
func unionStr(name string, a *dom, extra []string) *dom {
	d := litStr(name+"x", extra, false)
	return &dom{Name: name, Type: "string", Size: a.Size + d.Size, Decl: a.Decl + "\x00" + d.Decl + "\x00" + fmt.Sprintf("func elD_%s(i int) string {\n\tif i < %d {\n\t\treturn %s\n\t}\n\treturn D_%sx[i-%d]\n}\n", name, a.Size, fmt.Sprintf(a.Elem, "i"), name, a.Size),
		Init: a.Init + "\x00" + d.Init, Elem: "elD_" + name + "(%s)"}
}

func rng(name string, n int64, typ, elem string) *dom {
	return &dom{Name: name, Type: typ, Size: n, Elem: elem}
}

// ---------------------------------------------------------------------------------------------
// shared domains

func intAlphabet() []int64 {
	seen := map[int64]bool{}
	var out []int64
	add := func(v int64) {
		if !seen[v] {
			seen[v] = true
			out = append(out, v)
		}
	}
	for v := int64(-200); v <= 200; v++ {
		add(v)
	}
	for _, v := range []int64{999, 1000, 1001, 9999, 10000, 65535, 65536, 99999, 100000, 1e9 - 1, 1e9, 1e9 + 1, 1e18 - 1, 1e18, 1e18 + 1} {
		add(v)
		add(-v)
	}
	for _, k := range []uint{7, 8, 15, 16, 31, 32, 33, 62, 63} {
		for _, d := range []int64{-1, 0, 1} {
			if k == 63 {
				add(1<<62 + (1<<62 - 1)) // max
				add(-1 << 63)
				add(-1<<63 + 1)
				continue
			}
			add(int64(1)<<k + d)
			add(-(int64(1) << k) + d)
		}
	}
	return out
}

func uintAlphabet() []uint64 {
	seen := map[uint64]bool{}
	var out []uint64
	add := func(v uint64) {
		if !seen[v] {
			seen[v] = true
			out = append(out, v)
		}
	}
	for v := uint64(0); v <= 200; v++ {
		add(v)
	}
	for _, v := range []uint64{999, 1000, 9999, 10000, 65535, 65536, 99999, 100000, 1e9 - 1, 1e9, 1e18, 1e19, 1e19 - 1, 1e19 + 1} {
		add(v)
	}
	for k := uint(7); k < 64; k += 1 {
		if k == 7 || k == 8 || k == 15 || k == 16 || k == 31 || k == 32 || k == 33 || k == 62 || k == 63 {
			add(uint64(1)<<k - 1)
			add(uint64(1) << k)
			add(uint64(1)<<k + 1)
		}
	}
	add(1<<64 - 1)
	add(1<<64 - 2)
	return out
}

// bit-pattern alphabet for math/bits: every single bit, every low mask, and mixed patterns
func bitAlphabet(w uint) []uint64 {
	seen := map[uint64]bool{}
	var out []uint64
	mask := uint64(1)<<w - 1
	if w == 64 {
		mask = 1<<64 - 1
	}
	add := func(v uint64) {
		v &= mask
		if !seen[v] {
			seen[v] = true
			out = append(out, v)
		}
	}
	add(0)
	for k := uint(0); k < w; k++ {
		add(uint64(1) << k)
		add(uint64(1)<<k - 1)
		add(^(uint64(1) << k))
	}
	for _, v := range []uint64{0x5555555555555555, 0xaaaaaaaaaaaaaaaa, 0x0123456789abcdef, 0xfedcba9876543210, 0xdeadbeefcafebabe, 0x00ff00ff00ff00ff, 0x8000000000000001, 3, 5, 6, 7, 10, 100, 1000, 12345678901234567} {
		add(v)
	}
	add(mask)
	add(mask - 1)
	return out
}

var (
	dS3  = genStrs("s3", []string{"a", "b", "é"}, 3)                        // 40
	dS4  = genStrs("s4", []string{"a", "b", "é"}, 4)                        // 121 (thorough)
	dS2  = genStrs("s2", []string{"a", "b", "é"}, 2)                        // 13
	dS1  = genStrs("s1", []string{"a", "B", "é", " ", "\xff", "世"}, 3)      // 259: single-argument functions
	dSX  = genStrs("sx", []string{"a", "é", "\xff", "世"}, 3)                // 85: rune/func arguments
	dSC  = genStrs("sc", []string{"a", "A", "é", "É", "k", "K", "\xff"}, 2) // 57: case folding
	dNew = litStr("new", []string{"", "x", "éé"}, true)
	dU8  = genStrs("u8", []string{"A", "\x80", "\x8f", "\x90", "\x9f", "\xa0", "\xbf", "\xc1", "\xc2", "\xe0", "\xed", "\xf0", "\xf4"}, 4)  // 30941
	dU8s = genStrs("u8s", []string{"A", "\x80", "\x8f", "\x90", "\x9f", "\xa0", "\xbf", "\xc1", "\xc2", "\xe0", "\xed", "\xf0", "\xf4"}, 3) // 2380
	dP14 = func(n int) *dom {
		return genStrs(fmt.Sprintf("p14_%d", n), []string{"0", "1", "9", "+", "-", "_", ".", "e", "x", "a", "f", "\"", "\\", " "}, n)
	}
	dI64    = litInt("i64", intAlphabet(), false)
	dU64    = litUint("u64", uintAlphabet(), false)
	dBase   = ctl("base", 2, 8, 10, 16, 36)
	dRunesB = litInt("runesb", []int64{-1, 0, 0x41, 0x7f, 0x80, 0xe9, 0x7ff, 0x800, 0x4e16, 0xd7ff, 0xd800, 0xdbff, 0xdc00, 0xdfff, 0xe000, 0xfffd, 0xfffe, 0xffff, 0x10000, 0x10ffff, 0x110000, 0x7fffffff, -0x80000000}, false)
)

const rNEDecl = `func rNE(err error) {
	c := int64(0)
	if err != nil {
		c = 9
		if ne, ok := err.(*strconv.NumError); ok {
			if ne.Err == strconv.ErrSyntax {
				c = 1
			} else if ne.Err == strconv.ErrRange {
				c = 2
			} else {
				c = 3
			}
		}
	}
	rI(c)
}
`

// ---------------------------------------------------------------------------------------------

func mk(name string, imports string, doms []*dom, body string) *fn {
	var im []string
	if imports != "" {
		im = strings.Split(imports, ",")
	}
	return &fn{Name: name, Imports: im, Doms: doms, Body: "\t\t\t" + strings.ReplaceAll(strings.TrimSpace(body), "\n", "\n\t\t\t")}
}

func (f *fn) guard(g string) *fn   { f.Guard = g; return f }
func (f *fn) decls(d string) *fn   { f.Decls += "\x00" + d; return f }
func (f *fn) weight(w int) *fn     { f.Weight = w; return f }
func (f *fn) thorough() *fn        { f.Thorough = true; return f }
func (f *fn) imports(s string) *fn { f.Imports = append(f.Imports, strings.Split(s, ",")...); return f }

// sb instantiates a template for package strings and for package bytes.
//
//	@P      package name
//	@0 @1.. argument i converted to the package's text type (string / []byte)
//	RS( RL( result folding of a text / list-of-text result
func sb(name string, doms []*dom, tmpl string, bytesToo bool) []*fn {
	inst := func(pkg string) *fn {
		t := strings.ReplaceAll(tmpl, "@P", pkg)
		for i := 0; i < 4; i++ {
			a := fmt.Sprintf("a%d", i)
			if pkg == "bytes" {
				a = "[]byte(" + a + ")"
			}
			t = strings.ReplaceAll(t, fmt.Sprintf("@%d", i), a)
		}
		if pkg == "bytes" {
			t = strings.ReplaceAll(t, "RS(", "rY(")
			t = strings.ReplaceAll(t, "RL(", "rLY(")
			t = strings.ReplaceAll(t, "TX(", "[]byte(")
		} else {
			t = strings.ReplaceAll(t, "TX(", "string(")
			t = strings.ReplaceAll(t, "RS(", "rS(")
			t = strings.ReplaceAll(t, "RL(", "rLS(")
		}
		return mk(pkg+"."+name, pkg, doms, t)
	}
	out := []*fn{inst("strings")}
	if bytesToo {
		out = append(out, inst("bytes"))
	}
	return out
}

const pickFDecl = `func isA(r rune) bool   { return r == 'a' }
func isE(r rune) bool   { return r == 0xe9 }
func isBad(r rune) bool { return r == 0xfffd }
func isAny(r rune) bool { return true }

func pickF(k int64) func(rune) bool {
	if k == 0 {
		return isA
	}
	if k == 1 {
		return isE
	}
	if k == 2 {
		return isBad
	}
	return isAny
}

func mapX(r rune) rune {
	if r == 'a' {
		return 'x'
	}
	return r
}

func mapDrop(r rune) rune {
	if r == 'a' {
		return -1
	}
	return r
}

func mapWide(r rune) rune {
	if r == 'a' {
		return 0x4e16
	}
	if r == 0x4e16 {
		return 'a'
	}
	return r
}

func mapBad(r rune) rune {
	if r == 0xe9 {
		return 0x110000
	}
	return r
}

func pickM(k int64) func(rune) rune {
	if k == 0 {
		return mapX
	}
	if k == 1 {
		return mapDrop
	}
	if k == 2 {
		return mapWide
	}
	return mapBad
}
`

func allFns(thorough bool) []*fn {
	var fs []*fn
	add := func(f ...*fn) { fs = append(fs, f...) }
	s3 := dS3
	if thorough {
		s3 = dS4
	}
	pair := []*dom{s3, s3}

	// ---------------------------------------------------------------- strings / bytes
	add(sb("Contains", pair, "rB(@P.Contains(@0, @1))", true)...)
	add(sb("ContainsAny", pair, "rB(@P.ContainsAny(@0, a1))", true)...)
	add(sb("Count", pair, "rI(int64(@P.Count(@0, @1)))", true)...)
	add(sb("Index", pair, "rI(int64(@P.Index(@0, @1)))", true)...)
	add(sb("LastIndex", pair, "rI(int64(@P.LastIndex(@0, @1)))", true)...)
	add(sb("IndexAny", pair, "rI(int64(@P.IndexAny(@0, a1)))", true)...)
	add(sb("LastIndexAny", pair, "rI(int64(@P.LastIndexAny(@0, a1)))", true)...)
	add(sb("HasPrefix", pair, "rB(@P.HasPrefix(@0, @1))\nrB(@P.HasSuffix(@0, @1))", true)...)
	add(sb("Split", pair, "RL(@P.Split(@0, @1))", true)...)
	add(sb("SplitAfter", pair, "RL(@P.SplitAfter(@0, @1))", false)...)
	add(sb("Cut", pair, "x, y, ok := @P.Cut(@0, @1)\nRS(x)\nRS(y)\nrB(ok)", true)...)
	add(sb("CutPrefix", pair, "x, ok := @P.CutPrefix(@0, @1)\nRS(x)\nrB(ok)\ny, ok2 := @P.CutSuffix(@0, @1)\nRS(y)\nrB(ok2)", true)...)
	add(sb("Trim", pair, "RS(@P.Trim(@0, a1))\nRS(@P.TrimLeft(@0, a1))\nRS(@P.TrimRight(@0, a1))", true)...)
	add(sb("TrimPrefix", pair, "RS(@P.TrimPrefix(@0, @1))\nRS(@P.TrimSuffix(@0, @1))", true)...)
	add(sb("Compare", pair, "rI(int64(@P.Compare(@0, @1)))", true)...)
	add(mk("bytes.Equal", "bytes", pair, "rB(bytes.Equal([]byte(a0), []byte(a1)))"))
	add(sb("EqualFold", []*dom{dSC, dSC}, "rB(@P.EqualFold(@0, @1))", true)...)
	add(sb("Join", pair, "RS(@P.Join(@P.Split(@0, @P.Repeat(@1, 0)), @1))\nRS(@P.Join(@P.Fields(@0), @1))", true)...)
	add(sb("Repeat", []*dom{dS2, ctl("rep", 0, 1, 2, 3, 5)}, "RS(@P.Repeat(@0, int(a1)))", true)...)
	add(sb("Replace", []*dom{s3, dS2, dNew, ctl("nrep", -1, 0, 1, 2)}, "RS(@P.Replace(@0, @1, @2, int(a3)))", true)...)
	add(sb("ReplaceAll", []*dom{s3, dS2, dNew}, "RS(@P.ReplaceAll(@0, @1, @2))", true)...)
	add(sb("SplitN", []*dom{s3, dS2, ctl("nsplit", -1, 0, 1, 2, 3)}, "RL(@P.SplitN(@0, @1, int(a2)))\nRL(@P.SplitAfterN(@0, @1, int(a2)))", true)...)
	dByte := ctl("byte", 'a', 'b', 0xc3, 0xa9, 'x', 0xff)
	add(sb("IndexByte", []*dom{dSX, dByte}, "rI(int64(@P.IndexByte(@0, byte(a1))))\nrI(int64(@P.LastIndexByte(@0, byte(a1))))", true)...)
	dRune := ctl("rune", 'a', 0xe9, 0x4e16, 0xfffd, -1, 0x110000, 0xd800, 'x')
	add(sb("IndexRune", []*dom{dSX, dRune}, "rI(int64(@P.IndexRune(@0, rune(a1))))\nrB(@P.ContainsRune(@0, rune(a1)))", true)...)
	dPickF := ctl("pred", 0, 1, 2, 3)
	for _, f := range sb("IndexFunc", []*dom{dSX, dPickF}, "rI(int64(@P.IndexFunc(@0, pickF(a1))))\nrI(int64(@P.LastIndexFunc(@0, pickF(a1))))\nrB(@P.ContainsFunc(@0, pickF(a1)))", true) {
		add(f.decls(pickFDecl))
	}
	for _, f := range sb("TrimFunc", []*dom{dSX, dPickF}, "RS(@P.TrimFunc(@0, pickF(a1)))\nRS(@P.TrimLeftFunc(@0, pickF(a1)))\nRS(@P.TrimRightFunc(@0, pickF(a1)))\nRL(@P.FieldsFunc(@0, pickF(a1)))", true) {
		add(f.decls(pickFDecl))
	}
	for _, f := range sb("Map", []*dom{dSX, ctl("mapping", 0, 1, 2, 3)}, "RS(@P.Map(pickM(a1), @0))", true) {
		add(f.decls(pickFDecl))
	}
	single := []*dom{dS1}
	add(sb("ToUpper", single, "RS(@P.ToUpper(@0))\nRS(@P.ToLower(@0))\nRS(@P.ToTitle(@0))\nRS(@P.Title(@0))", true)...)
	add(sb("TrimSpace", single, "RS(@P.TrimSpace(@0))\nRL(@P.Fields(@0))", true)...)
	add(sb("ToValidUTF8", []*dom{dS1, dNew}, "RS(@P.ToValidUTF8(@0, @1))", true)...)
	add(sb("ToValidUTF8/u8", []*dom{dU8s}, "RS(@P.ToValidUTF8(@0, @P.Repeat(@0, 0)))\nRS(@P.ToUpper(@0))\nRL(@P.Fields(@0))", true)...)
	add(mk("strings.Clone", "strings", single, "rS(strings.Clone(a0))"))
	add(mk("bytes.Clone+Runes", "bytes", []*dom{dU8s}, "rY(bytes.Clone([]byte(a0)))\nrs := bytes.Runes([]byte(a0))\nrI(int64(len(rs)))\nfor _, r := range rs {\n\trI(int64(r))\n}"))
	// Replacer: one pair (single-string / byte replacer) and two pairs (byte-string / generic)
	dOld1 := litStr("old1", []string{"", "a", "ab", "é"}, true)
	dNew1 := litStr("new1", []string{"", "x", "yy"}, true)
	dOld2 := litStr("old2", []string{"b", "a", "aa", ""}, true)
	add(mk("strings.Replacer/1", "strings", []*dom{s3, dOld1, dNew1}, "rS(strings.NewReplacer(a1, a2).Replace(a0))"))
	add(mk("strings.Replacer/2", "strings", []*dom{s3, dOld1, dNew1, dOld2}, "rS(strings.NewReplacer(a1, a2, a3, \"zz\").Replace(a0))"))
	add(mk("strings.Replacer/bytes", "strings", []*dom{s3, ctl("brep", 0, 1, 2)}, `
var rp *strings.Replacer
if a1 == 0 {
	rp = strings.NewReplacer("a", "x", "b", "y")
} else if a1 == 1 {
	rp = strings.NewReplacer("a", "xx", "b", "")
} else {
	rp = strings.NewReplacer("a", "b", "b", "a", "a", "z")
}
rS(rp.Replace(a0))`))
	add(historyFns(thorough)...)

	// ---------------------------------------------------------------- strconv
	sc := func(f *fn) *fn { return f.decls(rNEDecl) }
	add(mk("strconv.FormatInt", "strconv", []*dom{dI64, dBase}, "rS(strconv.FormatInt(a0, int(a1)))\nrY(strconv.AppendInt([]byte(\"x\"), a0, int(a1)))"))
	add(mk("strconv.FormatUint", "strconv", []*dom{dU64, dBase}, "rS(strconv.FormatUint(a0, int(a1)))\nrY(strconv.AppendUint([]byte(\"x\"), a0, int(a1)))"))
	add(mk("strconv.FormatInt/small", "strconv", []*dom{rng("small", 4001, "int64", "int64(%s) - 2000"), ctl("base10", 10, 16, 2)}, "rS(strconv.FormatInt(a0, int(a1)))"))
	add(mk("strconv.Itoa", "strconv", []*dom{dI64}, "rS(strconv.Itoa(int(a0)))").guard("a0 >= -2147483648 && a0 <= 2147483647"))
	add(mk("strconv.Itoa/small", "strconv", []*dom{rng("small", 4001, "int64", "int64(%s) - 2000")}, "rS(strconv.Itoa(int(a0)))"))
	p3, p4 := dP14(3), dP14(4)
	intTexts := unionStr("inttxt", dP14(2), []string{
		"2147483647", "2147483648", "-2147483648", "-2147483649", "4294967295", "4294967296", "9223372036854775807", "9223372036854775808", "-9223372036854775808", "-9223372036854775809",
		"18446744073709551615", "18446744073709551616", "99999999999999999999", "127", "128", "-128", "-129", "255", "256", "32767", "32768", "-32768", "-32769", "65535", "65536",
		"0x7fffffff", "0x80000000", "0xffffffff", "0x100000000", "0x7fffffffffffffff", "0x8000000000000000", "0xffffffffffffffff", "0x10000000000000000", "0X1F", "0x_ff", "0x", "0x_", "0b101", "0B11", "0b", "0b2", "0o17", "0O17", "0o8", "017", "08", "0_7", "1_000", "1__0", "_1", "1_", "+0x10", "-0x10", "+-1", "--1", "7fffffff", "80000000", "zz", "ZZ", "z", "1z", "00000000000000000000000001", "-0", "+0", " 1", "1 ", "1e3", "１",
		"1111111111111111111111111111111", "10000000000000000000000000000000", "1111111111111111111111111111111111111111111111111111111111111111", "10000000000000000000000000000000000000000000000000000000000000000",
		"zik0zj", "zik0zk", "1y2p0ij32e8e7", "1y2p0ij32e8e8", "3w5e11264sgsf", "3w5e11264sgsg", "777777777777777777777", "1000000000000000000000", "1777777777777777777777", "2000000000000000000000",
	})
	dPBase := ctl("pbase", 0, 2, 8, 10, 16, 36, 1, 37)
	dBits := ctl("bits", 8, 16, 32, 64, 65, -1)
	add(sc(mk("strconv.ParseInt/len<=3", "strconv", []*dom{p3, dPBase, dBits}, "v, err := strconv.ParseInt(a0, int(a1), int(a2))\nrI(v)\nrNE(err)")))
	add(sc(mk("strconv.ParseUint/len<=3", "strconv", []*dom{p3, dPBase, dBits}, "v, err := strconv.ParseUint(a0, int(a1), int(a2))\nrU(v)\nrNE(err)")))
	add(sc(mk("strconv.ParseInt/len<=4", "strconv", []*dom{p4, ctl("pbase3", 0, 10, 16), ctl("bits2", 8, 64)}, "v, err := strconv.ParseInt(a0, int(a1), int(a2))\nrI(v)\nrNE(err)")))
	add(sc(mk("strconv.ParseUint/len<=4", "strconv", []*dom{p4, ctl("pbase3", 0, 10, 16), ctl("bits2", 8, 64)}, "v, err := strconv.ParseUint(a0, int(a1), int(a2))\nrU(v)\nrNE(err)")))
	add(sc(mk("strconv.ParseInt/texts", "strconv", []*dom{intTexts, dPBase, dBits}, "v, err := strconv.ParseInt(a0, int(a1), int(a2))\nrI(v)\nrNE(err)")))
	add(sc(mk("strconv.ParseUint/texts", "strconv", []*dom{intTexts, dPBase, dBits}, "v, err := strconv.ParseUint(a0, int(a1), int(a2))\nrU(v)\nrNE(err)")))
	// int-sized entry points: only where the 32-bit and the 64-bit answer coincide
	add(sc(mk("strconv.Atoi", "strconv", []*dom{p4}, "v, err := strconv.Atoi(a0)\nrI(int64(v))\nrNE(err)")).decls(sameInt).guard("sameInt(a0, 10)"))
	add(sc(mk("strconv.Atoi/texts", "strconv", []*dom{intTexts}, "v, err := strconv.Atoi(a0)\nrI(int64(v))\nrNE(err)")).decls(sameInt).guard("sameInt(a0, 10)"))
	add(sc(mk("strconv.ParseInt/bitSize0", "strconv", []*dom{intTexts, dPBase}, "v, err := strconv.ParseInt(a0, int(a1), 0)\nrI(v)\nrNE(err)")).decls(sameInt).guard("a1 >= 2 && a1 <= 36 && sameInt(a0, int(a1)) || a1 == 0 && sameInt(a0, 0)"))
	if thorough {
		p5 := dP14(5)
		add(sc(mk("strconv.ParseInt/len<=5", "strconv", []*dom{p5, ctl("pbase2", 0, 10)}, "v, err := strconv.ParseInt(a0, int(a1), 64)\nrI(v)\nrNE(err)")))
		add(sc(mk("strconv.ParseFloat/len<=5", "strconv", []*dom{p5}, "v, err := strconv.ParseFloat(a0, 64)\nrF(v)\nrNE(err)")))
	}
	boolTexts := unionStr("booltxt", dP14(2), []string{"1", "t", "T", "TRUE", "true", "True", "0", "f", "F", "FALSE", "false", "False", "tRUE", "truee", "tru", "fals", "falsE", "TRUE ", " true", "yes", "no", "on", "off", "01", "10", "Ｔ"})
	add(mk("strconv.ParseBool", "strconv", []*dom{boolTexts}, "v, err := strconv.ParseBool(a0)\nrB(v)\nrNE(err)\nrS(strconv.FormatBool(v))\nrY(strconv.AppendBool([]byte(\"x\"), v))").decls(rNEDecl))
	floatTexts := unionStr("flttxt", dP14(2), []string{
		"1e308", "1.7976931348623157e308", "1.7976931348623158e308", "1.797693134862315807e308", "1.797693134862315808e308", "1.7976931348623159e308", "1e309", "-1e309", "2e308",
		"4.9e-324", "5e-324", "2.4703282292062327e-324", "2.4703282292062328e-324", "2.47e-324", "1e-323", "1e-400", "-1e-400", "2.2250738585072014e-308", "2.2250738585072011e-308", "2.225073858507201e-308",
		"0x1p-2", "0x1.8p1", "0x1.fffffffffffffp1023", "0x1.fffffffffffff8p1023", "0x1p1024", "0x1p-1074", "0x1p-1075", "0x.8p-1074", "0x1.p0", "0x1p", "0x1", "0xp1", "0x_1p1", "0X1P+3", "-0x1p-1",
		"inf", "Inf", "+Inf", "-inf", "infinity", "Infinity", "+INFINITY", "infinit", "nan", "NaN", "NAN", "+nan", "-NaN", "nann",
		"1_0.5", "1_000.5", "1._5", "1e1_0", "_1.5", "1.5_", "1e", "1e+", "1e-", "e1", ".e1", "1.e1", ".5", "5.", ".", "+.", "-.5", "+5.", "1e23", "8.41e21", "9007199254740993", "9007199254740992.5", "9007199254740991.5",
		"1.00000000000000011102230246251565404236316680908203125", "1.00000000000000011102230246251565404236316680908203124", "1.00000000000000011102230246251565404236316680908203126",
		"0.1", "0.3", "100000000000000016777215", "100000000000000016777216", "1e22", "1e23", "1e-22", "123456789012345678901234567890", "0.000000000000000000000000000001234", "1.5e+10", "1E5", "1e0000000000000000000001", "1e-0000000000000000000001", "0e999999999", "0e-999999999", "1e999999999", "1e-999999999",
		"3.4028234663852886e38", "3.4028235677973366e38", "3.4028235677973367e38", "3.5e38", "1.401298464324817e-45", "7.006492321624085e-46", "7.006492321624086e-46", "1.1754943508222875e-38", "16777217", "16777216.5", "33554433", "0.1e1", "1.0000001", "1.00000017881393432617187499", "1.000000178813934326171875", "1.00000017881393432617187501",
		"1p1", "1.5p-1", "０", "1,5", "1 ", " 1", "+1", "++1", "1e1e1", "1.2.3", "0x", "0x.p1", "infx", "i", "in", "n", "na",
	})
	add(sc(mk("strconv.ParseFloat/len<=4", "strconv", []*dom{p4, ctl("fbits", 64, 32)}, "v, err := strconv.ParseFloat(a0, int(a1))\nrF(v)\nrNE(err)")))
	add(sc(mk("strconv.ParseFloat/texts", "strconv", []*dom{floatTexts, ctl("fbits", 64, 32)}, "v, err := strconv.ParseFloat(a0, int(a1))\nrF(v)\nrNE(err)")))
	dFlt := litExpr("flt", "float64", []string{
		"0.0", "math.Copysign(0, -1)", "1.0", "-1.0", "0.5", "1.5", "2.5", "0.1", "0.2", "0.3", "1.0 / 3.0", "2.0 / 3.0", "10.0", "100.0", "1000.0", "123456.0", "1234567.0", "12345678.0", "123456789.0",
		"1e20", "1e21", "1e22", "1e23", "1e-4", "1e-5", "1e-6", "1e-7", "0.000123456", "0.00001234", "99999.5", "999999.5", "9999999.5", "0.95", "0.995", "9.5", "9.995", "0.05", "0.25", "0.125",
		"5e-324", "1e-323", "2.2250738585072014e-308", "2.225073858507201e-308", "1.7976931348623157e308", "8.98846567431158e307", "4.9406564584124654e-324", "1e308", "1e-308", "1e100", "1e-100",
		"9007199254740991.0", "9007199254740992.0", "9007199254740993.0", "4503599627370496.5", "1e15", "1e16", "1e17", "123456789012345680.0", "16777216.0", "16777217.0", "3.4028234663852886e38", "1.401298464324817e-45", "1.1754943508222875e-38",
		"8.41e21", "5e-324 * 3", "math.Pi", "math.E", "-math.Pi", "2147483647.0", "4294967296.0", "9223372036854775807.0", "18446744073709551615.0", "255.9", "0.3 + 0.6", "1.0000000000000002", "0.9999999999999999",
		"math.Inf(1)", "math.Inf(-1)", "math.NaN()",
	}, false)
	dFmt := ctl("fmt", 'e', 'E', 'f', 'g', 'G', 'b', 'x', 'X')
	dPrec := ctl("prec", -1, 0, 1, 2, 6, 17, 20)
	add(mk("strconv.FormatFloat", "strconv", []*dom{dFlt, dFmt, dPrec, ctl("fbits", 64, 32)}, "rS(strconv.FormatFloat(a0, byte(a1), int(a2), int(a3)))"))
	add(mk("strconv.AppendFloat", "strconv", []*dom{dFlt, ctl("fmt3", 'e', 'f', 'g'), ctl("prec3", -1, 3)}, "rY(strconv.AppendFloat([]byte(\"x\"), a0, byte(a1), int(a2), 64))"))
	add(sc(mk("strconv.FormatFloat+ParseFloat/roundtrip64", "strconv", []*dom{rng("f64bits", 2047*16*2, "float64", "mkF64(%s)")},
		"s := strconv.FormatFloat(a0, 'g', -1, 64)\nrS(s)\nv, err := strconv.ParseFloat(s, 64)\nrF(v)\nrNE(err)\nrB(v == a0)\nrS(strconv.FormatFloat(a0, 'e', -1, 64))\nrS(strconv.FormatFloat(a0, 'e', 5, 64))")).decls(mkFDecl).weight(4))
	add(sc(mk("strconv.FormatFloat+ParseFloat/roundtrip32", "strconv", []*dom{rng("f32bits", 255*16*2, "float64", "float64(mkF32(%s))")},
		"s := strconv.FormatFloat(a0, 'g', -1, 32)\nrS(s)\nv, err := strconv.ParseFloat(s, 32)\nrF(v)\nrNE(err)\nrB(v == a0)\nrS(strconv.FormatFloat(a0, 'f', -1, 32))")).decls(mkFDecl).weight(4))
	add(mk("strconv.Quote", "strconv", []*dom{dS1}, "rS(strconv.Quote(a0))\nrS(strconv.QuoteToASCII(a0))\nrS(strconv.QuoteToGraphic(a0))\nrB(strconv.CanBackquote(a0))\nrY(strconv.AppendQuote([]byte(\"x\"), a0))"))
	add(sc(mk("strconv.Quote/bytes", "strconv", []*dom{dU8}, "q := strconv.Quote(a0)\nrS(q)\nu, err := strconv.Unquote(q)\nrS(u)\nrNE(err)\nrS(strconv.QuoteToASCII(a0))")))
	quoteTexts := unionStr("qtxt", p4, []string{
		`"\x41"`, `"\x4"`, `"\xzz"`, `"é"`, `"\u00e"`, `"\U0010ffff"`, `"\U00110000"`, `"\ud800"`, `"\377"`, `"\400"`, `"\37"`, `"\08"`, `"\a\b\f\n\r\t\v\\\""`, `"\'"`, `'\''`, `'\"'`, `'"'`, `"'"`,
		"`raw`", "`ra\\w`", "`a`b`", "`\r`", "``", "`", `""`, `"`, `'a'`, `'ab'`, `''`, `'é'`, `'\xff'`, `'é'`, "'\xff'", "\"\xff\"", `"a\"`, `"a\`, `"a` + "\n" + `b"`, `"é"`, `"日本"`, `'日'`, `"\q"`, `"abc"x`, `x"abc"`, `"a"b"`,
	})
	add(sc(mk("strconv.Unquote", "strconv", []*dom{quoteTexts}, "u, err := strconv.Unquote(a0)\nrS(u)\nrNE(err)\np, err2 := strconv.QuotedPrefix(a0)\nrS(p)\nrNE(err2)")))
	add(sc(mk("strconv.UnquoteChar", "strconv", []*dom{quoteTexts, ctl("quote", '"', '\'', 0)}, "v, mb, tl, err := strconv.UnquoteChar(a0, byte(a1))\nrI(int64(v))\nrB(mb)\nrS(tl)\nrNE(err)")))
	nRunes := int64(0x30000)
	if thorough {
		nRunes = 0x110100
	}
	add(mk("strconv.IsPrint", "strconv", []*dom{rng("runes", nRunes, "int64", "int64(%s)")}, "rB(strconv.IsPrint(rune(a0)))\nrB(strconv.IsGraphic(rune(a0)))"))
	add(mk("strconv.IsPrint/high", "strconv", []*dom{rng("runeshi", 0x110100-0xe0000, "int64", "int64(%s) + 0xe0000")}, "rB(strconv.IsPrint(rune(a0)))\nrB(strconv.IsGraphic(rune(a0)))"))
	add(mk("strconv.QuoteRune", "strconv", []*dom{rng("runesq", 0x3100, "int64", "int64(%s)")}, "rS(strconv.QuoteRune(rune(a0)))\nrS(strconv.QuoteRuneToASCII(rune(a0)))\nrS(strconv.QuoteRuneToGraphic(rune(a0)))").weight(2))
	add(mk("strconv.QuoteRune/boundary", "strconv", []*dom{dRunesB}, "rS(strconv.QuoteRune(rune(a0)))\nrS(strconv.QuoteRuneToASCII(rune(a0)))\nrS(strconv.QuoteRuneToGraphic(rune(a0)))\nrY(strconv.AppendQuoteRune([]byte(\"x\"), rune(a0)))"))

	// ---------------------------------------------------------------- unicode/utf8, utf16
	add(mk("utf8.DecodeRune", "unicode/utf8", []*dom{dU8}, `
r, n := utf8.DecodeRuneInString(a0)
rI(int64(r))
rI(int64(n))
r, n = utf8.DecodeRune([]byte(a0))
rI(int64(r))
rI(int64(n))
r, n = utf8.DecodeLastRuneInString(a0)
rI(int64(r))
rI(int64(n))
r, n = utf8.DecodeLastRune([]byte(a0))
rI(int64(r))
rI(int64(n))`))
	add(mk("utf8.Valid", "unicode/utf8", []*dom{dU8}, `
rB(utf8.ValidString(a0))
rB(utf8.Valid([]byte(a0)))
rB(utf8.FullRuneInString(a0))
rB(utf8.FullRune([]byte(a0)))
rI(int64(utf8.RuneCountInString(a0)))
rI(int64(utf8.RuneCount([]byte(a0))))`))
	add(mk("utf8.EncodeRune", "unicode/utf8", []*dom{dRunesB}, `
rI(int64(utf8.RuneLen(rune(a0))))
rB(utf8.ValidRune(rune(a0)))
buf := make([]byte, 4)
n := utf8.EncodeRune(buf, rune(a0))
rY(buf[:n])
rY(utf8.AppendRune([]byte("x"), rune(a0)))`))
	add(mk("utf8.EncodeRune/all", "unicode/utf8", []*dom{rng("runes8", nRunes, "int64", "int64(%s)")}, `
buf := make([]byte, 4)
n := utf8.EncodeRune(buf, rune(a0))
rY(buf[:n])
r, m := utf8.DecodeRune(buf[:n])
rI(int64(r))
rI(int64(m))
rI(int64(utf8.RuneLen(rune(a0))))`))
	add(mk("utf8.RuneStart", "unicode/utf8", []*dom{rng("byte256", 256, "int64", "int64(%s)")}, "rB(utf8.RuneStart(byte(a0)))"))
	add(mk("utf16.EncodeRune", "unicode/utf16", []*dom{dRunesB}, `
r1, r2 := utf16.EncodeRune(rune(a0))
rI(int64(r1))
rI(int64(r2))
rB(utf16.IsSurrogate(rune(a0)))
rI(int64(utf16.RuneLen(rune(a0))))
u := utf16.AppendRune([]uint16{7}, rune(a0))
rI(int64(len(u)))
for _, x := range u {
	rI(int64(x))
}`))
	add(mk("utf16.DecodeRune", "unicode/utf16", []*dom{dRunesB, dRunesB}, "rI(int64(utf16.DecodeRune(rune(a0), rune(a1))))"))
	add(mk("utf16.EncodeRune/all", "unicode/utf16", []*dom{rng("runes16", nRunes, "int64", "int64(%s)")}, `
r1, r2 := utf16.EncodeRune(rune(a0))
rI(int64(r1))
rI(int64(r2))
rI(int64(utf16.DecodeRune(r1, r2)))
rB(utf16.IsSurrogate(rune(a0)))`))
	seqLen := int64(3)
	if thorough {
		seqLen = 4
	}
	seqSize := func(k, n int64) int64 {
		var t, p int64 = 0, 1
		for l := int64(0); l <= n; l++ {
			t += p
			p *= k
		}
		return t
	}
	add(mk("utf16.Encode", "unicode/utf16", []*dom{rng("seq16e", seqSize(8, seqLen), "int64", "int64(%s)")}, `
al := []rune{0x41, 0xd7ff, 0xd800, 0xdfff, 0xffff, 0x10000, 0x10ffff, 0x110000}
ds := seqDigits(a0, 8)
in := make([]rune, len(ds))
for i, d := range ds {
	in[i] = al[d]
}
u := utf16.Encode(in)
rI(int64(len(u)))
for _, x := range u {
	rI(int64(x))
}`).decls(seqDecl))
	add(mk("utf16.Decode", "unicode/utf16", []*dom{rng("seq16d", seqSize(8, seqLen), "int64", "int64(%s)")}, `
al := []uint16{0x41, 0xd7ff, 0xd800, 0xdbff, 0xdc00, 0xdfff, 0xe000, 0xffff}
ds := seqDigits(a0, 8)
in := make([]uint16, len(ds))
for i, d := range ds {
	in[i] = al[d]
}
rs := utf16.Decode(in)
rI(int64(len(rs)))
for _, x := range rs {
	rI(int64(x))
}`).decls(seqDecl))

	// ---------------------------------------------------------------- math/bits
	d16 := rng("all16", 65536, "uint64", "uint64(%s)")
	d8 := rng("all8", 256, "uint64", "uint64(%s)")
	add(mk("bits.16bit", "math/bits", []*dom{d16}, `
x := uint16(a0)
rI(int64(bits.LeadingZeros16(x)))
rI(int64(bits.TrailingZeros16(x)))
rI(int64(bits.OnesCount16(x)))
rI(int64(bits.Len16(x)))
rU(uint64(bits.Reverse16(x)))
rU(uint64(bits.ReverseBytes16(x)))`))
	dRot := ctl("rot", -65, -64, -33, -32, -17, -16, -9, -8, -1, 0, 1, 7, 8, 9, 15, 16, 17, 31, 32, 33, 63, 64, 65)
	add(mk("bits.RotateLeft16", "math/bits", []*dom{d16, dRot}, "rU(uint64(bits.RotateLeft16(uint16(a0), int(a1))))"))
	add(mk("bits.8bit", "math/bits", []*dom{d8, dRot}, `
x := uint8(a0)
rI(int64(bits.LeadingZeros8(x)))
rI(int64(bits.TrailingZeros8(x)))
rI(int64(bits.OnesCount8(x)))
rI(int64(bits.Len8(x)))
rU(uint64(bits.Reverse8(x)))
rU(uint64(bits.RotateLeft8(x, int(a1))))`))
	dB64 := litUint("b64", bitAlphabet(64), false)
	dB32 := litUint("b32", bitAlphabet(32), false)
	add(mk("bits.64bit", "math/bits", []*dom{dB64, dRot}, `
rI(int64(bits.LeadingZeros64(a0)))
rI(int64(bits.TrailingZeros64(a0)))
rI(int64(bits.OnesCount64(a0)))
rI(int64(bits.Len64(a0)))
rU(bits.Reverse64(a0))
rU(bits.ReverseBytes64(a0))
rU(bits.RotateLeft64(a0, int(a1)))`))
	add(mk("bits.32bit", "math/bits", []*dom{dB32, dRot}, `
x := uint32(a0)
rI(int64(bits.LeadingZeros32(x)))
rI(int64(bits.TrailingZeros32(x)))
rI(int64(bits.OnesCount32(x)))
rI(int64(bits.Len32(x)))
rU(uint64(bits.Reverse32(x)))
rU(uint64(bits.ReverseBytes32(x)))
rU(uint64(bits.RotateLeft32(x, int(a1))))`))
	dCarry := ctl("carry", 0, 1)
	add(mk("bits.Add64", "math/bits", []*dom{dB64, dB64, dCarry}, "s, c := bits.Add64(a0, a1, uint64(a2))\nrU(s)\nrU(c)\nd, b := bits.Sub64(a0, a1, uint64(a2))\nrU(d)\nrU(b)"))
	add(mk("bits.Add32", "math/bits", []*dom{dB32, dB32, dCarry}, "s, c := bits.Add32(uint32(a0), uint32(a1), uint32(a2))\nrU(uint64(s))\nrU(uint64(c))\nd, b := bits.Sub32(uint32(a0), uint32(a1), uint32(a2))\nrU(uint64(d))\nrU(uint64(b))"))
	add(mk("bits.Mul64", "math/bits", []*dom{dB64, dB64}, "hi, lo := bits.Mul64(a0, a1)\nrU(hi)\nrU(lo)"))
	add(mk("bits.Mul32", "math/bits", []*dom{dB32, dB32}, "hi, lo := bits.Mul32(uint32(a0), uint32(a1))\nrU(uint64(hi))\nrU(uint64(lo))"))
	dB64s := litUint("b64s", func() []uint64 {
		var o []uint64
		for i, v := range bitAlphabet(64) {
			if i%5 == 0 || v < 4 || v > 1<<64-4 {
				o = append(o, v)
			}
		}
		return o
	}(), false)
	dB32s := litUint("b32s", func() []uint64 {
		var o []uint64
		for i, v := range bitAlphabet(32) {
			if i%3 == 0 || v < 4 || v > 1<<32-4 {
				o = append(o, v)
			}
		}
		return o
	}(), false)
	add(mk("bits.Div64", "math/bits", []*dom{dB64s, dB64s, dB64s}, "q, r := bits.Div64(a0, a1, a2)\nrU(q)\nrU(r)").guard("a2 != 0 && a0 < a2"))
	add(mk("bits.Rem64", "math/bits", []*dom{dB64s, dB64s, dB64s}, "rU(bits.Rem64(a0, a1, a2))").guard("a2 != 0"))
	add(mk("bits.Div32", "math/bits", []*dom{dB32s, dB32s, dB32s}, "q, r := bits.Div32(uint32(a0), uint32(a1), uint32(a2))\nrU(uint64(q))\nrU(uint64(r))\nrU(uint64(bits.Rem32(uint32(a0), uint32(a1), uint32(a2))))").guard("a2 != 0 && a0 < a2"))

	// ---------------------------------------------------------------- encoding/*
	dB4 := genStrs("b4", []string{"\x00", "A", "\xfb", "\xff"}, 3) // 85
	dB2 := genStrs("b2", []string{"\x00", "\xff"}, 7)              // 255
	dEnc64 := ctl("enc64", 0, 1, 2, 3, 4)
	b64enc := "e := b64(a1)\nrS(e.EncodeToString([]byte(a0)))\nrI(int64(e.EncodedLen(len(a0))))\nrI(int64(e.DecodedLen(len(a0))))\ndst := make([]byte, e.EncodedLen(len(a0)))\ne.Encode(dst, []byte(a0))\nrY(dst)\nback, err := e.DecodeString(string(dst))\nrY(back)\nrE(err)"
	add(mk("base64.Encode", "encoding/base64", []*dom{dB4, dEnc64}, b64enc).decls(encDecl))
	add(mk("base64.Encode/long", "encoding/base64", []*dom{dB2, dEnc64}, b64enc).decls(encDecl))
	d64len := 4
	if thorough {
		d64len = 6
	}
	dD64 := genStrs(fmt.Sprintf("d64_%d", d64len), []string{"A", "Q", "/", "+", "-", "_", "=", "\n", "!"}, d64len)
	add(mk("base64.Decode", "encoding/base64", []*dom{dD64, dEnc64}, "e := b64(a1)\nb, err := e.DecodeString(a0)\nrY(b)\nrE(err)\ndst := make([]byte, e.DecodedLen(len(a0))+4)\nn, err2 := e.Decode(dst, []byte(a0))\nrI(int64(n))\nrE(err2)\nif n >= 0 && n <= len(dst) {\n\trY(dst[:n])\n}").decls(encDecl))
	dD64b := genStrs("d64b", []string{"A", "/", "="}, 8) // 9841: whole quanta with padding in every position
	add(mk("base64.Decode/quanta", "encoding/base64", []*dom{dD64b, dEnc64}, "e := b64(a1)\nb, err := e.DecodeString(a0)\nrY(b)\nrE(err)").decls(encDecl))
	dEnc32 := ctl("enc32", 0, 1)
	b32enc := "e := b32(a1)\nrS(e.EncodeToString([]byte(a0)))\nrI(int64(e.EncodedLen(len(a0))))\nrI(int64(e.DecodedLen(len(a0))))\ndst := make([]byte, e.EncodedLen(len(a0)))\ne.Encode(dst, []byte(a0))\nrY(dst)\nback, err := e.DecodeString(string(dst))\nrY(back)\nrE(err)"
	add(mk("base32.Encode", "encoding/base32", []*dom{dB4, dEnc32}, b32enc).decls(enc32Decl))
	add(mk("base32.Encode/long", "encoding/base32", []*dom{dB2, dEnc32}, b32enc).decls(enc32Decl))
	add(mk("base32.Decode", "encoding/base32", []*dom{genStrs("d32", []string{"A", "7", "=", "!", "\n"}, 4), dEnc32}, "e := b32(a1)\nb, err := e.DecodeString(a0)\nrY(b)\nrE(err)").decls(enc32Decl))
	add(mk("base32.Decode/quanta", "encoding/base32", []*dom{genStrs("d32b", []string{"A", "7", "="}, 8), dEnc32}, "e := b32(a1)\nb, err := e.DecodeString(a0)\nrY(b)\nrE(err)").decls(enc32Decl))
	add(mk("hex.Encode", "encoding/hex", []*dom{dB4}, "rS(hex.EncodeToString([]byte(a0)))\ndst := make([]byte, hex.EncodedLen(len(a0)))\nrI(int64(hex.Encode(dst, []byte(a0))))\nrY(dst)\nrS(hex.Dump([]byte(a0)))"))
	add(mk("hex.Decode", "encoding/hex", []*dom{genStrs("dhex", []string{"0", "9", "a", "F", "g", " "}, 4)}, "b, err := hex.DecodeString(a0)\nrY(b)\nrE(err)\nrB(err == hex.ErrLength)\ndst := make([]byte, hex.DecodedLen(len(a0))+1)\nn, err2 := hex.Decode(dst, []byte(a0))\nrI(int64(n))\nrE(err2)\nrB(err2 == hex.ErrLength)"))
	// the error texts (they carry the offset / the offending byte), on a handful of inputs
	add(mk("base64.CorruptInputError.Error", "encoding/base64", []*dom{litStr("e64", []string{"A", "AA=A", "!AAA", "AAA!", "AAAAAAA=A", "A=AA"}, false)}, "_, err := base64.StdEncoding.DecodeString(a0)\nrEs(err)"))
	add(mk("base32.CorruptInputError.Error", "encoding/base32", []*dom{litStr("e32", []string{"A", "AAAAAAA!", "!AAAAAAA", "AA======A", "A======="}, false)}, "_, err := base32.StdEncoding.DecodeString(a0)\nrEs(err)"))
	add(mk("hex.InvalidByteError.Error", "encoding/hex", []*dom{litStr("ehex", []string{"g", "0g", "0", "\xff0", "000"}, false)}, "_, err := hex.DecodeString(a0)\nrEs(err)"))
	add(mk("hex.Dump", "encoding/hex", []*dom{rng("len48", 49, "int64", "int64(%s)"), ctl("pat23", 2, 3)}, "rS(hex.Dump(mkData(a0, a1)))").decls(dataDecl).weight(8))
	add(mk("binary.ByteOrder", "encoding/binary", []*dom{dB64}, `
b := make([]byte, 8)
binary.BigEndian.PutUint64(b, a0)
rY(b)
rU(binary.BigEndian.Uint64(b))
rU(binary.LittleEndian.Uint64(b))
rU(uint64(binary.BigEndian.Uint32(b)))
rU(uint64(binary.LittleEndian.Uint32(b[3:])))
rU(uint64(binary.BigEndian.Uint16(b[5:])))
rU(uint64(binary.LittleEndian.Uint16(b)))
binary.LittleEndian.PutUint64(b, a0)
rY(b)
binary.BigEndian.PutUint32(b, uint32(a0))
binary.LittleEndian.PutUint32(b[4:], uint32(a0))
rY(b)
binary.BigEndian.PutUint16(b, uint16(a0))
binary.LittleEndian.PutUint16(b[2:], uint16(a0))
rY(b)
rY(binary.BigEndian.AppendUint64([]byte("x"), a0))
rY(binary.LittleEndian.AppendUint64([]byte("x"), a0))
rY(binary.BigEndian.AppendUint32([]byte("x"), uint32(a0)))
rY(binary.LittleEndian.AppendUint32([]byte("x"), uint32(a0)))
rY(binary.BigEndian.AppendUint16([]byte("x"), uint16(a0)))
rY(binary.LittleEndian.AppendUint16([]byte("x"), uint16(a0)))`))
	add(mk("binary.PutUvarint", "encoding/binary", []*dom{dB64}, `
b := make([]byte, 10)
n := binary.PutUvarint(b, a0)
rY(b[:n])
v, k := binary.Uvarint(b[:n])
rU(v)
rI(int64(k))
v, k = binary.Uvarint(b[:n-1])
rU(v)
rI(int64(k))
rY(binary.AppendUvarint([]byte("x"), a0))
n = binary.PutVarint(b, int64(a0))
rY(b[:n])
w, k2 := binary.Varint(b[:n])
rI(w)
rI(int64(k2))
rY(binary.AppendVarint([]byte("x"), int64(a0)))`))
	dVar := unionStr("varint", genStrs("v5", []string{"\x00", "\x01", "\x7f", "\x80", "\xff"}, 4), []string{
		"\xff\xff\xff\xff\xff\xff\xff\xff\xff\x01", "\xff\xff\xff\xff\xff\xff\xff\xff\xff\x02", "\xff\xff\xff\xff\xff\xff\xff\xff\xff\x7f", "\x80\x80\x80\x80\x80\x80\x80\x80\x80\x01", "\x80\x80\x80\x80\x80\x80\x80\x80\x80\x00",
		"\xff\xff\xff\xff\xff\xff\xff\xff\xff\xff\x01", "\x80\x80\x80\x80\x80\x80\x80\x80\x80\x80\x00", "\xff\xff\xff\xff\xff\xff\xff\xff\x7f", "\xff\xff\xff\xff\xff\xff\xff\xff\xff", "\x80\x80\x80\x80\x80\x80\x80\x80\x80\x80\x80\x80", "\xfe\xff\xff\xff\xff\xff\xff\xff\xff\x01",
	})
	add(mk("binary.Uvarint", "encoding/binary", []*dom{dVar}, "v, k := binary.Uvarint([]byte(a0))\nrU(v)\nrI(int64(k))\nw, k2 := binary.Varint([]byte(a0))\nrI(w)\nrI(int64(k2))"))

	// ---------------------------------------------------------------- hashes
	maxLen := int64(131)
	dLen := rng("len131", maxLen, "int64", "int64(%s)")
	dPat := ctl("pat", 0, 1, 2)
	add(mk("crc32.Checksum", "hash/crc32", []*dom{dLen, dPat}, `
d := mkData(a0, a1)
rU(uint64(crc32.ChecksumIEEE(d)))
rU(uint64(crc32.Checksum(d, crc32.MakeTable(crc32.Castagnoli))))
rU(uint64(crc32.Checksum(d, crc32.MakeTable(crc32.Koopman))))
rU(uint64(crc32.Checksum(d, crc32.IEEETable)))
hh := crc32.NewIEEE()
_, _ = hh.Write(d)
rU(uint64(hh.Sum32()))
rY(hh.Sum([]byte("x")))
rI(int64(hh.Size()))`).decls(dataDecl).weight(8))
	add(mk("crc32.Update/split", "hash/crc32", []*dom{rng("len41", 41, "int64", "int64(%s)"), rng("split41", 41, "int64", "int64(%s)"), ctl("pat2", 2)}, `
d := mkData(a0, a2)
tab := crc32.MakeTable(crc32.Castagnoli)
c := crc32.Update(0, tab, d[:int(a1)])
rU(uint64(crc32.Update(c, tab, d[int(a1):])))
c = crc32.Update(0, crc32.IEEETable, d[:int(a1)])
rU(uint64(crc32.Update(c, crc32.IEEETable, d[int(a1):])))
hh := crc32.New(tab)
_, _ = hh.Write(d[:int(a1)])
_, _ = hh.Write(d[int(a1):])
rU(uint64(hh.Sum32()))
hh.Reset()
_, _ = hh.Write(d[int(a1):])
rU(uint64(hh.Sum32()))`).decls(dataDecl).guard("a1 <= a0").weight(8))
	add(mk("adler32.Checksum", "hash/adler32", []*dom{dLen, dPat}, `
d := mkData(a0, a1)
rU(uint64(adler32.Checksum(d)))
hh := adler32.New()
_, _ = hh.Write(d[:len(d)/2])
_, _ = hh.Write(d[len(d)/2:])
rU(uint64(hh.Sum32()))
rY(hh.Sum([]byte("x")))`).decls(dataDecl).weight(8))
	add(mk("adler32.Checksum/long", "hash/adler32", []*dom{ctl("longlen", 5551, 5552, 5553, 5554, 11104, 11105, 65535, 65536, 70000), ctl("pat12", 1, 2)}, "rU(uint64(adler32.Checksum(mkData(a0, a1))))\nrU(uint64(crc32.ChecksumIEEE(mkData(a0, a1))))").decls(dataDecl).imports("hash/crc32").weight(4000))
	add(mk("fnv", "hash/fnv", []*dom{dLen, dPat}, `
d := mkData(a0, a1)
h1 := fnv.New32()
_, _ = h1.Write(d)
rU(uint64(h1.Sum32()))
rY(h1.Sum([]byte("x")))
h2 := fnv.New32a()
_, _ = h2.Write(d[:len(d)/2])
_, _ = h2.Write(d[len(d)/2:])
rU(uint64(h2.Sum32()))
h3 := fnv.New64()
_, _ = h3.Write(d)
rU(h3.Sum64())
rY(h3.Sum(nil))
h4 := fnv.New64a()
_, _ = h4.Write(d)
rU(h4.Sum64())
h4.Reset()
rU(h4.Sum64())`).decls(dataDecl).weight(8))
	add(mk("hashes/short", "hash/crc32,hash/adler32,hash/fnv,crypto/md5", []*dom{dB4}, `
d := []byte(a0)
rU(uint64(crc32.ChecksumIEEE(d)))
rU(uint64(adler32.Checksum(d)))
h2 := fnv.New32a()
_, _ = h2.Write(d)
rU(uint64(h2.Sum32()))
m := md5.New()
_, _ = m.Write(d)
rY(m.Sum(nil))`).weight(8))
	add(mk("md5", "crypto/md5", []*dom{dLen, dPat}, `
d := mkData(a0, a1)
m := md5.New()
_, _ = m.Write(d)
rY(m.Sum(nil))
rY(m.Sum([]byte("x")))
rI(int64(m.Size()))
rI(int64(m.BlockSize()))
m.Reset()
rY(m.Sum(nil))`).decls(dataDecl).weight(40))
	add(mk("md5/split", "crypto/md5", []*dom{dLen, rng("split131", maxLen, "int64", "int64(%s)")}, `
d := mkData(a0, 2)
m := md5.New()
_, _ = m.Write(d[:int(a1)])
s1 := m.Sum(nil)
_, _ = m.Write(d[int(a1):])
rY(s1)
rY(m.Sum(nil))`).decls(dataDecl).guard("a1 <= a0").weight(40))

	sortBody := `
ds := seqDigits(a0, KK)
a := make([]int, len(ds))
for i, d := range ds {
	a[i] = d*3 - 2
}
rB(sort.IntsAreSorted(a))
sort.Ints(a)
for _, x := range a {
	rI(int64(x))
}
rB(sort.IntsAreSorted(a))
rI(int64(sort.SearchInts(a, 1)))
rI(int64(sort.SearchInts(a, 2)))
r := mkRecs(ds)
sort.Stable(r)
for i := range r.k {
	rI(int64(r.k[i]))
	rI(int64(r.o[i]))
}
r = mkRecs(ds)
sort.Sort(r)
for i := range r.k {
	rI(int64(r.k[i]))
}
rB(sort.IsSorted(r))
r = mkRecs(ds)
sort.Stable(sort.Reverse(r))
for i := range r.k {
	rI(int64(r.k[i]))
	rI(int64(r.o[i]))
}
ss := make([]string, len(ds))
al := []string{"", "a", "ab", "b", "é", "\xff"}
for i, d := range ds {
	ss[i] = al[d]
}
sort.Strings(ss)
for _, x := range ss {
	rS(x)
}
rB(sort.StringsAreSorted(ss))
rI(int64(sort.SearchStrings(ss, "ab")))
fl := []float64{math.NaN(), math.Inf(-1), -1.5, 0, 2.5, math.Inf(1)}
fs := make([]float64, len(ds))
for i, d := range ds {
	fs[i] = fl[d]
}
sort.Float64s(fs)
for _, x := range fs {
	rF(x)
}
rB(sort.Float64sAreSorted(fs))`
	sortLen := int64(5)
	if thorough {
		sortLen = 6
	}
	add(mk("sort/len<=n", "sort", []*dom{rng("sortseq", seqSize(6, sortLen), "int64", "int64(%s)")}, strings.ReplaceAll(sortBody, "KK", "6")).decls(seqDecl).decls(sortDecl).weight(40))
	// longer inputs leave the insertion-sort range of the implementation (n > 12): all 0/1/2 sequences
	// cannot be afforded, all 0/1 sequences of length 13..14 (quick) / ..16 (thorough) can
	longSort := `
n := int(a1)
a := make([]int, n)
r := &recs{k: make([]int32, n), o: make([]int32, n)}
for i := 0; i < n; i++ {
	b := int((a0 >> uint(i)) & 1)
	a[i] = b
	r.k[i] = int32(b)
	r.o[i] = int32(i)
}
sort.Ints(a)
for _, x := range a {
	rI(int64(x))
}
sort.Stable(r)
for i := range r.k {
	rI(int64(r.k[i]))
	rI(int64(r.o[i]))
}`
	add(mk("sort/01-len13", "sort", []*dom{rng("bits13", 1<<13, "int64", "int64(%s)"), ctl("n13", 13)}, longSort).decls(sortDecl).weight(60))
	if thorough {
		add(mk("sort/01-len16", "sort", []*dom{rng("bits16", 1<<16, "int64", "int64(%s)"), ctl("n16", 16)}, longSort).decls(sortDecl).weight(80))
	}
	// permutations of 13..40 distinct keys in fixed patterns (sawtooth, organ pipe, reversed, rotated) for the
	// quicksort/heapsort paths
	add(mk("sort/patterns", "sort", []*dom{rng("plen", 120, "int64", "int64(%s) + 2"), ctl("shape", 0, 1, 2, 3, 4, 5), ctl("modulus", 1, 2, 3, 5, 16)}, `
n := int(a0)
a := make([]int, n)
r := &recs{k: make([]int32, n), o: make([]int32, n)}
for i := 0; i < n; i++ {
	v := i
	if a1 == 1 {
		v = n - i
	} else if a1 == 2 {
		v = (i * 7) % n
	} else if a1 == 3 {
		if i < n/2 {
			v = i
		} else {
			v = n - i
		}
	} else if a1 == 4 {
		v = (i + n/3) % n
	} else if a1 == 5 {
		v = (i * i * 31 + 17) % (n + 1)
	}
	if a2 > 1 {
		v = v % int(a2)
	}
	a[i] = v
	r.k[i] = int32(v)
	r.o[i] = int32(i)
}
sort.Ints(a)
for _, x := range a {
	rI(int64(x))
}
sort.Stable(r)
for i := range r.k {
	rI(int64(r.k[i]))
	rI(int64(r.o[i]))
}
r2 := &recs{k: make([]int32, n), o: make([]int32, n)}
for i := 0; i < n; i++ {
	r2.k[i] = r.k[n-1-i]
	r2.o[i] = int32(i)
}
sort.Sort(r2)
for i := range r2.k {
	rI(int64(r2.k[i]))
}`).decls(sortDecl).weight(300))
	add(mk("sort.Search", "sort", []*dom{rng("slen", 9, "int64", "int64(%s)"), rng("sth", 11, "int64", "int64(%s) - 1")}, `
n := int(a0)
th := int(a1)
rI(int64(sort.Search(n, func(i int) bool { return i >= th })))
i, found := sort.Find(n, func(i int) int { return th - i*2 })
rI(int64(i))
rB(found)
fl := make([]float64, n)
for k := range fl {
	fl[k] = float64(k) * 1.5
}
rI(int64(sort.SearchFloat64s(fl, float64(th))))`))

	// ---------------------------------------------------------------- container/*
	add(containerFns(thorough)...)

	// ---------------------------------------------------------------- inputs on both sides of every size threshold
	add(thresholdFns(thorough)...)

	if !thorough {
		var q []*fn
		for _, f := range fs {
			if !f.Thorough {
				q = append(q, f)
			}
		}
		fs = q
	}
	seen := map[string]bool{}
	for _, f := range fs {
		if seen[f.Name] {
			panic("duplicate function name " + f.Name)
		}
		seen[f.Name] = true
	}
	return fs
}

// declarations shared by several generated functions (identical texts are emitted once per program)
// sequences are decoded from the index inside the body: length l = first l with idx < k^l (cumulative)
const seqDecl = `// seqDigits decodes sequence number idx (all sequences over k symbols by length, then lexicographic)
func seqDigits(idx int64, k int64) []int {
	l := 0
	p := int64(1)
	for idx >= p {
		idx -= p
		p *= k
		l++
	}
	d := make([]int, l)
	for i := l - 1; i >= 0; i-- {
		d[i] = int(idx % k)
		idx /= k
	}
	return d
}
`

// ---------------------------------------------------------------- sort
const sortDecl = `type recs struct {
	k ([]int32)
	o ([]int32)
}

func (r *recs) Len() int           { return len(r.k) }
func (r *recs) Less(i, j int) bool { return r.k[i] < r.k[j] }
func (r *recs) Swap(i, j int) {
	r.k[i], r.k[j] = r.k[j], r.k[i]
	r.o[i], r.o[j] = r.o[j], r.o[i]
}

func mkRecs(ds ([]int)) *recs {
	r := &recs{k: make([]int32, len(ds)), o: make([]int32, len(ds))}
	for i, d := range ds {
		r.k[i] = int32(d)
		r.o[i] = int32(i)
	}
	return r
}
`

const dataDecl = `func mkData(n int64, pat int64) []byte {
	b := make([]byte, int(n))
	for i := range b {
		if pat == 0 {
			b[i] = 0
		} else if pat == 1 {
			b[i] = 0xff
		} else if pat == 2 {
			b[i] = byte(i*7 + 3)
		} else {
			b[i] = byte(0x20 + i%0x60)
		}
	}
	return b
}
`

const encDecl = `func b64(k int64) *base64.Encoding {
	if k == 0 {
		return base64.StdEncoding
	}
	if k == 1 {
		return base64.URLEncoding
	}
	if k == 2 {
		return base64.RawStdEncoding
	}
	if k == 3 {
		return base64.RawURLEncoding
	}
	return base64.StdEncoding.Strict()
}
`

const enc32Decl = "func b32(k int64) *base32.Encoding {\n\tif k == 0 {\n\t\treturn base32.StdEncoding\n\t}\n\treturn base32.HexEncoding\n}\n"

const sameInt = "func sameInt(s string, base int) bool {\n\tx, e1 := strconv.ParseInt(s, base, 32)\n\ty, e2 := strconv.ParseInt(s, base, 64)\n\treturn x == y && (e1 == nil) == (e2 == nil)\n}\n"

const mkFDecl = `func mkF64(i int) float64 {
	mant := []uint64{0, 1, 2, 0x8000000000000, 0xfffffffffffff, 0xffffffffffffe, 0x5555555555555, 0xaaaaaaaaaaaaa, 0x0000000100000, 0x7ffffffffffff, 0x8000000000001, 0x123456789abcd, 0xc000000000000, 0x0000000000fff, 0xe147ae147ae14, 0x999999999999a}
	e := uint64(i % 2047)
	m := mant[(i/2047)%16]
	s := uint64(i / 2047 / 16)
	return math.Float64frombits(s<<63 | e<<52 | m)
}

func mkF32(i int) float32 {
	mant := []uint32{0, 1, 2, 0x400000, 0x7fffff, 0x7ffffe, 0x555555, 0x2aaaaa, 0x000100, 0x3fffff, 0x400001, 0x123456, 0x600000, 0x000fff, 0x4ccccd, 0x19999a}
	e := uint32(i % 255)
	m := mant[(i/255)%16]
	s := uint32(i / 255 / 16)
	return math.Float32frombits(s<<31 | e<<23 | m)
}
`
