//go:build go1.21

// C14: Wa standard-library ports agree with Go's standard library.
//
// Every function under test has a complete argument space: the product of small, stated domains
// (all strings of length <= n over an alphabet, boundary integers, all 65536 16-bit values, ...).
// A generated Go-syntax program enumerates a range of tuple indices itself (mixed radix: the
// first argument varies fastest), calls the function, and folds every result into a rolling hash
// that is printed per block of tuples. The identical source is run by Go (its standard library =
// the oracle) and by the real Wa pipeline (the ports under waroot/src). A block whose line
// differs, or in which Wa traps or does not return, is re-run verbosely (one line per tuple with
// arguments and results); every tuple whose line differs is reported under
// C14|package.Function|argument classes.
package main

import (
	"encoding/hex"
	"fmt"
	"math"
	"os"
	"sort"
	"strconv"
	"strings"
	"sync"
	"time"
	"unicode/utf8"

	"wa-lang.org/wa/internal/zzverif/hrun"
	"wa-lang.org/wa/internal/zzverif/mc"
)

// ---------------------------------------------------------------------------------------------
// domains and functions

type dom struct {
	Name   string // identifier suffix, unique
	Type   string // "string", "int64", "uint64", "float64", "bool", "int" (small values only)
	Size   int64
	Decl   string // top-level declarations
	Init   string // statements for initDoms()
	Elem   string // element expression, %s = index (type int)
	Lit    bool   // the value itself (not its class) goes into the violation key
	LenKey bool   // string domain: the byte length goes into the violation key (threshold sweeps)
}

type fn struct {
	Name     string // package.Function (+ variant)
	Imports  []string
	Doms     []*dom
	Decls    string // extra declarations; identical texts are emitted once per program
	Guard    string // optional condition over a0..: tuples where it is false are outside Go's domain
	Body     string // statements over a0.. folding results with r*()
	Thorough bool   // only in the thorough tier
	Weight   int    // relative cost of one tuple (default 1)
}

func (f *fn) total() int64 {
	t := int64(1)
	for _, d := range f.Doms {
		t *= d.Size
	}
	return t
}

const prelude = `
var h uint64
var verbose bool
var domsReady bool

const hexd = "0123456789abcdef"

func phex(s string) {
	for i := 0; i < len(s); i++ {
		c := int(s[i])
		print(hexd[c>>4 : c>>4+1])
		print(hexd[c&15 : c&15+1])
	}
}

func fold(x uint64) { h = h*1000003 + x }

func aS(s string) {
	if verbose {
		print(" s:")
		phex(s)
	}
}

func aI(x int64) {
	if verbose {
		print(" i:")
		print(x)
	}
}

func aU(x uint64) {
	if verbose {
		print(" u:")
		print(x)
	}
}

func aF(f float64) {
	if verbose {
		print(" f:")
		print(math.Float64bits(f))
	}
}

func aB(b bool) {
	if verbose {
		print(" b:")
		print(b)
	}
}

func rS(s string) {
	fold(uint64(len(s)))
	for i := 0; i < len(s); i++ {
		fold(uint64(s[i]))
	}
	if verbose {
		print(" s:")
		phex(s)
	}
}

func rY(b ([]byte)) { rS(string(b)) }

func rI(x int64) {
	fold(uint64(x))
	if verbose {
		print(" i:")
		print(x)
	}
}

func rU(x uint64) {
	fold(x)
	if verbose {
		print(" u:")
		print(x)
	}
}

func rF(f float64) {
	if f != f {
		fold(1)
		if verbose {
			print(" f:NaN")
		}
		return
	}
	fold(math.Float64bits(f))
	if verbose {
		print(" f:")
		print(math.Float64bits(f))
	}
}

func rB(b bool) {
	if b {
		fold(3)
	} else {
		fold(2)
	}
	if verbose {
		print(" b:")
		print(b)
	}
}

// rE: only whether an error was returned
func rE(err error) {
	if err != nil {
		fold(5)
		if verbose {
			print(" e:err")
		}
	} else {
		fold(4)
		if verbose {
			print(" e:nil")
		}
	}
}

// rEs: the error text as well
func rEs(err error) {
	if err != nil {
		fold(5)
		if verbose {
			print(" e:")
		}
		rS(err.Error())
	} else {
		fold(4)
		if verbose {
			print(" e:nil")
		}
	}
}

func rLS(l ([]string)) {
	rI(int64(len(l)))
	for _, s := range l {
		rS(s)
	}
}

func rLY(l ([][]byte)) {
	rI(int64(len(l)))
	for _, s := range l {
		rY(s)
	}
}
`

func showCall(d *dom, v string) string {
	switch d.Type {
	case "string":
		return "aS(" + v + ")"
	case "int64":
		return "aI(" + v + ")"
	case "int":
		return "aI(int64(" + v + "))"
	case "uint64":
		return "aU(" + v + ")"
	case "float64":
		return "aF(" + v + ")"
	case "bool":
		return "aB(" + v + ")"
	}
	panic("dom type " + d.Type)
}

type caseSpec struct {
	F       *fn
	Lo, Hi  int64
	Bl      int64
	Verbose bool
}

func (c caseSpec) nblocks() int { return int((c.Hi - c.Lo + c.Bl - 1) / c.Bl) }

func genSource(cases []caseSpec) string {
	imps := map[string]bool{"math": true}
	var fns []*fn
	fidx := map[*fn]int{}
	var doms []*dom
	dseen := map[*dom]bool{}
	declSeen := map[string]bool{}
	var decls strings.Builder
	for _, c := range cases {
		if _, ok := fidx[c.F]; ok {
			continue
		}
		fidx[c.F] = len(fns)
		fns = append(fns, c.F)
		for _, im := range c.F.Imports {
			imps[im] = true
		}
		for _, piece := range strings.Split(c.F.Decls, "\x00") {
			if piece != "" && !declSeen[piece] {
				declSeen[piece] = true
				decls.WriteString(piece)
				decls.WriteString("\n")
			}
		}
		for _, d := range c.F.Doms {
			if !dseen[d] {
				dseen[d] = true
				doms = append(doms, d)
			}
		}
	}
	var b strings.Builder
	b.WriteString("package main\n\n")
	var il []string
	for im := range imps {
		il = append(il, im)
	}
	sort.Strings(il)
	for _, im := range il {
		fmt.Fprintf(&b, "import %q\n", im)
	}
	b.WriteString(prelude)
	b.WriteString("\n")
	for _, d := range doms {
		for _, piece := range strings.Split(d.Decl, "\x00") {
			if piece != "" && !declSeen[piece] {
				declSeen[piece] = true
				b.WriteString(piece)
				b.WriteString("\n")
			}
		}
	}
	b.WriteString(decls.String())
	b.WriteString("func initDoms() {\n\tif domsReady {\n\t\treturn\n\t}\n\tdomsReady = true\n")
	initSeen := map[string]bool{}
	for _, d := range doms {
		for _, piece := range strings.Split(d.Init, "\x00") {
			if piece != "" && !initSeen[piece] {
				initSeen[piece] = true
				b.WriteString(piece)
			}
		}
	}
	b.WriteString("}\n\n")
	for k, f := range fns {
		fmt.Fprintf(&b, "// %s\nfunc F%d(lo int64, hi int64, bl int64) {\n\tinitDoms()\n\tcnt := int64(0)\n\tne := int64(0)\n\tfor t := lo; t < hi; t++ {\n\t\tq := t\n", f.Name, k)
		for i, d := range f.Doms {
			fmt.Fprintf(&b, "\t\ti%d := int(q %% %d)\n\t\tq = q / %d\n\t\ta%d := %s\n", i, d.Size, d.Size, i, fmt.Sprintf(d.Elem, fmt.Sprintf("i%d", i)))
		}
		b.WriteString("\t\t_ = q\n")
		guard := f.Guard
		if guard == "" {
			guard = "true"
		}
		fmt.Fprintf(&b, "\t\tif %s {\n\t\t\tne++\n\t\t\tif verbose {\n\t\t\t\tprint(\"T \")\n\t\t\t\tprint(t)\n\t\t\t}\n", guard)
		for i, d := range f.Doms {
			fmt.Fprintf(&b, "\t\t\t%s\n", showCall(d, fmt.Sprintf("a%d", i)))
		}
		b.WriteString("\t\t\tif verbose {\n\t\t\t\tprint(\" =>\")\n\t\t\t}\n")
		b.WriteString(f.Body)
		b.WriteString("\n\t\t\tif verbose {\n\t\t\t\tprint(\"\\n\")\n\t\t\t}\n\t\t}\n")
		b.WriteString("\t\tcnt++\n\t\tif cnt == bl || t+1 == hi {\n\t\t\tif !verbose {\n\t\t\t\tprintln(h, ne)\n\t\t\t}\n\t\t\th = 0\n\t\t\tcnt = 0\n\t\t\tne = 0\n\t\t}\n\t}\n}\n\n")
	}
	for i, c := range cases {
		fmt.Fprintf(&b, "func Case%d() {\n\tverbose = %v\n\th = 0\n\tF%d(%d, %d, %d)\n}\n\n", i, c.Verbose, fidx[c.F], c.Lo, c.Hi, c.Bl)
	}
	// no-op case: instantiates the module (and builds the domains) outside the per-case horizons
	fmt.Fprintf(&b, "func Case%d() {\n\tinitDoms()\n}\n", len(cases))
	return b.String()
}

// ---------------------------------------------------------------------------------------------
// running

type program struct {
	*hrun.Program
	cases []caseSpec
}

func newProgram(cases []caseSpec, horizon time.Duration) *program {
	return &program{Program: &hrun.Program{Src: genSource(cases), N: len(cases) + 1, Warm: true, Horizon: horizon}, cases: cases}
}

func runAll(r *mc.Run, pool *mc.Pool, ps []*program, stopFirst, obeyDeadline bool) {
	hp := make([]*hrun.Program, len(ps))
	for i, p := range ps {
		hp[i] = p.Program
	}
	hrun.Run(r, pool, hp, stopFirst, obeyDeadline)
}

type badBlock struct {
	f      *fn
	lo, hi int64
	why    string // mismatch, trap, hang
	detail string
}

// level0Horizon: a chunk of <= 65536 tuples costs well under a second on the Wa side; the horizon
// only classifies a function that never returns.
const level0Horizon = 10 * time.Minute
const refineHorizon = 3 * time.Minute
const singleHorizon = 60 * time.Second // one tuple costs microseconds
const maxSingles = 64
const maxBlocksPerFn = 64

func main() {
	if mc.IsWorker() {
		mc.WorkerMain(hrun.HandleJob)
		return
	}
	r := mc.Start("C14")
	r.Rule("per function the complete product of its argument domains is enumerated inside a generated program (mixed-radix tuple index, first argument fastest); results are folded into a rolling hash per block; the same source runs on Go (stdlib = oracle) and through the Wa pipeline (ports in waroot/src); differing blocks are re-run verbosely and compared tuple by tuple; distinct = distinct block hashes")
	r.Assume("argument tuples on which Go's function panics are outside the domain (guards in the generated program skip them on both sides)")
	r.Assume("errors: strconv errors are compared by class (nil / ErrSyntax / ErrRange / other), base64/base32/hex errors by nil-ness (hex also ErrLength) in the enumerations and by text on a handful of inputs (the *.Error functions); float results by IEEE bits, every NaN is one value")
	r.Assume("the oracle is the host toolchain's standard library (go1.23.5): results that depend on the Unicode version or on later bug fixes of Go count as differences")
	r.Assume("functions whose parameter or result is the platform-sized uint (32-bit in Wa, 64-bit in Go) are not compared (math/bits.Len, LeadingZeros, ... without a size suffix)")
	r.Assume("sort.Sort results are compared only where the sorted order is unique (total orders without distinguishable equal elements); sort.Stable everywhere; container/heap by the values returned, not by the layout of the backing slice")
	fns := allFns(r.Thorough())
	if sel := os.Getenv("C14_FN"); sel != "" {
		var f2 []*fn
		for _, f := range fns {
			for _, s := range strings.Split(sel, ",") {
				if strings.HasPrefix(f.Name, s) || (strings.HasPrefix(s, "~") && strings.Contains(f.Name, s[1:])) {
					f2 = append(f2, f)
					break
				}
			}
		}
		fns = f2
	}
	r.Bound("functions", len(fns))
	r.Extra("not_present_in_waroot", missingInWa)
	r.Extra("not_compared", notCompared)
	r.Extra("thresholds_crossed", thresholdsCrossed)
	perFn := map[string]int64{}
	var totalTuples int64
	for _, f := range fns {
		perFn[f.Name] = f.total()
		totalTuples += f.total()
	}
	r.Bound("tuples_per_function", perFn)

	pool := mc.NewPool(mc.NWorkers(), []string{"GOMAXPROCS=4"})
	defer pool.Close()

	// level 0: chunks of every function, packed into programs of roughly equal weight
	const chunk = 32768
	var cs []caseSpec
	for _, f := range fns {
		t := f.total()
		bl := min(max(t/64, 8), 1024)
		ch := int64(chunk)
		if f.Weight > 1 {
			ch = max(chunk/int64(f.Weight), 256)
			bl = min(bl, max(ch/16, 8))
		}
		for lo := int64(0); lo < t; lo += ch {
			cs = append(cs, caseSpec{F: f, Lo: lo, Hi: min(t, lo+ch), Bl: bl})
		}
	}
	weight := func(c caseSpec) int64 { return (c.Hi-c.Lo)*int64(max(c.F.Weight, 1)) + 2000 }
	var totalW int64
	for _, c := range cs {
		totalW += weight(c)
	}
	target := max(totalW/int64(mc.Pick(r, 40, 160)), 1)
	var work []*program
	{
		var cur []caseSpec
		var w int64
		for _, c := range cs {
			cur = append(cur, c)
			w += weight(c)
			if w >= target || len(cur) >= 40 {
				work = append(work, newProgram(cur, level0Horizon))
				cur, w = nil, 0
			}
		}
		if len(cur) > 0 {
			work = append(work, newProgram(cur, level0Horizon))
		}
	}
	r.Extra("programs", len(work))

	var bad []badBlock
	for round := 0; len(work) > 0; round++ {
		if round >= 8 {
			r.Cap("more than 8 rounds of re-running the rest of trapping/hanging chunks")
			break
		}
		if r.Expired() {
			r.Cap("deadline")
			break
		}
		runAll(r, pool, work, false, true)
		var next []caseSpec
		for _, p := range work {
			if p.GoErr != nil {
				r.HarnessError("Go reference failed (%s ...): %v", p.cases[0].F.Name, p.GoErr)
				continue
			}
			if p.WaErr != "" {
				if len(p.cases) > 1 {
					// find the offending function: one program per function
					byFn := map[*fn][]caseSpec{}
					var order []*fn
					for _, c := range p.cases {
						if _, ok := byFn[c.F]; !ok {
							order = append(order, c.F)
						}
						byFn[c.F] = append(byFn[c.F], c)
					}
					if len(order) > 1 {
						for _, f := range order {
							next = append(next, byFn[f]...)
							next = append(next, caseSpec{}) // program break
						}
						continue
					}
				}
				f := p.cases[0].F
				r.Report("C14|"+f.Name+"|program-fails", fmt.Sprintf("the driver for %s builds and runs with Go but not through the Wa pipeline: %s", f.Name, firstLines(p.WaErr, 4)),
					map[string]interface{}{"function": f.Name, "go_source": p.Src, "error": p.WaErr})
				continue
			}
			for ci, c := range p.cases {
				g, w := p.GoRes[ci], p.Wa.Res[ci]
				if os.Getenv("C14_TIMING") != "" {
					fmt.Fprintf(os.Stderr, "timing %-40s [%d,%d) wa=%dms %.2f us/tuple\n", c.F.Name, c.Lo, c.Hi, p.Wa.Ms[ci], float64(p.Wa.Ms[ci])*1000/float64(c.Hi-c.Lo))
				}
				if g.Status != "ok" {
					r.HarnessError("%s [%d,%d): Go reference %s (the domain contains a tuple on which Go panics)", c.F.Name, c.Lo, c.Hi, g.Status)
					continue
				}
				gl := strings.Split(strings.TrimRight(g.Out, "\n"), "\n")
				if len(gl) != c.nblocks() {
					r.HarnessError("%s [%d,%d): Go reference printed %d lines, want %d", c.F.Name, c.Lo, c.Hi, len(gl), c.nblocks())
					continue
				}
				if w.Status == "skipped" {
					next = append(next, c)
					continue
				}
				if (w.Status == "hang" || w.Status == "crash") && c.nblocks() > 1 {
					for a := c.Lo; a < c.Hi; a += c.Bl {
						next = append(next, caseSpec{F: c.F, Lo: a, Hi: min(c.Hi, a+c.Bl), Bl: c.Bl})
					}
					continue
				}
				var wl []string
				if t := strings.TrimRight(w.Out, "\n"); t != "" {
					wl = strings.Split(t, "\n")
				}
				for bi, gline := range gl {
					lo := c.Lo + int64(bi)*c.Bl
					hi := min(c.Hi, lo+c.Bl)
					if bi >= len(wl) {
						why := w.Status
						if why == "ok" {
							why = "short-output"
						}
						bad = append(bad, badBlock{f: c.F, lo: lo, hi: hi, why: why, detail: w.Err})
						// the rest of this block is covered by the refinement (single-tuple cases behind the
						// stopping tuple); the later blocks of the chunk get a case each, so that every block has its own
						// verdict in the next round even if the function traps all over the place
						for a := hi; a < c.Hi; a += c.Bl {
							next = append(next, caseSpec{F: c.F, Lo: a, Hi: min(c.Hi, a+c.Bl), Bl: c.Bl})
						}
						break
					}
					gf := strings.Fields(gline)
					ne, _ := strconv.ParseInt(gf[len(gf)-1], 10, 64)
					r.Evals.Add(ne)
					if wl[bi] == gline {
						r.Distinct(gline)
						if bi == 0 && c.Lo == 0 && r.WantSample() {
							r.Sample(map[string]interface{}{"function": c.F.Name, "tuples": []int64{lo, hi}, "go_and_wa_line(hash, evaluated)": gline})
						}
						continue
					}
					bad = append(bad, badBlock{f: c.F, lo: lo, hi: hi, why: "mismatch", detail: "Go " + gline + " / Wa " + wl[bi]})
				}
			}
		}
		// pack the re-queued cases
		work = nil
		var cur []caseSpec
		for _, c := range next {
			if c.F == nil {
				if len(cur) > 0 {
					work = append(work, newProgram(cur, level0Horizon))
					cur = nil
				}
				continue
			}
			cur = append(cur, c)
			if len(cur) >= 64 {
				work = append(work, newProgram(cur, level0Horizon))
				cur = nil
			}
		}
		if len(cur) > 0 {
			work = append(work, newProgram(cur, level0Horizon))
		}
	}

	// refinement, one verbose program per function: its bad blocks as cases (A), then every tuple
	// from the first one on which Wa stopped in a block as a case of its own (B)
	sort.SliceStable(bad, func(i, j int) bool {
		if bad[i].f != bad[j].f {
			return bad[i].f.Name < bad[j].f.Name
		}
		return bad[i].lo < bad[j].lo
	})
	byFn := map[*fn][]badBlock{}
	var order []*fn
	for _, b := range bad {
		if _, ok := byFn[b.f]; !ok {
			order = append(order, b.f)
		}
		byFn[b.f] = append(byFn[b.f], b)
	}
	for _, f := range order {
		if bs := byFn[f]; len(bs) > maxBlocksPerFn {
			// every tuple has been compared (by hash); only the tuple-by-tuple listing is limited: to
			// maxBlocksPerFn differing blocks spread evenly over the function's tuple space
			r.Extra("listing_limited", fmt.Sprintf("tuple-by-tuple listing limited to %d differing blocks (evenly spread) / %d single-tuple cases of a function", maxBlocksPerFn, maxSingles))
			var pick []badBlock
			for i := 0; i < maxBlocksPerFn; i++ {
				pick = append(pick, bs[i*len(bs)/maxBlocksPerFn])
			}
			byFn[f] = pick
		}
	}
	r.Extra("bad_blocks", len(bad))
	r.Extra("functions_with_bad_blocks", len(order))
	var wg sync.WaitGroup
	sem := make(chan struct{}, 16)
	for _, f := range order {
		wg.Add(1)
		sem <- struct{}{}
		go func(f *fn) {
			defer wg.Done()
			defer func() { <-sem }()
			if !refineFn(r, pool, f, byFn[f]) {
				r.HarnessError("%s: blocks differ between Go and Wa but the verbose re-run found no differing tuple (not reproducible)", f.Name)
			}
		}(f)
	}
	wg.Wait()
	if r.Evals.Load() < totalTuples/2 && os.Getenv("C14_FN") == "" && r.ViolationCount() == 0 {
		r.HarnessError("vacuous: %d of %d tuples evaluated", r.Evals.Load(), totalTuples)
	}
	r.States.Store(r.Evals.Load())
	r.Extra("wa_worker_cpu_seconds", float64(hrun.TotalWaCpuMs.Load())/1000)
	r.Finish()
}

func firstLines(s string, n int) string {
	ls := strings.Split(strings.TrimSpace(s), "\n")
	if len(ls) > n {
		ls = ls[:n]
	}
	return strings.Join(ls, " / ")
}

// refineFn re-runs the bad blocks of one function verbosely and reports every differing tuple
// (first witness per class key). Returns whether anything was reported.
func refineFn(r *mc.Run, pool *mc.Pool, f *fn, blocks []badBlock) bool {
	reported := false
	type span struct{ lo, hi int64 }
	var singles []span
	var cs []caseSpec
	for _, b := range blocks {
		if b.why == "hang" || b.why == "crash" {
			singles = append(singles, span{b.lo, b.hi})
			continue
		}
		cs = append(cs, caseSpec{F: f, Lo: b.lo, Hi: b.hi, Bl: b.hi - b.lo, Verbose: true})
	}
	if len(cs) > 0 {
		p := newProgram(cs, refineHorizon)
		runAll(r, pool, []*program{p}, false, false)
		if p.GoErr != nil || p.WaErr != "" {
			r.HarnessError("verbose re-run of %s failed: %v %s", f.Name, p.GoErr, firstLines(p.WaErr, 3))
			return true
		}
		for ci, c := range cs {
			g, w := p.GoRes[ci], p.Wa.Res[ci]
			if g.Status != "ok" {
				r.HarnessError("verbose re-run of %s [%d,%d): Go %s", f.Name, c.Lo, c.Hi, g.Status)
				continue
			}
			if w.Status == "hang" || w.Status == "crash" || w.Status == "skipped" {
				singles = append(singles, span{c.Lo, c.Hi})
				continue
			}
			next, rep := compareVerbose(r, pool, f, p.Src, g.Out, w.Out, w.Status, w.Err)
			reported = reported || rep
			if next >= 0 && next < c.Hi {
				singles = append(singles, span{next, c.Hi})
			}
		}
	}
	if len(singles) == 0 {
		return reported
	}
	cs = nil
	for _, sp := range singles {
		for t := sp.lo; t < sp.hi; t++ {
			if len(cs) >= maxSingles {
				r.Extra("listing_limited", fmt.Sprintf("tuple-by-tuple listing limited to %d differing blocks (evenly spread) / %d single-tuple cases of a function", maxBlocksPerFn, maxSingles))
				break
			}
			cs = append(cs, caseSpec{F: f, Lo: t, Hi: t + 1, Bl: 1, Verbose: true})
		}
	}
	p := newProgram(cs, singleHorizon)
	runAll(r, pool, []*program{p}, false, false)
	if p.GoErr != nil || p.WaErr != "" {
		r.HarnessError("single-tuple re-run of %s failed: %v %s", f.Name, p.GoErr, firstLines(p.WaErr, 3))
		return true
	}
	for ci := range cs {
		g, w := p.GoRes[ci], p.Wa.Res[ci]
		if g.Status != "ok" {
			r.HarnessError("single-tuple re-run of %s tuple %d: Go %s", f.Name, cs[ci].Lo, g.Status)
			continue
		}
		if w.Status == "skipped" {
			continue
		}
		_, rep := compareVerbose(r, pool, f, p.Src, g.Out, w.Out, w.Status, w.Err)
		reported = reported || rep
	}
	return reported
}

// compareVerbose compares verbose outputs line by line; returns the tuple index to continue
// from when Wa stopped early (trap/hang), -1 when the range was completed.
func compareVerbose(r *mc.Run, pool *mc.Pool, f *fn, src, goOut, waOut, waStatus, waErr string) (next int64, reported bool) {
	gl := strings.Split(strings.TrimRight(goOut, "\n"), "\n")
	// Wa lines; when Wa stopped early the last one is the unfinished line of the tuple it stopped in
	// (possibly followed by the runtime's panic message)
	wl := strings.Split(waOut, "\n")
	for len(wl) > 0 && wl[len(wl)-1] == "" {
		wl = wl[:len(wl)-1]
	}
	if waStatus != "ok" {
		// everything after the last "T <index>" line start belongs to the stopping tuple
		last := -1
		for i, l := range wl {
			if strings.HasPrefix(l, "T ") {
				last = i
			}
		}
		if last >= 0 && last < len(wl)-1 {
			wl = append(wl[:last:last], strings.Join(wl[last:], " / "))
		}
	}
	for i, g := range gl {
		if g == "" {
			continue
		}
		t, args, gres := parseLine(g)
		if i < len(wl) && wl[i] == g {
			continue
		}
		complete := i < len(wl)-1 || (i < len(wl) && waStatus == "ok")
		if complete {
			_, _, wres := parseLine(wl[i])
			key := "C14|" + f.Name + "|" + classes(f, args)
			reported = true
			r.Report(key, fmt.Sprintf("%s(%s): Go returns %s, Wa returns %s", f.Name, showTokens(args), showTokens(gres), showTokens(wres)),
				map[string]interface{}{"function": f.Name, "tuple_index": t, "args": args, "go": gres, "wa": wres, "go_line": g, "wa_line": wl[i], "go_source": src})
			continue
		}
		// Wa stopped inside this tuple
		what := "does not return"
		cls := "no-return"
		if waStatus == "trap" {
			what = "traps (" + waErr + ")"
			if i < len(wl) {
				if k := strings.Index(wl[i], "=>"); k >= 0 && strings.TrimSpace(wl[i][k+2:]) != "" {
					what = "traps: " + strings.TrimSpace(wl[i][k+2:])
				}
			}
			cls = "trap"
		} else if waStatus == "crash" {
			what = "takes the engine process down (" + waErr + ")"
			cls = "engine-crash"
		} else if waStatus == "ok" {
			what = "prints nothing for this tuple although the case returns"
			cls = "short-output"
		}
		if waStatus == "hang" || waStatus == "crash" {
			// a verdict that rests on a horizon or on a dead process: 5 more runs of this tuple alone
			same := 0
			for k := 0; k < 5; k++ {
				p := newProgram([]caseSpec{{F: f, Lo: t, Hi: t + 1, Bl: 1, Verbose: true}}, singleHorizon)
				runAll(r, pool, []*program{p}, false, false)
				if p.GoErr == nil && p.WaErr == "" && p.Wa.Res[0].Status == waStatus {
					same++
				}
			}
			if same != 5 {
				r.HarnessError("%s(%s): %s in the block run but only in %d of 5 runs on its own (flaky, not reported)", f.Name, showTokens(args), waStatus, same)
				return t + 1, reported
			}
			what += " (6/6 runs)"
		}
		key := "C14|" + f.Name + "|" + classes(f, args) + "|" + cls
		r.Report(key, fmt.Sprintf("%s(%s): Go returns %s, Wa %s", f.Name, showTokens(args), showTokens(gres), what),
			map[string]interface{}{"function": f.Name, "tuple_index": t, "args": args, "go": gres, "wa_status": waStatus, "wa_err": waErr, "go_line": g, "go_source": src})
		return t + 1, true
	}
	return -1, reported
}

func parseLine(l string) (t int64, args, res []string) {
	parts := strings.SplitN(l, " =>", 2)
	hf := strings.Fields(parts[0])
	if len(hf) >= 2 {
		t, _ = strconv.ParseInt(hf[1], 10, 64)
		args = hf[2:]
	}
	if len(parts) == 2 {
		res = strings.Fields(parts[1])
	}
	return
}

func showTokens(ts []string) string {
	var out []string
	for _, t := range ts {
		out = append(out, showToken(t))
	}
	return strings.Join(out, ", ")
}

func showToken(t string) string {
	if strings.HasPrefix(t, "s:") {
		b, err := hex.DecodeString(t[2:])
		if err == nil {
			return strconv.Quote(string(b))
		}
	}
	if strings.HasPrefix(t, "f:") {
		if u, err := strconv.ParseUint(t[2:], 10, 64); err == nil {
			return strconv.FormatFloat(math.Float64frombits(u), 'g', -1, 64) + fmt.Sprintf("(bits %#x)", u)
		}
	}
	if len(t) > 2 && t[1] == ':' {
		return t[2:]
	}
	return t
}

// classes renders the argument classes of a tuple.
func classes(f *fn, args []string) string {
	var out []string
	for i, a := range args {
		lit := i < len(f.Doms) && f.Doms[i].Lit
		if i < len(f.Doms) && f.Doms[i].LenKey && strings.HasPrefix(a, "s:") {
			out = append(out, fmt.Sprintf("len=%d", (len(a)-2)/2))
			continue
		}
		out = append(out, argClass(a, lit))
	}
	return strings.Join(out, ",")
}

func argClass(tok string, lit bool) string {
	if len(tok) < 2 || tok[1] != ':' {
		return tok
	}
	v := tok[2:]
	switch tok[0] {
	case 's':
		b, _ := hex.DecodeString(v)
		if lit {
			return strconv.Quote(string(b))
		}
		switch {
		case len(b) == 0:
			return "empty"
		case !utf8.Valid(b):
			return "invalid-utf8"
		}
		for _, c := range b {
			if c >= 0x80 {
				return "multibyte"
			}
		}
		return "ascii"
	case 'i':
		if lit {
			return v
		}
		x, _ := strconv.ParseInt(v, 10, 64)
		switch {
		case x == 0:
			return "0"
		case x == -1<<63:
			return "min64"
		case x == 1<<63-1:
			return "max64"
		case x == -1<<31:
			return "min32"
		case x == 1<<31-1:
			return "max32"
		case x < -1<<31:
			return "neg>32bit"
		case x > 1<<31-1:
			return "pos>32bit"
		case x < 0:
			return "neg"
		}
		return "pos"
	case 'u':
		if lit {
			return v
		}
		x, _ := strconv.ParseUint(v, 10, 64)
		switch {
		case x == 0:
			return "0"
		case x == 1<<64-1:
			return "maxu64"
		case x >= 1<<63:
			return "u>=2^63"
		case x >= 1<<32:
			return "u>=2^32"
		}
		return "u<2^32"
	case 'f':
		if lit {
			return v
		}
		u, _ := strconv.ParseUint(v, 10, 64)
		fl := math.Float64frombits(u)
		switch {
		case fl != fl:
			return "nan"
		case u == 0:
			return "+0"
		case u == 1<<63:
			return "-0"
		case fl > 1.7976931348623157e308 || fl < -1.7976931348623157e308:
			return "inf"
		case u&(0x7ff<<52) == 0:
			return "subnormal"
		case fl == float64(int64(fl)) && fl < 1e15 && fl > -1e15:
			return "integral"
		}
		return "finite"
	}
	return v
}
