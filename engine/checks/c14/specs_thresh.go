//go:build go1.21

package main

import (
	"fmt"
	"strings"
)

// Threshold-crossing sweeps. The ports switch algorithms at size thresholds (a needle longer than
// 4 bytes, a haystack longer than 8, more than 7 / 20 / 40 elements to sort, 64 bytes of buffer,
// blocks of 3 / 4 / 5 / 8 / 16 / 64 bytes ...). The small alphabets of the other specs never reach
// them, so every threshold found in waroot/src gets inputs on both sides of it here. The list
// below goes into the evidence (coverage.thresholds_crossed).
var thresholdsCrossed = []string{
	"strings.Index / bytes.Index: needle length 1 | 2..4 (bytealg_MaxLen) | >4, and in the >4 path the cut-over to Rabin-Karp after fails >= 4+i>>4 false starts: every haystack over {a,b} up to length 12 (thorough 14) x every needle of length 0..6 (thorough 0..8); Contains, Count, Split, SplitN, Replace, ReplaceAll, Cut are swept over the same product because they are built on Index; HasPrefix/HasSuffix as controls",
	"strings.LastIndex / bytes.LastIndex: needle length 1 | == len(s) | Rabin-Karp from the end: same product",
	"strings/bytes IndexAny, LastIndexAny, ContainsAny, Trim: len(s) > 8 with an all-ASCII set (asciiSet path) vs <= 8, cutset of length 1 vs longer: same product (haystack lengths 0..12 cross 8) plus non-ASCII sets on the long mixed strings",
	"strings.Replacer: byteStringReplacer Count-based sizing when len(toReplace)*8 <= len(s) vs the byte loop; single-string replacer (Boyer-Moore stringFinder) with patterns of length 2..4; generic trie replacer: every haystack over {a,b} up to length 12 x 8 replacer shapes",
	"unicode/utf8 Valid, ValidString: 8-byte all-ASCII chunks: ASCII runs of length 0..17 with one multi-byte / invalid element inserted at every position; the same strings go through RuneCount, strings/bytes ToUpper, ToLower, Title, Fields, TrimSpace, ToValidUTF8, IndexAny, Trim and strconv.Quote/Unquote (ASCII fast paths there)",
	"sort: insertion sort up to 7 elements vs quickSort above (all sequences over 3 values of length 6..9, all 0/1 sequences of length 6..14), ninther pivot above 40 and Stable's insertion blocks of 20 + symMerge (patterned inputs of 2..121 elements; thorough: all 0/1 sequences of length 21 through Stable), heapSort after 2*ceil(lg(n+1)) partitioning levels (McIlroy's adversary comparator, n = 16..300; verdict = sorted permutation)",
	"strconv.ParseFloat: 19 mantissa digits (maxMantDigits) vs more (truncated mantissa), 15/16 digits and |exp10| 22/23, 37/38 (exact-float shortcut bounds), float32 and float64 overflow / subnormal / underflow decades: grid of 13 digit-counts x 3 digit patterns x 36 exponents x bitSize",
	"strconv.Atoi / ParseInt: fast path for fewer than 10 characters (32-bit int) vs the general path: 9- and 10-character texts with and without sign",
	"strconv.FormatInt: nSmalls = 100 two-digit table, 1e9 chunking on a 32-bit host, power-of-two bases: -2000..2000 and values around 1e9 and 1e18 (specs.go) ",
	"strconv.FormatFloat: shortest (Ryu) vs fixed precision <= 15 digits (ryuFtoaFixed) vs > 15 (bigFtoa): precisions {-1,0,1,2,6,15,16,17,20}; integers 0..4095 and powers of ten 1e0..1e22 as floats; %e/%f switch of 'g' at exponent < -4 || >= precision",
	"encoding/base64: 8-character (64-bit) and 4-character decode loops vs the quantum-by-quantum path, 3-byte encode groups: round trip of data lengths 0..40 in every encoding, and a 16-character valid text with a bad character at every position",
	"encoding/base32: 5-byte / 8-character groups: round trip of data lengths 0..40, a 16-character valid text with a bad character at every position",
	"encoding/hex: Dump lines of 16 bytes (lengths 0..48 in specs.go); Encode/Decode round trip of lengths 0..40",
	"hash/crc32: slicing-by-8 for len >= 16 vs the simple loop (lengths 0..130, every split of 0..40 in specs.go); crypto/md5: 64-byte blocks (lengths 0..130 x every split); hash/adler32: 5552-byte modulo deferral (lengths around 5552 and 11104)",
	"bytes.Buffer: smallBufferSize = 64 first allocation, growth by reslice vs reallocation; strings.Builder growth: two writes of 0..130 bytes around 32, 64, 128 followed by reads",
	"strings.Repeat: chunked doubling with chunkLimit = 8 KiB: counts 0..5, 64, 4096, 4097, 8193",
}

func thresholdFns(thorough bool) []*fn {
	var fs []*fn
	add := func(f ...*fn) { fs = append(fs, f...) }

	// ------------------------------------------------------------ search sweep
	hayLen, needleLen := 12, 6
	if thorough {
		hayLen, needleLen = 14, 8
	}
	dHay := genStrs(fmt.Sprintf("hay%d", hayLen), []string{"a", "b"}, hayLen)
	dNeedle := genStrs(fmt.Sprintf("needle%d", needleLen), []string{"a", "b"}, needleLen)
	dNeedle.LenKey = true
	sweep := []*dom{dHay, dNeedle}
	for _, t := range []struct{ name, body string }{
		{"Index/threshold", "rI(int64(@P.Index(@0, @1)))\nrB(@P.Contains(@0, @1))"},
		{"LastIndex/threshold", "rI(int64(@P.LastIndex(@0, @1)))"},
		{"Count/threshold", "rI(int64(@P.Count(@0, @1)))"},
		{"Split/threshold", "RL(@P.Split(@0, @1))\nRL(@P.SplitN(@0, @1, 2))"},
		{"Replace/threshold", "RS(@P.Replace(@0, @1, TX(\"x\"), 1))\nRS(@P.ReplaceAll(@0, @1, TX(\"x\")))"},
		{"Cut/threshold", "x, y, ok := @P.Cut(@0, @1)\nRS(x)\nRS(y)\nrB(ok)"},
		{"HasPrefix/threshold", "rB(@P.HasPrefix(@0, @1))\nrB(@P.HasSuffix(@0, @1))"},
		{"IndexAny/threshold", "rI(int64(@P.IndexAny(@0, a1)))\nrI(int64(@P.LastIndexAny(@0, a1)))\nrB(@P.ContainsAny(@0, a1))\nRS(@P.Trim(@0, a1))\nRS(@P.TrimLeft(@0, a1))"},
	} {
		add(sb(t.name, sweep, t.body, true)...)
	}
	// Replacer shapes over the same haystacks
	add(mk("strings.Replacer/threshold", "strings", []*dom{dHay, ctl("rshape", 0, 1, 2, 3, 4, 5, 6, 7)}, `
var rp *strings.Replacer
if a1 == 0 {
	rp = strings.NewReplacer("a", "xx")
} else if a1 == 1 {
	rp = strings.NewReplacer("a", "xx", "b", "")
} else if a1 == 2 {
	rp = strings.NewReplacer("ab", "x")
} else if a1 == 3 {
	rp = strings.NewReplacer("aab", "xy")
} else if a1 == 4 {
	rp = strings.NewReplacer("abab", "")
} else if a1 == 5 {
	rp = strings.NewReplacer("ab", "x", "ba", "yy")
} else if a1 == 6 {
	rp = strings.NewReplacer("a", "b", "b", "a")
} else {
	rp = strings.NewReplacer("aa", "1", "aab", "2", "", "-")
}
rS(rp.Replace(a0))`))

	// ------------------------------------------------------------ long strings with one non-ASCII element
	const longDecl = `var D_longmix []string

func genD_longmix() {
	base := "ab cd Efgh iJk lmn"
	elems := []string{"", "\x80", "\xc2\xa9", "\xe0\x80", "\xe4\xb8\x96", "\xff", "\xf4\x90\x80\x80", "\xc3"}
	for n := 0; n <= 17; n++ {
		for p := 0; p <= n; p++ {
			for _, e := range elems {
				D_longmix = append(D_longmix, base[:p]+e+base[p:n])
			}
		}
	}
}
`
	nLong := int64(0)
	for n := 0; n <= 17; n++ {
		nLong += int64(n+1) * 8
	}
	dLong := &dom{Name: "longmix", Type: "string", Size: nLong, Decl: longDecl, Init: "\tgenD_longmix()\n", Elem: "D_longmix[%s]"}
	add(mk("utf8.Valid/threshold", "unicode/utf8", []*dom{dLong}, `
rB(utf8.ValidString(a0))
rB(utf8.Valid([]byte(a0)))
rI(int64(utf8.RuneCountInString(a0)))
rI(int64(utf8.RuneCount([]byte(a0))))
r, n := utf8.DecodeLastRuneInString(a0)
rI(int64(r))
rI(int64(n))`))
	add(sb("ToUpper/threshold", []*dom{dLong}, "RS(@P.ToUpper(@0))\nRS(@P.ToLower(@0))\nRS(@P.Title(@0))\nRL(@P.Fields(@0))\nRS(@P.TrimSpace(@0))\nRS(@P.ToValidUTF8(@0, TX(\"?\")))", true)...)
	add(sb("IndexAny/longmix", []*dom{dLong, litStr("anyset", []string{"E", "xJ", "\xc2\xa9", "x\xe4\xb8\x96", "\xff", "zq"}, true)}, "rI(int64(@P.IndexAny(@0, a1)))\nrI(int64(@P.LastIndexAny(@0, a1)))\nRS(@P.Trim(@0, a1))", true)...)
	add(mk("strconv.Quote/threshold", "strconv", []*dom{dLong}, "q := strconv.Quote(a0)\nrS(q)\nu, err := strconv.Unquote(q)\nrS(u)\nrE(err)\nrS(strconv.QuoteToASCII(a0))"))

	// ------------------------------------------------------------ sort
	sortBody := `
a := make([]int, len(ds))
for i, d := range ds {
	a[i] = d
}
sort.Ints(a)
for _, x := range a {
	rI(int64(x))
}
r := mkRecs(ds)
sort.Sort(r)
for i := range r.k {
	rI(int64(r.k[i]))
}
r = mkRecs(ds)
sort.Stable(r)
for i := range r.k {
	rI(int64(r.k[i]))
	rI(int64(r.o[i]))
}`
	// all sequences over {0,1,2} of length 6..9: index offset skips the shorter ones
	off3 := int64(0)
	for l, p := 0, int64(1); l < 6; l++ {
		off3 += p
		p *= 3
	}
	n3 := int64(729 + 2187 + 6561 + 19683)
	add(mk("sort/3-values-len6..9", "sort", []*dom{rng("sort3", n3, "int64", fmt.Sprintf("int64(%%s) + %d", off3))},
		"ds := seqDigits(a0, 3)"+sortBody).decls(seqDecl).decls(sortDecl).weight(40))
	bitsBody := `
n := int(a1)
ds := make([]int, n)
for i := 0; i < n; i++ {
	ds[i] = int((a0 >> uint(i)) & 1)
}` + sortBody
	for _, n := range []int{6, 7, 8, 9, 10, 11, 12, 14} {
		add(mk(fmt.Sprintf("sort/01-len%d", n), "sort", []*dom{rng(fmt.Sprintf("bits%d", n), 1<<uint(n), "int64", "int64(%s)"), ctl(fmt.Sprintf("n%d", n), int64(n))}, bitsBody).decls(sortDecl).weight(60))
	}
	if thorough {
		add(mk("sort.Stable/01-len21", "sort", []*dom{rng("bits21", 1<<21, "int64", "int64(%s)"), ctl("n21", 21)}, `
n := int(a1)
ds := make([]int, n)
for i := 0; i < n; i++ {
	ds[i] = int((a0 >> uint(i)) & 1)
}
r := mkRecs(ds)
sort.Stable(r)
for i := range r.k {
	rI(int64(r.k[i]))
	rI(int64(r.o[i]))
}`).decls(sortDecl).weight(60))
	}
	// McIlroy's adversary ("A Killer Adversary for Quicksort"): values are fixed lazily so that the
	// pivot is always among the smallest; drives a quicksort into its depth limit (heapSort here).
	// The values differ between implementations, so only the verdict is compared: the result is a
	// sorted permutation of 0..n-1.
	const advDecl = `type adv struct {
	val    ([]int)
	p      ([]int)
	gas    int
	nsolid int
	cand   int
}

func (a *adv) Len() int { return len(a.p) }
func (a *adv) Swap(i, j int) { a.p[i], a.p[j] = a.p[j], a.p[i] }
func (a *adv) Less(i, j int) bool {
	x := a.p[i]
	y := a.p[j]
	if a.val[x] == a.gas && a.val[y] == a.gas {
		if x == a.cand {
			a.val[x] = a.nsolid
		} else {
			a.val[y] = a.nsolid
		}
		a.nsolid++
	}
	if a.val[x] == a.gas {
		a.cand = x
	} else if a.val[y] == a.gas {
		a.cand = y
	}
	return a.val[x] < a.val[y]
}
`
	add(mk("sort.Sort/adversary", "sort", []*dom{rng("advn", 285, "int64", "int64(%s) + 16"), ctl("advkind", 0, 1)}, `
n := int(a0)
a := &adv{val: make([]int, n), p: make([]int, n), gas: n - 1}
for i := 0; i < n; i++ {
	a.val[i] = a.gas
	a.p[i] = i
}
if a1 == 0 {
	sort.Sort(a)
} else {
	sort.Stable(a)
}
// freeze the remaining gas values, then the order must be sorted and a permutation
seen := make([]bool, n)
ok := true
for i := 0; i < n; i++ {
	if seen[a.p[i]] {
		ok = false
	}
	seen[a.p[i]] = true
	if i > 0 && a.val[a.p[i-1]] > a.val[a.p[i]] {
		ok = false
	}
}
rB(ok)
// the frozen values as a plain input
in := make([]int, n)
for i := 0; i < n; i++ {
	in[i] = a.val[i]
}
sort.Ints(in)
rB(sort.IntsAreSorted(in))`).decls(advDecl).weight(400))

	// ------------------------------------------------------------ strconv
	const gridDecl = `func gridText(d int64, pat int64, e int64) string {
	s := ""
	for i := int64(0); i < d; i++ {
		c := "9"
		if pat == 0 {
			c = "0"
			if i == 0 {
				c = "1"
			}
		} else if pat == 2 {
			c = "1234567890"[int(i%10) : int(i%10)+1]
		}
		s += c
		if i == 0 && d > 1 {
			s += "."
		}
	}
	return s + "e" + strconv.FormatInt(e, 10)
}
`
	dDigits := ctl("ndigits", 1, 2, 8, 15, 16, 17, 18, 19, 20, 21, 25, 40, 800)
	dGridExp := ctl("gridexp", -400, -345, -330, -326, -325, -324, -323, -322, -309, -308, -307, -60, -46, -45, -44, -39, -38, -37, -23, -22, -21, -16, -1, 0, 1, 15, 16, 21, 22, 23, 36, 37, 38, 39, 307, 308, 309, 310)
	add(mk("strconv.ParseFloat/grid", "strconv", []*dom{dDigits, ctl("gridpat", 0, 1, 2), dGridExp, ctl("fbits", 64, 32)}, `
s := gridText(a0, a1, a2)
v, err := strconv.ParseFloat(s, int(a3))
rF(v)
rNE(err)
w, err2 := strconv.ParseFloat("-"+s, int(a3))
rF(w)
rNE(err2)`).decls(rNEDecl).decls(gridDecl).weight(30))
	add(mk("strconv.Atoi/threshold", "strconv", []*dom{litStr("atoi9", []string{
		"999999999", "1000000000", "-999999999", "+999999999", "-1000000000", "+1000000000", "99999999", "000000001", "0000000001", "00000000001", "12345678 ", "123456789", "1234567890", "+12345678", "-12345678", "+123456789", "-123456789",
		"12345_789", "1_2", "0x1234567", "0x12345678", "99999999x", "999999999x", "9999999999", "-2147483648", "2147483647", "-2147483649", "2147483648", "١٢٣",
	}, false)}, "v, err := strconv.Atoi(a0)\nrI(int64(v))\nrNE(err)\nw, err2 := strconv.ParseInt(a0, 10, 32)\nrI(w)\nrNE(err2)\nx, err3 := strconv.ParseInt(a0, 0, 64)\nrI(x)\nrNE(err3)").decls(rNEDecl).decls(sameInt).guard("sameInt(a0, 10)"))
	const intFloatDecl = `func intFloat(i int) float64 {
	if i < 4096 {
		return float64(i)
	}
	f := 1.0
	for k := 4096; k < i; k++ {
		f *= 10
	}
	return f
}
`
	add(mk("strconv.FormatFloat/integers", "strconv", []*dom{rng("intflt", 4096+23, "float64", "intFloat(%s)"), ctl("fmt3", 'e', 'f', 'g'), ctl("precx", -1, 0, 3, 15, 16)},
		"rS(strconv.FormatFloat(a0, byte(a1), int(a2), 64))\nrS(strconv.FormatFloat(-a0/8, byte(a1), int(a2), 32))").decls(intFloatDecl).weight(4))
	dFltT := litExpr("fltT", "float64", []string{"1.0 / 3.0", "2.0 / 3.0", "0.1", "123456789.125", "1e21", "1e-7", "5e-324", "1.7976931348623157e308", "9007199254740993.0", "0.000123456789012345678", "99999999999999.9", "0.5", "2.5", "1e15 + 0.5", "1e16"}, false)
	add(mk("strconv.FormatFloat/precision", "strconv", []*dom{dFltT, ctl("fmt4", 'e', 'f', 'g', 'G'), rng("prec0_24", 25, "int64", "int64(%s)"), ctl("fbits", 64, 32)}, "rS(strconv.FormatFloat(a0, byte(a1), int(a2), int(a3)))"))

	// ------------------------------------------------------------ encodings: block loops
	dLen40 := rng("len41", 41, "int64", "int64(%s)")
	add(mk("base64.Roundtrip/len0..40", "encoding/base64", []*dom{dLen40, ctl("pat", 0, 1, 2), ctl("enc64", 0, 1, 2, 3, 4)}, `
d := mkData(a0, a1)
e := b64(a2)
s := e.EncodeToString(d)
rS(s)
back, err := e.DecodeString(s)
rY(back)
rE(err)
dst := make([]byte, e.DecodedLen(len(s)))
n, err2 := e.Decode(dst, []byte(s))
rI(int64(n))
rE(err2)
rY(dst)`).decls(dataDecl).decls(encDecl).weight(8))
	add(mk("base64.Decode/bad-char-position", "encoding/base64", []*dom{rng("pos16", 16, "int64", "int64(%s)"), litStr("badc", []string{"!", "=", "\n", "-", "\r", " "}, true), ctl("enc64", 0, 1, 2, 3, 4), ctl("len1112", 10, 11, 12)}, `
e := b64(a2)
s := []byte(e.EncodeToString(mkData(a3, 2)))
if int(a0) < len(s) {
	s[int(a0)] = a1[0]
}
back, err := e.DecodeString(string(s))
rY(back)
rE(err)
dst := make([]byte, e.DecodedLen(len(s))+2)
n, err2 := e.Decode(dst, s)
rI(int64(n))
rE(err2)`).decls(dataDecl).decls(encDecl).weight(8))
	add(mk("base32.Roundtrip/len0..40", "encoding/base32", []*dom{dLen40, ctl("pat", 0, 1, 2), ctl("enc32", 0, 1)}, `
d := mkData(a0, a1)
e := b32(a2)
s := e.EncodeToString(d)
rS(s)
back, err := e.DecodeString(s)
rY(back)
rE(err)`).decls(dataDecl).decls(enc32Decl).weight(8))
	add(mk("base32.Decode/bad-char-position", "encoding/base32", []*dom{rng("pos16", 16, "int64", "int64(%s)"), litStr("badc32", []string{"!", "1", "a", "8"}, true), ctl("enc32", 0, 1)}, `
e := b32(a2)
s := []byte(e.EncodeToString(mkData(10, 2)))
s[int(a0)] = a1[0]
back, err := e.DecodeString(string(s))
rY(back)
rE(err)`).decls(dataDecl).decls(enc32Decl).weight(8))
	add(mk("hex.Roundtrip/len0..40", "encoding/hex", []*dom{dLen40, ctl("pat", 0, 1, 2)}, `
d := mkData(a0, a1)
s := hex.EncodeToString(d)
rS(s)
back, err := hex.DecodeString(s)
rY(back)
rE(err)
up := []byte(s)
for i := range up {
	if up[i] >= 'a' {
		up[i] -= 32
	}
}
back, err = hex.DecodeString(string(up))
rY(back)
rE(err)`).decls(dataDecl).weight(8))

	// ------------------------------------------------------------ buffers
	dW := ctl("wlen", 0, 1, 31, 32, 33, 63, 64, 65, 127, 128, 130)
	add(mk("bytes.Buffer/sizes", "bytes", []*dom{dW, dW, ctl("rlen", 0, 1, 64, 65, 200)}, `
b := new(bytes.Buffer)
k, err := b.Write(mkData(a0, 3))
rI(int64(k))
rE(err)
p := make([]byte, int(a2))
k, err = b.Read(p)
rI(int64(k))
rE(err)
k, err = b.WriteString(string(mkData(a1, 2)))
rI(int64(k))
rE(err)
rI(int64(b.Len()))
rY(b.Bytes())
rY(b.Next(int(a2)))
b.Grow(int(a1))
rI(int64(b.Len()))
rS(b.String())
b.Truncate(b.Len() / 2)
rS(b.String())`).decls(dataDecl).weight(8))
	add(mk("strings.Builder/sizes", "strings", []*dom{dW, dW}, `
var b strings.Builder
k, err := b.WriteString(string(mkData(a0, 3)))
rI(int64(k))
rE(err)
b.Grow(int(a1))
k, err = b.Write(mkData(a1, 2))
rI(int64(k))
rE(err)
rI(int64(b.Len()))
rS(b.String())`).decls(dataDecl).weight(8))
	add(sb("Repeat/long", []*dom{dS2, ctl("replong", 64, 4096, 4097, 8193)}, "x := @P.Repeat(@0, int(a1))\nrI(int64(len(x)))\nRS(x)", true)...)
	for _, f := range fs {
		if strings.HasSuffix(f.Name, "Repeat/long") {
			f.Weight = 4000
		}
	}
	return fs
}
