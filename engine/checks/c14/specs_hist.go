//go:build go1.21

package main

import "strings"

// Operation histories on the stateful types (Builder, Buffer, Reader, heap, list, ring): the
// history number is decoded inside the body (digits base k, most significant first, preceded by
// all shorter histories); every operation's results and the visible state are folded.

const histDecl = `// histOps decodes history number idx: all histories over k operations by length, then lexicographic
func histOps(idx int64, k int64) []int {
	l := 0
	p := int64(1)
	for idx >= p {
		idx -= p
		p *= k
		l++
	}
	d := make([]int, l)
	for i := l - 1; i >= 0; i-- {
		d[i] = int(idx % k)
		idx /= k
	}
	return d
}
`

func histSize(k int64, n int) int64 {
	var t, p int64 = 0, 1
	for l := 0; l <= n; l++ {
		t += p
		p *= k
	}
	return t
}

func historyFns(thorough bool) []*fn {
	var fs []*fn
	n := 4
	if thorough {
		n = 5
	}
	fs = append(fs, mk("strings.Builder", "strings", []*dom{rng("hbuilder", histSize(7, n), "int64", "int64(%s)")}, `
var b strings.Builder
for _, op := range histOps(a0, 7) {
	if op == 0 {
		k, err := b.WriteString("aé")
		rI(int64(k))
		rE(err)
	} else if op == 1 {
		rE(b.WriteByte('x'))
	} else if op == 2 {
		k, err := b.WriteRune(0xe9)
		rI(int64(k))
		rE(err)
	} else if op == 3 {
		k, err := b.WriteRune(-1)
		rI(int64(k))
		rE(err)
	} else if op == 4 {
		b.Reset()
	} else if op == 5 {
		b.Grow(3)
	} else {
		k, err := b.Write([]byte{0xff, 'z'})
		rI(int64(k))
		rE(err)
	}
	rI(int64(b.Len()))
	rS(b.String())
}`).decls(histDecl).weight(6))

	nb := 3
	if thorough {
		nb = 4
	}
	fs = append(fs, mk("bytes.Buffer", "bytes", []*dom{rng("hbuffer", histSize(14, nb), "int64", "int64(%s)"), ctl("bufinit", 0, 1)}, `
var b *bytes.Buffer
if a1 == 0 {
	b = new(bytes.Buffer)
} else {
	b = bytes.NewBufferString("aé\xffb")
}
for _, op := range histOps(a0, 14) {
	rI(int64(op))
	if op == 0 {
		k, err := b.WriteString("ab")
		rI(int64(k))
		rE(err)
	} else if op == 1 {
		rE(b.WriteByte('c'))
	} else if op == 2 {
		k, err := b.WriteRune(0xe9)
		rI(int64(k))
		rE(err)
	} else if op == 3 {
		c, err := b.ReadByte()
		rI(int64(c))
		rE(err)
	} else if op == 4 {
		rE(b.UnreadByte())
	} else if op == 5 {
		r, sz, err := b.ReadRune()
		rI(int64(r))
		rI(int64(sz))
		rE(err)
	} else if op == 6 {
		rE(b.UnreadRune())
	} else if op == 7 {
		rY(b.Next(2))
	} else if op == 8 {
		if b.Len() >= 1 {
			b.Truncate(1)
		}
	} else if op == 9 {
		b.Reset()
	} else if op == 10 {
		p := make([]byte, 2)
		k, err := b.Read(p)
		rI(int64(k))
		rE(err)
		rY(p)
	} else if op == 11 {
		s, err := b.ReadString('b')
		rS(s)
		rE(err)
	} else if op == 12 {
		l, err := b.ReadBytes(0xa9)
		rY(l)
		rE(err)
	} else {
		k, err := b.Write([]byte{0xff})
		rI(int64(k))
		rE(err)
	}
	rI(int64(b.Len()))
	rS(b.String())
	rY(b.Bytes())
}`).decls(histDecl).weight(10))

	readerBody := `
rd := @NEW@
for _, op := range histOps(a0, 12) {
	rI(int64(op))
	if op == 0 {
		c, err := rd.ReadByte()
		rI(int64(c))
		rE(err)
	} else if op == 1 {
		rE(rd.UnreadByte())
	} else if op == 2 {
		r, sz, err := rd.ReadRune()
		rI(int64(r))
		rI(int64(sz))
		rE(err)
	} else if op == 3 {
		rE(rd.UnreadRune())
	} else if op == 4 {
		p := make([]byte, 2)
		k, err := rd.Read(p)
		rI(int64(k))
		rE(err)
		rY(p)
	} else if op == 5 {
		o, err := rd.Seek(1, 0)
		rI(o)
		rE(err)
	} else if op == 6 {
		o, err := rd.Seek(-1, 2)
		rI(o)
		rE(err)
	} else if op == 7 {
		o, err := rd.Seek(2, 1)
		rI(o)
		rE(err)
	} else if op == 8 {
		o, err := rd.Seek(-3, 1)
		rI(o)
		rE(err)
	} else if op == 9 {
		p := make([]byte, 3)
		k, err := rd.ReadAt(p, 2)
		rI(int64(k))
		rE(err)
		rY(p)
	} else if op == 10 {
		p := make([]byte, 0)
		k, err := rd.Read(p)
		rI(int64(k))
		rE(err)
	} else {
		@RESET@
	}
	rI(int64(rd.Len()))
	rI(rd.Size())
}`
	rep := func(s, newExpr, reset string) string {
		return strings.ReplaceAll(strings.ReplaceAll(s, "@NEW@", newExpr), "@RESET@", reset)
	}
	fs = append(fs, mk("strings.Reader", "strings", []*dom{rng("hsreader", histSize(12, nb), "int64", "int64(%s)")},
		rep(readerBody, `strings.NewReader("aé\xffb")`, `rd.Reset("xy")`)).decls(histDecl).weight(8))
	fs = append(fs, mk("bytes.Reader", "bytes", []*dom{rng("hbreader", histSize(12, nb), "int64", "int64(%s)")},
		rep(readerBody, `bytes.NewReader([]byte("aé\xffb"))`, `rd.Reset([]byte("xy"))`)).decls(histDecl).weight(8))
	return fs
}

func containerFns(thorough bool) []*fn {
	var fs []*fn
	n := 5
	if thorough {
		n = 6
	}
	const heapDecl = `type I32s []int32

type intHeap struct {
	v I32s
}

func (h *intHeap) Len() int           { return len(h.v) }
func (h *intHeap) Less(i, j int) bool { return h.v[i] < h.v[j] }
func (h *intHeap) Swap(i, j int)      { h.v[i], h.v[j] = h.v[j], h.v[i] }
func (h *intHeap) Push(x interface{}) { h.v = append(h.v, x.(int32)) }
func (h *intHeap) Pop() interface{} {
	n := len(h.v)
	x := h.v[n-1]
	h.v = h.v[0 : n-1]
	return x
}
`
	// values are distinct per push (value*8 + serial keeps the pop order unique), so results do not
	// depend on how equal elements are arranged
	fs = append(fs, mk("container/heap", "container/heap", []*dom{rng("hheap", histSize(8, n-1), "int64", "int64(%s)"), ctl("heapinit", 0, 1)}, `
hp := &intHeap{}
if a1 == 1 {
	hp.v = I32s{150, 120, 180, 110, 190, 130}
	heap.Init(hp)
}
serial := int32(0)
for _, op := range histOps(a0, 8) {
	rI(int64(op))
	if op < 4 {
		serial++
		heap.Push(hp, int32(op)*24+serial)
	} else if op == 4 {
		if hp.Len() > 0 {
			rI(int64(heap.Pop(hp).(int32)))
		}
	} else if op == 5 {
		if hp.Len() > 0 {
			_ = heap.Remove(hp, 0).(int32)
		}
	} else if op == 6 {
		if hp.Len() > 1 {
			_ = heap.Remove(hp, 1).(int32)
		}
	} else {
		if hp.Len() > 0 {
			_ = heap.Remove(hp, hp.Len()-1).(int32)
		}
	}
	rI(int64(hp.Len()))
	// heap order invariant and the multiset (sorted drain of a copy)
	cp := &intHeap{v: append(I32s{}, hp.v...)}
	for i := 1; i < len(cp.v); i++ {
		rB(cp.v[(i-1)/2] <= cp.v[i])
	}
	for cp.Len() > 0 {
		rI(int64(heap.Pop(cp).(int32)))
	}
}`).decls(histDecl).decls(heapDecl).weight(30))

	fs = append(fs, mk("container/list", "container/list", []*dom{rng("hlist", histSize(12, n-1), "int64", "int64(%s)")}, `
l := list.New()
other := list.New()
_ = other.PushBack(int32(71))
_ = other.PushBack(int32(72))
serial := int32(0)
for _, op := range histOps(a0, 12) {
	rI(int64(op))
	serial++
	if op == 0 {
		_ = l.PushFront(serial)
	} else if op == 1 {
		_ = l.PushBack(serial)
	} else if op == 2 {
		if l.Len() > 0 {
			rI(int64(l.Remove(l.Front()).(int32)))
		}
	} else if op == 3 {
		if l.Len() > 0 {
			rI(int64(l.Remove(l.Back()).(int32)))
		}
	} else if op == 4 {
		if l.Len() > 0 {
			l.MoveToFront(l.Back())
		}
	} else if op == 5 {
		if l.Len() > 0 {
			l.MoveToBack(l.Front())
		}
	} else if op == 6 {
		if l.Len() > 1 {
			_ = l.InsertBefore(serial, l.Front().Next())
		}
	} else if op == 7 {
		if l.Len() > 1 {
			_ = l.InsertAfter(serial, l.Back().Prev())
		}
	} else if op == 8 {
		l.PushBackList(other)
	} else if op == 9 {
		l.PushFrontList(l)
	} else if op == 10 {
		if l.Len() > 1 {
			rI(int64(l.Remove(l.Front().Next()).(int32)))
		}
	} else {
		_ = l.Init()
	}
	rI(int64(l.Len()))
	for e := l.Front(); e != nil; e = e.Next() {
		rI(int64(e.Value.(int32)))
	}
	for e := l.Back(); e != nil; e = e.Prev() {
		rI(int64(e.Value.(int32)))
	}
}`).decls(histDecl).weight(20))

	fs = append(fs, mk("container/ring", "container/ring", []*dom{rng("hring", histSize(9, n-1), "int64", "int64(%s)"), ctl("ringn", 1, 3, 4)}, `
r := ring.New(int(a1))
k := r.Len()
p := r
for i := 0; i < k; i++ {
	p.Value = int32(i + 1)
	p = p.Next()
}
extra := ring.New(2)
extra.Value = int32(81)
extra.Next().Value = int32(82)
for _, op := range histOps(a0, 9) {
	rI(int64(op))
	if op == 0 {
		r = r.Next()
	} else if op == 1 {
		r = r.Prev()
	} else if op == 2 {
		r = r.Move(2)
	} else if op == 3 {
		r = r.Move(-3)
	} else if op == 4 {
		u := r.Unlink(1)
		rI(int64(u.Len()))
	} else if op == 5 {
		u := r.Unlink(2)
		rI(int64(u.Len()))
	} else if op == 6 {
		n := ring.New(1)
		n.Value = int32(99)
		_ = r.Link(n)
	} else if op == 7 {
		_ = r.Link(extra)
	} else {
		_ = r.Link(r.Move(2))
	}
	rI(int64(r.Len()))
	steps := 0
	r.Do(func(v interface{}) {
		steps++
		if v == nil {
			rI(-1)
		} else {
			rI(int64(v.(int32)))
		}
	})
	rI(int64(steps))
}`).decls(histDecl).weight(20))
	return fs
}
