//go:build go1.21

// C01: compiled Wa programs compute what the equivalent Go program computes. Complete
// enumeration of small program families (operator x type x operand alphabet², conversions,
// shifts, ...), each executed through the real Wa pipeline and through Go.
package main

import (
	"os"
	"strings"

	"wa-lang.org/wa/internal/zzverif/mc"
	"wa-lang.org/wa/internal/zzverif/progs"
)

func main() {
	if mc.IsWorker() {
		mc.WorkerMain(progs.HandleJob)
		return
	}
	r := mc.Start("C01")
	r.Rule("complete enumeration of program families (every operator x type x boundary-operand pair, ...); each item is run through Go and through the real Wa pipeline (go2wa -> loader -> types -> SSA -> WAT -> wat2wasm -> embedded engine); distinct = distinct case outputs")
	r.Assume("domain: items whose Go execution panics are dropped (property: Go execution well defined and panic-free)")
	r.Assume("float results are compared as IEEE bit patterns, NaN payloads are not compared")
	r.Assume("float->int conversions only where the truncated value is representable (Go leaves the rest implementation-defined)")
	pool := mc.NewPool(mc.NWorkers(), nil)
	defer pool.Close()
	types := progs.IntTypes
	th := r.Thorough()
	fams := []progs.Family{progs.FamIntBinary(types), progs.FamIntUnary(types), progs.FamShift(types), progs.FamIntConv(types), progs.FamFloat(types),
		progs.FamCtrl(th), progs.FamFunc(th),
		progs.FamDataValue(th), progs.FamDataSlice(th), progs.FamDataString(th), progs.FamDataMap(th), progs.FamDataIface(th)}
	if f := os.Getenv("C01_FAMILY"); f != "" {
		// exact family name, or a prefix: C01_FAMILY=data selects data-value, data-slice, ...
		var sel []progs.Family
		for _, x := range fams {
			if x.Name == f || strings.HasPrefix(x.Name, f+"-") {
				sel = append(sel, x)
			}
		}
		fams = sel
	}
	progs.Run(r, pool, fams, progs.Options{CasesPerProgram: 12, KeyPrefix: "C01"})
	r.Extra("skipped_same_key_after_build_failure", progs.SkippedSameKey())
	r.Finish()
}
