//go:build go1.21

// C09: the Chinese (.wz) and English (.wa) syntaxes mean the same thing.
//
// Every program is available in both syntaxes: the English text comes from the repository's own
// go2wa path, the Chinese text from engine/wzgen (syntax tree -> Chinese spelling, using only the
// established spellings; programs that need a construct without one are left out and counted).
// For every program the two texts go through the real loader + type checker + SSA + WAT backend
// + assembler + embedded engine, and are compared on
//
//	accept  both front ends accept, or both reject
//	types   the sequence of declared names (source order) has the same object kinds and types
//	        (Chinese predeclared names translated through the universe table)
//	output  every exported case function prints the same and terminates the same way
//
// (1) keyword/universe matrix: one minimal program per Chinese keyword, predeclared type,
// constant and builtin, and the full-width selector, each asserting that its Chinese text really
// contains the spelling under test; negative entries (ill-typed in both syntaxes) keep the
// accept/reject comparison non-vacuous; hand-written pairs cover `main`/`主控`, `init`/`准备`
// through api.RunCode.
// (2) corpus: representatives of every canonical class (item key) of every C01 family.
package main

import (
	"encoding/json"
	"fmt"
	"os"
	"regexp"
	"sort"
	"strings"
	"sync"
	"time"

	"wa-lang.org/wa/api"
	"wa-lang.org/wa/internal/ast"
	"wa-lang.org/wa/internal/backends/compiler_wat"
	"wa-lang.org/wa/internal/token"
	"wa-lang.org/wa/internal/types"
	"wa-lang.org/wa/internal/wat/watutil"
	"wa-lang.org/wa/internal/zzverif/mc"
	"wa-lang.org/wa/internal/zzverif/progs"
	"wa-lang.org/wa/internal/zzverif/wrun"
	"wa-lang.org/wa/internal/zzverif/wzgen"
)

type job struct {
	GoSrc  string // WaGo source with N case functions (rendered to .wa and .wz by the worker)
	N      int
	Wa, Wz string   // or: explicit texts (hand-written pair), run through api.RunCode (func main / 函数·主控)
	Must   []string // spellings the Chinese text has to contain
	Strict bool     // no tolerance for the 皮囊/空 type-string defect
	Side   string   // "" = both sides in one process; "wa" / "wz" = only that side (used after a process died)
}

type sideRes struct {
	LoadErr    string
	Types      []string
	CompileErr string
	Out        []wrun.CaseResult
}

type jobRes struct {
	Err         string // harness-level failure (go2wa, wzgen internal error)
	Unsupported string
	MissingMust string
	Wa, Wz      sideRes
	WaText      string
	WzText      string
}

var posRe = regexp.MustCompile(`\(?[A-Za-z0-9_./-]*\.w[az]:\d+:\d+\)?:?`)

func firstLine(s string) string {
	if i := strings.IndexByte(s, '\n'); i >= 0 {
		return s[:i]
	}
	return s
}

func objKind(o types.Object) string {
	switch o := o.(type) {
	case *types.Var:
		if o.IsField() {
			return "field"
		}
		return "var"
	case *types.Func:
		return "func"
	case *types.TypeName:
		return "type"
	case *types.Const:
		return "const " + o.Val().ExactString()
	case *types.Label:
		return "label"
	case *types.PkgName:
		return "pkgname"
	case *types.Builtin:
		return "builtin"
	case *types.Nil:
		return "nil"
	}
	return fmt.Sprintf("%T", o)
}

// normType makes the type strings of the two front ends comparable: Chinese predeclared names ->
// English, the short English spellings (i32, f64 ...) -> the long ones.
//
// internal/types/typestring.go prints the Chinese `any` (皮囊) as 空 (the name of nil). That one
// defect would put a `types` difference on every program that mentions interface{}; it is checked
// strictly only by the matrix entry "any" (strict) and tolerated everywhere else.
func normType(s string, zh, strict bool) string {
	if zh {
		if !strict {
			s = strings.ReplaceAll(s, token.K_空, token.K_皮囊)
		}
		s = wzgen.ToEnglish(s)
	}
	s = anyRe.ReplaceAllString(s, "interface{}")
	for _, p := range [][2]string{{"__wa_i8", "int8"}, {"__wa_i16", "int16"}} {
		s = strings.ReplaceAll(s, p[0], p[1])
	}
	return shortRe.ReplaceAllStringFunc(s, func(m string) string { return shortNames[m] })
}

var shortNames = map[string]string{"i8": "int8", "i16": "int16", "i32": "int32", "i64": "int64", "u8": "uint8", "u16": "uint16", "u32": "uint32", "u64": "uint64", "f32": "float32", "f64": "float64"}
var anyRe = regexp.MustCompile(`\bany\b`)
var shortRe = regexp.MustCompile(`\b(i8|i16|i32|i64|u8|u16|u32|u64|f32|f64)\b`)

func dumpTypes(prog *api.Program, zh, strict bool) []string {
	pkg := prog.Pkgs[prog.Manifest.MainPkg]
	if pkg == nil || pkg.Info == nil {
		return []string{"<no main package>"}
	}
	recv := map[token.Pos]bool{}
	for _, f := range pkg.Files {
		for _, d := range f.Decls {
			if fd, ok := d.(*ast.FuncDecl); ok && fd.Recv != nil {
				for _, fld := range fd.Recv.List {
					for _, n := range fld.Names {
						recv[n.Pos()] = true
					}
				}
			}
		}
	}
	type ent struct {
		pos token.Pos
		s   string
	}
	var es []ent
	q := types.RelativeTo(pkg.Pkg)
	for id, obj := range pkg.Info.Defs {
		if obj == nil {
			continue // package clause, symbolic type-switch variable
		}
		name := id.Name
		if zh {
			switch name {
			case token.K_主控:
				name = "main"
			case token.K_准备:
				name = "init"
			}
		}
		if recv[id.Pos()] || name == token.K_我的 || name == "this" {
			continue // receivers: the implicit 我的 has no position; the receiver type is part of the method entry
		}
		ts := "<nil>"
		if obj.Type() != nil {
			ts = normType(types.TypeString(obj.Type(), q), zh, strict)
		}
		if f, ok := obj.(*types.Func); ok {
			if sig, ok := f.Type().(*types.Signature); ok && sig.Recv() != nil {
				ts += " receiver " + normType(types.TypeString(sig.Recv().Type(), q), zh, strict)
			}
		}
		es = append(es, ent{id.Pos(), objKind(obj) + " " + name + " " + ts})
	}
	sort.SliceStable(es, func(i, j int) bool { return es[i].pos < es[j].pos })
	out := make([]string, len(es))
	for i, e := range es {
		out[i] = e.s
	}
	return out
}

func runSide(filename, text string, n int, strict bool) (res sideRes) {
	zh := strings.HasSuffix(filename, ".wz")
	var prog *api.Program
	if p := mc.Recover(func() {
		pr, err := api.LoadProgramFile(api.DefaultConfig(), filename, text)
		if err != nil {
			res.LoadErr = firstLine(err.Error())
			return
		}
		prog = pr
	}); p != "" {
		res.LoadErr = "front end panic: " + firstLine(p)
	}
	if prog == nil {
		if res.LoadErr == "" {
			res.LoadErr = "no program"
		}
		return
	}
	if p := mc.Recover(func() { res.Types = dumpTypes(prog, zh, strict) }); p != "" {
		res.Types = []string{"type dump panic: " + p}
	}
	var wp *wrun.WaProg
	if p := mc.Recover(func() {
		wat, err := compiler_wat.New().Compile(prog)
		if err != nil {
			res.CompileErr = "compile: " + firstLine(err.Error())
			return
		}
		wasm, err := watutil.Wat2Wasm(filename, []byte(wat))
		if err != nil {
			res.CompileErr = "wat2wasm: " + firstLine(err.Error())
			return
		}
		wp = &wrun.WaProg{Name: filename, Wat: []byte(wat), Wasm: wasm, Fset: prog.Fset.ToJson()}
	}); p != "" {
		res.CompileErr = "backend panic: " + firstLine(p)
	}
	if wp == nil {
		return
	}
	defer wp.Close()
	for i := 0; i < n; i++ {
		res.Out = append(res.Out, wp.Call(fmt.Sprintf("case_%d", i)))
	}
	return
}

func runMainSide(filename, text string) (res sideRes) {
	zh := strings.HasSuffix(filename, ".wz")
	if p := mc.Recover(func() {
		pr, err := api.LoadProgramFile(api.DefaultConfig(), filename, text)
		if err != nil {
			res.LoadErr = firstLine(err.Error())
			return
		}
		res.Types = dumpTypes(pr, zh, false)
	}); p != "" {
		res.LoadErr = "front end panic: " + firstLine(p)
	}
	if res.LoadErr != "" {
		return
	}
	if p := mc.Recover(func() {
		out, err := api.RunCode(api.DefaultConfig(), filename, text)
		cr := wrun.CaseResult{Out: string(out), Status: "ok"}
		if err != nil {
			cr.Status, cr.Err = "trap", firstLine(err.Error())
		}
		res.Out = []wrun.CaseResult{cr}
	}); p != "" {
		res.CompileErr = "RunCode panic: " + firstLine(p)
	}
	return
}

func handleJob(raw json.RawMessage) interface{} {
	var j job
	if err := json.Unmarshal(raw, &j); err != nil {
		return jobRes{Err: err.Error()}
	}
	var out jobRes
	if j.GoSrc != "" {
		wa, err := wrun.Go2Wa(j.GoSrc)
		if err != nil {
			out.Wa.LoadErr = firstLine(err.Error()) // the English front end (WaGo mode) rejects it: not in the domain
			return out
		}
		out.WaText = wa
		wz, err := wzgen.Render(wa)
		if err != nil {
			if u, ok := err.(*wzgen.Unsupported); ok {
				out.Unsupported = u.What
			} else {
				out.Err = err.Error()
			}
			return out
		}
		out.WzText = wz
		for _, m := range j.Must {
			if !strings.Contains(wz, m) {
				out.MissingMust = m
			}
		}
		if j.Side != "wz" {
			out.Wa = runSide("p.wa", wa, j.N, j.Strict)
		}
		if j.Side != "wa" {
			out.Wz = runSide("p.wz", wz, j.N, j.Strict)
		}
		return out
	}
	out.WaText, out.WzText = j.Wa, j.Wz
	if j.Side != "wz" {
		out.Wa = runMainSide("p.wa", j.Wa)
	}
	if j.Side != "wa" {
		out.Wz = runMainSide("p.wz", j.Wz)
	}
	return out
}

// normOut: booleans print as 真/假 in a .wz program (a separate print routine, waPrintBoolWz, is
// called on purpose); positions inside panic messages name the source file.
func normOut(s string, zh bool) string {
	if zh {
		s = strings.ReplaceAll(strings.ReplaceAll(s, token.K_真, "true"), token.K_假, "false")
	}
	return posRe.ReplaceAllString(s, "<pos>")
}

// ------------------------------------------------------------------------------------------------
// matrix

type mentry struct {
	name  string   // keyword / identifier under test (English name)
	must  []string // Chinese spellings the rendering has to contain
	decls string
	body  string
}

func intProbe(t string) string {
	return fmt.Sprintf("\tvar x %[1]s = 1\n\tn := 0\n\tfor x != 0 {\n\t\tx <<= 1\n\t\tn++\n\t}\n\tvar z %[1]s\n\tz--\n\tprintln(n, z > 0, z == %[1]s(0)-1)\n", t)
}

func matrix() []mentry {
	m := []mentry{
		{"const", []string{"常量·", "常量:"}, "const mc = 7\nconst (\n\tma = iota\n\tmb\n\tmd = mb * 10\n)\n", "\tprintln(mc, ma, mb, md)\n"},
		{"global", []string{"全局·", "全局:"}, "var mg int32 = 5\nvar mh, mi = \"s\", true\nvar (\n\tmj = 1.5\n\tmk [2]int32\n)\n", "\tmg++\n\tprintln(mg, mh, mi, mj > 1, mk[1])\n"},
		{"func", []string{"函数"}, "func mf(a, b int32) int32 { return a*10 + b }\nfunc mv(xs ...int32) int { return len(xs) }\nfunc mn() (r int32, s string) {\n\tr, s = 1, \"n\"\n\treturn\n}\n", "\tprintln(mf(1, 2), mv(), mv(1, 2, 3))\n\tprintln(mn())\n\tf := func(x int32) int32 { return x + 1 }\n\tprintln(f(1))\n"},
		{"struct", []string{"结构"}, "type MS struct {\n\ta, b int32\n\ts    string\n\tp    *MS\n}\n", "\tv := MS{1, 2, \"s\", nil}\n\tw := MS{b: 5}\n\tw.p = &v\n\tprintln(v.a, v.s, w.b, w.p.b, w.a)\n"},
		{"map", []string{"字典"}, "", "\tm := map[string]int32{\"a\": 1}\n\tvar n map[int32]bool\n\tm[\"b\"] = 2\n\tv, ok := m[\"c\"]\n\tprintln(len(m), m[\"a\"], v, ok, n == nil)\n"},
		{"interface", []string{"接口"}, "type MI interface {\n\tGet() int32\n\tSet(v int32)\n}\ntype MT struct{ v int32 }\n\nfunc (t *MT) Get() int32  { return t.v }\nfunc (t *MT) Set(v int32) { t.v = v }\n", "\tvar i MI = &MT{1}\n\ti.Set(i.Get() + 4)\n\tprintln(i.Get())\n"},
		{"var (local)", []string{"设定"}, "", "\tvar a int32\n\tvar b, c = 2, \"c\"\n\tvar d uint8 = 255\n\td++\n\tprintln(a, b, c, int64(d))\n"},
		{"if", []string{"如果"}, "", "\tx := 3\n\tif x > 2 {\n\t\tprintln(\"gt\")\n\t}\n\tif y := x * 2; y > 10 {\n\t\tprintln(\"big\")\n\t}\n"},
		{"else if", []string{"或者"}, "", "\tfor x := 0; x < 4; x++ {\n\t\tif x == 0 {\n\t\t\tprintln(\"zero\")\n\t\t} else if x == 1 {\n\t\t\tprintln(\"one\")\n\t\t} else if y := x * 2; y == 4 {\n\t\t\tprintln(\"two\", y)\n\t\t} else {\n\t\t\tprintln(\"many\", y)\n\t\t}\n\t}\n"},
		{"else", []string{"否则"}, "", "\tfor x := 0; x < 2; x++ {\n\t\tif x == 0 {\n\t\t\tprintln(\"zero\")\n\t\t} else {\n\t\t\tprintln(\"other\")\n\t\t}\n\t}\n"},
		{"switch", []string{"找辙"}, "", "\tfor x := 0; x < 4; x++ {\n\t\tswitch x {\n\t\tcase 0:\n\t\t\tprintln(\"a\")\n\t\tcase 1, 2:\n\t\t\tprintln(\"b\")\n\t\t}\n\t\tswitch {\n\t\tcase x > 2:\n\t\t\tprintln(\"c\")\n\t\t}\n\t\tswitch y := x + 1; y {\n\t\tcase 4:\n\t\t\tprintln(\"d\")\n\t\t}\n\t}\n"},
		{"case", []string{"有辙"}, "", "\tfor x := 0; x < 3; x++ {\n\t\tswitch x {\n\t\tcase 0:\n\t\tcase 1:\n\t\t\tprintln(\"one\")\n\t\tcase 2, 3:\n\t\t\tprintln(\"two\")\n\t\t}\n\t}\n"},
		{"default", []string{"没辙"}, "", "\tfor x := 0; x < 3; x++ {\n\t\tswitch x {\n\t\tdefault:\n\t\t\tprintln(\"d\", x)\n\t\tcase 1:\n\t\t\tprintln(\"one\")\n\t\t}\n\t}\n\tvar e interface{} = \"s\"\n\tswitch e.(type) {\n\tcase int32:\n\t\tprintln(\"i\")\n\tdefault:\n\t\tprintln(\"other\")\n\t}\n"},
		{"type switch", []string{"找辙", "类型"}, "", "\tfor _, e := range []interface{}{int32(1), \"s\", nil, 2.5} {\n\t\tswitch v := e.(type) {\n\t\tcase int32:\n\t\t\tprintln(\"i32\", v)\n\t\tcase string:\n\t\t\tprintln(\"str\", v)\n\t\tcase nil:\n\t\t\tprintln(\"nil\")\n\t\tdefault:\n\t\t\tprintln(\"other\")\n\t\t}\n\t}\n"},
		{"for", []string{"循环"}, "", "\tfor i := 0; i < 2; i++ {\n\t\tprintln(\"a\", i)\n\t}\n\tj := 0\n\tfor j < 2 {\n\t\tj++\n\t}\n\tfor {\n\t\tj++\n\t\tif j > 4 {\n\t\t\tbreak\n\t\t}\n\t}\n\tfor ; j < 7; j++ {\n\t}\n\tprintln(j)\n"},
		{"range", []string{"迭代"}, "", "\tfor i, v := range []int32{5, 6} {\n\t\tprintln(i, v)\n\t}\n\tfor i := range [2]int32{} {\n\t\tprintln(i)\n\t}\n\tfor range \"ab\" {\n\t\tprintln(\"x\")\n\t}\n\tfor i, c := range \"a\\u4e16\" {\n\t\tprintln(i, int64(c))\n\t}\n\tvar k int\n\tvar w int32\n\tfor k, w = range []int32{7} {\n\t}\n\tprintln(k, w)\n\tfor k, v := range map[int32]int32{1: 2} {\n\t\tprintln(k, v)\n\t}\n"},
		{"continue", []string{"继续"}, "", "\tfor i := 0; i < 4; i++ {\n\t\tif i%2 == 0 {\n\t\t\tcontinue\n\t\t}\n\t\tprintln(i)\n\t}\n"},
		{"break", []string{"跳出"}, "", "\tfor i := 0; i < 4; i++ {\n\t\tif i == 2 {\n\t\t\tbreak\n\t\t}\n\t\tprintln(i)\n\t}\n\tswitch {\n\tcase true:\n\t\tif true {\n\t\t\tbreak\n\t\t}\n\t\tprintln(\"unreached\")\n\t}\n\tprintln(\"end\")\n"},
		{"defer", []string{"押后"}, "func md() {\n\tfor i := 0; i < 2; i++ {\n\t\tdefer println(\"d\", i)\n\t}\n\tdefer func() { println(\"f\") }()\n\tprintln(\"body\")\n}\n", "\tmd()\n"},
		{"return", []string{"返回"}, "func mr(x int32) (int32, bool) {\n\tif x > 0 {\n\t\treturn x, true\n\t}\n\treturn 0, false\n}\nfunc mq() {\n\tprintln(\"q\")\n\treturn\n}\n", "\tprintln(mr(1))\n\tprintln(mr(-1))\n\tmq()\n"},
		{"block", []string{"区块"}, "", "\tx := 1\n\t{\n\t\tx := 2\n\t\tx++\n\t\tprintln(x)\n\t}\n\tprintln(x)\n"},
		{"this", []string{"我的"}, "type MR struct{ n int32 }\n\nfunc (r *MR) Inc() *MR {\n\tr.n++\n\treturn r\n}\n", "\tr := &MR{}\n\tprintln(r.Inc().Inc().n)\n"},
		{"receiver by value", []string{"函数·(v: MV)"}, "type MV struct{ n int32 }\n\nfunc (v *MV) P() int32 { return v.n }\nfunc (v MV) Keep() {}\n", "\tv := MV{3}\n\tprintln(v.P())\n"},
		{"selector (full-width)", []string{"·"}, "type MP struct {\n\tin struct0\n\tn  int32\n}\ntype struct0 struct{ q int32 }\n", "\tp := &MP{struct0{4}, 5}\n\tp.in.q++\n\tprintln(p.in.q, p.n, (*p).n)\n"},
		{"nil", []string{"空"}, "", "\tvar p *int32\n\tvar s []int32\n\tvar m map[int32]int32\n\tvar f func()\n\tvar e interface{}\n\tprintln(p == nil, s == nil, m == nil, f == nil, e == nil)\n\ts = nil\n\te = nil\n"},
		{"true", []string{"真"}, "", "\tx := true\n\tif x && true {\n\t\tprintln(1)\n\t}\n\tprintln(true == x)\n"},
		{"const (local)", []string{"常量"}, "", "\tconst c = 5\n\tconst d, e = c + 1, \"s\"\n\tprintln(c, d, e)\n"},
		{"const (local block)", []string{"常量:"}, "", "\tconst (\n\t\tp = iota + 1\n\t\tq\n\t)\n\tprintln(p, q)\n"},
		{"var (local block)", []string{"设定:"}, "", "\tvar (\n\t\tp int32 = 1\n\t\tq = \"s\"\n\t)\n\tprintln(p, q)\n"},
		{"false", []string{"假"}, "", "\tx := false\n\tif x || false {\n\t\tprintln(1)\n\t}\n\tprintln(!x, x == false)\n"},
		{"iota", []string{"嘀嗒"}, "const (\n\ti0 = iota * 2\n\ti1\n\ti2 = 1 << iota\n)\n", "\tprintln(i0, i1, i2)\n"},
		{"bool", []string{"布尔"}, "", "\tvar b bool\n\tc := bool(1 > 0)\n\tprintln(b, c, b != c)\n"},
		{"byte", []string{"字节"}, "", intProbe("byte") + "\tbs := []byte(\"az\")\n\tprintln(len(bs), int64(bs[1]))\n"},
		{"rune", []string{"符文"}, "", intProbe("rune") + "\trs := []rune(\"a\\u4e16\")\n\tprintln(len(rs), int64(rs[1]))\n"},
		{"string", []string{"字串"}, "", "\tvar s string\n\tt := string([]byte{104, 105})\n\tprintln(s == \"\", t, len(t+s))\n"},
		{"any", []string{"皮囊"}, "", "\tvar e interface{}\n\te = int32(4)\n\tv, ok := e.(int32)\n\tprintln(v, ok)\n\txs := []interface{}{1, \"a\"}\n\tprintln(len(xs))\n"},
		{"float32", []string{"单精"}, "", "\tvar f float32 = 16777216\n\tg := f + 1\n\tprintln(g == f, float32(0.1) == 0.1)\n\th := float32(1) / 3\n\tprintln(int64(h * 3000000))\n"},
		{"float64", []string{"双精"}, "", "\tvar f float64 = 16777216\n\tg := f + 1\n\tprintln(g == f, int64(g))\n\th := float64(1) / 3\n\tprintln(int64(h * 3000000000))\n"},
		{"complex64", []string{"单复"}, "", "\tvar c complex64 = complex(1, 2)\n\tprintln(int64(real(c)), int64(imag(c)))\n"},
		{"complex128", []string{"双复"}, "", "\tvar c complex128 = complex(3, 4)\n\tc = c * c\n\tprintln(int64(real(c)), int64(imag(c)))\n"},
		{"error", []string{"错误"}, "", "\tvar e error\n\tprintln(e == nil)\n"},
		{"init", []string{"准备"}, "var gi int32\n\nfunc init() { gi = 41 }\n", "\tgi++\n\tprintln(gi)\n"},
		{"append", []string{"追加"}, "", "\tvar s []int32\n\ts = append(s, 1)\n\ts = append(s, 2, 3)\n\ts = append(s, s...)\n\tprintln(len(s), s[5])\n"},
		{"cap", []string{"容量"}, "", "\ts := make([]int32, 1, 5)\n\tvar a [3]int32\n\tprintln(cap(s), cap(s[1:]), cap(a))\n"},
		{"complex/real/imag", []string{"复数", "实部", "虚部"}, "", "\tc := complex(1.5, -2)\n\tprintln(int64(real(c)*2), int64(imag(c)))\n"},
		{"copy", []string{"拷贝"}, "", "\ta := []int32{1, 2, 3}\n\tb := make([]int32, 2)\n\tn := copy(b, a)\n\tbs := make([]byte, 3)\n\tk := copy(bs, \"xy\")\n\tprintln(n, b[1], k, int64(bs[1]))\n"},
		{"delete", []string{"删除"}, "", "\tm := map[int32]int32{1: 1, 2: 2}\n\tdelete(m, 1)\n\tdelete(m, 7)\n\tprintln(len(m), m[1], m[2])\n"},
		{"len", []string{"长度"}, "", "\tvar a [4]int32\n\tprintln(len(\"a\\u4e16\"), len(a), len([]int32{1}), len(map[int32]int32{}), len(a[1:3]))\n"},
		{"make", []string{"构建"}, "", "\ts := make([]int32, 2)\n\tt := make([]string, 1, 4)\n\tm := make(map[string]int32)\n\tm[\"k\"] = 1\n\tprintln(len(s), s[1], len(t), cap(t), len(m))\n"},
		{"new", []string{"新建"}, "type MN struct{ a, b int32 }\n", "\tp := new(int32)\n\t*p += 3\n\tq := new(MN)\n\tq.b = *p\n\tprintln(*p, q.a, q.b)\n"},
		{"panic", []string{"崩溃"}, "", "\tprintln(\"before\")\n\tif len(\"x\") == 1 {\n\t\tpanic(\"boom\")\n\t}\n\tprintln(\"after\")\n"},
		{"println", []string{"输出"}, "", "\tprintln()\n\tprintln(1, \"a\", true, int64(-5), uint64(18446744073709551615), 'x' == 120)\n\tprintln(\"one\")\n"},
		{"print", []string{"打印"}, "", "\tprint(\"a\")\n\tprint(1)\n\tprint(\"\\n\")\n\tprint(\"b\\n\")\n"},
	}
	for _, t := range [][2]string{{"int", "整型"}, {"uint", "正整"}, {"__wa_i8", "微整型"}, {"__wa_i16", "短整型"}, {"int32", "普整型"}, {"int64", "长整型"}, {"uint8", "微正整"}, {"uint16", "短正整"}, {"uint32", "普正整"}, {"uint64", "长正整"}, {"uintptr", "地址型"}} {
		m = append(m, mentry{t[0], []string{t[1]}, "", intProbe(t[0]) + fmt.Sprintf("\tvar s []%[1]s\n\ts = append(s, 3)\n\tm := map[%[1]s]%[1]s{1: 2}\n\tprintln(len(s), int64(s[0]), int64(m[1]), int64(%[1]s(200)+%[1]s(100)))\n", t[0])})
	}
	// negative entries: rejected by both front ends
	neg := []mentry{
		{"reject: string into int", []string{"整型"}, "", "\tvar x int = \"s\"\n\tprintln(x)\n"},
		{"reject: int32 + int64", []string{"长整型"}, "", "\tvar a int32 = 1\n\tvar b int64 = 2\n\tprintln(a + b)\n"},
		{"reject: undefined name", nil, "", "\tprintln(undefinedName)\n"},
		{"reject: unused variable", nil, "", "\tx := 1\n"},
		{"reject: missing return", []string{"函数"}, "func nr() int32 {\n}\n", "\tprintln(nr())\n"},
		{"reject: break outside loop", []string{"跳出"}, "", "\tbreak\n"},
		{"reject: byte overflow constant", []string{"字节"}, "", "\tvar b byte = 256\n\tprintln(int64(b))\n"},
		{"reject: nil to int", []string{"空"}, "", "\tvar x int32 = nil\n\tprintln(x)\n"},
		{"reject: assign to constant", []string{"常量"}, "const nc = 1\n", "\tnc = 2\n"},
		{"reject: method missing for interface", []string{"接口"}, "type NI interface{ M() }\ntype NT struct{}\n", "\tvar i NI = &NT{}\n\t_ = i\n"},
		{"reject: duplicate case", []string{"有辙"}, "", "\tswitch 1 {\n\tcase 1:\n\tcase 1:\n\t}\n"},
		{"reject: wrong argument count", nil, "func na(a int32) {}\n", "\tna(1, 2)\n"},
	}
	return append(m, neg...)
}

// hand-written pairs run through api.RunCode: entry point and init naming, both selector spellings
func pairs() []struct{ name, wa, wz string } {
	return []struct{ name, wa, wz string }{
		{"main", "func main {\n\tprintln(\"hello\", 40+2)\n}\n", "函数·主控:\n\t输出(\"hello\", 40+2)\n完毕\n"},
		{"main with parentheses, keyword without dot", "func main() {\n\tprintln(1)\n}\n", "函数 主控():\n\t输出(1)\n完毕\n"},
		{"init before main", "global g: int = 1\n\nfunc init {\n\tg = g * 10\n}\n\nfunc main {\n\tprintln(g)\n}\n", "全局 g: 整型 = 1\n\n函数·准备:\n\tg = g * 10\n完毕\n\n函数·主控:\n\t输出(g)\n完毕\n"},
		{"selector written with ASCII dot in .wz", "type T :struct {\n\ta: int\n}\n\nfunc T.Get => int {\n\treturn this.a\n}\n\nfunc main {\n\tt := &T{a: 3}\n\tprintln(t.a, t.Get())\n}\n", "结构·T:\n\ta: 整型\n完毕\n\n函数·T·Get => 整型:\n\t返回 我的.a\n完毕\n\n函数·主控:\n\tt := &T{a: 3}\n\t输出(t.a, t.Get())\n完毕\n"},
		{"selector written with the full-width dot", "type T :struct {\n\ta: int\n}\n\nfunc T.Get => int {\n\treturn this.a\n}\n\nfunc main {\n\tt := &T{a: 3}\n\tprintln(t.a, t.Get())\n}\n", "结构·T:\n\ta: 整型\n完毕\n\n函数·T·Get => 整型:\n\t返回 我的·a\n完毕\n\n函数·主控:\n\tt := &T{a: 3}\n\t输出(t·a, t·Get())\n完毕\n"},
		{"comment", "// note\nfunc main {\n\tprintln(1) // tail\n}\n", "注: note\n函数·主控:\n\t输出(1) // tail\n完毕\n"},
		{"const and global blocks", "const (\n\tA = iota\n\tB\n)\n\nglobal (\n\tx = 1\n\ty = \"s\"\n)\n\nfunc main {\n\tprintln(A, B, x, y)\n}\n", "常量:\n\tA = 嘀嗒\n\tB\n完毕\n\n全局:\n\tx = 1\n\ty = \"s\"\n完毕\n\n函数·主控:\n\t输出(A, B, x, y)\n完毕\n"},
	}
}

// ------------------------------------------------------------------------------------------------

type unitRef struct {
	fam   string
	g     *progs.Group
	items []int
}

func main() {
	if mc.IsWorker() {
		mc.WorkerMain(handleJob)
		return
	}
	r := mc.Start("C09")
	r.Rule("every program exists in both syntaxes (.wa from the repo's go2wa, .wz from the syntax tree through the established Chinese spellings); both go through the real loader, type checker, SSA, WAT backend, assembler and engine; compared: accept/reject, the source-ordered list of declared names with object kind and type, the output of every case; distinct = distinct (accept, output) observations")
	r.Assume("constructs without an established Chinese spelling are left out (counted under left_out): labels and labelled break/continue, named non-struct types, struct/interface type literals, local type declarations, imports, the error.Error method")
	r.Assume("booleans print as 真/假 in .wz programs (a dedicated print routine, deliberate): normalised before comparing; source positions inside panic messages are masked")
	r.Assume("a program the English front end rejects is outside the domain unless the Chinese front end accepts it")
	perKey := mc.Pick(r, 1, 4)
	r.Bound("corpus_items_per_class", perKey)
	pool := mc.NewPool(mc.NWorkers(), nil)
	defer pool.Close()

	leftOut := map[string]int{}
	var loMu sync.Mutex
	bothReject, nonDomain := 0, 0

	// ---- matrix
	ms := matrix()
	var mjobs []job
	for _, e := range ms {
		mjobs = append(mjobs, job{GoSrc: "package main\n\n" + e.decls + "\nfunc Case0() {\n" + e.body + "}\n", N: 1, Must: e.must, Strict: e.name == "any"})
	}
	mres := make([]jobRes, len(mjobs))
	runJobsPerSide(r, pool, mjobs, mres)
	for i, e := range ms {
		res := mres[i]
		key := "C09|matrix|" + e.name
		r.Evals.Add(1)
		replay := map[string]interface{}{"entry": e.name, "wa": res.WaText, "wz": res.WzText}
		switch {
		case res.Err != "":
			r.HarnessError("matrix %s: %s", e.name, res.Err)
			continue
		case res.Unsupported != "":
			r.HarnessError("matrix %s uses a construct without spelling: %s", e.name, res.Unsupported)
			continue
		case res.MissingMust != "":
			r.HarnessError("matrix %s: the Chinese text does not contain %s", e.name, res.MissingMust)
			continue
		}
		neg := strings.HasPrefix(e.name, "reject:")
		if neg && res.Wa.LoadErr == "" {
			r.HarnessError("matrix %s: the English front end accepts the negative entry", e.name)
			continue
		}
		if !neg && res.Wa.LoadErr != "" {
			// the English side does not support the construct at all (e.g. complex numbers): the
			// Chinese side must not either
			nonDomain++
		}
		compare(r, key, e.name, res, 1, nil, replay, &bothReject)
	}
	// hand-written pairs
	ps := pairs()
	var pjobs []job
	for _, p := range ps {
		pjobs = append(pjobs, job{Wa: p.wa, Wz: p.wz})
	}
	pres := make([]jobRes, len(pjobs))
	runJobsPerSide(r, pool, pjobs, pres)
	for i, p := range ps {
		r.Evals.Add(1)
		if pres[i].Wa.LoadErr != "" {
			r.HarnessError("pair %s: the English text is rejected: %s", p.name, pres[i].Wa.LoadErr)
			continue
		}
		compare(r, "C09|pair|"+p.name, p.name, pres[i], 1, nil, map[string]interface{}{"pair": p.name, "wa": p.wa, "wz": p.wz}, &bothReject)
	}

	// ---- corpus: representatives of every class of every C01 family
	// (development aids: C09_PART=matrix skips the corpus, C09_FAMILY=<name or prefix> restricts it)
	fams := progs.AllFamilies(r.Thorough())
	if os.Getenv("C09_PART") == "matrix" {
		fams = nil
	}
	if f := os.Getenv("C09_FAMILY"); f != "" {
		var sel []progs.Family
		for _, x := range fams {
			if x.Name == f || strings.HasPrefix(x.Name, f+"-") {
				sel = append(sel, x)
			}
		}
		fams = sel
	}
	var units []unitRef
	nitems := 0
	for fi := range fams {
		fam := &fams[fi]
		seen := map[string]int{}
		for gi := range fam.Groups {
			g := &fam.Groups[gi]
			var sel []int
			for ii, it := range g.Items {
				if seen[it.Key] >= perKey {
					continue
				}
				seen[it.Key]++
				sel = append(sel, ii)
			}
			if len(sel) > 0 {
				units = append(units, unitRef{fam.Name, g, sel})
				nitems += len(sel)
			}
		}
	}
	r.Bound("corpus_items", nitems)
	// classify: render every selected item on its own (cheap, in process) to find the ones that need
	// a construct without spelling; the rest is packed
	var packed []unitRef
	mc.ParallelFor(len(units), func(ui int) {
		u := units[ui]
		var keep []int
		for _, ii := range u.items {
			src := progs.RenderCases([]progs.CaseSpec{{G: u.g, Items: []int{ii}}})
			wa, err := wrun.Go2Wa(src)
			if err != nil {
				keep = append(keep, ii) // the worker will see the same rejection: handled there
				continue
			}
			if _, err := wzgen.Render(wa); err != nil {
				if un, ok := err.(*wzgen.Unsupported); ok {
					loMu.Lock()
					leftOut[un.What]++
					loMu.Unlock()
					continue
				}
			}
			keep = append(keep, ii)
		}
		units[ui].items = keep
	})
	for _, u := range units {
		if len(u.items) > 0 {
			packed = append(packed, u)
		}
	}
	casesPer := 10
	type prog struct{ us []unitRef }
	var programs []prog
	for lo := 0; lo < len(packed); lo += casesPer {
		programs = append(programs, prog{packed[lo:min(lo+casesPer, len(packed))]})
	}
	mk := func(us []unitRef) job {
		cs := make([]progs.CaseSpec, len(us))
		for i, u := range us {
			cs[i] = progs.CaseSpec{G: u.g, Items: u.items}
		}
		return job{GoSrc: progs.RenderCases(cs), N: len(us)}
	}
	cjobs := make([]job, len(programs))
	for i, p := range programs {
		cjobs[i] = mk(p.us)
	}
	cres := make([]jobRes, len(cjobs))
	runJobs(r, pool, cjobs, cres)
	// a program whose comparison fails as a whole (a front end rejects it, the back end fails, the
	// declarations differ) is run again one case per program, and a case that still fails as a whole
	// one item per program
	var singles []unitRef
	isWhole := func(res jobRes) bool {
		return res.Wa.LoadErr != "" || res.Wz.LoadErr != "" || res.Wa.CompileErr != "" || res.Wz.CompileErr != "" || !sameTypes(res.Wa.Types, res.Wz.Types)
	}
	var retryUnits []unitRef
	for pi, p := range programs {
		res := cres[pi]
		if res.Err != "" {
			r.HarnessError("corpus program %d: %s", pi, res.Err)
			continue
		}
		if res.Unsupported != "" {
			r.HarnessError("corpus program %d: unsupported construct after classification: %s", pi, res.Unsupported)
			continue
		}
		if isWhole(res) {
			retryUnits = append(retryUnits, p.us...)
			continue
		}
		for ci, u := range p.us {
			// items after an item in which both sides stop are run again on their own
			for _, ii := range compareCase(r, u, res, ci) {
				singles = append(singles, unitRef{u.fam, u.g, []int{ii}})
			}
		}
	}
	if len(retryUnits) > 0 && !r.Expired() {
		ujobs := make([]job, len(retryUnits))
		for i, u := range retryUnits {
			ujobs[i] = mk([]unitRef{u})
		}
		ures := make([]jobRes, len(ujobs))
		runJobs(r, pool, ujobs, ures)
		for i, u := range retryUnits {
			res := ures[i]
			if res.Err != "" {
				r.HarnessError("corpus case %s: %s", u.g.Name, res.Err)
				continue
			}
			if isWhole(res) || res.Unsupported != "" {
				for _, ii := range u.items {
					singles = append(singles, unitRef{u.fam, u.g, []int{ii}})
				}
				continue
			}
			for _, ii := range compareCase(r, u, res, 0) {
				singles = append(singles, unitRef{u.fam, u.g, []int{ii}})
			}
		}
	}
	if len(singles) > 0 && !r.Expired() {
		sjobs := make([]job, len(singles))
		for i, u := range singles {
			sjobs[i] = mk([]unitRef{u})
		}
		sres := make([]jobRes, len(sjobs))
		runJobsPerSide(r, pool, sjobs, sres)
		for i, u := range singles {
			it := u.g.Items[u.items[0]]
			res := sres[i]
			if res.Wa.LoadErr != "" && res.Wz.LoadErr == "" && res.WzText == "" {
				nonDomain++ // go2wa itself rejects the WaGo text
				continue
			}
			if res.Wa.LoadErr != "" && res.Wz.LoadErr != "" {
				nonDomain++
			}
			r.Evals.Add(1)
			compare(r, "C09|corpus|"+it.Key, u.fam+"/"+u.g.Name+" "+it.Desc, res, 1, &u, map[string]interface{}{"family": u.fam, "group": u.g.Name, "item": it.Desc, "wa": res.WaText, "wz": res.WzText}, &bothReject)
		}
	}
	if r.Expired() {
		r.Cap("deadline")
	}
	r.Extra("left_out", leftOut)
	r.Extra("both_reject", bothReject)
	r.Extra("english_side_rejects_or_cannot_compile", nonDomain)
	r.Extra("programs", len(programs)+len(ms)+len(ps))
	if len(fams) > 0 && r.DistinctCount() < 50 {
		r.HarnessError("vacuous: only %d distinct observations", r.DistinctCount())
	}
	r.Finish()
}

func runJobs(r *mc.Run, pool *mc.Pool, jobs []job, out []jobRes) {
	pool.Run(len(jobs), func(i int) interface{} { return jobs[i] }, 10*time.Minute, func(res mc.Result) {
		if res.Status != "ok" {
			// the process died (logger.Fatal in the compiler) or hung: which side did it is unknown
			// here; classify by re-running? the corpus is C01's, where a compiler abort on the English
			// side is C01's finding. Record it as a whole-program failure of both sides.
			out[res.Index] = jobRes{Wa: sideRes{CompileErr: "worker " + res.Status + ": " + tail(res.Stderr, 300)}, Wz: sideRes{CompileErr: "worker " + res.Status}}
			return
		}
		if err := json.Unmarshal(res.Out, &out[res.Index]); err != nil {
			out[res.Index] = jobRes{Err: "bad worker output: " + err.Error()}
		}
	})
}

// runJobsPerSide is runJobs for single-case programs: a program that kills the worker
// (logger.Fatal in the back end) is run again one side per process, so that a crash of one front
// end cannot hide behind the other.
func runJobsPerSide(r *mc.Run, pool *mc.Pool, jobs []job, out []jobRes) {
	runJobs(r, pool, jobs, out)
	var again []int
	for i := range out {
		if strings.HasPrefix(out[i].Wa.CompileErr, "worker ") {
			again = append(again, i)
		}
	}
	if len(again) == 0 {
		return
	}
	ajobs := make([]job, 0, 2*len(again))
	for _, i := range again {
		ja, jz := jobs[i], jobs[i]
		ja.Side, jz.Side = "wa", "wz"
		ajobs = append(ajobs, ja, jz)
	}
	ares := make([]jobRes, len(ajobs))
	runJobs(r, pool, ajobs, ares)
	for k, i := range again {
		a, z := ares[2*k], ares[2*k+1]
		m := a
		m.Wz = z.Wz
		if m.WzText == "" {
			m.WzText = z.WzText
		}
		out[i] = m
	}
}

func tail(s string, n int) string {
	if len(s) > n {
		return s[len(s)-n:]
	}
	return s
}

func sameTypes(a, b []string) bool {
	if len(a) != len(b) {
		return false
	}
	for i := range a {
		if a[i] != b[i] {
			return false
		}
	}
	return true
}

func firstTypeDiff(a, b []string) string {
	for i := 0; i < len(a) || i < len(b); i++ {
		x, y := "<none>", "<none>"
		if i < len(a) {
			x = a[i]
		}
		if i < len(b) {
			y = b[i]
		}
		if x != y {
			return fmt.Sprintf("declaration #%d: .wa has %q, .wz has %q", i, x, y)
		}
	}
	return ""
}

func clip(s string) string {
	if len(s) > 200 {
		return s[:200] + "…"
	}
	return s
}

// compare checks one single-case program completely.
func compare(r *mc.Run, key, what string, res jobRes, n int, u *unitRef, replay map[string]interface{}, bothReject *int) {
	wa, wz := res.Wa, res.Wz
	switch {
	case wa.LoadErr != "" && wz.LoadErr != "":
		*bothReject++
		r.Distinct("both reject")
		return
	case wa.LoadErr != "" || wz.LoadErr != "":
		r.Report(key+"|accept", fmt.Sprintf("%s: .wa front end: %q; .wz front end: %q", what, orOK(wa.LoadErr), orOK(wz.LoadErr)), replay)
		return
	}
	if !sameTypes(wa.Types, wz.Types) {
		r.Report(key+"|types", what+": "+firstTypeDiff(wa.Types, wz.Types), replay)
	}
	if wa.CompileErr != "" || wz.CompileErr != "" {
		if (wa.CompileErr == "") != (wz.CompileErr == "") {
			r.Report(key+"|output", fmt.Sprintf("%s: back end on .wa: %q; on .wz: %q", what, orOK(wa.CompileErr), orOK(wz.CompileErr)), replay)
		} else {
			r.Distinct("both fail to compile")
		}
		return
	}
	for i := 0; i < n && i < len(wa.Out) && i < len(wz.Out); i++ {
		a, b := wa.Out[i], wz.Out[i]
		ao, bo := normOut(a.Out, false), normOut(b.Out, true)
		r.Distinct(a.Status + "|" + ao)
		if a.Status != b.Status || ao != bo {
			r.Report(key+"|output", fmt.Sprintf("%s: .wa prints %q (%s %s), .wz prints %q (%s %s)", what, clip(ao), a.Status, a.Err, clip(bo), b.Status, b.Err), replay)
		}
	}
	if r.WantSample() {
		r.Sample(map[string]interface{}{"what": what, "wz": clip(res.WzText), "declarations": len(wa.Types), "output": clip(outOf(wa))})
	}
}

func outOf(s sideRes) string {
	if len(s.Out) > 0 {
		return s.Out[0].Out
	}
	return ""
}

func orOK(s string) string {
	if s == "" {
		return "accepted"
	}
	return s
}

// compareCase compares the items of one packed case (front ends and types already agreed).
func compareCase(r *mc.Run, u unitRef, res jobRes, ci int) (rerun []int) {
	if ci >= len(res.Wa.Out) || ci >= len(res.Wz.Out) {
		r.HarnessError("case %d missing in worker result", ci)
		return nil
	}
	a, b := res.Wa.Out[ci], res.Wz.Out[ci]
	as, an, _ := progs.SplitItemOutput(a.Out, len(u.items))
	bs, bn, _ := progs.SplitItemOutput(b.Out, len(u.items))
	for k, ii := range u.items {
		it := u.g.Items[ii]
		r.Evals.Add(1)
		key := "C09|corpus|" + it.Key + "|output"
		what := u.fam + "/" + u.g.Name + " " + it.Desc
		replay := map[string]interface{}{"family": u.fam, "group": u.g.Name, "item": it.Desc, "stmts": it.Stmts, "case": ci, "wa": res.WaText, "wz": res.WzText}
		switch {
		case k < an && k < bn:
			ao, bo := normOut(as[k], false), normOut(bs[k], true)
			r.Distinct(ao)
			if ao != bo {
				replay["wa_out"], replay["wz_out"] = as[k], bs[k]
				r.Report(key, fmt.Sprintf("%s: .wa prints %q, .wz prints %q", what, clip(ao), clip(bo)), replay)
			}
		case k >= an && k >= bn:
			// both stop in the same item (a trap C01 reports for the English side): same behaviour
			r.Distinct("both stop|" + a.Status)
			if an != bn || a.Status != b.Status {
				r.Report(key, fmt.Sprintf("%s: .wa stops in item %d (%s), .wz in item %d (%s)", what, an, a.Status, bn, b.Status), replay)
			}
			return u.items[k+1:]
		default:
			r.Report(key, fmt.Sprintf("%s: .wa completes %d items (%s %s), .wz %d (%s %s)", what, an, a.Status, a.Err, bn, b.Status, b.Err), replay)
			return u.items[k+1:]
		}
	}
	return nil
}
