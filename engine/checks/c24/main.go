//go:build go1.21

// C24: build-tag expressions evaluate with Boolean semantics, and files of a non-main package are
// included exactly when their constraint is true for the configured target and tags.
//
// Part 1 (in-process, pure functions): every token sequence up to a length bound over
// {a b linux ! && || ( ) " "} behind the prefix "#wa:build " goes through buildtag.Parse and,
// as "//go:build …", through go/build/constraint.Parse (the upstream expr.go derives from):
// accept/reject must agree; accepted expressions must Eval alike under every assignment; and
// Parse(String(e)) must be accepted and equivalent. A second sweep enumerates whole lines over a
// segment alphabet that breaks the prefix (missing letters, glued text, leading junk, newlines,
// tabs, NBSP).
//
// Part 2 (worker subprocesses; the loader mutates the types universe and may exit): every
// constraint tree up to a leaf bound × every (cfg.TargetOS, manifest target, cfg.TargetArch,
// ordered tag list: every permutation of every subset of {a,b,c} plus a list with a duplicate
// entry) configuration is loaded through api.LoadProgramVFS as the second file of a
// two-file non-main package; the guarded symbol must be in the package scope iff the formula is
// true. For single-leaf constraints the main package also references the guarded symbol, so the
// whole load must succeed iff the formula is true.
package main

import (
	"encoding/json"
	"fmt"
	"go/build/constraint"
	"strings"
	"sync"
	"testing/fstest"
	"time"

	"wa-lang.org/wa/api"
	"wa-lang.org/wa/internal/config"
	"wa-lang.org/wa/internal/loader/buildtag"
	"wa-lang.org/wa/internal/zzverif/mc"
	wasrc "wa-lang.org/wa/waroot/src"
)

// ---------------------------------------------------------------------------------------------
// assignments

// An assignment is 4 bits: a, b, linux, and "every other tag" (glued tags such as "ab",
// "linuxa", and the junk tags of the prefix sweep).
const nAssign = 16

func okFor(as int) func(string) bool {
	return func(tag string) bool {
		switch tag {
		case "a":
			return as&1 != 0
		case "b":
			return as&2 != 0
		case "linux":
			return as&4 != 0
		}
		return as&8 != 0
	}
}

var okFuncs = func() (fs [nAssign]func(string) bool) {
	for i := range fs {
		fs[i] = okFor(i)
	}
	return
}()

func tableWa(e buildtag.Expr) (t uint32) {
	for as := 0; as < nAssign; as++ {
		if e.Eval(okFuncs[as]) {
			t |= 1 << as
		}
	}
	return
}

func tableGo(e constraint.Expr) (t uint32) {
	for as := 0; as < nAssign; as++ {
		if e.Eval(okFuncs[as]) {
			t |= 1 << as
		}
	}
	return
}

func firstDiff(a, b uint32) string {
	for as := 0; as < nAssign; as++ {
		if (a^b)&(1<<as) != 0 {
			return fmt.Sprintf("a=%v b=%v linux=%v other-tags=%v", as&1 != 0, as&2 != 0, as&4 != 0, as&8 != 0)
		}
	}
	return ""
}

// ---------------------------------------------------------------------------------------------
// part 1: parser / evaluator / printer against go/build/constraint

var tokens = []string{"a", "b", "linux", "!", "&&", "||", "(", ")", " "}

// opsClass is the canonical class of a line for violation keys: which operator kinds occur.
func opsClass(text string) string {
	var c []string
	if strings.Contains(text, "!") {
		c = append(c, "!")
	}
	if strings.Contains(text, "&") {
		c = append(c, "&&")
	}
	if strings.Contains(text, "|") {
		c = append(c, "||")
	}
	if strings.ContainsAny(text, "()") {
		c = append(c, "()")
	}
	if len(c) == 0 {
		return "ops=none"
	}
	return "ops=" + strings.Join(c, ",")
}

type lineStats struct {
	evals    int64
	accepted int64
	strDiff  int64 // String() differs textually from upstream's String() (informational only)
	outcomes map[string]struct{}
}

// checkLine runs one (wa line, go line) pair through both implementations.
func checkLine(r *mc.Run, part, waLine, goLine, class string, st *lineStats) {
	st.evals++
	var we buildtag.Expr
	var werr error
	if p := mc.Recover(func() { we, werr = buildtag.Parse(waLine) }); p != "" {
		r.Report(part+"|parse-panic|"+class, fmt.Sprintf("buildtag.Parse(%q) panics: %s", waLine, p), map[string]any{"line": waLine})
		st.outcomes["panic"] = struct{}{}
		return
	}
	ge, gerr := constraint.Parse(goLine)
	if isWa, isGo := buildtag.IsWaBuild(waLine), constraint.IsGoBuild(goLine); isWa != isGo {
		r.Report(fmt.Sprintf("%s|is-build-line-mismatch|wa=%v", part, isWa),
			fmt.Sprintf("IsWaBuild(%q)=%v but go/build/constraint.IsGoBuild(%q)=%v", waLine, isWa, goLine, isGo), map[string]any{"line": waLine, "go_line": goLine})
	}
	if (werr == nil) != (gerr == nil) {
		dir := "wa-accepts-malformed"
		if werr != nil {
			dir = "wa-rejects-wellformed"
		}
		r.Report(part+"|"+dir+"|"+class,
			fmt.Sprintf("buildtag.Parse(%q): err=%v; go/build/constraint.Parse(%q): err=%v", waLine, werr, goLine, gerr), map[string]any{"line": waLine, "go_line": goLine})
		st.outcomes["mismatch:"+dir] = struct{}{}
		return
	}
	if werr != nil {
		st.outcomes["reject:"+werr.Error()] = struct{}{}
		return
	}
	st.accepted++
	tw, tg := tableWa(we), tableGo(ge)
	if tw != tg {
		r.Report(part+"|eval-mismatch|"+class,
			fmt.Sprintf("%q parsed as %q: Eval differs from the Boolean formula (go/build/constraint) under %s: truth tables wa=%04x go=%04x", waLine, we.String(), firstDiff(tw, tg), tw, tg),
			map[string]any{"line": waLine, "go_line": goLine, "wa_table": tw, "go_table": tg})
	}
	s := we.String()
	if s != ge.String() {
		st.strDiff++
	}
	var we2 buildtag.Expr
	var werr2 error
	if p := mc.Recover(func() { we2, werr2 = buildtag.Parse("#wa:build " + s) }); p != "" {
		r.Report(part+"|reparse-panic|"+class, fmt.Sprintf("Parse(String(e)) panics for %q -> %q: %s", waLine, s, p), map[string]any{"line": waLine, "printed": s})
		return
	}
	if werr2 != nil {
		// class = the parser's complaint about the printed form (independent of the rest of the line)
		r.Report(part+"|printed-form-rejected|"+werr2.Error(), fmt.Sprintf("%q prints as %q which Parse rejects: %v", waLine, s, werr2), map[string]any{"line": waLine, "printed": s})
		return
	}
	if t2 := tableWa(we2); t2 != tw {
		r.Report(part+"|print-reparse-not-equivalent|"+class,
			fmt.Sprintf("%q prints as %q; re-parsed it differs under %s (tables %04x vs %04x)", waLine, s, firstDiff(tw, t2), tw, t2), map[string]any{"line": waLine, "printed": s})
	}
	st.outcomes[fmt.Sprintf("accept:%04x:%s", tw, s)] = struct{}{}
}

func pow(b, e int) int {
	n := 1
	for ; e > 0; e-- {
		n *= b
	}
	return n
}

// decode writes the idx-th sequence of length l over an alphabet of n symbols (most significant
// digit first, so enumeration order is lexicographic in the alphabet order).
func decode(idx, l, n int, out []int) {
	for k := l - 1; k >= 0; k-- {
		out[k] = idx % n
		idx /= n
	}
}

type sweepTotals struct {
	mu       sync.Mutex
	accepted int64
	strDiff  int64
}

// sweep enumerates every sequence of length 0..maxLen over nsym symbols; render gives the
// (wa, go) line pair for a sequence.
func sweep(r *mc.Run, part string, nsym, maxLen int, render func(seq []int) (wa, goLine, class string), tot *sweepTotals) {
	const chunk = 8192
	type shard struct{ l, lo, hi int }
	var shards []shard
	for l := 0; l <= maxLen; l++ {
		n := pow(nsym, l)
		for lo := 0; lo < n; lo += chunk {
			shards = append(shards, shard{l, lo, min(lo+chunk, n)})
		}
	}
	mc.ParallelFor(len(shards), func(i int) {
		if r.Expired() {
			r.Cap("deadline in " + part)
			return
		}
		sh := shards[i]
		st := &lineStats{outcomes: map[string]struct{}{}}
		seq := make([]int, sh.l)
		for idx := sh.lo; idx < sh.hi; idx++ {
			decode(idx, sh.l, nsym, seq)
			wa, gl, class := render(seq)
			checkLine(r, part, wa, gl, class, st)
			if sh.l == 4 && idx%997 == 0 && r.WantSample() {
				_, err := buildtag.Parse(wa)
				r.Sample(map[string]any{"part": part, "line": wa, "oracle_line": gl, "accepted": err == nil})
			}
		}
		r.Evals.Add(st.evals)
		for o := range st.outcomes {
			r.Distinct(part + ":" + o)
		}
		tot.mu.Lock()
		tot.accepted += st.accepted
		tot.strDiff += st.strDiff
		tot.mu.Unlock()
	})
}

// segment alphabet of the malformed-prefix sweep: (wa rendering, go rendering)
var segs = [][2]string{
	{"#wa", "//go"}, {":build", ":build"}, {":buil", ":buil"}, {"d", "d"}, {" ", " "}, {"\t", "\t"},
	{"\n", "\n"}, {"\r", "\r"}, {"\u00a0", "\u00a0"}, {"a", "a"}, {"x", "x"}, {"!", "!"},
}

func prefixClass(seq []int) string {
	// class: is the first segment the marker, and does the line contain a newline
	c := "marker-first"
	if len(seq) == 0 || seq[0] != 0 {
		c = "marker-not-first"
	}
	for _, s := range seq {
		if s == 6 {
			return c + ",newline"
		}
	}
	return c
}

// ---------------------------------------------------------------------------------------------
// part 2: file inclusion through the real loader

type form struct {
	op   byte // 't' tag, '!' not, '&' and, '|' or
	tag  string
	x, y *form
}

func (f *form) eval(ok func(string) bool) bool {
	switch f.op {
	case 't':
		return ok(f.tag)
	case '!':
		return !f.x.eval(ok)
	case '&':
		return f.x.eval(ok) && f.y.eval(ok)
	}
	return f.x.eval(ok) || f.y.eval(ok)
}

// render prints with the fewest parentheses under "! binds tighter than && binds tighter than
// ||", both operators left-associative; the rendering is validated against go/build/constraint
// before use (selfCheckForms).
func (f *form) render() string {
	switch f.op {
	case 't':
		return f.tag
	case '!':
		if f.x.op == 't' {
			return "!" + f.x.tag
		}
		return "!(" + f.x.render() + ")"
	case '&':
		l, rr := f.x.render(), f.y.render()
		if f.x.op == '|' {
			l = "(" + l + ")"
		}
		if f.y.op == '|' || f.y.op == '&' {
			rr = "(" + rr + ")"
		}
		return l + " && " + rr
	}
	l, rr := f.x.render(), f.y.render()
	if f.y.op == '|' {
		rr = "(" + rr + ")"
	}
	return l + " || " + rr
}

// kinds is the set of atom kinds (tag / os / arch) among the leaves, as a bit set.
func (f *form) kinds() int {
	switch f.op {
	case 't':
		switch f.tag {
		case "a", "b":
			return 1
		case "linux", "js":
			return 2
		}
		return 4
	case '!':
		return f.x.kinds()
	}
	return f.x.kinds() | f.y.kinds()
}

func (f *form) hasTag(t string) bool {
	switch f.op {
	case 't':
		return f.tag == t
	case '!':
		return f.x.hasTag(t)
	}
	return f.x.hasTag(t) || f.y.hasTag(t)
}

func (f *form) leaves() int {
	switch f.op {
	case 't':
		return 1
	case '!':
		return f.x.leaves()
	}
	return f.x.leaves() + f.y.leaves()
}

// tagListClass classifies the configured tag list of a (smallest) witness.
func tagListClass(tags []string) string {
	if len(tags) == 0 {
		return "none"
	}
	seen := map[string]bool{}
	sorted := true
	for i, t := range tags {
		if seen[t] {
			return "duplicate-entry"
		}
		seen[t] = true
		if i > 0 && tags[i-1] > t {
			sorted = false
		}
	}
	if !sorted {
		return "not-ascending"
	}
	return "ascending"
}

func kindsString(k int) string {
	var ks []string
	for i, n := range []string{"tag", "os", "arch"} {
		if k&(1<<i) != 0 {
			ks = append(ks, n)
		}
	}
	return strings.Join(ks, "+")
}

// forms returns every formula with exactly n leaves over atoms; a negation is never applied to a
// negation (the grammar rejects "!!", and "!(!x)" adds nothing).
func forms(atoms []string, n int, memo map[int][]*form) []*form {
	if fs, ok := memo[n]; ok {
		return fs
	}
	var out []*form
	if n == 1 {
		for _, a := range atoms {
			t := &form{op: 't', tag: a}
			out = append(out, t, &form{op: '!', x: t})
		}
	} else {
		for k := 1; k < n; k++ {
			for _, op := range []byte{'&', '|'} {
				for _, l := range forms(atoms, k, memo) {
					for _, rr := range forms(atoms, n-k, memo) {
						nd := &form{op: op, x: l, y: rr}
						out = append(out, nd, &form{op: '!', x: nd})
					}
				}
			}
		}
	}
	memo[n] = out
	return out
}

type Cfg struct {
	OS       string // cfg.TargetOS ("" = leave unset)
	Manifest string // target = "…" in wa.mod ("" = absent)
	Arch     string // cfg.TargetArch
	Tags     []string
}

func (c Cfg) String() string {
	return fmt.Sprintf("TargetOS=%q manifest.target=%q TargetArch=%q tags=%v", c.OS, c.Manifest, c.Arch, c.Tags)
}

// truth is the oracle's tag assignment for a configuration: the tags the loader defines for a
// target are the effective OS (cfg.TargetOS, else the manifest's target, else the default OS),
// the front end's architecture, and the user tags.
func (c Cfg) truth() func(string) bool {
	os_ := c.OS
	if os_ == "" {
		os_ = c.Manifest
	}
	if os_ == "" {
		os_ = config.WaOS_Default
	}
	return func(tag string) bool {
		if tag == os_ || tag == config.WaArch_Default {
			return true
		}
		for _, t := range c.Tags {
			if t == tag {
				return true
			}
		}
		return false
	}
}

type Job struct {
	Cfg         Cfg
	Constraints []string
	Layout      int  // 0: constraint is the first line; 1: after a leading comment and a blank line
	Ref         bool // main references the guarded symbol of constraint 0 (single-constraint jobs)
}

type JobResult struct {
	Resolved []bool
	BaseOK   bool
	Err      string // load error
	Panic    string
}

func guardedFile(constraintText string, layout, i int) string {
	body := fmt.Sprintf("global Guarded: i32 = %d\n", 100+i)
	switch layout {
	case 0:
		return "#wa:build " + constraintText + "\n\n" + body
	}
	return "// guarded file\n\n#wa:build " + constraintText + "\n\n" + body
}

func handleJob(raw json.RawMessage) interface{} {
	var j Job
	if err := json.Unmarshal(raw, &j); err != nil {
		return JobResult{Panic: "job decode: " + err.Error()}
	}
	if len(j.Constraints) == 0 {
		return JobResult{} // placeholder job handed out after the deadline
	}
	m := fstest.MapFS{}
	if j.Cfg.Manifest != "" {
		// JSON manifest: the TOML decoder matches keys against field names / toml tags and
		// Manifest_package carries json tags only, so `target = "…"` in a TOML wa.mod is not read.
		m["wa.mod.json"] = &fstest.MapFile{Data: []byte(fmt.Sprintf(`{"name":"myapp","pkgpath":"myapp","version":"0.0.1","target":%q}`, j.Cfg.Manifest))}
	} else {
		m["wa.mod"] = &fstest.MapFile{Data: []byte("name = \"myapp\"\npkgpath = \"myapp\"\nversion = \"0.0.1\"\n")}
	}
	var mainSrc strings.Builder
	for i := range j.Constraints {
		fmt.Fprintf(&mainSrc, "import \"myapp/s%d\"\n", i)
	}
	mainSrc.WriteString("\nfunc main {\n")
	for i, c := range j.Constraints {
		fmt.Fprintf(&mainSrc, "\tprintln(s%d.Base)\n", i)
		m[fmt.Sprintf("s%d/a.wa", i)] = &fstest.MapFile{Data: []byte(fmt.Sprintf("global Base: i32 = %d\n", i))}
		m[fmt.Sprintf("s%d/g.wa", i)] = &fstest.MapFile{Data: []byte(guardedFile(c, j.Layout, i))}
	}
	if j.Ref {
		mainSrc.WriteString("\tprintln(s0.Guarded)\n")
	}
	mainSrc.WriteString("}\n")
	m["main.wa"] = &fstest.MapFile{Data: []byte(mainSrc.String())}

	cfg := api.DefaultConfig()
	cfg.TargetOS = j.Cfg.OS
	cfg.TargetArch = j.Cfg.Arch
	cfg.BuilgTags = j.Cfg.Tags
	var res JobResult
	res.Panic = mc.Recover(func() {
		// Std is given explicitly: with Std == nil the loader copies the VFS before filling in the
		// default and dereferences a nil fs.FS (not part of this property).
		prog, err := api.LoadProgramVFS(&config.PkgVFS{App: m, Std: wasrc.GetStdFS(), Vendor: fstest.MapFS{}}, cfg, ".")
		if err != nil {
			res.Err = err.Error()
			return
		}
		res.BaseOK = true
		for i := range j.Constraints {
			p := prog.Pkgs[fmt.Sprintf("myapp/s%d", i)]
			if p == nil || p.Pkg == nil {
				res.Err = fmt.Sprintf("package myapp/s%d not loaded", i)
				return
			}
			if p.Pkg.Scope().Lookup("Base") == nil {
				res.BaseOK = false
			}
			res.Resolved = append(res.Resolved, p.Pkg.Scope().Lookup("Guarded") != nil)
		}
	})
	return res
}

func selfCheckForms(r *mc.Run, fs []*form, atoms []string) {
	for _, f := range fs {
		e, err := constraint.Parse("//go:build " + f.render())
		if err != nil {
			r.HarnessError("generator renders %q which go/build/constraint rejects: %v", f.render(), err)
			return
		}
		for as := 0; as < 1<<len(atoms); as++ {
			ok := func(tag string) bool {
				for i, a := range atoms {
					if a == tag {
						return as&(1<<i) != 0
					}
				}
				return false
			}
			if e.Eval(ok) != f.eval(ok) {
				r.HarnessError("generator: rendering %q does not mean the tree it was rendered from", f.render())
				return
			}
		}
	}
}

func inclusion(r *mc.Run) {
	tagAtoms := []string{"a", "b", "linux"}
	allAtoms := []string{"a", "b", "linux", "js", "wasm", "x64"}
	// fs = small ++ bigTag ++ bigRest. small: every formula with <= 2 leaves over all six atoms;
	// bigTag: the 3-leaf formulas over {a,b,linux}; bigRest (thorough): the other 3-leaf formulas
	// over all six atoms.
	var fs []*form
	maxLeaves := 3
	memo := map[int][]*form{}
	for n := 1; n <= 2; n++ {
		fs = append(fs, forms(allAtoms, n, memo)...)
	}
	nSmall := len(fs)
	fs = append(fs, forms(tagAtoms, 3, map[int][]*form{})...)
	nTag := len(fs)
	if r.Thorough() {
		for _, f := range forms(allAtoms, 3, memo) {
			if f.kinds()&4 != 0 || f.hasTag("js") {
				fs = append(fs, f)
			}
		}
		r.Bound("inclusion_atoms", allAtoms)
	} else {
		r.Bound("inclusion_atoms", map[string]any{"leaves<=2": allAtoms, "leaves=3": tagAtoms})
	}
	r.Bound("inclusion_max_leaves", maxLeaves)
	selfCheckForms(r, fs, allAtoms)

	// Configured tags are ORDERED lists (cfg.BuilgTags is a slice the user fills in any order):
	// every permutation of every subset of {a,b,c}, plus one list with a duplicate entry. The
	// constraints only mention a and b; c is a bystander. "base" lists are the ascending lists over
	// {a,b}; the others are "extra".
	baseLists := [][]string{{}, {"a"}, {"b"}, {"a", "b"}}
	var extraLists [][]string
	{
		alpha := []string{"a", "b", "c"}
		var rec func(cur []string, used int, n int)
		rec = func(cur []string, used int, n int) {
			if len(cur) == n {
				l := append([]string(nil), cur...)
				for _, b := range baseLists {
					if strings.Join(b, ",") == strings.Join(l, ",") {
						return
					}
				}
				extraLists = append(extraLists, l)
				return
			}
			for i, t := range alpha {
				if used&(1<<i) == 0 {
					rec(append(cur, t), used|1<<i, n)
				}
			}
		}
		for n := 1; n <= 3; n++ {
			rec(nil, 0, n)
		}
		extraLists = append(extraLists, []string{"a", "a", "b"})
	}
	oms := [][2]string{{"", ""}, {"js", ""}, {"linux", ""}, {"wasm4", ""}, {"windows", ""}, {"", "linux"}, {"js", "linux"}}
	archs := []string{"", "wasm", "x64"}
	var cfgs []Cfg
	for _, om := range oms {
		for _, arch := range archs {
			for _, tags := range baseLists {
				cfgs = append(cfgs, Cfg{om[0], om[1], arch, tags})
			}
		}
	}
	nBase := len(cfgs)
	// extra tag lists: thorough crosses them with every (OS, manifest, arch); quick with the three
	// OS settings that make `linux` false / true via cfg / true via the manifest, arch unset.
	for _, om := range oms {
		for _, arch := range archs {
			if !r.Thorough() && (arch != "" || !(om == [2]string{"", ""} || om == [2]string{"linux", ""} || om == [2]string{"", "linux"})) {
				continue
			}
			for _, tags := range extraLists {
				cfgs = append(cfgs, Cfg{om[0], om[1], arch, tags})
			}
		}
	}
	r.Bound("inclusion_constraints", len(fs))
	r.Bound("inclusion_configurations", len(cfgs))
	r.Bound("inclusion_tag_lists", append(append([][]string{}, baseLists...), extraLists...))
	r.Bound("inclusion_plan", map[string]any{
		"<=2-leaf constraints":                                       "both file layouts in every configuration",
		"3-leaf over {a,b,linux}":                                    mc.Pick(r, "ascending tag lists over {a,b}, TargetArch unset (28 configurations)", "all 84 configurations with ascending tag lists over {a,b}; the other tag lists with TargetArch unset (91)"),
		"3-leaf with js/wasm/x64 (thorough)":                         mc.Pick(r, "not run", "all 84 configurations with ascending tag lists over {a,b}"),
		"configurations with permuted / 3-tag / duplicate tag lists": mc.Pick(r, "TargetOS in {unset, linux, manifest linux}, TargetArch unset (39)", "every (OS, manifest, arch) (273)"),
	})

	texts := make([]string, len(fs))
	for i, f := range fs {
		texts[i] = f.render()
	}

	// jobs: (cfg, layout, chunk of constraints) + (cfg, single-leaf constraint, Ref)
	const pack = 500
	type jobInfo struct {
		job  Job
		idx0 int // index of the first constraint in fs
		ci   int // index of the configuration
	}
	var jobs []jobInfo
	// <=2-leaf constraints: both file layouts in every configuration. 3-leaf constraints: one
	// layout per (chunk, configuration), alternating, so every constraint meets both layouts.
	pairs := int64(0)
	for ci, c := range cfgs {
		for layout := 0; layout < 2; layout++ {
			jobs = append(jobs, jobInfo{Job{Cfg: c, Constraints: texts[:nSmall], Layout: layout}, 0, ci})
			pairs += int64(nSmall)
		}
		hiBig := nSmall // end of the 3-leaf range this configuration gets
		switch {
		case ci < nBase && r.Thorough():
			hiBig = len(fs)
		case ci < nBase && c.Arch == "", ci >= nBase && r.Thorough() && c.Arch == "":
			hiBig = nTag
		}
		for lo := nSmall; lo < hiBig; lo += pack {
			hi := min(lo+pack, hiBig)
			jobs = append(jobs, jobInfo{Job{Cfg: c, Constraints: texts[lo:hi], Layout: (ci + lo/pack) % 2}, lo, ci})
			pairs += int64(hi - lo)
		}
		for i, f := range fs {
			if f.op == 't' || (f.op == '!' && f.x.op == 't') {
				jobs = append(jobs, jobInfo{Job{Cfg: c, Constraints: texts[i : i+1], Layout: 1, Ref: true}, i, ci})
			}
		}
	}

	r.Bound("inclusion_constraint_x_configuration_x_layout", pairs)

	var mu sync.Mutex
	var failed []int
	included, excluded := int64(0), int64(0)

	// A mismatch is first diagnosed: if buildtag.Parse + Eval (in this process) under the oracle's
	// own tag assignment already disagrees with the formula, the evaluator is at fault (the
	// expression sweep reports its class); otherwise the loader is (tag definitions, finding the
	// constraint line, applying the verdict). Loader-side mismatches are collected per
	// (observation, direction, atom kinds) with their smallest witness, and only classes whose atom
	// kinds are minimal under inclusion are reported, so one defect gives a handful of keys.
	type cand struct {
		obs, dir string
		kinds    int
		order    [4]int // leaves, constraint index, configuration index, layout: smallest wins
		what     string
		replay   map[string]any
	}
	cands := map[string]*cand{}
	less := func(a, b [4]int) bool {
		for i := range a {
			if a[i] != b[i] {
				return a[i] < b[i]
			}
		}
		return false
	}
	mismatch := func(obs, dir string, fi int, ji jobInfo, what string) {
		f := fs[fi]
		replay := map[string]any{"cfg": ji.job.Cfg, "constraint": texts[fi], "layout": ji.job.Layout, "ref": ji.job.Ref}
		truth := ji.job.Cfg.truth()
		if e, err := buildtag.Parse("#wa:build " + texts[fi]); err != nil || e.Eval(truth) != f.eval(truth) {
			r.Report("inclusion|"+obs+"|"+dir+"|evaluator", what+" (buildtag.Parse/Eval alone already disagrees with the formula under this configuration's tags)", replay)
			return
		}
		c := &cand{obs, dir, f.kinds(), [4]int{f.leaves(), fi, ji.ci, ji.job.Layout}, what, replay}
		k := fmt.Sprintf("%s|%s|%d", obs, dir, c.kinds)
		mu.Lock()
		if old, ok := cands[k]; !ok || less(c.order, old.order) {
			cands[k] = c
		}
		mu.Unlock()
	}
	flushCands := func() {
		for _, c := range cands {
			minimal := true
			for _, o := range cands {
				if o.obs == c.obs && o.kinds != c.kinds && o.kinds&c.kinds == o.kinds {
					minimal = false
				}
			}
			if minimal {
				r.Report(fmt.Sprintf("inclusion|%s|%s|loader|atoms=%s|tags=%s", c.obs, c.dir, kindsString(c.kinds), tagListClass(cfgs[c.order[2]].Tags)), c.what, c.replay)
			}
		}
	}
	handle := func(ji jobInfo, res mc.Result, final bool) {
		if res.Status != "ok" {
			if !final {
				mu.Lock()
				failed = append(failed, res.Index)
				mu.Unlock()
			}
			return
		}
		var jr JobResult
		if err := json.Unmarshal(res.Out, &jr); err != nil {
			r.HarnessError("worker result: %v", err)
			return
		}
		truth := ji.job.Cfg.truth()
		if jr.Panic != "" {
			r.Report("inclusion|loader-panic", fmt.Sprintf("LoadProgramVFS panics for [%s] with constraints %q…: %s", ji.job.Cfg, ji.job.Constraints[0], jr.Panic),
				map[string]any{"cfg": ji.job.Cfg, "constraints": ji.job.Constraints, "layout": ji.job.Layout})
			return
		}
		if ji.job.Ref {
			want := fs[ji.idx0].eval(truth)
			r.Evals.Add(1)
			got := jr.Err == ""
			r.Distinct(fmt.Sprintf("ref:%v:%v", want, got))
			if got != want {
				dir := "guarded-symbol-unresolved-but-constraint-true"
				if got {
					dir = "guarded-symbol-resolves-but-constraint-false"
				}
				mismatch("reference", dir, ji.idx0, ji,
					fmt.Sprintf("[%s] '#wa:build %s' is %v, but main's reference to the guarded symbol gives load error %q", ji.job.Cfg, texts[ji.idx0], want, jr.Err))
			} else if !got && !strings.Contains(jr.Err, "Guarded") {
				r.HarnessError("reference job failed for another reason: [%s] %q: %s", ji.job.Cfg, texts[ji.idx0], jr.Err)
			}
			return
		}
		if jr.Err != "" {
			if strings.Contains(jr.Err, "#wa:build") {
				r.Report("inclusion|loader-rejects-wellformed-constraint", fmt.Sprintf("[%s] load error: %s", ji.job.Cfg, jr.Err),
					map[string]any{"cfg": ji.job.Cfg, "constraints": ji.job.Constraints, "layout": ji.job.Layout})
			} else {
				r.HarnessError("load failed: [%s] %s", ji.job.Cfg, jr.Err)
			}
			return
		}
		if !jr.BaseOK || len(jr.Resolved) != len(ji.job.Constraints) {
			r.HarnessError("unguarded symbol missing / short result for [%s]", ji.job.Cfg)
			return
		}
		r.Evals.Add(int64(len(jr.Resolved)))
		var inc, exc int64
		for k, got := range jr.Resolved {
			f := fs[ji.idx0+k]
			want := f.eval(truth)
			if got {
				inc++
			} else {
				exc++
			}
			if got != want {
				dir := "excluded-but-constraint-true"
				if got {
					dir = "included-but-constraint-false"
				}
				mismatch("scope", dir, ji.idx0+k, ji,
					fmt.Sprintf("[%s] file with '#wa:build %s' (layout %d): formula is %v but guarded symbol resolves=%v", ji.job.Cfg, texts[ji.idx0+k], ji.job.Layout, want, got))
			}
		}
		mu.Lock()
		included += inc
		excluded += exc
		mu.Unlock()
		if r.WantSample() && ji.idx0 > 0 {
			r.Sample(map[string]any{"part": "inclusion", "cfg": ji.job.Cfg.String(), "constraint": ji.job.Constraints[0], "resolved": jr.Resolved[0]})
		}
	}
	// Horizon: a packed load costs ~0.1 s; 10 min classifies a hang only.
	// each worker is sequential (the loader is not reentrant): GOMAXPROCS=2 keeps its GC from fanning out
	err := runBatched(len(jobs), 40*mc.NWorkers(), []string{"GOMAXPROCS=2"}, func(i int) interface{} {
		if r.Expired() {
			r.Cap("deadline in inclusion sweep")
			return Job{} // empty job: nothing is loaded
		}
		return jobs[i].job
	}, 10*time.Minute, func(res mc.Result) {
		if r.Expired() {
			return
		}
		handle(jobs[res.Index], res, false)
	})
	if err != nil {
		r.HarnessError("pool: %v", err)
	}
	// Jobs whose worker died or hung: split into single constraints and confirm 5× alone.
	for _, fi := range failed {
		ji := jobs[fi]
		for k := range ji.job.Constraints {
			one := jobInfo{Job{Cfg: ji.job.Cfg, Constraints: ji.job.Constraints[k : k+1], Layout: ji.job.Layout, Ref: ji.job.Ref}, ji.idx0 + k, ji.ci}
			bad, status, tail := 0, "", ""
			var good mc.Result
			for t := 0; t < 5; t++ {
				mc.RunPool(1, 1, func(int) interface{} { return one.job }, 5*time.Minute, nil, func(res mc.Result) {
					if res.Status != "ok" {
						bad++
						status, tail = res.Status, res.Stderr
					} else {
						good = res
					}
				})
				if bad == 0 {
					break
				}
			}
			switch {
			case bad == 0:
				handle(one, good, true)
			case bad == 5:
				r.Evals.Add(1)
				r.Report("inclusion|loader-"+status, fmt.Sprintf("[%s] loading a package with '#wa:build %s' ends the process (%s, 5/5): %s", one.job.Cfg, one.job.Constraints[0], status, lastLine(tail)),
					map[string]any{"cfg": one.job.Cfg, "constraint": one.job.Constraints[0], "layout": one.job.Layout, "ref": one.job.Ref})
			default:
				r.HarnessError("flaky worker failure (%d/5) for [%s] %q", bad, one.job.Cfg, one.job.Constraints[0])
			}
		}
	}
	flushCands()
	r.Extra("inclusion_included", included)
	r.Extra("inclusion_excluded", excluded)
	if (included == 0 || excluded == 0) && r.ViolationCount() == 0 {
		r.HarnessError("vacuous: inclusion sweep saw included=%d excluded=%d", included, excluded)
	}
}

// runBatched is Pool.Run with the worker processes replaced after every batch: a long-lived
// process keeps ~2 MB per loaded program reachable (loader/compiler globals), so workers are
// recycled to keep memory modest.
func runBatched(njobs, batch int, env []string, job func(i int) interface{}, horizon time.Duration, handle func(mc.Result)) error {
	for lo := 0; lo < njobs; lo += batch {
		hi := min(lo+batch, njobs)
		pool := mc.NewPool(mc.NWorkers(), env)
		err := pool.Run(hi-lo, func(i int) interface{} { return job(lo + i) }, horizon, func(res mc.Result) {
			res.Index += lo
			handle(res)
		})
		pool.Close()
		if err != nil {
			return err
		}
	}
	return nil
}

func lastLine(s string) string {
	s = strings.TrimSpace(s)
	if i := strings.LastIndexByte(s, '\n'); i >= 0 {
		return s[i+1:]
	}
	return s
}

func main() {
	if mc.IsWorker() {
		mc.WorkerMain(handleJob)
		return
	}
	r := mc.Start("C24")
	r.Rule("every token sequence up to the length bound (length ascending, then lexicographic) behind '#wa:build ', every segment sequence of the malformed-prefix alphabet, and every constraint tree × configuration through the real loader; distinct = distinct (truth table, printed form) of accepted lines, distinct rejection messages, distinct (expected, observed) inclusion outcomes")
	maxTok := mc.Pick(r, 6, 8)
	maxSeg := mc.Pick(r, 5, 6)
	r.Bound("max_tokens", maxTok)
	r.Bound("token_alphabet", tokens)
	r.Bound("max_prefix_segments", maxSeg)
	r.Bound("prefix_segment_alphabet", []string{"#wa", ":build", ":buil", "d", " ", "\\t", "\\n", "\\r", "U+00A0", "a", "x", "!"})
	r.Bound("assignments", "2^3 over {a,b,linux} x {every other tag false, true}")
	r.Assume("oracle for well-formedness and meaning is go/build/constraint.Parse on the same text behind '//go:build' (expr.go is a port of that package); '#wa' in a line corresponds to '//go'")
	r.Assume("tags glued from alphabet tokens without a separator (ab, linuxa …) are single tags; they take the 4th assignment bit")
	r.Assume("the tags the loader defines for a target are taken from loader.go: the effective OS (cfg.TargetOS, else wa.mod target, else the default 'js'), the architecture tag config.WaArch_Default ('wasm') whatever cfg.TargetArch says (GetTargetArch ignores it: native back ends consume the wasm front end's output), and cfg.BuilgTags")
	r.Assume("file inclusion is demanded for non-main packages only: loader.Import skips the filter for the main package (unless it is a std package)")

	phase := map[string]float64{}
	t0 := time.Now()
	lap := func(name string) { phase[name] = time.Since(t0).Seconds(); t0 = time.Now() }
	tot := &sweepTotals{}
	sweep(r, "expr", len(tokens), maxTok, func(seq []int) (string, string, string) {
		var b strings.Builder
		for _, t := range seq {
			b.WriteString(tokens[t])
		}
		text := b.String()
		return "#wa:build " + text, "//go:build " + text, opsClass(text)
	}, tot)
	lap("expr")
	r.Extra("expr_lines_accepted", tot.accepted)
	r.Extra("expr_printed_form_differs_from_upstream", tot.strDiff)
	if tot.accepted < 1000 {
		r.HarnessError("vacuous: only %d accepted lines in the expression sweep", tot.accepted)
	}

	ptot := &sweepTotals{}
	sweep(r, "prefix", len(segs), maxSeg, func(seq []int) (string, string, string) {
		var w, g strings.Builder
		for _, s := range seq {
			w.WriteString(segs[s][0])
			g.WriteString(segs[s][1])
		}
		return w.String(), g.String(), prefixClass(seq)
	}, ptot)
	lap("prefix")
	r.Extra("prefix_lines_accepted", ptot.accepted)
	if ptot.accepted < 10 {
		r.HarnessError("vacuous: only %d accepted lines in the prefix sweep", ptot.accepted)
	}

	if !r.Expired() {
		inclusion(r)
	} else {
		r.Cap("deadline before inclusion sweep")
	}
	lap("inclusion")
	r.Extra("phase_seconds", phase)
	r.Finish()
}
