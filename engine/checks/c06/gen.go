//go:build go1.21

package main

import (
	"fmt"
	"sort"
	"strings"

	wg "wa-lang.org/wa/internal/zzverif/watgen"
)

// ---------------------------------------------------------------------------------------------
// The `graph` family: one Spec = one module.
//
// Functions of a module, in text order:
//   import  env.imp : () -> ()                      (K = 1)
//   nodes   $f0 .. $f{N-1} : () -> ()               the call graph lives here
//   anon    (func (export "anon") ...)              optional anonymous exported leaf (Anon >= 0: its position among the nodes)
//   support get, reset, tramp, [copy], [g1, g2, g3], [peek, msize]   exported leaves, always roots
//
// Every node, when entered with fuel left, folds its own constant into the global $acc
// (acc = acc*31 + c), performs its call sites in target order, and folds a second constant on the
// way out. $acc after a call therefore spells the complete call tree (who ran, in which order and
// nesting); the imported function is a recording host stub, its calls are the host trace. Recursion
// (self loops, cycles) ends when the global $fuel reaches 0.

const (
	impIdx  = 4 // index of the import in Roots / Edges columns
	maxNode = 4
	fuel0   = 12

	rootExport = 1
	rootElem   = 2
)

var nodeConst = [maxNode]int32{11, 23, 37, 53}

// Spec is JSON-marshalable (it is the replay object of a violation).
type Spec struct {
	Fam      string   `json:"fam"`
	N        int      `json:"n"`          // defined node functions
	K        int      `json:"k"`          // imported functions (0/1)
	Edges    uint32   `json:"edges"`      // bit i*5+j: node i calls target j (j < N: node j, j == 4: the import)
	Roots    [5]uint8 `json:"roots"`      // per function (0..3 nodes, 4 import): rootExport | rootElem
	Start    int      `json:"start"`      // -1 none, else function (4 = import)
	Indirect bool     `json:"indirect"`   // calls whose target sits in the table go through call_indirect
	Place    int      `json:"place"`      // index into placements(): where call sites sit
	Extras   uint8    `json:"extras"`     // 1 extra globals, 2 memory, 4 data (needs memory)
	Style    int      `json:"style"`      // watgen style bits
	ElemJoin bool     `json:"elem_join"`  // one elem segment for all entries (else one segment per entry)
	Anon     int      `json:"anon"`       // -1 none; else the anonymous exported leaf is defined before node Anon (N = after all nodes)
	TableOps bool     `json:"table_ops"`  // exported "copy": table.get/table.set slot 1 -> slot 0
	NoSupp   bool     `json:"no_support"` // no get/reset/tramp exports (bare module)
}

func (s *Spec) edge(i, j int) bool { return s.Edges&(1<<(uint(i)*5+uint(j))) != 0 }

// funcName of function index f (0..3 node, 4 import).
func funcName(f int) string {
	if f == impIdx {
		return "imp"
	}
	return fmt.Sprintf("f%d", f)
}

// funcs lists the function indices present in the spec (nodes, then the import).
func (s *Spec) funcs() []int {
	var out []int
	for i := 0; i < s.N; i++ {
		out = append(out, i)
	}
	if s.K > 0 {
		out = append(out, impIdx)
	}
	return out
}

// ---------------------------------------------------------------------------------------------
// call-site placement

type frame byte

const (
	frBlock frame = iota
	frLoop
	frThen      // i32.const 1; if; X; end            (runs)
	frElse      // i32.const 0; if; else; X; end      (runs)
	frDeadThen  // i32.const 0; if; X; end            (never runs)
	frDeadElse  // i32.const 1; if; else; X; end      (never runs)
	frAfterBr   // block; br 0; X; end                (never runs)
	frAfterBrIf // block; i32.const 1; br_if 0; X; end (never runs)
	frAfterUnr  // i32.const 0; if; unreachable; X; end (never runs)
	numFrames
)

var frameNames = [numFrames]string{"block", "loop", "then", "else", "dead-then", "dead-else", "after-br", "after-br_if", "after-unreachable"}

// Placement: a nest of frames (outermost first) around every call site; Pair != 0 puts
// consecutive call sites of a function into the then / else arm of one `if` (1: condition 1,
// 2: condition 0) inside the nest.
type Placement struct {
	Nest []frame
	Pair int
}

func (p Placement) String() string {
	var parts []string
	for _, f := range p.Nest {
		parts = append(parts, frameNames[f])
	}
	if p.Pair == 1 {
		parts = append(parts, "pair-then-runs")
	} else if p.Pair == 2 {
		parts = append(parts, "pair-else-runs")
	}
	if len(parts) == 0 {
		return "plain"
	}
	return strings.Join(parts, ">")
}

// placements enumerates, simplest first: every nest of live frames of depth 0..depth, every dead
// frame innermost under every live nest of depth 0..depth-1, and the two pair forms.
func placements(depth int) []Placement {
	var out []Placement
	live := []frame{frBlock, frLoop, frThen, frElse}
	dead := []frame{frDeadThen, frDeadElse, frAfterBr, frAfterBrIf, frAfterUnr}
	var nests [][][]frame // by depth
	nests = append(nests, [][]frame{nil})
	for d := 1; d <= depth; d++ {
		var cur [][]frame
		for _, outer := range nests[d-1] {
			for _, f := range live {
				cur = append(cur, append(append([]frame(nil), outer...), f))
			}
		}
		nests = append(nests, cur)
	}
	for d := 0; d <= depth; d++ {
		for _, n := range nests[d] {
			out = append(out, Placement{Nest: n})
		}
		if d == 0 {
			out = append(out, Placement{Pair: 1}, Placement{Pair: 2})
		}
		if d < depth {
			for _, n := range nests[d] {
				for _, f := range dead {
					out = append(out, Placement{Nest: append(append([]frame(nil), n...), f)})
				}
			}
		}
	}
	return out
}

var placeTab = placements(3) // prefix property: placements(2) is not a prefix, so indices always refer to depth 3

// placeIndexUpTo returns the indices into placeTab of placements whose nest depth is <= depth.
func placeIndexUpTo(depth int) []int {
	var out []int
	for i, p := range placeTab {
		if len(p.Nest) <= depth {
			out = append(out, i)
		}
	}
	return out
}

func wrapFrames(nest []frame, inner []wg.Instr) []wg.Instr {
	out := inner
	for k := len(nest) - 1; k >= 0; k-- {
		var w []wg.Instr
		switch nest[k] {
		case frBlock:
			w = append(w, wg.Block(""))
			w = append(w, out...)
		case frLoop:
			w = append(w, wg.Loop(""))
			w = append(w, out...)
		case frThen:
			w = append(w, wg.I32Const(1), wg.If(""))
			w = append(w, out...)
		case frElse:
			w = append(w, wg.I32Const(0), wg.If(""), wg.Ins(wg.OpElse))
			w = append(w, out...)
		case frDeadThen:
			w = append(w, wg.I32Const(0), wg.If(""))
			w = append(w, out...)
		case frDeadElse:
			w = append(w, wg.I32Const(1), wg.If(""), wg.Ins(wg.OpElse))
			w = append(w, out...)
		case frAfterBr:
			w = append(w, wg.Block(""), wg.InsIdx(wg.OpBr, 0))
			w = append(w, out...)
		case frAfterBrIf:
			w = append(w, wg.Block(""), wg.I32Const(1), wg.InsIdx(wg.OpBrIf, 0))
			w = append(w, out...)
		case frAfterUnr:
			w = append(w, wg.I32Const(0), wg.If(""), wg.Ins(wg.OpUnreachable))
			w = append(w, out...)
		}
		w = append(w, wg.Ins(wg.OpEnd))
		out = w
	}
	return out
}

// ---------------------------------------------------------------------------------------------
// building the module

// Built is a module with what the oracles need to know about it.
type Built struct {
	Mod       *wg.Module
	TableSize int
	Slot      map[int]int // function -> table slot
	Calls     []callStep  // the call sequence made on every instance
	ImpSpec   bool        // module imports env.imp
}

type callStep struct {
	Name  string
	Args  []uint64
	Class string // observation class for keys: start-effect, export-call, table-slot, global, memory, state
}

const (
	gAcc  = 0
	gFuel = 1
)

func mark(c int32) []wg.Instr {
	return []wg.Instr{
		wg.InsIdx(wg.OpGlobalGet, gAcc), wg.I32Const(31), wg.Ins(wg.OpI32Mul), wg.I32Const(c), wg.Ins(wg.OpI32Add), wg.InsIdx(wg.OpGlobalSet, gAcc),
	}
}

var (
	sigVoid    = wg.FuncType{}
	sigGetI32  = wg.FuncType{Results: []wg.ValType{wg.I32}}
	sigGetI64  = wg.FuncType{Results: []wg.ValType{wg.I64}}
	sigGetF64  = wg.FuncType{Results: []wg.ValType{wg.F64}}
	sigI32Void = wg.FuncType{Params: []wg.ValType{wg.I32}}
	sigI32I32  = wg.FuncType{Params: []wg.ValType{wg.I32}, Results: []wg.ValType{wg.I32}}
)

const opI32Load8U wg.Op = 0x2d

// Build constructs the module of a spec.
func Build(s *Spec) *Built {
	b := &Built{Slot: map[int]int{}}
	m := &wg.Module{}
	b.Mod = m
	nImp := uint32(0)
	if s.K > 0 {
		m.Imports = append(m.Imports, wg.Import{Module: "env", Name: "imp", Kind: wg.KindFunc, Id: "imp", Sig: sigVoid})
		nImp = 1
		b.ImpSpec = true
	}
	// table slots: slot 0 stays empty (as in compiler output), entries follow in function order
	var elemFuncs []int
	for _, f := range s.funcs() {
		if s.Roots[f]&rootElem != 0 {
			b.Slot[f] = 1 + len(elemFuncs)
			elemFuncs = append(elemFuncs, f)
		}
	}
	needTable := !s.NoSupp || len(elemFuncs) > 0 || s.TableOps
	if needTable {
		b.TableSize = 2 + len(elemFuncs)
		m.Table = &wg.Table{Id: "tab", Lim: wg.Limits{Min: uint32(b.TableSize)}}
		m.Types = append(m.Types, wg.TypeDef{Id: "v", FuncType: sigVoid})
	}
	m.Globals = append(m.Globals,
		wg.Global{Id: "acc", Type: wg.I32, Mut: true, Init: wg.I32Const(0)},
		wg.Global{Id: "fuel", Type: wg.I32, Mut: true, Init: wg.I32Const(fuel0)},
	)

	// definition order: nodes with the anonymous leaf spliced in
	type def struct {
		node int // -1 anonymous
	}
	var order []def
	for i := 0; i <= s.N; i++ {
		if s.Anon == i {
			order = append(order, def{-1})
		}
		if i < s.N {
			order = append(order, def{i})
		}
	}
	funcIndex := map[int]uint32{impIdx: 0}
	for pos, d := range order {
		if d.node >= 0 {
			funcIndex[d.node] = nImp + uint32(pos)
		}
	}
	pl := placeTab[s.Place]
	anonIndex := uint32(0)
	for pos, d := range order {
		if d.node < 0 {
			anonIndex = nImp + uint32(pos)
			m.Funcs = append(m.Funcs, wg.Func{Sig: sigGetI32, Body: []wg.Instr{wg.I32Const(4242)}})
			continue
		}
		i := d.node
		var body []wg.Instr
		body = append(body,
			wg.InsIdx(wg.OpGlobalGet, gFuel), wg.Ins(wg.OpI32Eqz), wg.If(""), wg.Ins(wg.OpReturn), wg.Ins(wg.OpEnd),
			wg.InsIdx(wg.OpGlobalGet, gFuel), wg.I32Const(1), wg.Ins(wg.OpI32Sub), wg.InsIdx(wg.OpGlobalSet, gFuel),
		)
		body = append(body, mark(nodeConst[i])...)
		var sites [][]wg.Instr
		for _, j := range s.funcs() {
			if !s.edge(i, j) {
				continue
			}
			if slot, ok := b.Slot[j]; ok && s.Indirect {
				sites = append(sites, []wg.Instr{wg.I32Const(int32(slot)), {Op: wg.OpCallIndirect, Idx: 0, Idx2: 0}})
			} else {
				sites = append(sites, []wg.Instr{wg.InsIdx(wg.OpCall, funcIndex[j])})
			}
		}
		if pl.Pair != 0 {
			cond := int32(1)
			if pl.Pair == 2 {
				cond = 0
			}
			for k := 0; k < len(sites); k += 2 {
				var inner []wg.Instr
				inner = append(inner, wg.I32Const(cond), wg.If(""))
				inner = append(inner, sites[k]...)
				inner = append(inner, wg.Ins(wg.OpElse))
				if k+1 < len(sites) {
					inner = append(inner, sites[k+1]...)
				}
				inner = append(inner, wg.Ins(wg.OpEnd))
				body = append(body, wrapFrames(pl.Nest, inner)...)
			}
		} else {
			for _, site := range sites {
				body = append(body, wrapFrames(pl.Nest, site)...)
			}
		}
		body = append(body, mark(nodeConst[i]+1)...)
		m.Funcs = append(m.Funcs, wg.Func{Id: funcName(i), Sig: sigVoid, Body: body})
	}

	addFunc := func(id, export string, sig wg.FuncType, body ...wg.Instr) {
		idx := nImp + uint32(len(m.Funcs))
		f := wg.Func{Id: id, Sig: sig, Body: body}
		if len(sig.Params) > 0 {
			f.ParamIds = []string{"x"}
		}
		m.Funcs = append(m.Funcs, f)
		m.Exports = append(m.Exports, wg.Export{Name: export, Kind: wg.KindFunc, Idx: idx})
	}

	// exports of the graph functions come first (text order of separate export fields)
	for _, f := range s.funcs() {
		if s.Roots[f]&rootExport != 0 {
			m.Exports = append(m.Exports, wg.Export{Name: funcName(f), Kind: wg.KindFunc, Idx: funcIndex[f]})
		}
	}
	if s.Anon >= 0 {
		m.Exports = append(m.Exports, wg.Export{Name: "anon", Kind: wg.KindFunc, Idx: anonIndex})
	}
	if !s.NoSupp {
		addFunc("get", "get", sigGetI32, wg.InsIdx(wg.OpGlobalGet, gAcc))
		addFunc("reset", "reset", sigVoid,
			wg.I32Const(0), wg.InsIdx(wg.OpGlobalSet, gAcc), wg.I32Const(fuel0), wg.InsIdx(wg.OpGlobalSet, gFuel))
		addFunc("tramp", "tramp", sigI32Void, wg.InsIdx(wg.OpLocalGet, 0), wg.Instr{Op: wg.OpCallIndirect, Idx: 0, Idx2: 0})
	}
	if s.TableOps {
		addFunc("copy", "copy", sigVoid, wg.I32Const(0), wg.I32Const(1), wg.InsIdx(wg.OpTableGet, 0), wg.InsIdx(wg.OpTableSet, 0))
	}
	if s.Extras&1 != 0 {
		base := uint32(len(m.Globals))
		m.Globals = append(m.Globals,
			wg.Global{Id: "g1", Type: wg.I32, Init: wg.I32Const(-123456789)},
			wg.Global{Id: "g2", Type: wg.I64, Mut: true, Init: wg.I64Const(-0x123456789abcdef)},
			wg.Global{Id: "g3", Type: wg.F64, Init: wg.F64Const(0x3ff8000000000000)}, // 1.5
		)
		addFunc("g1", "g1", sigGetI32, wg.InsIdx(wg.OpGlobalGet, base))
		addFunc("g2", "g2", sigGetI64, wg.InsIdx(wg.OpGlobalGet, base+1))
		addFunc("g3", "g3", sigGetF64, wg.InsIdx(wg.OpGlobalGet, base+2))
	}
	if s.Extras&2 != 0 {
		m.Memory = &wg.Memory{Id: "mem", Lim: wg.Limits{Min: 1, HasMax: true, Max: 2}}
		addFunc("peek", "peek", sigI32I32, wg.InsIdx(wg.OpLocalGet, 0), wg.MemIns(opI32Load8U, 0, 0))
		addFunc("msize", "msize", sigGetI32, wg.Ins(wg.OpMemorySize))
		m.Exports = append(m.Exports, wg.Export{Name: "memory", Kind: wg.KindMemory, Idx: 0})
		if s.Extras&4 != 0 {
			m.Datas = append(m.Datas,
				wg.Data{Offset: 8, Bytes: []byte("c06\x00\xff\"\\\n")},
				wg.Data{Offset: 65530, Bytes: []byte{1, 2, 3, 4, 5, 6}},
			)
		}
	}

	if s.Start >= 0 {
		m.HasStart = true
		m.Start = funcIndex[s.Start]
	}
	if len(elemFuncs) > 0 {
		if s.ElemJoin {
			e := wg.Elem{Offset: 1}
			for _, f := range elemFuncs {
				e.Funcs = append(e.Funcs, funcIndex[f])
			}
			m.Elems = append(m.Elems, e)
		} else {
			for k, f := range elemFuncs {
				m.Elems = append(m.Elems, wg.Elem{Offset: uint32(1 + k), Funcs: []uint32{funcIndex[f]}})
			}
		}
	}

	// the call sequence
	step := func(class, name string, args ...uint64) {
		b.Calls = append(b.Calls, callStep{Name: name, Args: args, Class: class})
	}
	var exported []int
	for _, f := range s.funcs() {
		if s.Roots[f]&rootExport != 0 {
			exported = append(exported, f)
		}
	}
	if s.NoSupp {
		for _, f := range exported {
			step("export-call", funcName(f))
		}
	} else {
		step("start-effect", "get")
		for _, f := range exported {
			step("state", "reset")
			step("export-call", funcName(f))
			step("export-call", "get")
		}
		for slot := 0; slot <= b.TableSize; slot++ { // the last one is out of bounds
			step("state", "reset")
			step("table-slot", "tramp", uint64(slot))
			step("table-slot", "get")
		}
		if s.TableOps {
			step("table-ops", "copy")
			step("state", "reset")
			step("table-ops", "tramp", 0)
			step("table-ops", "get")
		}
		// a sequence without resets in between: state carried from call to call
		step("state", "reset")
		for _, f := range exported {
			step("export-sequence", funcName(f))
		}
		for slot := 1; slot < b.TableSize-1; slot++ {
			step("export-sequence", "tramp", uint64(slot))
		}
		step("export-sequence", "get")
	}
	if s.Anon >= 0 {
		step("anon-export", "anon")
	}
	if s.Extras&1 != 0 {
		step("global", "g1")
		step("global", "g2")
		step("global", "g3")
	}
	if s.Extras&2 != 0 {
		step("memory", "msize")
		for _, a := range []uint64{0, 7, 8, 9, 10, 11, 12, 13, 14, 15, 16, 65529, 65530, 65535, 65536} {
			step("memory", "peek", a)
		}
	}
	return b
}

// ---------------------------------------------------------------------------------------------
// independent reachability on the abstract module (identifiers)

// Reach is what the closure over an abstract module says.
type Reach struct {
	Defined   []string        // identifiers of defined functions ("#<index>" for anonymous ones)
	Imported  []string        // identifiers of imported functions
	Reachable map[string]bool // by identifier
	RootKinds map[string][]string
}

func funcKey(m *wg.Module, idx uint32) string {
	if id := m.FuncId(idx); id != "" {
		return id
	}
	return fmt.Sprintf("#%d", idx)
}

// Reachability computes the closure from exports, start and element segments over the call
// instructions of every function body (dead code included: the callee must exist for the module
// to stay valid).
func Reachability(m *wg.Module) *Reach {
	r := &Reach{Reachable: map[string]bool{}, RootKinds: map[string][]string{}}
	nImp := uint32(m.NumImported(wg.KindFunc))
	k := uint32(0)
	for i := range m.Imports {
		if m.Imports[i].Kind == wg.KindFunc {
			r.Imported = append(r.Imported, funcKey(m, k))
			k++
		}
	}
	for i := range m.Funcs {
		r.Defined = append(r.Defined, funcKey(m, nImp+uint32(i)))
	}
	var work []uint32
	seen := map[uint32]bool{}
	push := func(idx uint32, kind string) {
		key := funcKey(m, idx)
		if kind != "" {
			have := false
			for _, x := range r.RootKinds[key] {
				have = have || x == kind
			}
			if !have {
				r.RootKinds[key] = append(r.RootKinds[key], kind)
			}
		}
		if !seen[idx] {
			seen[idx] = true
			work = append(work, idx)
		}
	}
	for _, e := range m.Exports {
		if e.Kind == wg.KindFunc {
			push(e.Idx, "export")
		}
	}
	if m.HasStart {
		push(m.Start, "start")
	}
	for _, e := range m.Elems {
		for _, f := range e.Funcs {
			push(f, "elem")
		}
	}
	for len(work) > 0 {
		idx := work[len(work)-1]
		work = work[:len(work)-1]
		r.Reachable[funcKey(m, idx)] = true
		if idx < nImp {
			continue
		}
		f := &m.Funcs[idx-nImp]
		for k := range f.Body {
			if f.Body[k].Op == wg.OpCall {
				push(f.Body[k].Idx, "")
			}
		}
	}
	for _, v := range r.RootKinds {
		sort.Strings(v)
	}
	return r
}
