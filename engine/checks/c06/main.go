//go:build go1.21

// C06 — dead-code stripping (watstrip.WatStrip, `wa build --optimize`) preserves behaviour.
//
// Space: the `graph` family — every directed call graph on n defined functions plus at most one
// imported function, times every assignment of root kinds (export, start function, table elem
// entry; table entries are observed through an exported call_indirect trampoline) to defined and
// imported functions, with direct and call_indirect call sites; the same with self loops and
// cycles; with every placement of the call sites in block / loop / if-then / if-else nests and in
// dead positions (after br, after br_if, after unreachable, in the arm not taken); in the surface
// styles of the frozen dialect; with extra globals / memory / data present or absent; with
// anonymous functions and table.get/table.set present. Plus the stored testdata files and real
// compiler output. Oracles: (1) the stripped text assembles and V8 validates it; (2) every call of
// a fixed call sequence (start effects, every export, every table slot, a stateful sequence)
// gives the same result, trap and host-call trace on the original and the stripped module, on the
// embedded wazero engine and on V8; (3) nothing in the independent reachability closure (exports,
// start, elem; over call instructions) is removed; (4) export list and imports do not change.
package main

import (
	"encoding/json"
	"fmt"
	"os"
	"regexp"
	"runtime/debug"
	"sort"
	"strings"
	"sync"
	"time"

	"wa-lang.org/wa/internal/zzverif/mc"
	"wa-lang.org/wa/internal/zzverif/v8x"
)

const ID = "C06"

// tierBlocks is blocks() with the developer filter C06_FAMS=fam,fam applied (parent and workers
// see the same environment; a filtered run is reported as capped).
func tierBlocks(thorough bool) []blockDesc {
	bl := blocks(thorough)
	f := os.Getenv("C06_FAMS")
	if f == "" {
		return bl
	}
	var sel []blockDesc
	for _, b := range bl {
		if strings.Contains(","+f+",", ","+b.Fam+",") {
			sel = append(sel, b)
		}
	}
	return sel
}

// ---------------------------------------------------------------------------------------------
// worker

type job struct {
	Kind     string     `json:"kind"` // "shard" or "corpus"
	Thorough bool       `json:"thorough"`
	From     int        `json:"from"` // block range [From, To)
	To       int        `json:"to"`
	SpecFrom int        `json:"spec_from"` // with To == From+1: spec range inside the block, SpecTo < 0 = all
	SpecTo   int        `json:"spec_to"`
	Order0   int64      `json:"order0"`
	Corpus   *corpusJob `json:"corpus,omitempty"`
}

var (
	wBlocks   []blockDesc
	wThorough bool
	wWz       *wzEngine
	wV8       *v8x.V8
	wJobs     int
)

// workerV8 is the worker's node process (started on first use).
func workerV8() (*v8x.V8, error) {
	if wV8 == nil {
		v, err := v8x.Start(mc.VerifDir())
		if err != nil {
			return nil, err
		}
		wV8 = v
	}
	return wV8, nil
}

func handleJob(raw json.RawMessage) interface{} {
	var j job
	if err := json.Unmarshal(raw, &j); err != nil {
		return shardResult{Harness: "bad job: " + err.Error()}
	}
	if j.Kind == "corpus" {
		return handleCorpus(*j.Corpus)
	}
	if wBlocks == nil || wThorough != j.Thorough {
		wBlocks, wThorough = tierBlocks(j.Thorough), j.Thorough
	}
	var specs []Spec
	for b := j.From; b < j.To && b < len(wBlocks); b++ {
		specs = append(specs, expand(wBlocks[b], j.Thorough)...)
	}
	if j.SpecTo >= 0 {
		specs = specs[j.SpecFrom:min(j.SpecTo, len(specs))]
	}
	wJobs++
	if wWz != nil && wJobs%64 == 0 {
		wWz.close()
		wWz = nil
	}
	if wWz == nil {
		var err error
		if wWz, err = newWz(); err != nil {
			return shardResult{Harness: "wazero: " + err.Error()}
		}
	}
	v8, err := workerV8()
	if err != nil {
		return shardResult{Harness: err.Error()}
	}
	res := evalShard(specs, j.Order0, wWz, v8)
	if strings.HasPrefix(res.Harness, "v8:") {
		wV8.Close()
		wV8 = nil
	}
	return res
}

// ---------------------------------------------------------------------------------------------

func main() {
	if s := os.Getenv("C06_PROBE"); s != "" {
		probe(s)
		return
	}
	if s := os.Getenv("C06_BENCH"); s != "" {
		bench(s)
		return
	}
	if mc.IsWorker() {
		debug.SetMaxStack(64 << 20) // runaway recursion in the code under test dies quickly
		mc.WorkerMain(handleJob)
		return
	}
	r := mc.Start(ID)
	t0 := time.Now()
	lap := func(what string) {
		if os.Getenv("VERIF_TIMING") != "" {
			fmt.Fprintf(os.Stderr, "[%6.1fs] %s\n", time.Since(t0).Seconds(), what)
		}
	}
	thorough := r.Thorough()

	r.Rule("graph family, complete products, simplest first: {call graphs on n defined functions + k<=1 imported function} x {root assignment: export / start / elem per function} x {direct, call_indirect call sites}; the same with self loops; x every call-site placement (block/loop/then/else nests, dead positions, then/else pairs); x surface styles (numeric references, inline exports, declared types, comments, one or many elem segments); x extra globals/memory/data; anonymous exported functions; table.get/table.set; stored testdata files and compiler output. Each module is stripped by the real WatStrip, both texts are assembled by the real Wat2Wasm and run on wazero and V8 with recording host stubs. Two outcomes are distinct when the removed set, any call result, trap or host trace differs")
	r.Bound("nodes_full_product", 3)
	r.Bound("nodes_thorough", mc.Pick(r, 3, 4))
	r.Bound("imports", 1)
	r.Bound("placement_depth", mc.Pick(r, 2, 3))
	r.Bound("fuel_per_call_sequence", fuel0)
	r.Assume("supported subset = what Wa's parser accepts and Wat2Wasm assembles (frozen dialect of engine/watgen/frozen.go): functions are called and started by name; numeric references occur only where the dialect has them (export descriptors, elem items, call_indirect type/table, locals, globals, labels)")
	r.Assume("the property demands soundness of removal (nothing reachable from exports, start, elem is removed; behaviour unchanged); functions that are unreachable but kept are counted as a note, not a violation")
	r.Assume("behaviour = results, traps (trap / no trap; engines word messages differently) and the sequence of host calls of every call of the fixed call sequence, compared original vs stripped on the same engine")
	r.Assume("imported functions are recording host stubs without results; recursion is bounded by a fuel global so that every call terminates")

	bl := tierBlocks(thorough)
	if f := os.Getenv("C06_FAMS"); f != "" {
		r.Cap("C06_FAMS=" + f)
	}
	sizes := make([]int, len(bl))
	mc.ParallelFor(len(bl), func(i int) { sizes[i] = len(expand(bl[i], thorough)) })
	famCases := map[string]int{}
	total := 0
	for i, b := range bl {
		famCases[b.Fam] += sizes[i]
		total += sizes[i]
	}
	lap(fmt.Sprintf("%d blocks, %d cases %v", len(bl), total, famCases))
	if os.Getenv("C06_COUNT") != "" {
		fmt.Println(len(bl), total, famCases)
		return
	}

	// jobs: runs of blocks of about jobSize cases
	const jobSize = 500
	var jobs []job
	var order int64
	for i := 0; i < len(bl); {
		j := job{Kind: "shard", Thorough: thorough, From: i, SpecTo: -1, Order0: order}
		n := 0
		for i < len(bl) && (n == 0 || n+sizes[i] <= jobSize) {
			n += sizes[i]
			i++
		}
		j.To = i
		order += int64(n)
		if n > 0 {
			jobs = append(jobs, j)
		}
	}
	cj := corpusJobs()
	for i := range cj {
		jobs = append(jobs, job{Kind: "corpus", Corpus: &cj[i]})
	}
	// corpus jobs compile (0.3 s each): start them first
	sort.SliceStable(jobs, func(a, b int) bool { return jobs[a].Kind == "corpus" && jobs[b].Kind != "corpus" })
	if s := r.Seed; s != 0 && len(jobs) > 1 {
		k := int(uint64(s) % uint64(len(jobs)))
		jobs = append(append([]job(nil), jobs[k:]...), jobs[:k]...)
	}

	var mu sync.Mutex
	var stats shardStats
	cands := map[string]*Cand{}
	var keptNote string
	var crashed []job
	crashInfo := map[int]string{}
	corpusSeen, corpusSkipped := 0, []string{}
	corpusRemoved := 0
	addCand := func(c Cand) {
		k := fmt.Sprintf("%s|%08x", c.Base, c.Attrs)
		if old, ok := cands[k]; ok && old.Order <= c.Order {
			return
		}
		cc := c
		cands[k] = &cc
	}
	capped := false
	handle := func(jobsRun []job) func(res mc.Result) {
		return func(res mc.Result) {
			mu.Lock()
			defer mu.Unlock()
			j := jobsRun[res.Index]
			if res.Status != "ok" {
				crashed = append(crashed, j)
				crashInfo[len(crashed)-1] = res.Status + ": " + tail(res.Stderr, 1500)
				return
			}
			if j.Kind == "corpus" {
				var cr corpusResult
				if err := json.Unmarshal(res.Out, &cr); err != nil {
					r.HarnessError("corpus result: %v", err)
					return
				}
				if cr.Err != "" {
					r.HarnessError("corpus %s: %s", cr.Name, cr.Err)
					return
				}
				corpusSeen++
				stats.Evals += cr.Evals
				if cr.Skipped != "" {
					corpusSkipped = append(corpusSkipped, cr.Name+": "+cr.Skipped)
					return
				}
				corpusRemoved += cr.Removed
				stats.KeptUnreachable += cr.KeptUnr
				r.Distinct("corpus|" + cr.Name + "|" + cr.Outcome)
				for _, c := range cr.Cands {
					addCand(c)
				}
				if r.WantSample() && cr.Removed > 0 {
					r.Sample(map[string]interface{}{"corpus": cr.Name, "functions": cr.Funcs, "reachable": cr.Reachable, "removed": cr.Removed, "calls": cr.Calls})
				}
				return
			}
			var sr shardResult
			if err := json.Unmarshal(res.Out, &sr); err != nil {
				r.HarnessError("shard result: %v", err)
				return
			}
			if sr.Harness != "" {
				r.HarnessError("shard %d-%d: %s", j.From, j.To, sr.Harness)
			}
			stats.add(sr.Stats)
			for _, d := range sr.Distinct {
				r.Distinct(d)
			}
			for _, c := range sr.Cands {
				addCand(c)
			}
			if keptNote == "" {
				keptNote = sr.KeptNote
			}
			for _, s := range sr.Samples {
				if r.WantSample() {
					r.Sample(s)
				}
			}
		}
	}

	pool := mc.NewPool(mc.NWorkers(), []string{"GOTRACEBACK=none"}) // a dying worker leaves its fatal line, not 8 KB of goroutine dumps
	defer pool.Close()
	horizon := 10 * time.Minute // a shard costs about a second of CPU; this only classifies hangs
	runJobs := func(js []job, force bool) {
		live := js
		if r.Expired() && !force {
			capped = true
			return
		}
		err := pool.Run(len(live), func(i int) interface{} {
			if r.Expired() && !force {
				capped = true
				return job{Kind: "shard", Thorough: thorough, From: 0, To: 0, SpecTo: -1}
			}
			return live[i]
		}, horizon, handle(live))
		if err != nil {
			r.HarnessError("pool: %v", err)
		}
	}
	runJobs(jobs, false)
	lap("first pass")

	// Shards that killed or hung their worker. The earliest one is taken apart case by case (also
	// after the deadline: a crash may be a violation), its first crashing case is re-run alone four
	// more times and reported if it fails every time. The other lost shards make the run
	// non-exhaustive.
	if len(crashed) > 0 {
		lost := crashed
		lostInfo := crashInfo
		firstIdx := 0
		for i, j := range lost {
			if j.Kind != "corpus" && (lost[firstIdx].Kind == "corpus" || j.Order0 < lost[firstIdx].Order0) {
				firstIdx = i
			}
		}
		first := lost[firstIdx]
		r.Cap(fmt.Sprintf("%d shard(s) lost to worker crashes or hangs, first: %s", len(lost), clip(crashClass(lostInfo[firstIdx]), 120)))
		crashed, crashInfo = nil, map[int]string{}
		var singles []job
		if first.Kind == "corpus" {
			singles = append(singles, first)
		} else {
			o := first.Order0
			for b := first.From; b < first.To; b++ {
				for k := 0; k < sizes[b]; k++ {
					singles = append(singles, job{Kind: "shard", Thorough: thorough, From: b, To: b + 1, SpecFrom: k, SpecTo: k + 1, Order0: o})
					o++
				}
			}
		}
		horizon = 2 * time.Minute
		runJobs(singles, true)
		suspects, info := crashed, crashInfo
		si := -1
		for i, j := range suspects {
			if si < 0 || j.Order0 < suspects[si].Order0 {
				si = i
			}
		}
		if si < 0 {
			r.HarnessError("a shard crashed or hung its worker (%s) but none of its cases does so alone", clip(lostInfo[firstIdx], 400))
		} else {
			j := suspects[si]
			fails := 1
			for rep := 0; rep < 4; rep++ {
				crashed, crashInfo = nil, map[int]string{}
				runJobs([]job{j}, true)
				if len(crashed) > 0 {
					fails++
				}
			}
			crashed = nil
			switch {
			case fails < 5:
				r.HarnessError("a worker crash/hang did not reproduce (%d of 5): job %+v: %s", fails, j, info[si])
			case j.Kind == "corpus":
				addCand(Cand{Base: "corpus|crash|" + crashClass(info[si]), Order: 1 << 41, What: j.Corpus.Name + ": the stripper or assembler kills or hangs the process: " + clip(info[si], 600), Replay: map[string]interface{}{"corpus": j.Corpus.Name, "stderr": info[si]}})
			default:
				specs := expand(bl[j.From], thorough)
				s := specs[j.SpecFrom]
				addCand(Cand{Base: "crash|" + crashClass(info[si]), Attrs: caseAttrs(&s), Order: j.Order0,
					What:   fmt.Sprintf("the stripper or assembler kills or hangs the process (5 of 5 runs alone; %d shards lost in all): %s", len(lost), clip(info[si], 600)),
					Replay: map[string]interface{}{"spec": s, "stderr": info[si], "how": "C06_PROBE='<spec as JSON>' ./run.sh C06 quick"}})
			}
		}
		lap("crash isolation")
	}
	if capped {
		r.Cap("deadline")
	}

	// minimal attribute sets per base
	byBase := map[string][]*Cand{}
	for _, c := range cands {
		byBase[c.Base] = append(byBase[c.Base], c)
	}
	for base, list := range byBase {
		for _, c := range list {
			minimal := true
			for _, d := range list {
				if d != c && d.Attrs&c.Attrs == d.Attrs && d.Attrs != c.Attrs {
					minimal = false
					break
				}
			}
			if minimal {
				key := ID + "|" + base
				if !strings.HasPrefix(base, "corpus|") {
					key += "|" + attrString(c.Attrs)
				}
				r.Report(key, c.What, c.Replay)
			}
		}
	}

	r.States.Store(int64(stats.Cases + corpusSeen))
	r.Transitions.Store(int64(stats.EngineRuns))
	r.Evals.Store(int64(stats.Evals))
	r.Extra("cases_by_family", famCases)
	r.Extra("graph_cases", stats.Cases)
	r.Extra("engine_instances_observed", stats.EngineRuns)
	r.Extra("cases_with_removal", stats.RemovedSome)
	r.Extra("functions_removed", stats.RemovedFuncs)
	r.Extra("cases_with_start_function", stats.StartCases)
	r.Extra("stripped_binary_identical", stats.Identical)
	r.Extra("unreachable_functions_kept_note", map[string]interface{}{"count": stats.KeptUnreachable, "first": keptNote})
	r.Extra("worker_cpu_s_without_node", float64(stats.CPUms)/1000)
	r.Extra("corpus_items", corpusSeen)
	r.Extra("corpus_functions_removed", corpusRemoved)
	r.Extra("corpus_outside_subset", corpusSkipped)

	if !capped {
		if stats.Cases != total {
			r.HarnessError("enumeration mismatch: %d cases evaluated, %d enumerated", stats.Cases, total)
		}
		if stats.RemovedSome < total/20 {
			r.HarnessError("vacuous: only %d of %d cases had anything removed", stats.RemovedSome, total)
		}
		if r.DistinctCount() < total/200 {
			r.HarnessError("vacuous: %d distinct outcomes over %d cases", r.DistinctCount(), total)
		}
		if corpusSeen != len(cj) {
			r.HarnessError("corpus: %d of %d items evaluated", corpusSeen, len(cj))
		}
	}
	lap("done")
	r.Finish()
}

var crashRe = regexp.MustCompile(`(?m)^(fatal error: .*|panic: .*|runtime: goroutine stack exceeds.*)$`)

// crashClass reduces a worker's status + stderr tail to a class: hang, or the first fatal line.
func crashClass(info string) string {
	if strings.HasPrefix(info, "hang") {
		return "hang"
	}
	if m := crashRe.FindString(info); m != "" {
		return errClass(m)
	}
	return "worker died"
}

func tail(s string, n int) string {
	if len(s) > n {
		return s[len(s)-n:]
	}
	return s
}
