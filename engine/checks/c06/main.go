//go:build go1.21

package main

import (
	"os"
)

func main() {
	if s := os.Getenv("C06_PROBE"); s != "" {
		probe(s)
		return
	}
}
