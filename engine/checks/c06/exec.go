//go:build go1.21

package main

import (
	"context"
	"fmt"
	"math"
	"os"
	"regexp"
	"strconv"
	"strings"

	"wa-lang.org/wa/internal/3rdparty/wazero"
	"wa-lang.org/wa/internal/3rdparty/wazero/api"
	"wa-lang.org/wa/internal/wat/watutil"
	"wa-lang.org/wa/internal/wat/watutil/watstrip"
	"wa-lang.org/wa/internal/zzverif/mc"
	"wa-lang.org/wa/internal/zzverif/v8x"
	wg "wa-lang.org/wa/internal/zzverif/watgen"
)

// ---------------------------------------------------------------------------------------------
// the code under test, under recover

func assemble(text string) (wasm []byte, err error, panicked string) {
	panicked = mc.Recover(func() { wasm, err = watutil.Wat2Wasm("gen.wat", []byte(text)) })
	return
}

func strip(text string) (out []byte, err error, panicked string) {
	panicked = mc.Recover(func() { out, err = watstrip.WatStrip("gen.wat", []byte(text)) })
	return
}

var (
	posRe   = regexp.MustCompile(`^[^ ]*:[0-9]+:[0-9]+: `)
	numRe   = regexp.MustCompile(`[0-9]+`)
	quoteRe = regexp.MustCompile(`"[^"]*"`)
)

// errClass reduces a message to its class: no position, no numbers, no quoted names.
func errClass(msg string) string {
	msg = posRe.ReplaceAllString(msg, "")
	if i := strings.IndexByte(msg, '\n'); i >= 0 {
		msg = msg[:i]
	}
	msg = strings.TrimPrefix(msg, "wat2wasm: ")
	msg = quoteRe.ReplaceAllString(msg, "<name>")
	msg = numRe.ReplaceAllString(msg, "N")
	if len(msg) > 80 {
		msg = msg[:80]
	}
	return msg
}

func firstLine(s string) string {
	if i := strings.IndexByte(s, '\n'); i >= 0 {
		return s[:i]
	}
	return s
}

func clip(s string, n int) string {
	if len(s) > n {
		return s[:n] + "…"
	}
	return s
}

// ---------------------------------------------------------------------------------------------
// observation of one instance: one string per step, comparable between original and stripped

// Obs is what one engine saw on one module.
type Obs struct {
	Inst  string   // "ok" or "inst-error:<class>"
	Start []string // host calls during instantiation
	Steps []string // per call: "<results> | <host calls>" or "trap"
	Raw   []string // per call: unnormalised result / trap message (reports only)
}

// ---------------------------------------------------------------------------------------------
// embedded engine (the wazero copy `wa run` uses)

type wzEngine struct {
	ctx   context.Context
	rt    wazero.Runtime
	trace []string
	n     int
}

func newWz() (*wzEngine, error) {
	e := &wzEngine{ctx: context.Background()}
	// The graph family runs on the interpreter backend of the embedded engine: compiling every
	// tiny module to native code costs 30-90 ms, the interpreter 0.3 ms. The corpus (corpus.go)
	// uses the default configuration, which is what `wa run` uses. C06_WZ=compiler switches back.
	if os.Getenv("C06_WZ") == "compiler" {
		e.rt = wazero.NewRuntime(e.ctx)
	} else {
		e.rt = wazero.NewRuntimeWithConfig(e.ctx, wazero.NewRuntimeConfigInterpreter())
	}
	_, err := e.rt.NewHostModuleBuilder("env").NewFunctionBuilder().
		WithGoFunction(api.GoFunc(func(ctx context.Context, stack []uint64) {
			if len(e.trace) < 4096 {
				e.trace = append(e.trace, "env.imp()")
			}
		}), nil, nil).Export("imp").Instantiate(e.ctx, e.rt)
	if err != nil {
		return nil, err
	}
	return e, nil
}

func (e *wzEngine) close() { e.rt.Close(e.ctx) }

func showF64(f float64) string {
	if f == math.Trunc(f) && math.Abs(f) <= 0xffffffff && !(f == 0 && math.Signbit(f)) {
		return strconv.FormatInt(int64(f), 10)
	}
	return fmt.Sprintf("f:%016x", math.Float64bits(f))
}

// wzVal spells a result value the way js/exec.js does.
func wzVal(t api.ValueType, v uint64) string {
	switch t {
	case api.ValueTypeI32:
		return strconv.FormatInt(int64(int32(uint32(v))), 10)
	case api.ValueTypeI64:
		return strconv.FormatInt(int64(v), 10)
	case api.ValueTypeF32:
		return showF64(float64(math.Float32frombits(uint32(v))))
	case api.ValueTypeF64:
		return showF64(math.Float64frombits(v))
	}
	return fmt.Sprintf("?%x", v)
}

// run instantiates wasm once and performs the steps.
func (e *wzEngine) run(wasm []byte, steps []callStep) (o Obs) {
	e.n++
	e.trace = e.trace[:0]
	var compiled wazero.CompiledModule
	var mod api.Module
	var err error
	if p := mc.Recover(func() {
		compiled, err = e.rt.CompileModule(e.ctx, wasm)
		if err != nil {
			return
		}
		mod, err = e.rt.InstantiateModule(e.ctx, compiled, wazero.NewModuleConfig().WithName("m"+strconv.Itoa(e.n)).WithStartFunctions())
	}); p != "" {
		o.Inst = "inst-error:engine panic: " + errClass(p)
		return
	}
	instErr := err
	defer func() {
		if instErr == nil && mod != nil {
			mod.Close(e.ctx)
		}
		if compiled != nil {
			compiled.Close(e.ctx)
		}
	}()
	o.Start = append([]string(nil), e.trace...)
	if err != nil {
		o.Inst = "inst-error:" + errClass(firstLine(err.Error()))
		return
	}
	o.Inst = "ok"
	for _, st := range steps {
		e.trace = e.trace[:0]
		fn := mod.ExportedFunction(st.Name)
		if fn == nil {
			o.Steps = append(o.Steps, "missing")
			o.Raw = append(o.Raw, "missing")
			continue
		}
		var res []uint64
		var cerr error
		if p := mc.Recover(func() { res, cerr = fn.Call(e.ctx, st.Args...) }); p != "" {
			cerr = fmt.Errorf("engine panic: %s", p)
		}
		if cerr != nil {
			o.Steps = append(o.Steps, "trap | "+strings.Join(e.trace, " "))
			o.Raw = append(o.Raw, "trap:"+firstLine(cerr.Error()))
			continue
		}
		rt := fn.Definition().ResultTypes()
		parts := make([]string, len(res))
		for k := range res {
			if k < len(rt) {
				parts[k] = wzVal(rt[k], res[k])
			}
		}
		s := strings.Join(parts, ",")
		o.Steps = append(o.Steps, s+" | "+strings.Join(e.trace, " "))
		o.Raw = append(o.Raw, s)
	}
	return
}

// ---------------------------------------------------------------------------------------------
// V8

func v8Job(wasm []byte, steps []callStep, sigs map[string]wg.FuncType) v8x.Job {
	j := v8x.Job{Wasm: wasm}
	for _, st := range steps {
		c := v8x.Call{Name: st.Name}
		sig := sigs[st.Name]
		for k, a := range st.Args {
			if k < len(sig.Params) && sig.Params[k] == wg.I64 {
				c.Args = append(c.Args, strconv.FormatInt(int64(a), 10)+"n")
			} else {
				c.Args = append(c.Args, strconv.FormatInt(int64(int32(uint32(a))), 10))
			}
		}
		j.Calls = append(j.Calls, c)
	}
	return j
}

func v8Obs(r *v8x.Result) (o Obs) {
	if !r.Valid {
		o.Inst = "invalid:" + errClass(r.Error)
		return
	}
	o.Start = r.StartTrace
	if !r.Instantiated {
		o.Inst = "inst-error:" + errClass(r.InstError)
		return
	}
	o.Inst = "ok"
	for _, c := range r.Calls {
		if strings.HasPrefix(c.R, "trap:") {
			o.Steps = append(o.Steps, "trap | "+strings.Join(c.T, " "))
		} else {
			o.Steps = append(o.Steps, c.R+" | "+strings.Join(c.T, " "))
		}
		o.Raw = append(o.Raw, c.R)
	}
	return
}

// diffObs returns the index of the first differing step (-1 instantiate/start, -2 none) and a text.
func diffObs(a, b *Obs) (int, string) {
	if a.Inst != b.Inst {
		return -1, fmt.Sprintf("instantiation: original %q, stripped %q", a.Inst, b.Inst)
	}
	if strings.Join(a.Start, " ") != strings.Join(b.Start, " ") {
		return -1, fmt.Sprintf("host calls during instantiation (start function): original [%s], stripped [%s]", strings.Join(a.Start, " "), strings.Join(b.Start, " "))
	}
	for k := range a.Steps {
		if k >= len(b.Steps) {
			return k, "stripped run has fewer steps"
		}
		if a.Steps[k] != b.Steps[k] {
			return k, fmt.Sprintf("original %q (%s), stripped %q (%s)", a.Steps[k], a.Raw[k], b.Steps[k], b.Raw[k])
		}
	}
	return -2, ""
}
