//go:build go1.21

package main

import "fmt"

// A block is a small descriptor that expands to a run of specs; the parent and the workers
// enumerate blocks identically (pure function of the tier), jobs name block ranges.
type blockDesc struct {
	Fam   string
	N, K  int
	Edges uint32 // graph of the block (node->node and node->import bits)
	Mode  int    // family specific
}

const (
	rootsSingle = iota // every function: none | export | elem | start (start at most once)
	rootsMulti         // every function: any subset of {export, elem}, plus start on any one function or none
	rootsOne           // exactly one function is a root, of one kind
)

// edgeSets enumerates the edge sets over n nodes (+ import if k), simplest first (by number of
// edges, then numerically). selfLoops adds the i->i bits.
func edgeSets(n, k int, selfLoops bool) []uint32 {
	var bits []uint
	for i := 0; i < n; i++ {
		for j := 0; j < n; j++ {
			if i != j || selfLoops {
				bits = append(bits, uint(i*5+j))
			}
		}
		if k > 0 {
			bits = append(bits, uint(i*5+impIdx))
		}
	}
	total := 1 << len(bits)
	byCount := make([][]uint32, len(bits)+1)
	for v := 0; v < total; v++ {
		var e uint32
		c := 0
		for b := range bits {
			if v&(1<<b) != 0 {
				e |= 1 << bits[b]
				c++
			}
		}
		byCount[c] = append(byCount[c], e)
	}
	var out []uint32
	for _, l := range byCount {
		out = append(out, l...)
	}
	return out
}

type rootSet struct {
	Roots [5]uint8
	Start int
}

// rootSets enumerates root assignments over the functions fs, simplest first (fewest root marks).
func rootSets(fs []int, mode int) []rootSet {
	var out []rootSet
	switch mode {
	case rootsOne:
		for _, f := range fs {
			for kind := 0; kind < 3; kind++ {
				rs := rootSet{Start: -1}
				switch kind {
				case 0:
					rs.Roots[f] = rootExport
				case 1:
					rs.Roots[f] = rootElem
				case 2:
					rs.Start = f
				}
				out = append(out, rs)
			}
		}
		return out
	case rootsSingle:
		// digit per function: 0 none 1 export 2 elem 3 start
		n := len(fs)
		total := 1
		for i := 0; i < n; i++ {
			total *= 4
		}
		byCount := make([][]rootSet, n+1)
		for v := 0; v < total; v++ {
			rs := rootSet{Start: -1}
			x := v
			ok := true
			c := 0
			for _, f := range fs {
				d := x % 4
				x /= 4
				switch d {
				case 1:
					rs.Roots[f] = rootExport
				case 2:
					rs.Roots[f] = rootElem
				case 3:
					if rs.Start >= 0 {
						ok = false
					}
					rs.Start = f
				}
				if d != 0 {
					c++
				}
			}
			if ok {
				byCount[c] = append(byCount[c], rs)
			}
		}
		for _, l := range byCount {
			out = append(out, l...)
		}
		return out
	case rootsMulti:
		n := len(fs)
		total := 1
		for i := 0; i < n; i++ {
			total *= 4
		}
		byCount := make([][]rootSet, 2*n+2)
		for v := 0; v < total; v++ {
			for si := -1; si < n; si++ {
				rs := rootSet{Start: -1}
				x := v
				c := 0
				for _, f := range fs {
					d := x % 4
					x /= 4
					rs.Roots[f] = uint8(d)
					c += d&1 + d>>1
				}
				if si >= 0 {
					rs.Start = fs[si]
					c++
				}
				byCount[c] = append(byCount[c], rs)
			}
		}
		for _, l := range byCount {
			out = append(out, l...)
		}
		return out
	}
	panic("rootSets: bad mode")
}

func specFuncs(n, k int) []int {
	s := Spec{N: n, K: k}
	return s.funcs()
}

// hasElemTargetEdge: some call site targets a function that sits in the table (only then does
// the indirect variant differ from the direct one).
func hasElemTargetEdge(s *Spec) bool {
	for i := 0; i < s.N; i++ {
		for _, j := range s.funcs() {
			if s.edge(i, j) && s.Roots[j]&rootElem != 0 {
				return true
			}
		}
	}
	return false
}

// Styles of the style family: numeric-idx, inline-export, decl-types, comments in all
// combinations (named-locals, group-params, hex-data do not touch anything the stripper reads).
func styleFamilyStyles() []int {
	var out []int
	for v := 0; v < 16; v++ {
		b := 0
		if v&1 != 0 {
			b |= 1 // numeric-idx
		}
		if v&2 != 0 {
			b |= 2 // inline-export
		}
		if v&4 != 0 {
			b |= 4 // decl-types
		}
		if v&8 != 0 {
			b |= 16 // comments
		}
		out = append(out, b)
	}
	return out
}

// blocks lists every block of the tier, simplest family and graph first.
func blocks(thorough bool) []blockDesc {
	var out []blockDesc
	add := func(fam string, n, k int, self bool, mode int) {
		for _, e := range edgeSets(n, k, self) {
			out = append(out, blockDesc{Fam: fam, N: n, K: k, Edges: e, Mode: mode})
		}
	}
	// graph: every call graph x every single-kind root assignment, direct and indirect call sites
	// (n <= 2 first, the small families next, the n = 3 sweep last: if a deadline cuts the run,
	// every family has been seen)
	for n := 1; n <= 2; n++ {
		for k := 0; k <= 1; k++ {
			add("graph", n, k, false, rootsSingle)
		}
	}
	// multi: several root kinds on one function
	for n := 1; n <= 2; n++ {
		for k := 0; k <= 1; k++ {
			add("multi", n, k, false, rootsMulti)
		}
	}
	// cycle: self loops and cycles (fuel bounded)
	for n := 1; n <= 2; n++ {
		for k := 0; k <= 1; k++ {
			add("cycle", n, k, true, rootsSingle)
		}
	}
	// place: every placement of the call sites (n = 1: every root assignment; n = 2: every single root)
	for k := 0; k <= 1; k++ {
		add("place", 1, k, false, rootsSingle)
		add("place", 2, k, false, rootsOne)
	}
	// style: surface syntax variants, both element layouts
	for n := 1; n <= 2; n++ {
		for k := 0; k <= 1; k++ {
			add("style", n, k, false, rootsSingle)
		}
	}
	// extras: globals / memory / data present or absent; bare modules without the support exports
	for n := 1; n <= 2; n++ {
		for k := 0; k <= 1; k++ {
			add("extras", n, k, false, rootsSingle)
		}
	}
	// anon: an anonymous exported function among the nodes; tableops: table.get / table.set present
	for n := 1; n <= 2; n++ {
		for k := 0; k <= 1; k++ {
			add("anon", n, k, false, rootsSingle)
			add("tableops", n, k, false, rootsSingle)
		}
	}
	for k := 0; k <= 1; k++ {
		add("graph", 3, k, false, rootsSingle)
	}
	if thorough {
		add("graph", 4, 0, false, rootsSingle)
		// n = 4 with the import: every graph in which at most one node calls the import, one root
		for _, e := range edgeSets(4, 1, false) {
			callers := 0
			for i := 0; i < 4; i++ {
				if e&(1<<(uint(i)*5+impIdx)) != 0 {
					callers++
				}
			}
			if callers <= 1 {
				out = append(out, blockDesc{Fam: "graph1", N: 4, K: 1, Edges: e, Mode: rootsOne})
			}
		}
		add("multi", 3, 0, false, rootsMulti)
		add("cycle", 3, 0, true, rootsSingle)
		add("cycle", 3, 1, true, rootsOne)
		add("place", 3, 0, false, rootsOne)
		add("place", 2, 1, false, rootsSingle)
	}
	return out
}

// expand lists the specs of a block.
func expand(b blockDesc, thorough bool) []Spec {
	var out []Spec
	fs := specFuncs(b.N, b.K)
	base := func(rs rootSet) Spec {
		return Spec{Fam: b.Fam, N: b.N, K: b.K, Edges: b.Edges, Roots: rs.Roots, Start: rs.Start, Anon: -1}
	}
	withIndirect := func(s Spec) {
		out = append(out, s)
		if hasElemTargetEdge(&s) {
			s.Indirect = true
			out = append(out, s)
		}
	}
	switch b.Fam {
	case "graph", "graph1", "multi", "cycle":
		for _, rs := range rootSets(fs, b.Mode) {
			withIndirect(base(rs))
		}
	case "place":
		depth := 2
		if thorough && b.N <= 2 && b.Mode == rootsOne || thorough && b.N == 1 {
			depth = 3
		}
		if b.Edges == 0 {
			// no call site: placement changes nothing
			return nil
		}
		for _, rs := range rootSets(fs, b.Mode) {
			for _, p := range placeIndexUpTo(depth) {
				if p == 0 {
					continue // plain is the graph family
				}
				s := base(rs)
				s.Place = p
				withIndirect(s)
			}
		}
	case "style":
		for _, rs := range rootSets(fs, b.Mode) {
			for _, st := range styleFamilyStyles() {
				for join := 0; join < 2; join++ {
					s := base(rs)
					s.Style = st
					s.ElemJoin = join == 1
					if st == 0 && !s.ElemJoin {
						continue // the graph family
					}
					nElem := 0
					for _, f := range fs {
						if s.Roots[f]&rootElem != 0 {
							nElem++
						}
					}
					if s.ElemJoin && nElem < 2 {
						continue // same text as the separate layout
					}
					withIndirect(s)
				}
			}
		}
	case "extras":
		for _, rs := range rootSets(fs, b.Mode) {
			for _, ex := range []uint8{1, 2, 3, 6, 7} {
				s := base(rs)
				s.Extras = ex
				out = append(out, s)
			}
			s := base(rs)
			s.NoSupp = true
			out = append(out, s)
		}
	case "anon":
		for _, rs := range rootSets(fs, b.Mode) {
			for pos := 0; pos <= b.N; pos++ {
				for _, st := range []int{0, 2} { // export field with a numeric reference / inline export
					s := base(rs)
					s.Anon = pos
					s.Style = st
					out = append(out, s)
				}
			}
		}
	case "tableops":
		for _, rs := range rootSets(fs, b.Mode) {
			s := base(rs)
			s.TableOps = true
			out = append(out, s)
		}
	default:
		panic(fmt.Sprintf("expand: family %q", b.Fam))
	}
	return out
}
