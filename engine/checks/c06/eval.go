//go:build go1.21

package main

import (
	"crypto/sha1"
	"encoding/hex"
	"fmt"
	"io"
	"regexp"
	"sort"
	"strings"
	"syscall"

	"wa-lang.org/wa/internal/zzverif/v8x"
	wg "wa-lang.org/wa/internal/zzverif/watgen"
)

// ---------------------------------------------------------------------------------------------
// attributes: the features of a case that a violation key may name. A candidate carries the set
// of attributes of the culprit (or of the whole case); after the run only candidates whose set is
// minimal (no other candidate of the same base has a proper subset) are reported, so one defect
// class gives a handful of keys however many combinations contain it.

const (
	aExport uint32 = 1 << iota
	aStart
	aElem
	aFrame0 // 9 frames follow
	_
	_
	_
	_
	_
	_
	_
	_
	aPair
	aIndirect
	aNumeric
	aInline
	aDeclTypes
	aComments
	aElemJoin
	aGlobals
	aMemory
	aData
	aAnon
	aTableOps
	aBare
	aSelfLoop
	aCycle
)

var attrNames = []string{
	"root=export", "root=start", "root=elem",
	"site=block", "site=loop", "site=then", "site=else", "site=dead-then", "site=dead-else", "site=after-br", "site=after-br_if", "site=after-unreachable",
	"site=then/else-pair", "site=call_indirect",
	"refs=numeric", "exports=inline", "types=declared", "comments", "elem=one-segment",
	"extra-globals", "memory", "data", "anonymous-func", "table.get/set", "no-support-exports", "self-call", "mutual-recursion",
}

func attrString(a uint32) string {
	var parts []string
	for i, n := range attrNames {
		if a&(1<<uint(i)) != 0 {
			parts = append(parts, n)
		}
	}
	if len(parts) == 0 {
		return "plain"
	}
	return strings.Join(parts, "+")
}

func placeAttrs(s *Spec) uint32 {
	var a uint32
	if s.Edges == 0 {
		return 0
	}
	p := placeTab[s.Place]
	for _, f := range p.Nest {
		a |= aFrame0 << uint(f)
	}
	if p.Pair != 0 {
		a |= aPair
	}
	return a
}

// surfaceAttrs: everything about a case that is not tied to one function.
func surfaceAttrs(s *Spec) uint32 {
	var a uint32
	st := wg.StyleFromBits(s.Style)
	if st.NumericIdx {
		a |= aNumeric
	}
	if st.InlineExport {
		a |= aInline
	}
	if st.DeclTypes {
		a |= aDeclTypes
	}
	if st.Comments {
		a |= aComments
	}
	if s.ElemJoin {
		a |= aElemJoin
	}
	if s.Extras&1 != 0 {
		a |= aGlobals
	}
	if s.Extras&2 != 0 {
		a |= aMemory
	}
	if s.Extras&4 != 0 {
		a |= aData
	}
	if s.Anon >= 0 {
		a |= aAnon
	}
	if s.TableOps {
		a |= aTableOps
	}
	if s.NoSupp {
		a |= aBare
	}
	return a
}

func rootAttrs(s *Spec, f int) uint32 {
	var a uint32
	if s.Roots[f]&rootExport != 0 {
		a |= aExport
	}
	if s.Roots[f]&rootElem != 0 {
		a |= aElem
	}
	if s.Start == f {
		a |= aStart
	}
	return a
}

// caseAttrs: all features of the case (used when no single function is to blame).
func caseAttrs(s *Spec) uint32 {
	a := surfaceAttrs(s) | placeAttrs(s)
	for _, f := range s.funcs() {
		a |= rootAttrs(s, f)
	}
	if s.Indirect {
		a |= aIndirect
	}
	for i := 0; i < s.N; i++ {
		if s.edge(i, i) {
			a |= aSelfLoop
		}
	}
	if hasCycle(s) {
		a |= aCycle
	}
	return a
}

// hasCycle: the node graph has a directed cycle of length >= 2.
func hasCycle(s *Spec) bool {
	var reach [maxNode][maxNode]bool
	for i := 0; i < s.N; i++ {
		for j := 0; j < s.N; j++ {
			reach[i][j] = i != j && s.edge(i, j)
		}
	}
	for k := 0; k < s.N; k++ {
		for i := 0; i < s.N; i++ {
			for j := 0; j < s.N; j++ {
				if reach[i][k] && reach[k][j] {
					reach[i][j] = true
				}
			}
		}
	}
	for i := 0; i < s.N; i++ {
		if reach[i][i] {
			return true
		}
	}
	return false
}

// culpritAttrs: the features that make function f reachable. A root is reachable by its root
// kinds; a non-root by the call sites that target it (their placement).
func culpritAttrs(s *Spec, f int) uint32 {
	a := surfaceAttrs(s)
	if r := rootAttrs(s, f); r != 0 {
		return a | r
	}
	a |= placeAttrs(s)
	if f < s.N && s.edge(f, f) {
		a |= aSelfLoop
	}
	return a
}

func calleeKind(f int) string {
	if f == impIdx {
		return "imported"
	}
	return "defined"
}

// Cand is a candidate violation.
type Cand struct {
	Base   string      `json:"base"`
	Attrs  uint32      `json:"attrs"`
	Order  int64       `json:"order"` // global position of the case: the smallest wins
	What   string      `json:"what"`
	Replay interface{} `json:"replay"`
}

// ---------------------------------------------------------------------------------------------

var (
	funcHeadRe = regexp.MustCompile(`\(func(\s+\$[^\s()]+)?`)
	importRe   = regexp.MustCompile(`\(import\s+"[^"]*"\s+"[^"]*"\s+\(func(\s+\$[^\s()]+)?`)
)

// textFuncs scans a WAT text for function definitions and function imports without resolving
// anything (the text may not assemble): identifiers of defined functions, of imported functions,
// and the number of anonymous definitions.
func textFuncs(text string) (defined, imported []string, anon int) {
	text = stripComments(text)
	imp := map[int]bool{}
	for _, loc := range importRe.FindAllStringSubmatchIndex(text, -1) {
		// position of the inner "(func"
		inner := strings.LastIndex(text[loc[0]:loc[1]], "(func") + loc[0]
		imp[inner] = true
		if loc[2] >= 0 {
			imported = append(imported, strings.TrimSpace(text[loc[2]:loc[3]])[1:])
		}
	}
	for _, loc := range funcHeadRe.FindAllStringSubmatchIndex(text, -1) {
		if imp[loc[0]] {
			continue
		}
		// `(func $x)` also appears inside (export "n" (func $x)) and (type $t (func ...)): skip those
		pre := strings.TrimRight(text[:loc[0]], " \t\r\n")
		if strings.HasSuffix(pre, "\"") || isTypeDecl(pre) {
			continue
		}
		if loc[2] >= 0 {
			defined = append(defined, strings.TrimSpace(text[loc[2]:loc[3]])[1:])
		} else {
			anon++
		}
	}
	return
}

var typeDeclRe = regexp.MustCompile(`\(type(\s+\$[^\s()]+)?$`)

func isTypeDecl(pre string) bool { return typeDeclRe.MatchString(pre) }

// stripComments removes ;; line comments and (; ;) block comments outside strings.
func stripComments(s string) string {
	var sb strings.Builder
	for i := 0; i < len(s); {
		c := s[i]
		switch {
		case c == '"':
			j := i + 1
			for j < len(s) && s[j] != '"' {
				if s[j] == '\\' {
					j++
				}
				j++
			}
			if j >= len(s) {
				j = len(s) - 1
			}
			sb.WriteString(s[i : j+1])
			i = j + 1
		case c == ';' && i+1 < len(s) && s[i+1] == ';':
			for i < len(s) && s[i] != '\n' {
				i++
			}
		case c == '(' && i+1 < len(s) && s[i+1] == ';':
			j := strings.Index(s[i:], ";)")
			if j < 0 {
				i = len(s)
			} else {
				i += j + 2
			}
			sb.WriteByte(' ')
		default:
			sb.WriteByte(c)
			i++
		}
	}
	return sb.String()
}

// ---------------------------------------------------------------------------------------------
// one shard

type shardStats struct {
	Cases           int `json:"cases"`
	Evals           int `json:"evals"`            // executions of the real stripper / assembler
	EngineRuns      int `json:"engine_runs"`      // module instances observed (both engines)
	RemovedSome     int `json:"removed_some"`     // cases in which at least one function or import was removed
	RemovedFuncs    int `json:"removed_funcs"`    // functions / imports removed in total
	KeptUnreachable int `json:"kept_unreachable"` // unreachable functions the stripper kept (a note, not a violation)
	StartCases      int `json:"start_cases"`
	Identical       int `json:"identical_binaries"` // stripped binary byte-identical to the original (nothing to compare)
	CPUms           int `json:"cpu_ms"`             // CPU time of the worker process spent on the shard (node not included)
}

func (a *shardStats) add(b shardStats) {
	a.Cases += b.Cases
	a.Evals += b.Evals
	a.EngineRuns += b.EngineRuns
	a.RemovedSome += b.RemovedSome
	a.RemovedFuncs += b.RemovedFuncs
	a.KeptUnreachable += b.KeptUnreachable
	a.StartCases += b.StartCases
	a.Identical += b.Identical
	a.CPUms += b.CPUms
}

type shardResult struct {
	Stats    shardStats               `json:"stats"`
	Distinct []string                 `json:"distinct"`
	Cands    []Cand                   `json:"cands"`
	Samples  []map[string]interface{} `json:"samples"`
	KeptNote string                   `json:"kept_note"`
	Harness  string                   `json:"harness"`
}

type prepared struct {
	spec      *Spec
	order     int64
	built     *Built
	text      string
	stripped  string
	origWasm  []byte
	strWasm   []byte
	dead      bool // an early oracle already failed, or nothing to execute
	explained bool // a reachable function was removed: later differences are its consequences
	reach     *Reach
	removed   []string
}

type shardCtx struct {
	res   shardResult
	cands map[string]*Cand
	dist  map[string]struct{}
}

func (c *shardCtx) cand(base string, attrs uint32, order int64, what string, replay interface{}) {
	k := fmt.Sprintf("%s|%08x", base, attrs)
	if old, ok := c.cands[k]; ok && old.Order <= order {
		return
	}
	c.cands[k] = &Cand{Base: base, Attrs: attrs, Order: order, What: what, Replay: replay}
}

func (c *shardCtx) distinct(s string) {
	h := sha1.Sum([]byte(s))
	c.dist[hex.EncodeToString(h[:8])] = struct{}{}
}

func replayOf(p *prepared, extra map[string]interface{}) map[string]interface{} {
	m := map[string]interface{}{
		"spec":      p.spec,
		"placement": placeTab[p.spec.Place].String(),
		"style":     wg.StyleFromBits(p.spec.Style).String(),
		"wat":       p.text,
		"how":       "C06_PROBE='<spec as JSON>' ./run.sh C06 quick prints the module, its stripped text and both engines' observations",
	}
	if p.stripped != "" {
		m["stripped_wat"] = p.stripped
	}
	for k, v := range extra {
		m[k] = v
	}
	return m
}

// nameToFunc maps an identifier of the graph family to the function index (-1: support / anon).
func nameToFunc(id string) int {
	if id == "imp" {
		return impIdx
	}
	if len(id) == 2 && id[0] == 'f' && id[1] >= '0' && id[1] < '0'+maxNode {
		return int(id[1] - '0')
	}
	return -1
}

// coarseMask: cases that reference functions by index (numeric references, anonymous functions)
// are keyed coarsely - oracle plus these surface attributes only. Once references are numeric,
// any removal renumbers what they point at, so one defect shows in every oracle and every root
// and placement combination; the fine classes below would only multiply it.
const coarseMask = aNumeric | aAnon

// file records a candidate. culprit >= 0: the function to blame (its root kinds or call-site
// placement make the class); culprit < 0: the whole case.
func (c *shardCtx) file(p *prepared, oracle, detail string, culprit int, what string, extra map[string]interface{}) {
	s := p.spec
	surface := surfaceAttrs(s)
	if surface&coarseMask != 0 {
		c.cand(oracle, surface&(coarseMask|aInline), p.order, what, replayOf(p, extra))
		return
	}
	base := oracle
	if detail != "" {
		base += "|" + detail
	}
	if culprit >= 0 {
		c.cand(base+"|callee="+calleeKind(culprit), culpritAttrs(s, culprit), p.order, what, replayOf(p, extra))
		return
	}
	c.cand(base, caseAttrs(s), p.order, what, replayOf(p, extra))
}

// evalShard runs all oracles on the specs. order0 is the global position of the first spec.
func evalShard(specs []Spec, order0 int64, wz *wzEngine, v8 *v8x.V8) shardResult {
	c := &shardCtx{cands: map[string]*Cand{}, dist: map[string]struct{}{}}
	cpu0 := cpuMillis()
	preps := make([]*prepared, 0, len(specs))
	var jobs []v8x.Job
	type jobRef struct{ prep, which int }
	var refs []jobRef

	for i := range specs {
		s := &specs[i]
		p := &prepared{spec: s, order: order0 + int64(i)}
		preps = append(preps, p)
		c.res.Stats.Cases++
		if s.Start >= 0 {
			c.res.Stats.StartCases++
		}
		p.built = Build(s)
		rd, err := wg.Render(p.built.Mod, wg.StyleFromBits(s.Style))
		if err != nil {
			c.res.Harness = fmt.Sprintf("render failed for %+v: %v", *s, err)
			p.dead = true
			continue
		}
		p.text = rd.Text
		p.reach = Reachability(p.built.Mod)

		// the original must be in the subset: it assembles
		ow, err, pn := assemble(p.text)
		c.res.Stats.Evals++
		if pn != "" || err != nil {
			msg := pn
			if msg == "" {
				msg = err.Error()
			}
			c.file(p, "subset|the generated original module is rejected by the assembler", errClass(msg), -1,
				"a module of the frozen graph family does not assemble: "+clip(msg, 300), nil)
			p.dead = true
			continue
		}
		p.origWasm = ow

		// strip
		st, err, pn := strip(p.text)
		c.res.Stats.Evals++
		if pn != "" {
			c.file(p, "strip|panic", errClass(pn), -1, "WatStrip panics on a module of the subset: "+clip(pn, 300),
				map[string]interface{}{"observed": "panic: " + pn, "expected": "stripped text"})
			p.dead = true
			c.distinct("strip-panic|" + errClass(pn))
			continue
		}
		if err != nil {
			c.file(p, "strip|error", errClass(err.Error()), -1, "WatStrip rejects a module of the subset: "+clip(err.Error(), 300),
				map[string]interface{}{"observed": err.Error(), "expected": "stripped text"})
			p.dead = true
			c.distinct("strip-error|" + errClass(err.Error()))
			continue
		}
		p.stripped = string(st)

		// oracle 3: removed set vs independent reachability
		def, imp, anon := textFuncs(p.stripped)
		kept := map[string]bool{}
		for _, id := range def {
			kept[id] = true
		}
		for _, id := range imp {
			kept[id] = true
		}
		var removedReachable []string
		nKeptUnreach := 0
		for _, id := range append(append([]string(nil), p.reach.Imported...), p.reach.Defined...) {
			if strings.HasPrefix(id, "#") {
				continue // anonymous: counted below
			}
			if !kept[id] {
				p.removed = append(p.removed, id)
				if p.reach.Reachable[id] {
					removedReachable = append(removedReachable, id)
				}
			} else if !p.reach.Reachable[id] {
				nKeptUnreach++
			}
		}
		wantAnon := 0
		for _, id := range p.reach.Defined {
			if strings.HasPrefix(id, "#") {
				wantAnon++ // every anonymous function of the family is exported, hence reachable
			}
		}
		if len(p.removed) > 0 || anon < wantAnon {
			c.res.Stats.RemovedSome++
			c.res.Stats.RemovedFuncs += len(p.removed) + wantAnon - anon
		}
		if nKeptUnreach > 0 {
			c.res.Stats.KeptUnreachable += nKeptUnreach
			if c.res.KeptNote == "" {
				c.res.KeptNote = fmt.Sprintf("fam %s n=%d k=%d edges=%d roots=%v start=%d: %d unreachable function(s) kept", s.Fam, s.N, s.K, s.Edges, s.Roots, s.Start, nKeptUnreach)
			}
		}

		// oracle 1a: the stripped text assembles
		sw, err, pn := assemble(p.stripped)
		c.res.Stats.Evals++
		asmMsg, asmHow := "", ""
		if pn != "" || err != nil {
			asmMsg, asmHow = pn, "panic"
			if asmMsg == "" {
				asmMsg, asmHow = err.Error(), "error"
			}
		}
		consequence := ""
		if asmMsg != "" {
			consequence = "; the stripped text no longer assembles (" + asmHow + ": " + clip(asmMsg, 200) + ")"
		}

		// culprits: removed reachable functions that are roots or have a kept caller. What follows
		// from a culprit (assembly failure, different behaviour) is reported with it, not again.
		explained := false
		extra := map[string]interface{}{
			"observed": "removed: " + strings.Join(p.removed, " ") + consequence,
			"expected": "only functions unreachable from exports, start and elem are removed; reachable: " + reachList(p.reach),
		}
		if anon < wantAnon {
			p.removed = append(p.removed, "<anonymous>")
			explained = true
			c.file(p, "removed-reachable", "", -1, "an anonymous exported function was removed"+consequence, extra)
		}
		for _, id := range removedReachable {
			f := nameToFunc(id)
			if f < 0 {
				// exported support function (get, reset, tramp ...): a root of kind export
				explained = true
				if surfaceAttrs(s)&coarseMask != 0 {
					c.file(p, "removed-reachable", "", -1, "exported function $"+id+" was removed"+consequence, extra)
				} else {
					c.cand("removed-reachable|callee=defined", surfaceAttrs(s)|aExport, p.order, "exported function $"+id+" was removed"+consequence, replayOf(p, extra))
				}
				continue
			}
			front := rootAttrs(s, f) != 0
			for i := 0; i < s.N && !front; i++ {
				if i != f && s.edge(i, f) && kept[funcName(i)] {
					front = true
				}
			}
			if front {
				explained = true
				c.file(p, "removed-reachable", "", f, fmt.Sprintf("function $%s is reachable (%s) but was removed%s", id, whyReachable(p, f), consequence), extra)
			}
		}
		if asmMsg != "" {
			if !explained {
				c.file(p, "strip-assemble|"+asmHow, errClass(asmMsg), -1, "the stripped text no longer assembles: "+clip(asmMsg, 300),
					map[string]interface{}{"observed": asmHow + ": " + asmMsg, "expected": "a module that assembles and validates"})
			}
			p.dead = true
			c.distinct(fmt.Sprintf("noasm|%s|%v", errClass(asmMsg), p.removed))
			continue
		}
		p.strWasm = sw
		p.explained = explained

		if string(p.strWasm) == string(p.origWasm) {
			// byte-identical binaries behave identically: nothing to run
			c.res.Stats.Identical++
			c.distinct("identical|" + reachList(p.reach))
			p.dead = true
			continue
		}
		sigs := sigsOf(p.built.Mod)
		refs = append(refs, jobRef{len(preps) - 1, 0}, jobRef{len(preps) - 1, 1})
		jobs = append(jobs, v8Job(p.origWasm, p.built.Calls, sigs), v8Job(p.strWasm, p.built.Calls, sigs))
	}

	cpuA := cpuMillis()
	// V8 in the background, the embedded engine meanwhile
	type v8Answer struct {
		res []v8x.Result
		err error
	}
	ch := make(chan v8Answer, 1)
	go func() {
		var all []v8x.Result
		const chunk = 256
		for at := 0; at < len(jobs); at += chunk {
			r, err := v8.Exec(jobs[at:min(at+chunk, len(jobs))])
			if err != nil {
				ch <- v8Answer{nil, err}
				return
			}
			all = append(all, r...)
		}
		ch <- v8Answer{all, nil}
	}()

	type beh struct {
		step   int
		detail string
	}
	wzOrig := map[int]*Obs{}
	wzDiff := map[int]beh{}
	for pi, p := range preps {
		if p.dead {
			continue
		}
		o1 := wz.run(p.origWasm, p.built.Calls)
		o2 := wz.run(p.strWasm, p.built.Calls)
		c.res.Stats.EngineRuns += 2
		wzOrig[pi] = &o1
		if k, d := diffObs(&o1, &o2); k != -2 {
			wzDiff[pi] = beh{k, d}
		}
		c.distinct(fmt.Sprintf("%s|%v|%v|%v", o1.Inst, o1.Start, o1.Steps, p.removed))
		if len(c.res.Samples) < 2 {
			c.res.Samples = append(c.res.Samples, map[string]interface{}{
				"spec": p.spec, "removed": p.removed, "reachable": reachList(p.reach),
				"calls": stepNames(p.built.Calls), "wazero_original": o1.Steps, "wat_bytes": len(p.text),
			})
		}
	}

	cpuB := cpuMillis()
	ans := <-ch
	if benchOut != nil {
		fmt.Fprintf(benchOut, "cases=%d prepare=%dms wazero=%dms v8jobs=%d\n", len(specs), cpuA-cpu0, cpuB-cpuA, len(jobs))
	}
	if ans.err != nil {
		c.res.Harness = "v8: " + ans.err.Error()
	} else {
		byPrep := map[int][2]*v8x.Result{}
		for k, ref := range refs {
			e := byPrep[ref.prep]
			e[ref.which] = &ans.res[k]
			byPrep[ref.prep] = e
		}
		for pi, p := range preps {
			pair, ok := byPrep[pi]
			if !ok || p.dead {
				continue
			}
			c.res.Stats.EngineRuns += 2
			r1, r2 := pair[0], pair[1]
			if !r1.Valid {
				c.file(p, "subset|the generated original module does not validate in V8", errClass(r1.Error), -1,
					"V8 rejects the assembled original: "+clip(r1.Error, 300), nil)
				continue
			}
			o1 := v8Obs(r1)
			if w := wzOrig[pi]; w != nil {
				// harness self-check: both engines agree on the original (values and traps)
				if k, d := diffObs(w, &o1); k != -2 && !(k == -1 && w.Inst != "ok" && o1.Inst != "ok") && !(k >= 0 && strings.Contains(w.Raw[k], "directly calling host function")) {
					c.res.Harness = fmt.Sprintf("engines disagree on an ORIGINAL module (not a C06 matter; harness assumption broken) spec=%+v step %d: %s", *p.spec, k, d)
				}
			}
			if !r2.Valid {
				if !p.explained {
					c.file(p, "strip-validate", errClass(r2.Error), -1, "the stripped module assembles but V8 rejects it: "+clip(r2.Error, 300),
						map[string]interface{}{"observed": r2.Error, "expected": "valid module"})
				}
				continue
			}
			if p.explained {
				continue // consequences of a removal already reported
			}
			o2 := v8Obs(r2)
			vk, vd := diffObs(&o1, &o2)
			wd, wok := wzDiff[pi]
			switch {
			case vk != -2 && wok:
				c.behaviour(p, "wazero and V8", vk, "V8: "+vd+"; wazero: "+wd.detail)
			case vk != -2:
				c.behaviour(p, "V8 only", vk, vd)
			case wok:
				c.behaviour(p, "wazero only", wd.step, wd.detail)
			}
			// oracle 4: export list (names, kinds, order) and imports
			if d := externDiff(r1.Exports, r2.Exports); d != "" {
				c.file(p, "exports", d, -1, "the export list changed: "+fmt.Sprint(r1.Exports)+" -> "+fmt.Sprint(r2.Exports),
					map[string]interface{}{"observed": r2.Exports, "expected": r1.Exports})
			}
			if d := importDiff(r1.Imports, r2.Imports); d != "" {
				c.file(p, "imports", d, -1, "the stripped module imports something the original did not: "+fmt.Sprint(r2.Imports),
					map[string]interface{}{"observed": r2.Imports, "expected": r1.Imports})
			}
		}
	}

	for _, cd := range c.cands {
		c.res.Cands = append(c.res.Cands, *cd)
	}
	sort.Slice(c.res.Cands, func(i, j int) bool { return c.res.Cands[i].Order < c.res.Cands[j].Order })
	for d := range c.dist {
		c.res.Distinct = append(c.res.Distinct, d)
	}
	sort.Strings(c.res.Distinct)
	c.res.Stats.CPUms = cpuMillis() - cpu0
	return c.res
}

func stepNames(cs []callStep) []string {
	out := make([]string, len(cs))
	for i, s := range cs {
		out[i] = s.Name
		if len(s.Args) > 0 {
			out[i] += fmt.Sprint(s.Args)
		}
	}
	return out
}

func reachList(r *Reach) string {
	var l []string
	for id, ok := range r.Reachable {
		if ok {
			l = append(l, id)
		}
	}
	sort.Strings(l)
	return strings.Join(l, " ")
}

func whyReachable(p *prepared, f int) string {
	s := p.spec
	var why []string
	if s.Roots[f]&rootExport != 0 {
		why = append(why, "exported")
	}
	if s.Start == f {
		why = append(why, "start function")
	}
	if s.Roots[f]&rootElem != 0 {
		why = append(why, "named in elem")
	}
	for i := 0; i < s.N; i++ {
		if i != f && s.edge(i, f) && p.reach.Reachable[funcName(i)] {
			why = append(why, "called from reachable $"+funcName(i)+" ("+placeTab[s.Place].String()+")")
		}
	}
	return strings.Join(why, ", ")
}

// behaviour files a behaviour difference between original and stripped.
func (c *shardCtx) behaviour(p *prepared, engines string, step int, detail string) {
	class := "instantiate/start"
	name := "(instantiation)"
	if step >= 0 && step < len(p.built.Calls) {
		class = p.built.Calls[step].Class
		name = stepNames(p.built.Calls[step : step+1])[0]
	}
	oracle := "behaviour"
	if engines != "wazero and V8" {
		oracle = "behaviour(" + engines + ")"
	}
	c.file(p, oracle, class, -1,
		fmt.Sprintf("%s: call %s differs between original and stripped module: %s", engines, name, clip(detail, 500)),
		map[string]interface{}{"engines": engines, "step": step, "call": name, "observed": detail, "expected": "identical results, traps and host-call traces", "calls": stepNames(p.built.Calls)})
}

func externDiff(a, b []v8x.Extern) string {
	key := func(e v8x.Extern) string { return e.Kind + " " + e.Name }
	as, bs := map[string]bool{}, map[string]bool{}
	for _, e := range a {
		as[key(e)] = true
	}
	for _, e := range b {
		bs[key(e)] = true
	}
	for k := range as {
		if !bs[k] {
			return "export lost"
		}
	}
	for k := range bs {
		if !as[k] {
			return "export added"
		}
	}
	for i := range a {
		if i < len(b) && key(a[i]) != key(b[i]) {
			return "order changed"
		}
	}
	return ""
}

func importDiff(a, b []v8x.Extern) string {
	as := map[string]bool{}
	for _, e := range a {
		as[e.Kind+" "+e.Module+" "+e.Name] = true
	}
	for _, e := range b {
		if !as[e.Kind+" "+e.Module+" "+e.Name] {
			return "import added"
		}
	}
	return ""
}

var benchOut io.Writer

func cpuMillis() int {
	var ru syscall.Rusage
	if syscall.Getrusage(syscall.RUSAGE_SELF, &ru) != nil {
		return 0
	}
	return int(ru.Utime.Sec*1000+ru.Utime.Usec/1000) + int(ru.Stime.Sec*1000+ru.Stime.Usec/1000)
}
