//go:build go1.21

package main

import (
	"context"
	"fmt"
	"os"
	"path/filepath"
	"sort"
	"strconv"
	"strings"

	"wa-lang.org/wa/internal/3rdparty/wazero"
	"wa-lang.org/wa/internal/3rdparty/wazero/api"
	wawazero "wa-lang.org/wa/internal/wazero"
	"wa-lang.org/wa/internal/zzverif/mc"
	"wa-lang.org/wa/internal/zzverif/v8x"
	wg "wa-lang.org/wa/internal/zzverif/watgen"
	"wa-lang.org/wa/internal/zzverif/wrun"
)

// The corpus: real compiler output for a few Wa programs and the stored testdata .wat files.
// Same oracles as the graph family, on whole modules: the stripped text assembles and validates;
// every parameterless export gives the same results and host-call trace on both engines (all
// function imports are recording stubs); compiled programs additionally run under the real host
// (`wa run` path) and must print the same; the removed set lies inside the complement of the
// independent reachability closure computed on watgen.ReadWat's view of the original.

type corpusJob struct {
	Kind string // "wa" (compile Src) or "wat" (File, repo relative)
	Name string
	Src  string
	File string
}

type corpusResult struct {
	Name      string   `json:"name"`
	Err       string   `json:"err"` // harness-level problem (not a violation)
	Skipped   string   `json:"skipped"`
	Funcs     int      `json:"funcs"`
	Reachable int      `json:"reachable"`
	Removed   int      `json:"removed"`
	KeptUnr   int      `json:"kept_unreachable"`
	Calls     []string `json:"calls"`
	Outcome   string   `json:"outcome"`
	Cands     []Cand   `json:"cands"`
	Evals     int      `json:"evals"`
}

func valTypeName(t wg.ValType) string { return t.String() }

func apiType(t wg.ValType) api.ValueType {
	switch t {
	case wg.I32:
		return api.ValueTypeI32
	case wg.I64:
		return api.ValueTypeI64
	case wg.F32:
		return api.ValueTypeF32
	}
	return api.ValueTypeF64
}

// genericWz runs a module on a fresh runtime with every function import stubbed by a recorder.
func genericWz(wasm []byte, bin *wg.Bin, calls []callStep) (o Obs) {
	ctx := context.Background()
	rt := wazero.NewRuntime(ctx)
	defer rt.Close(ctx)
	var trace []string
	byMod := map[string][]wg.BinImport{}
	var order []string
	for _, im := range bin.Imports {
		if im.Kind != wg.KindFunc {
			o.Inst = "unsupported-import"
			return
		}
		if _, ok := byMod[im.Module]; !ok {
			order = append(order, im.Module)
		}
		byMod[im.Module] = append(byMod[im.Module], im)
	}
	for _, mn := range order {
		hb := rt.NewHostModuleBuilder(mn)
		done := map[string]bool{}
		for _, im := range byMod[mn] {
			if done[im.Name] {
				continue
			}
			done[im.Name] = true
			ft := bin.Types[im.TypeIdx]
			label := im.Module + "." + im.Name
			var ps, rs []api.ValueType
			for _, p := range ft.Params {
				ps = append(ps, apiType(p))
			}
			for _, r := range ft.Results {
				rs = append(rs, apiType(r))
			}
			np, nr := len(ps), len(rs)
			pts := ps
			hb = hb.NewFunctionBuilder().WithGoFunction(api.GoFunc(func(ctx context.Context, stack []uint64) {
				if len(trace) < 4096 {
					parts := make([]string, np)
					for k := 0; k < np; k++ {
						parts[k] = wzVal(pts[k], stack[k])
					}
					trace = append(trace, label+"("+strings.Join(parts, ",")+")")
				} else if len(trace) == 4096 {
					trace = append(trace, "...")
				}
				for k := 0; k < nr; k++ {
					stack[k] = 0
				}
			}), ps, rs).Export(im.Name)
		}
		if _, err := hb.Instantiate(ctx, rt); err != nil {
			o.Inst = "host-module-error:" + err.Error()
			return
		}
	}
	var mod api.Module
	var err error
	if p := mc.Recover(func() {
		var compiled wazero.CompiledModule
		compiled, err = rt.CompileModule(ctx, wasm)
		if err != nil {
			return
		}
		mod, err = rt.InstantiateModule(ctx, compiled, wazero.NewModuleConfig().WithName("corpus").WithStartFunctions())
	}); p != "" {
		o.Inst = "inst-error:engine panic: " + errClass(p)
		return
	}
	o.Start = append([]string(nil), trace...)
	if err != nil {
		o.Inst = "inst-error:" + errClass(firstLine(err.Error()))
		return
	}
	o.Inst = "ok"
	for _, st := range calls {
		trace = trace[:0]
		fn := mod.ExportedFunction(st.Name)
		if fn == nil {
			o.Steps = append(o.Steps, "missing")
			o.Raw = append(o.Raw, "missing")
			continue
		}
		var res []uint64
		var cerr error
		if p := mc.Recover(func() { res, cerr = fn.Call(ctx, st.Args...) }); p != "" {
			cerr = fmt.Errorf("engine panic: %s", p)
		}
		if cerr != nil {
			o.Steps = append(o.Steps, "trap | "+strings.Join(trace, " "))
			o.Raw = append(o.Raw, "trap:"+firstLine(cerr.Error()))
			continue
		}
		rt := fn.Definition().ResultTypes()
		parts := make([]string, len(res))
		for k := range res {
			if k < len(rt) {
				parts[k] = wzVal(rt[k], res[k])
			}
		}
		s := strings.Join(parts, ",")
		o.Steps = append(o.Steps, s+" | "+strings.Join(trace, " "))
		o.Raw = append(o.Raw, s)
	}
	return
}

// realHost runs a compiled Wa program the way `wa run` does and returns what it printed.
func realHost(name string, wasm, fset []byte) string {
	var so, se []byte
	var err error
	if p := mc.Recover(func() { so, se, err = wawazero.RunWasm(name, wasm, fset, "_main") }); p != "" {
		return "host panic: " + p
	}
	s := "stdout=" + strconv.Quote(string(so)) + " stderr=" + strconv.Quote(string(se))
	if err != nil {
		s += " err=" + firstLine(err.Error())
	}
	return s
}

func handleCorpus(j corpusJob) (res corpusResult) {
	res.Name = j.Name
	order := int64(1) << 40
	var text string
	var fset []byte
	compiled := false
	switch j.Kind {
	case "wa":
		p, err := wrun.CompileWa(j.Name, j.Src)
		if err != nil {
			res.Err = "compile: " + err.Error()
			return
		}
		text, fset, compiled = string(p.Wat), p.Fset, true
	case "wat":
		data, err := os.ReadFile(filepath.Join(mc.RepoDir(), j.File))
		if err != nil {
			res.Err = err.Error()
			return
		}
		text = string(data)
	}
	replay := func(extra map[string]interface{}) map[string]interface{} {
		m := map[string]interface{}{"corpus": j.Name, "kind": j.Kind, "file": j.File}
		if j.Kind == "wa" {
			m["source"] = j.Src
		}
		for k, v := range extra {
			m[k] = v
		}
		return m
	}
	cand := func(base, what string, extra map[string]interface{}) {
		res.Cands = append(res.Cands, Cand{Base: "corpus|" + base, Attrs: 0, Order: order, What: j.Name + ": " + what, Replay: replay(extra)})
		order++
	}

	ow, err, pn := assemble(text)
	res.Evals++
	if err != nil || pn != "" {
		// not in the subset (the property quantifies over modules the assembler accepts)
		res.Skipped = "original does not assemble: " + clip(fmt.Sprint(err, pn), 200)
		return
	}
	om, err := wg.ReadWat(text)
	if err != nil {
		res.Skipped = "independent reader rejects the original: " + clip(err.Error(), 200)
		return
	}
	reach := Reachability(om)
	res.Funcs = len(reach.Defined) + len(reach.Imported)
	res.Reachable = len(reach.Reachable)

	st, err, pn := strip(text)
	res.Evals++
	if pn != "" {
		cand("strip|panic|"+errClass(pn), "WatStrip panics: "+clip(pn, 300), map[string]interface{}{"observed": pn})
		return
	}
	if err != nil {
		cand("strip|error|"+errClass(err.Error()), "WatStrip fails: "+clip(err.Error(), 300), map[string]interface{}{"observed": err.Error()})
		return
	}
	stripped := string(st)

	// oracle 3
	def, imp, anon := textFuncs(stripped)
	kept := map[string]bool{}
	for _, id := range def {
		kept[id] = true
	}
	for _, id := range imp {
		kept[id] = true
	}
	var removedReachable []string
	origAnon := 0
	for _, id := range append(append([]string(nil), reach.Imported...), reach.Defined...) {
		if strings.HasPrefix(id, "#") {
			origAnon++
			continue
		}
		if !kept[id] {
			res.Removed++
			if reach.Reachable[id] {
				removedReachable = append(removedReachable, id)
			}
		} else if !reach.Reachable[id] {
			res.KeptUnr++
		}
	}
	_ = anon
	if len(removedReachable) > 0 {
		sort.Strings(removedReachable)
		kinds := map[string]bool{}
		for _, id := range removedReachable {
			k := "callee=defined"
			for _, x := range reach.Imported {
				if x == id {
					k = "callee=imported"
				}
			}
			rk := strings.Join(reach.RootKinds[id], "+")
			if rk == "" {
				rk = "called"
			}
			kinds[k+"|root="+rk] = true
		}
		for k := range kinds {
			cand("removed-reachable|"+k, "reachable functions were removed: "+clip(strings.Join(removedReachable, " "), 300),
				map[string]interface{}{"observed": removedReachable, "expected": "only unreachable functions are removed"})
		}
	}

	sw, err, pn := assemble(stripped)
	res.Evals++
	if err != nil || pn != "" {
		msg, how := pn, "panic"
		if msg == "" {
			msg, how = err.Error(), "error"
		}
		cand("strip-assemble|"+how+"|"+errClass(msg), "the stripped text no longer assembles: "+clip(msg, 300),
			map[string]interface{}{"observed": how + ": " + msg, "stripped_head": clip(stripped, 1500)})
		res.Outcome = "noasm"
		return
	}

	// calls: every exported function without parameters, in export order
	bin, err := wg.Decode(ow)
	if err != nil {
		res.Err = "harness: decode original: " + err.Error()
		return
	}
	nImpF := 0
	for _, im := range bin.Imports {
		if im.Kind == wg.KindFunc {
			nImpF++
		}
	}
	var calls []callStep
	for _, e := range bin.Exports {
		if e.Kind != wg.KindFunc {
			continue
		}
		var ti uint32
		if int(e.Idx) < nImpF {
			k := 0
			for _, im := range bin.Imports {
				if im.Kind == wg.KindFunc {
					if k == int(e.Idx) {
						ti = im.TypeIdx
					}
					k++
				}
			}
		} else {
			ti = bin.Funcs[int(e.Idx)-nImpF]
		}
		if len(bin.Types[ti].Params) == 0 {
			calls = append(calls, callStep{Name: e.Name, Class: "export-call"})
		}
	}
	res.Calls = stepNames(calls)

	// V8
	var imps []v8x.Import
	for _, im := range bin.Imports {
		if im.Kind == wg.KindFunc {
			var rs []string
			for _, r := range bin.Types[im.TypeIdx].Results {
				rs = append(rs, valTypeName(r))
			}
			imps = append(imps, v8x.Import{Module: im.Module, Name: im.Name, Kind: "func", Results: rs})
		}
	}
	v8c, err := workerV8()
	if err != nil {
		res.Err = "harness: " + err.Error()
		return
	}
	mk := func(w []byte) v8x.Job {
		jb := v8Job(w, calls, nil)
		jb.Imports = imps
		return jb
	}
	vr, err := v8c.Exec([]v8x.Job{mk(ow), mk(sw)})
	if err != nil {
		res.Err = "harness: " + err.Error()
		return
	}
	if !vr[0].Valid {
		res.Skipped = "V8 rejects the original: " + clip(vr[0].Error, 200)
		return
	}
	if !vr[1].Valid {
		cand("strip-validate|"+errClass(vr[1].Error), "the stripped module assembles but V8 rejects it: "+clip(vr[1].Error, 300), map[string]interface{}{"observed": vr[1].Error})
		return
	}
	o1, o2 := v8Obs(&vr[0]), v8Obs(&vr[1])
	if k, d := diffObs(&o1, &o2); k != -2 {
		name := "(instantiation)"
		if k >= 0 {
			name = calls[k].Name
		}
		cand("behaviour|v8", "V8: "+name+" differs: "+clip(d, 400), map[string]interface{}{"call": name, "observed": clip(d, 2000)})
	}
	if d := externDiff(vr[0].Exports, vr[1].Exports); d != "" {
		cand("exports|"+d, fmt.Sprintf("export list changed: %v -> %v", vr[0].Exports, vr[1].Exports), nil)
	}
	if d := importDiff(vr[0].Imports, vr[1].Imports); d != "" {
		cand("imports|"+d, fmt.Sprintf("imports changed: %v -> %v", vr[0].Imports, vr[1].Imports), nil)
	}

	// embedded engine with recording stubs
	w1 := genericWz(ow, bin, calls)
	if w1.Inst == "unsupported-import" || strings.HasPrefix(w1.Inst, "host-module-error") {
		res.Outcome = "v8-only(" + w1.Inst + ")"
	} else {
		sbin, err := wg.Decode(sw)
		if err != nil {
			cand("strip-assemble|undecodable", "the independent decoder rejects the stripped binary: "+err.Error(), nil)
			return
		}
		w2 := genericWz(sw, sbin, calls)
		if k, d := diffObs(&w1, &w2); k != -2 {
			name := "(instantiation)"
			if k >= 0 {
				name = calls[k].Name
			}
			cand("behaviour|wazero", "wazero: "+name+" differs: "+clip(d, 400), map[string]interface{}{"call": name, "observed": clip(d, 2000)})
		}
	}
	// real host
	if compiled {
		h1 := realHost(j.Name, ow, fset)
		h2 := realHost(j.Name, sw, fset)
		if h1 != h2 {
			cand("behaviour|wa-run", "the program prints something else after stripping", map[string]interface{}{"observed": clip(h2, 2000), "expected": clip(h1, 2000)})
		}
		res.Outcome += "|" + clip(h1, 200)
	}
	res.Outcome += fmt.Sprintf("|%s|%v|removed=%d", o1.Inst, o1.Steps, res.Removed)
	return
}

// corpusJobs lists the corpus, fixed order.
func corpusJobs() []corpusJob {
	var out []corpusJob
	for _, dir := range []string{filepath.Join("internal", "wat", "watutil", "testdata"), filepath.Join("internal", "wat", "parser", "testdata")} {
		ents, _ := os.ReadDir(filepath.Join(mc.RepoDir(), dir))
		var names []string
		for _, e := range ents {
			if strings.HasSuffix(e.Name(), ".wat") {
				names = append(names, e.Name())
			}
		}
		sort.Strings(names)
		for _, n := range names {
			out = append(out, corpusJob{Kind: "wat", Name: filepath.Base(filepath.Dir(dir)) + "/testdata/" + n, File: filepath.Join(dir, n)})
		}
	}
	for _, p := range wg.WaCorpus() {
		out = append(out, corpusJob{Kind: "wa", Name: p.Name, Src: p.Src})
	}
	return out
}
