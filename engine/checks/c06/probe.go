//go:build go1.21

package main

import (
	"encoding/json"
	"fmt"
	"os"
	"runtime/pprof"
	"time"

	"wa-lang.org/wa/internal/zzverif/mc"
	"wa-lang.org/wa/internal/zzverif/v8x"
	wg "wa-lang.org/wa/internal/zzverif/watgen"
)

// probe: C06_PROBE='<spec json>' prints the module of one spec, its stripped text and what the
// engines see (developer aid; also the way to replay a violation's "spec" by hand).
func probe(specJSON string) {
	s := Spec{Start: -1, Anon: -1}
	if err := json.Unmarshal([]byte(specJSON), &s); err != nil {
		fmt.Println("bad spec:", err)
		os.Exit(2)
	}
	b := Build(&s)
	rd, err := wg.Render(b.Mod, wg.StyleFromBits(s.Style))
	if err != nil {
		fmt.Println("render:", err)
		os.Exit(2)
	}
	fmt.Println(";; ---- original")
	fmt.Print(rd.Text)
	ow, err, pn := assemble(rd.Text)
	fmt.Printf(";; assemble original: %d bytes err=%v panic=%q\n", len(ow), err, pn)
	st, err, pn := strip(rd.Text)
	fmt.Printf(";; ---- stripped (err=%v panic=%q)\n%s", err, pn, st)
	sw, err, pn := assemble(string(st))
	fmt.Printf(";; assemble stripped: %d bytes err=%v panic=%q\n", len(sw), err, pn)
	wz, err := newWz()
	if err != nil {
		fmt.Println(err)
		os.Exit(2)
	}
	t0 := time.Now()
	o1 := wz.run(ow, b.Calls)
	fmt.Printf(";; wazero original (%v): %s %v\n", time.Since(t0), o1.Inst, o1.Start)
	for k, st := range b.Calls {
		if k < len(o1.Steps) {
			fmt.Printf(";;   %-16s %s%v -> %s   [%s]\n", st.Class, st.Name, st.Args, o1.Steps[k], o1.Raw[k])
		}
	}
	if sw != nil {
		o2 := wz.run(sw, b.Calls)
		k, d := diffObs(&o1, &o2)
		fmt.Printf(";; wazero stripped: %s; first difference: %d %s\n", o2.Inst, k, d)
	}
	v, err := v8x.Start(mc.VerifDir())
	if err != nil {
		fmt.Println(err)
		os.Exit(2)
	}
	defer v.Close()
	sigs := sigsOf(b.Mod)
	jobs := []v8x.Job{v8Job(ow, b.Calls, sigs)}
	if sw != nil {
		jobs = append(jobs, v8Job(sw, b.Calls, sigs))
	}
	res, err := v.Exec(jobs)
	if err != nil {
		fmt.Println(err)
		os.Exit(2)
	}
	p1 := v8Obs(&res[0])
	fmt.Printf(";; v8 original: %s %v exports=%v\n", p1.Inst, p1.Start, res[0].Exports)
	for k, st := range b.Calls {
		if k < len(p1.Steps) {
			fmt.Printf(";;   %-16s %s%v -> %s   [%s]\n", st.Class, st.Name, st.Args, p1.Steps[k], p1.Raw[k])
		}
	}
	if sw != nil {
		p2 := v8Obs(&res[1])
		k, d := diffObs(&p1, &p2)
		fmt.Printf(";; v8 stripped: %s; first difference: %d %s\n", p2.Inst, k, d)
	}
}

// sigsOf maps export names to the signature of the exported function.
func sigsOf(m *wg.Module) map[string]wg.FuncType {
	out := map[string]wg.FuncType{}
	for _, e := range m.Exports {
		if e.Kind == wg.KindFunc {
			if ft, ok := m.FuncSig(e.Idx); ok {
				out[e.Name] = ft
			}
		}
	}
	return out
}

// bench: C06_BENCH=<family> evaluates the first cases of a family in-process and prints CPU per phase.
func bench(fam string) {
	benchOut = os.Stdout
	os.Setenv("C06_FAMS", fam)
	bl := tierBlocks(false)
	var specs []Spec
	for _, b := range bl {
		specs = append(specs, expand(b, false)...)
	}
	step := len(specs) / 1000
	if step < 1 {
		step = 1
	}
	var sel []Spec
	for i := 0; i < len(specs); i += step {
		sel = append(sel, specs[i])
	}
	wz, _ := newWz()
	v, err := v8x.Start(mc.VerifDir())
	if err != nil {
		fmt.Println(err)
		return
	}
	defer v.Close()
	if os.Getenv("C06_PPROF") != "" {
		f, _ := os.Create(os.Getenv("C06_PPROF"))
		pprof.StartCPUProfile(f)
		defer pprof.StopCPUProfile()
	}
	t0 := time.Now()
	res := evalShard(sel, 0, wz, v)
	fmt.Printf("%s: %d cases wall %v cpu %dms cands=%d harness=%q\n", fam, len(sel), time.Since(t0), res.Stats.CPUms, len(res.Cands), res.Harness)
}
