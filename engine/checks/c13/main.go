//go:build go1.21

// C13: runtime maps behave as finite maps under every operation history.
//
// The explorer runs INSIDE the program: one generated Go-syntax source per key kind contains
// runHist, which decodes a history index (a base-B number, B = K keys x {set v1 .. set vNV, delete},
// most significant digit = first operation), applies it to a fresh map (or, for short histories, to a
// map pre-filled with all keys in one of the K! insertion orders) and after every operation
// observes lookup + comma-ok of every key, len and a range loop (iterations, unknown keys, per-key
// visit count, per-key value). All observations are folded into a rolling uint64 hash printed per
// block of consecutive history indices. The identical source is run by Go (builtin map = the
// independent reference) and by the real Wa pipeline (go2wa -> compiler -> wat2wasm -> embedded
// engine) in worker subprocesses. A block whose line differs, a case that traps or a case that does
// not return is refined (64-way, always into the first bad part) down to one history, which is
// then explained by a verbose run of each of its prefixes on both sides.
//
// An array model inside the program additionally checks every observation and abandons a history
// at its first wrong observation (a corrupted tree usually answers a lookup wrongly before it
// turns an insert into an endless loop); the model's verdict only selects which blocks are
// refined, the reported verdict always comes from the comparison with Go.
package main

import (
	"fmt"
	"os"
	"sort"
	"strconv"
	"strings"
	"sync"
	"time"

	"wa-lang.org/wa/internal/zzverif/hrun"
	"wa-lang.org/wa/internal/zzverif/mc"
	"wa-lang.org/wa/internal/zzverif/wrun"
)

// ---------------------------------------------------------------------------------------------
// key kinds

type kind struct {
	Name    string   // label used in violation keys
	KeyType string   // Go/Wa type of the key
	Imports []string // imports of the generated program
	Decls   string   // extra top-level declarations
	Pre     string   // statements at the start of initKeys
	Keys    []string // key expressions, ascending where the kind has an order
	Extra   string   // extra observation statements per step (may fold into h, print when verbose)
	NV      int      // number of distinct values per key (2: set v1 / set v2; 1: insert only)
	Thin    bool     // full observation only after the last operation of a history, a thin one (comma-ok of the operated key, len) between operations
	L       int      // maximal history length
	PreLen  int      // histories of length <= PreLen are also run on every pre-filled map: all K keys inserted (value v1) in each of the K! orders
	Chunk   int64    // histories per case
	Block   int64    // histories per printed hash line
}

func (k *kind) K() int   { return len(k.Keys) }
func (k *kind) B() int64 { return int64(len(k.Keys) * (k.NV + 1)) }

func fact(n int) int64 {
	f := int64(1)
	for i := 2; i <= n; i++ {
		f *= int64(i)
	}
	return f
}

// total is the size of the index space at length n: B^n histories on the empty map, preceded
// (index / B^n = 1 .. K!) by the same histories on each pre-filled map when n <= PreLen.
func (k *kind) total(n int) int64 {
	if n <= k.PreLen {
		return (1 + fact(k.K())) * pow(k.B(), n)
	}
	return pow(k.B(), n)
}

func pow(b int64, n int) int64 {
	r := int64(1)
	for i := 0; i < n; i++ {
		r *= b
	}
	return r
}

const structDecl = "type SK struct {\n\tA int32\n\tB string\n}\n"

func kinds(thorough bool) []*kind {
	l := 4
	if thorough {
		l = 5
	}
	var ks []*kind
	if !thorough {
		ks = append(ks, &kind{Name: "int32", KeyType: "int32", NV: 2, L: 5, PreLen: 3,
			Keys: []string{"-2147483648", "-7", "0", "3", "2147483647"}})
	} else {
		ks = append(ks, &kind{Name: "int32", KeyType: "int32", NV: 1, L: 7, Thin: true, PreLen: 3,
			Keys: []string{"-2147483648", "-7", "0", "3", "4", "1000000", "2147483647"}})
		ks = append(ks, &kind{Name: "int32-2v", KeyType: "int32", NV: 2, L: 6, PreLen: 4,
			Keys: []string{"-2147483648", "-7", "0", "3", "2147483647"}})
	}
	ks = append(ks,
		&kind{Name: "int64", KeyType: "int64", NV: 2, L: l,
			Keys: []string{"-9223372036854775808", "-4294967296", "-1", "4294967296", "9223372036854775807"}},
		&kind{Name: "uint64", KeyType: "uint64", NV: 2, L: l,
			Keys: []string{"0", "1", "4294967296", "9223372036854775808", "18446744073709551615"}},
		&kind{Name: "string", KeyType: "string", NV: 2, L: l,
			Keys: []string{`""`, `"a"`, `"ab"`, `"b"`, `"é"`}},
		&kind{Name: "float64", KeyType: "float64", NV: 2, L: l, Imports: []string{"math"},
			Keys: []string{"math.Inf(-1)", "-1.5", "0.0", "5e-324", "math.Inf(1)"},
			// +0 and -0 are the same key in Go
			Extra: "\t\t{\n\t\t\tz, zok := m[math.Copysign(0, -1)]\n\t\t\tzb := int32(0)\n\t\t\tif zok {\n\t\t\t\tzb = 1\n\t\t\t}\n\t\t\th = h*1000003 + uint64(uint32(z*2+zb))\n\t\t\tif verbose {\n\t\t\t\tprintln(\"X\", 2, z, zok)\n\t\t\t}\n\t\t}\n"},
		&kind{Name: "bool", KeyType: "bool", NV: 2, L: l + 3,
			Keys: []string{"false", "true"}},
		&kind{Name: "struct", KeyType: "SK", NV: 2, L: l, Decls: structDecl,
			Keys: []string{`SK{0, ""}`, `SK{0, "a"}`, `SK{1, ""}`, `SK{1, "a"}`, `SK{2, "b"}`}},
		&kind{Name: "pointer", KeyType: "*int32", NV: 2, L: l,
			Decls: "var cells [3]int32\n",
			Keys:  []string{"&cells[0]", "&cells[1]", "&cells[2]", "new(int32)", "new(int32)"}},
		&kind{Name: "interface", KeyType: "interface{}", NV: 2, L: l, Decls: structDecl,
			Keys: []string{"int32(1)", "int32(2)", "int64(1)", `"1"`, "true", "float64(1)", `SK{1, "a"}`}},
	)
	for _, k := range ks {
		if k.PreLen == 0 {
			// pre-filled variants for the other kinds: K! x B^PreLen stays below ~10^6
			k.PreLen = 2
			if thorough {
				k.PreLen = 3
			}
			if k.K() >= 7 {
				k.PreLen--
			}
			if k.K() <= 2 {
				k.PreLen = k.L
			}
		}
		if k.Chunk == 0 {
			k.Chunk = 4096
			k.Block = 256
			if thorough {
				k.Chunk = 16384
				k.Block = 1024
			}
		}
	}
	return ks
}

// ---------------------------------------------------------------------------------------------
// generated program

const tmpl = `package main

@IMPORTS@
@DECLS@
const K = @K@
const NV = @NV@
const B = @B@
const THIN = @THIN@
const FACTK = @FACTK@

var keys [K]@KT@
var keysReady bool
var failCode int32

func initKeys() {
	if keysReady {
		return
	}
	keysReady = true
@INIT@}

func keyIdx(k @KT@) int32 {
	for i := int32(0); i < K; i++ {
		if keys[i] == k {
			return i
		}
	}
	return -1
}

// runHist applies history idx (n digits base B, first operation = most significant digit) to a
// fresh map; digit d: key d%K, d/K < NV sets value (key+1)*10+d/K+1, d/K == NV deletes.
func runHist(n int32, idx int64, h uint64, verbose bool) uint64 {
	var has [K]bool
	var val [K]int32
	var cnt [K]int32
	var got [K]int32
	m := make(map[@KT@]int32)
	div := int64(1)
	for i := int32(1); i < n; i++ {
		div = div * B
	}
	// idx / B^n selects the initial map: 0 = empty, p > 0 = all keys inserted in the order given by
	// permutation p-1 (lexicographic, factorial number system)
	pre := idx / (div * B)
	idx = idx % (div * B)
	if pre > 0 {
		var used [K]bool
		c := pre - 1
		f := int64(FACTK)
		for i := int32(K); i >= 1; i-- {
			f = f / int64(i)
			d := int32(c / f)
			c = c % f
			k := int32(0)
			for k < K {
				if !used[k] {
					if d == 0 {
						break
					}
					d--
				}
				k++
			}
			used[k] = true
			nv := (k+1)*10 + 1
			m[keys[k]] = nv
			has[k] = true
			val[k] = nv
			if verbose {
				println("P", k)
			}
		}
	}
	for step := int32(0); step < n; step++ {
		op := int32((idx / div) % B)
		div = div / B
		k := op % K
		kd := op / K
		if kd < NV {
			nv := (k+1)*10 + kd + 1
			m[keys[k]] = nv
			has[k] = true
			val[k] = nv
		} else {
			delete(m, keys[k])
			has[k] = false
			val[k] = 0
		}
		if verbose {
			println("S", step, op)
		}
		fc := int32(0)
		nhas := int32(0)
		if THIN && step+1 < n {
			// thin observation between operations (the full one follows the last operation; every
			// prefix is itself an enumerated history)
			w, ok := m[keys[k]]
			okb := int32(0)
			if ok {
				okb = 1
			}
			l := int32(len(m))
			for i := int32(0); i < K; i++ {
				if has[i] {
					nhas++
				}
			}
			h = (h*1000003+uint64(uint32(w*2+okb)))*1000003 + uint64(uint32(l))
			if verbose {
				println("T", k, w, ok, l)
			}
			if w != val[k] {
				fc = 16 + k
			} else if ok != has[k] {
				fc = 24 + k
			} else if l != nhas {
				fc = 32
			}
			if fc != 0 {
				failCode = (step+1)*64 + fc
				return h
			}
			continue
		}
		for i := int32(0); i < K; i++ {
			v := m[keys[i]]
			w, ok := m[keys[i]]
			okb := int32(0)
			if ok {
				okb = 1
			}
			h = (h*1000003+uint64(uint32(v)))*1000003 + uint64(uint32(w*2+okb))
			if verbose {
				println("L", i, v, w, ok)
			}
			if has[i] {
				nhas++
			}
			if fc == 0 {
				if v != val[i] {
					fc = 8 + i
				} else if w != val[i] {
					fc = 16 + i
				} else if ok != has[i] {
					fc = 24 + i
				}
			}
		}
		l := int32(len(m))
		h = h*1000003 + uint64(uint32(l))
		if verbose {
			println("N", l)
		}
		if fc == 0 && l != nhas {
			fc = 32
		}
		for i := int32(0); i < K; i++ {
			cnt[i] = 0
			got[i] = 0
		}
		iters := int32(0)
		unknown := int32(0)
		for rk, rv := range m {
			iters++
			i := keyIdx(rk)
			if i < 0 {
				unknown++
			} else {
				cnt[i]++
				got[i] = rv
			}
		}
		h = h*1000003 + uint64(uint32(iters*16+unknown))
		if verbose {
			println("R", iters, unknown)
		}
		if fc == 0 && iters != nhas {
			fc = 40
		}
		if fc == 0 && unknown != 0 {
			fc = 41
		}
		for i := int32(0); i < K; i++ {
			h = (h*1000003+uint64(uint32(cnt[i])))*1000003 + uint64(uint32(got[i]))
			if verbose {
				println("C", i, cnt[i], got[i])
			}
			if fc == 0 {
				e := int32(0)
				if has[i] {
					e = 1
				}
				if cnt[i] != e {
					fc = 48 + i
				} else if got[i] != val[i] {
					fc = 56 + i
				}
			}
		}
@EXTRA@		if fc != 0 {
			failCode = (step+1)*64 + fc
			return h
		}
	}
	return h
}

// RunChunk prints one line per block of bl consecutive history indices of [lo,hi):
// rolling hash, number of histories the in-program model rejected, first such index and its code.
func RunChunk(n int32, lo int64, hi int64, bl int64) {
	initKeys()
	for a := lo; a < hi; a += bl {
		b := a + bl
		if b > hi {
			b = hi
		}
		h := uint64(1469598103)
		nfail := int32(0)
		first := int64(-1)
		fcode := int32(0)
		for idx := a; idx < b; idx++ {
			failCode = 0
			h = runHist(n, idx, h, false)
			if failCode != 0 {
				nfail++
				if first < 0 {
					first = idx
					fcode = failCode
				}
			}
		}
		println(h, nfail, first, fcode)
	}
}

func Explain(n int32, idx int64) {
	initKeys()
	failCode = 0
	h := runHist(n, idx, 7, true)
	println("H", h, failCode)
}

`

type caseSpec struct {
	Explain bool
	N       int
	Lo, Hi  int64 // Explain: Lo = history index
	Bl      int64
}

func (c caseSpec) nblocks() int { return int((c.Hi - c.Lo + c.Bl - 1) / c.Bl) }

func genSource(kd *kind, cases []caseSpec) string {
	var imps, init, cs strings.Builder
	for _, im := range kd.Imports {
		fmt.Fprintf(&imps, "import %q\n", im)
	}
	init.WriteString(kd.Pre)
	for i, k := range kd.Keys {
		fmt.Fprintf(&init, "\tkeys[%d] = %s\n", i, k)
	}
	for i, c := range cases {
		if c.Explain {
			fmt.Fprintf(&cs, "func Case%d() {\n\tExplain(%d, %d)\n}\n\n", i, c.N, c.Lo)
		} else {
			fmt.Fprintf(&cs, "func Case%d() {\n\tRunChunk(%d, %d, %d, %d)\n}\n\n", i, c.N, c.Lo, c.Hi, c.Bl)
		}
	}
	// no-op case: instantiates the module outside the per-case horizons
	fmt.Fprintf(&cs, "func Case%d() {\n\tinitKeys()\n}\n", len(cases))
	s := tmpl
	for _, r := range [][2]string{
		{"@IMPORTS@", imps.String()}, {"@DECLS@", kd.Decls}, {"@K@", strconv.Itoa(kd.K())}, {"@NV@", strconv.Itoa(kd.NV)},
		{"@B@", strconv.FormatInt(kd.B(), 10)}, {"@THIN@", strconv.FormatBool(kd.Thin)}, {"@FACTK@", strconv.FormatInt(fact(kd.K()), 10)}, {"@KT@", kd.KeyType}, {"@INIT@", init.String()}, {"@EXTRA@", kd.Extra},
	} {
		s = strings.ReplaceAll(s, r[0], r[1])
	}
	return s + cs.String()
}

// ---------------------------------------------------------------------------------------------
// running programs on both sides (engine/hrun: per-case horizons kept by the worker)

type program struct {
	kd    *kind
	cases []caseSpec
	src   string
	// results
	goRes []wrun.CaseResult
	goErr error
	wa    hrun.JobResult
	waErr string // compile error, or the worker crashed repeatedly
}

// runPrograms runs every program on Go and on Wa. stopFirst: Wa stops at the first deviating case.
func runPrograms(r *mc.Run, pool *mc.Pool, ps []*program, horizon func(c caseSpec) time.Duration, stopFirst bool) {
	hp := make([]*hrun.Program, len(ps))
	for i, p := range ps {
		p.src = genSource(p.kd, p.cases)
		var hz time.Duration
		for _, c := range p.cases {
			hz = max(hz, horizon(c))
		}
		hp[i] = &hrun.Program{Src: p.src, N: len(p.cases) + 1, Warm: true, Horizon: hz}
	}
	hrun.Run(r, pool, hp, stopFirst, !stopFirst)
	for i, p := range ps {
		p.goRes, p.goErr, p.wa, p.waErr = hp[i].GoRes, hp[i].GoErr, hp[i].Wa, hp[i].WaErr
	}
}

// ---------------------------------------------------------------------------------------------
// history rendering and classification

// digits decodes a history index at length n into the operations applied: the pre-fill inserts
// (npre of them, as "set v1" digits) followed by the n enumerated operations.
func digits(kd *kind, n int, idx int64) (ds []int, npre int) {
	span := pow(kd.B(), n)
	pre := idx / span
	idx %= span
	if pre > 0 {
		used := make([]bool, kd.K())
		c := pre - 1
		f := fact(kd.K())
		for i := kd.K(); i >= 1; i-- {
			f /= int64(i)
			d := int(c / f)
			c %= f
			k := 0
			for ; k < kd.K(); k++ {
				if !used[k] {
					if d == 0 {
						break
					}
					d--
				}
			}
			used[k] = true
			ds = append(ds, k)
		}
		npre = len(ds)
	}
	rest := make([]int, n)
	for i := n - 1; i >= 0; i-- {
		rest[i] = int(idx % kd.B())
		idx /= kd.B()
	}
	return append(ds, rest...), npre
}

// prefixIndex is the index, at length s, of the first s enumerated operations of history idx
// (length n) on the same initial map.
func prefixIndex(kd *kind, n int, idx int64, s int) int64 {
	span := pow(kd.B(), n)
	return (idx/span)*pow(kd.B(), s) + (idx%span)/pow(kd.B(), n-s)
}

func opText(kd *kind, d int) string {
	k, v := d%kd.K(), d/kd.K()
	if v < kd.NV {
		return fmt.Sprintf("m[%s] = %d", kd.Keys[k], (k+1)*10+v+1)
	}
	return fmt.Sprintf("delete(m, %s)", kd.Keys[k])
}

func histText(kd *kind, ds []int) string {
	var parts []string
	for _, d := range ds {
		parts = append(parts, opText(kd, d))
	}
	return strings.Join(parts, "; ")
}

func histTextOf(kd *kind, n int, idx int64) string {
	ds, _ := digits(kd, n, idx)
	return histText(kd, ds)
}

// opClass names the kind of the operation ds[step] relative to the finite map reached by
// ds[:step] (key order = index order of the kind's key list).
func opClass(kd *kind, ds []int, step int) string {
	has := make([]bool, kd.K())
	val := make([]int, kd.K())
	for _, d := range ds[:step] {
		k, v := d%kd.K(), d/kd.K()
		has[k] = v < kd.NV
		val[k] = v
	}
	d := ds[step]
	k, v := d%kd.K(), d/kd.K()
	below, above := 0, 0
	for i, h := range has {
		if h && i < k {
			below++
		}
		if h && i > k {
			above++
		}
	}
	switch {
	case v < kd.NV && !has[k]:
		return "insert-new-key"
	case v < kd.NV && val[k] == v:
		return "set-same-value"
	case v < kd.NV:
		return "overwrite"
	case !has[k]:
		return "delete-absent-key"
	case below > 0 && above > 0:
		return "delete-interior-key(node-may-have-two-children)"
	case below+above == 0:
		return "delete-only-key"
	default:
		return "delete-extreme-key"
	}
}

// firstDiff compares the verbose outputs of one history prefix; returns the observation class
// and a description of the first differing observation.
func firstDiff(kd *kind, goOut, waOut string, waStatus string) (obs, desc string) {
	gl := strings.Split(strings.TrimRight(goOut, "\n"), "\n")
	wl := strings.Split(strings.TrimRight(waOut, "\n"), "\n")
	keyName := func(f string) string {
		i, err := strconv.Atoi(f)
		if err != nil || i < 0 || i >= kd.K() {
			return "key#" + f
		}
		return kd.Keys[i]
	}
	if waStatus == "hang" {
		// no partial output exists; the previous prefix completed, so it is the last operation
		return "no-return", "the last operation (or an observation after it) does not return"
	}
	if waStatus == "crash" {
		return "engine-crash", "the last operation (or an observation after it) takes the engine process down"
	}
	for i, g := range gl {
		if i >= len(wl) || (i == len(wl)-1 && waStatus != "ok" && wl[i] != g) {
			what := "no-return"
			if waStatus == "trap" {
				what = "trap"
			}
			after := "the operation itself"
			if i > 0 && !strings.HasPrefix(gl[i], "S") {
				after = "observation " + strings.Join(gl[:i], " / ")
				if len(after) > 200 {
					after = "…" + after[len(after)-200:]
				}
			}
			return what, fmt.Sprintf("Wa stops (%s) where Go prints %q (after %s)", waStatus, g, after)
		}
		w := wl[i]
		if g == w {
			continue
		}
		gf, wf := strings.Fields(g), strings.Fields(w)
		if len(gf) == 0 || len(wf) != len(gf) || gf[0] != wf[0] {
			return "output-shape", fmt.Sprintf("Go prints %q, Wa prints %q", g, w)
		}
		switch gf[0] {
		case "L":
			switch {
			case gf[4] == "true" && wf[4] == "false":
				return "present-key-reported-absent", fmt.Sprintf("lookup of %s: Go (%s, %s), Wa (%s, %s)", keyName(gf[1]), gf[3], gf[4], wf[3], wf[4])
			case gf[4] == "false" && wf[4] == "true":
				return "absent-key-reported-present", fmt.Sprintf("lookup of %s: Go (%s, %s), Wa (%s, %s)", keyName(gf[1]), gf[3], gf[4], wf[3], wf[4])
			case gf[2] != wf[2] && gf[3] == wf[3]:
				return "plain-lookup-differs-from-comma-ok", fmt.Sprintf("m[%s]: Go %s, Wa %s", keyName(gf[1]), gf[2], wf[2])
			default:
				return "lookup-wrong-value", fmt.Sprintf("lookup of %s: Go (%s, %s), Wa (%s, %s)", keyName(gf[1]), gf[3], gf[4], wf[3], wf[4])
			}
		case "T":
			if gf[4] != wf[4] {
				return "len", fmt.Sprintf("len(m): Go %s, Wa %s", gf[4], wf[4])
			}
			switch {
			case gf[3] == "true" && wf[3] == "false":
				return "present-key-reported-absent", fmt.Sprintf("lookup of %s: Go (%s, %s), Wa (%s, %s)", keyName(gf[1]), gf[2], gf[3], wf[2], wf[3])
			case gf[3] == "false" && wf[3] == "true":
				return "absent-key-reported-present", fmt.Sprintf("lookup of %s: Go (%s, %s), Wa (%s, %s)", keyName(gf[1]), gf[2], gf[3], wf[2], wf[3])
			}
			return "lookup-wrong-value", fmt.Sprintf("lookup of %s: Go (%s, %s), Wa (%s, %s)", keyName(gf[1]), gf[2], gf[3], wf[2], wf[3])
		case "X":
			return "alias-key-lookup", fmt.Sprintf("lookup of -0.0: Go (%s, %s), Wa (%s, %s)", gf[2], gf[3], wf[2], wf[3])
		case "N":
			return "len", fmt.Sprintf("len(m): Go %s, Wa %s", gf[1], wf[1])
		case "R":
			if gf[2] != wf[2] {
				return "range-unknown-key", fmt.Sprintf("range yields %s keys that were never inserted", wf[2])
			}
			return "range-iterations", fmt.Sprintf("range iterations: Go %s, Wa %s", gf[1], wf[1])
		case "C":
			if gf[2] != wf[2] {
				return "range-visit-count", fmt.Sprintf("range visits %s: Go %s times, Wa %s times", keyName(gf[1]), gf[2], wf[2])
			}
			return "range-value", fmt.Sprintf("range value of %s: Go %s, Wa %s", keyName(gf[1]), gf[3], wf[3])
		}
		return "other:" + gf[0], fmt.Sprintf("Go prints %q, Wa prints %q", g, w)
	}
	if len(wl) > len(gl) {
		return "output-shape", fmt.Sprintf("Wa prints extra output %q", wl[len(gl)])
	}
	if waStatus != "ok" {
		return waStatus, "Wa " + waStatus + " after printing everything Go prints"
	}
	return "", ""
}

// ---------------------------------------------------------------------------------------------
// main

type badRange struct {
	kd     *kind
	n      int
	lo, hi int64
	why    string // "mismatch", "trap", "hang"
	hint   string // provisional class from the in-program model
	detail string
}

// ops is the number of map operations of the first history of the range (pre-fill included).
func (b badRange) ops() int {
	if b.lo >= pow(b.kd.B(), b.n) {
		return b.n + b.kd.K()
	}
	return b.n
}

// less orders bad ranges so that the shortest history (in operations applied to the map, pre-fill
// included) comes first, then the lexicographically first.
func (b badRange) less(o badRange) bool {
	if b.ops() != o.ops() {
		return b.ops() < o.ops()
	}
	if b.n != o.n {
		return b.n < o.n
	}
	return b.lo < o.lo
}

// stepCostNs is the measured cost of one history step on the Wa side (one mutation and ~25
// observations) on an idle core; it only scales the hang horizons (x1000, at least 2 minutes:
// the box may be shared).
const stepCostNs = 5000

func chunkHorizon(c caseSpec) time.Duration {
	if c.Explain {
		return 60 * time.Second
	}
	est := time.Duration((c.Hi-c.Lo)*int64(c.N)*stepCostNs) * time.Nanosecond
	return max(120*time.Second, 1000*est)
}

func main() {
	if mc.IsWorker() {
		mc.WorkerMain(hrun.HandleJob)
		return
	}
	r := mc.Start("C13")
	r.Rule("per key kind every operation history (a base-B number, B = keys x {set v1, set v2, delete}) of length <= L is applied inside the compiled program to the empty map and, for length <= PreLen, to every map pre-filled by inserting all K keys in each of the K! orders; after every operation lookup and comma-ok of every key, len and a range loop are observed and folded into a rolling hash per block of histories; Go's builtin map running the identical source is the oracle; distinct = distinct block hash lines")
	r.Assume("float keys other than NaN (property statement)")
	r.Assume("range order is unspecified: only order-independent aggregates (iterations, per-key visit count and value) are observed")
	r.Assume("the map is not modified during a range loop")
	r.Assume("thorough tier, 7 int32 keys, insert/delete only: the full observation follows the last operation of a history, a thin one (comma-ok of the operated key, len) the earlier ones; every prefix is itself an enumerated history")
	ks := kinds(r.Thorough())
	if sel := os.Getenv("C13_KINDS"); sel != "" {
		var f []*kind
		for _, k := range ks {
			for _, s := range strings.Split(sel, ",") {
				if s == k.Name {
					f = append(f, k)
				}
			}
		}
		ks = f
	}
	if v := os.Getenv("C13_MAXLEN"); v != "" {
		n, _ := strconv.Atoi(v)
		for _, k := range ks {
			k.L = min(k.L, n)
		}
	}
	bounds := map[string]interface{}{}
	for _, k := range ks {
		bounds[k.Name] = map[string]interface{}{"keys": k.K(), "values_per_key": k.NV, "max_len": k.L, "prefilled_maps_up_to_len": k.PreLen, "prefill_orders": fact(k.K()), "alphabet": k.B(), "histories": func() (t int64) {
			for n := 1; n <= k.L; n++ {
				t += k.total(n)
			}
			return
		}()}
	}
	r.Bound("per_key_kind", bounds)

	pool := mc.NewPool(mc.NWorkers(), []string{"GOMAXPROCS=4"})
	defer pool.Close()

	// level 0: all chunks of all kinds
	casesPerProgram := mc.Pick(r, 16, 128)
	var progsAll []*program
	for _, kd := range ks {
		var cs []caseSpec
		for n := 1; n <= kd.L; n++ {
			total := kd.total(n)
			for lo := int64(0); lo < total; lo += kd.Chunk {
				cs = append(cs, caseSpec{N: n, Lo: lo, Hi: min(total, lo+kd.Chunk), Bl: kd.Block})
			}
		}
		for lo := 0; lo < len(cs); lo += casesPerProgram {
			progsAll = append(progsAll, &program{kd: kd, cases: cs[lo:min(len(cs), lo+casesPerProgram)]})
		}
	}
	// largest programs first
	sort.SliceStable(progsAll, func(i, j int) bool { return progSize(progsAll[i]) > progSize(progsAll[j]) })

	var bad []badRange
	var badMu sync.Mutex
	work := progsAll
	for round := 0; len(work) > 0; round++ {
		if round >= 6 {
			r.Cap("more than 6 rounds of re-running the rest of trapping/hanging chunks")
			break
		}
		if r.Expired() {
			r.Cap("deadline")
			break
		}
		runPrograms(r, pool, work, chunkHorizon, false)
		var next []*program
		skipped := false
		for _, p := range work {
			if p.goErr != nil {
				r.HarnessError("%s: Go reference failed: %v", p.kd.Name, p.goErr)
				continue
			}
			if p.waErr != "" {
				// the program as a whole failed on the Wa side
				if len(p.cases) > 1 {
					for _, c := range p.cases {
						next = append(next, &program{kd: p.kd, cases: []caseSpec{c}})
					}
					continue
				}
				c := p.cases[0]
				r.Report("C13|"+p.kd.Name+"-key|program-fails", fmt.Sprintf("the explorer program for %s keys does not compile/run on the Wa pipeline: %s", p.kd.Name, firstLines(p.waErr, 4)),
					map[string]interface{}{"kind": p.kd.Name, "case": c, "go_source": p.src, "error": p.waErr})
				continue
			}
			for ci, c := range p.cases {
				g, w := p.goRes[ci], p.wa.Res[ci]
				if os.Getenv("C13_TIMING") != "" {
					fmt.Fprintf(os.Stderr, "timing %s len=%d [%d,%d) wa=%dms (%.2f us/step)\n", p.kd.Name, c.N, c.Lo, c.Hi, p.wa.Ms[ci], float64(p.wa.Ms[ci])*1000/float64((c.Hi-c.Lo)*int64(c.N)))
				}
				if g.Status != "ok" {
					r.HarnessError("%s: Go reference case %v: %s", p.kd.Name, c, g.Status)
					continue
				}
				gl := strings.Split(strings.TrimRight(g.Out, "\n"), "\n")
				if len(gl) != c.nblocks() {
					r.HarnessError("%s: Go reference case %v printed %d lines, want %d", p.kd.Name, c, len(gl), c.nblocks())
					continue
				}
				var wl []string
				if t := strings.TrimRight(w.Out, "\n"); t != "" {
					wl = strings.Split(t, "\n")
				}
				if w.Status == "hang" || w.Status == "crash" {
					// a call that did not return (or took the engine process down) leaves no partial output: the whole chunk is the bad
					// range (refined to its first bad history); what lies behind that history in the
					// chunk is not explored
					badMu.Lock()
					bad = append(bad, badRange{kd: p.kd, n: c.N, lo: c.Lo, hi: c.Hi, why: w.Status, hint: w.Status, detail: w.Err})
					badMu.Unlock()
					r.Cap("the rest of a chunk in which an operation does not return")
					continue
				}
				if w.Status == "skipped" {
					skipped = true
					continue
				}
				for bi, gline := range gl {
					lo := c.Lo + int64(bi)*c.Bl
					hi := min(c.Hi, lo+c.Bl)
					gf := strings.Fields(gline)
					if len(gf) != 4 || gf[1] != "0" {
						r.HarnessError("%s: the in-program model disagrees with Go's map: block [%d,%d) len %d line %q", p.kd.Name, lo, hi, c.N, gline)
						continue
					}
					if bi >= len(wl) {
						// Wa stopped inside this block (trap / no return); the rest of the case is re-run
						why := w.Status
						if why == "ok" {
							why = "short-output"
						}
						badMu.Lock()
						bad = append(bad, badRange{kd: p.kd, n: c.N, lo: lo, hi: hi, why: why, hint: why, detail: w.Err})
						badMu.Unlock()
						if hi < c.Hi {
							next = append(next, &program{kd: p.kd, cases: []caseSpec{{N: c.N, Lo: hi, Hi: c.Hi, Bl: c.Bl}}})
						}
						break
					}
					r.Evals.Add(hi - lo)
					r.Transitions.Add((hi - lo) * int64(c.N))
					if wl[bi] == gline {
						r.Distinct(gline)
						if bi == 1 && r.WantSample() {
							r.Sample(map[string]interface{}{"kind": p.kd.Name, "len": c.N, "block": []int64{lo, hi}, "first_history": histTextOf(p.kd, c.N, lo), "go_and_wa_line": gline})
						}
						continue
					}
					hint := "hash-only"
					if wf := strings.Fields(wl[bi]); len(wf) == 4 && wf[1] != "0" {
						idx, _ := strconv.ParseInt(wf[2], 10, 64)
						code, _ := strconv.Atoi(wf[3])
						step := code/64 - 1
						if idx >= lo && idx < hi && step >= 0 && step < c.N {
							ds, npre := digits(p.kd, c.N, idx)
							hint = opClass(p.kd, ds, npre+step) + "|" + strconv.Itoa(code%64/8)
						}
					}
					badMu.Lock()
					bad = append(bad, badRange{kd: p.kd, n: c.N, lo: lo, hi: hi, why: "mismatch", hint: hint, detail: "Go " + gline + " / Wa " + wl[bi]})
					badMu.Unlock()
				}
			}
		}
		if skipped {
			r.Cap("deadline")
			break
		}
		work = next
	}

	// refinement: per key kind, the first bad block of every provisional class (the globally first
	// bad block is always among them)
	sort.SliceStable(bad, func(i, j int) bool { return bad[i].less(bad[j]) })
	seen := map[string]bool{}
	var sel []badRange
	perKind := map[string]int{}
	const maxRefinePerKind = 6
	for _, b := range bad {
		k := b.kd.Name + "|" + b.hint
		if seen[k] || perKind[b.kd.Name] >= maxRefinePerKind {
			continue
		}
		seen[k] = true
		perKind[b.kd.Name]++
		sel = append(sel, b)
	}
	r.Extra("bad_blocks", len(bad))
	r.Extra("refined_blocks", len(sel))
	var wg sync.WaitGroup
	sem := make(chan struct{}, 8)
	for _, b := range sel {
		wg.Add(1)
		sem <- struct{}{}
		go func(b badRange) {
			defer wg.Done()
			defer func() { <-sem }()
			refine(r, pool, b)
		}(b)
	}
	wg.Wait()

	if r.Evals.Load() < 1000 && os.Getenv("C13_KINDS") == "" {
		r.HarnessError("vacuous: only %d histories executed", r.Evals.Load())
	}
	r.States.Store(r.Evals.Load())
	r.Extra("wa_worker_cpu_seconds", float64(hrun.TotalWaCpuMs.Load())/1000)
	r.Finish()
}

func progSize(p *program) int64 {
	var t int64
	for _, c := range p.cases {
		t += (c.Hi - c.Lo) * int64(c.N)
	}
	return t
}

func firstLines(s string, n int) string {
	ls := strings.Split(strings.TrimSpace(s), "\n")
	if len(ls) > n {
		ls = ls[:n]
	}
	return strings.Join(ls, " / ")
}

// refine narrows a bad block to its first bad history (64-way splits, always descending into the
// first bad part), then explains that history prefix by prefix.
func refine(r *mc.Run, pool *mc.Pool, b badRange) {
	kd := b.kd
	lo, hi := b.lo, b.hi
	for hi-lo > 1 {
		step := (hi - lo + 63) / 64
		p := &program{kd: kd}
		for a := lo; a < hi; a += step {
			p.cases = append(p.cases, caseSpec{N: b.n, Lo: a, Hi: min(hi, a+step), Bl: step})
		}
		runPrograms(r, pool, []*program{p}, chunkHorizon, true)
		if p.goErr != nil || p.waErr != "" {
			r.HarnessError("refinement of %s len %d [%d,%d) failed: %v %s", kd.Name, b.n, lo, hi, p.goErr, p.waErr)
			return
		}
		found := false
		for ci, c := range p.cases {
			if w := p.wa.Res[ci]; w.Status != "ok" || w.Out != p.goRes[ci].Out {
				lo, hi, found = c.Lo, c.Hi, true
				break
			}
		}
		if !found {
			r.HarnessError("block %s len %d [%d,%d) was bad (%s: %s) but none of its parts is: not reproducible", kd.Name, b.n, lo, hi, b.why, b.detail)
			return
		}
	}
	idx := lo
	ds, npre := digits(kd, b.n, idx)
	// explain: case s-1 runs the first s operations (on the same initial map) verbosely
	p := &program{kd: kd}
	for s := 1; s <= b.n; s++ {
		p.cases = append(p.cases, caseSpec{Explain: true, N: s, Lo: prefixIndex(kd, b.n, idx, s)})
	}
	confirm := func() (step int, obs, desc string, ok bool) {
		runPrograms(r, pool, []*program{p}, chunkHorizon, true)
		if p.goErr != nil || p.waErr != "" {
			r.HarnessError("explanation of %s history %s failed: %v %s", kd.Name, histText(kd, ds), p.goErr, p.waErr)
			return 0, "", "", false
		}
		for ci := range p.cases {
			g, w := p.goRes[ci], p.wa.Res[ci]
			if w.Status == "ok" && w.Out == g.Out {
				continue
			}
			obs, desc = firstDiff(kd, g.Out, w.Out, w.Status)
			return ci, obs, desc, true
		}
		return 0, "", "", true
	}
	step, obs, desc, ok := confirm()
	if !ok {
		return
	}
	if obs == "" {
		r.HarnessError("history %s of %s keys differs in the hashed run but not in the verbose run", histText(kd, ds), kd.Name)
		return
	}
	// a violation must reproduce every time: 5 more runs (each in whatever worker is free)
	for k := 0; k < 5; k++ {
		s2, o2, _, ok2 := confirm()
		if !ok2 {
			return
		}
		if s2 != step || o2 != obs {
			r.HarnessError("history %s of %s keys: outcome changed between runs (%d %s / %d %s)", histText(kd, ds), kd.Name, step, obs, s2, o2)
			return
		}
	}
	ds = ds[:npre+step+1]
	hidx := prefixIndex(kd, b.n, idx, step+1)
	key := fmt.Sprintf("C13|%s-key|%s|%s", kd.Name, opClass(kd, ds, npre+step), obs)
	text := histText(kd, ds)
	if npre > 0 {
		text = "[map pre-filled by] " + histText(kd, ds[:npre]) + " [then] " + histText(kd, ds[npre:])
	}
	what := fmt.Sprintf("map[%s]int32: %s  -> after the last operation %s (history #%d of length %d, first bad history of block [%d,%d) at length %d; 6/6 runs)",
		kd.KeyType, text, desc, hidx, step+1, b.lo, b.hi, b.n)
	r.Report(key, what, map[string]interface{}{
		"kind": kd.Name, "key_type": kd.KeyType, "history": strings.Split(histText(kd, ds), "; "), "prefill_operations": npre, "length": step + 1,
		"history_index": hidx, "alphabet": kd.B(),
		"go_output": p.goRes[step].Out, "wa_output": p.wa.Res[step].Out, "wa_status": p.wa.Res[step].Status, "wa_err": p.wa.Res[step].Err,
		"go_source": p.src, "run": fmt.Sprintf("Case%d of go_source (Explain(%d, %d)) with Go and with wa", step, step+1, hidx),
	})
}
