//go:build go1.21

// C05 — the WAT printer's output re-parses to the same module.
//
// Space: the module space of C04 (families mod, instr, ctrl x frozen style alphabet), the stored
// testdata files, corpus compiler output. For every text s that the assembler accepts:
//
//	p1 = print(parse(s))                       (watfmt.Format, the path `wa fmt` and watstrip use)
//	(1) Wat2Wasm(p1) is byte-equal to Wat2Wasm(s)
//	(2) print(parse(p1)) == p1
//	(3) V8 validates Wat2Wasm(p1)
//	(4) the independent reader (watgen.ReadWat, bound to the stored WABT binaries by C04) accepts p1
//	    and lowers it to the module the original text describes ("accepted by the reference
//	    assembler with the same meaning", as far as it can be decided without WABT)
//
// A panic or an error anywhere on this path is a violation.
package main

import (
	"bytes"
	"crypto/sha1"
	"encoding/base64"
	"encoding/json"
	"fmt"
	"math/bits"
	"os"
	"path/filepath"
	"regexp"
	"sort"
	"strings"
	"sync"
	"time"

	"wa-lang.org/wa/internal/wat/watutil"
	"wa-lang.org/wa/internal/wat/watutil/watfmt"
	"wa-lang.org/wa/internal/zzverif/mc"
	"wa-lang.org/wa/internal/zzverif/watgen"
	"wa-lang.org/wa/internal/zzverif/wrun"
)

const ID = "C05"

var (
	posRe  = regexp.MustCompile(`^[^ ]*:[0-9]+:[0-9]+: `)
	numRe  = regexp.MustCompile(`[0-9]+`)
	diffOp = watgen.DiffOpts{Names: true, ExportOrder: true, TypeOrder: true}
)

func errClass(msg string) string {
	msg = posRe.ReplaceAllString(msg, "")
	if i := strings.IndexByte(msg, '\n'); i >= 0 {
		msg = msg[:i]
	}
	msg = numRe.ReplaceAllString(msg, "N")
	if len(msg) > 90 {
		msg = msg[:90]
	}
	return msg
}

func clip(s string, n int) string {
	if len(s) > n {
		return s[:n] + "…"
	}
	return s
}

func assemble(text string) (wasm []byte, err error, panicked string) {
	panicked = mc.Recover(func() { wasm, err = watutil.Wat2Wasm("gen.wat", []byte(text)) })
	return
}

func format(text string) (out string, err error, panicked string) {
	panicked = mc.Recover(func() {
		var b []byte
		b, err = watfmt.Format("gen.wat", []byte(text))
		out = string(b)
	})
	return
}

// finding is one failed oracle on one text.
type finding struct {
	class  string // oracle|aspect|construct
	detail string
}

// firstDiffLine names the first line where two texts differ.
func firstDiffLine(a, b string) (construct, detail string) {
	la, lb := strings.Split(a, "\n"), strings.Split(b, "\n")
	for i := 0; i < len(la) || i < len(lb); i++ {
		var x, y string
		if i < len(la) {
			x = la[i]
		}
		if i < len(lb) {
			y = lb[i]
		}
		if x != y {
			w := strings.Fields(strings.TrimLeft(strings.TrimSpace(x)+" "+strings.TrimSpace(y), "("))
			kw := "eof"
			if len(w) > 0 {
				kw = strings.TrimLeft(w[0], "(")
			}
			return kw, fmt.Sprintf("line %d: %q vs %q", i+1, x, y)
		}
	}
	return "", ""
}

// check runs the oracles on one source text whose assembly is orig. wantMod (may be nil) is the
// module the text describes, for oracle (4).
func check(src string, orig []byte, want *watgen.Bin) (fs []finding, printed string, reassembled []byte) {
	p1, err, pn := format(src)
	if pn != "" {
		return []finding{{"print|panic|" + errClass(pn), "printer panics: " + pn}}, "", nil
	}
	if err != nil {
		return []finding{{"print|error|" + errClass(err.Error()), "format returns an error on a text the assembler accepts: " + err.Error()}}, "", nil
	}
	printed = p1
	b, err, pn := assemble(p1)
	switch {
	case pn != "":
		fs = append(fs, finding{"reassemble|panic|" + errClass(pn), "assembling the printed text panics: " + pn})
	case err != nil:
		fs = append(fs, finding{"reassemble|reject|" + errClass(err.Error()), "the printed text is rejected: " + err.Error()})
	default:
		reassembled = b
		if !bytes.Equal(b, orig) {
			class, detail := "bytes", fmt.Sprintf("%d bytes vs %d", len(b), len(orig))
			wb, e1 := watgen.Decode(orig)
			gb, e2 := watgen.Decode(b)
			if e1 == nil && e2 == nil {
				// sections by the difference engine, names by plain equality of the stored entries
				// (whether Wa's name section is well formed is C04's subject)
				o := diffOp
				o.Names = false
				for _, d := range watgen.Diff(wb, gb, o) {
					fs = append(fs, finding{"roundtrip|" + d.Class, "binary of the printed text differs: " + d.Detail})
					class = ""
				}
				for _, d := range namesDelta(wb.Names, gb.Names) {
					fs = append(fs, finding{"roundtrip|" + d.class, "binary of the printed text differs: " + d.detail})
					class = ""
				}
			}
			if class != "" {
				fs = append(fs, finding{"roundtrip|" + class, "binary of the printed text differs: " + detail})
			}
		}
	}
	p2, err, pn := format(p1)
	switch {
	case pn != "":
		fs = append(fs, finding{"idempotent|panic|" + errClass(pn), "printing the printed text panics: " + pn})
	case err != nil:
		fs = append(fs, finding{"idempotent|error|" + errClass(err.Error()), "the printed text does not parse: " + err.Error()})
	case p2 != p1:
		kw, detail := firstDiffLine(p1, p2)
		fs = append(fs, finding{"idempotent|" + kw, "print(parse(p1)) differs from p1 at " + detail})
	}
	if want != nil {
		m, err := watgen.ReadWat(p1)
		if err != nil {
			e := err.Error()
			if i := strings.Index(e, ": "); i >= 0 {
				e = e[i+2:]
			}
			if i := strings.Index(e, ": "); i >= 0 && strings.HasPrefix(e, "offset ") {
				e = e[i+2:]
			}
			fs = append(fs, finding{"reader|reject|" + errClass(e), "the independent reader rejects the printed text: " + err.Error()})
		} else if got, err := watgen.Lower(m, nil); err == nil {
			for _, d := range watgen.Diff(want, got, diffOp) {
				fs = append(fs, finding{"reader|" + d.Class, "the printed text describes another module: " + d.Detail})
			}
		}
	}
	return
}

// namesDelta compares two name sections entry by entry.
func namesDelta(a, b *watgen.Names) []finding {
	if a == nil || b == nil {
		if a != b {
			return []finding{{"names|presence", "one binary has a name section, the other has none"}}
		}
		return nil
	}
	var out []finding
	if a.HasModule != b.HasModule || a.Module != b.Module {
		out = append(out, finding{"names|module", fmt.Sprintf("module name %q vs %q", a.Module, b.Module)})
	}
	if fmt.Sprint(a.Funcs) != fmt.Sprint(b.Funcs) {
		out = append(out, finding{"names|functions", fmt.Sprintf("function names %v vs %v", a.Funcs, b.Funcs)})
	}
	if fmt.Sprint(a.Locals) != fmt.Sprint(b.Locals) {
		out = append(out, finding{"names|locals", fmt.Sprintf("local names %v vs %v", a.Locals, b.Locals)})
	}
	return out
}

type outcome struct {
	style    int
	kind     string // skipped (assembler does not accept the source), ok, fail
	findings []finding
	printed  string // interned
	wasm     string // interned
}

// intern keeps one copy of every distinct byte string (binaries, printed texts).
var internTab sync.Map

func intern(b []byte) string {
	if len(b) == 0 {
		return ""
	}
	k := sha1.Sum(b)
	if v, ok := internTab.Load(k); ok {
		return v.(string)
	}
	v, _ := internTab.LoadOrStore(k, string(b))
	return v.(string)
}

// textOf re-renders the text of one (item, style) pair for a report.
func textOf(it *watgen.Item, st watgen.Style) string {
	rd, err := watgen.Render(it.Module, st)
	if err != nil {
		return "render error: " + err.Error()
	}
	return rd.Text
}

type cand struct {
	order  int
	key    string
	what   string
	replay interface{}
}

// ---------------------------------------------------------------------------------------------
// worker: compiler output

type compJob struct{ Name, Src string }

type compResult struct {
	Err      string
	Findings []finding
	Wasm     string
	WatBytes int
}

func (f finding) MarshalJSON() ([]byte, error) {
	return json.Marshal(map[string]string{"class": f.class, "detail": f.detail})
}

func (f *finding) UnmarshalJSON(b []byte) error {
	var m map[string]string
	if err := json.Unmarshal(b, &m); err != nil {
		return err
	}
	f.class, f.detail = m["class"], m["detail"]
	return nil
}

func handleJob(raw json.RawMessage) interface{} {
	var j compJob
	if err := json.Unmarshal(raw, &j); err != nil {
		return compResult{Err: "bad job: " + err.Error()}
	}
	p, err := wrun.CompileWa(j.Name, j.Src)
	if err != nil {
		return compResult{Err: err.Error()}
	}
	res := compResult{WatBytes: len(p.Wat)}
	var want *watgen.Bin
	if m, err := watgen.ReadWat(string(p.Wat)); err == nil {
		want, _ = watgen.Lower(m, nil)
	} else {
		res.Err = "harness: independent reader rejects compiler output: " + err.Error()
		return res
	}
	fs, _, re := check(string(p.Wat), p.Wasm, want)
	for i := range fs {
		fs[i].detail = clip(fs[i].detail, 700)
	}
	res.Findings = fs
	res.Wasm = base64.StdEncoding.EncodeToString(re)
	return res
}

// ---------------------------------------------------------------------------------------------

func main() {
	if mc.IsWorker() {
		mc.WorkerMain(handleJob)
		return
	}
	r := mc.Start(ID)
	t0 := time.Now()
	lap := func(what string) {
		if os.Getenv("VERIF_TIMING") != "" {
			fmt.Fprintf(os.Stderr, "[%6.1fs] %s\n", time.Since(t0).Seconds(), what)
		}
	}
	thorough := r.Thorough()
	ctrlDepth := mc.Pick(r, 2, 3)
	r.Rule("the module space of C04 (families mod, instr, ctrl; every style of the frozen alphabet), the stored testdata files and corpus compiler output; every text the assembler accepts is printed, re-assembled, re-printed and read by the independent reader. Two outcomes are distinct when their oracle, difference class or printed text differ")
	r.Bound("ctrl_depth", ctrlDepth)
	r.Bound("style_switches", watgen.NumStyleSwitches)
	r.Assume("domain: texts that watutil.Wat2Wasm assembles (texts it rejects or panics on are C04's subject and are counted as skipped)")
	r.Assume("'accepted by the reference assembler with the same meaning' is decided by watgen.ReadWat + Lower (bound byte-for-byte to the 60 stored WABT binaries by C04); WABT itself is not installed")
	r.Assume("comments are not part of the AST and need not survive printing")

	v8, err := watgen.StartV8(mc.VerifDir())
	if err != nil {
		r.HarnessError("cannot start node: %v", err)
		r.Finish()
	}
	defer v8.Close()
	cache := watgen.NewV8Cache(v8)

	var cands []cand
	var cmu sync.Mutex
	addCand := func(order int, key, what string, replay interface{}) {
		cmu.Lock()
		cands = append(cands, cand{order, key, what, replay})
		cmu.Unlock()
	}

	styles := watgen.FrozenStyles()
	cover := watgen.CoverStyles()
	type fam struct {
		name   string
		items  []watgen.Item
		styles []watgen.Style
	}
	fams := []fam{
		{"mod", watgen.ModFamily(), mc.Pick(r, cover, styles)},
		{"instr", watgen.InstrFamily(), mc.Pick(r, cover, styles)},
		{"ctrl", watgen.CtrlFamily(ctrlDepth, watgen.CtrlOpts{}), mc.Pick(r, cover, styles)},
		{"ctrl-exec", watgen.CtrlFamily(mc.Pick(r, 1, 2), watgen.CtrlOpts{Exec: true}), cover},
		{"ctrl-shadow", watgen.CtrlShadowFamily(ctrlDepth), cover},
	}
	var items []watgen.Item
	var itemStyles [][]watgen.Style
	for _, f := range fams {
		for i := range f.items {
			st := f.styles
			if f.name == "mod" && !thorough && i < 110 {
				st = styles
			}
			items = append(items, f.items[i])
			itemStyles = append(itemStyles, st)
		}
		r.Bound("items_"+f.name, len(f.items))
	}
	if !thorough {
		r.Bound("quick_styles", "cover set (16 of 128) on every item; all 128 on the 110 simplest mod items")
	}

	// ---- generated families -------------------------------------------------------------------
	outs := make([][]outcome, len(items))
	mc.ParallelFor(len(items), func(i int) {
		if r.Expired() {
			r.Cap("deadline")
			return
		}
		it := &items[i]
		res := make([]outcome, 0, len(itemStyles[i]))
		for _, st := range itemStyles[i] {
			o := outcome{style: st.Bits()}
			rd, err := watgen.Render(it.Module, st)
			if err != nil {
				r.HarnessError("render %s/%s: %v", it.Family, it.Key, err)
				continue
			}
			orig, aerr, pn := assemble(rd.Text)
			if pn != "" || aerr != nil {
				o.kind = "skipped"
				res = append(res, o)
				continue
			}
			want, err := watgen.Lower(rd.Module, rd.Layout)
			if err != nil {
				r.HarnessError("lower %s/%s: %v", it.Family, it.Key, err)
				continue
			}
			r.Evals.Add(1)
			fs, printed, re := check(rd.Text, orig, want)
			o.findings, o.printed, o.wasm = fs, intern([]byte(printed)), intern(re)
			o.kind = "ok"
			if len(fs) > 0 {
				o.kind = "fail"
			}
			res = append(res, o)
		}
		outs[i] = res
	})
	lap("families printed")

	var distinct [][]byte
	seen := map[string]bool{}
	for i := range outs {
		for k := range outs[i] {
			if w := outs[i][k].wasm; w != "" && !seen[w] {
				seen[w] = true
				distinct = append(distinct, []byte(w))
			}
		}
	}
	vres, err := cache.Get(distinct)
	if err != nil {
		r.HarnessError("v8: %v", err)
		r.Finish()
	}
	valid := map[string]watgen.V8Result{}
	for i, w := range distinct {
		valid[string(w)] = vres[i]
	}
	lap("v8 done")

	stats := map[string]int{}
	printedSeen := map[string]bool{}
	nV8 := 0
	for i := range outs {
		it := &items[i]
		type hit struct {
			o *outcome
			f finding
		}
		best := map[string]hit{}
		better := func(a, b int) bool {
			if pa, pb := bits.OnesCount(uint(a)), bits.OnesCount(uint(b)); pa != pb {
				return pa < pb
			}
			return a < b
		}
		put := func(o *outcome, f finding) {
			if h, ok := best[f.class]; !ok || better(o.style, h.o.style) {
				best[f.class] = hit{o, f}
			}
		}
		for k := range outs[i] {
			o := &outs[i][k]
			stats[it.Family+"|"+o.kind]++
			for _, f := range o.findings {
				put(o, f)
			}
			if o.wasm != "" {
				if v := valid[o.wasm]; !v.Valid {
					put(o, finding{"v8-validate|" + errClass(v.Error), "WebAssembly.validate(Wat2Wasm(printed)) = false: " + v.Error})
				} else {
					nV8++
				}
			}
			if o.printed != "" && !printedSeen[o.printed] {
				printedSeen[o.printed] = true
				r.Distinct("printed|" + o.printed)
			}
			r.Distinct(it.Family + "|" + o.kind)
		}
		var classes []string
		for c := range best {
			classes = append(classes, c)
		}
		sort.Strings(classes)
		for _, c := range classes {
			h := best[c]
			st := watgen.StyleFromBits(h.o.style)
			addCand(i*1000+h.o.style, ID+"|"+c+"|style="+st.String(),
				fmt.Sprintf("%s/%s in style %s: %s", it.Family, it.Key, st, clip(h.f.detail, 500)),
				map[string]interface{}{"family": it.Family, "item": it.Key, "style": st.String(), "wat": textOf(it, st), "printed": h.o.printed,
					"observed": clip(h.f.detail, 4000), "expected": "Wat2Wasm(print(parse(s))) == Wat2Wasm(s); print(parse(.)) idempotent; V8 validates; the independent reader sees the same module"})
		}
		if r.WantSample() && len(outs[i]) > 0 && i%131 == 0 {
			o := &outs[i][0]
			r.Sample(map[string]interface{}{"family": it.Family, "item": it.Key, "style": watgen.StyleFromBits(o.style).String(), "outcome": o.kind, "wat": clip(textOf(it, watgen.StyleFromBits(o.style)), 500), "printed": clip(o.printed, 500)})
		}
	}
	lap("classified")

	// ---- stored testdata files -------------------------------------------------------------------
	dir := filepath.Join(mc.RepoDir(), "internal", "wat", "watutil", "testdata")
	files, _ := filepath.Glob(filepath.Join(dir, "*.wat"))
	sort.Strings(files)
	for fi, f := range files {
		src, err := os.ReadFile(f)
		if err != nil {
			continue
		}
		name := filepath.Base(f)
		orig, aerr, pn := assemble(string(src))
		if aerr != nil || pn != "" {
			stats["testdata|skipped"]++
			continue
		}
		var want *watgen.Bin
		if m, err := watgen.ReadWat(string(src)); err == nil {
			want, _ = watgen.Lower(m, nil)
		} else {
			r.HarnessError("independent reader rejects %s: %v", name, err)
		}
		r.Evals.Add(1)
		fs, printed, re := check(string(src), orig, want)
		stats["testdata|checked"]++
		if re != nil {
			if vr, err := cache.Get([][]byte{re}); err == nil && !vr[0].Valid {
				fs = append(fs, finding{"v8-validate|" + errClass(vr[0].Error), vr[0].Error})
			}
		}
		for _, fd := range fs {
			addCand(10_000_000+fi*100, ID+"|testdata|"+fd.class, fmt.Sprintf("testdata/%s: %s", name, clip(fd.detail, 500)),
				map[string]interface{}{"file": "internal/wat/watutil/testdata/" + name, "printed": printed, "observed": clip(fd.detail, 4000)})
		}
		r.Distinct(fmt.Sprintf("testdata|%s|%d", name, len(fs)))
	}
	lap("stored files done")

	// ---- compiler output -----------------------------------------------------------------------------
	corpus := watgen.WaCorpus()
	pool := mc.NewPool(min(len(corpus), mc.NWorkers()), nil)
	var pmu sync.Mutex
	pool.Run(len(corpus), func(i int) interface{} { return compJob{corpus[i].Name, corpus[i].Src} }, 20*time.Minute, func(res mc.Result) {
		pmu.Lock()
		defer pmu.Unlock()
		name := corpus[res.Index].Name
		base := 20_000_000 + res.Index*100
		if res.Status != "ok" {
			addCand(base, ID+"|compiler|"+res.Status, fmt.Sprintf("%s: worker %s: %s", name, res.Status, clip(res.Stderr, 400)), map[string]interface{}{"program": name, "src": corpus[res.Index].Src})
			return
		}
		var cr compResult
		if err := json.Unmarshal(res.Out, &cr); err != nil {
			r.HarnessError("worker answer: %v", err)
			return
		}
		if strings.HasPrefix(cr.Err, "harness:") {
			r.HarnessError("%s: %s", name, cr.Err)
			return
		}
		if cr.Err != "" {
			stats["compiler|skipped"]++
			return
		}
		r.Evals.Add(1)
		stats["compiler|checked"]++
		for _, fd := range cr.Findings {
			addCand(base, ID+"|compiler|"+fd.class, fmt.Sprintf("%s: %s", name, clip(fd.detail, 500)), map[string]interface{}{"program": name, "src": corpus[res.Index].Src, "observed": fd.detail})
		}
		if wasm, _ := base64.StdEncoding.DecodeString(cr.Wasm); len(wasm) > 0 {
			if vr, err := cache.Get([][]byte{wasm}); err == nil && !vr[0].Valid {
				addCand(base, ID+"|compiler|v8-validate|"+errClass(vr[0].Error), name+": "+vr[0].Error, map[string]interface{}{"program": name})
			}
		}
		r.Distinct(fmt.Sprintf("compiler|%s|%d", name, len(cr.Findings)))
	})
	pool.Close()
	lap("compiler output done")

	sort.SliceStable(cands, func(a, b int) bool {
		if cands[a].order != cands[b].order {
			return cands[a].order < cands[b].order
		}
		return cands[a].key < cands[b].key
	})
	for _, c := range cands {
		r.Report(c.key, c.what, c.replay)
	}
	r.Extra("outcomes", stats)
	r.Extra("distinct_printed_texts", len(printedSeen))
	r.Extra("v8_validated", nV8)

	checked := stats["mod|ok"] + stats["mod|fail"] + stats["instr|ok"] + stats["instr|fail"] + stats["ctrl|ok"] + stats["ctrl|fail"]
	if checked < 5000 {
		r.HarnessError("vacuous: only %d generated texts were accepted by the assembler and printed", checked)
	}
	if len(printedSeen) < 300 && r.ViolationCount() == 0 {
		r.HarnessError("vacuous: only %d distinct printed texts", len(printedSeen))
	}
	if stats["testdata|checked"] < 20 {
		r.HarnessError("vacuous: only %d stored files checked", stats["testdata|checked"])
	}
	r.Finish()
}
