//go:build go1.21

// c28race: the free-running pass of C28. Built with -race (never instrumented): the same API
// calls as the controlled exploration run as real goroutines released by a barrier. The race
// detector reports unsynchronised accesses that the cooperative scheduler's hand-offs would hide;
// results are also compared with each call run alone. Output protocol (stdout):
//
//	MISMATCH <scenario> <call> got=<digest> want=<digest>
//	PANIC <scenario> <call> <message>
//	DONE <scenarios> <rounds>
//
// Race reports go to stderr in the race detector's own format.
package main

import (
	"crypto/sha1"
	"encoding/hex"
	"fmt"
	"os"
	"strconv"
	"strings"
	"sync"

	"wa-lang.org/wa/api"
)

const progA = `
type T :struct {
	a: i32
	s: string
}

func T.Get() => i32 { return this.a }

func main {
	t := &T{a: 41, s: "x"}
	f := func() => i32 { return t.Get() + 1 }
	m := make(map[string]i32)
	m["k"] = f()
	println("A", m["k"], t.s)
}
`

const progB = `
type U :struct {
	v: []i64
	p: *U
}

type I :interface {
	Sum() => i64
}

func U.Sum() => i64 {
	s: i64 = 0
	for _, x := range this.v {
		s += x
	}
	return s
}

func main {
	u := &U{v: []i64{1, 2, 3}}
	u.p = u
	var i: I = u
	defer println("B-deferred")
	println("B", i.Sum(), u.p.v[2])
}
`

const progTest = `
func TestX {
	assert(1+1 == 2, "math")
}

func main {
	println("T")
}
`

const progFmt = "func   main  {\nprintln( 1 )\n}\n"

func digest(parts ...interface{}) string {
	h := sha1.New()
	for _, p := range parts {
		h.Write([]byte(fmt.Sprint(p)))
		h.Write([]byte{0})
	}
	return hex.EncodeToString(h.Sum(nil)[:8])
}

var calls = map[string]func() string{
	"buildA": func() string {
		m, wat, _, err := api.BuildFile(api.DefaultConfig(), "a.wa", progA)
		return digest(m, string(wat), err)
	},
	"buildB": func() string {
		m, wat, _, err := api.BuildFile(api.DefaultConfig(), "b.wa", progB)
		return digest(m, string(wat), err)
	},
	"runA": func() string {
		out, err := api.RunCode(api.DefaultConfig(), "a.wa", progA)
		return digest(string(out), err)
	},
	"runB": func() string {
		out, err := api.RunCode(api.DefaultConfig(), "b.wa", progB)
		return digest(string(out), err)
	},
	"fmt": func() string {
		out, err := api.FormatCode("f.wa", progFmt)
		return digest(out, err)
	},
	"loadTest": func() string {
		cfg := api.DefaultConfig()
		cfg.UnitTest = true
		prog, err := api.LoadProgramFile(cfg, "t.wa", progTest)
		n := -1
		if prog != nil {
			n = len(prog.Pkgs)
		}
		return digest(n, err)
	},
}

func main() {
	// usage: c28race <rounds> <baselines: name=digest,...> <scenario: call+call+...> ...
	rounds, _ := strconv.Atoi(os.Args[1])
	want := map[string]string{}
	for _, kv := range strings.Split(os.Args[2], ",") {
		if i := strings.IndexByte(kv, '='); i > 0 {
			want[kv[:i]] = kv[i+1:]
		}
	}
	if os.Args[2] == "baseline" {
		// print the digests of every call run alone, sequentially
		var parts []string
		for _, n := range []string{"buildA", "buildB", "runA", "runB", "fmt", "loadTest"} {
			parts = append(parts, n+"="+calls[n]())
		}
		fmt.Println("BASELINE " + strings.Join(parts, ","))
		return
	}
	scs := os.Args[3:]
	for r := 0; r < rounds; r++ {
		for _, sc := range scs {
			names := strings.Split(sc, "+")
			var wg sync.WaitGroup
			start := make(chan struct{})
			for _, n := range names {
				wg.Add(1)
				go func(n string) {
					defer wg.Done()
					defer func() {
						if e := recover(); e != nil {
							fmt.Printf("PANIC %s %s %v\n", sc, n, strings.SplitN(fmt.Sprint(e), "\n", 2)[0])
						}
					}()
					<-start
					got := calls[n]()
					if w, ok := want[n]; ok && w != got {
						fmt.Printf("MISMATCH %s %s got=%s want=%s\n", sc, n, got, w)
					}
				}(n)
			}
			close(start)
			wg.Wait()
		}
	}
	fmt.Printf("DONE %d %d\n", len(scs), rounds)
}
