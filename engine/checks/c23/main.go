//go:build go1.21

// C23: source positions.
//
// (a) every file content up to a length bound over {a, 0xC3, 0xA9 (the two bytes of é), \n, \r,
//
//	\t} × every offset, through FileSet.AddFile / SetLinesForContent (and, as a second
//	construction path, AddLine as the scanner does) / Position: line and column must be what
//	counting newlines and bytes gives.
//
// (b) every file set of ≤ 3 files (from a smaller content set) × {no directive, one AddLineInfo
//
//	directive at every offset the API allows} through ToJson / FromJson: Position(p) of every p
//	of every file is preserved; the un-serialised set is also compared with go/token (the
//	upstream of position.go) and, without a directive, with the counting oracle.
//
// (c) run-time panic positions: Wa programs with one panic("m") placed over a layout grid
//
//	(leading blank lines, \n vs \r\n, indentation, multi-byte text before the call, context:
//	main / closure / method / deferred function / deferred closure / nested blocks), compiled
//	and run through api.RunCode in worker subprocesses: the output must carry
//	"panic: m (file:line:col)" with line/col computed by the generator.
package main

import (
	"bytes"
	"encoding/json"
	"fmt"
	gotoken "go/token"
	"regexp"
	"strings"
	"sync"
	"sync/atomic"
	"time"

	"wa-lang.org/wa/api"
	"wa-lang.org/wa/internal/token"
	"wa-lang.org/wa/internal/zzverif/mc"
)

var alphabet = []byte{'a', 0xC3, 0xA9, '\n', '\r', '\t'}

func pow(b, e int) int {
	n := 1
	for ; e > 0; e-- {
		n *= b
	}
	return n
}

func contentOf(idx, l int, alpha []byte) []byte {
	out := make([]byte, l)
	for k := l - 1; k >= 0; k-- {
		out[k] = alpha[idx%len(alpha)]
		idx /= len(alpha)
	}
	return out
}

// ---------------------------------------------------------------------------------------------
// oracle: count newlines and bytes

type lc struct{ line, col int }

// count is the plain oracle: line = 1 + number of '\n' before offset; column = 1 + number of bytes
// since the last '\n' (or the file start).
func count(content []byte, off int) lc {
	line, start := 1, 0
	for i := 0; i < off; i++ {
		if content[i] == '\n' {
			line++
			start = i + 1
		}
	}
	return lc{line, off - start + 1}
}

// expect applies the contract written in position.go on top of count: a line starts only at an
// offset smaller than the file size (AddLine / SetLines docs), so the EOF position right after a
// trailing '\n' still belongs to the last line that has a start, and an empty file has no line at
// all ("An empty file has an empty line offset table"): its EOF position is the invalid position.
func expect(content []byte, off int) (want lc, documentedEOF bool) {
	n := len(content)
	if n == 0 {
		return lc{0, 0}, true
	}
	if off == n && content[n-1] == '\n' {
		// count for the last byte, then one column further
		w := count(content, n-1)
		return lc{w.line, w.col + 1}, true
	}
	return count(content, off), false
}

func offClass(content []byte, off int) string {
	switch {
	case off == len(content):
		return "eof"
	case off == 0 || content[off-1] == '\n':
		return "line-start"
	case content[off] == '\n':
		return "at-newline"
	}
	return "mid-line"
}

// ---------------------------------------------------------------------------------------------
// (a)

type aStats struct {
	evals, docEOF int64
	outcomes      map[string]struct{}
}

func checkContent(r *mc.Run, content []byte, st *aStats) {
	n := len(content)
	for path := 0; path < 2; path++ {
		api_ := "SetLinesForContent"
		fset := token.NewFileSet()
		f := fset.AddFile("f.wa", -1, n)
		if path == 0 {
			f.SetLinesForContent(content)
		} else {
			// the scanner's way: AddLine(offset of the byte after each '\n')
			api_ = "AddLine"
			if n == 0 {
				continue // an empty file keeps AddFile's initial table; only SetLinesForContent documents "empty table"
			}
			for i, b := range content {
				if b == '\n' {
					f.AddLine(i + 1)
				}
			}
		}
		gfset := gotoken.NewFileSet()
		gf := gfset.AddFile("f.wa", -1, n)
		if path == 0 {
			gf.SetLinesForContent(content)
		} else {
			for i, b := range content {
				if b == '\n' {
					gf.AddLine(i + 1)
				}
			}
		}
		if f.LineCount() != gf.LineCount() {
			r.Report("position|"+api_+"|line-count", fmt.Sprintf("content %q: LineCount=%d, go/token says %d", content, f.LineCount(), gf.LineCount()), map[string]any{"content": content})
		}
		for off := 0; off <= n; off++ {
			st.evals++
			var pos token.Position
			if p := mc.Recover(func() { pos = fset.Position(f.Pos(off)) }); p != "" {
				r.Report("position|"+api_+"|panic", fmt.Sprintf("content %q offset %d: Position panics: %s", content, off, p), map[string]any{"content": content, "offset": off})
				continue
			}
			want, doc := expect(content, off)
			if doc {
				st.docEOF++
			}
			cls := offClass(content, off)
			rep := map[string]any{"content": content, "content_text": string(content), "offset": off, "api": api_}
			// one report per offset, most basic field first (a wrong line makes the column meaningless)
			gpos := gfset.Position(gf.Pos(off))
			switch {
			case pos.Offset != off || pos.Filename != "f.wa":
				r.Report("position|"+api_+"|offset-or-filename|"+cls, fmt.Sprintf("content %q offset %d: got %+v", content, off, pos), rep)
			case pos.Line != want.line:
				r.Report("position|"+api_+"|line|"+cls, fmt.Sprintf("content %q offset %d: line %d, counting newlines gives %d", content, off, pos.Line, want.line), rep)
			case pos.Column != want.col:
				r.Report("position|"+api_+"|column|"+cls, fmt.Sprintf("content %q offset %d: column %d, counting bytes gives %d", content, off, pos.Column, want.col), rep)
			case gpos.Line != pos.Line || gpos.Column != pos.Column || gpos.Offset != pos.Offset || gpos.Filename != pos.Filename:
				// second reference: go/token on the same calls (can only fire if the two oracles disagree)
				r.HarnessError("oracles disagree: content %q offset %d: counting accepts %+v, go/token says %+v", content, off, pos, gpos)
			}
			// the other entry points agree with FileSet.Position
			if fp := f.Position(f.Pos(off)); fp != pos {
				r.Report("position|File.Position-vs-FileSet.Position|"+cls, fmt.Sprintf("content %q offset %d: %+v vs %+v", content, off, fp, pos), rep)
			}
			if l := f.Line(f.Pos(off)); l != pos.Line {
				r.Report("position|File.Line|"+cls, fmt.Sprintf("content %q offset %d: File.Line=%d Position.Line=%d", content, off, l, pos.Line), rep)
			}
			if f.Offset(f.Pos(off)) != off || fset.File(f.Pos(off)) != f {
				r.Report("position|Pos-Offset-File|"+cls, fmt.Sprintf("content %q offset %d: Offset/File lookup wrong", content, off), rep)
			}
			st.outcomes[fmt.Sprintf("%d:%d:%s", pos.Line, pos.Column, cls)] = struct{}{}
		}
		// LineStart(line) is the first offset of that line
		for line := 1; line <= f.LineCount(); line++ {
			p := f.LineStart(line)
			off := f.Offset(p)
			if w := count(content, off); w.line != line || w.col != 1 {
				r.Report("position|LineStart", fmt.Sprintf("content %q: LineStart(%d)=offset %d which counting puts at %d:%d", content, line, off, w.line, w.col), map[string]any{"content": content, "line": line})
			}
		}
	}
}

func partA(r *mc.Run, maxLen int) {
	type shard struct{ l, lo, hi int }
	const chunk = 4096
	var shards []shard
	for l := 0; l <= maxLen; l++ {
		n := pow(len(alphabet), l)
		for lo := 0; lo < n; lo += chunk {
			shards = append(shards, shard{l, lo, min(lo+chunk, n)})
		}
	}
	var docEOF atomic.Int64
	mc.ParallelFor(len(shards), func(i int) {
		if r.Expired() {
			r.Cap("deadline in (a)")
			return
		}
		sh := shards[i]
		st := &aStats{outcomes: map[string]struct{}{}}
		for idx := sh.lo; idx < sh.hi; idx++ {
			c := contentOf(idx, sh.l, alphabet)
			checkContent(r, c, st)
			if sh.l == 4 && idx%211 == 0 && r.WantSample() {
				fs := token.NewFileSet()
				f := fs.AddFile("f.wa", -1, len(c))
				f.SetLinesForContent(c)
				r.Sample(map[string]any{"part": "a", "content": string(c), "offset": 3, "position": fs.Position(f.Pos(3)).String()})
			}
		}
		r.Evals.Add(st.evals)
		docEOF.Add(st.docEOF)
		for o := range st.outcomes {
			r.Distinct("a:" + o)
		}
	})
	r.Extra("a_eof_positions_judged_by_documented_contract", docEOF.Load())
}

// ---------------------------------------------------------------------------------------------
// (b)

type directive struct {
	file, off, col int // col -1: AddLineInfo; else AddLineColumnInfo(col)
}

func (d directive) class() string {
	switch {
	case d.file < 0:
		return "directive=none"
	case d.col < 0:
		return "directive=AddLineInfo"
	}
	return fmt.Sprintf("directive=AddLineColumnInfo(col=%d)", d.col)
}

func buildSets(files [][]byte, gap int, d directive) (*token.FileSet, *gotoken.FileSet) {
	fs, gs := token.NewFileSet(), gotoken.NewFileSet()
	for i, c := range files {
		name := fileNames[i]
		base, gbase := -1, -1
		if gap > 0 {
			base, gbase = fs.Base()+gap, gs.Base()+gap
		}
		f := fs.AddFile(name, base, len(c))
		g := gs.AddFile(name, gbase, len(c))
		f.SetLinesForContent(c)
		g.SetLinesForContent(c)
		if d.file == i {
			if d.col < 0 {
				f.AddLineInfo(d.off, "alt.wa", 10+d.off)
				g.AddLineInfo(d.off, "alt.wa", 10+d.off)
			} else {
				f.AddLineColumnInfo(d.off, "alt.wa", 10+d.off, d.col)
				g.AddLineColumnInfo(d.off, "alt.wa", 10+d.off, d.col)
			}
		}
	}
	return fs, gs
}

var fileNames = []string{"f0.wa", "f1.wa", "f2.wa"}

type bStats struct {
	evals    int64
	outcomes map[string]struct{}
}

func checkSet(r *mc.Run, files [][]byte, gap int, d directive, st *bStats) {
	st.evals++
	fs, gs := buildSets(files, gap, d)
	end := fs.Base() // one past the last valid Pos
	rep := func() map[string]any {
		var cs []string
		for _, c := range files {
			cs = append(cs, string(c))
		}
		m := map[string]any{"files": cs, "files_bytes": files, "gap": gap}
		if d.file >= 0 {
			m["directive"] = map[string]int{"file": d.file, "offset": d.off, "column_arg(-1=AddLineInfo)": d.col}
		}
		return m
	}
	cls := d.class()
	if fs.Base() != gs.Base() {
		r.Report("fileset|base", fmt.Sprintf("FileSet.Base()=%d, go/token %d", fs.Base(), gs.Base()), rep())
	}
	before := make([]token.Position, end+1)
	beforeU := make([]token.Position, end+1)
	for p := 0; p <= end; p++ {
		before[p] = fs.Position(token.Pos(p))
		beforeU[p] = fs.PositionFor(token.Pos(p), false)
	}
	// counting oracle on the unadjusted positions of every file (and on the adjusted ones when
	// there is no directive); one report per position, most basic field first
	counted := make([]bool, end+1)
	countingOK := true
	fi := 0
	fs.Iterate(func(f *token.File) bool {
		c := files[fi]
		for off := 0; off <= len(c); off++ {
			p := f.Base() + off
			counted[p] = true
			want, _ := expect(c, off)
			for k, got := range []token.Position{beforeU[p], before[p]} {
				if k == 1 && d.file >= 0 {
					continue
				}
				field := ""
				switch {
				case got.Filename != fileNames[fi] || got.Offset != off:
					field = "file-or-offset"
				case got.Line != want.line:
					field = "line"
				case got.Column != want.col:
					field = "column"
				}
				if field != "" {
					countingOK = false
					r.Report("fileset|"+field+"|"+offClass(c, off),
						fmt.Sprintf("file %d %q offset %d (Pos %d): got %+v, counting gives %s:%d:%d", fi, c, off, p, got, fileNames[fi], want.line, want.col), rep())
					break
				}
			}
		}
		fi++
		return true
	})
	// go/token as the reference for what counting does not define: positions adjusted by the
	// directive, and Pos values outside every file
	if countingOK {
		for p := 0; p <= end; p++ {
			pos, g := before[p], gs.Position(gotoken.Pos(p))
			if g.Filename != pos.Filename || g.Line != pos.Line || g.Column != pos.Column || g.Offset != pos.Offset {
				what := "adjusted-position"
				if !counted[p] {
					what = "pos-outside-files"
				} else if d.file < 0 {
					r.HarnessError("oracles disagree at Pos %d of %q: counting accepts %+v, go/token says %+v", p, files, pos, g)
					break
				}
				r.Report("fileset|"+what+"-differs-from-go-token|"+cls, fmt.Sprintf("Pos %d: %+v, go/token %+v", p, pos, g), rep())
				break
			}
		}
	}

	var data []byte
	if p := mc.Recover(func() { data = fs.ToJson() }); p != "" {
		r.Report("roundtrip|ToJson-panic|"+cls, "ToJson panics: "+p, rep())
		return
	}
	fs2 := token.NewFileSet()
	var err error
	if p := mc.Recover(func() { err = fs2.FromJson(data) }); p != "" || err != nil {
		r.Report("roundtrip|FromJson-fails|"+cls, fmt.Sprintf("FromJson(ToJson()) fails: %v %s", err, p), rep())
		return
	}
	if fs2.Base() != fs.Base() {
		r.Report("roundtrip|base|"+cls, fmt.Sprintf("Base %d became %d", fs.Base(), fs2.Base()), rep())
	}
	for p := 0; p <= end; p++ {
		var a, au token.Position
		if pn := mc.Recover(func() { a, au = fs2.Position(token.Pos(p)), fs2.PositionFor(token.Pos(p), false) }); pn != "" {
			r.Report("roundtrip|position-panics|"+cls, fmt.Sprintf("after FromJson Position(%d) panics: %s", p, pn), rep())
			break
		}
		switch {
		case a != before[p]:
			what := "line-or-column"
			if a.Filename != before[p].Filename {
				what = "filename"
			}
			r.Report("roundtrip|position|"+what+"|"+cls, fmt.Sprintf("Pos %d: %+v before, %+v after ToJson/FromJson", p, before[p], a), rep())
		case au != beforeU[p]:
			r.Report("roundtrip|unadjusted-position|"+cls, fmt.Sprintf("Pos %d: %+v before, %+v after ToJson/FromJson", p, beforeU[p], au), rep())
		}
		if f1, f2 := fs.File(token.Pos(p)), fs2.File(token.Pos(p)); (f1 == nil) != (f2 == nil) ||
			(f1 != nil && (f1.Name() != f2.Name() || f1.Base() != f2.Base() || f1.Size() != f2.Size() || f1.LineCount() != f2.LineCount())) {
			r.Report("roundtrip|file-lookup|"+cls, fmt.Sprintf("File(%d) differs after ToJson/FromJson", p), rep())
		}
	}
	if d.file >= 0 {
		p := 0
		fs.Iterate(func(f *token.File) bool {
			if p == d.file {
				st.outcomes["adj:"+before[f.Base()+f.Size()].String()] = struct{}{}
			}
			p++
			return true
		})
	} else {
		st.outcomes[fmt.Sprintf("end=%d:%s", end, before[end-1].String())] = struct{}{}
	}
}

func partB(r *mc.Run) {
	// content set: every content of length <= 2 over the full alphabet, plus every content of
	// length 3..maxNL over {a, \n} (only newline placement and size reach the line table)
	var cs [][]byte
	for l := 0; l <= 2; l++ {
		for i := 0; i < pow(len(alphabet), l); i++ {
			cs = append(cs, contentOf(i, l, alphabet))
		}
	}
	maxNL := mc.Pick(r, 3, 5)
	for l := 3; l <= maxNL; l++ {
		for i := 0; i < pow(2, l); i++ {
			cs = append(cs, contentOf(i, l, []byte{'a', '\n'}))
		}
	}
	cols := mc.Pick(r, []int{-1}, []int{-1, 0, 4})
	r.Bound("b_contents", len(cs))
	r.Bound("b_contents_rule", fmt.Sprintf("all of length <=2 over the 6-byte alphabet + all of length 3..%d over {a,\\n}", maxNL))
	r.Bound("b_max_files", 3)
	r.Bound("b_directives", "none (contiguous bases), none (bases with a gap of 2), one AddLineInfo(offset, \"alt.wa\", 10+offset) at every (file, offset < size)"+
		mc.Pick(r, "", "; thorough also AddLineColumnInfo with column 0 and 4"))

	n := len(cs)
	// shards: (number of files k, index of first file) so that work is handed out simplest first
	type shard struct{ k, first int }
	shards := []shard{{0, 0}}
	for k := 1; k <= 3; k++ {
		for f := 0; f < n; f++ {
			shards = append(shards, shard{k, f})
		}
	}
	mc.ParallelFor(len(shards), func(i int) {
		if r.Expired() {
			r.Cap("deadline in (b)")
			return
		}
		sh := shards[i]
		st := &bStats{outcomes: map[string]struct{}{}}
		rest := pow(n, max(sh.k-1, 0))
		files := make([][]byte, sh.k)
		for idx := 0; idx < rest; idx++ {
			if sh.k > 0 {
				files[0] = cs[sh.first]
				x := idx
				for j := sh.k - 1; j >= 1; j-- {
					files[j] = cs[x%n]
					x /= n
				}
			}
			checkSet(r, files, 0, directive{file: -1}, st)
			if sh.k > 0 {
				checkSet(r, files, 2, directive{file: -1}, st)
			}
			for fi, c := range files {
				for off := 0; off < len(c); off++ { // "smaller than the file size": what the API allows
					for _, col := range cols {
						checkSet(r, files, 0, directive{fi, off, col}, st)
					}
				}
			}
			if sh.k == 2 && idx == 40 && r.WantSample() {
				fs, _ := buildSets(files, 0, directive{0, 0, -1})
				r.Sample(map[string]any{"part": "b", "files": []string{string(files[0]), string(files[1])}, "directive": "AddLineInfo(0,alt.wa,10) on file 0", "json_bytes": len(fs.ToJson())})
			}
		}
		r.Evals.Add(st.evals)
		for o := range st.outcomes {
			r.Distinct("b:" + o)
		}
	})
}

// ---------------------------------------------------------------------------------------------
// (c) run-time panic positions

type layout struct {
	Blank  int    // leading blank lines
	EOL    string // "\n" or "\r\n"
	Indent string // whitespace before the statement line's first token
	Prefix string // "none", "string-stmt", "comment", "prev-line-comment"
	Ctx    string // main, closure, method, defer-func, defer-closure, nested
}

func (l layout) String() string {
	return fmt.Sprintf("blank=%d eol=%q indent=%q prefix=%s ctx=%s", l.Blank, l.EOL, l.Indent, l.Prefix, l.Ctx)
}

const marker = "\x00" // stands for the panic call in templates

// program builds the source and returns the byte offset of the '(' of the panic call (the
// position the compiler attaches to a call: ssa.Panic.Pos() "returns the ast.CallExpr.Lparen")
// and the expected standard output.
func program(l layout) (src string, lparen int, wantOut string) {
	stmt := "panic(\"m\")"
	before := ""
	outBefore := ""
	switch l.Prefix {
	case "string-stmt":
		before = "println(\"héé\"); "
		outBefore = "héé\n"
	case "comment":
		before = "/* é→ */ "
	}
	line := l.Indent + before + marker
	var lines []string
	for i := 0; i < l.Blank; i++ {
		lines = append(lines, "")
	}
	lines = append(lines, "// panic position test: é 世界")
	prev := func() {
		if l.Prefix == "prev-line-comment" {
			lines = append(lines, l.Indent+"// 世界 é")
		}
	}
	switch l.Ctx {
	case "main":
		lines = append(lines, "func main {")
		prev()
		lines = append(lines, line, "}")
	case "closure":
		lines = append(lines, "func main {", "\tf := func() {")
		prev()
		lines = append(lines, line, "\t}", "\tf()", "}")
	case "method":
		lines = append(lines, "type T :struct {", "\tx: i32", "}", "", "func T.M() {")
		prev()
		lines = append(lines, line, "}", "", "func main {", "\tt: T", "\tt.M()", "}")
	case "defer-func":
		lines = append(lines, "func g() {")
		prev()
		lines = append(lines, line, "}", "", "func main {", "\tdefer g()", "}")
	case "defer-closure":
		lines = append(lines, "func main {", "\tdefer func() {")
		prev()
		lines = append(lines, line, "\t}()", "}")
	case "nested":
		lines = append(lines, "func main {", "\tfor i := 0; i < 3; i++ {", "\t\tif i == 1 {")
		prev()
		lines = append(lines, line, "\t\t}", "\t}", "}")
	}
	src = strings.Join(lines, l.EOL) + l.EOL
	at := strings.Index(src, marker)
	src = strings.Replace(src, marker, stmt, 1)
	lparen = at + len("panic")
	w := count([]byte(src), lparen)
	wantOut = outBefore + fmt.Sprintf("panic: m (%s:%d:%d)\n", progName, w.line, w.col)
	return
}

const progName = "prog.wa"

type CJob struct {
	Src string
}

type CResult struct {
	Out   string
	Err   string
	Panic string
}

func handleJob(raw json.RawMessage) interface{} {
	var j CJob
	if err := json.Unmarshal(raw, &j); err != nil {
		return CResult{Panic: "job decode: " + err.Error()}
	}
	var res CResult
	res.Panic = mc.Recover(func() {
		out, err := api.RunCode(api.DefaultConfig(), progName, j.Src)
		res.Out = string(out)
		if err != nil {
			res.Err = err.Error()
		}
	})
	return res
}

var panicLine = regexp.MustCompile(`(?m)^panic: m \((.*):(\d+):(\d+)\)$`)

func partC(r *mc.Run) {
	var grid []layout
	blanks := mc.Pick(r, []int{0, 2}, []int{0, 1, 2, 3})
	eols := []string{"\n", "\r\n"}
	indents := mc.Pick(r, []string{"\t", "  \t"}, []string{"", "\t", "\t\t", "  \t"})
	prefixes := mc.Pick(r, []string{"none", "string-stmt", "comment"}, []string{"none", "string-stmt", "comment", "prev-line-comment"})
	ctxs := mc.Pick(r, []string{"main", "closure", "method", "defer-func", "defer-closure"}, []string{"main", "closure", "method", "defer-func", "defer-closure", "nested"})
	for _, c := range ctxs {
		for _, p := range prefixes {
			for _, in := range indents {
				for _, e := range eols {
					for _, b := range blanks {
						grid = append(grid, layout{b, e, in, p, c})
					}
				}
			}
		}
	}
	r.Bound("c_programs", len(grid))
	r.Bound("c_grid", map[string]any{"leading_blank_lines": blanks, "eol": eols, "indent": indents, "text_before_call": prefixes, "context": ctxs})

	type gen struct {
		src     string
		lparen  int
		wantOut string
	}
	gens := make([]gen, len(grid))
	for i, l := range grid {
		s, lp, w := program(l)
		gens[i] = gen{s, lp, w}
		if s[lp] != '(' || !strings.HasPrefix(s[lp-5:], "panic(\"m\")") {
			r.HarnessError("generator: marker offset wrong for %s", l)
			return
		}
	}
	var mu sync.Mutex
	var failed []int
	var okRuns atomic.Int64

	// Wrong positions are collected per (field, layout features) with their first grid cell, and
	// only feature sets that are minimal under inclusion are reported: a defect that hits every
	// layout gives the single key "...|plain", one that needs a closure gives "...|ctx=closure".
	type cand struct {
		field  string
		feats  []string
		cell   int
		what   string
		replay map[string]any
	}
	cands := map[string]*cand{}
	features := func(l layout) (fs []string) {
		if l.Ctx != "main" {
			fs = append(fs, "ctx="+l.Ctx)
		}
		if l.EOL == "\r\n" {
			fs = append(fs, "crlf")
		}
		if l.Prefix != "none" {
			fs = append(fs, "before="+l.Prefix)
		}
		return
	}
	wrong := func(field string, i int, what string, replay map[string]any) {
		fs := features(grid[i])
		k := field + "|" + strings.Join(fs, ",")
		mu.Lock()
		if old, ok := cands[k]; !ok || i < old.cell {
			cands[k] = &cand{field, fs, i, what, replay}
		}
		mu.Unlock()
	}
	subset := func(a, b []string) bool { // a ⊆ b
		for _, x := range a {
			found := false
			for _, y := range b {
				if x == y {
					found = true
				}
			}
			if !found {
				return false
			}
		}
		return true
	}
	flush := func() {
		for _, c := range cands {
			minimal := true
			for _, o := range cands {
				if o != c && o.field == c.field && len(o.feats) < len(c.feats) && subset(o.feats, c.feats) {
					minimal = false
				}
			}
			if minimal {
				name := strings.Join(c.feats, ",")
				if name == "" {
					name = "plain"
				}
				r.Report("panic-pos|"+c.field+"|"+name, c.what, c.replay)
			}
		}
	}
	judge := func(i int, cr CResult) {
		l, g := grid[i], gens[i]
		r.Evals.Add(1)
		rep := map[string]any{"layout": l, "source": g.src, "expected_output": g.wantOut, "output": cr.Out, "error": cr.Err}
		if cr.Panic != "" {
			r.Report("panic-pos|pipeline-panics|ctx="+l.Ctx, fmt.Sprintf("[%s] api.RunCode panics: %s", l, cr.Panic), rep)
			return
		}
		m := panicLine.FindStringSubmatch(cr.Out)
		if m == nil {
			if !strings.Contains(cr.Out, "panic:") && cr.Err != "" && !strings.Contains(cr.Err, "exit_code") {
				// the generated program did not compile / run: the generator's fault, not the property's
				r.HarnessError("program for [%s] did not run: %s", l, cr.Err)
				return
			}
			wrong("no-position-in-message", i, fmt.Sprintf("[%s] output %q carries no 'panic: m (file:line:col)' line (err=%s)", l, cr.Out, cr.Err), rep)
			return
		}
		okRuns.Add(1)
		w := count([]byte(g.src), g.lparen)
		r.Distinct(fmt.Sprintf("c:%s:%s", m[2], m[3]))
		switch {
		case m[1] != progName:
			wrong("file", i, fmt.Sprintf("[%s] panic message names file %q, program is %q", l, m[1], progName), rep)
		case m[2] != fmt.Sprint(w.line):
			wrong("line", i, fmt.Sprintf("[%s] panic message says line %s, the call is on line %d (output %q)", l, m[2], w.line, cr.Out), rep)
		case m[3] != fmt.Sprint(w.col):
			wrong("column", i, fmt.Sprintf("[%s] panic message says column %s, the call's '(' is at column %d (output %q)", l, m[3], w.col, cr.Out), rep)
		case cr.Out != g.wantOut:
			wrong("output-around-message", i, fmt.Sprintf("[%s] output %q, expected %q", l, cr.Out, g.wantOut), rep)
		}
		if r.WantSample() {
			r.Sample(map[string]any{"part": "c", "layout": l.String(), "output": cr.Out})
		}
	}
	// a program costs 0.1–0.5 s; 20 min only classifies a hang
	err := runBatched(len(grid), 16*mc.NWorkers(), []string{"GOMAXPROCS=2"}, func(i int) interface{} { return CJob{gens[i].src} }, 20*time.Minute, func(res mc.Result) {
		if res.Status != "ok" {
			mu.Lock()
			failed = append(failed, res.Index)
			mu.Unlock()
			return
		}
		var cr CResult
		if err := json.Unmarshal(res.Out, &cr); err != nil {
			r.HarnessError("worker result: %v", err)
			return
		}
		judge(res.Index, cr)
	})
	if err != nil {
		r.HarnessError("pool: %v", err)
	}
	for _, i := range failed {
		bad, status, tail := 0, "", ""
		var good *CResult
		for t := 0; t < 5 && good == nil; t++ {
			mc.RunPool(1, 1, func(int) interface{} { return CJob{gens[i].src} }, 10*time.Minute, nil, func(res mc.Result) {
				if res.Status != "ok" {
					bad++
					status, tail = res.Status, res.Stderr
					return
				}
				var cr CResult
				if json.Unmarshal(res.Out, &cr) == nil {
					good = &cr
				}
			})
		}
		switch {
		case good != nil && bad == 0:
			judge(i, *good)
		case bad == 5:
			r.Evals.Add(1)
			if len(tail) > 400 {
				tail = tail[len(tail)-400:]
			}
			r.Report("panic-pos|pipeline-"+status+"|ctx="+grid[i].Ctx, fmt.Sprintf("[%s] compiling/running the program ends the worker (%s, 5/5): %s", grid[i], status, tail),
				map[string]any{"layout": grid[i], "source": gens[i].src})
		default:
			r.HarnessError("flaky worker failure (%d/5) for [%s]", bad, grid[i])
		}
	}
	flush()
	r.Extra("c_programs_with_panic_line", okRuns.Load())
	if okRuns.Load() < int64(len(grid))/2 && r.ViolationCount() == 0 {
		r.HarnessError("vacuous: only %d of %d programs produced a panic line", okRuns.Load(), len(grid))
	}
}

// runBatched is Pool.Run with the worker processes replaced after every batch: a long-lived
// process keeps ~2 MB per loaded program reachable (loader/compiler globals), so workers are
// recycled to keep memory modest.
func runBatched(njobs, batch int, env []string, job func(i int) interface{}, horizon time.Duration, handle func(mc.Result)) error {
	for lo := 0; lo < njobs; lo += batch {
		hi := min(lo+batch, njobs)
		pool := mc.NewPool(mc.NWorkers(), env)
		err := pool.Run(hi-lo, func(i int) interface{} { return job(lo + i) }, horizon, func(res mc.Result) {
			res.Index += lo
			handle(res)
		})
		pool.Close()
		if err != nil {
			return err
		}
	}
	return nil
}

func main() {
	if mc.IsWorker() {
		mc.WorkerMain(handleJob)
		return
	}
	r := mc.Start("C23")
	r.Rule("(a) every content (length ascending, lexicographic) x every offset 0..len x two line-table construction paths; (b) every ordered set of <=3 files from the content set x every directive placement; (c) every cell of the layout grid as one compiled and executed program; distinct = distinct (line, column, offset class) answers, distinct end positions of file sets, distinct panic (line, column) pairs")
	maxLen := mc.Pick(r, 6, 8)
	r.Bound("a_max_content_len", maxLen)
	r.Bound("a_alphabet", []string{"a", "0xC3", "0xA9", "\\n", "\\r", "\\t"})
	r.Assume("line = 1 + number of '\\n' bytes before the offset; column = 1 + bytes since the last '\\n' (\\r, \\t and UTF-8 continuation bytes are ordinary bytes: Position.Column is documented as a byte count)")
	r.Assume("EOF position (offset == size) directly after a trailing '\\n', and offset 0 of an empty file, are judged by the contract written in position.go (AddLine/SetLines: a line offset must be smaller than the file size; 'An empty file has an empty line offset table'): they report the last started line / the invalid position, exactly as go/token does; every other offset is judged by plain counting")
	r.Assume("AddLineInfo directives only at offsets smaller than the file size (AddLineColumnInfo doc: otherwise ignored)")
	r.Assume("the position of a call is the position of its '(' (ssa.Panic.Pos: 'returns the ast.CallExpr.Lparen'); panic output format 'panic: <msg> (<file>:<line>:<col>)' from runtime.panic_ and token.Position.String")

	phase := map[string]float64{}
	t0 := time.Now()
	lap := func(name string) { phase[name] = time.Since(t0).Seconds(); t0 = time.Now() }
	partA(r, maxLen)
	lap("a")
	partB(r)
	lap("b")
	if r.Expired() {
		r.Cap("deadline before (c)")
	} else {
		partC(r)
	}
	lap("c")
	r.Extra("phase_seconds", phase)
	if r.DistinctCount() < 20 {
		r.HarnessError("vacuous: %d distinct outcomes", r.DistinctCount())
	}
	r.Finish()
}

var _ = bytes.Equal
