//go:build go1.21

package main

import (
	"fmt"
	"os"
	"sort"
	"strconv"
	"strings"
	"sync"

	"wa-lang.org/wa/internal/native/abi"
	"wa-lang.org/wa/internal/native/x64"
	"wa-lang.org/wa/internal/zzverif/mc"
	"wa-lang.org/wa/internal/zzverif/xarch/x86asm"
)

// ---- frozen mnemonic / operand mapping (x86-64) -------------------------------------------------
//
// Wa's x64 builder (x64/prog_build.go) does no operand type checking: it derives the operand
// size from max(size(dst), size(src)) and hands a Plan 9 style Prog to p9x86. The property's
// "accepts" is therefore taken over the operand shapes that Intel syntax can express for the
// mnemonic (table x64Forms, transcribed from the Intel SDM instruction reference, restricted
// to Wa's operand model: register, [base+disp] memory with a ptr size, immediate): operand
// sizes agree, immediates fit the operand size. Mixed-size shapes (add ebx, rsi) are not
// demanded.
//
// Mnemonics: x64.AsString(as) equals x/arch's Op.String() lower-cased and llvm-mc's Intel
// mnemonic, with these exceptions (complete list):
//  X1 jz = je, jnz = jne (Intel aliases; disassemblers print je/jne)
//  X2 movabs r64, imm64 is MOV in x/arch (llvm prints movabs when the immediate needs 64 bits)
//  X3 SSE movsd is MOVSD_XMM in x/arch
//  X4 imul r, imm is the three operand form imul r, r, imm (both disassemblers print 3 operands)
//  X5 lea: the memory operand has no size (x/arch MemBytes is not compared)
//  X6 call/jmp/jcc with an immediate operand: the immediate is the rel32 displacement from the
//     end of the instruction (asm/asm_func_x64.go: op.Imm = targetPC - pc)
//  X7 [rip+disp] is x/arch Mem{Base: RIP}; Reg==0 is absolute [disp32]
//  X8 shifts by cl: Wa passes register cl as source operand.
//  X10 llvm-mc prints the shift-by-one opcodes (D0/D1) without the count operand: count 1 is added.
//  X9 mov r64, imm with 0 <= imm < 2^32 may be encoded as mov r32, imm32 (see xNormalize).
// Registers are compared by Intel name (x64.RegString vs the name table below).

type xc int

const (
	xR8 xc = iota
	xR8H
	xR16
	xR32
	xR64
	xXMM
	xM8
	xM16
	xM32
	xM64
	xIMM // immediate that fits the operation size
	xIMM8
	xIMM64
	xCL
	xREL
)

var xcName = map[xc]string{xR8: "r8", xR8H: "r8h", xR16: "r16", xR32: "r32", xR64: "r64", xXMM: "xmm", xM8: "m8", xM16: "m16", xM32: "m32", xM64: "m64", xIMM: "imm", xIMM8: "imm8", xIMM64: "imm64", xCL: "cl", xREL: "rel32"}

type xform []xc

func (f xform) String() string {
	var s []string
	for _, c := range f {
		s = append(s, xcName[c])
	}
	return strings.Join(s, ",")
}

func xRegOf(n int) xc { return map[int]xc{8: xR8, 16: xR16, 32: xR32, 64: xR64}[n] }
func xMemOf(n int) xc { return map[int]xc{8: xM8, 16: xM16, 32: xM32, 64: xM64}[n] }
func xSize(c xc) int {
	switch c {
	case xR8, xR8H, xM8, xCL:
		return 8
	case xR16, xM16:
		return 16
	case xR32, xM32:
		return 32
	case xR64, xM64:
		return 64
	}
	return 0
}

func xALU(withRM bool) []xform {
	var fs []xform
	for _, n := range []int{8, 16, 32, 64} {
		r, m := xRegOf(n), xMemOf(n)
		fs = append(fs, xform{r, r}, xform{m, r}, xform{r, xIMM}, xform{m, xIMM})
		if withRM {
			fs = append(fs, xform{r, m})
		}
	}
	fs = append(fs, xform{xR8H, xR8H}, xform{xM8, xR8H}, xform{xR8H, xIMM})
	if withRM {
		fs = append(fs, xform{xR8H, xM8})
	}
	return fs
}

func xUnary() []xform {
	return []xform{{xR8}, {xR8H}, {xR16}, {xR32}, {xR64}, {xM8}, {xM16}, {xM32}, {xM64}}
}

func xShift() []xform {
	var fs []xform
	for _, n := range []int{8, 16, 32, 64} {
		fs = append(fs, xform{xRegOf(n), xCL}, xform{xMemOf(n), xCL}, xform{xRegOf(n), xIMM8}, xform{xMemOf(n), xIMM8})
	}
	return fs
}

func xRegRM(sizes ...int) []xform {
	var fs []xform
	for _, n := range sizes {
		fs = append(fs, xform{xRegOf(n), xRegOf(n)}, xform{xRegOf(n), xMemOf(n)})
	}
	return fs
}

func xSSE(m xc) []xform { return []xform{{xXMM, xXMM}, {xXMM, m}} }

// x64Forms: mnemonic -> operand shapes (Intel SDM vol. 2).
var x64Forms = map[string][]xform{
	"add": xALU(true), "and": xALU(true), "cmp": xALU(true), "or": xALU(true), "sub": xALU(true), "xor": xALU(true), "mov": xALU(true),
	"test":   xALU(false),
	"movabs": {{xR64, xIMM64}},
	"imul":   append(xRegRM(16, 32, 64), xform{xR16, xIMM}, xform{xR32, xIMM}, xform{xR64, xIMM}),
	"dec":    xUnary(), "inc": xUnary(), "neg": xUnary(), "div": xUnary(), "idiv": xUnary(),
	"rol": xShift(), "ror": xShift(), "sar": xShift(), "shl": xShift(), "shr": xShift(),
	"seta": {{xR8}, {xR8H}, {xM8}}, "setae": {{xR8}, {xR8H}, {xM8}}, "setb": {{xR8}, {xR8H}, {xM8}}, "setbe": {{xR8}, {xR8H}, {xM8}},
	"sete": {{xR8}, {xR8H}, {xM8}}, "setg": {{xR8}, {xR8H}, {xM8}}, "setge": {{xR8}, {xR8H}, {xM8}}, "setl": {{xR8}, {xR8H}, {xM8}},
	"setle": {{xR8}, {xR8H}, {xM8}}, "setne": {{xR8}, {xR8H}, {xM8}}, "setnp": {{xR8}, {xR8H}, {xM8}},
	"push": {{xR64}, {xM64}, {xIMM}}, "pop": {{xR64}, {xM64}},
	"call": {{xR64}, {xM64}, {xREL}}, "jmp": {{xR64}, {xM64}, {xREL}},
	"ja": {{xREL}}, "jb": {{xREL}}, "je": {{xREL}}, "jge": {{xREL}}, "jns": {{xREL}}, "jnz": {{xREL}}, "jz": {{xREL}},
	"lea":   {{xR16, xM16}, {xR32, xM32}, {xR64, xM64}},
	"lzcnt": xRegRM(16, 32, 64), "tzcnt": xRegRM(16, 32, 64), "popcnt": xRegRM(16, 32, 64), "cmovne": xRegRM(16, 32, 64),
	"movzx":  {{xR16, xR8}, {xR16, xM8}, {xR32, xR8}, {xR32, xM8}, {xR64, xR8}, {xR64, xM8}, {xR32, xR16}, {xR32, xM16}, {xR64, xR16}, {xR64, xM16}, {xR32, xR8H}, {xR16, xR8H}},
	"movsxd": {{xR64, xR32}, {xR64, xM32}},
	"addsd":  xSSE(xM64), "subsd": xSSE(xM64), "mulsd": xSSE(xM64), "divsd": xSSE(xM64), "minsd": xSSE(xM64), "maxsd": xSSE(xM64), "sqrtsd": xSSE(xM64), "ucomisd": xSSE(xM64),
	"addss": xSSE(xM32), "subss": xSSE(xM32), "mulss": xSSE(xM32), "divss": xSSE(xM32), "minss": xSSE(xM32), "maxss": xSSE(xM32), "sqrtss": xSSE(xM32), "cvtss2sd": xSSE(xM32),
	"movsd":     {{xXMM, xXMM}, {xXMM, xM64}, {xM64, xXMM}},
	"movss":     {{xXMM, xXMM}, {xXMM, xM32}, {xM32, xXMM}},
	"cvtsi2sd":  {{xXMM, xR32}, {xXMM, xR64}, {xXMM, xM32}, {xXMM, xM64}},
	"cvtsi2ss":  {{xXMM, xR32}, {xXMM, xR64}, {xXMM, xM32}, {xXMM, xM64}},
	"cvttsd2si": {{xR32, xXMM}, {xR64, xXMM}, {xR32, xM64}, {xR64, xM64}},
	"cvttss2si": {{xR32, xXMM}, {xR64, xXMM}, {xR32, xM32}, {xR64, xM32}},
	"roundsd":   {{xXMM, xXMM, xIMM8}, {xXMM, xM64, xIMM8}},
	"roundss":   {{xXMM, xXMM, xIMM8}, {xXMM, xM32, xIMM8}},
	"cdq":       {{}}, "cqo": {{}}, "nop": {{}}, "ret": {{}}, "std": {{}}, "syscall": {{}},
}

var x64Alias = map[string]string{"jz": "je", "jnz": "jne", "movabs": "mov"} // X1 X2

// x86asm register -> Intel name
var x86RegName = func() map[x86asm.Reg]string {
	m := map[x86asm.Reg]string{}
	put := func(base x86asm.Reg, names ...string) {
		for i, n := range names {
			m[base+x86asm.Reg(i)] = n
		}
	}
	put(x86asm.AL, "al", "cl", "dl", "bl", "ah", "ch", "dh", "bh", "spl", "bpl", "sil", "dil", "r8b", "r9b", "r10b", "r11b", "r12b", "r13b", "r14b", "r15b")
	put(x86asm.AX, "ax", "cx", "dx", "bx", "sp", "bp", "si", "di", "r8w", "r9w", "r10w", "r11w", "r12w", "r13w", "r14w", "r15w")
	put(x86asm.EAX, "eax", "ecx", "edx", "ebx", "esp", "ebp", "esi", "edi", "r8d", "r9d", "r10d", "r11d", "r12d", "r13d", "r14d", "r15d")
	put(x86asm.RAX, "rax", "rcx", "rdx", "rbx", "rsp", "rbp", "rsi", "rdi", "r8", "r9", "r10", "r11", "r12", "r13", "r14", "r15")
	put(x86asm.X0, "xmm0", "xmm1", "xmm2", "xmm3", "xmm4", "xmm5", "xmm6", "xmm7", "xmm8", "xmm9", "xmm10", "xmm11", "xmm12", "xmm13", "xmm14", "xmm15")
	put(x86asm.F0, "st0", "st1", "st2", "st3", "st4", "st5", "st6", "st7")
	m[x86asm.RIP] = "rip"
	m[x86asm.EIP] = "eip"
	return m
}()

func xRegsOf(c xc) []abi.RegType {
	var out []abi.RegType
	rng := func(a, b abi.RegType) {
		for r := a; r <= b; r++ {
			out = append(out, r)
		}
	}
	switch c {
	case xR8:
		rng(x64.REG_AL, x64.REG_R15B)
	case xR8H:
		rng(x64.REG_AH, x64.REG_BH)
	case xR16:
		rng(x64.REG_AX, x64.REG_R15W)
	case xR32:
		rng(x64.REG_EAX, x64.REG_R15D)
	case xR64:
		rng(x64.REG_RAX, x64.REG_R15)
	case xXMM:
		rng(x64.REG_XMM0, x64.REG_XMM7)
	case xCL:
		out = append(out, x64.REG_CL)
	}
	return out
}

var xDisps = []int64{0, 1, -1, 8, -16, 64, 127, -128, 128, -129, 255, 256, 4096, -4096, 32767, -32768, 65536, 1<<31 - 1, -1 << 31}

func xImmsFor(size int, c xc) []int64 {
	var lo, hi int64
	switch c {
	case xIMM8:
		lo, hi = -128, 255
	case xIMM64:
		var out []int64
		seen := map[int64]bool{}
		for _, v := range immBoundary {
			if !seen[int64(v)] {
				seen[int64(v)] = true
				out = append(out, int64(v))
			}
		}
		for k := uint(31); k <= 63; k++ {
			for _, d := range []int64{0, 1, -1} {
				for _, v := range []int64{int64(1)<<k + d, -(int64(1) << k) + d} {
					if !seen[v] {
						seen[v] = true
						out = append(out, v)
					}
				}
			}
		}
		out = append(out, 0x3FF0000000000000, 0x5555555555555555, -0x5555555555555556, 1<<63-1)
		return out
	case xREL:
		lo, hi = -1<<31, 1<<31-1
	default:
		switch size {
		case 8:
			lo, hi = -128, 255
		case 16:
			lo, hi = -32768, 65535
		case 32:
			lo, hi = -1<<31, 1<<32-1
		default:
			lo, hi = -1<<31, 1<<31-1
		}
	}
	var out []int64
	seen := map[int64]bool{}
	add := func(v int64) {
		if v >= lo && v <= hi && !seen[v] {
			seen[v] = true
			out = append(out, v)
		}
	}
	for _, v := range immBoundary {
		add(int64(v))
	}
	for _, v := range []int64{1 << 31, 1<<31 + 1, 1<<32 - 1, 1<<32 - 2, 0xAAAAAAAA, 0x80000000} {
		add(v)
	}
	if hi-lo <= 70000 && size <= 8 {
		for v := lo; v <= hi; v++ {
			add(v)
		}
	}
	return out
}

type xOperand struct {
	cls  xc
	reg  abi.RegType // register, or base register of a memory operand (0 = absolute)
	disp int64
	imm  int64
}

func (o xOperand) wa() *abi.X64Operand {
	switch o.cls {
	case xR8, xR8H, xR16, xR32, xR64, xXMM, xCL:
		return &abi.X64Operand{Kind: abi.X64Operand_Reg, Reg: o.reg}
	case xM8:
		return &abi.X64Operand{Kind: abi.X64Operand_Mem, Reg: o.reg, PtrTyp: abi.X64BytePtr, Offset: o.disp}
	case xM16:
		return &abi.X64Operand{Kind: abi.X64Operand_Mem, Reg: o.reg, PtrTyp: abi.X64WordPtr, Offset: o.disp}
	case xM32:
		return &abi.X64Operand{Kind: abi.X64Operand_Mem, Reg: o.reg, PtrTyp: abi.X64DWordPtr, Offset: o.disp}
	case xM64:
		return &abi.X64Operand{Kind: abi.X64Operand_Mem, Reg: o.reg, PtrTyp: abi.X64QWordPtr, Offset: o.disp}
	default:
		return &abi.X64Operand{Kind: abi.X64Operand_Imm, Imm: o.imm}
	}
}

func xMemAux(bytes int, base string, disp int64) string {
	return fmt.Sprintf("%d:[%s+%d]", bytes, base, disp)
}

var xFieldNames = [3]string{"dst", "src", "arg3"}

// xExpected: canonical form of what was asked.
func xExpected(name string, form xform, ops []xOperand) cinst {
	var c cinst
	c.Op = name
	if a, ok := x64Alias[name]; ok {
		c.Op = a
	}
	size := 0
	for _, o := range ops {
		size = max(size, xSize(o.cls))
	}
	for i, o := range ops {
		fn := xFieldNames[i]
		switch o.cls {
		case xR8, xR8H, xR16, xR32, xR64, xXMM, xCL:
			c.add(fn, 'm', 0).Aux = x64.RegString(o.reg)
		case xM8, xM16, xM32, xM64:
			b := ""
			if o.reg != 0 {
				b = x64.RegString(o.reg)
			}
			bytes := xSize(o.cls) / 8
			if name == "lea" {
				bytes = 0 // X5
			}
			c.add(fn, 'm', 0).Aux = xMemAux(bytes, b, o.disp)
		default:
			if name == "imul" && i == 1 { // X4
				c.add("src", 'm', 0).Aux = x64.RegString(ops[0].reg)
				fn = "arg3"
			}
			c.add(fn, 'i', o.imm)
		}
	}
	return c
}

func xFromXarch(inst x86asm.Inst) (cinst, bool) {
	var c cinst
	c.Op = strings.ToLower(inst.Op.String())
	if c.Op == "movsd_xmm" { // X3
		c.Op = "movsd"
	}
	n := 0
	for _, a := range inst.Args {
		if a == nil {
			break
		}
		if n >= 3 {
			return c, false
		}
		fn := xFieldNames[n]
		n++
		switch v := a.(type) {
		case x86asm.Reg:
			nm, ok := x86RegName[v]
			if !ok {
				nm = strings.ToLower(v.String())
			}
			c.add(fn, 'm', 0).Aux = nm
		case x86asm.Mem:
			if v.Segment != 0 || v.Index != 0 && !(v.Index == x86asm.Reg(0)) {
				c.add(fn, 'm', 0).Aux = "complex:" + v.String()
				continue
			}
			b := ""
			if v.Base != 0 {
				b = x86RegName[v.Base]
			}
			bytes := inst.MemBytes
			if c.Op == "lea" {
				bytes = 0
			}
			// x/arch keeps a 32-bit displacement zero-extended; the hardware sign-extends it
			c.add(fn, 'm', 0).Aux = xMemAux(bytes, b, int64(int32(v.Disp)))
		case x86asm.Imm:
			f := c.add(fn, 'i', int64(v))
			f.W = xImmWidth(c.Op, inst.DataSize, inst.MemBytes, inst)
		case x86asm.Rel:
			f := c.add(fn, 'i', int64(v))
			f.W = 32
		default:
			return c, false
		}
	}
	return c, true
}

// xImmWidth: operation size in bits for immediate aliasing (add ebx, 0xffffffff == add ebx, -1);
// 64-bit operations sign-extend an imm32: no aliasing (W=0).
func xImmWidth(op string, dataSize, memBytes int, inst x86asm.Inst) uint8 {
	switch op {
	case "rol", "ror", "sar", "shl", "shr", "roundsd", "roundss":
		return 8
	case "push":
		return 0
	}
	// 8-bit forms: x86asm keeps DataSize at 32 for byte operations; look at the first operand
	if r, ok := inst.Args[0].(x86asm.Reg); ok {
		switch {
		case r >= x86asm.AL && r <= x86asm.R15B:
			return 8
		case r >= x86asm.AX && r <= x86asm.R15W:
			return 16
		case r >= x86asm.EAX && r <= x86asm.R15L:
			return 32
		default:
			return 0
		}
	}
	switch memBytes {
	case 1:
		return 8
	case 2:
		return 16
	case 4:
		return 32
	}
	return 0
}

var xLow32 = map[string]string{"rax": "eax", "rcx": "ecx", "rdx": "edx", "rbx": "ebx", "rsp": "esp", "rbp": "ebp", "rsi": "esi", "rdi": "edi",
	"r8": "r8d", "r9": "r9d", "r10": "r10d", "r11": "r11d", "r12": "r12d", "r13": "r13d", "r14": "r14d", "r15": "r15d"}

// xNormalize applies exception X9: `mov r64, imm` with 0 <= imm < 2^32 may be encoded as
// `mov r32, imm32` (the upper half is zeroed by the hardware: same architectural effect, this
// is what Go's and GNU's assemblers do for non-movabs mov).
func xNormalize(exp, got *cinst) {
	if exp.Op != "mov" || got.Op != "mov" || exp.N != 2 || got.N != 2 {
		return
	}
	e0, e1, g0, g1 := &exp.F[0], &exp.F[1], &got.F[0], &got.F[1]
	if e1.Kind != 'i' || g1.Kind != 'i' || e0.Kind != 'm' || g0.Kind != 'm' {
		return
	}
	if lo, ok := xLow32[e0.Aux]; ok && lo == g0.Aux && e1.Val >= 0 && e1.Val <= 1<<32-1 && uint32(g1.Val) == uint32(e1.Val) {
		g0.Aux = e0.Aux
		g1.Val = e1.Val
	}
}

func xHasHighByte(ops []xOperand) bool {
	for _, o := range ops {
		if o.cls == xR8H {
			return true
		}
	}
	return false
}

// xHasRex: a REX prefix (0x40..0x4f) precedes the opcode (after legacy prefixes 66/f2/f3).
func xHasRex(code []byte) bool {
	for _, b := range code {
		switch {
		case b == 0x66 || b == 0xf2 || b == 0xf3:
			continue
		case b >= 0x40 && b <= 0x4f:
			return true
		default:
			return false
		}
	}
	return false
}

func xEncode(as abi.As, arg *abi.X64Argument) (code []byte, ok bool, how string) {
	defer func() {
		if e := recover(); e != nil {
			ok, how = false, "panic"
		}
	}()
	code, err := x64.Encode(as, arg)
	if err != nil {
		return nil, false, "error"
	}
	if len(code) == 0 {
		return nil, false, "empty"
	}
	return code, true, ""
}

func xWaDecode(code []byte) (s string, ok bool) {
	defer func() {
		if e := recover(); e != nil {
			ok = false
		}
	}()
	inst, err := x64.Decode(code, 64)
	if err != nil || inst == nil {
		return "", false
	}
	return inst.String(), true
}

type xItem struct {
	as   abi.As
	name string
	form xform
}

type xRunner struct {
	r     *mc.Run
	agg   *aggregator
	llvm  bool
	qmu   sync.Mutex
	queue []xCase
}

type xCase struct {
	code  []byte
	name  string
	form  xform
	ops   []xOperand
	order int64
}

func xOperandString(o xOperand) string {
	w := o.wa()
	switch w.Kind {
	case abi.X64Operand_Reg:
		return x64.RegString(w.Reg)
	case abi.X64Operand_Mem:
		b := ""
		if w.Reg != 0 {
			b = x64.RegString(w.Reg)
		}
		return fmt.Sprintf("%s [%s%+d]", w.PtrTyp, b, w.Offset)
	}
	return strconv.FormatInt(w.Imm, 10)
}

func (xr *xRunner) runItem(it xItem) (accepted, rejected int64) {
	r := xr.r
	// alphabets per operand
	type alpha struct{ ops []xOperand }
	var al []alpha
	size := 0
	for _, c := range it.form {
		size = max(size, xSize(c))
	}
	for _, c := range it.form {
		var a alpha
		switch c {
		case xR8, xR8H, xR16, xR32, xR64, xXMM, xCL:
			for _, rg := range xRegsOf(c) {
				a.ops = append(a.ops, xOperand{cls: c, reg: rg})
			}
		case xM8, xM16, xM32, xM64:
			bases := append([]abi.RegType{0, x64.REG_RIP}, xRegsOf(xR64)...)
			for _, b := range bases {
				for _, d := range xDisps {
					a.ops = append(a.ops, xOperand{cls: c, reg: b, disp: d})
				}
			}
		default:
			for _, v := range xImmsFor(size, c) {
				a.ops = append(a.ops, xOperand{cls: c, imm: v})
			}
		}
		al = append(al, a)
	}
	total := 1
	for _, a := range al {
		total *= len(a.ops)
	}
	// reduce very large products: memory x immediate uses the full base/disp set with a reduced
	// immediate list and the full immediate list with a reduced base/disp set
	reported := map[string]bool{}
	distinctSeen := map[string]bool{}
	var lc []xCase
	registered := false
	group := it.form.String()
	if group == "" {
		group = "none"
	}
	one := func(ops []xOperand, order int64, toLLVM bool) {
		arg := &abi.X64Argument{}
		if len(ops) > 0 {
			arg.Dst = ops[0].wa()
		}
		if len(ops) > 1 {
			arg.Src = ops[1].wa()
		}
		if len(ops) > 2 {
			arg.Rest = []*abi.X64Operand{ops[2].wa()}
		}
		code, ok, _ := xEncode(it.as, arg)
		if !ok {
			rejected++
			return
		}
		accepted++
		if !registered {
			registered = true
			xr.agg.member("x64", "all", it.name)
		}
		exp := xExpected(it.name, it.form, ops)
		var ds []string
		for _, o := range ops {
			ds = append(ds, xOperandString(o))
		}
		desc := it.name + " " + strings.Join(ds, ", ")
		report := func(oracle, field, class, gotStr string) {
			k := oracle + "|" + field + "|" + class
			if reported[k] {
				return
			}
			reported[k] = true
			xr.agg.add(&candidate{arch: "x64", group: "all", mnem: it.name, oracle: oracle, field: field, class: class, order: order,
				what:   fmt.Sprintf("Encode(%s) [shape %s] = % x; asked: [%s]; %s says: [%s]", desc, it.form, code, exp.String(), oracle, gotStr),
				replay: map[string]any{"arch": "x64", "as": it.name, "shape": it.form.String(), "asm": desc, "encoding": fmt.Sprintf("% x", code)}})
		}
		inst, err := x86asm.Decode(code, 64)
		if err != nil {
			report("xarch", "op", "undecodable", err.Error())
			return
		}
		if inst.Len != len(code) {
			report("xarch", "op", "length-mismatch", fmt.Sprintf("%s (decoded %d of %d bytes)", x86asm.IntelSyntax(inst, 0, nil), inst.Len, len(code)))
			return
		}
		got, ok := xFromXarch(inst)
		if !ok {
			report("xarch", "op", "unmapped:"+got.Op, x86asm.IntelSyntax(inst, 0, nil))
			return
		}
		xNormalize(&exp, &got)
		if f, c := diff(&exp, &got); f != "" {
			if c == "reg" && xHasHighByte(ops) && xHasRex(code) {
				c = "reg:high-byte-register-with-rex-prefix"
			}
			report("xarch", f, c, x86asm.IntelSyntax(inst, 0, nil))
			return
		}
		// Wa's decoder (its vendored x86asm) must agree with the independent copy
		if s, ok := xWaDecode(code); !ok {
			report("wadecode", "op", "undecodable", "error")
			return
		} else if s != x86asm.IntelSyntax(inst, 0, nil) {
			report("wadecode", "op", "differs-from-xarch", s)
			return
		}
		if !distinctSeen[got.Op] {
			distinctSeen[got.Op] = true
			r.Distinct("x64|" + got.Op + "|" + it.form.String())
		}
		if toLLVM && xr.llvm {
			lc = append(lc, xCase{code: code, name: it.name, form: it.form, ops: append([]xOperand(nil), ops...), order: order})
		}
	}
	base := make([]int, len(al))
	for i, a := range al {
		base[i] = min(5, len(a.ops)-1)
		if it.form[i] == xM8 || it.form[i] == xM16 || it.form[i] == xM32 || it.form[i] == xM64 {
			base[i] = min(len(a.ops)-1, (2+5)*len(xDisps)+4) // [rbp-16]
		}
	}
	if len(al) == 0 {
		one(nil, 0, true)
	} else if total <= 300000 {
		idx := make([]int, len(al))
		for t := 0; t < total; t++ {
			tt := t
			ops := make([]xOperand, len(al))
			nd := 0
			for i := range al {
				idx[i] = tt % len(al[i].ops)
				tt /= len(al[i].ops)
				ops[i] = al[i].ops[idx[i]]
				if idx[i] != base[i] {
					nd++
				}
			}
			one(ops, int64(t), nd <= 1)
		}
	} else {
		// pairwise: every operand swept in full against every reduced alphabet of the others
		red := make([][]int, len(al))
		for i, a := range al {
			step := max(1, len(a.ops)/24)
			for j := 0; j < len(a.ops); j += step {
				red[i] = append(red[i], j)
			}
			red[i] = append(red[i], len(a.ops)-1, base[i])
		}
		order := int64(0)
		for full := range al {
			var rec func(i int, ops []xOperand, nd int)
			rec = func(i int, ops []xOperand, nd int) {
				if i == len(al) {
					order++
					one(append([]xOperand(nil), ops...), order, nd <= 1)
					return
				}
				if i == full {
					for j := range al[i].ops {
						d := 0
						if j != base[i] {
							d = 1
						}
						rec(i+1, append(ops, al[i].ops[j]), nd+d)
					}
				} else {
					for _, j := range red[i] {
						d := 0
						if j != base[i] {
							d = 1
						}
						rec(i+1, append(ops, al[i].ops[j]), nd+d)
					}
				}
			}
			rec(0, nil, 0)
		}
	}
	if xr.llvm && len(lc) > 0 {
		xr.qmu.Lock()
		xr.queue = append(xr.queue, lc...)
		xr.qmu.Unlock()
	}
	return
}

func (xr *xRunner) flushLLVM() {
	q := xr.queue
	xr.queue = nil
	if len(q) == 0 {
		return
	}
	n := mc.NWorkers()
	per := (len(q) + n - 1) / n
	mc.ParallelFor(n, func(i int) {
		lo, hi := i*per, min((i+1)*per, len(q))
		if lo < hi {
			xr.llvmCheck(q[lo:hi])
		}
	})
}

func (xr *xRunner) llvmCheck(lc []xCase) {
	var codes [][]byte
	for _, c := range lc {
		codes = append(codes, c.code)
	}
	texts, err := llvmDisasmX86(codes)
	if err != nil {
		xr.r.HarnessError("llvm-mc x86: %v", err)
		return
	}
	xr.r.Transitions.Add(int64(len(lc)))
	for i, c := range lc {
		exp := xExpected(c.name, c.form, c.ops)
		report := func(field, class, gotStr string) {
			var ds []string
			for _, o := range c.ops {
				ds = append(ds, xOperandString(o))
			}
			desc := c.name + " " + strings.Join(ds, ", ")
			xr.agg.add(&candidate{arch: "x64", group: "all", mnem: c.name, oracle: "llvm", field: field, class: class, order: c.order,
				what:   fmt.Sprintf("Encode(%s) [shape %s] = % x; asked: [%s]; llvm-mc says: [%s]", desc, c.form, c.code, exp.String(), gotStr),
				replay: map[string]any{"arch": "x64", "as": c.name, "shape": c.form.String(), "asm": desc, "encoding": fmt.Sprintf("% x", c.code)}})
		}
		if len(texts[i]) != 1 {
			report("op", "not-one-instruction", strings.Join(texts[i], " ; "))
			continue
		}
		got, ok := xFromLLVM(texts[i][0])
		if !ok {
			report("op", "unparsed:"+got.Op, texts[i][0])
			continue
		}
		xNormalize(&exp, &got)
		if f, cl := diff(&exp, &got); f != "" {
			report(f, cl, texts[i][0])
		}
	}
}

var llvmSizeWords = map[string]int{"byte": 1, "word": 2, "dword": 4, "qword": 8, "xmmword": 16}

// xFromLLVM parses llvm-mc Intel syntax ("add dword ptr [rbp - 16], 5").
func xFromLLVM(text string) (cinst, bool) {
	var c cinst
	text = strings.TrimSpace(text)
	mn, rest, _ := strings.Cut(text, "\t")
	if rest == "" {
		mn, rest, _ = strings.Cut(text, " ")
	}
	c.Op = strings.TrimSpace(mn)
	if a, ok := x64Alias[c.Op]; ok {
		c.Op = a
	}
	rest = strings.TrimSpace(rest)
	if rest == "" {
		return c, true
	}
	for i, o := range strings.Split(rest, ",") {
		if i >= 3 {
			return c, false
		}
		o = strings.TrimSpace(o)
		fn := xFieldNames[i]
		if p := strings.Index(o, "["); p >= 0 {
			bytes := 0
			pre := strings.Fields(o[:p])
			if len(pre) >= 1 {
				bytes = llvmSizeWords[pre[0]]
			}
			inner := strings.TrimSuffix(strings.TrimSpace(o[p+1:]), "]")
			inner = strings.ReplaceAll(inner, " - ", " + -")
			parts := strings.Split(inner, " + ")
			base, disp := "", int64(0)
			for _, p := range parts {
				p = strings.TrimSpace(p)
				if n, err := strconv.ParseInt(p, 0, 64); err == nil {
					disp += n
				} else if base == "" {
					base = p
				} else {
					c.add(fn, 'm', 0).Aux = "complex:" + o
					base = "?"
				}
			}
			if base == "?" {
				continue
			}
			if c.Op == "lea" {
				bytes = 0
			}
			c.add(fn, 'm', 0).Aux = xMemAux(bytes, base, disp)
			continue
		}
		if n, err := strconv.ParseInt(o, 0, 64); err == nil {
			f := c.add(fn, 'i', n)
			f.W = 0
			continue
		}
		if u, err := strconv.ParseUint(o, 0, 64); err == nil {
			c.add(fn, 'i', int64(u))
			continue
		}
		c.add(fn, 'm', 0).Aux = o
	}
	switch c.Op { // X10
	case "rol", "ror", "sar", "shl", "shr":
		if c.N == 1 {
			c.add("src", 'i', 1)
		}
	}
	// widths for immediate aliasing: from the first operand
	for i := 0; i < c.N; i++ {
		if c.F[i].Kind == 'i' {
			c.F[i].W = xTextWidth(&c)
		}
	}
	return c, true
}

var xRegWidth = func() map[string]uint8 {
	m := map[string]uint8{}
	for r, n := range x86RegName {
		switch {
		case r >= x86asm.AL && r <= x86asm.R15B:
			m[n] = 8
		case r >= x86asm.AX && r <= x86asm.R15W:
			m[n] = 16
		case r >= x86asm.EAX && r <= x86asm.R15L:
			m[n] = 32
		}
	}
	return m
}()

func xTextWidth(c *cinst) uint8 {
	switch c.Op {
	case "rol", "ror", "sar", "shl", "shr", "roundsd", "roundss":
		return 8
	case "push":
		return 0
	case "call", "jmp", "ja", "jb", "je", "jne", "jge", "jns":
		return 32
	}
	if c.N == 0 || c.F[0].Kind != 'm' {
		return 0
	}
	a := c.F[0].Aux
	if w, ok := xRegWidth[a]; ok {
		return w
	}
	switch {
	case strings.HasPrefix(a, "1:"):
		return 8
	case strings.HasPrefix(a, "2:"):
		return 16
	case strings.HasPrefix(a, "4:"):
		return 32
	}
	return 0
}

func xItems(r *mc.Run, cov map[string]any) []xItem {
	var items []xItem
	var missing []string
	for as := abi.As(1); as < x64.ALAST; as++ {
		name := x64.AsString(as, "")
		if f := os.Getenv("C17_AS"); f != "" && !strings.EqualFold(f, name) {
			continue
		}
		forms, ok := x64Forms[name]
		if !ok {
			missing = append(missing, name)
			continue
		}
		for _, f := range forms {
			items = append(items, xItem{as, name, f})
		}
	}
	sort.Strings(missing)
	if len(missing) > 0 {
		r.HarnessError("x64: mnemonics without a shape table entry: %v", missing)
	}
	return items
}
