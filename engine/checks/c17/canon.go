//go:build go1.21

package main

import (
	"fmt"
	"sort"
	"strings"
	"sync"
)

// A cinst is the canonical, architecture-neutral rendering of one instruction: a lower-case
// mnemonic and a list of named operand fields. The encoder's input (what Wa was asked to
// encode) and every oracle's answer (x/arch, llvm-mc, Wa's own decoder) are all mapped to a
// cinst and compared field by field.
type cfield struct {
	Name string // rd rs1 rs2 rs3 imm (riscv) / rd rj rk fa imm ... (loong64) / dst src imm (x64)
	Kind byte   // 'x' int reg, 'f' fp reg, 'c' condition flag reg, 's' fcsr, 'i' signed imm, 'u' unsigned imm, 'n' raw number, 'm' memory (x64), '?' wildcard
	Val  int64
	W    uint8 // width of the encoded field in bits (oracle side, immediates), 0 = unknown
	Sh   uint8 // low bits that the encoding cannot represent (alignment shift)
	Aux  string
}

type cinst struct {
	Op string
	N  int
	F  [8]cfield
}

func (c *cinst) add(name string, kind byte, val int64) *cfield {
	c.F[c.N] = cfield{Name: name, Kind: kind, Val: val}
	c.N++
	return &c.F[c.N-1]
}

func (c *cinst) get(name string) *cfield {
	for i := 0; i < c.N; i++ {
		if c.F[i].Name == name {
			return &c.F[i]
		}
	}
	return nil
}

func (c cinst) String() string {
	var sb strings.Builder
	sb.WriteString(c.Op)
	for i := 0; i < c.N; i++ {
		f := c.F[i]
		switch f.Kind {
		case 'x', 'f', 'c', 's':
			fmt.Fprintf(&sb, " %s=%c%d", f.Name, f.Kind, f.Val)
		case 'm':
			fmt.Fprintf(&sb, " %s=%s", f.Name, f.Aux)
		default:
			fmt.Fprintf(&sb, " %s=%d", f.Name, f.Val)
		}
	}
	return sb.String()
}

// canonicalImm: a decoder has to return immediates in the manual's canonical form (the value the
// independent disassembler shows): an unsigned field never comes back negative, a signed field
// never as its unsigned alias. back = Wa's decoder, got = x/arch.
func canonicalImm(back, got *cinst) (field string, ok bool) {
	for i := 0; i < back.N; i++ {
		b := &back.F[i]
		if isReg(b.Kind) || b.Kind == 'm' {
			continue
		}
		g := got.get(b.Name)
		if g == nil || g.Kind == '?' || isReg(g.Kind) {
			continue
		}
		if b.Val != g.Val {
			return b.Name, false
		}
	}
	return "", true
}

func isReg(k byte) bool { return k == 'x' || k == 'f' || k == 'c' || k == 's' }

// diff compares what the encoder was given (exp) with what an oracle decoded (got). It returns
// the first differing field and a canonical class of the difference ("" , "" when equal).
func diff(exp, got *cinst) (field, class string) {
	if exp.Op != got.Op {
		return "op", "decodes-as:" + got.Op
	}
	for i := 0; i < exp.N; i++ {
		e := &exp.F[i]
		g := got.get(e.Name)
		if g == nil {
			return e.Name, "operand-not-in-encoding"
		}
		if g.Kind == '?' {
			continue
		}
		switch {
		case e.Kind == 'm' || g.Kind == 'm':
			if e.Kind != g.Kind {
				return e.Name, "operand-kind"
			}
			if e.Aux != g.Aux {
				return e.Name, memClass(e.Aux, g.Aux)
			}
		case isReg(e.Kind) || isReg(g.Kind):
			if e.Kind != g.Kind {
				return e.Name, fmt.Sprintf("regclass:%c-decoded-as-%c", e.Kind, g.Kind)
			}
			if e.Val != g.Val {
				return e.Name, "regnum"
			}
		default:
			if c := immDiff(e.Val, g); c != "" {
				return e.Name, c
			}
		}
	}
	for i := 0; i < got.N; i++ {
		if exp.get(got.F[i].Name) == nil {
			return got.F[i].Name, "operand-not-given"
		}
	}
	return "", ""
}

// immDiff: v is the immediate handed to the encoder, g the field an oracle decoded.
// An immediate is "the same" when it is equal, or when it denotes the same bit pattern of the
// W-bit field and lies inside the union of the field's signed and unsigned ranges
// ([-2^(W-1), 2^W)): `lui x1, -1` == `lui x1, 0xfffff`, `addi.d r1, r1, 4095` == `-1`
// (the latter is documented in loong64/encode.go).
func immDiff(v int64, g *cfield) string {
	if v == g.Val {
		return ""
	}
	if g.W > 0 && g.W < 63 {
		w := uint(g.W) + uint(g.Sh)
		mod := int64(1) << w
		if (v-g.Val)%mod == 0 {
			if v >= -(mod>>1) && v < mod {
				return ""
			}
			return "imm:out-of-range-accepted-and-wrapped"
		}
		if g.Sh > 0 {
			al := int64(1) << g.Sh
			if v%al != 0 && (v&^(al-1)-g.Val)%mod == 0 {
				return "imm:misaligned-accepted-and-truncated"
			}
		}
		if v < -(mod>>1) || v >= mod {
			return "imm:out-of-range-accepted"
		}
	}
	if v < 0 {
		return "imm:negative-value-differs"
	}
	return "imm:value-differs"
}

func memClass(e, g string) string {
	// e and g look like "8:[rbp+disp]" (memory) or "rbx" (register); classify by first differing component
	if !strings.Contains(e, ":") && !strings.Contains(g, ":") {
		return "reg"
	}
	if strings.Contains(e, ":") != strings.Contains(g, ":") {
		return "operand-kind"
	}
	es, gs := strings.SplitN(e, ":", 2), strings.SplitN(g, ":", 2)
	if len(es) == 2 && len(gs) == 2 {
		if es[0] != gs[0] {
			return "mem:size"
		}
		eb, gb := strings.SplitN(es[1], "+", 2), strings.SplitN(gs[1], "+", 2)
		if eb[0] != gb[0] {
			if strings.HasPrefix(eb[0], "[rip") {
				return "mem:rip-relative-base-lost"
			}
			return "mem:base"
		}
		return "mem:disp"
	}
	return "mem"
}

// ---- violation aggregation -------------------------------------------------------------------

// A candidate is one observed disagreement. Candidates are grouped by (arch, group, oracle,
// field, class). If every mnemonic of a group fails the same way the group gets ONE key
// (the defect is in the group's shared packing code); otherwise each failing mnemonic gets its
// own key (the defect is in that mnemonic's table entry).
type candidate struct {
	arch, group, mnem, oracle, field, class string
	what                                    string
	replay                                  map[string]any
	order                                   int64
}

type aggregator struct {
	mu      sync.Mutex
	cands   map[string]*candidate      // arch|group|mnem|oracle|field|class -> first witness
	members map[string]map[string]bool // arch|group -> accepted mnemonics
}

func newAggregator() *aggregator {
	return &aggregator{cands: map[string]*candidate{}, members: map[string]map[string]bool{}}
}

func (a *aggregator) member(arch, group, mnem string) {
	a.mu.Lock()
	k := arch + "|" + group
	if a.members[k] == nil {
		a.members[k] = map[string]bool{}
	}
	a.members[k][mnem] = true
	a.mu.Unlock()
}

func (a *aggregator) add(c *candidate) {
	k := strings.Join([]string{c.arch, c.group, c.mnem, c.oracle, c.field, c.class}, "|")
	a.mu.Lock()
	if old, ok := a.cands[k]; !ok || c.order < old.order {
		a.cands[k] = c
	}
	a.mu.Unlock()
}

func (a *aggregator) has(arch, group, mnem, oracle, field, class string) bool {
	k := strings.Join([]string{arch, group, mnem, oracle, field, class}, "|")
	a.mu.Lock()
	_, ok := a.cands[k]
	a.mu.Unlock()
	return ok
}

var fieldRank = map[string]int{"op": 0, "rd": 1, "dst": 1, "rj": 2, "rs1": 2, "src": 2, "rk": 3, "rs2": 3, "ra": 4, "rs3": 4, "arg3": 4, "msb": 5, "lsb": 6, "imm": 7}

func rankOf(f string) int {
	if r, ok := fieldRank[f]; ok {
		return r
	}
	return 9
}

// flush turns candidates into canonical violation keys:
//
//	A  <arch>|<mnemonic or group:G>|<oracle>|<field>|<class[+class...]>
//	   per (mnemonic, oracle) only the first differing field in operand order is keyed, with the
//	   sorted set of difference classes seen on it; when every mnemonic of an encoding group
//	   (>= 2 members) fails identically the group gets one key instead of one per mnemonic.
//	B  <arch>|*|<oracle>|<field>|out-of-range-accepted
//	   operands the encoder does not range-check (value silently wrapped), all mnemonics listed
//	   in the text.
func (a *aggregator) flush(report func(key, what string, replay any)) {
	a.mu.Lock()
	defer a.mu.Unlock()
	var all []*candidate
	for _, c := range a.cands {
		all = append(all, c)
	}
	sort.Slice(all, func(i, j int) bool {
		if all[i].mnem != all[j].mnem {
			return all[i].mnem < all[j].mnem
		}
		return all[i].order < all[j].order
	})
	// B
	type bk struct{ arch, oracle, field, kind string }
	bb := map[bk][]*candidate{}
	var rest []*candidate
	for _, c := range all {
		if strings.HasPrefix(c.class, "imm:out-of-range") || c.class == "mem:rip-relative-base-lost" || c.class == "reg:high-byte-register-with-rex-prefix" || c.class == "imm:non-canonical-signedness" {
			kind := c.class
			if strings.HasPrefix(kind, "imm:out-of-range") {
				kind = "imm:out-of-range"
			}
			k := bk{c.arch, c.oracle, c.field, kind}
			bb[k] = append(bb[k], c)
		} else {
			rest = append(rest, c)
		}
	}
	var bks []bk
	for k := range bb {
		bks = append(bks, k)
	}
	sort.Slice(bks, func(i, j int) bool { return fmt.Sprint(bks[i]) < fmt.Sprint(bks[j]) })
	for _, k := range bks {
		cs := bb[k]
		seen := map[string]bool{}
		var names []string
		for _, c := range cs {
			if !seen[c.mnem] {
				seen[c.mnem] = true
				names = append(names, c.mnem)
			}
		}
		if cs[0].class == "mem:rip-relative-base-lost" {
			report(fmt.Sprintf("%s|*|%s|%s|rip-relative-base-lost", k.arch, k.oracle, k.field),
				fmt.Sprintf("[rip+disp] memory operands are encoded as absolute [disp32] (%d mnemonics: %s); e.g. %s", len(names), strings.Join(names, " "), cs[0].what), cs[0].replay)
			continue
		}
		if cs[0].class == "imm:non-canonical-signedness" {
			report(fmt.Sprintf("%s|*|%s|%s|non-canonical-signedness", k.arch, k.oracle, k.field),
				fmt.Sprintf("the decoder returns an unsigned field as a negative number (or a signed field as its unsigned alias) (%d mnemonics: %s); e.g. %s", len(names), strings.Join(names, " "), cs[0].what), cs[0].replay)
			continue
		}
		if cs[0].class == "reg:high-byte-register-with-rex-prefix" {
			report(fmt.Sprintf("%s|*|%s|%s|high-byte-register-with-rex-prefix", k.arch, k.oracle, k.field),
				fmt.Sprintf("ah/ch/dh/bh combined with an operand that needs a REX prefix is accepted and encodes spl/bpl/sil/dil (%d mnemonics: %s); e.g. %s", len(names), strings.Join(names, " "), cs[0].what), cs[0].replay)
			continue
		}
		report(fmt.Sprintf("%s|*|%s|%s|out-of-range-accepted", k.arch, k.oracle, k.field),
			fmt.Sprintf("operand is not range-checked, an unrepresentable value is accepted and silently wrapped (%d mnemonics: %s); e.g. %s", len(names), strings.Join(names, " "), cs[0].what), cs[0].replay)
	}
	// A: per (arch, mnem, oracle) the lowest-ranked field
	type mk struct{ arch, mnem, oracle string }
	type entry struct {
		arch, group, mnem, oracle, field, classes string
		first                                     *candidate
	}
	bym := map[mk][]*candidate{}
	for _, c := range rest {
		k := mk{c.arch, c.mnem, c.oracle}
		bym[k] = append(bym[k], c)
	}
	var entries []*entry
	for k, cs := range bym {
		best := 99
		for _, c := range cs {
			best = min(best, rankOf(c.field))
		}
		var keep []*candidate
		for _, c := range cs {
			if rankOf(c.field) == best {
				keep = append(keep, c)
			}
		}
		sort.Slice(keep, func(i, j int) bool { return keep[i].order < keep[j].order })
		cls := map[string]bool{}
		for _, c := range keep {
			cls[strings.TrimPrefix(c.class, "imm:")] = true
		}
		var cl []string
		for c := range cls {
			cl = append(cl, c)
		}
		sort.Strings(cl)
		entries = append(entries, &entry{k.arch, keep[0].group, k.mnem, k.oracle, keep[0].field, strings.Join(cl, "+"), keep[0]})
	}
	type gk struct{ arch, group, oracle, field, classes string }
	by := map[gk][]*entry{}
	for _, e := range entries {
		k := gk{e.arch, e.group, e.oracle, e.field, e.classes}
		by[k] = append(by[k], e)
	}
	var gks []gk
	for k := range by {
		gks = append(gks, k)
	}
	sort.Slice(gks, func(i, j int) bool { return fmt.Sprint(gks[i]) < fmt.Sprint(gks[j]) })
	for _, k := range gks {
		es := by[k]
		sort.Slice(es, func(i, j int) bool { return es[i].mnem < es[j].mnem })
		allm := a.members[k.arch+"|"+k.group]
		if len(es) >= 2 && len(es) == len(allm) {
			var names []string
			for _, e := range es {
				names = append(names, e.mnem)
			}
			report(fmt.Sprintf("%s|group:%s|%s|%s|%s", k.arch, k.group, k.oracle, k.field, k.classes),
				fmt.Sprintf("all %d mnemonics of this encoding group (%s): %s", len(es), strings.Join(names, " "), es[0].first.what), es[0].first.replay)
			continue
		}
		for _, e := range es {
			report(fmt.Sprintf("%s|%s|%s|%s|%s", k.arch, e.mnem, k.oracle, k.field, k.classes), e.first.what, e.first.replay)
		}
	}
}
