//go:build go1.21

package main

import (
	"encoding/binary"
	"fmt"
	"os"
	"strings"

	"wa-lang.org/wa/internal/native/abi"
	"wa-lang.org/wa/internal/native/loong64"
	"wa-lang.org/wa/internal/zzverif/mc"
	"wa-lang.org/wa/internal/zzverif/xarch/loong64asm"
)

// ---- frozen mnemonic / operand mapping (LoongArch64) ------------------------------------------
//
// Mnemonics: loong64.AsString(as) ("addi.d", "amadd_db.w") must equal x/arch's Op.String()
// ("ADDI.D", "AMADD_DB.W") after lower-casing both; no other mapping, no exception.
// Operands (Wa's own convention, loong64/encode.go + asm.go): Rd is the field in bits 4:0
// (rd/fd/cd/fcsr/code/hint/op), Rs1 the field in bits 9:5 (rj/fj/cj/fcsr), Rs2 bits 14:10
// (rk/fk) or msbw/msbd, Rs3 bits 19:15 (fa) or lsbw/lsbd, Imm every immediate (ui5 ui6 si12 ui12
// si14 si16 si20 sa2 sa3 ca code hint level csr seq and the byte offsets of branches).
// The oracle side takes the field of each argument from x/arch's own format table.
//
// Exceptions (complete list):
//  L1 2RI14 forms (LL/SC/LDPTR/STPTR): x/arch shows the byte offset si14<<2 (assembler
//     syntax), Wa's Imm is the raw si14 field (its decoder returns the raw field too): the
//     oracle value is divided by 4.
//  L2 ALSL.W/ALSL.WU/ALSL.D: x/arch shows sa2+1 (assembler syntax), Wa's Imm is the raw
//     field: 1 is subtracted from the oracle value.
//  L3 signed fields also take the unsigned alias of a negative value (documented in encode.go:
//     "编码时候带符号的立即数正数部分范围可以放宽到无符号"): equal when the field's bit pattern is
//     equal and the value lies in [-2^(n-1), 2^n).
//  L4 code/hint/op/msb/lsb operands travel in register slots as plain numbers.
//  L5 x/arch masks cd/cj to 3 bits and fcsr to 5 bits exactly like the manual; nothing to map.
// Independence caveat: loong64/a_out.go (mask/value per mnemonic) has the same provenance as
// x/arch's loong64asm tables, and there is no second LoongArch disassembler in this sandbox:
// the oracle is independent of Wa's operand packing, not of the opcode constants.

type laSlot struct {
	name string // canonical field name
	cls  byte   // 'x' 'f' 'c' 's' 'n'
	nmax int    // alphabet size for 'n' slots
}

type laFormat struct {
	slots  [4]laSlot // Rd, Rs1, Rs2, Rs3 ("" = unused)
	hasImm bool
}

var laFormats = map[loong64.OpFormatType]laFormat{
	loong64.OpFormatType_NULL:         {},
	loong64.OpFormatType_2R:           {slots: [4]laSlot{{"rd", 'x', 0}, {"rj", 'x', 0}}},
	loong64.OpFormatType_2F:           {slots: [4]laSlot{{"rd", 'f', 0}, {"rj", 'f', 0}}},
	loong64.OpFormatType_1F_1R:        {slots: [4]laSlot{{"rd", 'f', 0}, {"rj", 'x', 0}}},
	loong64.OpFormatType_1R_1F:        {slots: [4]laSlot{{"rd", 'x', 0}, {"rj", 'f', 0}}},
	loong64.OpFormatType_3R:           {slots: [4]laSlot{{"rd", 'x', 0}, {"rj", 'x', 0}, {"rk", 'x', 0}}},
	loong64.OpFormatType_3F:           {slots: [4]laSlot{{"rd", 'f', 0}, {"rj", 'f', 0}, {"rk", 'f', 0}}},
	loong64.OpFormatType_1F_2R:        {slots: [4]laSlot{{"rd", 'f', 0}, {"rj", 'x', 0}, {"rk", 'x', 0}}},
	loong64.OpFormatType_4F:           {slots: [4]laSlot{{"rd", 'f', 0}, {"rj", 'f', 0}, {"rk", 'f', 0}, {"ra", 'f', 0}}},
	loong64.OpFormatType_2R_ui5:       {slots: [4]laSlot{{"rd", 'x', 0}, {"rj", 'x', 0}}, hasImm: true},
	loong64.OpFormatType_2R_ui6:       {slots: [4]laSlot{{"rd", 'x', 0}, {"rj", 'x', 0}}, hasImm: true},
	loong64.OpFormatType_2R_si12:      {slots: [4]laSlot{{"rd", 'x', 0}, {"rj", 'x', 0}}, hasImm: true},
	loong64.OpFormatType_1F_1R_si12:   {slots: [4]laSlot{{"rd", 'f', 0}, {"rj", 'x', 0}}, hasImm: true},
	loong64.OpFormatType_2R_ui12:      {slots: [4]laSlot{{"rd", 'x', 0}, {"rj", 'x', 0}}, hasImm: true},
	loong64.OpFormatType_2R_si14:      {slots: [4]laSlot{{"rd", 'x', 0}, {"rj", 'x', 0}}, hasImm: true},
	loong64.OpFormatType_1R_si20:      {slots: [4]laSlot{{"rd", 'x', 0}}, hasImm: true},
	loong64.OpFormatType_0_2R:         {slots: [4]laSlot{{}, {"rj", 'x', 0}, {"rk", 'x', 0}}},
	loong64.OpFormatType_3R_sa2:       {slots: [4]laSlot{{"rd", 'x', 0}, {"rj", 'x', 0}, {"rk", 'x', 0}}, hasImm: true},
	loong64.OpFormatType_3R_sa3:       {slots: [4]laSlot{{"rd", 'x', 0}, {"rj", 'x', 0}, {"rk", 'x', 0}}, hasImm: true},
	loong64.OpFormatType_code:         {hasImm: true},
	loong64.OpFormatType_code_1R_si12: {slots: [4]laSlot{{"rd", 'n', 32}, {"rj", 'x', 0}}, hasImm: true},
	loong64.OpFormatType_2R_msbw_lsbw: {slots: [4]laSlot{{"rd", 'x', 0}, {"rj", 'x', 0}, {"msb", 'n', 32}, {"lsb", 'n', 32}}},
	loong64.OpFormatType_2R_msbd_lsbd: {slots: [4]laSlot{{"rd", 'x', 0}, {"rj", 'x', 0}, {"msb", 'n', 64}, {"lsb", 'n', 64}}},
	loong64.OpFormatType_fcsr_1R:      {slots: [4]laSlot{{"rd", 's', 0}, {"rj", 'x', 0}}},
	loong64.OpFormatType_1R_fcsr:      {slots: [4]laSlot{{"rd", 'x', 0}, {"rj", 's', 0}}},
	loong64.OpFormatType_cd_1R:        {slots: [4]laSlot{{"rd", 'c', 0}, {"rj", 'x', 0}}},
	loong64.OpFormatType_cd_1F:        {slots: [4]laSlot{{"rd", 'c', 0}, {"rj", 'f', 0}}},
	loong64.OpFormatType_cd_2F:        {slots: [4]laSlot{{"rd", 'c', 0}, {"rj", 'f', 0}, {"rk", 'f', 0}}},
	loong64.OpFormatType_1R_cj:        {slots: [4]laSlot{{"rd", 'x', 0}, {"rj", 'c', 0}}},
	loong64.OpFormatType_1F_cj:        {slots: [4]laSlot{{"rd", 'f', 0}, {"rj", 'c', 0}}},
	loong64.OpFormatType_1R_csr:       {slots: [4]laSlot{{"rd", 'x', 0}}, hasImm: true},
	loong64.OpFormatType_2R_csr:       {slots: [4]laSlot{{"rd", 'x', 0}, {"rj", 'x', 0}}, hasImm: true},
	loong64.OpFormatType_2R_level:     {slots: [4]laSlot{{"rd", 'x', 0}, {"rj", 'x', 0}}, hasImm: true},
	loong64.OpFormatType_level:        {hasImm: true},
	loong64.OpFormatType_0_1R_seq:     {slots: [4]laSlot{{}, {"rj", 'x', 0}}, hasImm: true},
	loong64.OpFormatType_op_2R:        {slots: [4]laSlot{{"rd", 'n', 32}, {"rj", 'x', 0}, {"rk", 'x', 0}}},
	loong64.OpFormatType_3F_ca:        {slots: [4]laSlot{{"rd", 'f', 0}, {"rj", 'f', 0}, {"rk", 'f', 0}}, hasImm: true},
	loong64.OpFormatType_hint_1R_si12: {slots: [4]laSlot{{"rd", 'n', 32}, {"rj", 'x', 0}}, hasImm: true},
	loong64.OpFormatType_hint_2R:      {slots: [4]laSlot{{"rd", 'n', 32}, {"rj", 'x', 0}, {"rk", 'x', 0}}},
	loong64.OpFormatType_hint:         {hasImm: true},
	loong64.OpFormatType_cj_offset:    {slots: [4]laSlot{{}, {"rj", 'c', 0}}, hasImm: true},
	loong64.OpFormatType_rj_offset:    {slots: [4]laSlot{{}, {"rj", 'x', 0}}, hasImm: true},
	loong64.OpFormatType_rj_rd_offset: {slots: [4]laSlot{{"rd", 'x', 0}, {"rj", 'x', 0}}, hasImm: true},
	loong64.OpFormatType_rd_rj_offset: {slots: [4]laSlot{{"rd", 'x', 0}, {"rj", 'x', 0}}, hasImm: true},
	loong64.OpFormatType_offset:       {hasImm: true},
}

func laAlphabet(s laSlot) []abi.RegType {
	var out []abi.RegType
	switch s.cls {
	case 'x':
		for i := 0; i < 32; i++ {
			out = append(out, loong64.REG_R0+abi.RegType(i))
		}
	case 'f':
		for i := 0; i < 32; i++ {
			out = append(out, loong64.REG_F0+abi.RegType(i))
		}
	case 'c':
		for i := 0; i < 8; i++ {
			out = append(out, loong64.REG_FCC0+abi.RegType(i))
		}
	case 's':
		for i := 0; i < 4; i++ {
			out = append(out, loong64.REG_FCSR0+abi.RegType(i))
		}
	case 'n':
		for i := 0; i < s.nmax; i++ {
			out = append(out, abi.RegType(i))
		}
		// beyond the field: the encoder must reject (or the operand is silently changed)
		out = append(out, abi.RegType(s.nmax), abi.RegType(2*s.nmax-1), 255, 256, 32767)
	}
	return out
}

func laRegKind(cls byte, r abi.RegType) (byte, int64) {
	switch {
	case cls == 'n':
		return 'n', int64(r)
	case r >= loong64.REG_R0 && r <= loong64.REG_R31:
		return 'x', int64(r - loong64.REG_R0)
	case r >= loong64.REG_F0 && r <= loong64.REG_F31:
		return 'f', int64(r - loong64.REG_F0)
	case r >= loong64.REG_FCSR0 && r <= loong64.REG_FCSR3:
		return 's', int64(r - loong64.REG_FCSR0)
	case r >= loong64.REG_FCC0 && r <= loong64.REG_FCC7:
		return 'c', int64(r - loong64.REG_FCC0)
	}
	return 'n', int64(r)
}

func laExpected(as abi.As, arg *abi.AsArgument) (cinst, bool) {
	var c cinst
	c.Op = laWaName(as)
	f, ok := laFormats[loong64.AsFormatType(as)]
	if !ok {
		return c, false
	}
	regs := [4]abi.RegType{arg.Rd, arg.Rs1, arg.Rs2, arg.Rs3}
	for i, s := range f.slots {
		if s.name == "" {
			continue
		}
		k, v := laRegKind(s.cls, regs[i])
		c.add(s.name, k, v)
	}
	if f.hasImm {
		c.add("imm", 'i', int64(arg.Imm))
	}
	return c, true
}

var laOpName = func() map[loong64asm.Op]string {
	m := map[loong64asm.Op]string{}
	for op := range loong64asm.VerifRoles {
		m[op] = strings.ToLower(op.String())
	}
	return m
}()

var laWaNames = func() []string {
	out := make([]string, loong64.ALAST+1)
	for as := abi.As(0); as <= loong64.ALAST; as++ {
		out[as] = strings.ToLower(loong64.AsString(as, ""))
	}
	return out
}()

func laWaName(as abi.As) string {
	if as >= 0 && int(as) < len(laWaNames) {
		return laWaNames[as]
	}
	return strings.ToLower(loong64.AsString(as, ""))
}

func laFromXarch(inst loong64asm.Inst) (cinst, bool) {
	var c cinst
	c.Op = laOpName[inst.Op]
	roles, ok := loong64asm.VerifRoles[inst.Op]
	if !ok {
		c.Op = strings.ToLower(inst.Op.String())
		return c, false
	}
	for i, role := range roles {
		a := inst.Args[i]
		if a == nil {
			return c, false
		}
		reg := func(name string) {
			r := a.(loong64asm.Reg)
			if r >= loong64asm.F0 {
				c.add(name, 'f', int64(r-loong64asm.F0))
			} else {
				c.add(name, 'x', int64(r))
			}
		}
		uimm := func(name string, kind byte, w uint8) {
			c.add(name, kind, int64(a.(loong64asm.Uimm).Imm)).W = w
		}
		switch role {
		case "rd", "fd":
			reg("rd")
		case "rj", "fj":
			reg("rj")
		case "rk", "fk":
			reg("rk")
		case "fa":
			reg("ra")
		case "op_4_0", "hint_4_0":
			uimm("rd", 'n', 5)
		case "code_4_0":
			c.add("rd", 'n', int64(a.(loong64asm.CodeSimm))).W = 5
		case "fcsr_4_0":
			c.add("rd", 's', int64(a.(loong64asm.Fcsr)))
		case "fcsr_9_5":
			c.add("rj", 's', int64(a.(loong64asm.Fcsr)))
		case "cd":
			c.add("rd", 'c', int64(a.(loong64asm.Fcc)))
		case "cj":
			c.add("rj", 'c', int64(a.(loong64asm.Fcc)))
		case "ca":
			c.add("imm", 'u', int64(a.(loong64asm.Fcc))).W = 3
		case "csr_23_10":
			uimm("imm", 'u', 14)
		case "sa2_16_15":
			v := int64(a.(loong64asm.SaSimm))
			if inst.Op == loong64asm.ALSL_D || inst.Op == loong64asm.ALSL_W || inst.Op == loong64asm.ALSL_WU {
				v-- // L2
			}
			c.add("imm", 'u', v).W = 2
		case "sa3_17_15":
			c.add("imm", 'u', int64(a.(loong64asm.SaSimm))).W = 3
		case "code_14_0":
			c.add("imm", 'u', int64(a.(loong64asm.CodeSimm))).W = 15
		case "ui5_14_10":
			uimm("imm", 'u', 5)
		case "ui6_15_10":
			uimm("imm", 'u', 6)
		case "ui12_21_10":
			uimm("imm", 'u', 12)
		case "lsbw":
			uimm("lsb", 'n', 5)
		case "msbw":
			uimm("msb", 'n', 5)
		case "lsbd":
			uimm("lsb", 'n', 6)
		case "msbd":
			uimm("msb", 'n', 6)
		case "hint_14_0", "level_14_0":
			uimm("imm", 'u', 15)
		case "level_17_10", "seq_17_10":
			uimm("imm", 'u', 8)
		case "si12_21_10":
			c.add("imm", 'i', int64(a.(loong64asm.Simm16).Imm)).W = 12
		case "si14_23_10":
			c.add("imm", 'i', int64(a.(loong64asm.Simm32).Imm)/4).W = 14 // L1
		case "si16_25_10":
			c.add("imm", 'i', int64(a.(loong64asm.Simm32).Imm)).W = 16
		case "si20_24_5":
			c.add("imm", 'i', int64(a.(loong64asm.Simm32).Imm)).W = 20
		case "offset_20_0":
			f := c.add("imm", 'i', int64(a.(loong64asm.OffsetSimm).Imm))
			f.W, f.Sh = 21, 2
		case "offset_25_0":
			f := c.add("imm", 'i', int64(a.(loong64asm.OffsetSimm).Imm))
			f.W, f.Sh = 26, 2
		case "offset_15_0":
			f := c.add("imm", 'i', int64(a.(loong64asm.OffsetSimm).Imm))
			f.W, f.Sh = 16, 2
		default:
			return c, false
		}
	}
	return c, true
}

func laEncode(as abi.As, arg *abi.AsArgument) (x uint32, ok bool) {
	defer func() {
		if e := recover(); e != nil {
			ok = false
		}
	}()
	x, err := loong64.EncodeLA64(as, arg)
	return x, err == nil
}

func laDecodeWa(x uint32) (as abi.As, arg *abi.AsArgument, ok bool) {
	defer func() {
		if e := recover(); e != nil {
			ok = false
		}
	}()
	as, arg, err := loong64.Decode(x)
	return as, arg, err == nil && arg != nil
}

type laItem struct {
	as   abi.As
	r0   int // index into the first used slot's alphabet (-1: all)
	full bool
}

type laRunner struct {
	r   *mc.Run
	agg *aggregator
}

type laCtx struct {
	lr       *laRunner
	as       abi.As
	mnem     string
	group    string
	reported map[string]bool
	evals    int64
	distinct bool
}

func laArgString(a *abi.AsArgument) string {
	return fmt.Sprintf("Rd=%d Rs1=%d Rs2=%d Rs3=%d Imm=%d", a.Rd, a.Rs1, a.Rs2, a.Rs3, a.Imm)
}

func (cx *laCtx) report(oracle, field, class string, x uint32, arg *abi.AsArgument, exp *cinst, gotStr string, order int64) {
	k := oracle + "|" + field + "|" + class
	if cx.reported[k] {
		return
	}
	cx.reported[k] = true
	cx.lr.agg.add(&candidate{arch: "loong64", group: cx.group, mnem: cx.mnem, oracle: oracle, field: field, class: class, order: order,
		what:   fmt.Sprintf("EncodeLA64(%s %s) = %08x; asked: [%s]; %s says: [%s]", cx.mnem, laArgString(arg), x, exp.String(), oracle, gotStr),
		replay: map[string]any{"arch": "loong64", "as": cx.mnem, "rd": int(arg.Rd), "rs1": int(arg.Rs1), "rs2": int(arg.Rs2), "rs3": int(arg.Rs3), "imm": arg.Imm, "encoding": fmt.Sprintf("%08x", x)}})
}

func (cx *laCtx) check(arg *abi.AsArgument, x uint32, order int64) {
	cx.evals++
	exp, _ := laExpected(cx.as, arg)
	var b [4]byte
	binary.LittleEndian.PutUint32(b[:], x)
	inst, err := loong64asm.Decode(b[:])
	if err != nil {
		cx.report("xarch", "op", "undecodable", x, arg, &exp, err.Error(), order)
		return
	}
	got, ok := laFromXarch(inst)
	if !ok {
		cx.report("xarch", "op", "unmapped:"+got.Op, x, arg, &exp, inst.String(), order)
		return
	}
	if f, c := diff(&exp, &got); f != "" {
		cx.report("xarch", f, c, x, arg, &exp, got.String(), order)
		return
	}
	as2, arg2, ok := laDecodeWa(x)
	if !ok {
		cx.report("wadecode", "op", "undecodable", x, arg, &exp, "error/panic", order)
		return
	}
	back, _ := laExpected(as2, arg2)
	for i := 0; i < back.N; i++ {
		if g := got.get(back.F[i].Name); g != nil {
			back.F[i].W, back.F[i].Sh = g.W, g.Sh
		}
	}
	if f, c := diff(&exp, &back); f != "" {
		cx.report("wadecode", f, c, x, arg, &exp, back.String(), order)
		return
	}
	if f, ok := canonicalImm(&back, &got); !ok {
		cx.report("wadecode", f, "imm:non-canonical-signedness", x, arg, &exp, back.String()+" (x/arch: "+got.String()+")", order)
		return
	}
	if !cx.distinct {
		cx.distinct = true
		cx.lr.r.Distinct("loong64|" + got.Op)
	}
}

func (lr *laRunner) runItem(it laItem) {
	r := lr.r
	ft := loong64.AsFormatType(it.as)
	f, ok := laFormats[ft]
	mnem := loong64.AsString(it.as, "")
	if !ok {
		r.HarnessError("loong64: format %v of %s not in the frozen table", ft, mnem)
		return
	}
	cx := &laCtx{lr: lr, as: it.as, mnem: mnem, group: strings.TrimPrefix(ft.String(), "OpFormatType_"), reported: map[string]bool{}}
	defer func() { r.Evals.Add(cx.evals) }()
	var slots []int
	var alpha [4][]abi.RegType
	for i, s := range f.slots {
		if s.name != "" {
			slots = append(slots, i)
			alpha[i] = laAlphabet(s)
		}
	}
	k := len(slots)
	arg := new(abi.AsArgument)
	set := func(idx [4]int, imm int32) {
		*arg = abi.AsArgument{Imm: imm}
		for _, s := range slots {
			v := alpha[s][idx[s]]
			switch s {
			case 0:
				arg.Rd = v
			case 1:
				arg.Rs1 = v
			case 2:
				arg.Rs2 = v
			case 3:
				arg.Rs3 = v
			}
		}
	}
	base := [4]int{5, 6, 7, 8}
	for _, s := range slots {
		if base[s] >= len(alpha[s]) {
			base[s] = len(alpha[s]) / 2
		}
	}
	var plan immPlan
	step := int64(1)
	if f.hasImm {
		// alignment of the accepted set: outside +-2^13 only multiples of the alignment are tried
		for _, a := range []int64{4, 2} {
			okAll := true
			for _, v := range []int32{1, int32(a) + 1, int32(a) - 1} {
				set(base, v)
				if _, ok := laEncode(it.as, arg); ok {
					okAll = false
				}
			}
			set(base, int32(a))
			if _, ok := laEncode(it.as, arg); ok && okAll {
				step = a
				break
			}
		}
		denseCap := int64(1<<21 + 16)
		if it.full && step == 4 {
			denseCap = 1<<26 + 16
		}
		plan = planImm(func(v int32) bool {
			set(base, v)
			_, ok := laEncode(it.as, arg)
			return ok
		}, denseCap)
	} else {
		plan.boundary = []int32{0}
		plan.lo, plan.hi = 0, -1
	}
	if len(plan.boundary) == 0 {
		return // nothing accepted with the base tuple
	}
	if f.hasImm {
		// the dense scan covers the field (as x/arch sees it) plus a margin, not the whole int32 hull
		lim := int64(1<<16 + 8)
		set(base, plan.boundary[0])
		if x, ok := laEncode(it.as, arg); ok {
			var b [4]byte
			binary.LittleEndian.PutUint32(b[:], x)
			if inst, err := loong64asm.Decode(b[:]); err == nil {
				if got, ok := laFromXarch(inst); ok {
					if g := got.get("imm"); g != nil && g.W > 0 {
						lim = int64(1)<<(uint(g.W)+uint(g.Sh)) + 8
					}
				}
			}
		}
		plan.lo, plan.hi = max(plan.lo, -lim), min(plan.hi, lim)
	}
	order := int64(0)
	if it.r0 > 0 {
		order = int64(it.r0) << 40
	}
	registered := false
	one := func(idx [4]int, imm int32) {
		order++
		set(idx, imm)
		x, ok := laEncode(it.as, arg)
		if !ok {
			return
		}
		if !registered {
			registered = true
			lr.agg.member("loong64", cx.group, mnem)
		}
		cx.check(arg, x, order)
	}
	bsmall := plan.boundary
	if len(bsmall) > 40 {
		keep := map[int32]bool{}
		srt := append([]int32(nil), plan.boundary...)
		sortInt32(srt)
		for i := 0; i < 10 && i < len(srt); i++ {
			keep[srt[i]], keep[srt[len(srt)-1-i]] = true, true
		}
		for i := 0; i < 20 && i < len(plan.boundary); i++ {
			keep[plan.boundary[i]] = true
		}
		bsmall = nil
		for _, v := range plan.boundary {
			if keep[v] {
				bsmall = append(bsmall, v)
			}
		}
	}
	total := 1
	for _, s := range slots {
		total *= len(alpha[s])
	}
	tuple := func(t int) (idx [4]int) {
		for _, s := range slots {
			idx[s] = t % len(alpha[s])
			t /= len(alpha[s])
		}
		return
	}
	// (A) all operand tuples x boundary immediates
	for t := 0; t < total; t++ {
		idx := tuple(t)
		if it.r0 >= 0 && k > 0 && idx[slots[0]] != it.r0 {
			continue
		}
		for _, imm := range bsmall {
			one(idx, imm)
		}
		if t&1023 == 0 && r.Expired() {
			r.Cap("deadline")
			return
		}
	}
	// (B) dense immediates
	if f.hasImm && plan.hi >= plan.lo {
		n := (plan.hi - plan.lo + 1) / step
		full := it.full && int64(total)*n <= 1<<27
		for t := 0; t < total; t++ {
			idx := tuple(t)
			if it.r0 >= 0 && k > 0 && idx[slots[0]] != it.r0 {
				continue
			}
			isBase, allSame := true, true
			for _, s := range slots {
				if idx[s] != base[s] {
					isBase = false
				}
				if idx[s] != idx[slots[0]] {
					allSame = false
				}
			}
			special := isBase || (n <= 1<<14 && allSame && k > 0 && (idx[slots[0]] == 0 || idx[slots[0]] == len(alpha[slots[0]])-1 || idx[slots[0]] == 21))
			if !full && !special {
				continue
			}
			for v := plan.lo; v <= plan.hi; {
				one(idx, int32(v))
				if step > 1 && (v > 1<<13 || v < -(1<<13)-int64(step)) && (v < plan.hi-64 && v > plan.lo+64) {
					v = (v + step) &^ (step - 1)
				} else {
					v++
				}
			}
			if r.Expired() {
				r.Cap("deadline")
				return
			}
		}
	}
}

func sortInt32(a []int32) {
	for i := 1; i < len(a); i++ {
		for j := i; j > 0 && a[j] < a[j-1]; j-- {
			a[j], a[j-1] = a[j-1], a[j]
		}
	}
}

func laItems(r *mc.Run, cov map[string]any) []laItem {
	var items []laItem
	n := 0
	for as := abi.As(1); as < loong64.ALAST; as++ {
		if f := os.Getenv("C17_AS"); f != "" && !strings.EqualFold(f, loong64.AsString(as, "")) {
			continue
		}
		f, ok := laFormats[loong64.AsFormatType(as)]
		if !ok {
			items = append(items, laItem{as, -1, false})
			continue
		}
		n++
		k := 0
		first := -1
		for i, s := range f.slots {
			if s.name != "" {
				if first < 0 {
					first = i
				}
				k++
			}
		}
		if k >= 3 || (f.hasImm && k >= 1) {
			for r0 := 0; r0 < len(laAlphabet(f.slots[first])); r0++ {
				items = append(items, laItem{as, r0, r.Thorough()})
			}
		} else {
			items = append(items, laItem{as, -1, r.Thorough()})
		}
	}
	cov["loong64_mnemonics"] = n
	return items
}
