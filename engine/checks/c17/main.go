//go:build go1.21

// C17: native instruction encoders agree with independent disassemblers.
package main

import (
	"os"
	"runtime/pprof"
	"slices"
	"sort"
	"sync"
	"sync/atomic"

	"wa-lang.org/wa/internal/zzverif/mc"
)

func main() {
	if pf := os.Getenv("C17_PROF"); pf != "" {
		f, _ := os.Create(pf)
		pprof.StartCPUProfile(f)
		defer pprof.StopCPUProfile()
	}
	r := mc.Start("C17")
	r.Rule("for every mnemonic the encoder tables list: operand shapes are discovered by probing the encoder (a shape is accepted when Encode returns without error or panic); every accepted shape is enumerated over all register tuples x immediate boundary alphabet and over every immediate of the accepted range x fixed register tuples (thorough: full products); each produced encoding is decoded by golang.org/x/arch, by Wa's own decoder and (batches) by llvm-mc and compared field by field in a canonical form; two outcomes are distinct when the decoded mnemonic differs")
	cov := map[string]any{}
	agg := newAggregator()
	only := os.Getenv("C17_ONLY") // debugging aid: riscv | loong64 | x64
	useLLVM := llvmAvailable() && os.Getenv("C17_NO_LLVM") == ""
	if useLLVM {
		if err := llvmInit(); err != nil {
			r.HarnessError("llvm tmp dir: %v", err)
		}
		defer llvmDone()
	} else {
		r.Assume("llvm-mc not available: second opinion skipped")
	}

	if only == "" || only == "riscv" {
		rr := &rvRunner{r: r, agg: agg, thorough: r.Thorough(), llvm: useLLVM}
		items := rvItems(r, cov)
		cov["riscv_work_items"] = len(items)
		mc.ParallelFor(len(items), func(i int) {
			if r.Expired() {
				r.Cap("deadline")
				return
			}
			rr.runItem(items[i])
		})
	}

	if only == "" || only == "loong64" {
		lr := &laRunner{r: r, agg: agg}
		items := laItems(r, cov)
		cov["loong64_work_items"] = len(items)
		mc.ParallelFor(len(items), func(i int) {
			if r.Expired() {
				r.Cap("deadline")
				return
			}
			lr.runItem(items[i])
		})
	}

	if only == "" || only == "x64" {
		xr := &xRunner{r: r, agg: agg, llvm: useLLVM}
		items := xItems(r, cov)
		cov["x64_work_items(mnemonic x shape)"] = len(items)
		var acc, rej atomic.Int64
		var mu sync.Mutex
		accBy := map[string]int64{}
		mc.ParallelFor(len(items), func(i int) {
			if r.Expired() {
				r.Cap("deadline")
				return
			}
			a, rj := xr.runItem(items[i])
			acc.Add(a)
			rej.Add(rj)
			r.Evals.Add(a)
			mu.Lock()
			accBy[items[i].name] += a
			mu.Unlock()
		})
		var never []string
		for _, it := range items {
			if accBy[it.name] == 0 {
				never = append(never, it.name)
			}
		}
		sort.Strings(never)
		never = slices.Compact(never)
		cov["x64_encodings_checked"] = acc.Load()
		cov["x64_well_typed_operand_combinations_rejected(panic/empty)"] = rej.Load()
		cov["x64_mnemonics_never_accepted"] = never
	}

	cov["llvm_mc_lines"] = llvmLines.Load()
	for k, v := range cov {
		r.Extra(k, v)
	}
	agg.flush(func(key, what string, replay any) { r.Report(key, what, replay) })
	llvmDone()
	pprof.StopCPUProfile()
	r.Finish()
}
