//go:build go1.21

// C17: native instruction encoders agree with independent disassemblers.
package main

import (
	"os"
	"slices"
	"sort"
	"sync"
	"sync/atomic"

	"wa-lang.org/wa/internal/zzverif/mc"
)

func main() {
	r := mc.Start("C17")
	r.Rule("for every mnemonic the encoder tables list: operand shapes are discovered by probing the encoder (a shape is accepted when Encode returns without error or panic); every accepted shape is enumerated over all register tuples x immediate boundary alphabet and over every immediate of the accepted range x fixed register tuples (thorough: full products); each produced encoding is decoded by golang.org/x/arch, by Wa's own decoder and (batches) by llvm-mc and compared field by field in a canonical form; two outcomes are distinct when the decoded mnemonic differs")
	cov := map[string]any{}
	agg := newAggregator()
	only := os.Getenv("C17_ONLY") // debugging aid: riscv | loong64 | x64
	useLLVM := llvmAvailable() && os.Getenv("C17_NO_LLVM") == ""
	if useLLVM {
		if err := llvmInit(); err != nil {
			r.HarnessError("llvm tmp dir: %v", err)
		}
		defer llvmDone()
	} else {
		r.Assume("llvm-mc not available: second opinion skipped")
	}

	if only == "" || only == "riscv" {
		rr := &rvRunner{r: r, agg: agg, thorough: r.Thorough(), llvm: useLLVM}
		items := rvItems(r, cov)
		cov["riscv_work_items"] = len(items)
		mc.ParallelFor(len(items), func(i int) {
			if r.Expired() {
				r.Cap("deadline")
				return
			}
			rr.runItem(items[i])
		})
		rr.flushLLVM()
	}

	if only == "" || only == "loong64" {
		lr := &laRunner{r: r, agg: agg}
		items := laItems(r, cov)
		cov["loong64_work_items"] = len(items)
		mc.ParallelFor(len(items), func(i int) {
			if r.Expired() {
				r.Cap("deadline")
				return
			}
			lr.runItem(items[i])
		})
	}

	if only == "" || only == "x64" {
		xr := &xRunner{r: r, agg: agg, llvm: useLLVM}
		items := xItems(r, cov)
		cov["x64_work_items(mnemonic x shape)"] = len(items)
		var acc, rej atomic.Int64
		var mu sync.Mutex
		accBy := map[string]int64{}
		mc.ParallelFor(len(items), func(i int) {
			if r.Expired() {
				r.Cap("deadline")
				return
			}
			a, rj := xr.runItem(items[i])
			acc.Add(a)
			rej.Add(rj)
			r.Evals.Add(a)
			mu.Lock()
			accBy[items[i].name] += a
			mu.Unlock()
		})
		xr.flushLLVM()
		var never []string
		for _, it := range items {
			if accBy[it.name] == 0 {
				never = append(never, it.name)
			}
		}
		sort.Strings(never)
		never = slices.Compact(never)
		cov["x64_encodings_checked"] = acc.Load()
		cov["x64_well_typed_operand_combinations_rejected(panic/empty)"] = rej.Load()
		cov["x64_mnemonics_never_accepted"] = never
	}

	if only == "" || only == "arm64" {
		arm64Probe(r, cov)
	}

	r.Bound("register_alphabet", "all 32 (RISC-V, LoongArch: all X/F, 8 FCC, 4 FCSR) / all 16 per class + ah..bh + 8 xmm + rip + none (x86-64 base)")
	r.Bound("immediate_boundary_alphabet", len(immBoundary))
	r.Bound("immediate_dense_range", "every value of the accepted hull, clipped to +-(2^(field width+alignment)+8) and to +-(2^21+16) (thorough, 4-byte aligned branch offsets: +-(2^26+16))")
	r.Bound("x64_displacements", len(xDisps))
	r.Bound("thorough_full_product_limit", "register tuples x dense immediates when the product is <= 2^27 per mnemonic")
	r.Assume("an operand combination is 'accepted' when Encode returns without error and without panic; combinations that panic (all RISC-V pseudo-instructions, RISC-V FP ops given F registers, most x86-64 SSE/8-bit/16-bit register forms) are outside the property and only counted")
	r.Assume("immediates: equal, or equal bit pattern of the encoded field with the value inside the union of the field's signed and unsigned range (documented in loong64/encode.go; lui x1,-1 == lui x1,0xfffff)")
	r.Assume("LoongArch: Wa's opcode table loong64/a_out.go (mask/value pairs) shares provenance with x/arch loong64asm's table and no second LoongArch disassembler exists here (llvm-14 has no LoongArch target): the oracle is independent of Wa's operand packing, NOT of the opcode constants")
	r.Assume("LoongArch si14 (LL/SC/LDPTR/STPTR) and ALSL sa2 are compared as raw field values (Wa's Imm convention), x/arch shows the assembler-level value (si14<<2, sa2+1)")
	r.Assume("x86-64: only operand shapes expressible in Intel syntax for the mnemonic are demanded (sizes agree, immediate fits); Wa's operand model has no index/scale, so the scale/index dimension is empty; only xmm0-7 exist in Wa's register file")
	r.Assume("RV32 mode shares the code path of RV64 except the shamt range: it is enumerated with per-slot register sweeps and all immediates, RV64 with full register products")
	r.Assume("AArch64: arm64.EncodeARM64 is panic(\"TODO\") at this commit: 0 accepted encodings, clause vacuous")
	r.Assume("the rounding-mode field of RISC-V FP instructions is not an operand of Wa's encoder (always RNE) and is not compared")

	cov["llvm_mc_lines"] = llvmLines.Load()
	for k, v := range cov {
		r.Extra(k, v)
	}
	agg.flush(func(key, what string, replay any) { r.Report(key, what, replay) })
	if only == "" && r.DistinctCount() < 300 {
		r.HarnessError("vacuous: only %d distinct correctly decoded mnemonics", r.DistinctCount())
	}
	if r.WantSample() {
		r.Sample(map[string]any{"arch": "riscv", "asked": "addi rd=x5 rs1=x6 imm=-3", "encoding": "ffd30293", "xarch": "ADDI x5,x6,-3", "llvm": "addi x5, x6, -3", "wa_decode": "ADDI X5, X6, -3"})
		r.Sample(map[string]any{"arch": "loong64", "asked": "addi.d rd=x4 rj=x5 imm=4095", "encoding": "02fffca4", "xarch": "ADDI.D rd=r4 rj=r5 si12=-1 (alias of 4095)"})
		r.Sample(map[string]any{"arch": "x64", "asked": "add dword ptr [rbp-16], 1000", "encoding": "81 45 f0 e8 03 00 00", "xarch": "add dword ptr [rbp-0x10], 0x3e8"})
	}
	llvmDone()
	r.Finish()
}
