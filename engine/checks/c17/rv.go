//go:build go1.21

package main

import (
	"encoding/binary"
	"fmt"
	"os"
	"sort"
	"strconv"
	"strings"
	"sync"

	"wa-lang.org/wa/internal/native/abi"
	"wa-lang.org/wa/internal/native/riscv"
	"wa-lang.org/wa/internal/zzverif/mc"
	"wa-lang.org/wa/internal/zzverif/xarch/riscv64asm"
)

// ---- frozen mnemonic / operand mapping (RISC-V) ------------------------------------------------
//
// Mnemonics: Wa's name (riscv.AsString, e.g. "FADD_S") is lower-cased with '_' -> '.', and has to
// equal x/arch's Op.String() lower-cased ("fadd.s") and llvm-mc's mnemonic (-M no-aliases).
// Operands: Wa's Rd/Rs1/Rs2/Rs3/Imm slots are the fields rd/rs1/rs2/rs3/imm; the oracle side
// takes field names from x/arch's own format table (role of each argument) and, for llvm-mc, from
// the operand position in the manual's assembly syntax (same order as x/arch's roles).
//
// Exceptions (complete list):
//  E1 CSRRWI/CSRRSI/CSRRCI: Wa passes the 5-bit zimm as X-register number in Rs1 (asm.go prints
//     regI(Rs1)); the oracle's zimm is compared with that register number.
//  E2 CSR*: Wa's Imm is the CSR number; llvm prints known CSRs by name: only fflags/frm/fcsr/
//     cycle/time/instret are mapped, every other name is a wildcard for llvm (x/arch still checks
//     the number).
//  E3 FENCE/ECALL/EBREAK: Wa's table demands an rd and an rs1 although the instructions have
//     none; rd=X0 / rs1=X0 (and imm=0 for ECALL/EBREAK) are taken as "no operand".
//     FENCE's imm is the 12-bit fm|pred|succ field.
//  E4 x/arch does not decode the rounding-mode field and llvm prints it as an extra operand
//     (rne/rtz/...); Wa's argument has no rounding mode, the field is not compared.
//  E5 U-type: x/arch/llvm show the 20-bit field as unsigned, Wa also takes negative values;
//     equal when the 20-bit pattern is equal and the value lies in [-2^19, 2^20).
//  E7 JAL without rd means rd=x0 (encode.go: "jal 伪指令和基础指令同名, 但是 rd 参数可选").
//  E6 pseudo-instructions are compared with their expansion from the RISC-V assembly manual
//     (table rvPseudo below).

var rvRoleField = map[string]string{
	"rd": "rd", "fd": "rd", "rs1": "rs1", "fs1": "rs1", "rs2": "rs2", "fs2": "rs2", "rs3": "rs3", "fs3": "rs3",
	"rs1_ptr": "rs1", "rs1_mem": "rs1", "rs1_store": "rs1", "zimm": "rs1",
}

var rvRoleKind = map[string]byte{
	"rd": 'x', "fd": 'f', "rs1": 'x', "fs1": 'f', "rs2": 'x', "fs2": 'f', "rs3": 'x', "fs3": 'f',
	"rs1_ptr": 'x', "rs1_mem": 'x', "rs1_store": 'x', "zimm": 'x',
}

// RV64-only mnemonics (unprivileged ISA manual: RV64I, RV64M, RV64F, RV64D listings).
var rv64Only = map[string]bool{
	"lwu": true, "ld": true, "sd": true, "addiw": true, "slliw": true, "srliw": true, "sraiw": true,
	"addw": true, "subw": true, "sllw": true, "srlw": true, "sraw": true,
	"mulw": true, "divw": true, "divuw": true, "remw": true, "remuw": true,
	"fcvt.l.s": true, "fcvt.lu.s": true, "fcvt.s.l": true, "fcvt.s.lu": true,
	"fcvt.l.d": true, "fcvt.lu.d": true, "fmv.x.d": true, "fcvt.d.l": true, "fcvt.d.lu": true, "fmv.d.x": true,
}

// pseudo-instruction expansions: base mnemonic and, per base field, where the value comes from:
// "rd","rs1","rs2" = the pseudo's own slot, "x0","x1" = fixed register, "imm" = pseudo's imm,
// "=N" = constant.
type rvPseudoSpec struct {
	base string
	f    map[string]string
}

var rvPseudo = map[string]rvPseudoSpec{
	"nop":    {"addi", map[string]string{"rd": "x0", "rs1": "x0", "imm": "=0"}},
	"mv":     {"addi", map[string]string{"rd": "rd", "rs1": "rs1", "imm": "=0"}},
	"not":    {"xori", map[string]string{"rd": "rd", "rs1": "rs1", "imm": "=-1"}},
	"neg":    {"sub", map[string]string{"rd": "rd", "rs1": "x0", "rs2": "rs1"}},
	"negw":   {"subw", map[string]string{"rd": "rd", "rs1": "x0", "rs2": "rs1"}},
	"sext.w": {"addiw", map[string]string{"rd": "rd", "rs1": "rs1", "imm": "=0"}},
	"seqz":   {"sltiu", map[string]string{"rd": "rd", "rs1": "rs1", "imm": "=1"}},
	"snez":   {"sltu", map[string]string{"rd": "rd", "rs1": "x0", "rs2": "rs1"}},
	"sltz":   {"slt", map[string]string{"rd": "rd", "rs1": "rs1", "rs2": "x0"}},
	"sgtz":   {"slt", map[string]string{"rd": "rd", "rs1": "x0", "rs2": "rs1"}},
	"fmv.s":  {"fsgnj.s", map[string]string{"rd": "rd", "rs1": "rs1", "rs2": "rs1"}},
	"fabs.s": {"fsgnjx.s", map[string]string{"rd": "rd", "rs1": "rs1", "rs2": "rs1"}},
	"fneg.s": {"fsgnjn.s", map[string]string{"rd": "rd", "rs1": "rs1", "rs2": "rs1"}},
	"fmv.d":  {"fsgnj.d", map[string]string{"rd": "rd", "rs1": "rs1", "rs2": "rs1"}},
	"fabs.d": {"fsgnjx.d", map[string]string{"rd": "rd", "rs1": "rs1", "rs2": "rs1"}},
	"fneg.d": {"fsgnjn.d", map[string]string{"rd": "rd", "rs1": "rs1", "rs2": "rs1"}},
	"beqz":   {"beq", map[string]string{"rs1": "rs1", "rs2": "x0", "imm": "imm"}},
	"bnez":   {"bne", map[string]string{"rs1": "rs1", "rs2": "x0", "imm": "imm"}},
	"blez":   {"bge", map[string]string{"rs1": "x0", "rs2": "rs1", "imm": "imm"}},
	"bgez":   {"bge", map[string]string{"rs1": "rs1", "rs2": "x0", "imm": "imm"}},
	"bltz":   {"blt", map[string]string{"rs1": "rs1", "rs2": "x0", "imm": "imm"}},
	"bgtz":   {"blt", map[string]string{"rs1": "x0", "rs2": "rs1", "imm": "imm"}},
	"bgt":    {"blt", map[string]string{"rs1": "rs2", "rs2": "rs1", "imm": "imm"}},
	"ble":    {"bge", map[string]string{"rs1": "rs2", "rs2": "rs1", "imm": "imm"}},
	"bgtu":   {"bltu", map[string]string{"rs1": "rs2", "rs2": "rs1", "imm": "imm"}},
	"bleu":   {"bgeu", map[string]string{"rs1": "rs2", "rs2": "rs1", "imm": "imm"}},
	"j":      {"jal", map[string]string{"rd": "x0", "imm": "imm"}},
	"jr":     {"jalr", map[string]string{"rd": "x0", "rs1": "rs1", "imm": "=0"}},
	"ret":    {"jalr", map[string]string{"rd": "x0", "rs1": "x1", "imm": "=0"}},
	// counters / CSR
	"rdinstret": {"csrrs", map[string]string{"rd": "rd", "rs1": "x0", "imm": "=3074"}},
	"rdcycle":   {"csrrs", map[string]string{"rd": "rd", "rs1": "x0", "imm": "=3072"}},
	"rdtime":    {"csrrs", map[string]string{"rd": "rd", "rs1": "x0", "imm": "=3073"}},
	"csrr":      {"csrrs", map[string]string{"rd": "rd", "rs1": "x0", "imm": "imm"}},
	"csrw":      {"csrrw", map[string]string{"rd": "x0", "rs1": "rs1", "imm": "imm"}},
	"csrs":      {"csrrs", map[string]string{"rd": "x0", "rs1": "rs1", "imm": "imm"}},
	"csrc":      {"csrrc", map[string]string{"rd": "x0", "rs1": "rs1", "imm": "imm"}},
	"csrwi":     {"csrrwi", map[string]string{"rd": "x0", "rs1": "rs1", "imm": "imm"}},
	"csrsi":     {"csrrsi", map[string]string{"rd": "x0", "rs1": "rs1", "imm": "imm"}},
	"csrci":     {"csrrci", map[string]string{"rd": "x0", "rs1": "rs1", "imm": "imm"}},
	"frcsr":     {"csrrs", map[string]string{"rd": "rd", "rs1": "x0", "imm": "=3"}},
	"fscsr":     {"csrrw", map[string]string{"rd": "rd?", "rs1": "rs1", "imm": "=3"}},
	"frrm":      {"csrrs", map[string]string{"rd": "rd", "rs1": "x0", "imm": "=2"}},
	"fsrm":      {"csrrw", map[string]string{"rd": "rd?", "rs1": "rs1", "imm": "=2"}},
	"frflags":   {"csrrs", map[string]string{"rd": "rd", "rs1": "x0", "imm": "=1"}},
	"fsflags":   {"csrrw", map[string]string{"rd": "rd?", "rs1": "rs1", "imm": "=1"}},
}

var rvLLVMCSR = map[string]int64{"fflags": 1, "frm": 2, "fcsr": 3, "cycle": 0xc00, "time": 0xc01, "instret": 0xc02}

func rvCanonName(s string) string {
	return strings.ReplaceAll(strings.ToLower(s), "_", ".")
}

// per-mnemonic caches (hot path)
var rvNameOfAs = func() []string {
	out := make([]string, riscv.ALAST+1)
	for as := abi.As(0); as <= riscv.ALAST; as++ {
		out[as] = rvCanonName(riscv.AsString(as, ""))
	}
	return out
}()

var rvXarchName = func() map[riscv64asm.Op]string {
	m := map[riscv64asm.Op]string{}
	for op := range riscv64asm.VerifRoles {
		m[op] = strings.ToLower(op.String())
	}
	return m
}()

var rvGroupName = func() (g [128]string) {
	for i := range g {
		g[i] = fmt.Sprintf("opcode-%07b", i)
	}
	return
}()

func rvRegKind(r abi.RegType) (byte, int64, bool) {
	switch {
	case r >= riscv.REG_X0 && r <= riscv.REG_X31:
		return 'x', int64(r - riscv.REG_X0), true
	case r >= riscv.REG_F0 && r <= riscv.REG_F31:
		return 'f', int64(r - riscv.REG_F0), true
	}
	return 0, 0, false
}

// rvExpected renders what Wa was asked to encode.
func rvExpected(as abi.As, arg *abi.AsArgument, hasImm bool) cinst {
	name := "?"
	if as >= 0 && int(as) < len(rvNameOfAs) {
		name = rvNameOfAs[as]
	}
	var c cinst
	slot := func(n string, r abi.RegType) {
		if r == 0 {
			return
		}
		k, v, ok := rvRegKind(r)
		if !ok {
			c.add(n, 'n', int64(r))
			return
		}
		c.add(n, k, v)
	}
	if sp, ok := rvPseudo[name]; ok { // E6
		c.Op = sp.base
		val := func(src string) (byte, int64, bool) {
			switch {
			case src == "x0":
				return 'x', 0, true
			case src == "x1":
				return 'x', 1, true
			case src == "rd?":
				if arg.Rd == 0 {
					return 'x', 0, true
				}
				k, v, _ := rvRegKind(arg.Rd)
				return k, v, true
			case src == "rd":
				k, v, _ := rvRegKind(arg.Rd)
				return k, v, true
			case src == "rs1":
				k, v, _ := rvRegKind(arg.Rs1)
				return k, v, true
			case src == "rs2":
				k, v, _ := rvRegKind(arg.Rs2)
				return k, v, true
			case src == "imm":
				return 'i', int64(arg.Imm), true
			case strings.HasPrefix(src, "="):
				n, _ := strconv.ParseInt(src[1:], 10, 64)
				return 'i', n, true
			}
			return 0, 0, false
		}
		for _, f := range []string{"rd", "rs1", "rs2", "imm"} {
			if src, ok := sp.f[f]; ok {
				k, v, _ := val(src)
				c.add(f, k, v)
			}
		}
		return c
	}
	c.Op = name
	switch name {
	case "fence", "ecall", "ebreak": // E3
		if arg.Rd != riscv.REG_X0 {
			slot("rd", arg.Rd)
		}
		if arg.Rs1 != riscv.REG_X0 {
			slot("rs1", arg.Rs1)
		}
		if name == "fence" || arg.Imm != 0 {
			c.add("imm", 'i', int64(arg.Imm))
		}
		return c
	}
	if name == "jal" && arg.Rd == 0 { // E7
		c.add("rd", 'x', 0)
	}
	slot("rd", arg.Rd)
	slot("rs1", arg.Rs1)
	slot("rs2", arg.Rs2)
	slot("rs3", arg.Rs3)
	if hasImm {
		c.add("imm", 'i', int64(arg.Imm))
	}
	return c
}

// rvFromXarch maps an x/arch instruction to the canonical form.
func rvFromXarch(inst riscv64asm.Inst) (cinst, bool) {
	var c cinst
	c.Op = rvXarchName[inst.Op]
	roles, ok := riscv64asm.VerifRoles[inst.Op]
	if !ok {
		c.Op = strings.ToLower(inst.Op.String())
		return c, false
	}
	if c.Op == "fence" { // E3
		f := c.add("imm", 'u', int64(inst.Enc>>20))
		f.W = 12
		if rd := int64(inst.Enc >> 7 & 31); rd != 0 {
			c.add("rd", 'x', rd)
		}
		if rs1 := int64(inst.Enc >> 15 & 31); rs1 != 0 {
			c.add("rs1", 'x', rs1)
		}
		return c, true
	}
	for i, role := range roles {
		a := inst.Args[i]
		if a == nil {
			return c, false
		}
		switch role {
		case "rd", "rs1", "rs2", "rs3", "fd", "fs1", "fs2", "fs3":
			r := a.(riscv64asm.Reg)
			if r >= riscv64asm.F0 {
				c.add(rvRoleField[role], 'f', int64(r-riscv64asm.F0))
			} else {
				c.add(rvRoleField[role], 'x', int64(r))
			}
		case "rs1_ptr":
			c.add("rs1", 'x', int64(a.(riscv64asm.RegPtr).VerifReg()))
		case "rs1_mem", "rs1_store":
			ro := a.(riscv64asm.RegOffset)
			c.add("rs1", 'x', int64(ro.OfsReg))
			c.add("imm", 'i', int64(ro.Ofs.Imm)).W = 12
		case "imm12", "simm12":
			c.add("imm", 'i', int64(a.(riscv64asm.Simm).Imm)).W = 12
		case "bimm12":
			f := c.add("imm", 'i', int64(a.(riscv64asm.Simm).Imm))
			f.W, f.Sh = 12, 1
		case "jimm20":
			f := c.add("imm", 'i', int64(a.(riscv64asm.Simm).Imm))
			f.W, f.Sh = 20, 1
		case "imm20":
			c.add("imm", 'u', int64(a.(riscv64asm.Uimm).Imm)).W = 20
		case "shamt5":
			c.add("imm", 'u', int64(a.(riscv64asm.Uimm).Imm)).W = 5
		case "shamt6":
			c.add("imm", 'u', int64(a.(riscv64asm.Uimm).Imm)).W = 6
		case "csr":
			c.add("imm", 'u', int64(a.(riscv64asm.CSR))).W = 12
		case "zimm": // E1
			c.add("rs1", 'x', int64(a.(riscv64asm.Uimm).Imm))
		default:
			return c, false
		}
	}
	return c, true
}

var rvOpByName = func() map[string]riscv64asm.Op {
	m := map[string]riscv64asm.Op{}
	for op := range riscv64asm.VerifRoles {
		m[strings.ToLower(op.String())] = op
	}
	return m
}()

var rvRoundingModes = map[string]bool{"rne": true, "rtz": true, "rdn": true, "rup": true, "rmm": true, "dyn": true}

// rvFromLLVM parses one line of llvm-mc output (-M no-aliases -M numeric).
func rvFromLLVM(text string, enc uint32) (cinst, bool) {
	var c cinst
	text = strings.TrimSpace(text)
	mn, rest, _ := strings.Cut(text, "\t")
	c.Op = strings.TrimSpace(mn)
	op, ok := rvOpByName[c.Op]
	if !ok {
		return c, false
	}
	roles := riscv64asm.VerifRoles[op]
	var opnds []string
	if strings.TrimSpace(rest) != "" {
		for _, o := range strings.Split(rest, ",") {
			opnds = append(opnds, strings.TrimSpace(o))
		}
	}
	if c.Op == "fence" { // E3
		f := c.add("imm", 'u', int64(enc>>20))
		f.W = 12
		return c, len(opnds) == 2
	}
	if n := len(opnds); n > 0 && rvRoundingModes[opnds[n-1]] { // E4
		opnds = opnds[:n-1]
	}
	if len(opnds) != len(roles) {
		return c, false
	}
	reg := func(s string) (byte, int64, bool) {
		if len(s) < 2 || (s[0] != 'x' && s[0] != 'f') {
			return 0, 0, false
		}
		n, err := strconv.Atoi(s[1:])
		if err != nil {
			return 0, 0, false
		}
		return s[0], int64(n), true
	}
	for i, role := range roles {
		o := opnds[i]
		switch role {
		case "rd", "rs1", "rs2", "rs3", "fd", "fs1", "fs2", "fs3":
			k, v, ok := reg(o)
			if !ok {
				return c, false
			}
			c.add(rvRoleField[role], k, v)
		case "rs1_ptr":
			k, v, ok := reg(strings.Trim(o, "()"))
			if !ok {
				return c, false
			}
			c.add("rs1", k, v)
		case "rs1_mem", "rs1_store":
			p := strings.Index(o, "(")
			if p < 0 {
				return c, false
			}
			n, err := strconv.ParseInt(o[:p], 10, 64)
			k, v, ok := reg(strings.Trim(o[p:], "()"))
			if err != nil || !ok {
				return c, false
			}
			c.add("rs1", k, v)
			c.add("imm", 'i', n).W = 12
		case "imm12", "simm12", "bimm12", "jimm20", "imm20", "shamt5", "shamt6":
			n, err := strconv.ParseInt(o, 10, 64)
			if err != nil {
				return c, false
			}
			f := c.add("imm", 'i', n)
			switch role {
			case "imm12", "simm12":
				f.W = 12
			case "bimm12":
				f.W, f.Sh = 12, 1
			case "jimm20":
				f.W, f.Sh = 20, 1
			case "imm20":
				f.W, f.Kind = 20, 'u'
			case "shamt5":
				f.W, f.Kind = 5, 'u'
			case "shamt6":
				f.W, f.Kind = 6, 'u'
			}
		case "csr": // E2
			if n, err := strconv.ParseInt(o, 10, 64); err == nil {
				c.add("imm", 'u', n).W = 12
			} else if n, ok := rvLLVMCSR[o]; ok {
				c.add("imm", 'u', n).W = 12
			} else {
				c.add("imm", '?', 0)
			}
		case "zimm": // E1
			n, err := strconv.ParseInt(o, 10, 64)
			if err != nil {
				return c, false
			}
			c.add("rs1", 'x', n)
		default:
			return c, false
		}
	}
	return c, true
}

// ---- enumeration ---------------------------------------------------------------------------------

type rvShape struct {
	cls    [4]byte // per slot: 0 absent, 'x', 'f'
	hasImm bool
}

func (s rvShape) String() string {
	b := []byte("----")
	for i, c := range s.cls {
		if c != 0 {
			b[i] = c
		}
	}
	if s.hasImm {
		return string(b) + "+imm"
	}
	return string(b)
}

func (s rvShape) nregs() int {
	n := 0
	for _, c := range s.cls {
		if c != 0 {
			n++
		}
	}
	return n
}

func rvReg(cls byte, n int) abi.RegType {
	switch cls {
	case 'x':
		return riscv.REG_X0 + abi.RegType(n)
	case 'f':
		return riscv.REG_F0 + abi.RegType(n)
	}
	return 0
}

func rvEncode(xlen int, as abi.As, arg *abi.AsArgument) (x uint32, ok bool, how string) {
	defer func() {
		if e := recover(); e != nil {
			ok, how = false, "panic"
		}
	}()
	var err error
	if xlen == 32 {
		x, err = riscv.EncodeRV32(as, arg)
	} else {
		x, err = riscv.EncodeRV64(as, arg)
	}
	if err != nil {
		return 0, false, "error"
	}
	return x, true, ""
}

func rvDecodeWa(x uint32) (as abi.As, arg *abi.AsArgument, ok bool) {
	defer func() {
		if e := recover(); e != nil {
			ok = false
		}
	}()
	as, arg, err := riscv.Decode(x)
	return as, arg, err == nil && arg != nil
}

// immediate alphabets -------------------------------------------------------------------------

// immBoundary is the boundary alphabet used for every immediate field of every architecture:
// 0, small values, and ±2^k, ±(2^k±1), ±(2^k±2), ±(2^k±4) for every k up to 31, clipped to int32.
var immBoundary = func() []int32 {
	set := map[int64]bool{}
	for _, v := range []int64{0, 1, 2, 3, 4, 5, 6, 7, 8, 0x555, 0x2aa, 0x5555, 0x2aaa, 0x55555, 0x2aaaa, 0x5555555, 0x2aaaaaa, 0x55555555, 0x2aaaaaaa} {
		set[v], set[-v] = true, true
	}
	for k := uint(1); k <= 31; k++ {
		p := int64(1) << k
		for _, d := range []int64{0, 1, 2, 3, 4, 8} {
			for _, v := range []int64{p + d, p - d, -p + d, -p - d} {
				set[v] = true
			}
		}
	}
	var out []int32
	for v := range set {
		if v >= -1<<31 && v <= 1<<31-1 {
			out = append(out, int32(v))
		}
	}
	sort.Slice(out, func(i, j int) bool {
		a, b := int64(out[i]), int64(out[j])
		if a < 0 {
			a = -a
		}
		if b < 0 {
			b = -b
		}
		if a != b {
			return a < b
		}
		return out[i] > out[j]
	})
	return out
}()

// immPlan: given an acceptance predicate, find the accepted hull over the boundary alphabet and
// return (boundary values that are accepted, dense range [lo,hi] to scan exhaustively).
type immPlan struct {
	boundary []int32 // accepted members of immBoundary
	lo, hi   int64   // dense scan range (inclusive); lo>hi = none
	hullLo   int64
	hullHi   int64
}

func planImm(accept func(int32) bool, denseCap int64) immPlan {
	var p immPlan
	first := true
	for _, v := range immBoundary {
		if accept(v) {
			p.boundary = append(p.boundary, v)
			if first || int64(v) < p.hullLo {
				p.hullLo = int64(v)
			}
			if first || int64(v) > p.hullHi {
				p.hullHi = int64(v)
			}
			first = false
		}
	}
	if first {
		p.lo, p.hi = 0, -1
		return p
	}
	p.lo, p.hi = p.hullLo-8, p.hullHi+8
	if p.lo < -denseCap {
		p.lo = -denseCap
	}
	if p.hi > denseCap {
		p.hi = denseCap
	}
	return p
}

type rvItem struct {
	xlen  int
	as    abi.As
	shape rvShape
	r0    int  // value of the first register slot handled by this item (-1: all)
	full  bool // thorough-tier full products
}

func rvDiscoverShapes(xlen int, as abi.As) (shapes []rvShape, nerr, npanic int) {
	cls := []byte{0, 'x', 'f'}
	seen := map[[4]byte]int{}
	for s := 0; s < 81; s++ {
		sh := rvShape{cls: [4]byte{cls[s%3], cls[s/3%3], cls[s/9%3], cls[s/27%3]}}
		for _, imm := range []int32{0, 4} {
			arg := &abi.AsArgument{Rd: rvReg(sh.cls[0], 5), Rs1: rvReg(sh.cls[1], 6), Rs2: rvReg(sh.cls[2], 7), Rs3: rvReg(sh.cls[3], 8), Imm: imm}
			_, ok, how := rvEncode(xlen, as, arg)
			if ok {
				if imm != 0 {
					seen[sh.cls] |= 2
				} else {
					seen[sh.cls] |= 1
				}
			} else if how == "panic" {
				npanic++
			} else {
				nerr++
			}
		}
	}
	var keys [][4]byte
	for k := range seen {
		keys = append(keys, k)
	}
	sort.Slice(keys, func(i, j int) bool { return string(keys[i][:]) < string(keys[j][:]) })
	for _, k := range keys {
		shapes = append(shapes, rvShape{cls: k, hasImm: seen[k]&2 != 0})
	}
	return
}

type rvRunner struct {
	r        *mc.Run
	agg      *aggregator
	thorough bool
	llvm     bool
	qmu      sync.Mutex
	queue    []llvmCase
}

// rvCtx is the per-work-item state of the hot loop (no locks, no allocation on the good path).
type rvCtx struct {
	rr       *rvRunner
	xlen     int
	as       abi.As
	mnem     string
	sh       rvShape
	reported map[string]bool
	distinct map[string]bool
	evals    int64
}

func (cx *rvCtx) report(arch, oracle, field, class string, x uint32, arg *abi.AsArgument, exp *cinst, gotStr string, order int64) {
	k := arch + "|" + oracle + "|" + field + "|" + class
	if cx.reported[k] {
		return
	}
	cx.reported[k] = true
	group := rvGroupName[x&0x7f]
	if arch == "riscv32" {
		group = "all"
	}
	cx.rr.agg.add(&candidate{arch: arch, group: group, mnem: cx.mnem, oracle: oracle, field: field, class: class, order: order,
		what:   fmt.Sprintf("Encode%d(%s %s) = %08x; asked: [%s]; %s says: [%s]", cx.xlen, cx.mnem, rvArgString(arg), x, exp.String(), oracle, gotStr),
		replay: map[string]any{"arch": "riscv", "xlen": cx.xlen, "as": cx.mnem, "rd": int(arg.Rd), "rs1": int(arg.Rs1), "rs2": int(arg.Rs2), "rs3": int(arg.Rs3), "imm": arg.Imm, "encoding": fmt.Sprintf("%08x", x)}})
}

// check one accepted encoding against x/arch and Wa's decoder.
func (cx *rvCtx) check(arg *abi.AsArgument, x uint32, order int64) (good bool) {
	cx.evals++
	exp := rvExpected(cx.as, arg, cx.sh.hasImm)
	var b [4]byte
	binary.LittleEndian.PutUint32(b[:], x)
	inst, err := riscv64asm.Decode(b[:])
	if err != nil {
		cx.report("riscv", "xarch", "op", "undecodable", x, arg, &exp, err.Error(), order)
		return
	}
	got, ok := rvFromXarch(inst)
	if !ok {
		cx.report("riscv", "xarch", "op", "unmapped:"+got.Op, x, arg, &exp, inst.String(), order)
		return
	}
	if f, c := diff(&exp, &got); f != "" {
		cx.report("riscv", "xarch", f, c, x, arg, &exp, got.String(), order)
		return
	}
	if cx.xlen == 32 {
		if rv64Only[got.Op] {
			if !cx.reported["rv64only"] {
				cx.reported["rv64only"] = true
				cx.rr.agg.add(&candidate{arch: "riscv32", group: "all", mnem: "*", oracle: "isa", field: "op", class: "rv64-only-instruction-accepted", order: int64(cx.as)<<40 + order,
					what:   fmt.Sprintf("EncodeRV32(%s %s) = %08x is accepted, but %s exists only in RV64 (an RV32 disassembler rejects the encoding)", cx.mnem, rvArgString(arg), x, got.Op),
					replay: map[string]any{"arch": "riscv", "xlen": 32, "as": cx.mnem, "encoding": fmt.Sprintf("%08x", x)}})
			}
			return
		}
		if (got.Op == "slli" || got.Op == "srli" || got.Op == "srai") && x>>25&1 != 0 {
			cx.report("riscv32", "isa", "imm", "shamt-bit5-set", x, arg, &exp, got.String(), order)
			return
		}
	}
	// Wa's own decoder must give back the instruction
	as2, arg2, ok := rvDecodeWa(x)
	if !ok {
		cx.report("riscv", "wadecode", "op", "undecodable", x, arg, &exp, "error", order)
		return
	}
	back := rvExpected(as2, arg2, cx.sh.hasImm || arg2.Imm != 0)
	// immediates: width information comes from the x/arch field
	if g := got.get("imm"); g != nil {
		if bf := back.get("imm"); bf != nil {
			bf.W, bf.Sh = g.W, g.Sh
		}
	}
	if f, c := diff(&exp, &back); f != "" {
		cx.report("riscv", "wadecode", f, c, x, arg, &exp, back.String(), order)
		return
	}
	if f, ok := canonicalImm(&back, &got); !ok {
		cx.report("riscv", "wadecode", f, "imm:non-canonical-signedness", x, arg, &exp, back.String()+" (x/arch: "+got.String()+")", order)
		return
	}
	if !cx.distinct[got.Op] {
		cx.distinct[got.Op] = true
		cx.rr.r.Distinct("riscv|" + got.Op)
	}
	return true
}

func rvArgString(a *abi.AsArgument) string {
	var p []string
	for _, s := range []struct {
		n string
		r abi.RegType
	}{{"rd", a.Rd}, {"rs1", a.Rs1}, {"rs2", a.Rs2}, {"rs3", a.Rs3}} {
		if s.r != 0 {
			p = append(p, s.n+"="+riscv.RegString(s.r))
		}
	}
	p = append(p, fmt.Sprintf("imm=%d", a.Imm))
	return strings.Join(p, " ")
}

// llvmCase is one encoding queued for the llvm-mc second opinion.
type llvmCase struct {
	x              uint32
	rd, r1, r2, r3 abi.RegType
	imm            int32
	as             abi.As
	xlen           int8
	hasImm         bool
	order          int32
}

func (c llvmCase) arg() abi.AsArgument {
	return abi.AsArgument{Rd: c.rd, Rs1: c.r1, Rs2: c.r2, Rs3: c.r3, Imm: c.imm}
}

func (rr *rvRunner) runItem(it rvItem) {
	r := rr.r
	sh := it.shape
	var slots []int
	for i, c := range sh.cls {
		if c != 0 {
			slots = append(slots, i)
		}
	}
	k := len(slots)
	argBuf := new(abi.AsArgument)
	mkArg := func(regs [4]int, imm int32) *abi.AsArgument {
		a := argBuf
		*a = abi.AsArgument{Imm: imm}
		for i, c := range sh.cls {
			if c == 0 {
				continue
			}
			switch i {
			case 0:
				a.Rd = rvReg(c, regs[0])
			case 1:
				a.Rs1 = rvReg(c, regs[1])
			case 2:
				a.Rs2 = rvReg(c, regs[2])
			case 3:
				a.Rs3 = rvReg(c, regs[3])
			}
		}
		return a
	}
	base := [4]int{5, 6, 7, 8}
	var plan immPlan
	if sh.hasImm {
		plan = planImm(func(v int32) bool {
			_, ok, _ := rvEncode(it.xlen, it.as, mkArg(base, v))
			return ok
		}, 1<<21+16)
	} else {
		plan.boundary = []int32{0}
		plan.lo, plan.hi = 0, -1
	}
	var lc []llvmCase
	var order int64
	cx := &rvCtx{rr: rr, xlen: it.xlen, as: it.as, mnem: riscv.AsString(it.as, ""), sh: sh, reported: map[string]bool{}, distinct: map[string]bool{}}
	defer func() { r.Evals.Add(cx.evals) }()
	if it.r0 > 0 {
		order = int64(it.r0) << 40
	}
	one := func(regs [4]int, imm int32, toLLVM bool) {
		order++
		arg := mkArg(regs, imm)
		x, ok, _ := rvEncode(it.xlen, it.as, arg)
		if !ok {
			return
		}
		if cx.evals == 0 {
			rr.agg.member("riscv", rvGroupName[x&0x7f], cx.mnem)
		}
		good := cx.check(arg, x, order)
		if good && toLLVM && rr.llvm {
			lc = append(lc, llvmCase{x, arg.Rd, arg.Rs1, arg.Rs2, arg.Rs3, arg.Imm, it.as, int8(it.xlen), sh.hasImm, int32(len(lc))})
		}
	}
	// a reduced boundary list for the register-tuple product
	bsmall := plan.boundary
	if len(bsmall) > 48 {
		// keep the accepted boundary values nearest to the hull's ends and to zero
		keep := map[int32]bool{}
		srt := append([]int32(nil), plan.boundary...)
		sort.Slice(srt, func(i, j int) bool { return srt[i] < srt[j] })
		for i := 0; i < 12 && i < len(srt); i++ {
			keep[srt[i]], keep[srt[len(srt)-1-i]] = true, true
		}
		for i := 0; i < 24 && i < len(plan.boundary); i++ {
			keep[plan.boundary[i]] = true
		}
		bsmall = bsmall[:0:0]
		for _, v := range plan.boundary {
			if keep[v] {
				bsmall = append(bsmall, v)
			}
		}
	}
	// (A) all register tuples x boundary immediates
	total := 1
	for i := 0; i < k; i++ {
		total *= 32
	}
	for t := 0; t < total; t++ {
		var regs [4]int
		tt := t
		for _, s := range slots {
			regs[s] = tt % 32
			tt /= 32
		}
		if it.r0 >= 0 && k > 0 && regs[slots[0]] != it.r0 {
			continue
		}
		// llvm: each slot swept with the others at their base value
		sweep := false
		nd := 0
		for _, s := range slots {
			if regs[s] != base[s] {
				nd++
			}
		}
		sweep = nd <= 1
		for bi, imm := range bsmall {
			one(regs, imm, (sweep && bi < 14) || (it.full && k <= 3 && bi < 3))
		}
		if r.Expired() {
			r.Cap("deadline")
			return
		}
	}
	// (B) every immediate of the dense range x a few register tuples (thorough: x all tuples when
	// the product stays below 2^27)
	if sh.hasImm && plan.hi >= plan.lo {
		n := plan.hi - plan.lo + 1
		full := it.full && int64(total)*n <= 1<<27
		for t := 0; t < total; t++ {
			var regs [4]int
			tt := t
			for _, s := range slots {
				regs[s] = tt % 32
				tt /= 32
			}
			if it.r0 >= 0 && k > 0 && regs[slots[0]] != it.r0 {
				continue
			}
			isBase := true
			allSame := true
			for _, s := range slots {
				if regs[s] != base[s] {
					isBase = false
				}
				if regs[s] != regs[slots[0]] {
					allSame = false
				}
			}
			special := isBase || (n <= 1<<14 && allSame && k > 0 && (regs[slots[0]] == 0 || regs[slots[0]] == 31 || regs[slots[0]] == 21 || regs[slots[0]] == 10))
			if !full && !special {
				continue
			}
			if !full && n > 1<<14 && it.xlen == 32 {
				continue // RV32 shares the code path; wide fields are scanned densely in RV64 mode only
			}
			for v := plan.lo; v <= plan.hi; v++ {
				one(regs, int32(v), isBase && n <= 1<<13+32)
			}
			if r.Expired() {
				r.Cap("deadline")
				return
			}
		}
	}
	if rr.llvm && len(lc) > 0 {
		rr.enqueueLLVM(lc)
	}
}

// llvm-mc is started once per large batch (process start-up dominates otherwise).
const rvLLVMBatch = 1 << 20

func (rr *rvRunner) enqueueLLVM(lc []llvmCase) {
	rr.qmu.Lock()
	rr.queue = append(rr.queue, lc...)
	var batch []llvmCase
	if len(rr.queue) >= rvLLVMBatch {
		batch, rr.queue = rr.queue, nil
	}
	rr.qmu.Unlock()
	if batch != nil {
		rr.llvmCheck(batch)
	}
}

// flushLLVM processes what is left in the queue, split over the workers.
func (rr *rvRunner) flushLLVM() {
	rr.qmu.Lock()
	q := rr.queue
	rr.queue = nil
	rr.qmu.Unlock()
	if len(q) == 0 {
		return
	}
	n := mc.NWorkers()
	per := (len(q) + n - 1) / n
	mc.ParallelFor(n, func(i int) {
		lo, hi := i*per, min((i+1)*per, len(q))
		if lo < hi {
			rr.llvmCheck(q[lo:hi])
		}
	})
}

func (rr *rvRunner) llvmCheck(lc []llvmCase) {
	for _, xlen := range []int8{64, 32} {
		// dedupe by encoding (per mnemonic: the same encoding reached from two mnemonics is two cases)
		type dk struct {
			x  uint32
			as abi.As
		}
		seen := map[dk]bool{}
		var encs []uint32
		var cases []llvmCase
		for _, c := range lc {
			if c.xlen != xlen {
				continue
			}
			k := dk{c.x, c.as}
			if !seen[k] {
				seen[k] = true
				encs = append(encs, c.x)
				cases = append(cases, c)
			}
		}
		if len(cases) == 0 {
			continue
		}
		triple := "riscv64"
		if xlen == 32 {
			triple = "riscv32"
		}
		texts, err := llvmDisasmRV(triple, encs)
		if err != nil {
			rr.r.HarnessError("llvm-mc: %v", err)
			return
		}
		rr.r.Transitions.Add(int64(len(cases)))
		for i, c := range cases {
			arg := c.arg()
			mnem := riscv.AsString(c.as, "")
			report := func(field, class, gotStr string) {
				exp := rvExpected(c.as, &arg, c.hasImm)
				rr.agg.add(&candidate{arch: "riscv", group: rvGroupName[c.x&0x7f], mnem: mnem, oracle: "llvm", field: field, class: class, order: int64(c.order),
					what:   fmt.Sprintf("Encode%d(%s %s) = %08x; asked: [%s]; llvm-mc -triple=%s says: [%s]", xlen, mnem, rvArgString(&arg), c.x, exp.String(), triple, gotStr),
					replay: map[string]any{"arch": "riscv", "xlen": xlen, "as": mnem, "rd": int(arg.Rd), "rs1": int(arg.Rs1), "rs2": int(arg.Rs2), "rs3": int(arg.Rs3), "imm": arg.Imm, "encoding": fmt.Sprintf("%08x", c.x)}})
			}
			if texts[i] == "" {
				if xlen == 32 {
					// RV64-only encodings are reported once under the riscv32 key by check()
					var b [4]byte
					binary.LittleEndian.PutUint32(b[:], c.x)
					if inst, err := riscv64asm.Decode(b[:]); err == nil && rv64Only[strings.ToLower(inst.Op.String())] {
						continue
					}
					if c.x>>25&1 != 0 && c.x&0x7f == 0x13 {
						continue // shamt bit 5: reported by check()
					}
				}
				report("op", "undecodable", "invalid instruction encoding")
				continue
			}
			got, ok := rvFromLLVM(texts[i], c.x)
			if !ok {
				report("op", "unparsed:"+got.Op, texts[i])
				continue
			}
			exp := rvExpected(c.as, &arg, c.hasImm)
			if f, cl := diff(&exp, &got); f != "" {
				report(f, cl, strings.Join(strings.Fields(texts[i]), " "))
			}
		}
	}
}

// rvItems builds the work list.
func rvItems(r *mc.Run, cov map[string]any) []rvItem {
	var items []rvItem
	accepted, noshape := 0, []string{}
	var nerrT, npanicT int
	for _, xlen := range []int{64, 32} {
		for as := abi.As(1); as < riscv.ALAST; as++ {
			if f := os.Getenv("C17_AS"); f != "" && !strings.EqualFold(f, riscv.AsString(as, "")) {
				continue
			}
			shapes, nerr, npanic := rvDiscoverShapes(xlen, as)
			nerrT += nerr
			npanicT += npanic
			if len(shapes) == 0 {
				if xlen == 64 {
					noshape = append(noshape, riscv.AsString(as, ""))
				}
				continue
			}
			accepted++
			for _, sh := range shapes {
				k := sh.nregs()
				split := (sh.hasImm && k >= 1) || k >= 3
				full := r.Thorough() && xlen == 64
				if split {
					for r0 := 0; r0 < 32; r0++ {
						items = append(items, rvItem{xlen, as, sh, r0, full})
					}
				} else {
					items = append(items, rvItem{xlen, as, sh, -1, full})
				}
			}
		}
	}
	cov["riscv_mnemonics_with_accepted_shape(32+64)"] = accepted
	cov["riscv_mnemonics_never_accepted"] = noshape
	cov["riscv_shape_probes_rejected_by_error"] = nerrT
	cov["riscv_shape_probes_rejected_by_panic"] = npanicT
	return items
}
