//go:build go1.21

package main

import (
	"bytes"
	"fmt"
	"os"
	"os/exec"
	"path/filepath"
	"regexp"
	"strconv"
	"strings"
	"sync/atomic"
)

var llvmTmpDir string
var llvmSeq atomic.Int64
var llvmLines atomic.Int64

func llvmAvailable() bool {
	_, err := exec.LookPath("llvm-mc")
	return err == nil
}

func llvmInit() error {
	d, err := os.MkdirTemp("", "c17-llvm-")
	llvmTmpDir = d
	return err
}

func llvmDone() {
	if llvmTmpDir != "" {
		os.RemoveAll(llvmTmpDir)
	}
}

var llvmWarnRe = regexp.MustCompile(`(?m)^[^\n:]*:(\d+):\d+: warning: invalid instruction encoding`)

// llvmDisasmRV disassembles 32-bit encodings; result[i] is the instruction text ("" if llvm-mc
// reports "invalid instruction encoding" for input i).
func llvmDisasmRV(triple string, encs []uint32) ([]string, error) {
	out := make([]string, len(encs))
	const chunk = 400000
	for off := 0; off < len(encs); off += chunk {
		end := min(off+chunk, len(encs))
		var in bytes.Buffer
		for _, x := range encs[off:end] {
			fmt.Fprintf(&in, "0x%02x 0x%02x 0x%02x 0x%02x\n", x&255, x>>8&255, x>>16&255, x>>24)
		}
		name := filepath.Join(llvmTmpDir, fmt.Sprintf("rv%d.txt", llvmSeq.Add(1)))
		if err := os.WriteFile(name, in.Bytes(), 0o644); err != nil {
			return nil, err
		}
		cmd := exec.Command("llvm-mc", "--disassemble", "-triple="+triple, "-mattr=+m,+a,+f,+d", "-M", "no-aliases", "-M", "numeric", name)
		var so, se bytes.Buffer
		cmd.Stdout, cmd.Stderr = &so, &se
		err := cmd.Run()
		os.Remove(name)
		if err != nil {
			return nil, fmt.Errorf("%v: %s", err, tail(se.String()))
		}
		invalid := map[int]bool{}
		for _, m := range llvmWarnRe.FindAllStringSubmatch(se.String(), -1) {
			n, _ := strconv.Atoi(m[1])
			invalid[n-1] = true
		}
		var lines []string
		for _, l := range strings.Split(so.String(), "\n") {
			if strings.HasPrefix(l, "\t") && !strings.HasPrefix(l, "\t.") {
				lines = append(lines, l)
			}
		}
		if len(lines)+len(invalid) != end-off {
			return nil, fmt.Errorf("llvm-mc output misaligned: %d lines + %d invalid != %d inputs; stderr: %s", len(lines), len(invalid), end-off, tail(se.String()))
		}
		j := 0
		for i := 0; i < end-off; i++ {
			if invalid[i] {
				continue
			}
			out[off+i] = lines[j]
			j++
		}
		llvmLines.Add(int64(end - off))
	}
	return out, nil
}

func tail(s string) string {
	if len(s) > 600 {
		return s[len(s)-600:]
	}
	return s
}

// llvmDisasmX86 disassembles variable-length x86-64 encodings. llvm-mc treats its input as one
// byte stream, so every encoding is followed by a sentinel of 15 int3 bytes (longer than any
// instruction): result[i] is the list of instructions llvm-mc printed between the previous
// sentinel and the next one; a decode that swallowed sentinel bytes gets an extra
// "<sentinel short by n>" entry.
func llvmDisasmX86(codes [][]byte) ([][]string, error) {
	out := make([][]string, len(codes))
	const chunk = 40000
	const nsent = 15
	for off := 0; off < len(codes); off += chunk {
		end := min(off+chunk, len(codes))
		var in bytes.Buffer
		for _, c := range codes[off:end] {
			for _, b := range c {
				fmt.Fprintf(&in, "0x%02x ", b)
			}
			for k := 0; k < nsent; k++ {
				in.WriteString("0xcc ")
			}
			in.WriteByte('\n')
		}
		name := filepath.Join(llvmTmpDir, fmt.Sprintf("x86-%d.txt", llvmSeq.Add(1)))
		if err := os.WriteFile(name, in.Bytes(), 0o644); err != nil {
			return nil, err
		}
		cmd := exec.Command("llvm-mc", "--disassemble", "-triple=x86_64", "--output-asm-variant=1", name)
		var so, se bytes.Buffer
		cmd.Stdout, cmd.Stderr = &so, &se
		err := cmd.Run()
		os.Remove(name)
		if err != nil {
			return nil, fmt.Errorf("%v: %s", err, tail(se.String()))
		}
		var lines []string
		for _, l := range strings.Split(so.String(), "\n") {
			if strings.HasPrefix(l, "\t") && !strings.HasPrefix(l, "\t.") {
				lines = append(lines, strings.TrimSpace(l))
			}
		}
		p := 0
		for i := off; i < end; i++ {
			var insts []string
			for p < len(lines) && lines[p] != "int3" {
				insts = append(insts, strings.Join(strings.Fields(strings.ReplaceAll(lines[p], "\t", " ")), " "))
				p++
			}
			k := 0
			for p < len(lines) && lines[p] == "int3" && k < nsent {
				p++
				k++
			}
			if k != nsent {
				insts = append(insts, fmt.Sprintf("<sentinel short by %d>", nsent-k))
			}
			out[i] = insts
		}
		if p != len(lines) {
			return nil, fmt.Errorf("llvm-mc x86 output misaligned: %d of %d lines consumed", p, len(lines))
		}
		llvmLines.Add(int64(end - off))
	}
	return out, nil
}
