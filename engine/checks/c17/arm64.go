//go:build go1.21

package main

import (
	"fmt"

	"wa-lang.org/wa/internal/native/abi"
	"wa-lang.org/wa/internal/native/arm64"
	"wa-lang.org/wa/internal/zzverif/mc"
	"wa-lang.org/wa/internal/zzverif/xarch/arm64asm"
)

// AArch64: arm64.EncodeARM64 is `panic("TODO")` at the pinned commit. Every mnemonic of the
// table is probed with a plausible register tuple; anything that is accepted would be decoded
// by x/arch arm64asm and reported as an unmapped encoding (the mapping has to be written when an
// encoder exists). Zero accepted encodings = the clause is vacuous (coverage says so).
func arm64Probe(r *mc.Run, cov map[string]any) {
	accepted, probes := 0, 0
	for as := abi.As(1); as < arm64.ALAST; as++ {
		name := arm64.AsString(as, "")
		for _, arg := range []abi.AsArgument{{}, {Rd: 1, Rs1: 2, Rs2: 3}, {Rd: 1, Rs1: 2, Imm: 4}, {Rd: 1, Imm: 8}, {Imm: 4}} {
			probes++
			a := arg
			x, ok := func() (x uint32, ok bool) {
				defer func() {
					if e := recover(); e != nil {
						ok = false
					}
				}()
				x, err := arm64.EncodeARM64(as, &a)
				return x, err == nil
			}()
			if !ok {
				continue
			}
			accepted++
			r.Evals.Add(1)
			b := []byte{byte(x), byte(x >> 8), byte(x >> 16), byte(x >> 24)}
			inst, err := arm64asm.Decode(b)
			r.Report("arm64|"+name+"|xarch|op|no-frozen-mapping",
				fmt.Sprintf("arm64.EncodeARM64(%s) now returns %08x (x/arch: %v, err %v) but C17 has no operand mapping for AArch64 yet: extend engine/checks/c17/arm64.go", name, x, inst, err),
				map[string]any{"arch": "arm64", "as": name, "encoding": fmt.Sprintf("%08x", x)})
		}
	}
	cov["arm64_probes"] = probes
	cov["arm64_accepted_encodings"] = accepted
}
